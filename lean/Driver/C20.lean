import Driver.Loop
import MaltModel.Drv.C20
def main : IO Unit := Malt.Driver.run Malt.Drv.C20.handlers
