import Driver.Loop
import MaltModel.Drv.C16
def main : IO Unit := Malt.Driver.run Malt.Drv.C16.handlers
