import Driver.Loop
import MaltModel.Drv.C17
def main : IO Unit := Malt.Driver.run Malt.Drv.C17.handlers
