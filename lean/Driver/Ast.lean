import Driver.Loop
import MaltModel.Py.SexpAst
open Malt Malt.Py
/-- Self-test driver for the serialisation pair: `ast.stmt <sexp>` answers `print (parse x)`. -/
def astHandlers : Malt.Driver.Handlers := [
  ("ast.stmt", fun a => match a with
    | [x] => match parseStmt x with
      | some s => toString s.toSexp
      | none => "bad-node"
    | _ => "bad-args"),
  ("ast.expr", fun a => match a with
    | [x] => match parseExpr x with
      | some s => toString s.toSexp
      | none => "bad-node"
    | _ => "bad-args")]
def main : IO Unit := Malt.Driver.run astHandlers
