import MaltModel.Util.Sexp
/- Generic line-protocol loop shared by the per-property drivers. -/
namespace Malt.Driver
open Malt

abbrev Handlers := List (String × (List Sexp → String))

def dispatch (hs : Handlers) (line : String) : String :=
  match Sexp.parseAll line with
  | some (.atom op :: args) =>
    match hs.lookup op with
    | some h => h args
    | none => "bad-op"
  | _ => "bad-line"

partial def loop (hs : Handlers) (h : IO.FS.Stream) (out : IO.FS.Stream) : IO Unit := do
  let line ← h.getLine
  if line.isEmpty then return ()
  out.putStrLn (dispatch hs line)
  loop hs h out

/-- One request per input line, one answer per output line. -/
def run (hs : Handlers) : IO Unit := do
  let out ← IO.getStdout
  loop hs (← IO.getStdin) out
  out.flush

end Malt.Driver
