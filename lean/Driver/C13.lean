import Driver.Loop
import MaltModel.Drv.C13
def main : IO Unit := Malt.Driver.run Malt.Drv.C13.handlers
