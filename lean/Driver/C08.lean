import Driver.Loop
import MaltModel.Drv.C08
def main : IO Unit := Malt.Driver.run Malt.Drv.C08.handlers
