import Driver.Loop
import MaltModel.Drv.C02
def main : IO Unit := Malt.Driver.run Malt.Drv.C02.handlers
