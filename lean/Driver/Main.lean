import MaltModel.Util.Sexp
import MaltModel.Drv.C20
open Malt

/-- Line protocol: `<op> <sexp…>` → one answer line. Handlers are registered per property. -/
def handlers : List (String × (List Sexp → String)) :=
  Malt.Drv.C20.handlers

def dispatch (line : String) : String :=
  match Sexp.parseAll line with
  | some (.atom op :: args) =>
    match handlers.lookup op with
    | some h => h args
    | none => "bad-op"
  | _ => "bad-line"

partial def loop (h : IO.FS.Stream) (out : IO.FS.Stream) : IO Unit := do
  let line ← h.getLine
  if line.isEmpty then return ()
  out.putStrLn (dispatch line)
  loop h out

def main : IO Unit := do
  let out ← IO.getStdout
  loop (← IO.getStdin) out
  out.flush
