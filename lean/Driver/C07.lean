import Driver.Loop
import MaltModel.Drv.C07
def main : IO Unit := Malt.Driver.run Malt.Drv.C07.handlers
