import Driver.Loop
import MaltModel.Drv.C18
def main : IO Unit := Malt.Driver.run Malt.Drv.C18.handlers
