import Driver.Loop
import MaltModel.Drv.C10
def main : IO Unit := Malt.Driver.run Malt.Drv.C10.handlers
