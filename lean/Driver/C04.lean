import Driver.Loop
import MaltModel.Drv.C04
def main : IO Unit := Malt.Driver.run Malt.Drv.C04.handlers
