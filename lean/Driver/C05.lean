import Driver.Loop
import MaltModel.Drv.C05
def main : IO Unit := Malt.Driver.run Malt.Drv.C05.handlers
