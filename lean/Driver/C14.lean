import Driver.Loop
import MaltModel.Drv.C14
def main : IO Unit := Malt.Driver.run Malt.Drv.C14.handlers
