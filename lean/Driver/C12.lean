import Driver.Loop
import MaltModel.Drv.C12
def main : IO Unit := Malt.Driver.run Malt.Drv.C12.handlers
