import Driver.Loop
import MaltModel.Drv.C01J
def main : IO Unit := Malt.Driver.run Malt.Drv.C01J.handlers
