import Driver.Loop
import MaltModel.Drv.C03
def main : IO Unit := Malt.Driver.run Malt.Drv.C03.handlers
