import Driver.Loop
import MaltModel.Drv.C09
def main : IO Unit := Malt.Driver.run Malt.Drv.C09.handlers
