import Driver.Loop
import MaltModel.Drv.C19
def main : IO Unit := Malt.Driver.run Malt.Drv.C19.handlers
