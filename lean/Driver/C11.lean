import Driver.Loop
import MaltModel.Drv.C11
def main : IO Unit := Malt.Driver.run Malt.Drv.C11.handlers
