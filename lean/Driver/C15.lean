import Driver.Loop
import MaltModel.Drv.C15
def main : IO Unit := Malt.Driver.run Malt.Drv.C15.handlers
