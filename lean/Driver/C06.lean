import Driver.Loop
import MaltModel.Drv.C06
def main : IO Unit := Malt.Driver.run Malt.Drv.C06.handlers
