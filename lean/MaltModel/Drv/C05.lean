import MaltModel.Py.SexpAst
import MaltModel.Cfg.AstToCfg
import MaltModel.Cfg.Check
/- Driver handlers for the C05 correspondence (glue only; no theorem depends on this file). -/
namespace Malt.Drv.C05
open Malt Malt.Py Malt.Cfg

def sortNat (l : List Nat) : List Nat := (l.mergeSort (· ≤ ·)).eraseDups
def natsSexp (l : List Nat) : Sexp := .list (l.map Sexp.ofNat)
def setSexp (l : List Nat) : Sexp := natsSexp (sortNat l)

def pairLe (a b : Nat × Nat) : Bool := a.1 < b.1 || (a.1 == b.1 && a.2 ≤ b.2)
def edgesSexp (es : List (Nat × Nat)) : Sexp :=
  .list (((es.mergeSort pairLe).eraseDups).map fun (a, b) => .list [Sexp.ofNat a, Sexp.ofNat b])

def mapSexp (m : List (Nat × List Nat)) : Sexp :=
  .list ((m.mergeSort (fun a b => a.1 ≤ b.1)).map fun (k, v) => .list (Sexp.ofNat k :: (sortNat v).map Sexp.ofNat))

def tag (t : String) (x : Sexp) : Sexp := match x with
  | .list xs => .list (.atom t :: xs)
  | a => .list [.atom t, a]

def graphSexp (id : Nat) (g : Graph) : Sexp :=
  .list [Sexp.ofNat id,
    tag "nodes" (natsSexp g.nodes),
    .list (.atom "entry" :: (g.entry.toList.map Sexp.ofNat)),
    tag "exits" (setSexp g.exits),
    tag "errors" (setSexp g.errors),
    tag "edges" (edgesSexp g.edges),
    tag "prev" (mapSexp g.stmtPrev),
    tag "next" (mapSexp g.stmtNext),
    tag "roots" (setSexp g.roots)]

def resultSexp (r : Result) : Sexp :=
  match r.err with
  | some e => .list [.atom "error", .atom e]
  | none => .list (.atom "ok" :: ((r.cfgs.mergeSort (fun a b => a.1 ≤ b.1)).map fun (i, g) => graphSexp i g))

def outcomeName : Outcome → String
  | .normal => "normal" | .brk => "break" | .cont => "continue" | .ret => "return"
  | .raise => "raise" | .exempt => "exempt" | .fuel => "fuel"

def oracle? (x : Sexp) : Option (List Nat) := do
  let l ← x.list?
  l.mapM Sexp.nat?

def field? (name : String) (parts : List Sexp) : Option (List Sexp) :=
  parts.findSome? fun p => match p with
    | .list (.atom t :: rest) => if t == name then some rest else none
    | _ => none

def nats? (xs : List Sexp) : Option (List Nat) := xs.mapM Sexp.nat?

def pairsN? (xs : List Sexp) : Option (List (Nat × Nat)) :=
  xs.mapM fun p => match p with
    | .list [a, b] => do pure ((← a.nat?), (← b.nat?))
    | _ => none

def rows? (xs : List Sexp) : Option (List (Nat × List Nat)) :=
  xs.mapM fun p => match p with
    | .list (k :: vs) => do pure ((← k.nat?), (← nats? vs))
    | _ => none

/-- Parse a graph printed by `graphSexp` / by the harness for a REAL graph. -/
def graph? : Sexp → Option (Nat × Graph)
  | .list (fid :: parts) => do
      let entry ← field? "entry" parts
      let e ← nats? entry
      pure ((← fid.nat?),
        { nodes := (← nats? (← field? "nodes" parts)), entry := e.head?,
          exits := (← nats? (← field? "exits" parts)), errors := (← nats? (← field? "errors" parts)),
          edges := (← pairsN? (← field? "edges" parts)),
          stmtPrev := (← rows? (← field? "prev" parts)), stmtNext := (← rows? (← field? "next" parts)),
          owners := [], roots := (← nats? (← field? "roots" parts)) })
  | _ => none

def handlers : List (String × (List Sexp → String)) := [
  ("c05.wf", fun a => match a with
    | [x] => match graph? x with
      | some (_, g) => toString (Sexp.ofBool (wellFormed g))
      | none => "bad-args"
    | _ => "bad-args"),
  ("c05.pathcheck", fun a => match a with
    | [x, gx] => match parseStmt x, graph? gx with
      | some s, some (_, g) =>
          if pathCheck s g then "True"
          else
            let R := flowFn s
            let missing := R.req.filter (fun e => !g.edges.contains e)
            let badFinal := R.finals.filter (fun n => !(g.exits.contains n || g.errors.contains n))
            toString (Sexp.list [.atom "missing", edgesSexp missing, .atom "bad-final", setSexp badFinal,
                                 .atom "entry-ok", Sexp.ofBool (g.entry == (entryNodes s).head?)])
      | _, _ => "bad-args"
    | _ => "bad-args"),
  ("c05.hyp", fun a => match a with
    | [x] => match parseStmt x with
      | some s => toString (Sexp.list [Sexp.ofBool (fnSupported s), Sexp.ofBool (fnFrag3 s), Sexp.ofBool (fnDistinctKeys3 s),
                                       Sexp.ofBool (fnNoJumpInHandlerOfTryWithFinally s), Sexp.ofBool (fnDistinctOwnerIds s),
                                       Sexp.ofBool (fnParsedShape s), Sexp.ofBool (fnFrag2 s)])
      | none => "bad-node"
    | _ => "bad-args"),
  ("c05.owners", fun a => match a with
    | [x] => match parseStmt x with
      | some s => toString (Sexp.list ((fnOwnSpec s).map fun (n, ow) => Sexp.list (Sexp.ofNat n :: (sortNat ow).map Sexp.ofNat)))
      | none => "bad-node"
    | _ => "bad-args"),
  ("c05.visitors", fun _ => toString (Sexp.list (modelVisitors.map Sexp.atom))),
  ("c05.class", fun a => match a with
    | [x] => match parseStmt x with
      | some s => if fnNoJumpInHandlerOfTryWithFinally s then "none" else "jump_in_handler_of_try_with_finally"
      | none => "bad-node"
    | _ => "bad-args"),
  ("c05.graph", fun a => match a with
    | [x] => match parseStmt x with
      | some s => toString (resultSexp (build s))
      | none => "bad-node"
    | _ => "bad-args"),
  ("c05.walk", fun a => match a with
    | [x, .list vs] => match parseStmt x with
      | some s =>
          let outs := vs.map fun v => match oracle? v with
            | some ω =>
                let (tr, o, rest) := walkFn 100000 s ω
                Sexp.list [natsSexp tr, .atom (outcomeName o), Sexp.ofNat (ω.length - rest.length)]
            | none => .atom "bad-oracle"
          toString (Sexp.list outs)
      | none => "bad-node"
    | _ => "bad-args"),
  ("c05.supported", fun a => match a with
    | [x] => match parseStmt x with
      | some s => toString (Sexp.ofBool (fnSupported s))
      | none => "bad-node"
    | _ => "bad-args")
]

end Malt.Drv.C05
