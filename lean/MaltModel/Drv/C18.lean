import MaltModel.Conv.AnfSpec
import MaltModel.Py.SemAnfStd
import MaltModel.Py.SexpAst
/- Driver handlers for the C18 correspondence (glue only; no theorem depends on this file). -/
namespace Malt.Drv.C18
open Malt Malt.Py Malt.Anf Malt.SemAnf

def slot? : Sexp → Option (Option (List String))
  | .atom "any" => some none
  | .list xs => (xs.mapM Sexp.str?).map some
  | _ => none

def rule? : Sexp → Option Rule
  | .list [.atom "any", r] => do pure (.any (← r.bool?))
  | .list [.atom "edge", p, f, c, r] => do
      let p ← slot? p
      let f ← (match f with
        | .atom "any" => some none
        | .list [.atom "f", .atom s] => some (some s)
        | _ => none)
      let c ← slot? c
      pure (.edge ⟨p, f, c⟩ (← r.bool?))
  | _ => none

def config? : Sexp → Option Config
  | .atom "default" => some defaultConfig
  | .list rs => rs.mapM rule?
  | _ => none

def errSexp : AnfErr → Sexp
  | .valueError w => .list [.atom "err", .atom "ValueError", .atom w]
  | .assertionError => .list [.atom "err", .atom "AssertionError", .atom "-"]
  | .typeError => .list [.atom "err", .atom "TypeError", .atom "-"]
  | .unsupported k => .list [.atom "err", .atom "unsupported", .atom k]

partial def valSexp : Val → Sexp
  | .none => .atom "None"
  | .undef => .atom "undef"
  | .bool b => .list [.atom "bool", Sexp.ofBool b]
  | .int i => .list [.atom "int", Sexp.ofInt i]
  | .str r => .list [.atom "str", .atom r]
  | .tuple vs => .list (.atom "tuple" :: vs.map valSexp)
  | .list vs => .list (.atom "list" :: vs.map valSexp)
  | .set vs => .list (.atom "set" :: vs.map valSexp)
  | .dict ks vs => .list [.atom "dict", .list (ks.map valSexp), .list (vs.map valSexp)]
  | .slice a b c => .list [.atom "slice", valSexp a, valSexp b, valSexp c]
  | .fn n => .list [.atom "fn", .atom n]
  | .obj n => .list [.atom "obj", .atom n]
  | .exc t a => .list [.atom "exc", .atom t, valSexp a]

def eventSexp (e : Event) : Sexp :=
  .list [.atom e.what, .atom e.callee, .list (e.args.map valSexp),
         .list (e.kws.map fun (k, v) => .list [.atom k, valSexp v])]

def outcomeSexp : Outcome → Sexp
  | .normal => .atom "normal" | .brk => .atom "break" | .cont => .atom "continue"
  | .ret v => .list [.atom "return", valSexp v]
  | .raise v => .list [.atom "raise", valSexp v]

def obsSexp (r : SR) : Sexp :=
  let o := observe r
  .list [outcomeSexp o.1, .list (o.2.map eventSexp)]

def val? : Sexp → Option Val
  | .atom "None" => some .none
  | .list [.atom "int", i] => i.int?.map .int
  | .list [.atom "bool", b] => b.bool?.map .bool
  | _ => none

def handlers : List (String × (List Sexp → String)) := [
  ("c18.anf", fun a => match a with
    | [c, s] => match config? c, parseStmt s with
      | some cfg, some st => match anf cfg st with
        | .ok ss => toString (Sexp.list [.atom "ok", stmtsToSexp ss])
        | .error e => toString (errSexp e)
      | none, _ => "bad-config"
      | _, none => "bad-node"
    | _ => "bad-args"),
  ("c18.hazards", fun a => match a with
    | [c, s] => match config? c, parseStmt s with
      | some cfg, some st => toString (Sexp.ofStrs (hazards cfg st))
      | none, _ => "bad-config"
      | _, none => "bad-node"
    | _ => "bad-args"),
  -- is the program in the fragment of C18_sem_partial (and free of temporary-like names)?
  ("c18.frag", fun a => match a with
    | [c, s] => match config? c, parseStmt s with
      | some cfg, some st => toString (Sexp.ofBool (fragFn cfg st && (namesS st).all (fun x => !isTempName x)))
      | none, _ => "bad-config"
      | _, none => "bad-node"
    | _ => "bad-args"),
  -- run the small semantics on the function definition `s` applied to `args`
  ("c18.exec", fun a => match a with
    | [s, .list args] => match parseStmt s, args.mapM val? with
      | some st, some vs => toString (obsSexp (runFn stdOracle stdGlobals st vs))
      | _, _ => "bad-node"
    | _ => "bad-args"),
  -- model-transform, then run the small semantics on the result
  ("c18.anfexec", fun a => match a with
    | [c, s, .list args] => match config? c, parseStmt s, args.mapM val? with
      | some cfg, some st, some vs => match anf cfg st with
        | .ok [f] => toString (obsSexp (runFn stdOracle stdGlobals f vs))
        | .ok _ => "(err shape)"
        | .error e => toString (errSexp e)
      | _, _, _ => "bad-node"
    | _ => "bad-args")
]

end Malt.Drv.C18
