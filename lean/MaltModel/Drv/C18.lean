import MaltModel.Conv.AnfSpec
import MaltModel.Py.SemAnfStd
import MaltModel.Py.SexpAst
/- Driver handlers for the C18 correspondence (glue only; no theorem depends on this file). -/
namespace Malt.Drv.C18
open Malt Malt.Py Malt.Anf Malt.SemAnf

def slot? : Sexp → Option (Option (List String))
  | .atom "any" => some none
  | .list xs => (xs.mapM Sexp.str?).map some
  | _ => none

def rule? : Sexp → Option Rule
  | .list [.atom "any", r] => do pure (.any (← r.bool?))
  | .list [.atom "edge", p, f, c, r] => do
      let p ← slot? p
      let f ← (match f with
        | .atom "any" => some none
        | .list [.atom "f", .atom s] => some (some s)
        | _ => none)
      let c ← slot? c
      pure (.edge ⟨p, f, c⟩ (← r.bool?))
  | _ => none

def config? : Sexp → Option Config
  | .atom "default" => some defaultConfig
  | .list rs => rs.mapM rule?
  | _ => none

def errSexp : AnfErr → Sexp
  | .valueError w => .list [.atom "err", .atom "ValueError", .atom w]
  | .assertionError => .list [.atom "err", .atom "AssertionError", .atom "-"]
  | .typeError => .list [.atom "err", .atom "TypeError", .atom "-"]
  | .unsupported k => .list [.atom "err", .atom "unsupported", .atom k]

partial def valSexp : Val → Sexp
  | .none => .atom "None"
  | .undef => .atom "undef"
  | .bool b => .list [.atom "bool", Sexp.ofBool b]
  | .int i => .list [.atom "int", Sexp.ofInt i]
  | .str r => .list [.atom "str", .atom r]
  | .tuple vs => .list (.atom "tuple" :: vs.map valSexp)
  | .list vs => .list (.atom "list" :: vs.map valSexp)
  | .set vs => .list (.atom "set" :: vs.map valSexp)
  | .dict ks vs => .list [.atom "dict", .list (ks.map valSexp), .list (vs.map valSexp)]
  | .slice a b c => .list [.atom "slice", valSexp a, valSexp b, valSexp c]
  | .fn n => .list [.atom "fn", .atom n]
  | .obj n => .list [.atom "obj", .atom n]
  | .exc t a => .list [.atom "exc", .atom t, valSexp a]

def eventSexp (e : Event) : Sexp :=
  .list [.atom e.what, .atom e.callee, .list (e.args.map valSexp),
         .list (e.kws.map fun (k, v) => .list [.atom k, valSexp v])]

def outcomeSexp : Outcome → Sexp
  | .normal => .atom "normal" | .brk => .atom "break" | .cont => .atom "continue"
  | .ret v => .list [.atom "return", valSexp v]
  | .raise v => .list [.atom "raise", valSexp v]

def obsSexp (r : SR) : Sexp :=
  let o := observe r
  .list [outcomeSexp o.1, .list (o.2.map eventSexp)]

def val? : Sexp → Option Val
  | .atom "None" => some .none
  | .list [.atom "int", i] => i.int?.map .int
  | .list [.atom "bool", b] => b.bool?.map .bool
  | _ => none

/-! Why is a function outside the fragment of `C18_sem_partial`?  (evidence only; mirrors `fragE`/`fragS`) -/
mutual
partial def whyE : Expr → List String
  | .name .. => []
  | .const .. => []
  | .attr _ v _ _ => whyE v ++ (if noWalrus v then [] else ["expr:walrus-inside-attribute/subscript/display"])
  | .subscript _ v s _ => whyE v ++ whyE s ++ (if noWalrus v && noWalrus s then [] else ["expr:walrus-inside-attribute/subscript/display"])
  | .call _ f as ks => whyE f ++ whyEs as ++ (if ks.isEmpty then [] else ["expr:call-keyword-args"] ++ whyEs ks)
  | .unary _ _ e => whyE e
  | .binop _ _ l r => whyE l ++ whyE r
  | .compare _ l ops rs => whyE l ++ whyEs rs ++ (if ops.length == 1 && rs.length == 1 then [] else ["expr:compare-chain"])
  | .seq _ _ es _ => whyEs es ++ (if noWalruss es then [] else ["expr:walrus-inside-attribute/subscript/display"])
  | .namedexpr _ (.name _ _ .store) v => whyE v
  | .namedexpr .. => ["expr:walrus-odd-target"]
  | .keyword _ _ has v => (if has then [] else ["expr:call-**kwargs"]) ++ whyE v
  | .starred _ v _ => ["expr:starred"] ++ whyE v
  | .boolop _ _ vs => ["expr:boolop"] ++ whyEs vs
  | .ifexp _ t b e => ["expr:ifexp"] ++ whyE t ++ whyE b ++ whyE e
  | .lambda .. => ["expr:lambda"]
  | .comp .. => ["expr:comprehension"]
  | .other _ k _ ks => ["expr:" ++ k] ++ whyEs ks
  | .noneMarker => []
  | _ => ["expr:other"]
partial def whyEs : List Expr → List String
  | [] => []
  | e :: es => whyE e ++ whyEs es
end

/-! experimental variants of `okT` (evidence / planning only) -/
def pairOkV (v : Nat) (cfg : Config) (pk : String) (ki : String × Expr) (rest : List (String × Expr)) : Bool :=
  let hi := !okChild cfg pk ki.1 ki.2
  let moved := rest.filter fun kj => !(notMoved cfg pk hi kj)
  moved.isEmpty
    || (resPure cfg (operand ki.2) && disjoint (namesE ki.2) (writesEs (moved.map (·.2))))
    || (v ≥ 2 && moved.all (fun kj => pureArg kj.2) && disjoint (namesEs (moved.map (·.2))) (writesE ki.2))
def pairsOkV (v : Nat) (cfg : Config) (pk : String) : List (String × Expr) → Bool
  | [] => true
  | k :: rest => pairOkV v cfg pk k rest && pairsOkV v cfg pk rest
mutual
partial def okV (v : Nat) (cfg : Config) : Expr → Bool
  | .attr _ x _ _ => okV v cfg x
  | .subscript _ x s _ => okV v cfg x && okV v cfg s && pairsOkV v cfg "Subscript" [("value", x), ("slice", s)]
  | .call _ f as _ => okV v cfg f && okVs v cfg as && pairsOkV v cfg "Call" (("func", f) :: tag "args" as)
  | .unary _ _ e => okV v cfg e
  | .binop _ _ l r => okV v cfg l && okV v cfg r && pairsOkV v cfg "BinOp" [("left", l), ("right", r)]
  | .compare _ l _ rs => okV v cfg l && okVs v cfg rs && pairsOkV v cfg "Compare" (("left", l) :: tag "comparators" rs)
  | .seq _ .set es _ => okVs v cfg es && pairsOkV v cfg "Set" (tag "elts" es)
  | .seq _ .tuple es c => okVs v cfg es && c != .store && pairsOkV v cfg "Tuple" (tag "elts" es)
  | .seq _ .list es c => okVs v cfg es && c != .store && pairsOkV v cfg "List" (tag "elts" es)
  | .namedexpr _ _ x => okV v cfg x
  | _ => true
partial def okVs (v : Nat) (cfg : Config) : List Expr → Bool
  | [] => true
  | e :: es => okV v cfg e && okVs v cfg es
end

def whyTop (cfg : Config) (e : Expr) : List String :=
  let w := whyE e
  if w.isEmpty && !okT cfg e then
    [if okV 2 cfg e then "overtaking:effectful-operand-overtaken-by-pure-later-operand(not-proved)"
     else "overtaking:finding-class(operand/read reordered)"] else w

mutual
partial def whyS (cfg : Config) : Stmt → List String
  | .assign _ ts v =>
      (if !ts.isEmpty && ts.all tgtOk then
          (if quiets cfg ts then [] else ["finding-class:store-target-operands-hoisted-before-value"])
        else ts.flatMap fun t => match t with
          | .name .. => []
          | .attr _ o _ _ => if fragE o then [] else ["stmt:assign-target-outside-expr-fragment"] ++ whyE o
          | .subscript _ o s _ => if fragE o && fragE s then [] else ["stmt:assign-target-outside-expr-fragment"] ++ whyE o ++ whyE s
          | .seq .. => ["stmt:assign-nested/starred-unpacking-target"]
          | _ => ["stmt:assign-other-target"]) ++ whyTop cfg v
  | .expr _ v => whyTop cfg v
  | .ret _ vs => vs.flatMap (whyTop cfg)
  | .if_ _ t b e => whyTop cfg t ++ whySs cfg b ++ whySs cfg e
  | .for_ _ tg it b e _ isAsync =>
      (if isNameT tg then [] else ["stmt:for-nonname-target"]) ++ (if isAsync then ["stmt:async-for"] else [])
        ++ whyTop cfg it ++ whySs cfg b ++ whySs cfg e
  | .try_ _ b hs e f => whySs cfg b ++ whySs cfg hs ++ whySs cfg e ++ whySs cfg f
  | .handler _ ty nm b =>
      (if handlerTypeOk ty then [] else ["stmt:except-complex-type"]) ++ (if nm.isEmpty then [] else ["stmt:except-as-name"])
        ++ whySs cfg b
  | .pass _ => []
  | .break_ _ => []
  | .continue_ _ => []
  | .augAssign _ t _ v =>
      (if isNameT t then (if disjoint (namesE t) (writesE v) then [] else ["finding-class:augassign-target-rebound-by-value"])
       else ["stmt:augassign-nonname-target"]) ++ whyTop cfg v
  | .annAssign .. => ["stmt:annassign"]
  | .delete _ ts =>
      if ts.all delOk then (if quiets cfg ts then [] else ["finding-class-or-unproved:del-target-operands-hoisted"])
      else ["stmt:delete-target-outside-expr-fragment"] ++ whyEs ts
  | .while_ _ t b e => ["stmt:while"] ++ whyTop cfg t ++ whySs cfg b ++ whySs cfg e
  | .with_ _ items b _ => ["stmt:with"] ++ whyEs (items.flatMap fun | .withitem _ c v => c :: v | x => [x]) ++ whySs cfg b
  | .raise _ e c =>
      (if e.length == 1 && c.isEmpty then [] else ["stmt:raise-from/bare-raise"]) ++ (e ++ c).flatMap (whyTop cfg)
  | .assert_ _ t m => whyE t ++ whyEs m ++ (if m.length ≤ 1 then [] else ["stmt:assert-odd"])
  | .functionDef _ _ as b ds rs _ =>
      (if plainParams as && quiet cfg as then [] else ["stmt:nested-def-with-defaults/annotations"])
        ++ (if ds.isEmpty && rs.isEmpty then [] else ["stmt:nested-def-with-decorators"]) ++ whySs cfg b
  | .classDef .. => ["stmt:class"]
  | .import_ .. => ["stmt:import"]
  | .importFrom .. => ["stmt:import"]
  | .global .. => []
  | .nonlocal .. => []
  | .other _ k _ _ => ["stmt:" ++ k]
partial def whySs (cfg : Config) : List Stmt → List String
  | [] => []
  | s :: ss => whyS cfg s ++ whySs cfg ss
end

def whyFn (cfg : Config) : Stmt → List String
  | .functionDef _ _ as b ds rs _ =>
      (if quiet cfg as then [] else ["fn:defaults/annotations-need-hoisting"])
        ++ (if quiets cfg ds then [] else ["fn:decorators-need-hoisting"])
        ++ (if quiets cfg rs then [] else ["fn:return-annotation-needs-hoisting"]) ++ whySs cfg b
  | _ => ["not-a-function"]

/-! Classification for programs using the *mutable* part of the tracer prelude (`B`, `L`, `G`, `bump`): there a load
is not pure, so the tolerance of `pairHaz` for pure operands does not apply — any overtaking of a non-constant
operand belongs to the class `operand_effect_reordered_after_later_operand`. -/
def pairHazM (cfg : Config) (pk : String) (ens : Bool) (ki : String × Expr) : List (String × Expr) → List String
  | [] => []
  | kj :: rest =>
      let hi := ens && !okChild cfg pk ki.1 ki.2
      let hj := ens && !okChild cfg pk kj.1 kj.2
      let moved := !quiet cfg kj.2 || (hj && !hi)
      (if moved && !(match operand ki.2 with | .const .. => true | _ => false) then [H_OPERAND] else [])
        ++ pairHazM cfg pk ens ki rest

def pairsHazM (cfg : Config) (pk : String) (ens : Bool) : List (String × Expr) → List String
  | [] => []
  | k :: rest => pairHazM cfg pk ens k rest ++ pairsHazM cfg pk ens rest

mutual
partial def hazEM (cfg : Config) : Expr → List String
  | .attr _ v _ _ => hazEM cfg v
  | .subscript _ v s _ => hazEM cfg v ++ hazEM cfg s ++ pairsHazM cfg "Subscript" true [("value", v), ("slice", s)]
  | .call _ f as ks =>
      hazEM cfg f ++ hazEsM cfg as ++ hazEsM cfg ks ++ pairsHazM cfg "Call" true (("func", f) :: tag "args" as ++ tag "keywords" ks)
  | .keyword _ _ _ v => hazEM cfg v
  | .boolop _ _ vs => hazEsM cfg vs
  | .unary _ _ e => hazEM cfg e
  | .binop _ op l r =>
      (if op == "MatMult" && shouldTransform cfg "BinOp" "op" "MatMult" then [H_OPNODE] else [])
        ++ hazEM cfg l ++ hazEM cfg r ++ pairsHazM cfg "BinOp" true [("left", l), ("right", r)]
  | .compare _ l _ rs => hazEM cfg l ++ hazEsM cfg rs ++ pairsHazM cfg "Compare" true (("left", l) :: tag "comparators" rs)
  | .ifexp _ t b e => hazEM cfg t ++ hazEM cfg b ++ hazEM cfg e
  | .seq _ .set es _ => hazEsM cfg es ++ pairsHazM cfg "Set" true (tag "elts" es)
  | .seq _ .tuple es c => hazEsM cfg es ++ pairsHazM cfg "Tuple" (c != .store) (tag "elts" es)
  | .seq _ .list es c => hazEsM cfg es ++ pairsHazM cfg "List" (c != .store) (tag "elts" es)
  | .starred _ v _ => hazEM cfg v
  | .namedexpr _ t v => hazEM cfg t ++ hazEM cfg v
  | .other _ _ _ ks => hazEsM cfg ks
  | _ => []
partial def hazEsM (cfg : Config) : List Expr → List String
  | [] => []
  | e :: es => hazEM cfg e ++ hazEsM cfg es
end

mutual
partial def stmtExprs : Stmt → List Expr
  | .functionDef _ _ _ b _ _ _ => blockExprs b
  | .ret _ v => v
  | .delete _ ts => ts
  | .assign _ ts v => ts ++ [v]
  | .augAssign _ t _ v => [t, v]
  | .annAssign _ t a v _ => t :: a :: v
  | .for_ _ tg it b e _ _ => tg :: it :: (blockExprs b ++ blockExprs e)
  | .while_ _ t b e => t :: (blockExprs b ++ blockExprs e)
  | .if_ _ t b e => t :: (blockExprs b ++ blockExprs e)
  | .with_ _ items b _ => (items.flatMap fun | .withitem _ c v => c :: v | x => [x]) ++ blockExprs b
  | .raise _ e c => e ++ c
  | .try_ _ b hs e f => blockExprs b ++ blockExprs hs ++ blockExprs e ++ blockExprs f
  | .handler _ ty _ b => ty ++ blockExprs b
  | .assert_ _ t m => t :: m
  | .expr _ v => [v]
  | _ => []
partial def blockExprs : List Stmt → List Expr
  | [] => []
  | s :: ss => stmtExprs s ++ blockExprs ss
end

def hazardsM (cfg : Config) (s : Stmt) : List String :=
  (hazards cfg s ++ hazEsM cfg (stmtExprs s)).eraseDups

def handlers : List (String × (List Sexp → String)) := [
  ("c18.anf", fun a => match a with
    | [c, s] => match config? c, parseStmt s with
      | some cfg, some st => match anf cfg st with
        | .ok ss => toString (Sexp.list [.atom "ok", stmtsToSexp ss])
        | .error e => toString (errSexp e)
      | none, _ => "bad-config"
      | _, none => "bad-node"
    | _ => "bad-args"),
  ("c18.hazards", fun a => match a with
    | [c, s] => match config? c, parseStmt s with
      | some cfg, some st => toString (Sexp.ofStrs (hazards cfg st))
      | none, _ => "bad-config"
      | _, none => "bad-node"
    | _ => "bad-args"),
  -- is the program in the fragment of C18_sem_partial (and free of temporary-like names)?
  -- hazard classes for programs that use the mutable tracer objects (loads are not pure there)
  ("c18.hazards-mut", fun a => match a with
    | [c, s] => match config? c, parseStmt s with
      | some cfg, some st => toString (Sexp.ofStrs (hazardsM cfg st))
      | none, _ => "bad-config"
      | _, none => "bad-node"
    | _ => "bad-args"),
  ("c18.frag", fun a => match a with
    | [c, s] => match config? c, parseStmt s with
      | some cfg, some st => toString (Sexp.ofBool (fragFn cfg st && (namesS st).all (fun x => !isTempName x)))
      | none, _ => "bad-config"
      | _, none => "bad-node"
    | _ => "bad-args"),
  -- the reasons why the program is outside the proved fragment (empty = inside, up to temporary-like names)
  ("c18.why", fun a => match a with
    | [c, s] => match config? c, parseStmt s with
      | some cfg, some st => toString (Sexp.ofStrs ((whyFn cfg st ++
            (if (namesS st).all (fun x => !isTempName x) then [] else ["names:temporary-like"])).eraseDups))
      | none, _ => "bad-config"
      | _, none => "bad-node"
    | _ => "bad-args"),
  -- run the small semantics on the function definition `s` applied to `args`
  ("c18.exec", fun a => match a with
    | [s, .list args] => match parseStmt s, args.mapM val? with
      | some st, some vs => toString (obsSexp (runFn stdOracle stdGlobals st vs))
      | _, _ => "bad-node"
    | _ => "bad-args"),
  -- model-transform, then run the small semantics on the result
  ("c18.anfexec", fun a => match a with
    | [c, s, .list args] => match config? c, parseStmt s, args.mapM val? with
      | some cfg, some st, some vs => match anf cfg st with
        | .ok [f] => toString (obsSexp (runFn stdOracle stdGlobals f vs))
        | .ok _ => "(err shape)"
        | .error e => toString (errSexp e)
      | _, _, _ => "bad-node"
    | _ => "bad-args")
]

end Malt.Drv.C18
