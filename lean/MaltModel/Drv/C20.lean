import MaltModel.Rt.Options
/- Driver handlers for the C20 correspondence (glue only; no theorem depends on this file). -/
namespace Malt.Drv.C20
open Malt Malt.Gen Malt.Options

def feats? (xs : List Sexp) : Option (List Feature) :=
  xs.mapM fun x => x.str? >>= Feature.ofName?

def spelling? : Sexp → Option FeatSpelling
  | .atom "none" => some .none
  | .list [.atom "single", .atom f] => (Feature.ofName? f).map .single
  | .list (.atom "many" :: fs) => (feats? fs).map .many
  | _ => none

def opts? : Sexp → Option Opts
  | .list [r, u, i, sp] => do
      let r ← r.bool?; let u ← u.bool?; let i ← i.bool?; let sp ← spelling? sp
      pure (ctor r u i sp)
  | _ => none

def featExprSexp : FeatExpr → Sexp
  | .emptyTuple => .atom "empty"
  | .bare f => .list [.atom "bare", .atom f.name]
  | .tuple fs => .list (.atom "tuple" :: fs.map (fun f => .atom f.name))

def featExpr? : Sexp → Option FeatExpr
  | .atom "empty" => some .emptyTuple
  | .list [.atom "bare", .atom f] => (Feature.ofName? f).map .bare
  | .list (.atom "tuple" :: fs) => (feats? fs).map .tuple
  | _ => none

def astSexp : OptAst → Sexp
  | .std => .atom "std"
  | .call r u fe i => .list [.atom "call", Sexp.ofBool r, Sexp.ofBool u, featExprSexp fe, Sexp.ofBool i]

def ast? : Sexp → Option OptAst
  | .atom "std" => some .std
  | .list [.atom "call", r, u, fe, i] => do
      let r ← r.bool?; let u ← u.bool?; let fe ← featExpr? fe; let i ← i.bool?
      pure (.call r u fe i)
  | _ => none

def run (f : Option String) : String := f.getD "bad-args"

def handlers : List (String × (List Sexp → String)) := [
  ("c20.ctor", fun a => run do
      let [o] := a | none
      pure (toString (tupleSexp (← opts? o)))),
  ("c20.callopts", fun a => run do
      let [o] := a | none
      pure (toString (tupleSexp (callOptions (← opts? o))))),
  ("c20.uses", fun a => run do
      let [o, .atom f] := a | none
      pure (toString (Sexp.ofBool (uses (← opts? o) (← Feature.ofName? f))))),
  ("c20.eq", fun a => run do
      let [x, y] := a | none
      pure (toString (Sexp.ofBool (eq (← opts? x) (← opts? y))))),
  ("c20.toast", fun a => run do
      let [o, .list (.atom "order" :: fs)] := a | none
      pure (toString (astSexp (toAst (← opts? o) (← feats? fs))))),
  ("c20.evalast", fun a => run do
      let [x] := a | none
      pure (toString (tupleSexp (evalAst (← ast? x))))),
  ("c20.features", fun _ => toString (Sexp.ofStrs (Feature.all.map Feature.name)))
]

end Malt.Drv.C20
