import MaltModel.Drv.Dataflow
/- Driver handlers for C07 (glue only; no theorem depends on this file): evaluate the verified checkers on the
serialised REAL graph, scopes, liveness / reaching-fndefs `Analyzer.in_/out` and annotations, and the decidable
hypotheses of `live_trace_sound` on real execution traces. -/
namespace Malt.Drv.C07
open Malt Malt.Analysis Malt.Drv.Dataflow

def optEq (x : Option (List Nat)) (y : List Nat) : Bool :=
  match x with | some l => setEqB l y | none => true

def graphCheck (D : CfgData) (li lo fi fo : List (Nat × List Nat)) (ext : List Nat) (stmts : List StmtData)
    (simple : List (Nat × Option (List Nat) × Option (List Nat))) : Sexp :=
  let IN := solAt li
  let OUT := solAt lo
  let E := D.graph.edges
  let R := Graph.revEdges E
  let F := liveFlow D
  let m := liveRunModel D (liveFuel D)
  let V := m.closed
  let FIN := solAt fi
  let FOUT := solAt fo
  let mf := run E (fnFlow D) (fuelBound E [D.entry] (fnFlow D)) (WL.init [D.entry])
  let Vf := mf.closed
  let withLO := stmts.filter (fun s => s.liveOut.isSome)
  .list [
    kv "quiescent" (b (m.open_.isEmpty && mf.open_.isEmpty)),
    kv "visited" (Sexp.ofNat V.length),
    kv "start" (b (D.exits.all (fun n => V.contains n))),
    kv "closed" (b (closedUnder R V)),
    kv "postfix" (b (isPostFix R V F OUT IN)),
    kv "fix" (b (isFix R V F OUT IN)),
    kv "unvisited_empty" (b (D.graph.nodes.all fun n => V.contains n || ((IN n).isEmpty && (OUT n).isEmpty))),
    kv "unvisited" (ns (D.graph.nodes.filter (fun n => !V.contains n))),
    kv "model_eq" (b (solEqOn D.graph.nodes m.A OUT && solEqOn D.graph.nodes m.B IN)),
    kv "fnd_start" (b (Vf.contains D.entry)),
    kv "fnd_closed" (b (closedUnder E Vf)),
    kv "fnd_postfix" (b (isFnDefsPostFix D Vf ext FIN FOUT)),
    kv "fns_in_anno" (b (D.info.all (fun i => match i.fnsIn with | some l => setEqB l (FIN i.id) | none => true))),
    kv "next_incomplete" (ns ((stmts.filter (fun s => !stmtNextComplete E s)).map (·.id))),
    kv "live_out_uncovered" (ns ((withLO.filter (fun s => !liveOutCovers IN s (s.liveOut.getD []))).map (·.id))),
    kv "live_out_loose" (ns ((withLO.filter (fun s => !liveOutTight IN s (s.liveOut.getD []))).map (·.id))),
    kv "live_in_bad" (ns ((stmts.filter (fun s => !liveInOK IN s)).map (·.id))),
    kv "simple_bad" (ns ((simple.filter (fun (n, i, o) => !(optEq i (IN n) && optEq o (OUT n)))).map (·.1)))]

structure Ctx where
  D : CfgData
  V : List Nat
  IN : St Nat
  OUT : St Nat
  pfix : Bool

def readers (c : Ctx) (T : Trace) (j v : Nat) : List Sexp :=
  match T[j]? with
  | none => []
  | some s =>
    (if s.reads.contains v then [Sexp.list [.atom "direct"]] else []) ++
    (s.creads.filter (fun x => x.2 == v)).map (fun (g, _) =>
      .list [.atom "closure", Sexp.ofNat g, kv "covered" (b (closureReadCovered c.D s.node g v)),
             kv "lambda" (b (readerIsLambda c.D g)), kv "nonlocal" (b (nonlocalInReader c.D g v)),
             kv "reaching" (b ((c.D.fnsIn s.node).contains g)), kv "outside_unseeded" (b (readerOutsideNotSeeded c.D g))])

def liveQuery (c : Ctx) (T : Trace) (i j v : Nat) : Sexp :=
  .list [.atom "live", kv "concl_out" (b ((c.OUT (T.nodeAt i)).contains v)), kv "concl_in" (b ((c.IN (T.nodeAt (i + 1))).contains v)),
    kv "postfix" (b c.pfix), kv "path" (b (isPathB c.D.graph.edges c.V T)), kv "rbo" (b (isReadBeforeOverwriteB T i j v)),
    kv "gen" (b (liveGenOK c.D T j v)), kv "for_target" (b (forTargetKilledUnwrittenL c.D T i j v)),
    kv "other_kill" (b (otherKillUnwrittenL c.D T i j v)), kv "readers" (.list (readers c T j v))]

/-- evaluate hypotheses and conclusion of `live_trace_sound` for every (i, j, v) with `v` read at `j` and not touched in (i, j) -/
def tally (c : Ctx) (T : Trace) : Sexp :=
  let path := isPathB c.D.graph.edges c.V T
  let idx := List.range T.length
  let rs := idx.flatMap (fun j => match T[j]? with
    | some s => ((s.reads ++ s.creads.map (·.2)).eraseDups).map (fun v => (j, v))
    | none => [])
  let obs := rs.flatMap (fun (j, v) =>
    let i0 := match (List.range j).reverse.find? (fun m => T.touchesB m v) with | some m => m | none => 0
    ((List.range j).filter (fun i => decide (i0 ≤ i))).map (fun i => (i, j, v)))
  let res := obs.map (fun (i, j, v) =>
    let hyp := c.pfix && path && liveGenOK c.D T j v && liveKillOK c.D T i j v && isReadBeforeOverwriteB T i j v
    let concl := (c.OUT (T.nodeAt i)).contains v && (c.IN (T.nodeAt (i + 1))).contains v
    (if hyp then 1 else 0, if concl then 1 else 0, if hyp && !concl then 1 else 0,
     if forTargetKilledUnwrittenL c.D T i j v then 1 else 0))
  let sum := res.foldl (fun (a : Nat × Nat × Nat × Nat) r => (a.1 + r.1, a.2.1 + r.2.1, a.2.2.1 + r.2.2.1, a.2.2.2 + r.2.2.2)) (0, 0, 0, 0)
  .list [.atom "tally", kv "reads" (Sexp.ofNat rs.length), kv "obligations" (Sexp.ofNat obs.length), kv "hyps_hold" (Sexp.ofNat sum.1),
         kv "concl_holds" (Sexp.ofNat sum.2.1), kv "contradiction" (Sexp.ofNat sum.2.2.1), kv "for_target_class" (Sexp.ofNat sum.2.2.2),
         kv "path" (b path)]

def query (c : Ctx) (T : Trace) (q : Sexp) : Sexp :=
  match q with
  | .list [.atom "live", i, j, v] => match i.nat?, j.nat?, v.nat? with
    | some i, some j, some v => liveQuery c T i j v
    | _, _, _ => .atom "bad-query"
  | .list [.atom "all"] => tally c T
  | _ => .atom "bad-query"

def run' (f : Option Sexp) : String := match f with | some s => toString s | none => "bad-args"

def simple? (x : Sexp) : Option (Nat × Option (List Nat) × Option (List Nat)) :=
  match x with
  | .list [n, i, o] => do pure (← n.nat?, ← opt? nats? i, ← opt? nats? o)
  | _ => none

def handlers : List (String × (List Sexp → String)) := [
  ("c07.graph", fun a => run' do
      let [g, inf, fns, li, lo, fi, fo, ext, st, sm] := a | none
      let D ← cfgData? g inf fns
      pure (graphCheck D (← assoc? nats? li) (← assoc? nats? lo) (← assoc? nats? fi) (← assoc? nats? fo) (← nats? ext)
              (← (← st.list?).mapM stmt?) (← (← sm.list?).mapM simple?))),
  ("c07.traces", fun a => run' do
      let [g, inf, fns, li, lo, trs] := a | none
      let D ← cfgData? g inf fns
      let IN := solAt (← assoc? nats? li)
      let OUT := solAt (← assoc? nats? lo)
      let m := liveRunModel D (liveFuel D)
      let c : Ctx := { D := D, V := m.closed, IN := IN, OUT := OUT,
                       pfix := isPostFix (Graph.revEdges D.graph.edges) m.closed (liveFlow D) OUT IN }
      let outs ← (← trs.list?).mapM fun t => match t with
        | .list [steps, qs] => do
          let T ← trace? steps
          pure (Sexp.list ((← qs.list?).map (query c T)))
        | _ => none
      pure (.list outs))
]

end Malt.Drv.C07
