import MaltModel.Rt.Policy
/- Driver handlers for the C13 correspondence (glue only; no theorem depends on this file).

Requests (one per line):
  c13.rule  (comp …)                         -> convert | doNotConvert | none | unresolved
  c13.allow <ent> <checkCall> <ntSub>        -> True | False
  c13.unsup <desc>                           -> True | False
  c13.call  <env> <opts> <callable> (arg …) <kw>   -> (effect …) (state …) (path …) (class …)
  c13.tables                                  -> the extracted tables, for comparison with the live objects
Values are atoms.  <kw> is `none` or `((k v) …)`.
-/
namespace Malt.Drv.C13
open Malt Malt.Gen.Policy Malt.Policy

def strs? (xs : List Sexp) : Option (List String) := xs.mapM Sexp.str?

def optName? : Sexp → Option (Option (List String))
  | .atom "none" => some none
  | .list xs => (strs? xs).map some
  | _ => none

partial def ent? : Sexp → Option Ent
  | .atom "opaque" => some .opaque
  | .list [.atom "ent", m, g, ic, hc, cd, im, ok, tc, nt, nb, call, definer] => do
      let m ← optName? m
      let g ← g.bool?; let ic ← ic.bool?; let hc ← hc.bool?; let cd ← cd.bool?; let im ← im.bool?
      let ok ← ok.bool?; let tc ← tc.bool?; let nt ← nt.bool?; let nb ← nb.bool?
      let call ← ent? call; let definer ← ent? definer
      pure (.mk ⟨m, g, ic, hc, cd, im, ok, tc, nt, nb⟩ call definer)
  | _ => none

def builtin? : Sexp → Option BuiltinKind
  | .atom "notBuiltin" => some .notBuiltin
  | .atom "special" => some .special
  | .atom "overloaded" => some .overloaded
  | .atom "plain" => some .plain
  | _ => none

def kind? : Sexp → Option Kind
  | .atom "function" => some .function
  | .atom "method" => some .method
  | .atom "callableObject" => some .callableObject
  | .atom "other" => some .other
  | _ => none

def stage? : Sexp → Option Stage
  | .atom "sourceLookup" => some .sourceLookup
  | .atom "parse" => some .parse
  | .atom "featureCheck" => some .featureCheck
  | .atom "analysis" => some .analysis
  | .atom "converter" => some .converter
  | .atom "load" => some .load
  | _ => none

def exc? : Sexp → Option ExcClass
  | .atom "inaccessibleSource" => some .inaccessibleSource
  | .atom "unsupportedElement" => some .unsupportedElement
  | .atom "other" => some .other
  | _ => none

def fail? : Sexp → Option (Option (Stage × ExcClass))
  | .atom "none" => some none
  | .list [s, e] => do pure (some ((← stage? s), (← exc? e)))
  | _ => none

def desc? : Sexp → Option Desc
  | .list [.atom "desc", ic, ca, ar, bk, wr, lr, ct, km, tf, e, k, hc, sf, fl] => do
      let ic ← ic.bool?; let ca ← ca.bool?; let ar ← ar.bool?; let bk ← builtin? bk
      let wr ← wr.bool?; let lr ← lr.bool?; let ct ← ct.bool?; let km ← km.bool?; let tf ← tf.bool?
      let e ← ent? e; let k ← kind? k; let hc ← hc.bool?; let sf ← sf.bool?; let fl ← fail? fl
      pure ⟨ic, ca, ar, bk, wr, lr, ct, km, tf, e, k, hc, sf, fl⟩
  | _ => none

def kwItems? (xs : List Sexp) : Option (Kw String) :=
  xs.mapM fun
    | .list [.atom k, .atom v] => some (k, v)
    | _ => none

def kw? : Sexp → Option (Option (Kw String))
  | .atom "none" => some none
  | .list xs => (kwItems? xs).map some
  | _ => none

partial def callable? : Sexp → Option (Callable String)
  | .list [.atom "base", d, .atom "none", b] => do pure (.base (← desc? d) none (← b.bool?))
  | .list [.atom "base", d, .list [.atom "some", .atom v], b] => do pure (.base (← desc? d) (some v) (← b.bool?))
  | .list [.atom "partial", d, .list a0, .list k0, inner] => do
      pure (.part (← desc? d) (← strs? a0) (← kwItems? k0) (← callable? inner))
  | _ => none

def status? : Sexp → Option CtxStatus
  | .atom "unspecified" => some .unspecified
  | .atom "enabled" => some .enabled
  | .atom "disabled" => some .disabled
  | _ => none

def env? : Sexp → Option Env
  | .list [s, st, ins] => do pure ⟨← status? s, ← st.bool?, ← ins.bool?⟩
  | _ => none

def opts? : Sexp → Option Opts
  | .list [u, i] => do pure ⟨← u.bool?, ← i.bool?⟩
  | _ => none

def checkName : Check → String
  | .cacheHit => "cacheHit" | .ctxDisabled => "ctxDisabled" | .artifact => "artifact"
  | .partialUnwrap => "partialUnwrap" | .builtin => "builtin" | .unsupported => "unsupported"
  | .allowlisted => "allowlisted" | .notInternal => "notInternal" | .kindDispatch => "kindDispatch"
  | .noCode => "noCode" | .stringFile => "stringFile" | .convert => "convert" | .invoke => "invoke"
  | .unresolved => "unresolved"

def actionSexp : Action → Sexp
  | .skip c u => .list [.atom "skip", .atom (checkName c), Sexp.ofBool u]
  | .unwrap => .atom "unwrap"
  | .builtin => .atom "builtin"
  | .unknownKind => .atom "unknownKind"
  | .convert => .atom "convert"
  | .stuck => .atom "stuck"

def kwSexp (k : Kw String) : Sexp := .list (k.map fun (a, b) => .list [.atom a, .atom b])

def effectSexp (e : Effect String) : Sexp :=
  .list [.atom "effect", Sexp.ofNat e.invocations, Sexp.ofStrs e.binding.pos, kwSexp e.binding.kw,
         Sexp.ofBool e.converted, Sexp.ofBool e.attempted, Sexp.ofBool e.warning, Sexp.ofBool e.raised,
         Sexp.ofBool e.overload, Sexp.ofBool e.special]

/-- in-cache flag of every level, outermost first -/
def cacheFlags : Callable String → List Bool
  | .base d _ _ => [d.inCache]
  | .part d _ _ inner => d.inCache :: cacheFlags inner

/-- the decision taken at every level, outermost first -/
def path (env : Env) (o : Opts) : Callable String → List Action
  | .base d _ _ => [decide false d env o]
  | .part d _ _ inner =>
      match decide true d env o with
      | .unwrap => .unwrap :: path env o inner
      | a => [a]

def ruleKindName : RuleKind → String
  | .convert => "convert" | .doNotConvert => "doNotConvert" | .unresolved => "unresolved"

def unsupName : UnsupTest → String
  | .wrapt => "wrapt" | .lruCache => "lruCache" | .constructor => "constructor"
  | .knownModule => "knownModule" | .tfPlugin => "tfPlugin" | .unresolved => "unresolved"

/-- `(slot <callable> (obj func code|none) …)`: per level (outermost first) the identity of the object, of its bound target
and of its code object; the model's `cacheKey` (extracted cache class) decides what the verdict is filed under. -/
def slot? : Sexp → Option (Callable String × List Ident)
  | .list (.atom "slot" :: c :: ids) => do
      let c ← callable? c
      let is ← ids.mapM fun
        | .list [a, b, .atom "none"] => do pure (⟨← a.nat?, ← b.nat?, none⟩ : Ident)
        | .list [a, b, cd] => do pure (⟨← a.nat?, ← b.nat?, some (← cd.nat?)⟩ : Ident)
        | _ => none
      pure (c, is)
  | _ => none

def hcall? : Sexp → Option (HCall String)
  | .list [slot, env, okey, o, .list args, kw] => do
      pure ⟨← slot.nat?, ← env? env, ← okey.nat?, ← opts? o, ← strs? args, ← kw? kw⟩
  | _ => none

/-- two slots have the same bound target (`__func__`) but differ in a context-free exclusion (for some options of the
history): the class of finding C13-shared-function-owner-allowlist.  Deliberately stated on the bound target, not on the
cache key: callables that merely share a code object are NOT in this class. -/
def sharedDisagree (cs : List (Callable String × List Ident)) (os : List Opts) : Bool :=
  cs.any fun (c1, k1) => cs.any fun (c2, k2) =>
    (k1.getLast?.map (·.func)) == (k2.getLast?.map (·.func)) && k1.getLast?.isSome &&
    os.any fun o => stableExcludedB c1.baseDesc o != stableExcludedB c2.baseDesc o

/-- `(enter t status)` | `(leave t)` | `(call t strict opts callable (args) kw)` -/
def tevent? : Sexp → Option (TEvent String)
  | .list [.atom "enter", t, st] => do pure (.ctx (← t.nat?, some (← status? st)))
  | .list [.atom "leave", t] => do pure (.ctx (← t.nat?, none))
  | .list [.atom "call", t, strict, o, c, .list args, kw] => do
      pure (.call (← t.nat?) (← strict.bool?) (← opts? o) (← callable? c) (← strs? args) (← kw? kw))
  | _ => none

def run (f : Option String) : String := f.getD "bad-args"

def handlers : List (String × (List Sexp → String)) := [
  ("c13.rule", fun a => run do
      let [.list name] := a | none
      pure (match ruleAction (← strs? name) with
            | some k => ruleKindName k
            | none => "none")),
  ("c13.allow", fun a => run do
      let [e, cc, nt] := a | none
      pure (toString (Sexp.ofBool (allowlistedWith (← ent? e) (← cc.bool?) (← nt.bool?))))),
  ("c13.unsup", fun a => run do
      let [d] := a | none
      pure (toString (Sexp.ofBool (isUnsupported (← desc? d))))),
  ("c13.call", fun a => run do
      let [env, o, c, .list args, kw] := a | none
      let env ← env? env; let o ← opts? o; let c ← callable? c; let args ← strs? args; let kw ← kw? kw
      let r := call env o c args kw
      let r2 := call env o r.2 args kw
      pure (toString (Sexp.list [
        effectSexp r.1,
        .list (.atom "state" :: (cacheFlags r.2).map Sexp.ofBool),
        .list (.atom "path" :: (path env o c).map actionSexp),
        .list [.atom "class", Sexp.ofBool c.foreignSelf, Sexp.ofBool c.uncacheableBase, Sexp.ofBool c.partialsNatural],
        .list [.atom "again", effectSexp r2.1]]))),
  ("c13.history", fun a => run do
      let [.list slots, .list calls] := a | none
      let cs ← slots.mapM slot?
      let hs ← calls.mapM hcall?
      let effs := runHistory cs [] hs
      pure (toString (Sexp.list [
        .list (.atom "effects" :: effs.map effectSexp),
        .list [.atom "class", Sexp.ofBool (sharedDisagree cs (hs.map (·.opts))), Sexp.ofBool (cs.any fun (c, _) => c.foreignSelf),
               Sexp.ofBool (cs.any fun (c, _) => c.uncacheableBase)]]))),
  ("c13.threads", fun a => run do
      let [.list evs] := a | none
      let es ← evs.mapM tevent?
      pure (toString (Sexp.list (.atom "effects" :: (runThreads (fun _ => []) es).map effectSexp)))),
  ("c13.tables", fun _ => toString (Sexp.list [
      .list (.atom "rules" :: conversionRules.map fun r => .list [.atom (ruleKindName r.kind), Sexp.ofStrs r.pfx]),
      .list (.atom "chain" :: chain.map fun s => .list [.atom (checkName s.check), Sexp.ofBool s.updateCache]),
      .list (.atom "unsupported" :: unsupportedTests.map fun s => .atom (unsupName s.test)),
      .list (.atom "knownModules" :: knownLoadedModules.map .atom),
      .list (.atom "specials" :: builtinSpecials.map .atom),
      .list [.atom "strictEnvVar", .atom strictEnvVar],
      .list [.atom "cacheKeyDropsReceiver", Sexp.ofBool cacheKeyDropsReceiver],
      .list [.atom "allowlistCacheKind", .atom (match allowlistCacheKind with
        | .unboundInstance => "unboundInstance" | .codeObject => "codeObject" | .unresolved => "unresolved")]]))
]

end Malt.Drv.C13
