import MaltModel.Rt.Errors
import MaltModel.Proofs.C12Check
/- Driver handlers for the C12 correspondence (glue only; no theorem depends on this file). -/
namespace Malt.Drv.C12
open Malt Malt.Errors

def optStr? : Sexp → Option (Option String)
  | .list [] => some none
  | .list [.atom s] => some (some s)
  | _ => none

def optStrSexp : Option String → Sexp
  | none => .list []
  | some s => .list [.atom s]

def origin? : Sexp → Option Origin
  | .list [.atom f, l, c, fn, .atom code] => do
      pure ⟨f, ← l.nat?, ← c.nat?, ← optStr? fn, code⟩
  | _ => none

def originSexp (o : Origin) : Sexp :=
  .list [.atom o.file, Sexp.ofNat o.line, Sexp.ofNat o.col, optStrSexp o.fn, .atom o.code]

def loc? : Sexp → Option LineLoc
  | .list [.atom f, l] => do pure ⟨f, ← l.nat?⟩
  | _ => none

def frame? : Sexp → Option Frame
  | .list [.atom f, l, .atom fn, .atom code] => do pure ⟨f, ← l.nat?, fn, code⟩
  | _ => none

def frames? : Sexp → Option (List Frame)
  | .list xs => xs.mapM frame?
  | _ => none

def map? : Sexp → Option SourceMap
  | .list xs => xs.mapM fun
      | .list [k, o] => do pure (← loc? k, ← origin? o)
      | _ => none
  | _ => none

def mapSexp (m : SourceMap) : Sexp :=
  .list (m.map fun (k, o) => .list [.list [.atom k.file, Sexp.ofNat k.line], originSexp o])

def fiSexp (fi : FrameInfo) : Sexp :=
  .list [.atom fi.file, Sexp.ofNat fi.line, optStrSexp fi.fn, .atom fi.code, Sexp.ofBool fi.converted, Sexp.ofBool fi.allowlisted]

def fi? : Sexp → Option FrameInfo
  | .list [.atom f, l, fn, .atom code, c, a] => do
      pure ⟨f, ← l.nat?, ← optStr? fn, code, ← c.bool?, ← a.bool?⟩
  | _ => none

/-- Items arrive interned: a table of file names, a table of origins, and items `(fileIdx line originIdx)`
with `-` for an absent key / origin. -/
def items? (files origins items : Sexp) : Option (List WalkItem) := do
  let fs ← (← files.list?).mapM Sexp.str?
  let os ← (← origins.list?).mapM origin?
  (← items.list?).mapM fun
    | .list [fi, l, oi] => do
        let key ← match fi with
          | .atom "-" => pure none
          | x => do pure (some ⟨← fs[← x.nat?]?, ← l.nat?⟩)
        let org ← match oi with
          | .atom "-" => pure none
          | x => do pure (some (← os[← x.nat?]?))
        pure ⟨key, org⟩
    | _ => none

def optOrigin? : Sexp → Option (Option Origin)
  | .atom "-" => some none
  | x => (origin? x).map some

def optOriginSexp : Option Origin → Sexp
  | none => .atom "-"
  | some o => originSexp o

partial def onode? : Sexp → Option ONode
  | .list [o, .list cs] => do pure (.mk (← optOrigin? o) (← cs.mapM onode?))
  | _ => none

def level? : Sexp → Option Level
  | .list [m, tb] => do pure ⟨← frames? tb, ← map? m⟩
  | _ => none

def excType? : Sexp → Option ExcType
  | .list [.atom name, ud, me, ie, ui, .atom nb] => do
      pure ⟨name, ← ud.bool?, ← me.bool?, ← ie.bool?, ← ui.bool?, nb⟩
  | _ => none

def createdStr : Created → String
  | .sameType => "same"
  | .keyErrorSubclass => "keyerror"
  | .staging => "staging"

def run (f : Option String) : String := f.getD "bad-args"

def handlers : List (String × (List Sexp → String)) := [
  ("c12.srcmap", fun a => run do
      let [files, origins, items] := a | none
      pure (toString (mapSexp (createSourceMap (← items? files origins items))))),
  ("c12.foreignkey", fun a => run do
      let [.atom g, files, origins, items] := a | none
      pure (toString (Sexp.ofBool (hasForeignKey g (← items? files origins items))))),
  ("c12.stack", fun a => run do
      let [.atom conv, m, tb] := a | none
      pure (toString (Sexp.list ((stackInsideMappedCode (← frames? tb) (← map? m) conv).map fiSexp)))),
  ("c12.chain", fun a => run do
      let [.atom api, .atom en, .atom es, .list lvls] := a | none
      let ls ← lvls.mapM level?
      match attachAll en es api ls none with
      | none => pure "crash"
      | some none => pure "none"
      | some (some md) => pure (toString (Sexp.list [.list (md.stack.map fiSexp), .atom md.cause]))),
  ("c12.message", fun a => run do
      let [.list st, .atom cause] := a | none
      let st ← st.mapM fi?
      pure (toString (Sexp.ofStrs (getMessageLines ⟨st, cause⟩)))),
  ("c12.create", fun a => run do
      let [t] := a | none
      let t ← excType? t
      pure (toString (Sexp.list [.atom (createdStr (createException t)), Sexp.ofBool t.wf,
                                 Sexp.ofBool (expectedSame t), Sexp.ofBool (inheritsBuiltinInit t)]))),
  ("c12.classes", fun a => run do
      -- levels innermost first, each `(genFile map tb)`
      let [.list lvls, .list gens] := a | none
      let ls ← lvls.mapM fun
        | .list [.atom g, m, tb] => do pure (g, (⟨← frames? tb, ← map? m⟩ : Level))
        | _ => none
      let gens ← gens.mapM Sexp.str?
      pure (toString (Sexp.list [Sexp.ofBool (reentered (ls.map (·.1))),
                                 Sexp.ofBool (ls.any fun (g, lv) => foreignKeyHit g lv),
                                 Sexp.ofBool (ls.any fun (_, lv) => siteInLambda lv),
                                 Sexp.ofBool (unwrappedGenerated gens ls)]))),
  ("c12.events", fun a => run do
      -- events innermost first: `(a map fullTb)` = _attach_error_metadata ran, `r` = a malt.convert wrapper re-raised
      let [.atom api, .atom en, .atom es, .list evs] := a | none
      let evs ← evs.mapM fun
        | .atom "r" => some Event.rethrow
        | .list [.atom "a", m, tb] => do pure (Event.attach ⟨← frames? tb, ← map? m⟩)
        | _ => none
      match runEvents en es api evs ⟨none, false⟩ with
      | none => pure "crash"
      | some st =>
        match st.md with
        | none => pure (toString (Sexp.list [.atom "none", Sexp.ofBool st.passThrough]))
        | some md => pure (toString (Sexp.list [.list (md.stack.map fiSexp), .atom md.cause, Sexp.ofBool st.passThrough]))),
  ("c12.rewrites", fun a => run do
      let [t, n] := a | none
      let t ← excType? t
      let n ← n.nat?
      let r := rewriteN t (n - 1)
      pure (toString (Sexp.list [.atom r.name, Sexp.ofBool r.isMaltError, .atom (createdStr (createException t)),
                                 Sexp.ofBool (isKeyError t && decide (n ≥ 2))]))),
  ("c12.check", fun a => run do
      -- levels OUTERMOST first, each `(genFile map tb (origFile origLine origFn))`; the real translated stack; the
      -- user frames `(fn line)` of the unconverted run's traceback, outermost first
      let [.atom api, .atom u, .list lvls, .list st, .list u0] := a | none
      let raw ← lvls.mapM fun
        | .list [.atom g, m, tb, .list [.atom ofile, ol, .atom ofn]] => do
            pure ({ genFile := g, map := ← map? m, tb := ← frames? tb, orig := ⟨ofile, ← ol.nat?, ofn, ""⟩ } : RawLevel)
        | _ => none
      let st ← st.mapM fi?
      let u0 ← u0.mapM fun
        | .list [.atom fn, l] => do pure ((u, some fn, ← l.nat?) : Loc3)
        | _ => none
      match decompose raw with
      | none => pure "(False)"
      | some (L, T) =>
        let keys := decide (∀ l ∈ L, KeysInGen l)
        let below := decide (BelowForeign L T)
        let line := decide (∀ l ∈ L, SiteLine u l)
        let res := decide (∀ l ∈ L, SiteResolved u l)
        pure (toString (Sexp.list [Sexp.ofBool true, Sexp.ofBool keys, Sexp.ofBool below, Sexp.ofBool line, Sexp.ofBool res,
                Sexp.ofBool (stackHypsB api u L T), Sexp.ofBool (conclusionHolds u L st u0)]))),
  ("c12.inherit", fun a => run do
      let [no, po, .list res] := a | none
      let r := inheritOrigin (← optOrigin? no) (← optOrigin? po) (← res.mapM onode?)
      pure (toString (Sexp.list (r.map fun n => optOriginSexp n.origin)))),
  ("c12.copyorigin", fun a => run do
      let [fr, .list to] := a | none
      let r := copyOrigin (← optOrigin? fr) (← to.mapM onode?)
      pure (toString (Sexp.list ((allOriginsList r).map optOriginSexp)))),
  ("c12.known", fun _ => toString (Sexp.ofStrs Gen.Errors.knownStringConstructorErrors)),
  ("c12.tables", fun _ => toString (Sexp.list [Sexp.ofStrs Gen.Errors.maltPassThroughErrors, .atom Gen.Errors.fallbackError,
      Sexp.ofBool Gen.Errors.createExceptionChainAsModelled, Sexp.ofNat Gen.Errors.attachDropsFrames]))
]

end Malt.Drv.C12
