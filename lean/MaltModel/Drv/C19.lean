import MaltModel.Analysis.TypeInf
import MaltModel.Py.SexpAst
/- Driver handlers for the C19 correspondence and verified checkers (glue only; no theorem depends on this file).

Requests
  c19.analyze <env> <graph> <table> <fuel>
      -> (result (finished b) (supported b) (ins nmap) (outs nmap) (annos ((id set)…)) (clos nmap) (miss q…))
  c19.check <env> <graph> <table> (reach…) <ins> <outs> <clos> (W…) (S…)
      -> (check (fix b) (cover b) (taint b) (miss q…))
  c19.taint <env> <graph> <table> (reach…) <ins> (seeds…)  -> (taint (least x…) (miss q…))
  c19.why <env> <graph> <table> (reach…) <ins> (W…)  -> (why (unsupported reason…) (taint reason…))
The resolver is replayed from <table>; a query the table does not contain is answered with the marker type
`other "MISS<query>"`, which surfaces in the output and is reported under `miss` so that the harness can add the entry. -/
namespace Malt.Drv.C19
open Malt Malt.Py Malt.TypeInf

/-! ### types, sets, maps <-> S-expressions -/

partial def ty? : Sexp → Option Ty
  | .atom "int" => some .int
  | .atom "float" => some .float
  | .atom "bool" => some .bool
  | .atom "str" => some .str
  | .atom "list" => some .list
  | .atom "tuple" => some .tuple
  | .atom "none" => some .none
  | .atom "function" => some .function
  | .atom "any" => some .any
  | .list [.atom "other", .atom n] => some (.other n)
  | .list [.atom "fn", t] => (ty? t).map .fn
  | .list (.atom "prod" :: ts) => (ts.mapM ty?).map fun l => .prod (Tys.ofList l)
  | _ => none

partial def tySexp : Ty → Sexp
  | .int => .atom "int" | .float => .atom "float" | .bool => .atom "bool" | .str => .atom "str"
  | .list => .atom "list" | .tuple => .atom "tuple" | .none => .atom "none" | .function => .atom "function"
  | .any => .atom "any"
  | .other n => .list [.atom "other", .atom n]
  | .fn r => .list [.atom "fn", tySexp r]
  | .prod ts => .list (.atom "prod" :: ts.toList.map tySexp)

def set? : Sexp → Option (Option TySet)
  | .atom "none" => some none
  | .list (.atom "set" :: ts) => (ts.mapM ty?).map some
  | _ => none

def dedup (T : TySet) : TySet := T.foldl (fun acc t => if acc.contains t then acc else acc ++ [t]) []

def setSexp : Option TySet → Sexp
  | none => .atom "none"
  | some T => .list (.atom "set" :: (dedup T).map tySexp)

def tmap? (x : Sexp) : Option TMap := do
  let l ← x.list?
  l.mapM fun p => match p with
    | .list [.atom k, s] => do
        let v ← set? s
        pure (k, v.getD [])
    | _ => none

def tmapSexp (m : TMap) : Sexp :=
  let keys := m.keys.foldl (fun acc k => if acc.contains k then acc else acc ++ [k]) []
  .list (keys.map fun k => .list [.atom k, setSexp (m.get k)])

def nmap? (x : Sexp) : Option NMap := do
  let l ← x.list?
  l.mapM fun p => match p with
    | .list [i, m] => do pure ((← i.nat?), (← tmap? m))
    | _ => none

def nmapSexp (ids : List Nat) (m : NMap) : Sexp :=
  .list (ids.map fun i => .list [Sexp.ofNat i, tmapSexp (m.get i)])

def strs? (x : Sexp) : Option (List String) := do
  let l ← x.list?
  l.mapM Sexp.str?

def nats? (x : Sexp) : Option (List Nat) := do
  let l ← x.list?
  l.mapM Sexp.nat?

/-! ### environment and graph -/

def env? : Sexp → Option FnEnv
  | .list [.atom "env", .atom f, loc, bound, nl, clo] => do
      pure { fname := f, isLocal := (← loc.bool?), bound := (← strs? bound), nonlocals := (← strs? nl),
             closure := (← tmap? clo) }
  | _ => none

def cnode? : Sexp → Option CNode
  | .list [.atom "stmt", s] => (parseStmt s).map .stmt
  | .list [.atom "expr", e] => (parseExpr e).map .expr
  | .list [.atom "foriter", t, i] => do pure (.forIter (← parseExpr t) (← parseExpr i))
  | _ => none

def gnode? : Sexp → Option GNode
  | .list [i, nd, succs, hs, reads, defs] => do
      let ds ← defs.list?
      let ds ← ds.mapM fun p => match p with
        | .list [d, .atom n] => do pure ((← d.nat?), n)
        | _ => none
      pure { id := (← i.nat?), node := (← cnode? nd), succs := (← nats? succs), hasScope := (← hs.bool?),
             reads := (← strs? reads), defsIn := ds }
  | _ => none

def graph? : Sexp → Option Graph
  | .list [.atom "graph", e, ns] => do
      let l ← ns.list?
      pure { nodes := (← l.mapM gnode?), entry := (← e.nat?) }
  | _ => none

/-! ### the replayed resolver -/

structure Query where
  kind : String
  id : Nat := 0
  strs : List String := []
  tys : List (Option TySet) := []
  nargs : Nat := 0

def setEq (a b : TySet) : Bool := TySet.subset a b && TySet.subset b a

def optEq : Option TySet → Option TySet → Bool
  | none, none => true
  | some a, some b => setEq a b
  | _, _ => false

def optsEq : List (Option TySet) → List (Option TySet) → Bool
  | [], [] => true
  | a :: as, b :: bs => optEq a b && optsEq as bs
  | _, _ => false

def Query.same (p q : Query) : Bool :=
  p.kind == q.kind && p.id == q.id && p.strs == q.strs && p.nargs == q.nargs && optsEq p.tys q.tys

def Query.toSexp (q : Query) : Sexp :=
  let sets (l : List (Option TySet)) := Sexp.list (l.map setSexp)
  match q.kind, q.strs, q.tys with
  | "value", [k, r], _ => .list [.atom "value", .atom k, .atom r]
  | "name", [x], _ => .list [.atom "name", .atom x]
  | "arg", [f, n, a, l], _ => .list [.atom "arg", .atom f, .atom n, .atom a, .atom l]
  | "call", _, ft :: rest => .list [.atom "call", Sexp.ofNat q.id, setSexp ft, sets (rest.take q.nargs), sets (rest.drop q.nargs)]
  | "compare", _, t :: rest => .list [.atom "compare", Sexp.ofNat q.id, setSexp t, sets rest]
  | "unop", _, [t] => .list [.atom "unop", Sexp.ofNat q.id, setSexp t]
  | "attr", _, [t] => .list [.atom "attr", Sexp.ofNat q.id, setSexp t]
  | "listlit", _, ts => .list [.atom "listlit", sets ts]
  | k, _, [a, b] => .list [.atom k, Sexp.ofNat q.id, setSexp a, setSexp b]
  | k, _, _ => .list [.atom k, .atom "?"]

def sets? (x : Sexp) : Option (List (Option TySet)) := do
  let l ← x.list?
  l.mapM set?

def query? : Sexp → Option Query
  | .list [.atom "value", .atom k, .atom r] => some { kind := "value", strs := [k, r] }
  | .list [.atom "name", .atom x] => some { kind := "name", strs := [x] }
  | .list [.atom "arg", .atom f, .atom n, .atom a, l] => do
      pure { kind := "arg", strs := [f, n, a, if (← l.bool?) then "True" else "False"] }
  | .list [.atom "call", i, ft, args, kws] => do
      let a ← sets? args
      let k ← sets? kws
      pure { kind := "call", id := (← i.nat?), tys := (← set? ft) :: (a ++ k), nargs := a.length }
  | .list [.atom "compare", i, t, ts] => do
      pure { kind := "compare", id := (← i.nat?), tys := (← set? t) :: (← sets? ts) }
  | .list [.atom "unop", i, t] => do pure { kind := "unop", id := (← i.nat?), tys := [← set? t] }
  | .list [.atom "attr", i, t] => do pure { kind := "attr", id := (← i.nat?), tys := [← set? t] }
  | .list [.atom "listlit", ts] => do pure { kind := "listlit", tys := (← sets? ts) }
  | .list [.atom k, i, a, b] =>
      if k == "sliceidx" || k == "slice" || k == "binop" then do
        pure { kind := k, id := (← i.nat?), tys := [← set? a, ← set? b] }
      else none
  | _ => none

abbrev Table := List (Query × Option TySet)

def table? : Sexp → Option Table
  | .list (.atom "table" :: es) => es.mapM fun e => match e with
      | .list [q, a] => do pure ((← query? q), (← set? a))
      | _ => none
  | _ => none

partial def tyHasMiss : Ty → Bool
  | .other s => s.startsWith "MISS"
  | .fn r => tyHasMiss r
  | .prod ts => ts.toList.any tyHasMiss
  | _ => false

/-- A query whose arguments already contain a miss marker is answered `none` (it is asked again, with real
arguments, in the next round, once the harness has supplied the missing entry). -/
def ask (tbl : Table) (q : Query) : Option TySet :=
  if q.tys.any (fun o => match o with | some T => T.any tyHasMiss | none => false) then none
  else match tbl.find? (fun e => e.1.same q) with
    | some e => e.2
    | none => some [.other ("MISS" ++ toString q.toSexp)]

def replay (tbl : Table) : Resolver where
  value k r := ask tbl { kind := "value", strs := [k, r] }
  name x := ask tbl { kind := "name", strs := [x] }
  arg f n a l := ask tbl { kind := "arg", strs := [f, n, a.getD "", if l then "True" else "False"] }
  call i ft args kws := ask tbl { kind := "call", id := i, tys := ft :: (args ++ kws), nargs := args.length }
  sliceIdx i T I := ask tbl { kind := "sliceidx", id := i, tys := [some T, I] }
  slice i T I := ask tbl { kind := "slice", id := i, tys := [some T, some I] }
  compare i T Ts := ask tbl { kind := "compare", id := i, tys := some T :: Ts.map some }
  unop i T := ask tbl { kind := "unop", id := i, tys := [some T] }
  binop i L R := ask tbl { kind := "binop", id := i, tys := [some L, some R] }
  listLit ts := ask tbl { kind := "listlit", tys := ts }
  attr i T := ask tbl { kind := "attr", id := i, tys := [some T] }

/-! ### misses -/

partial def tyMisses : Ty → List String
  | .other s => if s.startsWith "MISS" then [(s.drop 4).toString] else []
  | .fn r => tyMisses r
  | .prod ts => ts.toList.flatMap tyMisses
  | _ => []

def setMisses (T : TySet) : List String := T.flatMap tyMisses
def tmapMisses (m : TMap) : List String := m.flatMap fun p => setMisses p.2

def dedupS (l : List String) : List String := l.foldl (fun acc k => if acc.contains k then acc else acc ++ [k]) []

def missSexp (ms : List String) : Sexp :=
  .list (.atom "miss" :: (dedupS ms).map .atom)

/-! ### handlers -/

def overrideAnnos (l : List (Nat × TySet)) : List (Nat × TySet) :=
  -- a later annotation of the same node overrides an earlier one
  let ids := l.foldl (fun acc p => if acc.contains p.1 then acc else acc ++ [p.1]) []
  ids.filterMap fun i => (l.reverse.find? (fun p => p.1 == i)).map fun p => (i, p.2)


/-! ### why a function is outside the fully proved fragment -/

def exprKind : Expr → String
  | .name .. => "name" | .const .. => "const" | .attr .. => "attribute" | .subscript .. => "subscript"
  | .call .. => "call" | .keyword .. => "keyword" | .boolop .. => "boolop" | .unary .. => "unaryop"
  | .binop .. => "binop" | .compare .. => "compare" | .ifexp .. => "ifexp" | .lambda .. => "lambda"
  | .seq _ .tuple _ _ => "tuple" | .seq _ .list _ _ => "list" | .seq _ .set _ _ => "set-literal"
  | .starred .. => "starred" | .namedexpr .. => "namedexpr" | .comp .. => "comprehension"
  | .comprehension .. => "comprehension" | .arguments .. => "arguments" | .arg .. => "arg"
  | .withitem .. => "withitem" | .noneMarker => "none" | .other _ k _ _ => k

mutual
/-- The unsupported sub-expressions of an expression (first offending node of each branch). -/
partial def whyE (e : Expr) : List String :=
  if suppE e then [] else
  match e with
  | .seq _ .tuple es _ => whyEs es
  | .seq _ .list es _ => whyEs es
  | .attr _ v _ _ => whyE v
  | .call _ f a k => (if calleeOk f then [] else ["call-of-subscript"]) ++ whyE f ++ whyEs a ++ whyEs k
  | .keyword _ _ _ v => whyE v
  | .subscript _ v s _ => whyE v ++ whyE s
  | .compare _ l _ rs => whyE l ++ whyEs rs
  | .binop _ _ l r => whyE l ++ whyE r
  | .unary _ _ x => whyE x
  | .boolop _ _ vs => whyEs vs
  | .ifexp _ a b c => whyE a ++ whyE b ++ whyE c
  | .starred _ v c => if c == .store then ["starred-target-of-non-name"] else whyE v
  | .other _ k _ kids => if otherKindOk k then whyEs kids else [k]
  | .comp _ _ es gs => whyEs es ++ whyEs gs
  | .comprehension _ t it ifs _ => whyE t ++ whyE it ++ whyEs ifs
  | x => [exprKind x]
partial def whyEs (es : List Expr) : List String := es.flatMap whyE
end

def stmtKind : Stmt → String
  | .functionDef .. => "def" | .classDef .. => "class" | .ret .. => "return" | .delete .. => "del"
  | .assign .. => "assign" | .augAssign .. => "augassign" | .annAssign .. => "annassign" | .for_ .. => "for"
  | .while_ .. => "while" | .if_ .. => "if" | .with_ .. => "with" | .raise .. => "raise" | .try_ .. => "try"
  | .handler .. => "except" | .assert_ .. => "assert" | .import_ .. => "import" | .importFrom .. => "import"
  | .global .. => "global" | .nonlocal .. => "nonlocal" | .expr .. => "expr" | .pass _ => "pass"
  | .break_ _ => "break" | .continue_ _ => "continue" | .other _ k _ _ => k

def whyArg : Expr → List String
  | .arg _ _ [] => []
  | .arg _ _ [.name ..] => []
  | .arg .. => ["parameter-annotation-not-a-name"]
  | _ => ["parameter"]

/-- Why the model does not cover a node (empty = covered). -/
def whyN (n : CNode) : List String :=
  if suppN n then [] else
  match n with
  | .stmt (.assign _ ts v) => whyEs ts ++ whyE v
  | .stmt (.expr _ v) => whyE v
  | .stmt (.ret _ vs) => whyEs vs
  | .stmt (.augAssign _ t _ v) => whyE t ++ whyE v
  | .stmt (.assert_ _ t m) => whyE t ++ whyEs m
  | .stmt (.raise _ e c) => whyEs e ++ whyEs c
  | .stmt (.functionDef _ _ _ _ d r _) =>
      (if d.isEmpty then [] else ["decorated-def"]) ++
      (match r with | [] => [] | [.name ..] => [] | _ => ["return-annotation-not-a-name"])
  | .stmt s => ["stmt:" ++ stmtKind s]
  | .expr (.arguments _ po ar va ko kd kw df) =>
      (po ++ ar ++ va ++ ko ++ kw).flatMap whyArg ++ whyEs kd ++ whyEs df
  | .expr (.withitem _ c vars) => whyE c ++ whyEs vars
  | .expr e => whyE e
  | .forIter t it => whyE t ++ whyE it

/-- Root causes of taint at a node under types_in = tin (not propagation). -/
def taintWhy (R : Resolver) (env : FnEnv) (tin : TMap) (n : CNode) : List String :=
  let nl := if (storedN n).any (fun x => env.nonlocals.contains x) then ["nonlocal-store"] else []
  nl ++ match n with
  | .stmt (.assign _ targets value) =>
      if (untrackedAllT R (tyE R env tin value) targets).isEmpty then []
      else match tyE R env tin value with
        | none => ["untyped-value:" ++ (match value with
                     | .call _ (.name _ f _) _ _ => if env.bound.contains f then "call-of-untyped-local" else "call-unknown-result"
                     | .name .. => "name-of-unknown-type"
                     | v => exprKind v)]
        | some _ => if targets.any (fun t => match t with | .seq _ _ es _ => es.any isStarred | _ => false)
                    then ["starred-pattern"] else ["pattern-element-unknown"]
  | .stmt (.augAssign ..) => ["augassign"]
  | .stmt (.annAssign ..) => ["annassign"]
  | .expr (.arguments i a b c d e f g) =>
      if (untrackedArgs R env (argNodes (.arguments i a b c d e f g))).isEmpty then [] else ["untyped-parameter"]
  | .expr (.withitem _ _ vars) => if (storedEs vars).isEmpty then [] else ["with-as"]
  | .forIter .. => ["for-target"]
  | _ => []

def run (f : Option String) : String := f.getD "bad-args"

def handlers : List (String × (List Sexp → String)) := [
  ("c19.analyze", fun a => run do
      let [e, g, t, fuel] := a | none
      let env ← env? e
      let G ← graph? g
      let tbl ← table? t
      let R := replay tbl
      let (st, fin) := analyze R env G (← fuel.nat?)
      let visited := (G.nodes.map (·.id)).filter fun i => st.ins.has i
      let supported := G.nodes.all fun n => !(visited.contains n.id) || suppN n.node
      let annos := st.annos.reverse
      let closIds := (st.clos.map (·.1)).foldl (fun acc k => if acc.contains k then acc else acc ++ [k]) []
      let misses := visited.flatMap (fun i => tmapMisses (st.ins.get i) ++ tmapMisses (st.outs.get i))
        ++ annos.flatMap (fun p => setMisses p.2) ++ closIds.flatMap (fun i => tmapMisses (st.clos.get i))
      pure (toString (Sexp.list [.atom "result",
        .list [.atom "finished", Sexp.ofBool fin], .list [.atom "supported", Sexp.ofBool supported],
        .list [.atom "ins", nmapSexp visited st.ins], .list [.atom "outs", nmapSexp visited st.outs],
        .list [.atom "annos", .list (annos.map fun p => .list [Sexp.ofNat p.1, setSexp (some p.2)])],
        .list [.atom "clos", nmapSexp closIds st.clos],
        missSexp misses]))),
  ("c19.taint", fun a => run do
      let [e, g, t, reach, ins, seeds] := a | none
      let env ← env? e
      let G ← graph? g
      let tbl ← table? t
      let R := replay tbl
      let reach ← nats? reach
      let ins ← nmap? ins
      let seeds ← strs? seeds
      let misses := reach.flatMap fun i => match G.find i with
        | some n => tmapMisses (transfer R env n.node (ins.get i))
        | none => []
      pure (toString (Sexp.list [.atom "taint",
        .list [.atom "least", Sexp.ofStrs (leastTaint R env G reach ins (seeds.length + env.bound.length + 2) seeds)],
        missSexp misses]))),
  ("c19.why", fun a => run do
      let [e, g, t, reach, ins, w] := a | none
      let env ← env? e
      let G ← graph? g
      let tbl ← table? t
      let R := replay tbl
      let reach ← nats? reach
      let ins ← nmap? ins
      let W ← strs? w
      let nodes := reach.filterMap G.find
      let unsup := dedupS (nodes.flatMap fun n => whyN n.node)
      let taint := dedupS ((if W.isEmpty then [] else ["local-call-rebinds-nonlocal"]) ++
        nodes.flatMap fun n => taintWhy R env (ins.get n.id) n.node)
      let misses := nodes.flatMap fun n => tmapMisses (transfer R env n.node (ins.get n.id))
      pure (toString (Sexp.list [.atom "why", .list (.atom "unsupported" :: unsup.map .atom),
        .list (.atom "taint" :: taint.map .atom), missSexp misses]))),
  ("c19.check", fun a => run do
      let [e, g, t, reach, ins, outs, clos, w, s] := a | none
      let env ← env? e
      let G ← graph? g
      let tbl ← table? t
      let R := replay tbl
      let reach ← nats? reach
      let ins ← nmap? ins
      let outs ← nmap? outs
      let clos ← nmap? clos
      let W ← strs? w
      let S ← strs? s
      let misses := reach.flatMap fun i => match G.find i with
        | some n => tmapMisses (transfer R env n.node (ins.get i))
        | none => []
      pure (toString (Sexp.list [.atom "check",
        .list [.atom "fix", Sexp.ofBool (isTIFix R env G reach S ins outs)],
        .list [.atom "cover", Sexp.ofBool (closCovers G reach outs clos)],
        .list [.atom "taint", Sexp.ofBool (taintClosed R env G reach ins W S)],
        .list [.atom "supported", Sexp.ofBool (reach.all fun i => match G.find i with | some n => suppN n.node | none => false)],
        missSexp misses])))
]

end Malt.Drv.C19
