import MaltModel.Py.SexpAst
import MaltModel.Analysis.ActivityFn
import MaltModel.Spec.Symtable
import MaltModel.Spec.Dynamic
import MaltModel.Analysis.ActivityHyp
import MaltModel.Spec.Outer
/- Driver handlers for the C08 correspondence (glue only; no theorem depends on this file). -/
namespace Malt.Drv.C08
open Malt Malt.Py Malt.Analysis

def sortStrs (xs : List String) : List String := (xs.mergeSort (fun a b => a ≤ b)).eraseDups

def qset (s : QSet) : Sexp := Sexp.ofStrs (sortStrs (s.map QN.toStr))

def paramsSexp (ps : List (QN × Nat)) : Sexp :=
  -- first entry for a key wins (dict semantics with newest-first insertion)
  let keys := sortStrs (ps.map (·.1.toStr))
  .list (keys.map fun k =>
    match ps.find? (fun p => p.1.toStr == k) with
    | some p => .list [.atom k, Sexp.ofNat p.2]
    | none => .atom k)

def scopeSexp (st : St) (s : Scope) : Sexp :=
  .list [Sexp.ofBool s.isolated, .atom (s.functionName.getD "-"),
         qset s.isolatedNames, qset s.read, qset s.modified, qset s.deleted, qset s.bound,
         qset s.globals, qset s.nonlocals, qset s.annotations, paramsSexp s.params, qset (st.referenced s)]

/-- All annotations, last write per (node, key) wins, sorted by node id then key. -/
def annosSexp (st : St) : Sexp :=
  let firsts : List Anno := st.annos.foldl (fun acc a =>
    if acc.any (fun b => b.1 == a.1 && b.2.1 == a.2.1) then acc else a :: acc) []
  let sorted := firsts.mergeSort (fun a b => a.1 < b.1 || (a.1 == b.1 && a.2.1.toStr ≤ b.2.1.toStr))
  .list (sorted.map fun a => .list [Sexp.ofNat a.1, .atom a.2.1.toStr, scopeSexp st a.2.2])

def run (f : Option String) : String := f.getD "bad-args"

def strs (xs : List String) : Sexp := Sexp.ofStrs (sortStrs xs)

def kindStr : Spec.BlockKind → String
  | .function => "function" | .lambda => "lambda" | .class_ => "class" | .listComp => "listcomp"
  | .setComp => "setcomp" | .dictComp => "dictcomp" | .genExp => "genexpr"

def scopeStr : Spec.Scope → String
  | .local => "local" | .globalExplicit => "global-explicit" | .globalImplicit => "global-implicit" | .free => "free"

def specSexp (t : List Spec.BlockInfo) : Sexp :=
  .list (t.map fun b => .list [Sexp.ofNat b.id, Sexp.ofNat b.parent, .atom (kindStr b.kind), .atom b.name,
    .list ((b.syms.mergeSort (fun x y => x.name ≤ y.name)).map fun s =>
      .list [.atom s.name, .atom (scopeStr s.scope), Sexp.ofBool s.isParam, Sexp.ofBool s.declNonlocal, Sexp.ofBool s.propagated])])

def classesSexp (cs : List FnClass) : Sexp :=
  .list (cs.map fun c => .list [Sexp.ofNat c.id, strs c.params, strs c.bound, strs c.globals, strs c.nonlocals,
    strs c.locals, strs c.freeVars, strs c.frees])

def handlers : List (String × (List Sexp → String)) := [
  ("c08.activity", fun a => run do
      let [x] := a | none
      let s ← parseStmt x
      let c := crashOf s
      if c.literalAssert then pure "(crash literalAssert)"
      else if c.handlerName then pure "(crash handlerName)"
      else pure (toString (annosSexp (analyze s)))),
  ("c08.spec", fun a => run do
      let [x] := a | none
      let s ← parseStmt x
      pure (toString (specSexp (Spec.table s)))),
  ("c08.classes", fun a => run do
      let [x] := a | none
      let s ← parseStmt x
      let c := crashOf s
      if c.literalAssert || c.handlerName then pure "(crash)"
      else pure (toString (classesSexp (classifyAll s)))),
  ("c08.units", fun a => run do
      let [x] := a | none
      let s ← parseStmt x
      let one (tag : String) (u : Spec.ExecUnit) : Sexp :=
        .list [Sexp.ofNat u.id, .atom (match u.key with | .scope => "SCOPE" | .iterate => "ITERATE_SCOPE"),
               strs u.reads, strs u.writes, .atom tag]
      pure (toString (Sexp.list (((Spec.stmtUnits s).map (one "stmt")) ++ ((Spec.lambdaUnits s).map (one "lambda")))))),
  ("c08.hyp", fun a => run do
      let [x] := a | none
      let s ← parseStmt x
      pure (toString (Sexp.list [
        .list [.atom "walrusInComp", strs (walrusInComp s)],
        .list [.atom "harmfulLeaks", strs (harmfulLeaks s)],
        .list [.atom "classShadow", strs (classShadow s)],
        .list [.atom "argAnnotations", strs (argAnnotations s)],
        .list [.atom "globalBelow", strs (globalBelow s)],
        .list [.atom "nonlocalBelow", strs (nonlocalBelow s)]]))),
  ("c08.frag", fun a => run do
      let [x] := a | none
      let s ← parseStmt x
      pure (toString (Sexp.list [Sexp.ofBool (FragS s), Sexp.ofBool (SpecOkS s), Sexp.ofBool (uniqueAnnos (analyze s).annos),
        Sexp.ofBool (allDeclsDisjoint s), Sexp.ofBool (FragSC s), Sexp.ofBool (FragSD s),
        Sexp.ofBool (Spec.nonlocalsResolve s)]))),
  -- every def block of the tree: id, the names it resolves outside (`outerB`), the names visible to it
  ("c08.outer", fun a => run do
      let [x] := a | none
      let s ← parseStmt x
      match Spec.blockOf s with
      | none => pure "()"
      | some root =>
          let fs := (Spec.ctxBlocks [] root).filter fun p => p.1.kind == .function
          pure (toString (Sexp.list (fs.map fun p => .list [Sexp.ofNat p.1.id, strs (Spec.outerB p.1), strs p.2]))))
]

end Malt.Drv.C08
