import MaltModel.Conv.SexpTotal
import MaltModel.Conv.TemplateHyp
import MaltModel.Conv.SrcClass
import MaltModel.Conv.Arity
import MaltModel.Conv.ParserImage
import MaltModel.Generated.Templates
/- Driver handlers for the C17 correspondence and the verified context checker (glue only). -/
namespace Malt.Drv.C17
open Malt Malt.Py Malt.Conv Malt.Conv.Template Malt.Conv.SexpTotal

def binding? : Sexp → Option Binding
  | .list [.atom "node", e] => (readE e).map .node
  | .list (.atom "nodes" :: es) => (readEs es).map .nodes
  | .list [.atom "stmt", s] => (readS s).map .stmt
  | .list (.atom "stmts" :: ss) => (readSs ss).map .stmts
  | _ => none

def bindings? : Sexp → Option Bindings
  | .list xs => xs.mapM fun x => match x with
      | .list [.atom k, v] => (binding? v).map fun b => (k, b)
      | _ => none
  | _ => none

def errName : TemplErr → String
  | .notSingle => "notSingle" | .stmtInExprPosition => "stmtInExprPosition" | .exprInStmtPosition => "exprInStmtPosition"
  | .keywordRepl => "keywordRepl" | .functionNameRepl => "functionNameRepl" | .attributeRepl => "attributeRepl"
  | .argRepl => "argRepl" | .notExpression => "notExpression"

def flags (t : List Stmt) (b : Bindings) : List Sexp :=
  [Sexp.ofBool (ctxOk t), Sexp.ofBool (bindingsWfB b), Sexp.ofBool (usesOkSs b t), Sexp.ofBool (argsOkSs b t)]

def run (f : Option String) : String := f.getD "bad-args"

/-- labels that occur more than once, and labels shared with the bindings -/
def dupAndShared (ls : List Nat) (b : Bindings) : Sexp :=
  let bl := bindingLabels b
  let dups := ls.filter fun l => (ls.filter (· == l)).length > 1
  .list [.list (dups.eraseDups.map Sexp.ofNat), .list ((ls.filter fun l => bl.contains l).eraseDups.map Sexp.ofNat)]

def kindName : Expr → String
  | .name .. => "name" | .const .. => "const" | .attr .. => "attr" | .subscript .. => "subscript" | .call .. => "call"
  | .keyword .. => "keyword" | .boolop .. => "boolop" | .unary .. => "unary" | .binop .. => "binop" | .compare .. => "compare"
  | .ifexp .. => "ifexp" | .lambda .. => "lambda" | .seq _ .tuple .. => "tuple" | .seq _ .list .. => "list" | .seq _ .set .. => "set"
  | .starred .. => "starred" | .namedexpr .. => "namedexpr" | .comp .. => "comp" | .comprehension .. => "comprehension"
  | .arguments .. => "arguments" | .arg .. => "arg" | .withitem .. => "withitem" | .noneMarker => "none" | .other _ k _ _ => k

def ctxName : Ctx → String
  | .load => "Load" | .store => "Store" | .del => "Del"

mutual
/-- named reasons why `exposedOk c e` fails (mirrors `exposedOk`; glue) -/
partial def exposedWhy (c : Ctx) : Expr → List String
  | .noneMarker | .name .. => []
  | .attr _ v _ _ => exposedWhy .load v
  | .subscript _ v s _ => exposedWhy .load v ++ exposedWhy .load s
  | .seq _ k es _ => (if k == .set && c != .load then ["set-display-at-" ++ ctxName c] else []) ++ exposedWhys c es
  | .starred _ v c' => (if c' != c then ["starred-" ++ ctxName c' ++ "-adjusted-to-" ++ ctxName c] else []) ++ exposedWhy c v
  | .namedexpr .. => ["walrus-target-reached-by-adjuster"]
  | .call .. | .lambda .. | .comprehension .. | .const .. => if c != .load then ["non-assignable-at-" ++ ctxName c] else []
  | .other _ k _ kids => (if c != .load then ["non-assignable-at-" ++ ctxName c] else []) ++ (if k == "Dict" then [] else exposedWhys c kids)
  | .keyword _ _ _ v => nl c ++ exposedWhy c v
  | .boolop _ _ vs => nl c ++ exposedWhys c vs
  | .unary _ _ e => nl c ++ exposedWhy c e
  | .binop _ _ l r => nl c ++ exposedWhy c l ++ exposedWhy c r
  | .compare _ l _ rs => nl c ++ exposedWhy c l ++ exposedWhys c rs
  | .ifexp _ t b e => nl c ++ exposedWhy c t ++ exposedWhy c b ++ exposedWhy c e
  | .comp _ _ es gs => nl c ++ exposedWhys c es ++ exposedWhys c gs
  | .arguments _ po ar va ko kd kw df => nl c ++ exposedWhys c (po ++ ar ++ va ++ ko ++ kd ++ kw ++ df)
  | .arg _ _ an => nl c ++ exposedWhys c an
  | .withitem _ ce ov => nl c ++ exposedWhy c ce ++ (if ov.isEmpty then [] else ["with-item-variable-reached"])
partial def exposedWhys (c : Ctx) (es : List Expr) : List String := es.flatMap (exposedWhy c)
partial def nl (c : Ctx) : List String := if c != .load then ["non-assignable-at-" ++ ctxName c] else []
end

/-- per placeholder occurrence: a shape tag, and the reasons (if any) it falls outside `usesOk` / `argsOk` -/
def whyCall (t : List Stmt) (b : Bindings) : List String × List String :=
  let subs := Malt.Conv.SrcClass.subSs t
  let bkind : Binding → String
    | .node e => kindName e
    | .nodes es => "nodes" ++ toString es.length
    | .stmt _ => "stmt"
    | .stmts ss => "stmts" ++ toString (min ss.length 2)
  subs.foldl (fun (acc : List String × List String) e =>
    match e with
    | .name _ s c => match b.lookup s with
        | some bd =>
            let why := bd.exprs.flatMap fun x => if hasCtxField x then exposedWhy c x else (if c != .load then ["non-assignable-at-" ++ ctxName c] else [])
            (acc.1 ++ [ctxName c ++ ":" ++ bkind bd], acc.2 ++ why)
        | none => acc
    | .arg _ s _ => match b.lookup s with
        | some bd => (acc.1 ++ ["param:" ++ bkind bd],
                      acc.2 ++ (if bd.exprs.all isName then [] else ["parameter-placeholder-bound-to-nodes-inserted-uncopied"]))
        | none => acc
    | .keyword _ s true _ => match b.lookup s with
        | some bd => (acc.1 ++ ["kwname:" ++ bkind bd], acc.2)
        | none => acc
    | .attr _ _ s _ => match b.lookup s with
        | some bd => (acc.1 ++ ["attrname:" ++ bkind bd], acc.2)
        | none => acc
    | _ => acc) ([], [])

def handlers : List (String × (List Sexp → String)) := [
  -- c17.why (<template>) (<bindings>) -> ((tmplOk bindingsWf usesOk argsOk sharedOk) (shape...) (reason...))
  ("c17.why", fun a => run do
      let [.list ts, bs] := a | none
      let t ← readSs ts
      let b ← bindings? bs
      let (shapes, why) := whyCall t b
      let fnnames := (b.filter fun p => nameOcc p.1 t == 0 && argOcc p.1 t == 0).map fun p => "ident-or-unused:" ++ p.1
      pure (toString (Sexp.list [Sexp.list (flags t b ++ [Sexp.ofBool (sharedOk b t)]), Sexp.ofStrs (shapes ++ (if fnnames.isEmpty then [] else ["ident-position"])),
                                 Sexp.ofStrs why.eraseDups]))),
  -- (ctxOk)   c17.ctxok <stmt>...
  ("c17.ctxok", fun a => run do
      let ss ← readSs a
      pure (toString (Sexp.ofBool (ctxOk ss)))),
  -- (ctxOk arityOk parserImage (reasons)) of a real tree
  ("c17.treeok", fun a => run do
      let ss ← readSs a
      let why := (Malt.Conv.SrcClass.subSs ss).flatMap fun e => match e with
        | .name _ s _ => if pyKeywords.contains s then ["keyword-as-Name:" ++ s] else []
        | .const _ k r => (if badNumber k r then ["numeric-Constant-not-a-literal:" ++ r] else []) ++ (if badConstKind k then ["Constant-of-kind:" ++ k] else [])
        | .seq _ .set [] _ => ["empty-set-display"]
        | .other _ "JoinedStr" _ kids => if fstringParts kids then [] else ["f-string-literal-parts-not-merged"]
        | _ => []
      let why := why ++ (if bodiesSs ss then [] else ["empty-block-or-list"])
      pure (toString (Sexp.list [Sexp.ofBool (ctxOk ss), Sexp.ofBool (arityOk ss), Sexp.ofBool (parserImage ss), Sexp.ofStrs why.eraseDups]))),
  -- which top-level statements / first-level children fail (diagnostics)
  ("c17.ctxbad", fun a => run do
      let ss ← readSs a
      pure (toString (Sexp.list ((ss.filter fun s => !okS s).map fun s => Sexp.ofNat s.id)))),
  -- c17.inst (<template stmts>) (<bindings>)  ->  (ok (<stmts>) tmplOk bindingsWf usesOk argsOk resultCtxOk (dups) (shared)) | (err kind ...)
  ("c17.inst", fun a => run do
      let [.list ts, bs] := a | none
      let t ← readSs ts
      let b ← bindings? bs
      match instantiate t b with
      | .ok r => pure (toString (Sexp.list ([.atom "ok", Sexp.list (printSs r)] ++ flags t b ++ [Sexp.ofBool (ctxOk r), dupAndShared (labelsSs r) b])))
      | .error e => pure (toString (Sexp.list ([.atom "err", .atom (errName e)] ++ flags t b)))),
  ("c17.instexpr", fun a => run do
      let [.list ts, bs] := a | none
      let t ← readSs ts
      let b ← bindings? bs
      match instantiateExpr t b with
      | .ok r => pure (toString (Sexp.list ([.atom "ok", printE r] ++ flags t b ++ [Sexp.ofBool (okE .load r), dupAndShared (labelsE r) b])))
      | .error e => pure (toString (Sexp.list ([.atom "err", .atom (errName e)] ++ flags t b)))),
  ("c17.instbare", fun a => run do
      let [.list ts, bs] := a | none
      let t ← readSs ts
      let b ← bindings? bs
      match instantiateBare t b with
      | .ok r => pure (toString (Sexp.list ([.atom "ok", printE r] ++ flags t b ++ [Sexp.ofBool (okE .load r), dupAndShared (labelsE r) b])))
      | .error e => pure (toString (Sexp.list ([.atom "err", .atom (errName e)] ++ flags t b)))),
  -- finding classes decided on the SOURCE function
  ("c17.srcclass", fun a => run do
      let [x] := a | none
      let s ← readS x
      pure (toString (Sexp.list [Sexp.ofBool (Malt.Conv.SrcClass.hasStoreListDisplay s),
                                 Sexp.ofBool (Malt.Conv.SrcClass.appendInExprPosition s)]))),
  -- echo through the verified reader/printer pair (serialisation self-test on every real tree)
  ("c17.echo", fun a => run do
      let [x] := a | none
      let s ← readS x
      pure (toString (printS s))),
  -- the generated table
  ("c17.tmpl", fun a => run do
      let [.atom nm] := a | none
      let p ← Malt.Gen.allTemplates.find? (fun p => p.1 == nm)
      pure (toString (Sexp.list [Sexp.list (printSs p.2.1), Sexp.ofStrs p.2.2]))),
  ("c17.sites", fun _ => toString (Sexp.list (Malt.Gen.templateSites.map fun (n, f, l1, l2, e) =>
      Sexp.list [.atom n, .atom f, Sexp.ofNat l1, Sexp.ofNat l2, Sexp.ofBool e]))),
  ("c17.unresolved", fun _ => toString (Sexp.ofStrs Malt.Gen.unresolvedSites))
]

end Malt.Drv.C17
