import MaltModel.Conv.SexpTotal
import MaltModel.Conv.TemplateHyp
import MaltModel.Conv.SrcClass
import MaltModel.Conv.Arity
import MaltModel.Generated.Templates
/- Driver handlers for the C17 correspondence and the verified context checker (glue only). -/
namespace Malt.Drv.C17
open Malt Malt.Py Malt.Conv Malt.Conv.Template Malt.Conv.SexpTotal

def binding? : Sexp → Option Binding
  | .list [.atom "node", e] => (readE e).map .node
  | .list (.atom "nodes" :: es) => (readEs es).map .nodes
  | .list [.atom "stmt", s] => (readS s).map .stmt
  | .list (.atom "stmts" :: ss) => (readSs ss).map .stmts
  | _ => none

def bindings? : Sexp → Option Bindings
  | .list xs => xs.mapM fun x => match x with
      | .list [.atom k, v] => (binding? v).map fun b => (k, b)
      | _ => none
  | _ => none

def errName : TemplErr → String
  | .notSingle => "notSingle" | .stmtInExprPosition => "stmtInExprPosition" | .exprInStmtPosition => "exprInStmtPosition"
  | .keywordRepl => "keywordRepl" | .functionNameRepl => "functionNameRepl" | .attributeRepl => "attributeRepl"
  | .argRepl => "argRepl" | .notExpression => "notExpression"

def flags (t : List Stmt) (b : Bindings) : List Sexp :=
  [Sexp.ofBool (ctxOk t), Sexp.ofBool (bindingsWfB b), Sexp.ofBool (usesOkSs b t), Sexp.ofBool (argsOkSs b t)]

def run (f : Option String) : String := f.getD "bad-args"

/-- labels that occur more than once, and labels shared with the bindings -/
def dupAndShared (ls : List Nat) (b : Bindings) : Sexp :=
  let bl := bindingLabels b
  let dups := ls.filter fun l => (ls.filter (· == l)).length > 1
  .list [.list (dups.eraseDups.map Sexp.ofNat), .list ((ls.filter fun l => bl.contains l).eraseDups.map Sexp.ofNat)]

def handlers : List (String × (List Sexp → String)) := [
  -- (ctxOk)   c17.ctxok <stmt>...
  ("c17.ctxok", fun a => run do
      let ss ← readSs a
      pure (toString (Sexp.ofBool (ctxOk ss)))),
  -- (ctxOk arityOk) of a real tree
  ("c17.treeok", fun a => run do
      let ss ← readSs a
      pure (toString (Sexp.list [Sexp.ofBool (ctxOk ss), Sexp.ofBool (arityOk ss)]))),
  -- which top-level statements / first-level children fail (diagnostics)
  ("c17.ctxbad", fun a => run do
      let ss ← readSs a
      pure (toString (Sexp.list ((ss.filter fun s => !okS s).map fun s => Sexp.ofNat s.id)))),
  -- c17.inst (<template stmts>) (<bindings>)  ->  (ok (<stmts>) tmplOk bindingsWf usesOk argsOk resultCtxOk (dups) (shared)) | (err kind ...)
  ("c17.inst", fun a => run do
      let [.list ts, bs] := a | none
      let t ← readSs ts
      let b ← bindings? bs
      match instantiate t b with
      | .ok r => pure (toString (Sexp.list ([.atom "ok", Sexp.list (printSs r)] ++ flags t b ++ [Sexp.ofBool (ctxOk r), dupAndShared (labelsSs r) b])))
      | .error e => pure (toString (Sexp.list ([.atom "err", .atom (errName e)] ++ flags t b)))),
  ("c17.instexpr", fun a => run do
      let [.list ts, bs] := a | none
      let t ← readSs ts
      let b ← bindings? bs
      match instantiateExpr t b with
      | .ok r => pure (toString (Sexp.list ([.atom "ok", printE r] ++ flags t b ++ [Sexp.ofBool (okE .load r), dupAndShared (labelsE r) b])))
      | .error e => pure (toString (Sexp.list ([.atom "err", .atom (errName e)] ++ flags t b)))),
  ("c17.instbare", fun a => run do
      let [.list ts, bs] := a | none
      let t ← readSs ts
      let b ← bindings? bs
      match instantiateBare t b with
      | .ok r => pure (toString (Sexp.list ([.atom "ok", printE r] ++ flags t b ++ [Sexp.ofBool (okE .load r), dupAndShared (labelsE r) b])))
      | .error e => pure (toString (Sexp.list ([.atom "err", .atom (errName e)] ++ flags t b)))),
  -- finding classes decided on the SOURCE function
  ("c17.srcclass", fun a => run do
      let [x] := a | none
      let s ← readS x
      pure (toString (Sexp.list [Sexp.ofBool (Malt.Conv.SrcClass.hasStoreListDisplay s),
                                 Sexp.ofBool (Malt.Conv.SrcClass.appendInExprPosition s)]))),
  -- echo through the verified reader/printer pair (serialisation self-test on every real tree)
  ("c17.echo", fun a => run do
      let [x] := a | none
      let s ← readS x
      pure (toString (printS s))),
  -- the generated table
  ("c17.tmpl", fun a => run do
      let [.atom nm] := a | none
      let p ← Malt.Gen.allTemplates.find? (fun p => p.1 == nm)
      pure (toString (Sexp.list [Sexp.list (printSs p.2.1), Sexp.ofStrs p.2.2]))),
  ("c17.sites", fun _ => toString (Sexp.list (Malt.Gen.templateSites.map fun (n, f, l1, l2, e) =>
      Sexp.list [.atom n, .atom f, Sexp.ofNat l1, Sexp.ofNat l2, Sexp.ofBool e]))),
  ("c17.unresolved", fun _ => toString (Sexp.ofStrs Malt.Gen.unresolvedSites))
]

end Malt.Drv.C17
