import MaltModel.Rt.Builtins
/- Driver handlers for the C14 correspondence (glue only; no theorem depends on this file).
Argument values are string tokens; `(const c)` is a library literal. -/
namespace Malt.Drv.C14
open Malt Malt.Gen.Builtins Malt.Builtins

abbrev V := Val String

def val? : Sexp → Option V
  | .atom s => some (.arg s)
  | .list [.atom "const", .atom c] => some (.const c)
  | _ => none

def valSexp : V → Sexp
  | .arg s => .atom s
  | .const c => .list [.atom "const", .atom c]

def kw? : Sexp → Option (String × V)
  | .list [.atom k, v] => (val? v).map (fun v => (k, v))
  | _ => none

def shape? : Sexp → Option (CallShape String)
  | .list [.list pos, .list kw] => do
      let pos ← pos.mapM val?
      let kw ← kw.mapM kw?
      pure ⟨pos, kw⟩
  | _ => none

def shapeSexp (c : CallShape String) : List Sexp :=
  [.list (c.pos.map valSexp), .list (c.kw.map fun kv => .list [.atom kv.1, valSexp kv.2])]

def kind? : String → Option PKind
  | "posOnly" => some .posOnly | "posOrKw" => some .posOrKw | "varPos" => some .varPos
  | "kwOnly" => some .kwOnly | "varKw" => some .varKw | _ => none

def kindName : PKind → String
  | .posOnly => "posOnly" | .posOrKw => "posOrKw" | .varPos => "varPos" | .kwOnly => "kwOnly" | .varKw => "varKw"

def param? : Sexp → Option Param
  | .list [.atom n, .atom k, .atom "none"] => (kind? k).map (fun k => ⟨n, k, none⟩)
  | .list [.atom n, .atom k, .list [.atom "some", .atom d]] => (kind? k).map (fun k => ⟨n, k, some d⟩)
  | _ => none

def paramSexp (p : Param) : Sexp :=
  .list [.atom p.name, .atom (kindName p.kind),
         match p.dflt with | none => .atom "none" | some d => .list [.atom "some", .atom d]]

def sig? : Sexp → Option Signature
  | .list ps => ps.mapM param?
  | _ => none

def sigSexp (s : Signature) : Sexp := .list (s.map paramSexp)

def boundSexp : Bound String → Sexp
  | .val v => .list [.atom "val", valSexp v]
  | .star vs => .list (.atom "star" :: vs.map valSexp)
  | .dstar kvs => .list (.atom "dstar" :: kvs.map fun kv => .list [.atom kv.1, valSexp kv.2])

def envSexp (e : Env String) : Sexp := .list (e.map fun x => .list [.atom x.1, boundSexp x.2])

def errSexp : BindErr → List Sexp
  | .tooManyPositional => [.atom "tooManyPositional"]
  | .unexpectedKeyword k => [.atom "unexpectedKeyword", .atom k]
  | .posOnlyAsKeyword => [.atom "posOnlyAsKeyword"]
  | .multipleValues k => [.atom "multipleValues", .atom k]
  | .missing p => [.atom "missing", .atom p]

def bindSexp (r : Except BindErr (Env String)) : Sexp :=
  match r with
  | .ok e => .list [.atom "ok", envSexp e]
  | .error e => .list (.atom "err" :: errSexp e)

def truthy? : Sexp → Option (String → Bool)
  | .list (.atom "truthy" :: ts) => do
      let ts ← ts.mapM Sexp.str?
      pure (fun s => ts.contains s)
  | _ => none

def fwdSexp (r : Except FwdErr (Fwd String)) : Sexp :=
  match r with
  | .ok f => .list ([.atom "ok", .atom f.callee, Sexp.ofBool f.tail] ++ shapeSexp f.call)
  | .error (.bind e) => .list (.atom "err" :: .atom "bind" :: errSexp e)
  | .error .valueError => .list [.atom "err", .atom "valueError"]
  | .error (.model w) => .list [.atom "err", .atom "model", .atom w]

def frame? : Sexp → Option Frame
  | .list [.atom code, .list locals, g, .list vns] => do
      let locals ← locals.mapM fun x => match x with
        | .list [.atom n, i] => i.nat?.map (fun i => (n, i))
        | _ => none
      let g ← g.nat?
      let vns ← vns.mapM Sexp.str?
      pure ⟨code, locals, g, vns⟩
  | _ => none

def earg? : Sexp → Option EArg
  | .atom "none" => some .none
  | .list [.atom "obj", i] => i.nat?.map (fun i => .ns (.obj i))
  | _ => none

def nsSexp : Ns → Sexp
  | .frameGlobals f => .list [.atom "frameGlobals", Sexp.ofNat f]
  | .frameLocals f => .list [.atom "frameLocals", Sexp.ofNat f]
  | .obj i => .list [.atom "obj", Sexp.ofNat i]

def nsPairSexp : Option (Ns × Ns) → Sexp
  | some (g, l) => .list [nsSexp g, nsSexp l]
  | none => .atom "none"

def run (f : Option String) : String := f.getD "bad-args"

def handlers : List (String × (List Sexp → String)) := [
  ("c14.bind", fun a => run do
      let [s, c] := a | none
      pure (toString (bindSexp (bind (← sig? s) (← shape? c))))),
  ("c14.forward", fun a => run do
      let [.atom b, c, t] := a | none
      pure (toString (fwdSexp (forward (← truthy? t) b (← shape? c))))),
  -- the table entry called with registries that have entries: tokens named sa… / sb… are staged (override 1 / 2)
  ("c14.mappedS", fun a => run do
      let [.atom b, c, t] := a | none
      let staged : Staging String := fun _ tok => if tok.startsWith "sa" then some 1 else if tok.startsWith "sb" then some 2 else none
      pure (match callMappedS staged (← truthy? t) b (← shape? c) with
        | .ok (.py f) => toString (Sexp.list ([.atom "py", .atom f.callee, Sexp.ofBool f.tail] ++ shapeSexp f.call))
        | .ok (.override o c1) => toString (Sexp.list ([.atom "override", Sexp.ofNat o] ++ shapeSexp c1))
        | .error (.bind _) => "TypeError"
        | .error .valueError => "ValueError"
        | .error (.model w) => "model-error " ++ w)),
  -- where a generated call stands with respect to C14_forward_table_partial
  ("c14.coverage", fun a => run do
      let [.atom b, c] := a | none
      let c ← shape? c
      pure (if !(mappedBuiltins.contains b) then "not-in-BUILTIN_FUNCTIONS_MAP"
            else if !(userShape c) then "sentinel-argument"
            else if (valuesOf c).any (fun v => match v with | .arg t => t.startsWith "sa" || t.startsWith "sb" | _ => false)
              then "staged-argument"
            else if (spec b).any (fun form => accepts form c) then
              (if supportedBuiltins.contains b then "in-theorem" else "in-theorem(mapped-not-supported)")
            else "shape-rejected-by-builtin-signature")),
  -- per documented form: accepted?, and the conclusion of C14_forward evaluated on this shape
  ("c14.preserved", fun a => run do
      let [.atom b, c, t] := a | none
      let c ← shape? c
      let t ← truthy? t
      let rows := (spec b).map fun form =>
        let acc := accepts form c
        let concl := match forward t b c with
          | .ok r => r.callee == b && accepts form r.call && envEquiv t b (envOf form c) (envOf form r.call)
          | .error _ => false
        Sexp.list [Sexp.ofBool acc, Sexp.ofBool concl]
      pure (toString (Sexp.list rows))),
  ("c14.spec", fun a => run do
      let [.atom b] := a | none
      pure (toString (Sexp.list ((spec b).map sigSexp)))),
  ("c14.sig", fun a => run do
      let [.atom n] := a | none
      match findOverload n, findHelper n with
      | some o, _ => pure (toString (sigSexp o.params))
      | none, some h => pure (toString (sigSexp h.params))
      | none, none => pure "undefined"),
  ("c14.tables", fun _ => toString (Sexp.list [
      Sexp.ofStrs supportedBuiltins,
      .list (builtinFunctionsMap.map fun kv => .list [.atom kv.1, .atom kv.2]),
      Sexp.ofStrs (overloads.map (·.name)), Sexp.ofStrs (helpers.map (·.name)),
      Sexp.ofStrs registries, Sexp.ofStrs lazyBuiltins])),
  ("c14.find", fun a => run do
      let [.atom name, id, inn, .list frames] := a | none
      let fs ← frames.mapM frame?
      match findOriginatingFrame name (← id.nat?) (← inn.bool?) fs with
      | some i => pure (toString i)
      | none => pure "none"),
  ("c14.innermost", fun a => run do
      let [.atom b] := a | none
      match innermostOf b with
      | some x => pure (toString (Sexp.ofBool x))
      | none => pure "none"),
  ("c14.evalfwd", fun a => run do
      let [lib, user, .list extra] := a | none
      pure (toString (nsPairSexp (evalForward (← lib.nat?) (← user.nat?) (← extra.mapM earg?))))),
  ("c14.evalspec", fun a => run do
      let [user, .list extra] := a | none
      pure (toString (nsPairSexp (evalSpec (← user.nat?) (← extra.mapM earg?))))),
  -- class predicates of the known findings (negations of the `_partial` hypotheses)
  ("c14.class.eval", fun a => run do
      let [.list extra] := a | none
      let e ← extra.mapM earg?
      pure (if evalArgsFaithful e then "faithful" else if evalGlobalsOnly e then "eval_globals_without_locals"
            else if evalNoneGlobals e then "eval_explicit_none_globals" else "other")),
  -- class of C14-frame-builtin-in-body evaluated on a recorded stack
  ("c14.class.body", fun a => run do
      let [.atom name, id, .list needed, .list frames] := a | none
      let fs ← frames.mapM frame?
      let needed ← needed.mapM Sexp.str?
      pure (toString (Sexp.ofBool (bodyHidesName name (← id.nat?) needed fs)))),
  -- the frame discipline checker on a recorded stack: (depth, all holders share the first holder's globals)
  ("c14.genstack", fun a => run do
      let [.atom name, id, .list frames] := a | none
      let fs ← frames.mapM frame?
      let id ← id.nat?
      match genDepth name id fs, (holders name id fs).head? with
      | some n, some h => pure (toString (Sexp.list [Sexp.ofNat n, Sexp.ofBool (genGlobalsOk name id h.globals fs)]))
      | _, _ => pure "none"),
  -- class of C14-stale-dynamic-read: writes are (name inBody nonlocalDecl)
  ("c14.class.stale", fun a => run do
      let [.list needed, .list ws] := a | none
      let needed ← needed.mapM Sexp.str?
      let ws ← ws.mapM fun w => match w with
        | .list [.atom n, b, d] => do pure (⟨n, 0, ← b.bool?, ← d.bool?⟩ : Write)
        | _ => none
      pure (toString (Sexp.ofBool (staleDynamicRead needed ws))))
]

end Malt.Drv.C14
