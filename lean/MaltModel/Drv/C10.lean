import MaltModel.Util.Sexp
import MaltModel.Rt.Cache
/- Driver handlers for the C10 trace validation (glue only; no theorem depends on this file).

`cache-validate <progs> <events>`: is the globally ordered event log of the real cache an execution
of the model?  Every event must be exactly what the model's thread would do next, with the same
observable result; the model state is advanced with `Malt.Cache.step` only.  On acceptance the
answer lists the predicted outcome of every request, the transform counts and the class predicates
of the history (`ValInj`, `SigCoherent` — the hypotheses of the `_partial` theorems). -/
namespace Malt.Drv.C10
open Malt Malt.Gen Malt.Cache

abbrev O := Malt.Options.Opts
/-- Factories of the validating instance: (id of the code object whose source was converted,
canonical options, namespace view used). -/
abbrev F := Nat × String × Nat

def optsStr (o : O) : String := toString (Malt.Options.tupleSexp o)
/-- `fail`: code values whose conversion raises. -/
def T (fail : List Nat) : Code → O → Nat → Option F := fun c o s =>
  if fail.contains c.val then none else some (c.id, optsStr o, s)

def feats? (xs : List Sexp) : Option (List Feature) :=
  xs.mapM fun x => x.str? >>= Feature.ofName?

def opts? : Sexp → Option O
  | .list [r, u, i, .list fs] => do
      let r ← r.bool?; let u ← u.bool?; let i ← i.bool?; let fs ← feats? fs
      pure (Malt.Options.ctor r u i (.many fs))
  | _ => none

def req? : Sexp → Option (Request O)
  | .list [cid, cval, o, eid, esig] => do
      pure ⟨⟨← cid.nat?, ← cval.nat?⟩, ← opts? o, ⟨← eid.nat?, ← esig.nat?⟩⟩
  | _ => none

def progs? : Sexp → Option (List (List (Request O)))
  | .list ps => ps.mapM fun p => match p with
      | .list rs => rs.mapM req?
      | _ => none
  | _ => none

inductive Ev where
  | begin (t : Nat)
  | oget (t : Nat) (res : Option Nat)
  | oset (t : Nat)
  | ihas (t : Nat) (res : Bool)
  | iget (t : Nat) (res : Option Nat)
  | iset (t : Nat) (f : Nat)
  | acq (t : Nat)
  | rel (t : Nat)
  | xform (t : Nat) (ok : Bool)
  | inst (t : Nat) (f : Nat) (env : Nat)
  | gc (c : Code)

def optNat? : Sexp → Option (Option Nat)
  | .atom "none" => some none
  | x => x.nat?.map some

def ev? : Sexp → Option Ev
  | .list [.atom "begin", t] => do pure (.begin (← t.nat?))
  | .list [.atom "oget", t, r] => do pure (.oget (← t.nat?) (← optNat? r))
  | .list [.atom "oset", t] => do pure (.oset (← t.nat?))
  | .list [.atom "ihas", t, r] => do pure (.ihas (← t.nat?) (← r.bool?))
  | .list [.atom "iget", t, r] => do pure (.iget (← t.nat?) (← optNat? r))
  | .list [.atom "iset", t, f] => do pure (.iset (← t.nat?) (← f.nat?))
  | .list [.atom "acq", t] => do pure (.acq (← t.nat?))
  | .list [.atom "rel", t] => do pure (.rel (← t.nat?))
  | .list [.atom "xform", t, ok] => do pure (.xform (← t.nat?) (← ok.bool?))
  | .list [.atom "inst", t, f, e] => do pure (.inst (← t.nat?) (← f.nat?) (← e.nat?))
  | .list [.atom "gc", i, v] => do pure (.gc ⟨← i.nat?, ← v.nat?⟩)
  | _ => none

def pcName : Pc F → String
  | .idle => "idle" | .has1 lk => s!"has1[{lk}]" | .has2 lk b => s!"has2[{lk},{b}]"
  | .get1 lk => s!"get1[{lk}]" | .get1c lk => s!"get1c[{lk}]" | .get2 lk b => s!"get2[{lk},{b}]"
  | .acq => "acq" | .xform => "xform" | .st1 _ => "st1" | .st1c _ => "st1c" | .st2 _ b => s!"st2[{b}]"
  | .rel _ _ => "rel" | .inst _ _ => "inst"

structure V where
  fail : List Nat
  s : State O F
  bind : List (Nat × F)          -- factory serial of the implementation ↦ model factory
  unsafeGc : List Nat := []      -- code ids whose `gc` step was not `GcSafe` (the schedule is outside `SchedSafe`)

def bindOk (v : V) (ser : Nat) (f : F) : Option V :=
  match v.bind.lookup ser with
  | some g => if g = f then some v else none
  | none => some { v with bind := (ser, f) :: v.bind }

/-- One event against the model.  `Except` message on rejection. -/
def stepEv (v : V) (e : Ev) : Except String V :=
  let thrStep (t : Nat) (k : Thread O F → Request O → Except String V) : Except String V :=
    match v.s.threads[t]? with
    | none => .error s!"no such thread {t}"
    | some th =>
      match th.todo with
      | [] => .error s!"thread {t} has no request left"
      | r :: _ => k th r
  let adv (t : Nat) (v : V) : V := { v with s := step (T v.fail) v.s (.thr t) }
  let mism (t : Nat) (th : Thread O F) (what : String) : Except String V :=
    .error s!"thread {t} is at {pcName th.pc} in the model; event {what}"
  match e with
  | .gc c =>
    if live v.s c then .error s!"gc of code {c.id} while a live function uses it"
    else if (v.s.outer.any (fun e => e.1 = c)) then
      .ok { v with s := step (T v.fail) v.s (.gc c),
                   unsafeGc := if decide (GcSafe v.s c) then v.unsafeGc else v.unsafeGc ++ [c.id] }
    else .error s!"gc of code {c.id}: the model has no entry keyed by this object"
  | .begin t => thrStep t fun th _ =>
      match th.pc with
      | .idle => .ok (adv t v)
      | _ => mism t th "begin"
  | .oget t res => thrStep t fun th r =>
      let exp := ofind r.code v.s.outer
      match th.pc with
      | .has1 _ | .get1 _ | .st1 _ =>
        if exp = res then .ok (adv t v) else .error s!"thread {t} at {pcName th.pc}: outer get returned {res}, model {exp}"
      | _ => mism t th "oget"
  | .oset t => thrStep t fun th _ =>
      match th.pc with
      | .get1c _ | .st1c _ => .ok (adv t v)
      | _ => mism t th "oset"
  | .ihas t res => thrStep t fun th r =>
      match th.pc with
      | .has2 _ b =>
        let exp := (bfind r.opts (bucketAt v.s b)).isSome
        if exp = res then .ok (adv t v) else .error s!"thread {t} at {pcName th.pc}: `in` returned {res}, model {exp}"
      | _ => mism t th "ihas"
  | .iget t res => thrStep t fun th r =>
      match th.pc with
      | .get2 _ b =>
        match bfind r.opts (bucketAt v.s b), res with
        | none, none => .ok (adv t v)
        | some f, some ser =>
          match bindOk v ser f with
          | some v' => .ok (adv t v')
          | none => .error s!"thread {t} at {pcName th.pc}: fetched factory #{ser} is not the model's {f}"
        | some f, none => .error s!"thread {t}: KeyError, model has {f}"
        | none, some ser => .error s!"thread {t}: fetched #{ser}, model raises KeyError"
      | _ => mism t th "iget"
  | .iset t ser => thrStep t fun th _ =>
      match th.pc with
      | .st2 f _ =>
        match bindOk v ser f with
        | some v' => .ok (adv t v')
        | none => .error s!"thread {t}: stored factory #{ser} already stands for another conversion than {f}"
      | _ => mism t th "iset"
  | .acq t => thrStep t fun th _ =>
      match th.pc with
      | .acq =>
        match v.s.lock with
        | none => .ok (adv t v)
        | some (h, _) => if h = t then .ok (adv t v) else .error s!"thread {t} acquired the lock while {h} holds it"
      | _ => mism t th "acq"
  | .rel t => thrStep t fun th _ =>
      match th.pc with
      | .rel _ _ => .ok (adv t v)
      | _ => mism t th "rel"
  | .xform t ok => thrStep t fun th r =>
      match th.pc with
      | .xform =>
        let exp := (T v.fail r.code r.opts r.env.sig).isSome
        if exp = ok then .ok (adv t v)
        else .error s!"thread {t}: conversion {if ok then "succeeded" else "raised"}, model expects the opposite"
      | _ => mism t th "xform"
  | .inst t ser env => thrStep t fun th r =>
      match th.pc with
      | .inst f _ =>
        if env ≠ r.env.id then .error s!"thread {t}: instantiated with environment {env}, the requester's is {r.env.id}"
        else match bindOk v ser f with
          | some v' => .ok (adv t v')
          | none => .error s!"thread {t}: instantiated factory #{ser}, model {f}"
      | _ => mism t th "inst"

def validate (v : V) (evs : List Ev) : Nat × Except String V := Id.run do
  let mut v := v
  let mut i := 0
  for e in evs do
    match stepEv v e with
    | .ok v' => v := v'
    | .error m => return (i, .error m)
    i := i + 1
  return (i, .ok v)

def dedup {α} [BEq α] (xs : List α) : List α := xs.foldl (fun acc x => if acc.contains x then acc else acc ++ [x]) []

/-- Class predicates of the history: code ids that have an equal-valued distinct code object, and
code values requested with different namespace views. -/
def classSexp (progs : List (List (Request O))) : List Sexp :=
  let P := allReqs progs
  let badIds := dedup ((P.filter fun r => P.any fun r' => r'.code.val = r.code.val ∧ r'.code ≠ r.code).map (·.code.id))
  let badVals := dedup ((P.filter fun r => P.any fun r' => r'.code.val = r.code.val ∧ r'.env.sig ≠ r.env.sig).map (·.code.val))
  [.list [.atom "valinj", Sexp.ofBool (decide (ValInj P))],
   .list [.atom "sigcoherent", Sexp.ofBool (decide (SigCoherent P))],
   .list (.atom "equal-code-ids" :: badIds.map Sexp.ofNat),
   .list (.atom "sig-split-vals" :: badVals.map Sexp.ofNat)]

def outcomeSexp (fail : List Nat) (e : Request O × Option F) : Sexp :=
  match e.2 with
  | none => .list [.atom "err", Sexp.ofNat e.1.code.id, Sexp.ofBool (T fail e.1.code e.1.opts e.1.env.sig).isNone]
  | some f => .list [.atom "ok", Sexp.ofNat e.1.code.id, Sexp.ofNat f.1, Sexp.ofNat f.2.2, Sexp.ofNat e.1.env.sig,
                     Sexp.ofBool (f.2.2 = e.1.env.sig), Sexp.ofBool (f.1 = e.1.code.id)]

def countsSexp (s : State O F) : Sexp :=
  let keys := dedup (s.xlog.map fun e => (e.1.id, e.1.val, optsStr e.2))
  .list (keys.map fun k =>
    .list [Sexp.ofNat k.1, .atom k.2.2,
           Sexp.ofNat (s.xlog.filter fun e => e.1.id = k.1 ∧ optsStr e.2 = k.2.2).length])

def run (f : Option String) : String := f.getD "bad-args"

def handlers : List (String × (List Sexp → String)) := [
  ("cache-validate", fun a => run do
      let [ps, .list es, .list fl] := a | none
      let progs ← progs? ps
      let evs ← es.mapM ev?
      let fail ← fl.mapM Sexp.nat?
      let (n, res) := validate { fail := fail, s := init progs, bind := [] } evs
      match res with
      | .error m => pure (toString (Sexp.list [.atom "reject", Sexp.ofNat n, .atom m]))
      | .ok v =>
        let unfinished := (v.s.threads.map fun th => th.todo.length).foldl (· + ·) 0
        pure (toString (Sexp.list ([.atom "accept", Sexp.ofNat n,
          .list [.atom "unfinished", Sexp.ofNat unfinished],
          .list [.atom "lock-free", Sexp.ofBool v.s.lock.isNone],
          .list (.atom "unsafe-gc" :: v.unsafeGc.map Sexp.ofNat),
          .list (.atom "outcomes" :: v.s.threads.map fun th => .list (th.results.map (outcomeSexp fail))),
          .list [.atom "counts", countsSexp v.s]] ++ classSexp progs)))),
  ("cache-class", fun a => run do
      let [ps] := a | none
      let progs ← progs? ps
      pure (toString (Sexp.list (classSexp progs)))),
  -- run the model itself under a given schedule: labels are thread ids or (gc id val)
  ("cache-run", fun a => run do
      let [ps, .list ls, .list fl] := a | none
      let progs ← progs? ps
      let fail ← fl.mapM Sexp.nat?
      let labels ← ls.mapM fun l => match l with
        | .list [.atom "gc", i, v] => do pure (Label.gc ⟨← i.nat?, ← v.nat?⟩)
        | x => x.nat?.map Label.thr
      let s := Malt.Cache.run (T fail) (init progs) labels
      pure (toString (Sexp.list [
          .list (.atom "outcomes" :: s.threads.map fun th => .list (th.results.map (outcomeSexp fail))),
          .list [.atom "counts", countsSexp s]])))
]

end Malt.Drv.C10
