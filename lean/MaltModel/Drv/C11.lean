import MaltModel.Rt.Naming
import MaltModel.Rt.NamingConv
import MaltModel.Util.Sexp
/- Driver handlers for the C11 correspondence (glue only; no theorem depends on this file). -/
namespace Malt.Drv.C11
open Malt Malt.Naming Malt.NamingConv

def strs? : Sexp → Option (List String)
  | .list xs => xs.mapM Sexp.str?
  | _ => none

def call? : Sexp → Option Call
  | .list [.atom root, res] => do pure ⟨root, ← strs? res⟩
  | _ => none

def calls? : Sexp → Option (List Call)
  | .list xs => xs.mapM call?
  | _ => none

def level? : Sexp → Option Level
  | .atom "transpiler" => some .transpiler
  | .atom "converter" => some .converter
  | _ => none

def req? : Sexp → Option Req
  | .list [lv, .atom root, res] => do pure ⟨← level? lv, ⟨root, ← strs? res⟩⟩
  | _ => none

def reqs? : Sexp → Option (List Req)
  | .list xs => xs.mapM req?
  | _ => none

def userFn? : Sexp → Option UserFn
  | .list [.atom name, b, r, rl, fr, ns] => do
      pure { name := name, bound := ← strs? b, read := ← strs? r, readLocal := ← strs? rl, free := ← strs? fr, ns := ← strs? ns }
  | .list [.atom name, b, r, rl, fr, ns, bv, sc, kc] => do
      pure { name := name, bound := ← strs? b, read := ← strs? r, readLocal := ← strs? rl, free := ← strs? fr, ns := ← strs? ns,
             blockVarRoots := ← strs? bv, starCalls := ← sc.bool?, kwCalls := ← kc.bool? }
  | .list [.atom name, b, r, rl, fr, ns, bv, sc, kc, ndo] => do
      pure { name := name, bound := ← strs? b, read := ← strs? r, readLocal := ← strs? rl, free := ← strs? fr, ns := ← strs? ns,
             blockVarRoots := ← strs? bv, starCalls := ← sc.bool?, kwCalls := ← kc.bool?, nestedDefOnly := ← strs? ndo }
  | _ => none

def pass? : Sexp → Option (String × List Call)
  | .list [.atom step, cs] => do pure (step, ← calls? cs)
  | _ => none

def conversion? : Sexp → Option Conversion
  | .list [pre, .list ps, post] => do pure { pre := ← calls? pre, passes := ← ps.mapM pass?, post := ← calls? post }
  | _ => none

def run (f : Option String) : String := f.getD "bad-args"

def dedup (xs : List String) : List String := xs.foldl (fun acc x => if acc.contains x then acc else acc ++ [x]) []

/-- Every (name, class) pair whose class predicate holds, for names the program or the templates mention. -/
def classPairs (f : UserFn) (roots : List String) : List (String × String) :=
  let fixed := hardCodedNames
  let names := dedup (f.bound ++ f.free ++ fixed)
  names.foldr (fun x acc =>
    (if clsBoundOnly f roots x then [(x, "bound_only_user_name_equals_generated_root")] else []) ++
    (if clsNestedBound f roots x then [(x, "nested_scope_bound_name_equals_generated_root")] else []) ++
    (if clsNestedBoundShared f roots x then [(x, "nested_scope_bound_name_equals_generated_root:shared_or_captured")] else []) ++
    (if clsLateFree f x then [(x, "free_name_outside_namespace_equals_transpiler_name")] else []) ++
    (if clsFixed f x then [(x, "user_name_equals_hard_coded_template_identifier")] else []) ++
    (if clsBuiltinShadow f x then [(x, "user_binding_shadows_builtin_referenced_by_generated_code")] else []) ++
    (if clsCollapse f x then [(x, "transformed_function_name_collapses_to_hard_coded_identifier")] else []) ++ acc) []

def handlers : List (String × (List Sexp → String)) := [
  ("c11.split", fun a => run do
      let [.atom r] := a | none
      let (b, n) := splitRoot r
      pure (toString (Sexp.list [.atom b, Sexp.ofNat n]))),
  ("c11.new", fun a => run do
      let [ns, gen, .atom root, res] := a | none
      pure (toString (Sexp.atom (newSymbol ⟨← strs? ns, ← strs? gen⟩ root (← strs? res)).1))),
  ("c11.replay", fun a => run do
      let [ns, cs] := a | none
      let (names, nm) := runCalls ⟨← strs? ns, []⟩ (← calls? cs)
      pure (toString (Sexp.list [Sexp.ofStrs names, Sexp.ofStrs nm.generated.reverse]))),
  ("c11.variant", fun a => run do
      let [.atom root, .atom x] := a | none
      pure (toString (Sexp.ofBool (isVariant root x)))),
  ("c11.classify", fun a => run do
      let [fx, rs] := a | none
      let f ← userFn? fx
      let reqs ← reqs? rs
      let roots := reqs.map (·.call.root)
      let b (p : Bool) := Sexp.ofBool p
      pure (toString (Sexp.list [
        .list [.atom "convof", b (convOf f reqs)],
        .list [.atom "bound_names_reserved", b (decide (BoundNamesReserved f))],
        .list [.atom "free_names_resolved", b (decide (FreeNamesResolved f))],
        .list [.atom "fixed_names_unused", b (decide (FixedNamesUnused f))],
        .list [.atom "fixed_names_not_variants", b (decide (FixedNamesNotVariants f))],
        .list [.atom "converter_roots_listed", b (reqs.all fun r => r.level != .converter || Gen.Naming.converterRoots.contains r.call.root)],
        .list (.atom "converter" :: (converterNames f reqs).map .atom),
        .list (.atom "transpiler" :: (transpilerNames f reqs).map .atom),
        .list (.atom "classes" :: (classPairs f roots).map (fun p => Sexp.list [.atom p.1, .atom p.2]))]))),
  ("c11.why", fun a => run do
      let [fx, rs] := a | none
      let f ← userFn? fx
      let reqs ← reqs? rs
      pure (toString (Sexp.list ((whyOutside f reqs).map fun p => Sexp.list [.atom p.1, .atom p.2])))),
  ("c11.e2e", fun a => run do
      let [fx, cx] := a | none
      let f ← userFn? fx
      let c ← conversion? cx
      let pre := runCalls ⟨f.ns, []⟩ c.pre
      let mid := runPipeline pre.2 c.passes
      let post := runCalls mid.2 c.post
      let b (p : Bool) := Sexp.ofBool p
      pure (toString (Sexp.list [
        .list [.atom "well_formed", b (wellFormed f c)],
        .list [.atom "no_clash_class", b (noClashClass f)],
        .list (.atom "pre" :: pre.1.map .atom),
        .list (.atom "passes" :: mid.1.map (fun p => Sexp.list (.atom p.1 :: p.2.map .atom))),
        .list (.atom "post" :: post.1.map .atom),
        .list (.atom "all_introduced" :: (allIntroduced f c).map .atom)]))),
  ("c11.tables", fun _ => toString (Sexp.list [
      .list (.atom "converterRoots" :: Gen.Naming.converterRoots.map .atom),
      .list (.atom "transpilerRoots" :: Gen.Naming.transpilerRoots.map .atom),
      .list (.atom "fixed" :: hardCodedNames.map .atom),
      .list (.atom "introSites" :: [Sexp.ofNat Gen.Naming.introSites.length]),
      .list [.atom "prefix", .atom Gen.Naming.transformedNamePrefix],
      .list [.atom "lam", .atom Gen.Naming.lambdaName]]))
]

end Malt.Drv.C11
