import MaltModel.Rt.Closure
/- Driver handlers for the C09 correspondence (glue only; no theorem depends on this file). -/
namespace Malt.Drv.C09
open Malt Malt.Closure

def nats? (xs : List Sexp) : Option (List Nat) := xs.mapM Sexp.nat?

def natList? : Sexp → Option (List Nat)
  | .list xs => nats? xs
  | _ => none

def optName? : Sexp → Option (Option Name)
  | .atom "none" => some none
  | x => x.nat?.map some

def dexpr? : Sexp → Option DExpr
  | .atom "nonec" => some .noneConst
  | .list [.atom "orig", i] => i.nat?.map .orig
  | _ => none

def optDexpr? : Sexp → Option (Option DExpr)
  | .atom "none" => some none
  | x => (dexpr? x).map some

def arguments? : Sexp → Option Arguments
  | .list [.atom "args", po, ar, va, ko, .list kd, kw, .list df] => do
      pure { posonlyargs := ← natList? po, args := ← natList? ar, vararg := ← optName? va,
             kwonlyargs := ← natList? ko, kwDefaults := ← kd.mapM optDexpr?, kwarg := ← optName? kw,
             defaults := ← df.mapM dexpr? }
  | _ => none

def optNameSexp : Option Name → Sexp
  | none => .atom "none"
  | some n => Sexp.ofNat n

def dexprSexp : DExpr → Sexp
  | .noneConst => .atom "nonec"
  | .orig i => .list [.atom "orig", Sexp.ofNat i]

def argumentsSexp (a : Arguments) : Sexp :=
  .list [.atom "args", .list (a.posonlyargs.map Sexp.ofNat), .list (a.args.map Sexp.ofNat), optNameSexp a.vararg,
         .list (a.kwonlyargs.map Sexp.ofNat),
         .list (a.kwDefaults.map fun d => match d with | none => .atom "none" | some e => dexprSexp e),
         optNameSexp a.kwarg, .list (a.defaults.map dexprSexp)]

def kindSexp : Kind → Sexp
  | .posOnly => .atom "posonly" | .posOrKw => .atom "pos" | .varPos => .atom "varpos"
  | .kwOnly => .atom "kwonly" | .varKw => .atom "varkw"

def kind? : Sexp → Option Kind
  | .atom "posonly" => some .posOnly | .atom "pos" => some .posOrKw | .atom "varpos" => some .varPos
  | .atom "kwonly" => some .kwOnly | .atom "varkw" => some .varKw
  | _ => none

def cell? : Sexp → Option Cell
  | .list [.atom "o", n] => n.nat?.map .outer
  | .list [.atom "l", n] => n.nat?.map .factoryLocal
  | _ => none

def cellSexp : Cell → Sexp
  | .outer n => .list [.atom "o", Sexp.ofNat n]
  | .factoryLocal n => .list [.atom "l", Sexp.ofNat n]

def defaults? : Sexp → Option (Option (List ObjId))
  | .atom "none" => some none
  | .list xs => (nats? xs).map some
  | _ => none

def kwPair? : Sexp → Option (Name × ObjId)
  | .list [n, v] => do pure ((← n.nat?), (← v.nat?))
  | _ => none

def kwdefaults? : Sexp → Option (Option (List (Name × ObjId)))
  | .atom "none" => some none
  | .list xs => (xs.mapM kwPair?).map some
  | _ => none

def defaultsSexp : Option (List ObjId) → Sexp
  | none => .atom "none"
  | some l => .list (l.map Sexp.ofNat)

def kwdefaultsSexp : Option (List (Name × ObjId)) → Sexp
  | none => .atom "none"
  | some l => .list (l.map fun p => .list [Sexp.ofNat p.1, Sexp.ofNat p.2])

def param? : Sexp → Option (Name × Kind)
  | .list [n, k] => do pure ((← n.nat?), (← kind? k))
  | _ => none

def fn? : Sexp → Option Fn
  | .list [.atom "fn", .list ps, fv, .list cl, g, d, kd] => do
      pure { code := { params := ← ps.mapM param?, freevars := ← natList? fv }, closure := ← cl.mapM cell?,
             globals := ← g.nat?, defaults := ← defaults? d, kwdefaults := ← kwdefaults? kd }
  | _ => none

def fnSexp (f : Fn) : Sexp :=
  .list [.atom "fn", .list (f.code.params.map fun p => .list [Sexp.ofNat p.1, kindSexp p.2]),
         .list (f.code.freevars.map Sexp.ofNat), .list (f.closure.map cellSexp), Sexp.ofNat f.globals,
         defaultsSexp f.defaults, kwdefaultsSexp f.kwdefaults]

def callable? : Sexp → Option Callable
  | .list [.atom "function", f] => (fn? f).map .function
  | .list [.atom "method", s, f] => do pure (.boundMethod (← s.nat?) (← fn? f))
  | _ => none

def occ? : Sexp → Option Occ
  | .list [n, d] => do pure { name := ← n.nat?, inDirective := ← d.bool? }
  | _ => none

def src? : Sexp → Option Src
  | .list [.atom "src", a, ds, an, .list os] => do
      pure { args := ← arguments? a, decorators := ← natList? ds, annRefs := ← natList? an, occs := ← os.mapM occ? }
  | .list [.atom "src", a, ds, an, .list os, lam, doc] => do
      pure { args := ← arguments? a, decorators := ← natList? ds, annRefs := ← natList? an, occs := ← os.mapM occ?,
             lambdaName := ← optName? lam, doc := ← optName? doc }
  | _ => none

def resultSexp : Except Err Fn → Sexp
  | .ok f => .list [.atom "ok", fnSexp f]
  | .error (.keyError n) => .list [.atom "error", .atom "keyError", Sexp.ofNat n]
  | .error .closureMismatch => .list [.atom "error", .atom "closureMismatch"]
  | .error (.nameError n) => .list [.atom "error", .atom "nameError", Sexp.ofNat n]
  | .error .protocol => .list [.atom "error", .atom "protocol"]

def decoSexp : Deco → Sexp
  | .user i => Sexp.ofNat i
  | .autographArtifact => .atom "artifact"

def deco? : Sexp → Option Deco
  | .atom "artifact" => some .autographArtifact
  | x => x.nat?.map .user

def entity? : Sexp → Option Entity
  | .list [.atom "entity", n, a, .list ds, br, dr] => do
      pure { name := ← n.nat?, args := ← arguments? a, decorators := ← ds.mapM deco?,
             bodyRefs := ← natList? br, defTimeRefs := ← natList? dr }
  | _ => none

partial def scope? : Sexp → Option Scope
  | .list [.atom "scope", b, g, u, .list cs] => do
      pure (.mk (← natList? b) (← natList? g) (← natList? u) (← cs.mapM scope?))
  | _ => none

def attrSexp : Attr → Sexp
  | .agModule => .atom "ag_module" | .agSourceMap => .atom "ag_source_map" | .autographInfo => .atom "autograph_info__"
  | .user n => .list [.atom "user", Sexp.ofNat n]

def whyName : Why → Sexp
  | .params => .atom "params" | .freevarsDup => .atom "freevarsDup" | .closureLen => .atom "closureLen"
  | .freeUnreferenced => .atom "freeUnreferenced" | .nameCollision => .atom "nameCollision"
  | .directiveOnly => .atom "directiveOnly" | .annotation => .atom "annotation" | .cleared => .atom "cleared"

def fnOfId (n : Nat) : Fn :=
  { code := { params := [], freevars := [] }, closure := [], globals := 0, defaults := none, kwdefaults := none, name := n }

partial def pyCallable? : Sexp → Option PyCallable
  | .list [.atom "function", i] => i.nat?.map (fun n => .function (fnOfId n))
  | .list [.atom "method", s, i] => do pure (.boundMethod (← s.nat?) (fnOfId (← i.nat?)))
  | .list [.atom "partial", c, .list a, .list k] => do pure (.partialOf (← pyCallable? c) (← nats? a) (← k.mapM kwPair?))
  | .list [.atom "object", o, i] => do pure (.callableObject (← o.nat?) (fnOfId (← i.nat?)))
  | .list [.atom "other", i] => i.nat?.map .other
  | _ => none

def reeval : Nat → ObjId := fun i => 1000000 + i

def run (f : Option String) : String := f.getD "bad-args"

def handlers : List (String × (List Sexp → String)) := [
  -- _erase_arg_defaults
  ("c09.erase", fun a => run do
      let [x] := a | none
      pure (toString (argumentsSexp (eraseDefaults (← arguments? x))))),
  -- parameters in signature order + which are optional
  ("c09.shape", fun a => run do
      let [x] := a | none
      let ar ← arguments? x
      pure (toString (Sexp.list [.list (ar.params.map fun p => .list [Sexp.ofNat p.1, kindSexp p.2]),
                                 Sexp.ofNat ar.optionalShape.1, .list (ar.optionalShape.2.map Sexp.ofNat)]))),
  -- CPython's resolution as modelled: (declared) inner (extra) <entity>  ->  ((factory co_freevars) (entity co_freevars))
  ("c09.resolve", fun a => run do
      let [d, i, x, e] := a | none
      let d ← natList? d; let i ← i.nat?; let x ← natList? x; let e ← entity? e
      let fac := create d x i e
      pure (toString (Sexp.list [.list (fac.codeFreevars.map Sexp.ofNat), .list (fac.entityFreevars.map Sexp.ofNat)]))),
  -- create + instantiate on an explicit entity: (declared) inner (extra) <entity> (modulenames) G (closure) defaults kwdefaults
  ("c09.instantiate", fun a => run do
      let [d, i, x, e, m, g, .list cl, df, kd] := a | none
      let d ← natList? d; let i ← i.nat?; let x ← natList? x; let e ← entity? e
      let fac := create d x i e
      pure (toString (resultSexp (instantiate reeval fac (← natList? m) (← g.nat?) (← cl.mapM cell?)
                                   (← defaults? df) (← kwdefaults? kd))))),
  -- the whole of transform_function: (extra) newname inner (modulenames) <src> <callable>
  --   -> (<result> (classes directiveOnly annotationUnresolvable defaultsCleared) (decorators …) (trace …))
  ("c09.transform", fun a => run do
      let [x, n, i, m, s, c] := a | none
      let x ← natList? x; let n ← n.nat?; let i ← i.nat?; let m ← natList? m; let s ← src? s; let c ← callable? c
      let e := convertEntity x n s
      pure (toString (Sexp.list [
        resultSexp (transformFunction reeval x n i m s c),
        .list [.atom "classes", Sexp.ofBool (directiveOnlyFreevar s c.fn.code.freevars),
               Sexp.ofBool (annotationUnresolvable s c.fn.code.freevars m), Sexp.ofBool (defaultsCleared s c.fn)],
        .list (.atom "decorators" :: e.decorators.map decoSexp),
        .list (.atom "trace" :: e.args.defEvalTrace.map Sexp.ofNat),
        .list (.atom "facfree" :: (create c.fn.code.freevars x i e).codeFreevars.map Sexp.ofNat)]))),
  -- the general scoping rule: co_freevars of every code object of a nesting of function scopes, in preorder
  ("c09.scopes", fun a => run do
      let [x] := a | none
      let sc ← scope? x
      pure (toString (Sexp.list ((sc.allFreevars []).map fun l => .list (l.map Sexp.ofNat))))),
  -- which hypotheses of the proved fragment fail: (extra) newname inner (modulenames) <src> <callable> -> (why tag…)
  ("c09.why", fun a => run do
      let [x, n, i, m, s, c] := a | none
      let x ← natList? x; let n ← n.nat?; let i ← i.nat?; let m ← natList? m; let s ← src? s; let c ← callable? c
      pure (toString (Sexp.list (.atom "why" :: (why x n i m s c).map whyName)))),
  -- to_graph through the extracted statement list, with name / qualname / module / doc / __dict__:
  --   (extra) newname inner outer (modulenames) <src+meta> <callable>
  ("c09.tograph", fun a => run do
      let [x, n, i, o, m, s, c] := a | none
      let x ← natList? x; let n ← n.nat?; let i ← i.nat?; let o ← o.nat?; let m ← natList? m; let s ← src? s; let c ← callable? c
      match toGraph (fun g => g) reeval x n i o m s c with
      | .ok g => pure (toString (Sexp.list [.atom "ok", fnSexp g,
          .list [.atom "meta", Sexp.ofNat g.name, .list (g.qualname.map Sexp.ofNat), Sexp.ofNat g.module,
                 optNameSexp g.doc, .list (g.dict.map attrSexp)]]))
      | .error e => pure (toString (resultSexp (.error e)))),
  -- converted_call's unwrapping: <pycallable> (args) ((k v)…) -> ((target id|none) (args…) (kwargs (k v)…))
  ("c09.unwrap", fun a => run do
      let [c, .list xs, .list ks] := a | none
      let u := unwrap (← pyCallable? c) (← nats? xs) (← ks.mapM kwPair?)
      pure (toString (Sexp.list [
        .list [.atom "target", match u.target with | some f => Sexp.ofNat f.name | none => .atom "none"],
        .list (.atom "args" :: u.args.map Sexp.ofNat),
        .list (.atom "kwargs" :: u.kwargs.map fun p => .list [Sexp.ofNat p.1, Sexp.ofNat p.2])]))),
  ("c09.deco", fun a => run do
      let [l, .list ds] := a | none
      pure (toString (Sexp.list ((functionsPassDecorators (← l.nat?) (← ds.mapM deco?)).map decoSexp)))),
  ("c09.effargs", fun a => run do
      let [c, .list xs] := a | none
      pure (toString (Sexp.list ((effectiveArgs (← callable? c) (← nats? xs)).map Sexp.ofNat))))
]

end Malt.Drv.C09
