import MaltModel.Util.Sexp
import MaltModel.Func.Functionalise
import MaltModel.Func.Wrapper
import MaltModel.Proofs.FuncFBasic
import MaltModel.Proofs.FuncBlockVars
/- Driver handlers for the C02 / C01Func correspondence (glue only; no theorem depends on this file).

Wire format (S-expressions):
  expr   ::= (c <int>) | (n) | (lst <int>*) | (v x) | (not e) | (and a b) | (or a b) | (ite c t e) | (bin op a b) | (call f e*)
  info   ::= (info (<liveIn>*) (<liveOut>*) (<definedIn>*) (<declared>*) (<undefined>*) <nouts>)
  astmt  ::= (assign info x e) | (expr info e) | (pass info) | (ret info e?) | (raise info t)
           | (if info c (astmt*) (astmt*)) | (while info c (astmt*)) | (for info x it (e?) (astmt*))
  astmt  also: (with info tag (astmt*)) | (try info (astmt*) ((tag (astmt*))*) (astmt*))
  tstmt  also: (withT tag (tstmt*)) | (tryT (tstmt*) ((tag (tstmt*))*) (tstmt*))
  wrapper ::= (name userRequested) | (name userRequested do_return retval_)
  tstmt  ::= (assign x e) | (expr e) | (pass) | (ret e?) | (raise t) | (undef x)
           | (ifF c (tstmt*) (tstmt*) (decl*) nouts) | (whileF c (tstmt*) (decl*)) | (forF x it (e?) (tstmt*) (decl*))
  input  ::= ((x val)*)      val ::= <int> | (lst <int>*) | none
-/
namespace Malt.Drv.C02
open Malt Malt.Sem Malt.Func

def op? : String → Option BinOp
  | "add" => some .add | "sub" => some .sub | "mul" => some .mul
  | "lt" => some .lt | "le" => some .le | "eq" => some .eq | "ne" => some .ne
  | _ => none

partial def expr? : Sexp → Option Expr
  | .list [.atom "c", i] => i.int?.map fun n => .const (.int n)
  | .list [.atom "n"] => some (.const .none)
  | .list (.atom "lst" :: xs) => (xs.mapM Sexp.int?).map fun l => .const (.list l)
  | .list [.atom "v", .atom x] => some (.var x)
  | .list [.atom "not", e] => (expr? e).map .not
  | .list [.atom "and", a, b] => do pure (.and (← expr? a) (← expr? b))
  | .list [.atom "or", a, b] => do pure (.or (← expr? a) (← expr? b))
  | .list [.atom "ite", c, t, e] => do pure (.ite (← expr? c) (← expr? t) (← expr? e))
  | .list [.atom "bin", .atom o, a, b] => do pure (.bin (← op? o) (← expr? a) (← expr? b))
  | .list (.atom "call" :: .atom f :: args) => do pure (.call f (← args.mapM expr?))
  | _ => none

def optExpr? : Sexp → Option (Option Expr)
  | .list [] => some none
  | .list [e] => (expr? e).map some
  | _ => none

def names? : Sexp → Option (List Name)
  | .list xs => xs.mapM Sexp.str?
  | _ => none

def info? : Sexp → Option Info
  | .list [.atom "info", li, lo, d, dc, u, n] => do
      pure { liveIn := ← names? li, liveOut := ← names? lo, definedIn := ← names? d, declared := ← names? dc,
             undefined := ← names? u, nouts := ← n.nat? }
  | _ => none

mutual
partial def astmt? : Sexp → Option AStmt
  | .list [.atom "assign", i, .atom x, e] => do pure (.assign (← info? i) x (← expr? e))
  | .list [.atom "expr", i, e] => do pure (.expr (← info? i) (← expr? e))
  | .list [.atom "pass", i] => do pure (.pass (← info? i))
  | .list [.atom "ret", i] => do pure (.ret (← info? i) none)
  | .list [.atom "ret", i, e] => do pure (.ret (← info? i) (some (← expr? e)))
  | .list [.atom "raise", i, t] => do pure (.raise (← info? i) (← t.nat?))
  | .list [.atom "if", i, c, t, e] => do pure (.ifS (← info? i) (← expr? c) (← ablock? t) (← ablock? e))
  | .list [.atom "while", i, c, b] => do pure (.whileS (← info? i) (← expr? c) (← ablock? b))
  | .list [.atom "for", i, .atom x, it, ex, b] => do
      pure (.forS (← info? i) x (← expr? it) (← optExpr? ex) (← ablock? b))
  | .list [.atom "with", i, tag, b] => do pure (.withS (← info? i) (← tag.int?) (← ablock? b))
  | .list [.atom "try", i, b, .list hs, f] => do
      let hs' ← hs.mapM (fun h => match h with
        | .list [t, hb] => do pure ((← t.nat?), (← ablock? hb))
        | _ => none)
      pure (.tryS (← info? i) (← ablock? b) hs' (← ablock? f))
  | _ => none
partial def ablock? : Sexp → Option (List AStmt)
  | .list xs => xs.mapM astmt?
  | _ => none
end

mutual
partial def tstmt? : Sexp → Option TStmt
  | .list [.atom "assign", .atom x, e] => do pure (.assign x (← expr? e))
  | .list [.atom "expr", e] => do pure (.expr (← expr? e))
  | .list [.atom "pass"] => some .pass
  | .list [.atom "ret"] => some (.ret none)
  | .list [.atom "ret", e] => do pure (.ret (some (← expr? e)))
  | .list [.atom "raise", t] => do pure (.raise (← t.nat?))
  | .list [.atom "undef", .atom x] => some (.undefAssign x)
  | .list [.atom "ifF", c, b, e, d, n] => do pure (.ifF (← expr? c) (← tblock? b) (← tblock? e) (← names? d) (← n.nat?))
  | .list [.atom "whileF", c, b, d] => do pure (.whileF (← expr? c) (← tblock? b) (← names? d))
  | .list [.atom "forF", .atom x, it, ex, b, d] => do
      pure (.forF x (← expr? it) (← optExpr? ex) (← tblock? b) (← names? d))
  | .list [.atom "withT", tag, b] => do pure (.withT (← tag.int?) (← tblock? b))
  | .list [.atom "tryT", b, .list hs, f] => do
      let hs' ← hs.mapM (fun h => match h with
        | .list [t, hb] => do pure ((← t.nat?), (← tblock? hb))
        | _ => none)
      pure (.tryT (← tblock? b) hs' (← tblock? f))
  | _ => none
partial def tblock? : Sexp → Option (List TStmt)
  | .list xs => xs.mapM tstmt?
  | _ => none
end

def opName : BinOp → String
  | .add => "add" | .sub => "sub" | .mul => "mul" | .lt => "lt" | .le => "le" | .eq => "eq" | .ne => "ne"

partial def exprSexp : Expr → Sexp
  | .const (.int n) => .list [.atom "c", Sexp.ofInt n]
  | .const .none => .list [.atom "n"]
  | .const (.list l) => .list (.atom "lst" :: l.map Sexp.ofInt)
  | .var x => .list [.atom "v", .atom x]
  | .not e => .list [.atom "not", exprSexp e]
  | .and a b => .list [.atom "and", exprSexp a, exprSexp b]
  | .or a b => .list [.atom "or", exprSexp a, exprSexp b]
  | .ite c t e => .list [.atom "ite", exprSexp c, exprSexp t, exprSexp e]
  | .bin o a b => .list [.atom "bin", .atom (opName o), exprSexp a, exprSexp b]
  | .call f args => .list (.atom "call" :: .atom f :: args.map exprSexp)

def optExprSexp : Option Expr → Sexp
  | none => .list []
  | some e => .list [exprSexp e]

mutual
partial def tstmtSexp : TStmt → Sexp
  | .assign x e => .list [.atom "assign", .atom x, exprSexp e]
  | .expr e => .list [.atom "expr", exprSexp e]
  | .pass => .list [.atom "pass"]
  | .ret none => .list [.atom "ret"]
  | .ret (some e) => .list [.atom "ret", exprSexp e]
  | .raise t => .list [.atom "raise", Sexp.ofNat t]
  | .undefAssign x => .list [.atom "undef", .atom x]
  | .ifF c b e d n => .list [.atom "ifF", exprSexp c, tblockSexp b, tblockSexp e, Sexp.ofStrs d, Sexp.ofNat n]
  | .whileF c b d => .list [.atom "whileF", exprSexp c, tblockSexp b, Sexp.ofStrs d]
  | .forF x it ex b d => .list [.atom "forF", .atom x, exprSexp it, optExprSexp ex, tblockSexp b, Sexp.ofStrs d]
  | .withT tag b => .list [.atom "withT", Sexp.ofInt tag, tblockSexp b]
  | .tryT b hs f => .list [.atom "tryT", tblockSexp b, .list (hs.map fun h => .list [Sexp.ofNat h.1, tblockSexp h.2]), tblockSexp f]
partial def tblockSexp (b : List TStmt) : Sexp := .list (b.map tstmtSexp)
end

def val? : Sexp → Option Val
  | .atom "none" => some .none
  | .list (.atom "lst" :: xs) => (xs.mapM Sexp.int?).map .list
  | s => s.int?.map .int

def binding? : Sexp → Option (Name × Val)
  | .list [.atom x, v] => (val? v).map fun w => (x, w)
  | _ => none

def input? : Sexp → Option (List (Name × Val))
  | .list xs => xs.mapM binding?
  | _ => none

def stOf (bs : List (Name × Val)) : St := ⟨fun x => (bs.find? (fun b => b.1 == x)).map (·.2), []⟩
def tstOf (bs : List (Name × Val)) : TSt :=
  ⟨fun x => match (bs.find? (fun b => b.1 == x)).map (·.2) with | some v => .val v | none => .unbound, []⟩

def valSexp : Val → Sexp
  | .int n => Sexp.ofInt n
  | .list l => .list (.atom "lst" :: l.map Sexp.ofInt)
  | .none => .atom "none"

def excSexp : Exc → Sexp
  | .nameError x => .list [.atom "exc", .atom "NameError", .atom x]
  | .typeError => .list [.atom "exc", .atom "TypeError"]
  | .user t => .list [.atom "exc", .atom "user", Sexp.ofNat t]

def outSexp : Option Out → Sexp
  | none => .atom "fuel"
  | some .normal => .atom "normal"
  | some .brk => .atom "break"
  | some .cont => .atom "continue"
  | some (.ret v) => .list [.atom "ret", valSexp v]
  | some (.exc e) => excSexp e

/-- The external oracle of the driver: every call returns its first argument (like the harness tracer `tr`). -/
def X0 : Ext := ⟨fun _ args _ => args.headD .none⟩

/-- Which conjunct of the hypotheses fails where (diagnostic data for the evidence; not used by any theorem). -/
partial def diagS (K : ExcCtx) (path : String) : AStmt → List String
  | .assign i x e =>
      (if subB (vars e) i.liveIn then [] else [path ++ ":assign:reads"]) ++
      (if subB (i.liveOut.filter (fun y => y != x)) i.liveIn then [] else [path ++ ":assign:out"]) ++
      (if subB K.other i.liveIn then [] else [path ++ ":assign:exc-finally"])
  | .expr i e =>
      (if subB (vars e) i.liveIn then [] else [path ++ ":expr:reads"]) ++
      (if subB i.liveOut i.liveIn then [] else [path ++ ":expr:out"]) ++
      (if subB K.other i.liveIn then [] else [path ++ ":expr:exc-finally"])
  | .pass i => if subB i.liveOut i.liveIn then [] else [path ++ ":pass:out"]
  | .ret i e => (if subB (varsO e) i.liveIn then [] else [path ++ ":ret:reads"]) ++
      (if subB K.other i.liveIn then [] else [path ++ ":ret:exc-finally"])
  | .raise i t => if subB (K.get (.user t)) i.liveIn then [] else [path ++ ":raise:handler-in"]
  | .ifS i c t e =>
      (if subB (vars c) i.liveIn then [] else [path ++ ":if:test"]) ++
      (if subB (blockIn t i.liveOut) i.liveIn then [] else [path ++ ":if:body-in"]) ++
      (if subB (blockIn e i.liveOut) i.liveIn then [] else [path ++ ":if:orelse-in"]) ++
      (if subB K.other i.liveIn then [] else [path ++ ":if:exc-finally"]) ++
      (if raiseOKb K i (raisesB t ++ raisesB e) then [] else [path ++ ":if:raise-leaves-body"]) ++
      diagB K (path ++ ".t") t i.liveOut ++ diagB K (path ++ ".e") e i.liveOut
  | .whileS i c b =>
      (if subB (vars c) i.liveIn then [] else [path ++ ":while:test"]) ++
      (if subB (blockIn b i.liveIn) i.liveIn then [] else [path ++ ":while:body-in"]) ++
      (if subB i.liveOut i.liveIn then [] else [path ++ ":while:exit"]) ++
      (if subB K.other i.liveIn then [] else [path ++ ":while:exc-finally"]) ++
      (if raiseOKb K i (raisesB b) then [] else [path ++ ":while:raise-leaves-body"]) ++
      diagB K (path ++ ".b") b i.liveIn
  | .forS i x it extra b =>
      (if subB (vars it) i.liveIn then [] else [path ++ ":for:iter"]) ++
      (if subB (varsO extra) i.liveIn then [] else [path ++ ":for:extra"]) ++
      (if subB (i.liveOut.filter (fun y => y != x)) i.liveIn then [] else [path ++ ":for:exit"]) ++
      (if i.liveOut.contains x && !i.liveIn.contains x then [path ++ ":for:exit-target"] else []) ++
      (if subB ((blockIn b i.liveIn).filter (fun y => y != x)) i.liveIn then [] else [path ++ ":for:body-in"]) ++
      (if subB K.other i.liveIn then [] else [path ++ ":for:exc-finally"]) ++
      (if raiseOKb K i (raisesB b) then [] else [path ++ ":for:raise-leaves-body"]) ++
      diagB K (path ++ ".b") b i.liveIn
  | .withS i _ b =>
      (if subB (blockIn b i.liveOut) i.liveIn then [] else [path ++ ":with:body-in"]) ++ diagB K (path ++ ".b") b i.liveOut
  | .tryS i b hs f =>
      let C := i.liveOut ++ K.all
      let Fi := blockIn f C
      let Fx := finExcIn K f i.liveOut
      diagB K (path ++ ".f") f C ++
      (hs.flatMap fun h => diagB (ExcCtx.toFin Fx) (path ++ ".h" ++ toString h.1) h.2 Fi) ++
      diagB { hs := handlerIns Fi hs, other := Fx } (path ++ ".b") b Fi ++
      (if subB (blockIn b Fi) i.liveIn then [] else [path ++ ":try:body-in"])
where
  diagB (K : ExcCtx) (path : String) (b : List AStmt) (O : List Name) : List String :=
    let rec go (k : Nat) : List AStmt → List String
      | [] => []
      | s :: r =>
        diagS K (path ++ "." ++ toString k) s ++
        (if subB (blockIn r O) s.info.liveOut then [] else [path ++ "." ++ toString k ++ ":seq"]) ++ go (k+1) r
    go 0 b

def boolS (b : Bool) : Sexp := Sexp.ofBool b

/-- Are `declared`/`nouts`/`undefined` of every compound statement what the mirror of `_get_block_vars` computes? -/
partial def bvOkS : AStmt → Bool
  | .ifS i c t e =>
      let s := AStmt.ifS i c t e
      let r := bv s.modified i.liveIn i.liveOut i.definedIn
      i.declared == r.scopeVars && i.nouts == r.nouts && (i.undefined.mergeSort (· ≤ ·)) == (r.undefined.mergeSort (· ≤ ·)) &&
      t.all bvOkS && e.all bvOkS
  | .whileS i c b =>
      let s := AStmt.whileS i c b
      let r := bv s.modified i.liveIn i.liveOut i.definedIn
      i.declared == r.scopeVars && (i.undefined.mergeSort (· ≤ ·)) == (r.undefined.mergeSort (· ≤ ·)) && b.all bvOkS
  | .forS i x it ex b =>
      let s := AStmt.forS i x it ex b
      let r := bv s.modified i.liveIn i.liveOut i.definedIn
      i.declared == r.scopeVars && (i.undefined.mergeSort (· ≤ ·)) == (r.undefined.mergeSort (· ≤ ·)) && b.all bvOkS
  | .withS _ _ b => b.all bvOkS
  | .tryS _ b hs f => b.all bvOkS && hs.all (fun h => h.2.all bvOkS) && f.all bvOkS
  | _ => true

def runAll (p : List AStmt) (t : List TStmt) (fuel : Nat) (inp : List (Name × Val)) : Sexp :=
  let src := (execB X0 fuel (eraseB p) (stOf inp)).map (·.1)
  let nat := (execNB X0 fuel t (tstOf inp)).map (·.1)
  let fn := (execFB X0 fuel t (tstOf inp)).map (·.1)
  let natModel := (execNB X0 fuel (funcB p) (tstOf inp)).map (·.1)
  .list [outSexp src, outSexp nat, outSexp fn, outSexp natModel]

/-- The `Lowered` body inside an annotated lowered program, given the wrapper's return variables:
`do_return = 0; retval_ = None; mid; return retval_` ↦ `rets …`, anything else with return variables ↦ none. -/
def lowered? (rv : Option (Name × Name)) (p : List AStmt) : Option Lowered :=
  match rv with
  | none => some (.plain p)
  | some (dr, r) =>
    match p with
    | .assign i₁ x (.const (.int 0)) :: .assign i₂ y (.const .none) :: rest =>
      match rest.getLast? with
      | some (.ret i₃ (some (.var z))) =>
        if x == dr && y == r && z == r then some (.rets dr r i₁ i₂ i₃ rest.dropLast) else none
      | _ => none
    | _ => none

def wrapper? : Sexp → Option (String × Bool × Option (Name × Name))
  | .list [.atom n, .atom u] => some (n, u == "True", none)
  | .list [.atom n, .atom u, .atom dr, .atom rv] => some (n, u == "True", some (dr, rv))
  | _ => none

def evSexp : Event → Sexp
  | .enter k => .atom ("enter:" ++ toString k)
  | .exit k => .atom ("exit:" ++ toString k)
  | .call g _ => .atom ("call:" ++ g)

def callSexp (stk : CtxStack) (r : Option (Out × TSt × CtxStack)) : Sexp :=
  .list [outSexp (r.map (·.1)), .list ((r.map (·.2.1.log)).getD [] |>.map evSexp), boolS ((r.map (·.2.2)) == some stk)]

def handlers : List (String × (List Sexp → String)) := [
  -- c02.callw <ablock> <names D> <tblock: real block inside the with> <wrapper> <fuel> <input>*
  --   ->  ((shape b) (wf b) (hyp b) (hypf b) (func <funcB inner>) (runs ((src-out src-log) model-native real-native real-functional)*))
  --   each call result: (outcome log stack-restored)
  ("c02.callw", fun a => match a with
    | p :: d :: t :: w :: f :: inps => match ablock? p, names? d, tblock? t, wrapper? w, f.nat?, inps.mapM input? with
      | some p, some D, some t, some (name, ur, rv), some fuel, some inps =>
        match lowered? rv p with
        | none => toString (Sexp.list [.list [.atom "shape", boolS false]])
        | some l =>
          let stk : CtxStack := [.disabled]
          let wr := l.wrapper name ur
          toString (Sexp.list [
            .list [.atom "shape", boolS true],
            .list [.atom "wf", boolS l.wf],
            .list [.atom "hyp", boolS (funcHyp D l.prog [])],
            .list [.atom "hypf", boolS (hypFB l.inner && pureB l.inner)],
            .list [.atom "func", tblockSexp (funcB l.inner)],
            .list (.atom "runs" :: inps.map fun inp =>
              let rs := callS X0 fuel (eraseB l.prog) (stOf inp)
              .list [.list [outSexp (rs.map (·.1)), .list ((rs.map (·.2.log)).getD [] |>.map evSexp)],
                     callSexp stk (callConverted X0 fuel l name ur (tstOf inp) stk),
                     callSexp stk (callW X0 fuel wr t (tstOf inp) stk),
                     callSexp stk (callWF X0 fuel wr t (tstOf inp) stk)])])
      | _, _, _, _, _, _ => "bad-node"
    | _ => "bad-args"),
  -- c02.check <ablock> <names D> <names O>  ->  flags + diagnostics + funcB
  ("c02.check", fun a => match a with
    | [p, d, o] => match ablock? p, names? d, names? o with
      | some p, some D, some O =>
        toString (Sexp.list [
          .list [.atom "live", boolS (liveConsistent p O)],
          .list [.atom "decl", boolS (declB p)],
          .list [.atom "def", boolS (defB D p)],
          .list [.atom "jump", boolS (retTopB p)],
          .list [.atom "hypf", boolS (hypFB p)],
          .list [.atom "pure", boolS (pureB p)],
          .list [.atom "bv", boolS (p.all bvOkS)],
          .list [.atom "zerotrip", boolS (forTargetZeroTripB p)],
          .list (.atom "diag" :: ((diagS.diagB ExcCtx.top "" p O).map .atom)),
          .list [.atom "func", tblockSexp (funcB p)]])
      | _, _, _ => "bad-node"
    | _ => "bad-args"),
  -- c02.run <ablock> <tblock> <fuel> <input>*  ->  per input (source native functional native-of-model)
  ("c02.run", fun a => match a with
    | p :: t :: f :: inps => match ablock? p, tblock? t, f.nat?, inps.mapM input? with
      | some p, some t, some fuel, some inps => toString (Sexp.list (inps.map (runAll p t fuel)))
      | _, _, _, _ => "bad-node"
    | _ => "bad-args"),
  -- c02.runlog <ablock> <tblock> <fuel> <input>*  ->  per input ((source-outcome log) (native-outcome log)), log = enter:t / exit:t / call:f
  ("c02.runlog", fun a => match a with
    | p :: t :: f :: inps => match ablock? p, tblock? t, f.nat?, inps.mapM input? with
      | some p, some t, some fuel, some inps =>
        let ev : Event → Sexp := fun e => match e with
          | .enter k => .atom ("enter:" ++ toString k)
          | .exit k => .atom ("exit:" ++ toString k)
          | .call g _ => .atom ("call:" ++ g)
        toString (Sexp.list (inps.map fun inp =>
          let rs := execB X0 fuel (eraseB p) (stOf inp)
          let rn := execNB X0 fuel t (tstOf inp)
          .list [.list [outSexp (rs.map (·.1)), .list ((rs.map (·.2.log)).getD [] |>.map ev)],
                 .list [outSexp (rn.map (·.1)), .list ((rn.map (·.2.log)).getD [] |>.map ev)]]))
      | _, _, _, _ => "bad-node"
    | _ => "bad-args"),
  -- c02.risk <tblock>  ->  the finding-class predicate `stateUnboundRisk`
  ("c02.risk", fun a => match a with
    | [t] => match tblock? t with
      | some t => toString (boolS (stateUnboundRisk t))
      | none => "bad-node"
    | _ => "bad-args"),
  -- c02.runt <tblock> <fuel> <input>*  ->  per input (native functional) of a target program alone
  ("c02.runt", fun a => match a with
    | t :: f :: inps => match tblock? t, f.nat?, inps.mapM input? with
      | some t, some fuel, some inps =>
        toString (Sexp.list (inps.map fun inp =>
          .list [outSexp ((execNB X0 fuel t (tstOf inp)).map (·.1)), outSexp ((execFB X0 fuel t (tstOf inp)).map (·.1))]))
      | _, _, _ => "bad-node"
    | _ => "bad-args")
]

end Malt.Drv.C02
