import MaltModel.Drv.Dataflow
/- Driver handlers for C06 (glue only; no theorem depends on this file): evaluate the verified checkers of
`Analysis/Dataflow.lean` / `ReachDef.lean` on the serialised REAL graph, scopes, `Analyzer.in_/out`, annotations,
and evaluate the decidable hypotheses of `rd_trace_sound` on real execution traces. -/
namespace Malt.Drv.C06
open Malt Malt.Analysis Malt.Drv.Dataflow

def graphCheck (D : CfgData) (gm inn out : List (Nat × List Def)) (stmts : List StmtData) (names : List NameAnno) : Sexp :=
  let IN := solAt inn
  let OUT := solAt out
  let m := rdRunModel D (rdFuel D)
  let V := m.closed
  let E := D.graph.edges
  let F := rdFlow D
  let withDef := stmts.filter (fun s => s.definedIn.isSome)
  .list [
    kv "quiescent" (b m.open_.isEmpty),
    kv "visited" (Sexp.ofNat V.length),
    kv "start" (b (V.contains D.entry)),
    kv "closed" (b (closedUnder E V)),
    kv "postfix" (b (isPostFix E V F IN OUT)),
    kv "fix" (b (isFix E V F IN OUT)),
    kv "unvisited_empty" (b (D.graph.nodes.all fun n => V.contains n || ((IN n).isEmpty && (OUT n).isEmpty))),
    kv "model_eq" (b (solEqOn D.graph.nodes m.A IN && solEqOn D.graph.nodes m.B OUT)),
    kv "genmap" (b (genMapOK D gm)),
    kv "prev_incomplete" (ns ((stmts.filter (fun s => !stmtPrevComplete E s)).map (·.id))),
    kv "defined_in_uncovered" (ns ((withDef.filter (fun s => !definedInCovers OUT s (s.definedIn.getD []))).map (·.id))),
    kv "defined_in_loose" (ns ((withDef.filter (fun s => !definedInTight OUT s (s.definedIn.getD []))).map (·.id))),
    kv "names_bad" (ns ((names.filter (fun a => !nameDefsOK IN OUT a)).map (·.id)))]

def findWriter (T : Trace) (k v : Nat) : Option Nat := (List.range k).find? (fun j => isLastWriterB T j k v)

/-- why there is no direct last writer: the last step touching `v` before `k` -/
def noWriterReason (T : Trace) (k v : Nat) : String :=
  match (List.range k).reverse.find? (fun m => T.touchesB m v) with
  | none => "unbound"
  | some m => match T[m]? with
    | some s => if s.fwrites.contains v then "foreign" else if s.dels.contains v then "deleted" else "other"
    | none => "other"

structure Ctx where
  D : CfgData
  V : List Nat
  IN : St Def
  OUT : St Def
  stmts : List StmtData
  pfix : Bool

def flags (c : Ctx) (T : Trace) (j k v : Nat) (concl : Bool) : List Sexp :=
  [kv "writer" (Sexp.ofNat j), kv "writer_node" (Sexp.ofNat (T.nodeAt j)), kv "concl" (b concl),
   kv "postfix" (b c.pfix), kv "path" (b (isPathB c.D.graph.edges c.V T)), kv "gen" (b (rdGenOK c.D T)),
   kv "for_target" (b (forTargetKilledUnwritten c.D T j k v)), kv "other_kill" (b (otherKillUnwritten c.D T j k v))]

def readQuery (c : Ctx) (T : Trace) (k v : Nat) (anno : Option (List Def)) : Sexp :=
  match findWriter T k v with
  | none => .list [.atom "nowriter", .atom (noWriterReason T k v)]
  | some j => .list (.atom "read" :: flags c T j k v ((c.IN (T.nodeAt k)).contains (v, T.nodeAt j)) ++
      (match anno with
       | some ds => [kv "anno_at_eval" (b (nameDefsAtEval c.IN { id := 0, var := v, isLoad := true, cfg := T.nodeAt k, defs := ds } (T.nodeAt k)))]
       | none => []))

def entryQuery (c : Ctx) (T : Trace) (k sid v : Nat) : Sexp :=
  match findWriter T k v, c.stmts.find? (fun s => s.id == sid) with
  | some j, some s =>
    let dv := s.definedIn.getD []
    .list (.atom "entry" :: flags c T j k v (dv.contains v) ++
      [kv "out_prev" (b ((c.OUT (T.nodeAt (k - 1))).contains (v, T.nodeAt j))),
       kv "prev_complete" (b (stmtPrevComplete c.D.graph.edges s)), kv "covers" (b (definedInCovers c.OUT s dv))])
  | none, _ => .list [.atom "nowriter", .atom (noWriterReason T k v)]
  | _, none => .atom "bad-stmt"

/-- evaluate hypotheses and conclusion of `rd_trace_sound` for every direct read of the trace -/
def tally (c : Ctx) (T : Trace) : Sexp :=
  let path := isPathB c.D.graph.edges c.V T
  let gen := rdGenOK c.D T
  let idx := List.range T.length
  let rs := idx.flatMap (fun k => ((T[k]?.map (·.reads)).getD []).map (fun v => (k, v)))
  let res := rs.map (fun (k, v) => match findWriter T k v with
    | none => (0, 0, 0, 0, 0)
    | some j =>
      let hyp := c.pfix && path && gen && rdKillOK c.D T j k v
      let concl := (c.IN (T.nodeAt k)).contains (v, T.nodeAt j)
      (1, if hyp then 1 else 0, if concl then 1 else 0, if hyp && !concl then 1 else 0,
       if forTargetKilledUnwritten c.D T j k v then 1 else 0))
  let sum := res.foldl (fun (a : Nat × Nat × Nat × Nat × Nat) r =>
    (a.1 + r.1, a.2.1 + r.2.1, a.2.2.1 + r.2.2.1, a.2.2.2.1 + r.2.2.2.1, a.2.2.2.2 + r.2.2.2.2)) (0, 0, 0, 0, 0)
  .list [.atom "tally", kv "reads" (Sexp.ofNat rs.length), kv "with_writer" (Sexp.ofNat sum.1), kv "hyps_hold" (Sexp.ofNat sum.2.1),
         kv "concl_holds" (Sexp.ofNat sum.2.2.1), kv "contradiction" (Sexp.ofNat sum.2.2.2.1),
         kv "for_target_class" (Sexp.ofNat sum.2.2.2.2), kv "path" (b path), kv "gen" (b gen)]

def query (c : Ctx) (T : Trace) (q : Sexp) : Sexp :=
  match q with
  | .list [.atom "read", k, v] => match k.nat?, v.nat? with
    | some k, some v => readQuery c T k v none
    | _, _ => .atom "bad-query"
  | .list [.atom "read", k, v, ds] => match k.nat?, v.nat?, pairs? ds with
    | some k, some v, some ds => readQuery c T k v (some ds)
    | _, _, _ => .atom "bad-query"
  | .list [.atom "entry", k, s, v] => match k.nat?, s.nat?, v.nat? with
    | some k, some s, some v => entryQuery c T k s v
    | _, _, _ => .atom "bad-query"
  | .list [.atom "all"] => tally c T
  | _ => .atom "bad-query"

def run (f : Option Sexp) : String := match f with | some s => toString s | none => "bad-args"

def handlers : List (String × (List Sexp → String)) := [
  ("c06.graph", fun a => run do
      let [g, inf, fns, gm, inn, out, st, nm] := a | none
      let D ← cfgData? g inf fns
      pure (graphCheck D (← assoc? pairs? gm) (← assoc? pairs? inn) (← assoc? pairs? out)
              (← (← st.list?).mapM stmt?) (← (← nm.list?).mapM nameAnno?))),
  ("c06.traces", fun a => run do
      let [g, inf, fns, inn, out, st, trs] := a | none
      let D ← cfgData? g inf fns
      let IN := solAt (← assoc? pairs? inn)
      let OUT := solAt (← assoc? pairs? out)
      let m := rdRunModel D (rdFuel D)
      let c : Ctx := { D := D, V := m.closed, IN := IN, OUT := OUT, stmts := ← (← st.list?).mapM stmt?,
                       pfix := isPostFix D.graph.edges m.closed (rdFlow D) IN OUT }
      let outs ← (← trs.list?).mapM fun t => match t with
        | .list [steps, qs] => do
          let T ← trace? steps
          pure (Sexp.list ((← qs.list?).map (query c T)))
        | _ => none
      pure (.list outs))
]

end Malt.Drv.C06
