import MaltModel.Py.SexpAst
import MaltModel.Conv.Break
import MaltModel.Conv.Continue
import MaltModel.Conv.Return
import MaltModel.Conv.JumpToSem
/- Driver handlers for the C01J (jump-lowering passes) correspondence (glue only; no theorem depends on this file). -/
namespace Malt.Drv.C01J
open Malt Malt.Py Malt.Conv Malt.Conv.Jump

def mkNs (globalNs generated : Sexp) : Option NSt := do
  let g ← strs? globalNs
  let gen ← strs? generated
  pure { namer := { globalNs := g, generated := gen }, calls := [] }

def callsSexp (ns : NSt) : Sexp := .list (ns.calls.map fun (r, n) => .list [.atom r, .atom n])

/-- Run the model of one pass. -/
def runPass (which : String) (root : Stmt) (annos : AnnoTable) (ns : NSt) : Option (List Stmt × NSt) :=
  match which with
  | "break" => some (Break.run annos root ns)
  | "continue" => some (Continue.run annos root ns)
  | "rewrite" => some ([Return.Rewriter.run root], ns)
  | "return" => some (Return.Lower.run { annos := annos } root ns)
  | "return-nomissing" => some (Return.Lower.run { annos := annos, allowMissingReturn := false } root ns)
  | _ => none

def lowerSem (which : String) (b : Sem.Block) : Option Sem.Block :=
  match which with
  | "break" => some (Sem.Jumps.lowerBreak (Sem.Jumps.stdGen 'b') b)
  | "continue" => some (Sem.Jumps.lowerContinue (Sem.Jumps.stdGen 'c') b)
  | "return" => some (Sem.Jumps.lowerReturn Sem.Jumps.stdDr Sem.Jumps.stdRv b)
  | "rewrite" => some (Sem.Jumps.rewriteReturns b)
  | _ => none

def b2s (b : Bool) : Sexp := Sexp.ofBool b

def valSexp : Sem.Val → Sexp
  | .int n => .atom (toString n)
  | .none => .atom "None"
  | .list xs => .list (.atom "list" :: xs.map fun n => .atom (toString n))

def val? : Sexp → Option Sem.Val
  | .atom "None" => some .none
  | .atom s => s.toInt?.map .int
  | .list (.atom "list" :: xs) => (xs.mapM Sexp.int?).map .list
  | _ => none

def excSexp : Sem.Exc → Sexp
  | .nameError _ => .atom "NameError"
  | .typeError => .atom "TypeError"
  | .user t => .atom ("E" ++ toString t)

def outSexp : Sem.Out → Sexp
  | .normal => .list [.atom "ret", .atom "None"]      -- falling off the end returns None
  | .ret v => .list [.atom "ret", valSexp v]
  | .exc e => .list [.atom "exc", excSexp e]
  | .brk => .atom "break"
  | .cont => .atom "continue"

def eventSexp : Sem.Event → Sexp
  | .call f args => .list (.atom f :: args.map valSexp)
  | .enter t => .list [.atom "enter", .atom (toString t)]
  | .exit t => .list [.atom "exit", .atom (toString t)]

/-- The external-function oracle of the generated programs: `tr` returns its first value (or the tag),
`d()`/`n()` pop the next decision (0 when exhausted); the index is the number of decisions logged so far. -/
def oracle (dec : List Int) : Sem.Ext :=
  ⟨fun f args log =>
    let k := (log.filter fun e => match e with
      | .call "d" _ => true
      | .call "n" _ => true
      | _ => false).length
    let v := dec.getD k 0
    match f with
    | "tr" => (match args with
        | [tag] => tag
        | _ :: v1 :: _ => v1
        | [] => .none)
    | "d" => .int (if v != 0 then 1 else 0)
    | "n" => .int (v % 3)
    | _ => .none⟩

def initStore (params : List String) (args : List Sem.Val) : Sem.St :=
  let env := (params.zip args).foldl (fun (env : String → Option Sem.Val) (p : String × Sem.Val) =>
    fun y => if y = p.1 then some p.2 else env y) (fun _ => none)
  ⟨env, []⟩

def run (f : Option String) : String := f.getD "bad-args"

def flagsOf (root : Stmt) (bi : Sem.Block) : List Sexp := [
  .list [.atom "inS1", b2s (Sem.Jumps.finOKB bi)],
  .list [.atom "inS0", b2s (Sem.Jumps.inS0B bi)],
  .list [.atom "noExtra", b2s (Sem.Jumps.noExtraB bi)],
  .list [.atom "topCont", b2s (Sem.Jumps.topContB bi)],
  .list [.atom "userNames", b2s (Sem.Jumps.userNamesB bi)],
  .list [.atom "classAgree", b2s (Sem.Jumps.finOKB bi ==
      !(JumpToSem.jumpInFinallyS root || JumpToSem.raiseInFinallyOverJumpS root))]]

/-- `toSem (model output) = lower (toSem input)` up to the spelling of generated names. -/
def tie (which : String) (root : Stmt) (out : List Stmt) : Sexp :=
  match JumpToSem.toSemFn root with
  | none => .list [.atom "skip-input-outside-fragment"]
  | some (params, bi) =>
    let flags := flagsOf root bi
    match out with
    | [o] =>
      match JumpToSem.toSemFn o, lowerSem which bi with
      | some (_, bo), some bl =>
        let keep := params ++ JumpToSem.namesB bi
        let ok := JumpToSem.beqB (JumpToSem.canon keep bo) (JumpToSem.canon keep bl)
        .list (.atom (if ok then "ok" else "diff") :: flags)
      | none, _ => .list (.atom "skip-output-outside-fragment" :: flags)
      | _, none => .list (.atom "skip-no-lowering" :: flags)
    | _ => .list [.atom "skip-output-not-single"]

def execOne (params : List String) (b : Sem.Block) (fuel : Nat) (r : Sexp) : Option Sexp :=
  match r with
  | .list [.list args, .list dec] => do
      let args ← args.mapM val?
      let dec ← dec.mapM Sexp.int?
      match Sem.execB (oracle dec) fuel b (initStore params args) with
      | none => pure (.list [.atom "nofuel"])
      | some (o, σ) => pure (.list [.atom "ok", outSexp o, .list (σ.log.map eventSexp)])
  | _ => none

def handlers : List (String × (List Sexp → String)) := [
  ("c01j.pass", fun a => run do
      let [.atom which, root, annos, g, gen] := a | none
      let root ← parseStmt root
      let annos ← parseAnnoTable annos
      let ns ← mkNs g gen
      let (out, ns') ← runPass which root annos ns
      let t := tie which root out
      pure (toString (Sexp.list [.atom "ok", stmtsToSexp out, callsSexp ns', t]))),
  ("c01j.execs", fun a => run do
      let [root, .list runs, fuel] := a | none
      let root ← parseStmt root
      let fuel ← fuel.nat?
      match JumpToSem.toSemFn root with
      | none => pure "(skip)"
      | some (params, b) =>
        let rs ← runs.mapM (execOne params b fuel)
        pure (toString (Sexp.list (.atom "ok" :: rs)))),
  ("c01j.class", fun a => run do
      let [root] := a | none
      let root ← parseStmt root
      pure (toString (Sexp.list [
        .list [.atom "jumpInFinally", b2s (JumpToSem.jumpInFinallyS root)],
        .list [.atom "raiseInFinallyOverJump", b2s (JumpToSem.raiseInFinallyOverJumpS root)],
        .list [.atom "jumpInTryBodyWithElse", b2s (JumpToSem.jumpInTryBodyWithElseS root)]])))
]

end Malt.Drv.C01J
