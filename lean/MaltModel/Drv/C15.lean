import MaltModel.Util.Sexp
import MaltModel.Rt.Dedent
import MaltModel.Rt.Lambda
/- Driver handlers for the C15 correspondence (glue only; no theorem depends on this file). -/
namespace Malt.Drv.C15
open Malt Malt.Dedent Malt.Lambda

def strS (s : Str) : Sexp := .atom (String.ofList s)

def tok? : Sexp → Option Tok
  | .list [.atom k, .atom text, sr, sc, er, ec] => do
      let k ← Kind.ofName? k
      pure ⟨k, text.toList, ← sr.nat?, ← sc.nat?, ← er.nat?, ← ec.nat?⟩
  | _ => none

def toks? : Sexp → Option (List Tok)
  | .list xs => xs.mapM tok?
  | _ => none

def atok? : Sexp → Option ATok
  | .list [.atom gap, .atom k, .atom text] => do
      let k ← Kind.ofName? k
      pure ⟨gap.toList, ⟨k, text.toList, 0, 0, 0, 0⟩⟩
  | _ => none

def atoks? : Sexp → Option (List ATok)
  | .list xs => xs.mapM atok?
  | _ => none

def clsName : LineClass → String
  | .start => "start" | .cont => "cont" | .strInterior => "str" | .blankOrComment => "blank" | .none => "none"

def optS? : Sexp → Option (Option String)
  | .list [.atom "none"] => some none
  | .list [.atom "some", .atom s] => some (some s)
  | _ => none

def strs? : Sexp → Option (List String)
  | .list xs => xs.mapM Sexp.str?
  | _ => none

def sig? : Sexp → Option Sig
  | .list [po, ar, va, ko, kw] => do
      pure ⟨← strs? po, ← strs? ar, ← optS? va, ← strs? ko, ← optS? kw⟩
  | _ => none

def cand? : Sexp → Option Cand
  | .list [i, lo, hi, s] => do pure ⟨← i.nat?, ← lo.nat?, ← hi.nat?, ← sig? s⟩
  | _ => none

def top? : Sexp → Option Top
  | .list (ln :: cs) => do pure ⟨← ln.nat?, ← cs.mapM cand?⟩
  | _ => none

def spec? : Sexp → Option ArgSpec
  | .list [ar, va, kw, ko] => do pure ⟨← strs? ar, ← optS? va, ← optS? kw, ← strs? ko⟩
  | _ => none

def selS : Sel → Sexp
  | .ok c => .list [.atom "ok", Sexp.ofNat c.id]
  | .noMatch => .atom "nomatch"
  | .ambiguous => .atom "ambiguous"

/-- diagnostic only: kind of the first token at which `wfGo` fails -/
def wfWhy (p : Str) (st : WState) : List ATok → String
  | [] => "ok"
  | a :: as =>
    if wfGo p st (a :: as) then "ok"
    else
      let st' : WState := match a.tok.kind with
        | .INDENT => ⟨st.depth + 1, st.startline, false⟩
        | .DEDENT => ⟨st.depth - 1, st.startline, false⟩
        | .NEWLINE | .NL => ⟨st.depth, true, false⟩
        | .ENDMARKER => st
        | .FSTRING_MIDDLE => ⟨st.depth, false, true⟩
        | _ => ⟨st.depth, false, false⟩
      if wfGo p st' as || as.isEmpty then
        (reprStr a.tok.kind) ++ (if !a.gap.all isBlank then ":gap" else "")
      else wfWhy p st' as

def run (f : Option String) : String := f.getD "bad-args"

def spaces : List Nat :=
  (List.range 0x110000).filter fun n => decide n.isValidChar && isSpace (Char.ofNat n)

def handlers : List (String × (List Sexp → String)) := [
  ("c15.unfold", fun a => run do
      let [.atom s] := a | none
      pure (toString (strS (unfold s.toList)))),
  ("c15.spaces", fun _ => toString (Sexp.list (spaces.map Sexp.ofNat))),
  ("c15.dedent", fun a => run do
      let [.atom code, ts] := a | none
      let ts ← toks? ts
      pure (match dedentBlock code.toList ts with
        | .ok out => toString (Sexp.list [.atom "ok", strS out])
        | .error .mixed => "(err mixed)"
        | .error .untok => "(err untok)")),
  ("c15.classes", fun a => run do
      let [ts, n] := a | none
      pure (toString (Sexp.list ((classify (← toks? ts) (← n.nat?)).map fun c => .atom (clsName c))))),
  ("c15.spec", fun a => run do
      let [.atom code, ts, .atom out] := a | none
      pure (toString (Sexp.ofBool (specOk code.toList (← toks? ts) out.toList)))),
  -- annotated tokens of the UNFOLDED code: is the case in the domain of C15_dedent_text, and what the theorem predicts
  ("c15.wf", fun a => run do
      let [.atom code, ats] := a | none
      let ats ← atoks? ats
      let p := match ats with | x :: _ => x.tok.text | [] => []
      let rOk := renderA ats == code.toList
      -- domain of C15_dedent_unindented
      if (blockIndent (ats.map (·.tok))).getD [] == [] then
        pure (toString (Sexp.list [Sexp.ofBool rOk, .atom "unindented", .atom "True", strS code.toList, .atom "ok"]))
      else
      let w := wf p ats
      pure (toString (Sexp.list [Sexp.ofBool rOk, Sexp.ofBool w, Sexp.ofBool (startsOk p ats),
              strS (renderA (adjust p ats)),
              .atom (if w then "ok" else match ats with
                | _ :: b :: rest => wfWhy p ⟨1, true, false⟩ (b :: rest)
                | _ => "short")]))),
  -- annotated tokens of the ORIGINAL code: hypothesis + classes of C15_unfold_partial, and its prediction
  ("c15.ucls", fun a => run do
      let [.atom code, ats] := a | none
      let ats ← atoks? ats
      let rOk := renderA ats == code.toList
      pure (toString (Sexp.list [Sexp.ofBool rOk, Sexp.ofBool (unfoldSafe ats),
              Sexp.ofBool (contInsideToken ats), Sexp.ofBool (contJoinsTokens ats), Sexp.ofBool (contInIndentation ats),
              strS (renderA (unfoldGaps ats))]))),
  ("c15.select", fun a => run do
      let [.list tops, dl, sp, tgt] := a | none
      let tops ← tops.mapM top?
      let dl ← dl.nat?
      let sp ← spec? sp
      let sel := parseLambda tops dl sp
      let _ := tgt
      pure (toString (Sexp.list [selS sel])))
]

end Malt.Drv.C15
