import MaltModel.Util.Sexp
import MaltModel.Rt.Dedent
import MaltModel.Rt.Lambda
import MaltModel.Rt.Lex
/- Driver handlers for the C15 correspondence (glue only; no theorem depends on this file). -/
namespace Malt.Drv.C15
open Malt Malt.Dedent Malt.Lambda
open Malt.Lex (lexA contsInCode classes Cls Mode step multilineFString)

def strS (s : Str) : Sexp := .atom (String.ofList s)

def tok? : Sexp → Option Tok
  | .list [.atom k, .atom text, sr, sc, er, ec] => do
      let k ← Kind.ofName? k
      pure ⟨k, text.toList, ← sr.nat?, ← sc.nat?, ← er.nat?, ← ec.nat?⟩
  | _ => none

def toks? : Sexp → Option (List Tok)
  | .list xs => xs.mapM tok?
  | _ => none

def atok? : Sexp → Option ATok
  | .list [.atom gap, .atom k, .atom text] => do
      let k ← Kind.ofName? k
      pure ⟨gap.toList, ⟨k, text.toList, 0, 0, 0, 0⟩⟩
  | _ => none

def atoks? : Sexp → Option (List ATok)
  | .list xs => xs.mapM atok?
  | _ => none

def clsName : LineClass → String
  | .start => "start" | .cont => "cont" | .strInterior => "str" | .blankOrComment => "blank" | .none => "none"

def optS? : Sexp → Option (Option String)
  | .list [.atom "none"] => some none
  | .list [.atom "some", .atom s] => some (some s)
  | _ => none

def strs? : Sexp → Option (List String)
  | .list xs => xs.mapM Sexp.str?
  | _ => none

def sig? : Sexp → Option Sig
  | .list [po, ar, va, ko, kw] => do
      pure ⟨← strs? po, ← strs? ar, ← optS? va, ← strs? ko, ← optS? kw⟩
  | _ => none

def cand? : Sexp → Option Cand
  | .list [i, lo, hi, s] => do pure ⟨← i.nat?, ← lo.nat?, ← hi.nat?, ← sig? s⟩
  | _ => none

def top? : Sexp → Option Top
  | .list (ln :: cs) => do pure ⟨← ln.nat?, ← cs.mapM cand?⟩
  | _ => none

def spec? : Sexp → Option ArgSpec
  | .list [ar, va, kw, ko] => do pure ⟨← strs? ar, ← optS? va, ← optS? kw, ← strs? ko⟩
  | _ => none

def selS : Sel → Sexp
  | .ok c => .list [.atom "ok", Sexp.ofNat c.id]
  | .noMatch => .atom "nomatch"
  | .ambiguous => .atom "ambiguous"

/-- diagnostic only: kind of the first token at which `wfGo` fails -/
def wfWhy (p : Str) (st : WState) : List ATok → String
  | [] => "ok"
  | a :: as =>
    if wfGo p st (a :: as) then "ok"
    else
      let st' : WState := match a.tok.kind with
        | .INDENT => ⟨st.depth + 1, st.startline, false⟩
        | .DEDENT => ⟨st.depth - 1, st.startline, false⟩
        | .NEWLINE | .NL => ⟨st.depth, true, false⟩
        | .ENDMARKER => st
        | .FSTRING_MIDDLE => ⟨st.depth, false, true⟩
        | _ => ⟨st.depth, false, false⟩
      if wfGo p st' as || as.isEmpty then
        (reprStr a.tok.kind) ++ (if !a.gap.all isBlank then ":gap" else "")
      else wfWhy p st' as

def run (f : Option String) : String := f.getD "bad-args"

def spaces : List Nat :=
  (List.range 0x110000).filter fun n => decide n.isValidChar && isSpace (Char.ofNat n)

def clsChar : Cls → Char
  | .code => 'c' | .nl => 'n' | .cont => 'k' | .str => 's' | .comment => 'm'

def atokS (a : ATok) : Sexp := .list [strS a.gap, .atom (reprStr a.tok.kind |>.splitOn "." |>.getLast!), strS a.tok.text]

/-- diagnostic: in which mode is the first backslash-newline read that is not read in plain code? -/
def contWhy : Mode → Str → String
  | _, [] => "ok"
  | _, [_] => "ok"
  | m, c :: d :: r =>
    if c = '\\' ∧ d = '\n' then
      match m with
      | .c0 => contWhy .c0 r
      | .m => "backslash-newline-inside-comment"
      | .cbs | .cq1 _ | .cq2 _ => "backslash-newline-after-pending-quote-or-backslash"
      | _ => "backslash-newline-inside-string-literal"
    else contWhy (step m c) (d :: r)

/-- why a text is inside / outside the hypotheses of the theorems — computed with the Lean lexer only -/
def whyText (s : Str) : List String :=
  let orig := lexA s
  let u := if contsInCode .c0 s then [] else [contWhy .c0 s]
  let j := if contJoinsTokens orig then ["backslash-newline-joins-adjacent-tokens"] else []
  let i := if contInIndentation orig then ["backslash-newline-in-indentation"] else []
  let us := unfold s
  let as := lexA us
  let p := match as with | x :: _ => if x.tok.kind = .INDENT then x.tok.text else [] | [] => []
  let d :=
    if renderA as != us then ["dedent:lexer-does-not-render-the-text"]
    else if (blockIndent (as.map (·.tok))).getD [] == [] then ["dedent:unindented(C15_dedent_unindented)"]
    else if !wf p as then
      ["dedent:outside-wf:" ++ (match as with | _ :: b :: rest => wfWhy p ⟨1, true, false⟩ (b :: rest) | _ => "short")]
    else if !startsOk p as then ["dedent:indentation-discipline-fails"]
    else if multilineFString as then ["dedent:multi-line-f-string(lexer-level-fragment-excludes;C15_dedent_text-applies)"]
    else ["dedent:in-fragment(C15_recover_partial)"]
  -- checked, not proved: on the fragment, re-lexing the unfolded text gives the tokens of the original text
  -- (chunks are coarser than tokens: `x,\\⏎ctx()` re-lexes as the single chunk `x,ctx()`; compare with the chunks of
  --  a line glued together — whether two WORDS get glued is the separate class contJoinsTokens)
  let glue := fun (l : List (Kind × Str)) =>
    (l.foldl (fun (acc : List (Kind × Str)) (x : Kind × Str) =>
      match acc with
      | (k1, t1) :: rest =>
        if (k1 = .OP ∨ k1 = .STRING) ∧ (x.1 = .OP ∨ x.1 = .STRING) then (.STRING, t1 ++ x.2) :: rest else x :: acc
      | [] => [x]) []).reverse
  let sig := fun (l : List ATok) => glue (l.map fun a => (a.tok.kind, a.tok.text))
  let kept := if sig as == sig orig then "relex:tokens-of-unfolded-text=tokens-of-text" else "relex:TOKENS-CHANGED"
  (if u.isEmpty && j.isEmpty && i.isEmpty then ["unfold:in-fragment(C15_unfold_lex)"] else u ++ j ++ i) ++ d ++ [kept]

def handlers : List (String × (List Sexp → String)) := [
  ("c15.lex", fun a => run do
      let [.atom code] := a | none
      let s := code.toList
      pure (toString (Sexp.list [.atom (String.ofList ((classes .c0 s).map clsChar)),
              Sexp.list ((lexA s).map atokS)]))),
  ("c15.why", fun a => run do
      let [.atom code] := a | none
      pure (toString (Sexp.list ((whyText code.toList).map .atom)))),
  -- the lexer-based theorem instance: prediction of C15_dedent_lex for the ORIGINAL block text
  ("c15.lexdedent", fun a => run do
      let [.atom code] := a | none
      let us := unfold code.toList
      let as := lexA us
      let p := match as with | x :: _ => if x.tok.kind = .INDENT then x.tok.text else [] | [] => []
      let ok := renderA as == us && p != [] && wf p as && startsOk p as && !multilineFString as
      pure (toString (Sexp.list [Sexp.ofBool ok, strS (renderA (adjust p as))]))),
  ("c15.unfold", fun a => run do
      let [.atom s] := a | none
      pure (toString (strS (unfold s.toList)))),
  ("c15.spaces", fun _ => toString (Sexp.list (spaces.map Sexp.ofNat))),
  ("c15.dedent", fun a => run do
      let [.atom code, ts] := a | none
      let ts ← toks? ts
      pure (match dedentBlock code.toList ts with
        | .ok out => toString (Sexp.list [.atom "ok", strS out])
        | .error .mixed => "(err mixed)"
        | .error .untok => "(err untok)")),
  ("c15.classes", fun a => run do
      let [ts, n] := a | none
      pure (toString (Sexp.list ((classify (← toks? ts) (← n.nat?)).map fun c => .atom (clsName c))))),
  ("c15.spec", fun a => run do
      let [.atom code, ts, .atom out] := a | none
      pure (toString (Sexp.ofBool (specOk code.toList (← toks? ts) out.toList)))),
  -- annotated tokens of the UNFOLDED code: is the case in the domain of C15_dedent_text, and what the theorem predicts
  ("c15.wf", fun a => run do
      let [.atom code, ats] := a | none
      let ats ← atoks? ats
      let p := match ats with | x :: _ => x.tok.text | [] => []
      let rOk := renderA ats == code.toList
      -- domain of C15_dedent_unindented
      if (blockIndent (ats.map (·.tok))).getD [] == [] then
        pure (toString (Sexp.list [Sexp.ofBool rOk, .atom "unindented", .atom "True", strS code.toList, .atom "ok"]))
      else
      let w := wf p ats
      pure (toString (Sexp.list [Sexp.ofBool rOk, Sexp.ofBool w, Sexp.ofBool (startsOk p ats),
              strS (renderA (adjust p ats)),
              .atom (if w then "ok" else match ats with
                | _ :: b :: rest => wfWhy p ⟨1, true, false⟩ (b :: rest)
                | _ => "short")]))),
  -- annotated tokens of the ORIGINAL code: hypothesis + classes of C15_unfold_partial, and its prediction
  ("c15.ucls", fun a => run do
      let [.atom code, ats] := a | none
      let ats ← atoks? ats
      let rOk := renderA ats == code.toList
      pure (toString (Sexp.list [Sexp.ofBool rOk, Sexp.ofBool (unfoldSafe ats),
              Sexp.ofBool (contInsideToken ats), Sexp.ofBool (contJoinsTokens ats), Sexp.ofBool (contInIndentation ats),
              strS (renderA (unfoldGaps ats))]))),
  ("c15.select", fun a => run do
      let [.list tops, dl, sp, tgt] := a | none
      let tops ← tops.mapM top?
      let dl ← dl.nat?
      let sp ← spec? sp
      let sel := parseLambda tops dl sp
      let cands := lambdaNodes dl tops
      let dist : String := match tgt.nat? with
        | some i => match cands.find? (·.id == i) with
          | some c => if !spans dl c then "creating-node-does-not-span-def-line"
                      else if distinguishable cands dl c then "distinguishable(C15_lambda_distinct)"
                      else "same-visible-signature-as-a-neighbour(C15_lambda_ambiguity_reported)"
          | none => "creating-node-not-in-searched-statements"
        | none => "unknown-target"
      pure (toString (Sexp.list [selS sel, .atom dist])))
]

end Malt.Drv.C15
