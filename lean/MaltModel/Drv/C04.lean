import MaltModel.Py.SexpAst
import MaltModel.Conv.Functions
import MaltModel.Conv.Directives
import MaltModel.Conv.CallTrees
import MaltModel.Conv.IfExp
import MaltModel.Conv.Logical
import MaltModel.Conv.Variables
import MaltModel.Conv.NoNative
import MaltModel.Conv.Slices
/- Driver handlers for the C04 correspondence and the verified checker (glue only). -/
namespace Malt.Drv.C04
open Malt Malt.Py Malt.Conv Malt.Gen

def feats? (xs : List Sexp) : Option (List Feature) := xs.mapM fun x => x.str? >>= Feature.ofName?

/-- `(recursive user_requested internal (features in iteration order))` -/
def opts? : Sexp → Option (Options.Opts × List Feature)
  | .list [r, u, i, .list fs] => do
      let r ← r.bool?; let u ← u.bool?; let i ← i.bool?; let fs ← feats? fs
      pure (Options.ctor r u i (.many fs), fs)
  | _ => none

inductive Root where
  | stmt (s : Stmt) | expr (e : Expr)

def root? (x : Sexp) : Option Root :=
  match parseStmt x with
  | some s => some (.stmt s)
  | none => (parseExpr x).map .expr

def stmtsOut (ss : List Stmt) : String := toString (stmtsToSexp ss)
def exprOut (e : Expr) : String := toString e.toSexp

def namesSexp (xs : List (Nat × String)) : Sexp := .list (xs.map fun (i, n) => .list [Sexp.ofNat i, .atom n])

def dirAnnosSexp (xs : List (Nat × String × List (String × Expr))) : Sexp :=
  .list (xs.map fun (i, d, m) => .list [Sexp.ofNat i, .atom d, .list (m.map fun (k, e) => .list [.atom k, e.toSexp])])

def offSexp (o : NoNative.Off) : Sexp := .list [.atom o.kind, Sexp.ofNat o.id, .atom o.detail]

/-- number of conditional expressions that have a conditional expression as an ancestor -/
partial def nestedIfExpE (inside : Bool) : Expr → Nat
  | .ifexp _ t b e => (if inside then 1 else 0) + nestedIfExpE true t + nestedIfExpE true b + nestedIfExpE true e
  | .name .. | .const .. | .noneMarker => 0
  | .attr _ v _ _ => nestedIfExpE inside v
  | .subscript _ v s _ => nestedIfExpE inside v + nestedIfExpE inside s
  | .call _ f as ks => nestedIfExpE inside f + (as.map (nestedIfExpE inside)).sum + (ks.map (nestedIfExpE inside)).sum
  | .keyword _ _ _ v => nestedIfExpE inside v
  | .boolop _ _ vs => (vs.map (nestedIfExpE inside)).sum
  | .unary _ _ e => nestedIfExpE inside e
  | .binop _ _ l r => nestedIfExpE inside l + nestedIfExpE inside r
  | .compare _ l _ rs => nestedIfExpE inside l + (rs.map (nestedIfExpE inside)).sum
  | .lambda _ a b => nestedIfExpE inside a + nestedIfExpE inside b
  | .seq _ _ es _ => (es.map (nestedIfExpE inside)).sum
  | .starred _ v _ => nestedIfExpE inside v
  | .namedexpr _ t v => nestedIfExpE inside t + nestedIfExpE inside v
  | .comp _ _ es gs => (es.map (nestedIfExpE inside)).sum + (gs.map (nestedIfExpE inside)).sum
  | .comprehension _ t it ifs _ => nestedIfExpE inside t + nestedIfExpE inside it + (ifs.map (nestedIfExpE inside)).sum
  | .arguments _ a b c d e f g => ((a ++ b ++ c ++ d ++ e ++ f ++ g).map (nestedIfExpE inside)).sum
  | .arg _ _ an => (an.map (nestedIfExpE inside)).sum
  | .withitem _ c v => nestedIfExpE inside c + (v.map (nestedIfExpE inside)).sum
  | .other _ _ _ ks => (ks.map (nestedIfExpE inside)).sum

partial def nestedIfExpS : Stmt → Nat
  | .functionDef _ _ a b d r _ => nestedIfExpE false a + (b.map nestedIfExpS).sum + ((d ++ r).map (nestedIfExpE false)).sum
  | .classDef _ _ bs ks b ds => ((bs ++ ks ++ ds).map (nestedIfExpE false)).sum + (b.map nestedIfExpS).sum
  | .ret _ v => (v.map (nestedIfExpE false)).sum
  | .delete _ ts => (ts.map (nestedIfExpE false)).sum
  | .assign _ ts v => (ts.map (nestedIfExpE false)).sum + nestedIfExpE false v
  | .augAssign _ t _ v => nestedIfExpE false t + nestedIfExpE false v
  | .annAssign _ t an v _ => nestedIfExpE false t + nestedIfExpE false an + (v.map (nestedIfExpE false)).sum
  | .for_ _ t it b e x _ => nestedIfExpE false t + nestedIfExpE false it + ((b ++ e).map nestedIfExpS).sum + (x.map (nestedIfExpE false)).sum
  | .while_ _ t b e => nestedIfExpE false t + ((b ++ e).map nestedIfExpS).sum
  | .if_ _ t b e => nestedIfExpE false t + ((b ++ e).map nestedIfExpS).sum
  | .with_ _ its b _ => (its.map (nestedIfExpE false)).sum + (b.map nestedIfExpS).sum
  | .raise _ e c => ((e ++ c).map (nestedIfExpE false)).sum
  | .try_ _ b h e f => ((b ++ h ++ e ++ f).map nestedIfExpS).sum
  | .handler _ t _ b => (t.map (nestedIfExpE false)).sum + (b.map nestedIfExpS).sum
  | .assert_ _ t m => nestedIfExpE false t + (m.map (nestedIfExpE false)).sum
  | .expr _ v => nestedIfExpE false v
  | .other _ _ es bs => (es.map (nestedIfExpE false)).sum + (bs.map nestedIfExpS).sum
  | _ => 0

/-- number of Call nodes in an expression -/
partial def callsE : Expr → Nat
  | .call _ f as ks => 1 + callsE f + (as.map callsE).sum + (ks.map callsE).sum
  | .name .. | .const .. | .noneMarker => 0
  | .attr _ v _ _ => callsE v
  | .subscript _ v s _ => callsE v + callsE s
  | .keyword _ _ _ v => callsE v
  | .boolop _ _ vs => (vs.map callsE).sum
  | .unary _ _ e => callsE e
  | .binop _ _ l r => callsE l + callsE r
  | .compare _ l _ rs => callsE l + (rs.map callsE).sum
  | .ifexp _ t b e => callsE t + callsE b + callsE e
  | .lambda _ a b => callsE a + callsE b
  | .seq _ _ es _ => (es.map callsE).sum
  | .starred _ v _ => callsE v
  | .namedexpr _ t v => callsE t + callsE v
  | .comp _ _ es gs => (es.map callsE).sum + (gs.map callsE).sum
  | .comprehension _ t it ifs _ => callsE t + callsE it + (ifs.map callsE).sum
  | .arguments _ a b c d e f g => ((a ++ b ++ c ++ d ++ e ++ f ++ g).map callsE).sum
  | .arg _ _ an => (an.map callsE).sum
  | .withitem _ c v => callsE c + (v.map callsE).sum
  | .other _ _ _ ks => (ks.map callsE).sum

/-- class predicate of known finding C04-directive-arg-call: number of calls inside the arguments of statements the
directives converter resolves to a directive (annotation `static` of the callee) -/
partial def directiveCallsS (staticOf : Nat → Option String) : Stmt → Nat
  | .expr _ (.call _ f as ks) =>
      match staticOf f.id with
      | some "set_loop_options" | some "set_element_type" => (as.map callsE).sum + (ks.map callsE).sum
      | _ => 0
  | .functionDef _ _ _ b _ _ _ => (b.map (directiveCallsS staticOf)).sum
  | .classDef _ _ _ _ b _ => (b.map (directiveCallsS staticOf)).sum
  | .for_ _ _ _ b e _ _ => ((b ++ e).map (directiveCallsS staticOf)).sum
  | .while_ _ _ b e => ((b ++ e).map (directiveCallsS staticOf)).sum
  | .if_ _ _ b e => ((b ++ e).map (directiveCallsS staticOf)).sum
  | .with_ _ _ b _ => (b.map (directiveCallsS staticOf)).sum
  | .try_ _ b h e f => ((b ++ h ++ e ++ f).map (directiveCallsS staticOf)).sum
  | .handler _ _ _ b => (b.map (directiveCallsS staticOf)).sum
  | .other _ _ _ bs => (bs.map (directiveCallsS staticOf)).sum
  | _ => 0

/-- class predicate of known finding C04-param-annotation-call: number of calls inside parameter annotations -/
partial def annotationCallsS : Stmt → Nat
  | .functionDef _ _ as b _ _ _ =>
      (match as with
       | .arguments _ po ar va ko _ kw _ => ((po ++ ar ++ va ++ ko ++ kw).map callsE).sum
       | _ => 0) + (b.map annotationCallsS).sum
  | .classDef _ _ _ _ b _ => (b.map annotationCallsS).sum
  | .for_ _ _ _ b e _ _ => ((b ++ e).map annotationCallsS).sum
  | .while_ _ _ b e => ((b ++ e).map annotationCallsS).sum
  | .if_ _ _ b e => ((b ++ e).map annotationCallsS).sum
  | .with_ _ _ b _ => (b.map annotationCallsS).sum
  | .try_ _ b h e f => ((b ++ h ++ e ++ f).map annotationCallsS).sum
  | .handler _ _ _ b => (b.map annotationCallsS).sum
  | .other _ _ _ bs => (bs.map annotationCallsS).sum
  | _ => 0

/-! regions of the FINAL tree used to attribute a surviving native node to a known finding -/
partial def idsE : Expr → List Nat
  | .noneMarker => []
  | .name i .. | .const i .. => [i]
  | .attr i v _ _ => i :: idsE v
  | .subscript i v s _ => i :: (idsE v ++ idsE s)
  | .call i f as ks => i :: (idsE f ++ as.flatMap idsE ++ ks.flatMap idsE)
  | .keyword i _ _ v => i :: idsE v
  | .boolop i _ vs => i :: vs.flatMap idsE
  | .unary i _ e => i :: idsE e
  | .binop i _ l r => i :: (idsE l ++ idsE r)
  | .compare i l _ rs => i :: (idsE l ++ rs.flatMap idsE)
  | .ifexp i t b e => i :: (idsE t ++ idsE b ++ idsE e)
  | .lambda i a b => i :: (idsE a ++ idsE b)
  | .seq i _ es _ => i :: es.flatMap idsE
  | .starred i v _ => i :: idsE v
  | .namedexpr i t v => i :: (idsE t ++ idsE v)
  | .comp i _ es gs => i :: (es.flatMap idsE ++ gs.flatMap idsE)
  | .comprehension i t it ifs _ => i :: (idsE t ++ idsE it ++ ifs.flatMap idsE)
  | .arguments i a b c d e f g => i :: (a ++ b ++ c ++ d ++ e ++ f ++ g).flatMap idsE
  | .arg i _ an => i :: an.flatMap idsE
  | .withitem i c v => i :: (idsE c ++ v.flatMap idsE)
  | .other i _ _ ks => i :: ks.flatMap idsE

structure Regions where
  ifexpArgs : List Nat := []      -- inside the arguments of an `ag__.if_exp(...)` call
  paramAnn : List Nat := []       -- inside a parameter annotation
  loopOpts : List Nat := []       -- inside the options argument of `ag__.for_stmt` / `ag__.while_stmt`
  deriving Inhabited

def Regions.add (a b : Regions) : Regions :=
  ⟨a.ifexpArgs ++ b.ifexpArgs, a.paramAnn ++ b.paramAnn, a.loopOpts ++ b.loopOpts⟩

partial def regionsE : Expr → Regions
  | .call _ f as ks =>
      let q := (qnStr f).getD ""
      let here : Regions :=
        if q == "ag__.if_exp" then { ifexpArgs := as.flatMap idsE }
        else if q == "ag__.for_stmt" || q == "ag__.while_stmt" then { loopOpts := (as.getLast?.map idsE).getD [] }
        else {}
      ((f :: as ++ ks).map regionsE).foldl Regions.add here
  | .arguments _ a b c d e f g =>
      let anns : Regions := { paramAnn := (a ++ b ++ c ++ d ++ f).flatMap fun x => match x with
        | .arg _ _ an => an.flatMap idsE
        | _ => [] }
      ((a ++ b ++ c ++ d ++ e ++ f ++ g).map regionsE).foldl Regions.add anns
  | .noneMarker | .name .. | .const .. => {}
  | .attr _ v _ _ => regionsE v
  | .subscript _ v s _ => (regionsE v).add (regionsE s)
  | .keyword _ _ _ v => regionsE v
  | .boolop _ _ vs => (vs.map regionsE).foldl Regions.add {}
  | .unary _ _ e => regionsE e
  | .binop _ _ l r => (regionsE l).add (regionsE r)
  | .compare _ l _ rs => ((l :: rs).map regionsE).foldl Regions.add {}
  | .ifexp _ t b e => ((regionsE t).add (regionsE b)).add (regionsE e)
  | .lambda _ a b => (regionsE a).add (regionsE b)
  | .seq _ _ es _ => (es.map regionsE).foldl Regions.add {}
  | .starred _ v _ => regionsE v
  | .namedexpr _ t v => (regionsE t).add (regionsE v)
  | .comp _ _ es gs => ((es ++ gs).map regionsE).foldl Regions.add {}
  | .comprehension _ t it ifs _ => ((t :: it :: ifs).map regionsE).foldl Regions.add {}
  | .arg _ _ an => (an.map regionsE).foldl Regions.add {}
  | .withitem _ c v => ((c :: v).map regionsE).foldl Regions.add {}
  | .other _ _ _ ks => (ks.map regionsE).foldl Regions.add {}

partial def regionsS : Stmt → Regions
  | .functionDef _ _ a b d r _ => (((a :: d ++ r).map regionsE) ++ b.map regionsS).foldl Regions.add {}
  | .classDef _ _ bs ks b ds => (((bs ++ ks ++ ds).map regionsE) ++ b.map regionsS).foldl Regions.add {}
  | .ret _ v => (v.map regionsE).foldl Regions.add {}
  | .delete _ ts => (ts.map regionsE).foldl Regions.add {}
  | .assign _ ts v => ((v :: ts).map regionsE).foldl Regions.add {}
  | .augAssign _ t _ v => (regionsE t).add (regionsE v)
  | .annAssign _ t an v _ => ((t :: an :: v).map regionsE).foldl Regions.add {}
  | .for_ _ t it b e x _ => (((t :: it :: x).map regionsE) ++ (b ++ e).map regionsS).foldl Regions.add {}
  | .while_ _ t b e => (regionsE t :: (b ++ e).map regionsS).foldl Regions.add {}
  | .if_ _ t b e => (regionsE t :: (b ++ e).map regionsS).foldl Regions.add {}
  | .with_ _ its b _ => ((its.map regionsE) ++ b.map regionsS).foldl Regions.add {}
  | .raise _ e c => ((e ++ c).map regionsE).foldl Regions.add {}
  | .try_ _ b h e f => ((b ++ h ++ e ++ f).map regionsS).foldl Regions.add {}
  | .handler _ t _ b => ((t.map regionsE) ++ b.map regionsS).foldl Regions.add {}
  | .assert_ _ t m => ((t :: m).map regionsE).foldl Regions.add {}
  | .expr _ v => regionsE v
  | .other _ _ es bs => ((es.map regionsE) ++ bs.map regionsS).foldl Regions.add {}
  | _ => {}

def regionsSexp (r : Regions) : Sexp :=
  .list [.list (r.ifexpArgs.map Sexp.ofNat), .list (r.paramAnn.map Sexp.ofNat), .list (r.loopOpts.map Sexp.ofNat)]

def run (f : Option String) : String := f.getD "bad-args"

def handlers : List (String × (List Sexp → String)) := [
  -- c04.functions <root> <annos> <namespace keys> <generated so far> <opts>
  ("c04.functions", fun a => run do
      let [r, an, ns, gen, o] := a | none
      let root ← root? r
      let t ← parseAnnoTable an
      let (opts, order) ← opts? o
      let env : Functions.Env := { referencedOf := fun i k => (t.scope i k).map (·.referenced), userOpts := opts, order := order }
      let nm : Naming.Namer := { globalNs := (← strs? ns), generated := (← strs? gen) }
      match root with
      | .stmt s =>
          let (s', st) := Functions.runDef env nm s
          if !st.ok then pure "error:LookupError" else
          pure (toString (Sexp.list [.atom "ok", stmtsToSexp [s'], namesSexp st.ctxNames]))
      | .expr e =>
          let (e', st) := Functions.runLambda env nm e
          if !st.ok then pure "error:LookupError" else
          pure (toString (Sexp.list [.atom "ok", e'.toSexp, namesSexp st.ctxNames]))),
  ("c04.directives", fun a => run do
      let [r, an] := a | none
      let root ← root? r
      let t ← parseAnnoTable an
      let env : Directives.Env := { staticOf := fun i => t.str i "static", origDefs := fun i => (t.get i "orig_defs") >>= Sexp.nat? }
      match root with
      | .stmt s =>
          match Directives.run env s with
          | .error e => pure ("error:" ++ e)
          | .ok (ss, st) => pure (toString (Sexp.list [.atom "ok", stmtsToSexp ss, dirAnnosSexp st.annos]))
      | .expr e => pure (toString (Sexp.list [.atom "ok", e.toSexp, .list []]))),
  ("c04.calltrees", fun a => run do
      let [r, an, b] := a | none
      let root ← root? r
      let t ← parseAnnoTable an
      let env := CallTrees.envOfTable t (← b.bool?)
      match root with
      | .stmt s =>
          if !CallTrees.wellAnnotated env s then pure "error:AssertionError" else
          pure (toString (Sexp.list [.atom "ok", stmtsToSexp [CallTrees.visitS env "" s]]))
      | .expr e => pure (toString (Sexp.list [.atom "ok", (CallTrees.visitE env "" e).toSexp]))),
  ("c04.ifexp", fun a => run do
      let [r, an] := a | none
      let root ← root? r
      let t ← parseAnnoTable an
      match root with
      | .stmt s => pure (toString (Sexp.list [.atom "ok", stmtsToSexp (IfExp.visitS (IfExp.reprOfTable t) s)]))
      | .expr e => pure (toString (Sexp.list [.atom "ok", (IfExp.visitE (IfExp.reprOfTable t) e).toSexp]))),
  ("c04.logical", fun a => run do
      let [r, b] := a | none
      let root ← root? r
      let eqOn ← b.bool?
      match root with
      | .stmt s => pure (toString (Sexp.list [.atom "ok", stmtsToSexp (Logical.visitS eqOn s)]))
      | .expr e => pure (toString (Sexp.list [.atom "ok", (Logical.visitE eqOn e).toSexp]))),
  ("c04.variables", fun a => run do
      let [r, an] := a | none
      let root ← root? r
      let t ← parseAnnoTable an
      match root with
      | .stmt s => pure (toString (Sexp.list [.atom "ok", stmtsToSexp (Variables.visitS (Variables.hasOrigTable t) s)]))
      | .expr e => pure (toString (Sexp.list [.atom "ok", (Variables.visitE (Variables.hasOrigTable t) e).toSexp]))),
  ("c04.slices", fun a => run do
      let [r] := a | none
      match ← root? r with
      | .stmt s =>
          match Slices.visitS s with
          | none => pure "error:NotImplementedError"
          | some ss => pure (toString (Sexp.list [.atom "ok", stmtsToSexp ss]))
      | .expr e => pure (toString (Sexp.list [.atom "ok", (Slices.visitE e).toSexp]))),
  -- c04.nonative <eqOn> <builtinsOn> <root>  ->  list of offenders (empty = noNative)
  ("c04.nonative", fun a => run do
      let [e, b, r] := a | none
      let cfg : NoNative.Cfg := { eqOn := (← e.bool?), builtinsOn := (← b.bool?) }
      match ← root? r with
      | .stmt s => pure (toString (Sexp.list ((NoNative.offenders cfg [s]).map offSexp)))
      | .expr x => pure (toString (Sexp.list ((NoNative.offE cfg [] false .normal x).map offSexp)))),
  ("c04.regions", fun a => run do
      let [r] := a | none
      match ← root? r with
      | .stmt s => pure (toString (regionsSexp (regionsS s)))
      | .expr x => pure (toString (regionsSexp (regionsE x)))),
  ("c04.annotation-calls", fun a => run do
      let [r] := a | none
      match ← root? r with
      | .stmt s => pure (toString (annotationCallsS s))
      | .expr _ => pure "0"),
  ("c04.directive-calls", fun a => run do
      let [r, an] := a | none
      let t ← parseAnnoTable an
      match ← root? r with
      | .stmt s => pure (toString (directiveCallsS (fun i => t.str i "static") s))
      | .expr _ => pure "0"),
  -- class predicate of the known finding: number of conditional expressions nested in one
  ("c04.nested-ifexp", fun a => run do
      let [r] := a | none
      match ← root? r with
      | .stmt s => pure (toString (nestedIfExpS s))
      | .expr x => pure (toString (nestedIfExpE false x)))
]

end Malt.Drv.C04
