import MaltModel.Conv.ControlFlow
import MaltModel.Conv.Contract
import MaltModel.Conv.CFSpec
import MaltModel.Py.SexpAst
/- Driver handlers for the C03 correspondence (glue only; no theorem depends on this file). -/
namespace Malt.Drv.C03
open Malt Malt.Py Malt.Naming Malt.Conv.ControlFlow Malt.Conv.Contract Malt.Conv.CFSpec

def run (f : Option String) : String := f.getD "bad-args"

/-- `(id directives ((set_loop_options ((kw expr)...)) ...))` entries of the annotation table. -/
def dirTable (t : AnnoTable) : Option DirTable :=
  t.filterMapM fun (i, k, v) =>
    if k != "directives" then some none else
    match v with
    | .list ds =>
      match ds.find? (fun d => match d with | .list [.atom "set_loop_options", _] => true | _ => false) with
      | some (.list [_, .list kws]) => do
          let kvs ← kws.mapM fun kw => match kw with
            | .list [.atom k, e] => do pure (k, (← parseExpr e))
            | _ => none
          pure (some (i, kvs))
      | _ => some none
    | _ => none

def handlers : List (String × (List Sexp → String)) := [
  ("c03.cf", fun a => run do
      let [tree, annos, ns, gen] := a | none
      let root ← parseStmt tree
      let ann ← parseAnnoTable annos
      let dirs ← dirTable ann
      let ns ← strs? ns
      let gen ← strs? gen
      let nm : Namer := { globalNs := ns, generated := gen.reverse }
      let (out, nm') := transform { ann, dirs } nm root
      let fresh := (nm'.generated.take (nm'.generated.length - gen.length)).reverse
      pure (toString (Sexp.list [.atom "ok", stmtsToSexp out, Sexp.ofStrs fresh, Sexp.ofBool (contractOk out)]))),
  -- the Lean counterexample to `get (set)` replayed on the model's output for a concrete program: the store binds
  -- every simple variable and lacks every composite entry
  ("c03.getset", fun a => run do
      let [tree, annos, ns, gen] := a | none
      let root ← parseStmt tree
      let ann ← parseAnnoTable annos
      let dirs ← dirTable ann
      let nm : Namer := { globalNs := ← strs? ns, generated := (← strs? gen).reverse }
      let out := cfOutput { ann, dirs } nm root
      -- every variable is bound to an object of its own, every slot of every object is empty
      let σ₀ : Store := fun q => match q with | .sym s => some (.obj s.hash.toNat) | _ => none
      let clsStr (k : StateClass) : String := match k with
        | .missingComposite => "missingComposite" | .undefinedBase => "undefinedBase" | .dependent => "dependent"
        | .aliased => "aliased" | .lawful => "lawful"
      let rows := (emitted out).map fun o => match o with
        | none => Sexp.atom "malformed"
        | some c =>
          match entries c with
          | none => Sexp.atom "no-entries"
          | some es =>
            let changed := match getS es σ₀ with
              | some vs => match assignSeq (es.map (·.qn)) vs σ₀ with
                | some σ' => es.any fun e => match loc σ₀ e.qn with
                    | some l => decide (σ' l ≠ σ₀ l)
                    | none => false
                | none => true
              | none => false
            Sexp.list [Sexp.ofStrs (nameStrs c), Sexp.ofBool (missingAt σ₀ es), Sexp.ofBool changed, .atom (clsStr (classify σ₀ es))]
      pure (toString (Sexp.list rows))),
  ("c03.check", fun a => run do
      let [tree] := a | none
      let g ← parseStmts tree
      let es := emitted g
      let kindStr (k : OpKind) : String := match k with | .ifStmt => "if_stmt" | .whileStmt => "while_stmt" | .forStmt => "for_stmt"
      let rows := es.map fun o => match o with
        | none => Sexp.atom "malformed"
        | some c => Sexp.list [.atom (kindStr c.kind), Sexp.ofStrs (nameStrs c), Sexp.ofBool (lengthsB c), Sexp.ofBool (positionsB c),
            Sexp.ofBool (arityB c), Sexp.ofBool (noutsB c), Sexp.ofBool (distinctB c), Sexp.ofBool (getterPureB c), Sexp.ofBool (setterDeclaresB c)]
      pure (toString (Sexp.list [Sexp.ofBool (contractOk g), .list rows]))),
  -- Props/C01CF.lean: hypotheses evaluated on a real table, conclusions evaluated on the model's output
  ("c01cf.eval", fun a => run do
      let [tree, annos, ns, gen, b0] := a | none
      let root ← parseStmt tree
      let ann ← parseAnnoTable annos
      let dirs ← dirTable ann
      let nm : Namer := { globalNs := ← strs? ns, generated := (← strs? gen).reverse }
      let env : Env := { ann, dirs }
      let B ← strs? b0
      let out := cfOutput env nm root
      let noSkip := ann.all fun (_, k, _) => k != "skip"
      pure (toString (Sexp.list [Sexp.ofBool noSkip, Sexp.ofBool (pdHypS env {} root), Sexp.ofBool (nlHypS env {} B root),
        Sexp.ofBool (noNativeCFL out), Sexp.ofBool (pdOkL out), Sexp.ofBool (nlOkL B out)]))),
  -- the same three predicates on a REAL tree (output of the real pass / final generated code)
  ("c01cf.check", fun a => run do
      let [tree, b0] := a | none
      let g ← parseStmts tree
      let B ← strs? b0
      pure (toString (Sexp.list [Sexp.ofBool (noNativeCFL g), Sexp.ofBool (pdOkL g), Sexp.ofBool (nlOkL B g)]))),
  -- why a generated program can leave the class `lawful` of the get/set theorems: read off the state tuples alone
  ("c03.why", fun a => run do
      let [tree] := a | none
      let g ← parseStmts tree
      let rows := (emitted g).map fun o => match o with
        | none => Sexp.atom "malformed"
        | some c => match entries c with
          | none => Sexp.atom "no-entries"
          | some es => Sexp.list [Sexp.ofNat es.length, Sexp.ofBool (staticComposite es), Sexp.ofBool (staticDependent es)]
      pure (toString (Sexp.list rows))),
  ("c03.blockvars", fun a => run do
      let [m, li, lo, di, g, n] := a | none
      let r := Malt.Conv.BlockVars.blockVars (← strs? m) (← strs? li) (← strs? lo) (← strs? di) (← strs? g) (← strs? n)
      pure (toString (Sexp.list [Sexp.ofStrs r.scopeVars, Sexp.ofStrs r.undefined, Sexp.ofNat r.nouts])))
]

end Malt.Drv.C03
