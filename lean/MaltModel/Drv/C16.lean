import MaltModel.Rt.Ctx
/- Driver handlers for the C16 correspondence (glue only; no theorem depends on this file).

Requests
  c16.run <tree>                       -> (<outcome> (<obs> …))          big-step `runThread` from `TState.init`
  c16.machine <tree>                   -> (<outcome> (<obs> …) <steps>)  the small-step machine run to completion
  c16.check <tree> (<obs> …)            -> True | False                    `checkThread` on a (real) log
  c16.sched (<tree> …) (<tid> …)       -> ((<done> <outcome> (<obs> …)) …) interleaving: the schedule, then every
                                           thread run to completion in thread order (also a schedule)
Syntax
  tree    ::= (<kind> (<tree> …) <raiseAt> <catches>)      raiseAt ::= none | <nat>     catches ::= True | False
  kind    ::= plain | dnc | unspec | (ctx <st> <src>) | (fs <ur> <feat>) | (tg <rec> <lambda> <feat>)
            | (conv <ur> <rec> <feat> <carg>) | (iconv <cref> <cbd> <ur>)       feat: options name an unsupported feature
  carg    ::= null | <cref>            cref ::= current | (obj <id> <st>)
  st      ::= U | E | D                id ::= d | (f <nat>) | (s <nat>)
  obs     ::= ((<nat> …) <point> <bool> <id>|none <st>|none)   path printed outermost first; bool: observer is converted code
  point   ::= start | in | (pre <nat>) | (post <nat>) | caught | out | fin
  outcome ::= ok | (boom (<nat> …)) | assertion | index | rejected
-/
namespace Malt.Drv.C16
open Malt Malt.Ctx

def status? : Sexp → Option Status
  | .atom "U" => some .unspecified
  | .atom "E" => some .enabled
  | .atom "D" => some .disabled
  | _ => none

def id? : Sexp → Option CtxId
  | .atom "d" => some .dflt
  | .list [.atom "f", n] => n.nat?.map .fresh
  | .list [.atom "s", n] => n.nat?.map .shared
  | _ => none

def cref? : Sexp → Option CtxRef
  | .atom "current" => some .current
  | .list [.atom "obj", i, st] => do pure (.obj ⟨← id? i, ← status? st⟩)
  | _ => none

def kind? : Sexp → Option Kind
  | .atom "plain" => some .plain
  | .atom "dnc" => some .doNotConvert
  | .atom "unspec" => some .unspecified
  | .list [.atom "ctx", st, src] => do pure (.withCtx (← status? st) (← src.bool?))
  | .list [.atom "fs", b, f] => do pure (.functionScope (← b.bool?) (← f.bool?))
  | .list [.atom "tg", r, l, f] => do pure (.toGraph (← r.bool?) (← l.bool?) (← f.bool?))
  | .list [.atom "conv", b, r, f, .atom "null"] => do pure (.convert (← b.bool?) (← r.bool?) (← f.bool?) none)
  | .list [.atom "conv", b, r, f, c] => do pure (.convert (← b.bool?) (← r.bool?) (← f.bool?) (some (← cref? c)))
  | .list [.atom "iconv", c, cbd, ur] => do pure (.internalConvert (← cref? c) (← cbd.bool?) (← ur.bool?))
  | _ => none

partial def tree? : Sexp → Option Tree
  | .list [k, .list cs, ra, ca] => do
      let k ← kind? k
      let cs ← cs.mapM tree?
      let ra ← (match ra with | .atom "none" => some none | x => x.nat?.map some)
      pure (.node k cs ra (← ca.bool?))
  | _ => none

def statusSexp : Status → Sexp
  | .unspecified => .atom "U"
  | .enabled => .atom "E"
  | .disabled => .atom "D"

def idSexp : CtxId → Sexp
  | .dflt => .atom "d"
  | .fresh n => .list [.atom "f", Sexp.ofNat n]
  | .shared k => .list [.atom "s", Sexp.ofNat k]

def pathSexp (p : Path) : Sexp := .list (p.reverse.map Sexp.ofNat)

def pointSexp : Point → Sexp
  | .start => .atom "start"
  | .inn => .atom "in"
  | .pre i => .list [.atom "pre", Sexp.ofNat i]
  | .post i => .list [.atom "post", Sexp.ofNat i]
  | .caught => .atom "caught"
  | .out => .atom "out"
  | .fin => .atom "fin"

def obsSexp (o : Obs) : Sexp :=
  match o.top with
  | none => .list [pathSexp o.owner, pointSexp o.pt, Sexp.ofBool o.conv, .atom "none", .atom "none"]
  | some e => .list [pathSexp o.owner, pointSexp o.pt, Sexp.ofBool o.conv, idSexp e.id, statusSexp e.status]

def point? : Sexp → Option Point
  | .atom "start" => some .start
  | .atom "in" => some .inn
  | .list [.atom "pre", i] => i.nat?.map .pre
  | .list [.atom "post", i] => i.nat?.map .post
  | .atom "caught" => some .caught
  | .atom "out" => some .out
  | .atom "fin" => some .fin
  | _ => none

def obs? : Sexp → Option Obs
  | .list [.list p, pt, cv, i, st] => do
      let p ← p.mapM Sexp.nat?
      let pt ← point? pt
      let top ← (match i with
        | .atom "none" => some none
        | i => do pure (some (⟨← id? i, ← status? st⟩ : Entry)))
      pure ⟨p.reverse, pt, ← cv.bool?, top⟩
  | _ => none

def outSexp : Option Exn → Sexp
  | none => .atom "ok"
  | some (.boom p) => .list [.atom "boom", pathSexp p]
  | some .assertion => .atom "assertion"
  | some .index => .atom "index"
  | some .rejected => .atom "rejected"

/-- Run the machine until it is done (the bound only guards against a modelling error). -/
def runMachine (c : Cfg) (fuel : Nat) : Cfg × Nat := Id.run do
  let mut c := c
  let mut n := 0
  for _ in [0:fuel] do
    if c.done then break
    c := step c
    n := n + 1
  return (c, n)

def run (f : Option String) : String := f.getD "bad-args"

def handlers : List (String × (List Sexp → String)) := [
  ("c16.run", fun a => run do
      let [t] := a | none
      let r := runThread (← tree? t) TState.init
      pure (toString (Sexp.list [outSexp r.out, .list (r.log.map obsSexp),
                                 .list (r.st.stack.map (fun e => idSexp e.id))]))),
  ("c16.check", fun a => run do
      let [t, .list l] := a | none
      pure (toString (Sexp.ofBool (checkThread (← tree? t) (← l.mapM obs?))))),
  ("c16.machine", fun a => run do
      let [t] := a | none
      let (c, n) := runMachine (Cfg.init (← tree? t) TState.init) 1000000
      pure (toString (Sexp.list [outSexp c.mode, .list (c.log.map obsSexp),
                                 .list (c.st.stack.map (fun e => idSexp e.id)),
                                 Sexp.ofBool c.done, Sexp.ofNat n]))),
  ("c16.sched", fun a => run do
      let [.list ts, .list sched] := a | none
      let ts ← ts.mapM tree?
      let sched ← sched.mapM Sexp.nat?
      let n := ts.length
      let g0 : Array Cfg := (ts.map (fun t => Cfg.init t TState.init)).toArray
      -- the schedule, on an array (the executable counterpart of `runSched` on `Tid → Cfg`)
      let g1 := sched.foldl (fun (g : Array Cfg) t => if h : t < g.size then g.set t (step g[t]) else g) g0
      let g2 := g1.map (fun c => (runMachine c 1000000).1)
      let _ := n
      pure (toString (Sexp.list (g2.toList.map (fun c =>
        Sexp.list [outSexp c.mode, .list (c.log.map obsSexp),
                   .list (c.st.stack.map (fun e => idSexp e.id)), Sexp.ofBool c.done])))))
]

end Malt.Drv.C16
