import MaltModel.Util.Sexp
import MaltModel.Analysis.Liveness
/- Parsing of the serialised real CFG / Scope / solution / trace data shared by the C06 and C07 drivers
(glue only; no theorem depends on this file). -/
namespace Malt.Drv.Dataflow
open Malt Malt.Analysis

def nats? (x : Sexp) : Option (List Nat) := do
  let xs ← x.list?
  xs.mapM Sexp.nat?

def pair? (x : Sexp) : Option (Nat × Nat) :=
  match x with
  | .list [a, b] => do pure (← a.nat?, ← b.nat?)
  | _ => none

def pairs? (x : Sexp) : Option (List (Nat × Nat)) := do
  let xs ← x.list?
  xs.mapM pair?

/-- `()` = none, `(x)` = some x -/
def opt? {α} (f : Sexp → Option α) (x : Sexp) : Option (Option α) :=
  match x with
  | .list [] => some none
  | .list [y] => (f y).map some
  | _ => none

def scope? (x : Sexp) : Option Scope :=
  match x with
  | .list [r, m, d, b, g, nl, p, an] => do
    pure { read := ← nats? r, modified := ← nats? m, deleted := ← nats? d, bound := ← nats? b,
           globals := ← nats? g, nonlocals := ← nats? nl, params := ← nats? p, annotations := ← nats? an }
  | _ => none

def nodeInfo? (x : Sexp) : Option NodeInfo :=
  match x with
  | .list [i, sc, isFor, tg, isFn, fi] => do
    pure { id := ← i.nat?, scope := ← opt? scope? sc, isForIter := ← isFor.bool?, forTargets := ← nats? tg,
           isFnDef := ← isFn.bool?, fnsIn := ← opt? nats? fi }
  | _ => none

def fnInfo? (x : Sexp) : Option FnInfo :=
  match x with
  | .list [i, pa, l, r, b, nl, gl] => do
    pure { id := ← i.nat?, parent := ← pa.nat?, isLambda := ← l.bool?, read := ← nats? r, bound := ← nats? b, nonlocals := ← nats? nl,
           globals := ← nats? gl }
  | _ => none

/-- `(graph fnId (nodes) (edges) entry (exits))  (infos)  (fns)` -/
def cfgData? (g inf fns : Sexp) : Option CfgData :=
  match g with
  | .list [.atom "graph", fid, ns, es, en, ex] => do
    let infos ← (← inf.list?).mapM nodeInfo?
    let fl ← (← fns.list?).mapM fnInfo?
    pure { fnId := ← fid.nat?, graph := ⟨← nats? ns, ← pairs? es⟩, entry := ← en.nat?, exits := ← nats? ex, info := infos, fns := fl }
  | _ => none

def assoc? {α} (f : Sexp → Option α) (x : Sexp) : Option (List (Nat × α)) := do
  let xs ← x.list?
  xs.mapM fun e => match e with
    | .list [k, v] => do pure (← k.nat?, ← f v)
    | _ => none

def stmt? (x : Sexp) : Option StmtData :=
  match x with
  | .list [i, nx, pv, ins, en, lo, li, di] => do
    pure { id := ← i.nat?, next := ← nats? nx, prev := ← nats? pv, inside := ← nats? ins, entry := ← opt? Sexp.nat? en,
           liveOut := ← opt? nats? lo, liveIn := ← opt? nats? li, definedIn := ← opt? nats? di }
  | _ => none

def nameAnno? (x : Sexp) : Option NameAnno :=
  match x with
  | .list [i, v, l, c, ds] => do
    pure { id := ← i.nat?, var := ← v.nat?, isLoad := ← l.bool?, cfg := ← c.nat?, defs := ← pairs? ds }
  | _ => none

def step? (x : Sexp) : Option Step :=
  match x with
  | .list [n, r, w, d, fw, cr] => do
    pure { node := ← n.nat?, reads := ← nats? r, writes := ← nats? w, dels := ← nats? d, fwrites := ← nats? fw,
           creads := ← pairs? cr }
  | _ => none

def trace? (x : Sexp) : Option Trace := do (← x.list?).mapM step?

def b (x : Bool) : Sexp := Sexp.ofBool x
def ns (xs : List Nat) : Sexp := .list (xs.map Sexp.ofNat)
def kv (k : String) (v : Sexp) : Sexp := .list [.atom k, v]

end Malt.Drv.Dataflow
