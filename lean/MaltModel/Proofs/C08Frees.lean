import MaltModel.Proofs.C08Nested
import MaltModel.Spec.Outer
/-
Helper development for `C08_frees_nested`, part 1 (specification side only):
the free variables CPython's rules give to a block — at any depth — are the names of `outerB` that are
visible from the enclosing function-like blocks.
-/
namespace Malt.Analysis
open Malt.Py Malt.Spec

theorem outerBs_append (a b : List Block) : outerBs (a ++ b) = outerBs a ++ outerBs b := by
  induction a with
  | nil => simp [outerBs]
  | cons x r ih => simp [outerBs, ih]

mutual
theorem nlOkB_congr : (b : Block) → (B B' : List String) → (∀ x, x ∈ B' ↔ x ∈ B) → nlOkB B' b = nlOkB B b
  | .mk _ kind _ params binds globals nonlocals _ _ children, B, B', h => by
      simp only [nlOkB]
      have h1 : (nonlocals.all fun n => B'.contains n) = (nonlocals.all fun n => B.contains n) := by
        apply List.all_congr rfl
        intro n
        have := h n
        by_cases hn : n ∈ B <;> simp_all
      rw [h1, nlOkBs_congr children (visibleIn kind params binds globals nonlocals B) (visibleIn kind params binds globals nonlocals B')
        (by intro x; cases hk : kind.functionLike <;> simp [visibleIn, hk, h x])]
theorem nlOkBs_congr : (bs : List Block) → (B B' : List String) → (∀ x, x ∈ B' ↔ x ∈ B) → nlOkBs B' bs = nlOkBs B bs
  | [], _, _, _ => by simp [nlOkBs]
  | b :: rest, B, B', h => by
      simp only [nlOkBs]
      rw [nlOkB_congr b B B' h, nlOkBs_congr rest B B' h]
end


theorem mem_visibleIn (kind : BlockKind) (params binds globals nonlocals B : List String) (x : String) :
    x ∈ visibleIn kind params binds globals nonlocals B ↔
      if kind.functionLike then ((x ∈ params ∨ x ∈ binds) ∧ x ∉ globals ∧ x ∉ nonlocals) ∨ (x ∈ B ∧ x ∉ globals) else x ∈ B := by
  cases hk : kind.functionLike <;> simp [visibleIn, hk]
  grind

mutual
/-- **The free variables of a block, at any depth**: the names returned by `analyzeBlock` as needed from
    the enclosing blocks are the names of `outerB` visible from the enclosing function-like blocks. -/
theorem analyzeBlock_free : (b : Block) → (parent : Nat) → (B B' eg : List String) →
    (∀ b' ∈ allBlocks b, b'.walrus = []) → (∀ x, x ∈ B' ↔ x ∈ B) → nlOkB B b = true →
    ∀ x, x ∈ (analyzeBlock b parent B' eg).2 ↔ x ∈ outerB b ∧ x ∈ B
  | .mk id kind name params binds globals nonlocals uses walrus children, parent, B, B', eg, hw, hB, hv => by
      have hw0 : walrus = [] := hw _ (mem_allBlocks_self _)
      subst hw0
      have hwc : ∀ b' ∈ allBlocksL children, b'.walrus = [] :=
        fun b'' hb'' => hw b'' (by simp only [allBlocks, List.mem_cons]; exact Or.inr hb'')
      simp only [nlOkB, Bool.and_eq_true, List.all_eq_true] at hv
      obtain ⟨hvn, hvc⟩ := hv
      intro x
      have hvx : x ∈ nonlocals → x ∈ B := fun h => by simpa using hvn x h
      have hBx := hB x
      cases hk : kind.functionLike
      · -- a class body
        have ih := analyzeBlocks_free children id (visibleIn kind params binds globals nonlocals B) B'
          (if kind.isComp then eg else globals) hwc
          (by intro y; rw [mem_visibleIn]; simp [hk, hB y]) hvc x
        rw [mem_visibleIn] at ih
        simp only [hk, Bool.false_eq_true, ↓reduceIte] at ih
        simp only [analyzeBlock, hk, Bool.false_eq_true, ↓reduceIte, dedup, List.mem_eraseDups, List.mem_append,
          List.mem_filter, ownNames, scopeOf, Block.params, Block.binds, Block.globals, Block.nonlocals, Block.uses,
          Block.walrus, outerB, ih]
        simp
        grind
      · have hNB : ∀ y, y ∈ dedup (List.filter (fun n =>
              scopeOf (Block.mk id kind name params binds globals nonlocals uses [] []) B' eg n == Scope.local)
              (ownNames (Block.mk id kind name params binds globals nonlocals uses [] [])) ++
              List.filter (fun n => !globals.contains n) B') ↔ y ∈ visibleIn kind params binds globals nonlocals B := by
          intro y
          rw [mem_visibleIn]
          simp only [hk, ↓reduceIte, dedup, List.mem_eraseDups, List.mem_append, List.mem_filter, ownNames, scopeOf,
            Block.params, Block.binds, Block.globals, Block.nonlocals, Block.uses, Block.walrus, hB y]
          by_cases h1 : y ∈ globals <;> by_cases h3 : y ∈ nonlocals <;>
            by_cases h4 : y ∈ params <;> by_cases h5 : y ∈ binds <;> by_cases h6 : y ∈ B <;> simp_all
        have ih := analyzeBlocks_free children id (visibleIn kind params binds globals nonlocals B) _
          (if kind.isComp then eg else globals) hwc hNB hvc x
        rw [mem_visibleIn] at ih
        simp only [hk, ↓reduceIte] at ih
        simp only [analyzeBlock, hk, ↓reduceIte, dedup, List.mem_eraseDups, List.mem_append,
          List.mem_filter, ownNames, scopeOf, Block.params, Block.binds, Block.globals, Block.nonlocals, Block.uses,
          Block.walrus, outerB] at ih ⊢
        simp only [ih]
        simp
        grind
theorem analyzeBlocks_free : (bs : List Block) → (parent : Nat) → (B B' eg : List String) →
    (∀ b' ∈ allBlocksL bs, b'.walrus = []) → (∀ x, x ∈ B' ↔ x ∈ B) → nlOkBs B bs = true →
    ∀ x, x ∈ (analyzeBlocks bs parent B' eg).2 ↔ x ∈ outerBs bs ∧ x ∈ B
  | [], _, _, _, _, _, _, _ => by simp [analyzeBlocks, outerBs]
  | b :: rest, parent, B, B', eg, hw, hB, hv => by
      simp only [nlOkBs, Bool.and_eq_true] at hv
      intro x
      have h1 := analyzeBlock_free b parent B B' eg
        (fun b'' hb'' => hw b'' (by simp only [allBlocksL, List.mem_append]; exact Or.inl hb'')) hB hv.1 x
      have h2 := analyzeBlocks_free rest parent B B' eg
        (fun b'' hb'' => hw b'' (by simp only [allBlocksL, List.mem_append]; exact Or.inr hb'')) hB hv.2 x
      simp only [analyzeBlocks, outerBs, List.mem_append, h1, h2]
      grind
end


/-- The free names listed in the table entry of a function-like block. -/
theorem analyzeBlock_headFrees (id : Nat) (kind : BlockKind) (name : String)
    (params binds globals nonlocals uses : List String) (children : List Block) (parent : Nat) (B B' eg : List String)
    (hk : kind.functionLike = true)
    (hw : ∀ b' ∈ allBlocksL children, b'.walrus = []) (hB : ∀ x, x ∈ B' ↔ x ∈ B)
    (hv : nlOkB B (.mk id kind name params binds globals nonlocals uses [] children) = true)
    (info : BlockInfo) (rest : List BlockInfo)
    (he : (analyzeBlock (.mk id kind name params binds globals nonlocals uses [] children) parent B' eg).1 = info :: rest) :
    ∀ x, x ∈ info.frees ↔ x ∈ outerB (.mk id kind name params binds globals nonlocals uses [] children) ∧ x ∈ B := by
  simp only [nlOkB, Bool.and_eq_true, List.all_eq_true] at hv
  obtain ⟨hvn, hvc⟩ := hv
  have hNB : ∀ y, y ∈ dedup (List.filter (fun n =>
        scopeOf (Block.mk id kind name params binds globals nonlocals uses [] []) B' eg n == Scope.local)
        (ownNames (Block.mk id kind name params binds globals nonlocals uses [] [])) ++
        List.filter (fun n => !globals.contains n) B') ↔ y ∈ visibleIn kind params binds globals nonlocals B := by
    intro y
    rw [mem_visibleIn]
    simp only [hk, ↓reduceIte, dedup, List.mem_eraseDups, List.mem_append, List.mem_filter, ownNames, scopeOf,
      Block.params, Block.binds, Block.globals, Block.nonlocals, Block.uses, Block.walrus, hB y]
    by_cases h1 : y ∈ globals <;> by_cases h3 : y ∈ nonlocals <;>
      by_cases h4 : y ∈ params <;> by_cases h5 : y ∈ binds <;> by_cases h6 : y ∈ B <;> simp_all
  have ih := analyzeBlocks_free children id (visibleIn kind params binds globals nonlocals B) _
    (if kind.isComp then eg else globals) hw hNB hvc
  simp only [mem_visibleIn, hk, ↓reduceIte] at ih
  simp only [analyzeBlock, hk, ↓reduceIte, List.cons.injEq] at he
  obtain ⟨rfl, -⟩ := he
  generalize (analyzeBlocks children id _ (if kind.isComp then eg else globals)).snd = CF at ih ⊢
  intro x
  have hvx : x ∈ nonlocals → x ∈ B := fun h => by simpa using hvn x h
  have hBx := hB x
  have ihx := ih x
  simp only [BlockInfo.frees, BlockInfo.names, List.filter_append, List.map_append, List.mem_append, List.mem_map,
    List.mem_filter, dedup, List.mem_eraseDups, ownNames, scopeOf, Block.params, Block.binds, Block.globals,
    Block.nonlocals, Block.uses, Block.walrus, outerB, hk, ↓reduceIte]
  simp
  have hvn' : ∀ n, n ∈ nonlocals → n ∈ B := fun n h => by simpa using hvn n h
  constructor
  · rintro (⟨a, ⟨⟨n, hn, rfl⟩, hs⟩, rfl⟩ | ⟨a, ⟨⟨n, hn, rfl⟩, hs⟩, rfl⟩)
    · simp only at hs ⊢
      have := hB n; have := hvn' n
      grind
    · simp only at hs ⊢
      have := hB n; have := hvn' n; have := ih n
      grind
  · rintro ⟨h, hxB⟩
    by_cases hown : ((((x ∈ params ∨ x ∈ binds) ∨ x ∈ globals) ∨ x ∈ nonlocals) ∨ x ∈ uses)
    · left
      refine ⟨_, ⟨⟨x, hown, rfl⟩, ?_⟩, rfl⟩
      simp only
      grind
    · right
      refine ⟨_, ⟨⟨x, ⟨⟨?_, ?_⟩, ?_⟩, rfl⟩, rfl⟩, rfl⟩
      · grind
      · grind
      · grind


theorem mem_newBound (id : Nat) (kind : BlockKind) (name : String) (params binds globals nonlocals uses : List String)
    (B B' eg : List String) (hB : ∀ x, x ∈ B' ↔ x ∈ B) (y : String) :
    y ∈ (if kind.functionLike then dedup (((ownNames (.mk id kind name params binds globals nonlocals uses [] [])).filter fun n =>
            scopeOf (.mk id kind name params binds globals nonlocals uses [] []) B' eg n == .local) ++ B'.filter (fun n => !globals.contains n))
         else B') ↔ y ∈ visibleIn kind params binds globals nonlocals B := by
  rw [mem_visibleIn]
  cases hk : kind.functionLike
  · simp [hB y]
  · simp only [↓reduceIte, dedup, List.mem_eraseDups, List.mem_append, List.mem_filter, ownNames, scopeOf,
      Block.params, Block.binds, Block.globals, Block.nonlocals, Block.uses, Block.walrus, hB y]
    by_cases h1 : y ∈ globals <;> by_cases h3 : y ∈ nonlocals <;>
      by_cases h4 : y ∈ params <;> by_cases h5 : y ∈ binds <;> by_cases h6 : y ∈ B <;> simp_all

mutual
/-- Every function-like block of the tree, with the names `bound` visible to it: its table entry lists as free
    exactly the names of `outerB` that are in `bound`. -/
theorem table_frees : (b : Block) → (parent : Nat) → (B B' eg : List String) →
    (∀ b' ∈ allBlocks b, b'.walrus = []) → (∀ x, x ∈ B' ↔ x ∈ B) → nlOkB B b = true →
    ∀ p ∈ ctxBlocks B b, p.1.kind.functionLike = true →
      ∃ info ∈ (analyzeBlock b parent B' eg).1, InfoFacts p.1 info ∧ ∀ x, x ∈ info.frees ↔ x ∈ outerB p.1 ∧ x ∈ p.2
  | .mk id kind name params binds globals nonlocals uses walrus children, parent, B, B', eg, hw, hB, hv => by
      have hw0 : walrus = [] := hw _ (mem_allBlocks_self _)
      subst hw0
      have hwc : ∀ b' ∈ allBlocksL children, b'.walrus = [] :=
        fun b'' hb'' => hw b'' (by simp only [allBlocks, List.mem_cons]; exact Or.inr hb'')
      obtain ⟨info, rest, he, hfacts, hrest⟩ := analyzeBlock_info id kind name params binds globals nonlocals uses children parent B' eg
      intro p hp hk
      simp only [ctxBlocks, List.mem_cons] at hp
      rw [he]
      rcases hp with rfl | hp
      · exact ⟨info, List.mem_cons_self, hfacts,
          analyzeBlock_headFrees id kind name params binds globals nonlocals uses children parent B B' eg hk hwc hB hv info rest he⟩
      · simp only [nlOkB, Bool.and_eq_true] at hv
        obtain ⟨i2, hi2, hf2⟩ := table_freesL children id (visibleIn kind params binds globals nonlocals B) _
          (if kind.isComp then eg else globals) hwc
          (mem_newBound id kind name params binds globals nonlocals uses B B' eg hB) hv.2 p hp hk
        exact ⟨i2, List.mem_cons_of_mem _ (by rw [hrest]; exact hi2), hf2⟩
theorem table_freesL : (bs : List Block) → (parent : Nat) → (B B' eg : List String) →
    (∀ b' ∈ allBlocksL bs, b'.walrus = []) → (∀ x, x ∈ B' ↔ x ∈ B) → nlOkBs B bs = true →
    ∀ p ∈ ctxBlocksL B bs, p.1.kind.functionLike = true →
      ∃ info ∈ (analyzeBlocks bs parent B' eg).1, InfoFacts p.1 info ∧ ∀ x, x ∈ info.frees ↔ x ∈ outerB p.1 ∧ x ∈ p.2
  | [], _, _, _, _, _, _, _ => by simp [ctxBlocksL]
  | b :: rest, parent, B, B', eg, hw, hB, hv => by
      intro p hp hk
      simp only [ctxBlocksL, List.mem_append] at hp
      simp only [nlOkBs, Bool.and_eq_true] at hv
      simp only [analyzeBlocks]
      rcases hp with hp | hp
      · obtain ⟨i, hi, hf⟩ := table_frees b parent B B' eg
          (fun b'' hb'' => hw b'' (by simp only [allBlocksL, List.mem_append]; exact Or.inl hb'')) hB hv.1 p hp hk
        exact ⟨i, List.mem_append_left _ hi, hf⟩
      · obtain ⟨i, hi, hf⟩ := table_freesL rest parent B B' eg
          (fun b'' hb'' => hw b'' (by simp only [allBlocksL, List.mem_append]; exact Or.inr hb'')) hB hv.2 p hp hk
        exact ⟨i, List.mem_append_right _ hi, hf⟩
end

mutual
/-- Every block of the tree occurs in `ctxBlocks` with some context. -/
theorem ctx_of_mem : (b : Block) → (B : List String) → ∀ b' ∈ allBlocks b, ∃ Bb, (b', Bb) ∈ ctxBlocks B b
  | .mk id kind name params binds globals nonlocals uses walrus children, B => by
      intro b' hb'
      simp only [allBlocks, List.mem_cons] at hb'
      rcases hb' with rfl | hb'
      · exact ⟨B, by simp [ctxBlocks]⟩
      · obtain ⟨Bb, h⟩ := ctx_of_memL children (visibleIn kind params binds globals nonlocals B) b' hb'
        exact ⟨Bb, by simp only [ctxBlocks, List.mem_cons]; exact Or.inr h⟩
theorem ctx_of_memL : (bs : List Block) → (B : List String) → ∀ b' ∈ allBlocksL bs, ∃ Bb, (b', Bb) ∈ ctxBlocksL B bs
  | [], _ => by simp [allBlocksL]
  | b :: rest, B => by
      intro b' hb'
      simp only [allBlocksL, List.mem_append] at hb'
      rcases hb' with hb' | hb'
      · obtain ⟨Bb, h⟩ := ctx_of_mem b B b' hb'
        exact ⟨Bb, by simp only [ctxBlocksL, List.mem_append]; exact Or.inl h⟩
      · obtain ⟨Bb, h⟩ := ctx_of_memL rest B b' hb'
        exact ⟨Bb, by simp only [ctxBlocksL, List.mem_append]; exact Or.inr h⟩
end

end Malt.Analysis
