import MaltModel.Proofs.JumpsSyntax
/-
How the syntactic predicates of the jump-lowering theorems (`mayBrk`, `topCont`, `hasRet`, `hasRaise`,
`hasBrk`, `hasCont`, `jumpFree`, `inS0`, `finOK`, `Clean`) travel through the three lowerings: what the
composition theorem (Props/C01Compose.lean) needs to feed the output of one pass to the next.
(The families of "P (lower b) = P b" lemmas are mechanical: one mutual structural induction each.)
-/
set_option linter.unusedSimpArgs false
namespace Malt.Sem.Jumps
open Malt.Sem

theorem hasRaiseB_append : ∀ (a b : List Stmt), hasRaiseB (a ++ b) = (hasRaiseB a || hasRaiseB b)
  | [], b => by simp [hasRaiseB]
  | s :: a, b => by simp [hasRaiseB, hasRaiseB_append a b, Bool.or_assoc]

theorem mayBrkB_append : ∀ (a b : List Stmt), mayBrkB (a ++ b) = (mayBrkB a || mayBrkB b)
  | [], b => by simp [mayBrkB]
  | s :: a, b => by simp [mayBrkB, mayBrkB_append a b, Bool.or_assoc]

theorem topContB_append : ∀ (a b : List Stmt), topContB (a ++ b) = (topContB a || topContB b)
  | [], b => by simp [topContB]
  | s :: a, b => by simp [topContB, topContB_append a b, Bool.or_assoc]

/-! ### break lowering -/

mutual
theorem brkS_hasRet (gen : Gen) (cur : Name) : ∀ (p : List Nat) (s : Stmt), hasRetB (brkS gen cur p s).1 = (hasRetS s)
  | p, .brk => by simp [brkS, hasRetB, hasRetS]
  | p, .cont => by simp [brkS, hasRetB, hasRetS]
  | p, .ret e => by simp [brkS, hasRetB, hasRetS]
  | p, .assign x e => by simp [brkS, hasRetB, hasRetS]
  | p, .expr e => by simp [brkS, hasRetB, hasRetS]
  | p, .pass => by simp [brkS, hasRetB, hasRetS]
  | p, .raise t => by simp [brkS, hasRetB, hasRetS]
  | p, .ifS c t e => by
      simp [brkS, hasRetB, hasRetS, brkB_hasRet gen cur (0 :: p) t, brkB_hasRet gen cur (1 :: p) e, Bool.or_assoc, Bool.or_comm, Bool.or_left_comm]
  | p, .whileS c b => by
      simp only [brkS]
      split <;> simp [hasRetB, hasRetS, guardE, brkB_hasRet gen (gen p) p b]
  | p, .forS x it ex b => by
      simp only [brkS]
      split <;> simp [hasRetB, hasRetS, brkB_hasRet gen (gen p) p b]
  | p, .tryS b hs f => by
      simp [brkS, hasRetB, hasRetS, brkB_hasRet gen cur (0 :: p) b, brkH_hasRet gen cur (1 :: p) hs,
        brkB_hasRet gen cur (2 :: p) f, Bool.or_assoc, Bool.or_comm, Bool.or_left_comm]
  | p, .withS t b => by simp [brkS, hasRetB, hasRetS, brkB_hasRet gen cur (0 :: p) b]
theorem brkB_hasRet (gen : Gen) (cur : Name) : ∀ (p : List Nat) (b : List Stmt), hasRetB (brkB gen cur p b).1 = (hasRetB b)
  | p, [] => by simp [brkB, hasRetB]
  | p, s :: rest => by
      simp [brkB, hasRetB, hasRetB_append, brkS_hasRet gen cur (rest.length :: p) s, brkB_hasRet gen cur p rest,
        Bool.or_assoc, Bool.or_comm, Bool.or_left_comm]
theorem brkH_hasRet (gen : Gen) (cur : Name) : ∀ (p : List Nat) (hs : List (Nat × List Stmt)),
    hasRetH (brkH gen cur p hs).1 = (hasRetH hs)
  | p, [] => by simp [brkH, hasRetH]
  | p, (t, b) :: hs => by
      simp [brkH, hasRetH, brkB_hasRet gen cur (hs.length :: p) b, brkH_hasRet gen cur p hs,
        Bool.or_assoc, Bool.or_comm, Bool.or_left_comm]
end


mutual
theorem brkS_hasRaise (gen : Gen) (cur : Name) : ∀ (p : List Nat) (s : Stmt), hasRaiseB (brkS gen cur p s).1 = (hasRaiseS s)
  | p, .brk => by simp [brkS, hasRaiseB, hasRaiseS]
  | p, .cont => by simp [brkS, hasRaiseB, hasRaiseS]
  | p, .ret e => by simp [brkS, hasRaiseB, hasRaiseS]
  | p, .assign x e => by simp [brkS, hasRaiseB, hasRaiseS]
  | p, .expr e => by simp [brkS, hasRaiseB, hasRaiseS]
  | p, .pass => by simp [brkS, hasRaiseB, hasRaiseS]
  | p, .raise t => by simp [brkS, hasRaiseB, hasRaiseS]
  | p, .ifS c t e => by
      simp [brkS, hasRaiseB, hasRaiseS, brkB_hasRaise gen cur (0 :: p) t, brkB_hasRaise gen cur (1 :: p) e, Bool.or_assoc, Bool.or_comm, Bool.or_left_comm]
  | p, .whileS c b => by
      simp only [brkS]
      split <;> simp [hasRaiseB, hasRaiseS, guardE, brkB_hasRaise gen (gen p) p b]
  | p, .forS x it ex b => by
      simp only [brkS]
      split <;> simp [hasRaiseB, hasRaiseS, brkB_hasRaise gen (gen p) p b]
  | p, .tryS b hs f => by
      simp [brkS, hasRaiseB, hasRaiseS, brkB_hasRaise gen cur (0 :: p) b, brkH_hasRaise gen cur (1 :: p) hs,
        brkB_hasRaise gen cur (2 :: p) f, Bool.or_assoc, Bool.or_comm, Bool.or_left_comm]
  | p, .withS t b => by simp [brkS, hasRaiseB, hasRaiseS, brkB_hasRaise gen cur (0 :: p) b]
theorem brkB_hasRaise (gen : Gen) (cur : Name) : ∀ (p : List Nat) (b : List Stmt), hasRaiseB (brkB gen cur p b).1 = (hasRaiseB b)
  | p, [] => by simp [brkB, hasRaiseB]
  | p, s :: rest => by
      simp [brkB, hasRaiseB, hasRaiseB_append, brkS_hasRaise gen cur (rest.length :: p) s, brkB_hasRaise gen cur p rest,
        Bool.or_assoc, Bool.or_comm, Bool.or_left_comm]
theorem brkH_hasRaise (gen : Gen) (cur : Name) : ∀ (p : List Nat) (hs : List (Nat × List Stmt)),
    hasRaiseH (brkH gen cur p hs).1 = (hasRaiseH hs)
  | p, [] => by simp [brkH, hasRaiseH]
  | p, (t, b) :: hs => by
      simp [brkH, hasRaiseH, brkB_hasRaise gen cur (hs.length :: p) b, brkH_hasRaise gen cur p hs,
        Bool.or_assoc, Bool.or_comm, Bool.or_left_comm]
end


mutual
theorem brkS_topCont (gen : Gen) (cur : Name) : ∀ (p : List Nat) (s : Stmt), topContB (brkS gen cur p s).1 = (topContS s || mayBrkS s)
  | p, .brk => by simp [brkS, topContB, topContS, mayBrkS, mayBrkB, mayBrkH]
  | p, .cont => by simp [brkS, topContB, topContS, mayBrkS, mayBrkB, mayBrkH]
  | p, .ret e => by simp [brkS, topContB, topContS, mayBrkS, mayBrkB, mayBrkH]
  | p, .assign x e => by simp [brkS, topContB, topContS, mayBrkS, mayBrkB, mayBrkH]
  | p, .expr e => by simp [brkS, topContB, topContS, mayBrkS, mayBrkB, mayBrkH]
  | p, .pass => by simp [brkS, topContB, topContS, mayBrkS, mayBrkB, mayBrkH]
  | p, .raise t => by simp [brkS, topContB, topContS, mayBrkS, mayBrkB, mayBrkH]
  | p, .ifS c t e => by
      simp [brkS, topContB, topContS, mayBrkS, mayBrkB, mayBrkH, brkB_topCont gen cur (0 :: p) t, brkB_topCont gen cur (1 :: p) e, Bool.or_assoc, Bool.or_comm, Bool.or_left_comm]
  | p, .whileS c b => by
      simp only [brkS]
      split <;> simp [topContB, topContS, mayBrkS, mayBrkB, mayBrkH, guardE, brkB_topCont gen (gen p) p b]
  | p, .forS x it ex b => by
      simp only [brkS]
      split <;> simp [topContB, topContS, mayBrkS, mayBrkB, mayBrkH, brkB_topCont gen (gen p) p b]
  | p, .tryS b hs f => by
      simp [brkS, topContB, topContS, mayBrkS, mayBrkB, mayBrkH, brkB_topCont gen cur (0 :: p) b, brkH_topCont gen cur (1 :: p) hs,
        brkB_topCont gen cur (2 :: p) f, Bool.or_assoc, Bool.or_comm, Bool.or_left_comm]
  | p, .withS t b => by simp [brkS, topContB, topContS, mayBrkS, mayBrkB, mayBrkH, brkB_topCont gen cur (0 :: p) b]
theorem brkB_topCont (gen : Gen) (cur : Name) : ∀ (p : List Nat) (b : List Stmt), topContB (brkB gen cur p b).1 = (topContB b || mayBrkB b)
  | p, [] => by simp [brkB, topContB, mayBrkS, mayBrkB, mayBrkH]
  | p, s :: rest => by
      simp [brkB, topContB, mayBrkS, mayBrkB, mayBrkH, topContB_append, brkS_topCont gen cur (rest.length :: p) s, brkB_topCont gen cur p rest,
        Bool.or_assoc, Bool.or_comm, Bool.or_left_comm]
theorem brkH_topCont (gen : Gen) (cur : Name) : ∀ (p : List Nat) (hs : List (Nat × List Stmt)),
    topContH (brkH gen cur p hs).1 = (topContH hs || mayBrkH hs)
  | p, [] => by simp [brkH, topContH, mayBrkS, mayBrkB, mayBrkH]
  | p, (t, b) :: hs => by
      simp [brkH, topContH, mayBrkS, mayBrkB, mayBrkH, brkB_topCont gen cur (hs.length :: p) b, brkH_topCont gen cur p hs,
        Bool.or_assoc, Bool.or_comm, Bool.or_left_comm]
end


mutual
theorem brkS_hasCont (gen : Gen) (cur : Name) : ∀ (p : List Nat) (s : Stmt), hasContB (brkS gen cur p s).1 = (hasContS s || hasBrkS s)
  | p, .brk => by simp [brkS, hasContB, hasContS, hasBrkS, hasBrkB, hasBrkH]
  | p, .cont => by simp [brkS, hasContB, hasContS, hasBrkS, hasBrkB, hasBrkH]
  | p, .ret e => by simp [brkS, hasContB, hasContS, hasBrkS, hasBrkB, hasBrkH]
  | p, .assign x e => by simp [brkS, hasContB, hasContS, hasBrkS, hasBrkB, hasBrkH]
  | p, .expr e => by simp [brkS, hasContB, hasContS, hasBrkS, hasBrkB, hasBrkH]
  | p, .pass => by simp [brkS, hasContB, hasContS, hasBrkS, hasBrkB, hasBrkH]
  | p, .raise t => by simp [brkS, hasContB, hasContS, hasBrkS, hasBrkB, hasBrkH]
  | p, .ifS c t e => by
      simp [brkS, hasContB, hasContS, hasBrkS, hasBrkB, hasBrkH, brkB_hasCont gen cur (0 :: p) t, brkB_hasCont gen cur (1 :: p) e, Bool.or_assoc, Bool.or_comm, Bool.or_left_comm]
  | p, .whileS c b => by
      simp only [brkS]
      split <;> simp [hasContB, hasContS, hasBrkS, hasBrkB, hasBrkH, guardE, brkB_hasCont gen (gen p) p b]
  | p, .forS x it ex b => by
      simp only [brkS]
      split <;> simp [hasContB, hasContS, hasBrkS, hasBrkB, hasBrkH, brkB_hasCont gen (gen p) p b]
  | p, .tryS b hs f => by
      simp [brkS, hasContB, hasContS, hasBrkS, hasBrkB, hasBrkH, brkB_hasCont gen cur (0 :: p) b, brkH_hasCont gen cur (1 :: p) hs,
        brkB_hasCont gen cur (2 :: p) f, Bool.or_assoc, Bool.or_comm, Bool.or_left_comm]
  | p, .withS t b => by simp [brkS, hasContB, hasContS, hasBrkS, hasBrkB, hasBrkH, brkB_hasCont gen cur (0 :: p) b]
theorem brkB_hasCont (gen : Gen) (cur : Name) : ∀ (p : List Nat) (b : List Stmt), hasContB (brkB gen cur p b).1 = (hasContB b || hasBrkB b)
  | p, [] => by simp [brkB, hasContB, hasBrkS, hasBrkB, hasBrkH]
  | p, s :: rest => by
      simp [brkB, hasContB, hasBrkS, hasBrkB, hasBrkH, hasContB_append, brkS_hasCont gen cur (rest.length :: p) s, brkB_hasCont gen cur p rest,
        Bool.or_assoc, Bool.or_comm, Bool.or_left_comm]
theorem brkH_hasCont (gen : Gen) (cur : Name) : ∀ (p : List Nat) (hs : List (Nat × List Stmt)),
    hasContH (brkH gen cur p hs).1 = (hasContH hs || hasBrkH hs)
  | p, [] => by simp [brkH, hasContH, hasBrkS, hasBrkB, hasBrkH]
  | p, (t, b) :: hs => by
      simp [brkH, hasContH, hasBrkS, hasBrkB, hasBrkH, brkB_hasCont gen cur (hs.length :: p) b, brkH_hasCont gen cur p hs,
        Bool.or_assoc, Bool.or_comm, Bool.or_left_comm]
end

/-! ### continue lowering -/

mutual
theorem cntS_mayBrk (gen : Gen) (cur : Name) : ∀ (p : List Nat) (s : Stmt), mayBrkB (cntS gen cur p s).1 = mayBrkS s
  | p, .brk => by simp [cntS, mayBrkB, mayBrkS]
  | p, .cont => by simp [cntS, mayBrkB, mayBrkS]
  | p, .ret e => by simp [cntS, mayBrkB, mayBrkS]
  | p, .assign x e => by simp [cntS, mayBrkB, mayBrkS]
  | p, .expr e => by simp [cntS, mayBrkB, mayBrkS]
  | p, .pass => by simp [cntS, mayBrkB, mayBrkS]
  | p, .raise t => by simp [cntS, mayBrkB, mayBrkS]
  | p, .ifS c t e => by
      simp [cntS, mayBrkB, mayBrkS, cntB_mayBrk gen cur (0 :: p) false t, cntB_mayBrk gen cur (1 :: p) false e]
  | p, .whileS c b => by
      simp only [cntS, mayBrkB, mayBrkS]
      first | rfl | (split <;> simp [mayBrkB, mayBrkS, cntB_mayBrk gen (gen p) p false b])
  | p, .forS x it ex b => by
      simp only [cntS, mayBrkB, mayBrkS]
      first | rfl | (split <;> simp [mayBrkB, mayBrkS, cntB_mayBrk gen (gen p) p false b])
  | p, .tryS b hs f => by
      simp [cntS, mayBrkB, mayBrkS, cntB_mayBrk gen cur (0 :: p) false b, cntH_mayBrk gen cur (1 :: p) hs,
        cntB_mayBrk gen cur (2 :: p) false f]
  | p, .withS t b => by simp [cntS, mayBrkB, mayBrkS, cntB_mayBrk gen cur (0 :: p) false b]
theorem cntB_mayBrk (gen : Gen) (cur : Name) : ∀ (p : List Nat) (g : Bool) (b : List Stmt),
    mayBrkB (cntB gen cur p g b).1 = mayBrkB b
  | p, g, [] => by simp [cntB, mayBrkB]
  | p, g, s :: rest => by
      have h1 := cntS_mayBrk gen cur (rest.length :: p) s
      have h2 := cntB_mayBrk gen cur p (cntS gen cur (rest.length :: p) s).2 rest
      simp only [cntB]
      split <;> simp [mayBrkB, mayBrkS, ifNot, mayBrkB_append, h1, h2]
theorem cntH_mayBrk (gen : Gen) (cur : Name) : ∀ (p : List Nat) (hs : List (Nat × List Stmt)),
    mayBrkH (cntH gen cur p hs).1 = mayBrkH hs
  | p, [] => by simp [cntH, mayBrkH]
  | p, (t, b) :: hs => by
      simp [cntH, mayBrkH, cntB_mayBrk gen cur (hs.length :: p) false b, cntH_mayBrk gen cur p hs]
end


mutual
theorem cntS_hasRet (gen : Gen) (cur : Name) : ∀ (p : List Nat) (s : Stmt), hasRetB (cntS gen cur p s).1 = hasRetS s
  | p, .brk => by simp [cntS, hasRetB, hasRetS]
  | p, .cont => by simp [cntS, hasRetB, hasRetS]
  | p, .ret e => by simp [cntS, hasRetB, hasRetS]
  | p, .assign x e => by simp [cntS, hasRetB, hasRetS]
  | p, .expr e => by simp [cntS, hasRetB, hasRetS]
  | p, .pass => by simp [cntS, hasRetB, hasRetS]
  | p, .raise t => by simp [cntS, hasRetB, hasRetS]
  | p, .ifS c t e => by
      simp [cntS, hasRetB, hasRetS, cntB_hasRet gen cur (0 :: p) false t, cntB_hasRet gen cur (1 :: p) false e]
  | p, .whileS c b => by
      simp only [cntS, hasRetB, hasRetS]
      first | rfl | (split <;> simp [hasRetB, hasRetS, cntB_hasRet gen (gen p) p false b])
  | p, .forS x it ex b => by
      simp only [cntS, hasRetB, hasRetS]
      first | rfl | (split <;> simp [hasRetB, hasRetS, cntB_hasRet gen (gen p) p false b])
  | p, .tryS b hs f => by
      simp [cntS, hasRetB, hasRetS, cntB_hasRet gen cur (0 :: p) false b, cntH_hasRet gen cur (1 :: p) hs,
        cntB_hasRet gen cur (2 :: p) false f]
  | p, .withS t b => by simp [cntS, hasRetB, hasRetS, cntB_hasRet gen cur (0 :: p) false b]
theorem cntB_hasRet (gen : Gen) (cur : Name) : ∀ (p : List Nat) (g : Bool) (b : List Stmt),
    hasRetB (cntB gen cur p g b).1 = hasRetB b
  | p, g, [] => by simp [cntB, hasRetB]
  | p, g, s :: rest => by
      have h1 := cntS_hasRet gen cur (rest.length :: p) s
      have h2 := cntB_hasRet gen cur p (cntS gen cur (rest.length :: p) s).2 rest
      simp only [cntB]
      split <;> simp [hasRetB, hasRetS, ifNot, hasRetB_append, h1, h2]
theorem cntH_hasRet (gen : Gen) (cur : Name) : ∀ (p : List Nat) (hs : List (Nat × List Stmt)),
    hasRetH (cntH gen cur p hs).1 = hasRetH hs
  | p, [] => by simp [cntH, hasRetH]
  | p, (t, b) :: hs => by
      simp [cntH, hasRetH, cntB_hasRet gen cur (hs.length :: p) false b, cntH_hasRet gen cur p hs]
end


mutual
theorem cntS_hasRaise (gen : Gen) (cur : Name) : ∀ (p : List Nat) (s : Stmt), hasRaiseB (cntS gen cur p s).1 = hasRaiseS s
  | p, .brk => by simp [cntS, hasRaiseB, hasRaiseS]
  | p, .cont => by simp [cntS, hasRaiseB, hasRaiseS]
  | p, .ret e => by simp [cntS, hasRaiseB, hasRaiseS]
  | p, .assign x e => by simp [cntS, hasRaiseB, hasRaiseS]
  | p, .expr e => by simp [cntS, hasRaiseB, hasRaiseS]
  | p, .pass => by simp [cntS, hasRaiseB, hasRaiseS]
  | p, .raise t => by simp [cntS, hasRaiseB, hasRaiseS]
  | p, .ifS c t e => by
      simp [cntS, hasRaiseB, hasRaiseS, cntB_hasRaise gen cur (0 :: p) false t, cntB_hasRaise gen cur (1 :: p) false e]
  | p, .whileS c b => by
      simp only [cntS, hasRaiseB, hasRaiseS]
      first | rfl | (split <;> simp [hasRaiseB, hasRaiseS, cntB_hasRaise gen (gen p) p false b])
  | p, .forS x it ex b => by
      simp only [cntS, hasRaiseB, hasRaiseS]
      first | rfl | (split <;> simp [hasRaiseB, hasRaiseS, cntB_hasRaise gen (gen p) p false b])
  | p, .tryS b hs f => by
      simp [cntS, hasRaiseB, hasRaiseS, cntB_hasRaise gen cur (0 :: p) false b, cntH_hasRaise gen cur (1 :: p) hs,
        cntB_hasRaise gen cur (2 :: p) false f]
  | p, .withS t b => by simp [cntS, hasRaiseB, hasRaiseS, cntB_hasRaise gen cur (0 :: p) false b]
theorem cntB_hasRaise (gen : Gen) (cur : Name) : ∀ (p : List Nat) (g : Bool) (b : List Stmt),
    hasRaiseB (cntB gen cur p g b).1 = hasRaiseB b
  | p, g, [] => by simp [cntB, hasRaiseB]
  | p, g, s :: rest => by
      have h1 := cntS_hasRaise gen cur (rest.length :: p) s
      have h2 := cntB_hasRaise gen cur p (cntS gen cur (rest.length :: p) s).2 rest
      simp only [cntB]
      split <;> simp [hasRaiseB, hasRaiseS, ifNot, hasRaiseB_append, h1, h2]
theorem cntH_hasRaise (gen : Gen) (cur : Name) : ∀ (p : List Nat) (hs : List (Nat × List Stmt)),
    hasRaiseH (cntH gen cur p hs).1 = hasRaiseH hs
  | p, [] => by simp [cntH, hasRaiseH]
  | p, (t, b) :: hs => by
      simp [cntH, hasRaiseH, cntB_hasRaise gen cur (hs.length :: p) false b, cntH_hasRaise gen cur p hs]
end


mutual
theorem cntS_hasBrk (gen : Gen) (cur : Name) : ∀ (p : List Nat) (s : Stmt), hasBrkB (cntS gen cur p s).1 = hasBrkS s
  | p, .brk => by simp [cntS, hasBrkB, hasBrkS]
  | p, .cont => by simp [cntS, hasBrkB, hasBrkS]
  | p, .ret e => by simp [cntS, hasBrkB, hasBrkS]
  | p, .assign x e => by simp [cntS, hasBrkB, hasBrkS]
  | p, .expr e => by simp [cntS, hasBrkB, hasBrkS]
  | p, .pass => by simp [cntS, hasBrkB, hasBrkS]
  | p, .raise t => by simp [cntS, hasBrkB, hasBrkS]
  | p, .ifS c t e => by
      simp [cntS, hasBrkB, hasBrkS, cntB_hasBrk gen cur (0 :: p) false t, cntB_hasBrk gen cur (1 :: p) false e]
  | p, .whileS c b => by
      simp only [cntS, hasBrkB, hasBrkS]
      first | rfl | (split <;> simp [hasBrkB, hasBrkS, cntB_hasBrk gen (gen p) p false b])
  | p, .forS x it ex b => by
      simp only [cntS, hasBrkB, hasBrkS]
      first | rfl | (split <;> simp [hasBrkB, hasBrkS, cntB_hasBrk gen (gen p) p false b])
  | p, .tryS b hs f => by
      simp [cntS, hasBrkB, hasBrkS, cntB_hasBrk gen cur (0 :: p) false b, cntH_hasBrk gen cur (1 :: p) hs,
        cntB_hasBrk gen cur (2 :: p) false f]
  | p, .withS t b => by simp [cntS, hasBrkB, hasBrkS, cntB_hasBrk gen cur (0 :: p) false b]
theorem cntB_hasBrk (gen : Gen) (cur : Name) : ∀ (p : List Nat) (g : Bool) (b : List Stmt),
    hasBrkB (cntB gen cur p g b).1 = hasBrkB b
  | p, g, [] => by simp [cntB, hasBrkB]
  | p, g, s :: rest => by
      have h1 := cntS_hasBrk gen cur (rest.length :: p) s
      have h2 := cntB_hasBrk gen cur p (cntS gen cur (rest.length :: p) s).2 rest
      simp only [cntB]
      split <;> simp [hasBrkB, hasBrkS, ifNot, hasBrkB_append, h1, h2]
theorem cntH_hasBrk (gen : Gen) (cur : Name) : ∀ (p : List Nat) (hs : List (Nat × List Stmt)),
    hasBrkH (cntH gen cur p hs).1 = hasBrkH hs
  | p, [] => by simp [cntH, hasBrkH]
  | p, (t, b) :: hs => by
      simp [cntH, hasBrkH, cntB_hasBrk gen cur (hs.length :: p) false b, cntH_hasBrk gen cur p hs]
end

/-! ### return lowering -/

mutual
theorem retS_hasBrk (dr rv : Name) : ∀ (u : Bool) (s : Stmt), hasBrkB (retS dr rv u s).1 = hasBrkS s
  | u, .brk => by simp [retS, hasBrkB, hasBrkS]
  | u, .cont => by simp [retS, hasBrkB, hasBrkS]
  | u, .ret e => by simp [retS, hasBrkB, hasBrkS]
  | u, .assign x e => by simp [retS, hasBrkB, hasBrkS]
  | u, .expr e => by simp [retS, hasBrkB, hasBrkS]
  | u, .pass => by simp [retS, hasBrkB, hasBrkS]
  | u, .raise t => by simp [retS, hasBrkB, hasBrkS]
  | u, .ifS c t e => by
      simp [retS, hasBrkB, hasBrkS, retB_hasBrk dr rv false false t, retB_hasBrk dr rv false false e]
  | u, .whileS c b => by simp [retS, hasBrkB, hasBrkS, retB_hasBrk dr rv false false b]
  | u, .forS x it ex b => by simp [retS, hasBrkB, hasBrkS, retB_hasBrk dr rv false false b]
  | u, .tryS b hs f => by
      simp [retS, hasBrkB, hasBrkS, retB_hasBrk dr rv false false b, retH_hasBrk dr rv hs, retB_hasBrk dr rv false false f]
  | u, .withS t b => by simp [retS, hasBrkB, hasBrkS, retB_hasBrk dr rv false false b]
theorem retB_hasBrk (dr rv : Name) : ∀ (g u : Bool) (b : List Stmt), hasBrkB (retB dr rv g u b).1 = hasBrkB b
  | g, u, [] => by simp [retB, hasBrkB]
  | g, u, s :: rest => by
      have h1 := retS_hasBrk dr rv u s
      have h2 := retB_hasBrk dr rv (retS dr rv u s).2 (u || (retS dr rv u s).2) rest
      simp only [retB]
      split <;> simp [hasBrkB, hasBrkS, ifNot, hasBrkB_append, h1, h2]
theorem retH_hasBrk (dr rv : Name) : ∀ (hs : List (Nat × List Stmt)), hasBrkH (retH dr rv hs).1 = hasBrkH hs
  | [] => by simp [retH, hasBrkH]
  | (t, b) :: hs => by
      simp [retH, hasBrkH, retB_hasBrk dr rv false false b, retH_hasBrk dr rv hs]
end


mutual
theorem retS_hasCont (dr rv : Name) : ∀ (u : Bool) (s : Stmt), hasContB (retS dr rv u s).1 = hasContS s
  | u, .brk => by simp [retS, hasContB, hasContS]
  | u, .cont => by simp [retS, hasContB, hasContS]
  | u, .ret e => by simp [retS, hasContB, hasContS]
  | u, .assign x e => by simp [retS, hasContB, hasContS]
  | u, .expr e => by simp [retS, hasContB, hasContS]
  | u, .pass => by simp [retS, hasContB, hasContS]
  | u, .raise t => by simp [retS, hasContB, hasContS]
  | u, .ifS c t e => by
      simp [retS, hasContB, hasContS, retB_hasCont dr rv false false t, retB_hasCont dr rv false false e]
  | u, .whileS c b => by simp [retS, hasContB, hasContS, retB_hasCont dr rv false false b]
  | u, .forS x it ex b => by simp [retS, hasContB, hasContS, retB_hasCont dr rv false false b]
  | u, .tryS b hs f => by
      simp [retS, hasContB, hasContS, retB_hasCont dr rv false false b, retH_hasCont dr rv hs, retB_hasCont dr rv false false f]
  | u, .withS t b => by simp [retS, hasContB, hasContS, retB_hasCont dr rv false false b]
theorem retB_hasCont (dr rv : Name) : ∀ (g u : Bool) (b : List Stmt), hasContB (retB dr rv g u b).1 = hasContB b
  | g, u, [] => by simp [retB, hasContB]
  | g, u, s :: rest => by
      have h1 := retS_hasCont dr rv u s
      have h2 := retB_hasCont dr rv (retS dr rv u s).2 (u || (retS dr rv u s).2) rest
      simp only [retB]
      split <;> simp [hasContB, hasContS, ifNot, hasContB_append, h1, h2]
theorem retH_hasCont (dr rv : Name) : ∀ (hs : List (Nat × List Stmt)), hasContH (retH dr rv hs).1 = hasContH hs
  | [] => by simp [retH, hasContH]
  | (t, b) :: hs => by
      simp [retH, hasContH, retB_hasCont dr rv false false b, retH_hasCont dr rv hs]
end


end Malt.Sem.Jumps
