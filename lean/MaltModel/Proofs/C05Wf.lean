import MaltModel.Proofs.C05Frame
/-!
# C05: every graph the model builds is well-formed

`Inv b`: every node id stored anywhere in the builder is an indexed node, edge targets are never the head, and every
indexed node is reachable from a root (a node created while the leaf set was empty).  Preserved by every builder step
as long as no Python exception (`err`) occurred; `WellFormed b.build` follows.
-/
namespace Malt.Cfg
open Malt.Py

theorem mem_aset {β} {k : Nat} {v : β} {m : List (Nat × β)} {p : Nat × β} (h : p ∈ aset k v m) : p = (k, v) ∨ p ∈ m := by
  simp only [aset, adel, List.mem_cons, List.mem_filter] at h
  exact h.imp id (fun h => h.1)

theorem mem_adel {β} {k : Nat} {m : List (Nat × β)} {p : Nat × β} (h : p ∈ adel k m) : p ∈ m := by
  simp only [adel, List.mem_filter] at h
  exact h.1

theorem aget_mem {β} {k : Nat} {v : β} : ∀ {m : List (Nat × β)}, aget k m = some v → (k, v) ∈ m := by
  intro m
  induction m with
  | nil => intro h; simp [aget] at h
  | cons p m ih =>
    intro h
    simp only [aget, List.lookup] at h
    split at h
    · rename_i heq
      simp only [Option.some.injEq] at h
      have : k = p.1 := by simpa using heq
      subst h; subst this
      exact List.mem_cons_self ..
    · exact List.mem_cons_of_mem _ (ih h)

theorem reach_mono {E E' : List (Nat × Nat)} (h : ∀ e, e ∈ E → e ∈ E') {a b : Nat} (hr : Reach E a b) : Reach E' a b := by
  induction hr with
  | refl => exact Reach.refl _
  | step _ he ih => exact Reach.step ih (h _ he)

structure Inv (b : B) : Prop where
  nodup : b.nodes.Nodup
  headEq : b.head = b.nodes.head?
  rootsSub : ∀ x, x ∈ b.roots → x ∈ b.nodes
  headRoot : ∀ e, b.head = some e → e ∈ b.roots
  edgesSub : ∀ a c, (a, c) ∈ b.edges → a ∈ b.nodes ∧ c ∈ b.nodes ∧ b.head ≠ some c
  heapSub : ∀ r x, x ∈ b.deref r → x ∈ b.nodes
  exitsSub : ∀ k l, (k, l) ∈ b.exits → ∀ x, x ∈ l → x ∈ b.nodes
  contSub : ∀ k l, (k, l) ∈ b.continues → ∀ x, x ∈ l → x ∈ b.nodes
  raisesSub : ∀ k l, (k, l) ∈ b.raises → ∀ x, x ∈ l → x ∈ b.nodes
  entrySub : ∀ k e, (k, e) ∈ b.sectionEntry → e ∈ b.nodes ∧ b.head ≠ some e
  finSub : ∀ k beg ends, (k, (some beg, ends)) ∈ b.finallySub → beg ∈ b.nodes ∧ b.head ≠ some beg
  errorsSub : ∀ x, x ∈ b.errors → x ∈ b.nodes
  rooted : ∀ n, n ∈ b.nodes → ∃ r, r ∈ b.roots ∧ Reach b.edges r n
  pend : b.pendingFinally ≠ [] → b.nodes ≠ []

/-- A step that changes none of the fields `Inv` talks about. -/
theorem Inv.congr {b b' : B} (h : Inv b) (e1 : b'.nodes = b.nodes) (e2 : b'.head = b.head) (e3 : b'.roots = b.roots)
    (e4 : b'.edges = b.edges) (e5 : b'.heap = b.heap) (e6 : b'.exits = b.exits) (e7 : b'.continues = b.continues)
    (e8 : b'.raises = b.raises) (e9 : b'.sectionEntry = b.sectionEntry) (e10 : b'.finallySub = b.finallySub)
    (e11 : b'.errors = b.errors) (e12 : b'.pendingFinally = b.pendingFinally) : Inv b' := by
  have hd : ∀ r, b'.deref r = b.deref r := fun r => by simp [B.deref, e5]
  refine ⟨by rw [e1]; exact h.nodup, by rw [e1, e2]; exact h.headEq, by rw [e1, e3]; exact h.rootsSub,
    by rw [e2, e3]; exact h.headRoot, by rw [e1, e2, e4]; exact h.edgesSub, by intro r x hx; rw [hd] at hx; rw [e1]; exact h.heapSub r x hx,
    by rw [e1, e6]; exact h.exitsSub, by rw [e1, e7]; exact h.contSub, by rw [e1, e8]; exact h.raisesSub,
    by rw [e1, e2, e9]; exact h.entrySub, by rw [e1, e2, e10]; exact h.finSub, by rw [e1, e11]; exact h.errorsSub,
    by rw [e1, e3, e4]; exact h.rooted, by rw [e1, e12]; exact h.pend⟩

namespace B

theorem check_ok {b : B} {c : Bool} {m : String} (h : (b.check c m).err = none) : b.check c m = b ∧ c = false := by
  unfold check at h ⊢
  cases c
  · exact ⟨rfl, rfl⟩
  · exact (err_fail b m h).elim

end B

/-! primitive steps -/

theorem inv_connect {b : B} (h : Inv b) (first : List Nat) (second : Nat) (h1 : ∀ x, x ∈ first → x ∈ b.nodes)
    (h2 : second ∈ b.nodes) (h3 : b.head ≠ some second) : Inv (b.connect first second) := by
  have hE : ∀ e, e ∈ b.edges → e ∈ (b.connect first second).edges := fun e he => List.mem_append.mpr (Or.inl he)
  refine ⟨h.nodup, h.headEq, h.rootsSub, h.headRoot, ?_, h.heapSub, h.exitsSub, h.contSub, h.raisesSub, h.entrySub, h.finSub,
    h.errorsSub, ?_, h.pend⟩
  · intro a c hac
    simp only [B.connect, List.mem_append, List.mem_map] at hac
    rcases hac with hac | ⟨x, hx, he⟩
    · exact h.edgesSub a c hac
    · cases he; exact ⟨h1 _ hx, h2, h3⟩
  · intro n hn
    obtain ⟨r, hr, hreach⟩ := h.rooted n hn
    exact ⟨r, hr, reach_mono hE hreach⟩

theorem inv_setLeavesFresh {b : B} (h : Inv b) (s : List Nat) (hs : ∀ x, x ∈ s → x ∈ b.nodes) : Inv (b.setLeavesFresh s) := by
  refine ⟨h.nodup, h.headEq, h.rootsSub, h.headRoot, h.edgesSub, ?_, h.exitsSub, h.contSub, h.raisesSub, h.entrySub, h.finSub,
    h.errorsSub, h.rooted, h.pend⟩
  intro r x hx
  simp only [B.deref, B.setLeavesFresh, List.getD_eq_getElem?_getD] at hx
  by_cases hr : r < b.heap.length
  · rw [List.getElem?_append_left hr] at hx
    exact h.heapSub r x (by simpa [B.deref, List.getD_eq_getElem?_getD] using hx)
  · by_cases hr2 : r = b.heap.length
    · subst hr2; simp at hx; exact hs x hx
    · have : b.heap.length + 1 ≤ r := by
        have h1 : b.heap.length ≤ r := Nat.le_of_not_lt hr
        exact Nat.lt_of_le_of_ne h1 (fun e => hr2 e.symm)
      rw [List.getElem?_eq_none (by simpa using this)] at hx
      simp at hx

theorem inv_leavesUnion {b : B} (h : Inv b) (s : List Nat) (hs : ∀ x, x ∈ s → x ∈ b.nodes) : Inv (b.leavesUnion s) := by
  refine ⟨h.nodup, h.headEq, h.rootsSub, h.headRoot, h.edgesSub, ?_, h.exitsSub, h.contSub, h.raisesSub, h.entrySub, h.finSub,
    h.errorsSub, h.rooted, h.pend⟩
  intro r x hx
  rw [B.deref_leavesUnion] at hx
  split at hx
  · rw [mem_sunion] at hx
    exact hx.elim (h.heapSub _ x) (hs x)
  · exact h.heapSub r x hx

theorem inv_putExits {b : B} (h : Inv b) (k : Nat) (l : List Nat) (hl : ∀ x, x ∈ l → x ∈ b.nodes) : Inv (b.putExits k l) := by
  refine ⟨h.nodup, h.headEq, h.rootsSub, h.headRoot, h.edgesSub, h.heapSub, ?_, h.contSub, h.raisesSub, h.entrySub, h.finSub,
    h.errorsSub, h.rooted, h.pend⟩
  intro k' l' hm
  rcases mem_aset hm with hm | hm
  · cases hm; exact hl
  · exact h.exitsSub k' l' hm

theorem inv_delExits {b : B} (h : Inv b) (k : Nat) : Inv (b.delExits k) :=
  ⟨h.nodup, h.headEq, h.rootsSub, h.headRoot, h.edgesSub, h.heapSub, fun k' l' hm => h.exitsSub k' l' (mem_adel hm), h.contSub,
   h.raisesSub, h.entrySub, h.finSub, h.errorsSub, h.rooted, h.pend⟩

theorem inv_putContinues {b : B} (h : Inv b) (k : Nat) (l : List Nat) (hl : ∀ x, x ∈ l → x ∈ b.nodes) : Inv (b.putContinues k l) := by
  refine ⟨h.nodup, h.headEq, h.rootsSub, h.headRoot, h.edgesSub, h.heapSub, h.exitsSub, ?_, h.raisesSub, h.entrySub, h.finSub,
    h.errorsSub, h.rooted, h.pend⟩
  intro k' l' hm
  rcases mem_aset hm with hm | hm
  · cases hm; exact hl
  · exact h.contSub k' l' hm

theorem inv_putSectionEntry {b : B} (h : Inv b) (k e : Nat) (h1 : e ∈ b.nodes) (h2 : b.head ≠ some e) :
    Inv (b.putSectionEntry k e) := by
  refine ⟨h.nodup, h.headEq, h.rootsSub, h.headRoot, h.edgesSub, h.heapSub, h.exitsSub, h.contSub, h.raisesSub, ?_, h.finSub,
    h.errorsSub, h.rooted, h.pend⟩
  intro k' e' hm
  rcases mem_aset hm with hm | hm
  · cases hm; exact ⟨h1, h2⟩
  · exact h.entrySub k' e' hm

theorem inv_delLoopKeys {b : B} (h : Inv b) (k : Nat) : Inv (b.delLoopKeys k) :=
  ⟨h.nodup, h.headEq, h.rootsSub, h.headRoot, h.edgesSub, h.heapSub, h.exitsSub, fun k' l' hm => h.contSub k' l' (mem_adel hm),
   h.raisesSub, fun k' e' hm => h.entrySub k' e' (mem_adel hm), h.finSub, h.errorsSub, h.rooted, h.pend⟩

theorem inv_pushError {b : B} (h : Inv b) (n : Nat) (hn : n ∈ b.nodes) : Inv (b.pushError n) := by
  refine ⟨h.nodup, h.headEq, h.rootsSub, h.headRoot, h.edgesSub, h.heapSub, h.exitsSub, h.contSub, h.raisesSub, h.entrySub, h.finSub,
    ?_, h.rooted, h.pend⟩
  intro x hx
  simp only [B.pushError, List.mem_append, List.mem_singleton] at hx
  rcases hx with hx | hx
  · exact h.errorsSub x hx
  · subst hx; exact hn

theorem inv_setRaises {b : B} (h : Inv b) (rs : List (Nat × List Nat)) (hr : ∀ k l, (k, l) ∈ rs → ∀ x, x ∈ l → x ∈ b.nodes) :
    Inv (b.setRaises rs) :=
  ⟨h.nodup, h.headEq, h.rootsSub, h.headRoot, h.edgesSub, h.heapSub, h.exitsSub, h.contSub, hr, h.entrySub, h.finSub,
   h.errorsSub, h.rooted, h.pend⟩


/-- The heart: a new node, connected from every leaf. -/
theorem inv_addNewNode {b : B} (h : Inv b) (n : Nat) (hn : n ∉ b.nodes) : Inv ((b.pushNode n).connect b.leafSet n) := by
  have hleaf : ∀ x, x ∈ b.leafSet → x ∈ b.nodes := fun x hx => h.heapSub _ x hx
  -- when some node exists the head does not change and is not the new node
  have hhead : b.nodes ≠ [] → ∃ h0, b.head = some h0 ∧ h0 ∈ b.nodes ∧ (b.head.or (some n)) = some h0 ∧ h0 ≠ n := by
    intro hne
    obtain ⟨h0, rest, hnodes⟩ := List.exists_cons_of_ne_nil hne
    have hh : b.head = some h0 := by rw [h.headEq, hnodes]; rfl
    have hm : h0 ∈ b.nodes := by rw [hnodes]; exact List.mem_cons_self ..
    exact ⟨h0, hh, hm, by simp [hh, Option.or], fun e => hn (e ▸ hm)⟩
  have hE : ∀ e, e ∈ b.edges → e ∈ ((b.pushNode n).connect b.leafSet n).edges := fun e he => List.mem_append.mpr (Or.inl he)
  refine ⟨?_, ?_, ?_, ?_, ?_, ?_, ?_, ?_, ?_, ?_, ?_, ?_, ?_, ?_⟩
  · show (b.nodes ++ [n]).Nodup
    exact List.nodup_append.mpr ⟨h.nodup, by simp, fun x hx y hy => by
      simp only [List.mem_singleton] at hy; subst hy; exact fun e => hn (e ▸ hx)⟩
  · show b.head.or (some n) = (b.nodes ++ [n]).head?
    cases hnodes : b.nodes with
    | nil => have : b.head = none := by rw [h.headEq, hnodes]; rfl
             simp [this, Option.or]
    | cons h0 rest => have : b.head = some h0 := by rw [h.headEq, hnodes]; rfl
                      simp [this, Option.or]
  · intro x hx
    show x ∈ b.nodes ++ [n]
    have hx' : x ∈ (if b.leafSet.isEmpty then b.roots ++ [n] else b.roots) := hx
    split at hx'
    · rcases List.mem_append.mp hx' with hx' | hx'
      · exact List.mem_append.mpr (Or.inl (h.rootsSub x hx'))
      · exact List.mem_append.mpr (Or.inr hx')
    · exact List.mem_append.mpr (Or.inl (h.rootsSub x hx'))
  · intro e he
    show e ∈ (if b.leafSet.isEmpty then b.roots ++ [n] else b.roots)
    have he' : b.head.or (some n) = some e := he
    by_cases hne : b.nodes = []
    · have hh : b.head = none := by rw [h.headEq, hne]; rfl
      have hl : b.leafSet = [] := by
        cases hls : b.leafSet with
        | nil => rfl
        | cons x r => have := hleaf x (by rw [hls]; exact List.mem_cons_self ..); rw [hne] at this; cases this
      simp only [hh, Option.or, Option.some.injEq] at he'
      subst he'
      simp [hl]
    · obtain ⟨h0, hh, _, hor, _⟩ := hhead hne
      rw [hor] at he'; cases he'
      split
      · exact List.mem_append.mpr (Or.inl (h.headRoot _ hh))
      · exact h.headRoot _ hh
  · intro a c hac
    show a ∈ b.nodes ++ [n] ∧ c ∈ b.nodes ++ [n] ∧ b.head.or (some n) ≠ some c
    have hac' : (a, c) ∈ b.edges ++ b.leafSet.map (fun x => (x, n)) := hac
    rcases List.mem_append.mp hac' with hac' | hac'
    · obtain ⟨ha, hc, hh⟩ := h.edgesSub a c hac'
      have hne : b.nodes ≠ [] := fun e => by rw [e] at ha; cases ha
      obtain ⟨h0, hh0, _, hor, _⟩ := hhead hne
      refine ⟨List.mem_append.mpr (Or.inl ha), List.mem_append.mpr (Or.inl hc), ?_⟩
      rw [hor, ← hh0]; exact hh
    · simp only [List.mem_map] at hac'
      obtain ⟨x, hx, he⟩ := hac'
      cases he
      have ha := hleaf _ hx
      have hne : b.nodes ≠ [] := fun e => by rw [e] at ha; cases ha
      obtain ⟨h0, _, _, hor, hne0⟩ := hhead hne
      refine ⟨List.mem_append.mpr (Or.inl ha), List.mem_append.mpr (Or.inr (List.mem_singleton.mpr rfl)), ?_⟩
      rw [hor]; intro e; cases e; exact hne0 rfl
  · intro r x hx
    exact List.mem_append.mpr (Or.inl (h.heapSub r x hx))
  · intro k l hm x hx; exact List.mem_append.mpr (Or.inl (h.exitsSub k l hm x hx))
  · intro k l hm x hx; exact List.mem_append.mpr (Or.inl (h.contSub k l hm x hx))
  · intro k l hm x hx; exact List.mem_append.mpr (Or.inl (h.raisesSub k l hm x hx))
  · intro k e hm
    obtain ⟨he, hh⟩ := h.entrySub k e hm
    have hne : b.nodes ≠ [] := fun e' => by rw [e'] at he; cases he
    obtain ⟨h0, hh0, _, hor, _⟩ := hhead hne
    refine ⟨List.mem_append.mpr (Or.inl he), ?_⟩
    show b.head.or (some n) ≠ some e
    rw [hor, ← hh0]; exact hh
  · intro k beg ends hm
    have hm' : (k, (some beg, ends)) ∈ b.finallySub.map (fun p => if b.pendingFinally.contains p.1 then (p.1, (some n, p.2.2)) else p) := hm
    simp only [List.mem_map] at hm'
    obtain ⟨p, hp, hpe⟩ := hm'
    show beg ∈ b.nodes ++ [n] ∧ b.head.or (some n) ≠ some beg
    split at hpe
    · rename_i hc
      cases hpe
      have hpn : b.pendingFinally ≠ [] := fun e => by rw [e] at hc; simp at hc
      obtain ⟨h0, _, _, hor, hne0⟩ := hhead (h.pend hpn)
      refine ⟨List.mem_append.mpr (Or.inr (List.mem_singleton.mpr rfl)), ?_⟩
      rw [hor]; intro e; cases e; exact hne0 rfl
    · subst hpe
      obtain ⟨he, hh⟩ := h.finSub k beg ends hp
      have hne : b.nodes ≠ [] := fun e' => by rw [e'] at he; cases he
      obtain ⟨h0, hh0, _, hor, _⟩ := hhead hne
      refine ⟨List.mem_append.mpr (Or.inl he), ?_⟩
      rw [hor, ← hh0]; exact hh
  · intro x hx; exact List.mem_append.mpr (Or.inl (h.errorsSub x hx))
  · intro m hm
    have hm' : m ∈ b.nodes ++ [n] := hm
    show ∃ r, r ∈ (if b.leafSet.isEmpty then b.roots ++ [n] else b.roots) ∧ Reach _ r m
    have hroots : ∀ r, r ∈ b.roots → r ∈ (if b.leafSet.isEmpty then b.roots ++ [n] else b.roots) := by
      intro r hr; split
      · exact List.mem_append.mpr (Or.inl hr)
      · exact hr
    rcases List.mem_append.mp hm' with hm' | hm'
    · obtain ⟨r, hr, hreach⟩ := h.rooted m hm'
      exact ⟨r, hroots r hr, reach_mono hE hreach⟩
    · simp only [List.mem_singleton] at hm'
      subst hm'
      by_cases hls : b.leafSet = []
      · exact ⟨m, by simp [hls], Reach.refl _⟩
      · obtain ⟨x, rest, hls'⟩ := List.exists_cons_of_ne_nil hls
        have hx : x ∈ b.leafSet := by rw [hls']; exact List.mem_cons_self ..
        obtain ⟨r, hr, hreach⟩ := h.rooted x (hleaf x hx)
        refine ⟨r, by simpa [hls'] using hr, Reach.step (reach_mono hE hreach) ?_⟩
        show (x, m) ∈ b.edges ++ b.leafSet.map (fun y => (y, m))
        exact List.mem_append.mpr (Or.inr (List.mem_map.mpr ⟨x, hx, rfl⟩))
  · intro hp
    exact absurd rfl hp

/-- `Inv` as long as no Python exception occurred. -/
def WfOk (b : B) : Prop := b.err = none → Inv b

theorem wf_addNewNode {b : B} (h : WfOk b) (n : Nat) : WfOk (b.addNewNode n) := by
  intro he
  have he' : (b.check (b.nodes.contains n) "ValueError: added twice").err = none := by simpa [B.addNewNode] using he
  obtain ⟨hc1, hc2⟩ := B.check_ok he'
  have hb : b.err = none := by rw [← hc1]; exact he'
  have hn : n ∉ b.nodes := by simpa using hc2
  show Inv (((b.check _ _).pushNode n).connect (b.check _ _).leafSet n)
  rw [hc1]
  exact inv_addNewNode (h hb) n hn

theorem mem_nodes_addNewNode (b : B) (n : Nat) : n ∈ (b.addNewNode n).nodes := by
  simp [B.addNewNode, B.pushNode]

theorem wf_addOrdinaryNode {b : B} (h : WfOk b) (n : Nat) : WfOk (b.addOrdinaryNode n) := by
  intro he
  have he' : (b.addNewNode n).err = none := by simpa [B.addOrdinaryNode] using he
  exact inv_setLeavesFresh (wf_addNewNode h n he') [n] (fun x hx => by
    simp only [List.mem_singleton] at hx; subst hx; exact mem_nodes_addNewNode b x)

theorem wf_addOrdinaryNodes (ns : List Nat) : ∀ {b : B}, WfOk b → WfOk (addOrdinaryNodes b ns) := by
  induction ns with
  | nil => intro b h; exact h
  | cons n ns ih => intro b h; exact ih (wf_addOrdinaryNode h n)

theorem wf_addJumpNode {b : B} (h : WfOk b) (n : Nat) (gs : List Nat) : WfOk (b.addJumpNode n gs) := by
  intro he
  have he' : (b.addNewNode n).err = none := by simpa [B.addJumpNode] using he
  have := inv_setLeavesFresh (wf_addNewNode h n he') [] (fun x hx => (List.not_mem_nil hx).elim)
  exact this.congr rfl rfl rfl rfl rfl rfl rfl rfl rfl rfl rfl rfl

theorem mem_nodes_addJumpNode (b : B) (n : Nat) (gs : List Nat) : n ∈ (b.addJumpNode n gs).nodes := by
  simp [B.addJumpNode, B.addNewNode, B.pushNode]


/-- The invariant carried through a function/lambda builder once its first node exists. -/
structure W (b : B) : Prop where
  ne : b.nodes ≠ []
  ok : WfOk b

theorem W.of_frame {b b' : B} (hw : W b) (hf : Frame [] b b') (h : b'.err = none → Inv b → Inv b') : W b' :=
  ⟨fun e => by
      obtain ⟨x, r, hx⟩ := List.exists_cons_of_ne_nil hw.ne
      have hmem := hf.nodes x (by rw [hx]; exact List.mem_cons_self ..)
      rw [e] at hmem
      exact (List.not_mem_nil hmem).elim,
   fun he => h he (hw.ok (hf.err he))⟩

/-- steps that leave every `Inv` field alone -/
theorem W.congr {b b' : B} (hw : W b) (e0 : b'.err = b.err) (e1 : b'.nodes = b.nodes) (e2 : b'.head = b.head)
    (e3 : b'.roots = b.roots) (e4 : b'.edges = b.edges) (e5 : b'.heap = b.heap) (e6 : b'.exits = b.exits)
    (e7 : b'.continues = b.continues) (e8 : b'.raises = b.raises) (e9 : b'.sectionEntry = b.sectionEntry)
    (e10 : b'.finallySub = b.finallySub) (e11 : b'.errors = b.errors) (e12 : b'.pendingFinally = b.pendingFinally) : W b' :=
  ⟨by rw [e1]; exact hw.ne, fun he => (hw.ok (by rw [← e0]; exact he)).congr e1 e2 e3 e4 e5 e6 e7 e8 e9 e10 e11 e12⟩

theorem W.check {b : B} (hw : W b) (c : Bool) (m : String) : W (b.check c m) :=
  ⟨by simpa using hw.ne, fun he => by
    have := B.check_ok he
    rw [this.1]; exact hw.ok (by rw [← this.1]; exact he)⟩

theorem W.fail {b : B} (hw : W b) (m : String) : W (b.fail m) :=
  ⟨hw.ne, fun he => (B.err_fail b m he).elim⟩

theorem W.addOrdinaryNode {b : B} (hw : W b) (n : Nat) : W (b.addOrdinaryNode n) :=
  hw.of_frame (B.frame_addOrdinaryNode [] b n) (fun he _ => wf_addOrdinaryNode hw.ok n he)

theorem W.addOrdinaryNodes (ns : List Nat) : ∀ {b : B}, W b → W (addOrdinaryNodes b ns) := by
  induction ns with
  | nil => intro b h; exact h
  | cons n ns ih => intro b h; exact ih (h.addOrdinaryNode n)

theorem W.addJumpNode {b : B} (hw : W b) (n : Nat) (gs : List Nat) : W (b.addJumpNode n gs) :=
  hw.of_frame (B.frame_addJumpNode [] b n gs) (fun he _ => wf_addJumpNode hw.ok n gs he)

theorem W.addExitNode {b : B} (hw : W b) (n sec : Nat) (gs : List Nat) : W (b.addExitNode n sec gs) := by
  unfold B.addExitNode
  split
  · rename_i ex hx
    have hj := hw.addJumpNode n gs
    refine ⟨hj.ne, fun he => ?_⟩
    have hi := hj.ok (by simpa using he)
    refine inv_putExits hi sec _ ?_
    intro x hx'
    rcases List.mem_append.mp hx' with hx' | hx'
    · exact hi.exitsSub sec ex (by simpa using aget_mem hx) x hx'
    · simp only [List.mem_singleton] at hx'; subst hx'; exact mem_nodes_addJumpNode b x gs
  · exact (hw.addJumpNode n gs).fail _

theorem W.addContinueNode {b : B} (hw : W b) (n sec : Nat) (gs : List Nat) : W (b.addContinueNode n sec gs) := by
  unfold B.addContinueNode
  split
  · rename_i ex hx
    have hj := hw.addJumpNode n gs
    refine ⟨hj.ne, fun he => ?_⟩
    have hi := hj.ok (by simpa using he)
    refine inv_putContinues hi sec _ ?_
    intro x hx'
    rcases List.mem_append.mp hx' with hx' | hx'
    · exact hi.contSub sec ex (by simpa using aget_mem hx) x hx'
    · simp only [List.mem_singleton] at hx'; subst hx'; exact mem_nodes_addJumpNode b x gs
  · exact (hw.addJumpNode n gs).fail _

theorem raiseStep_sub (node : Nat) (N : List Nat) (hn : node ∈ N) (rs : List (Nat × List Nat))
    (h : ∀ k l, (k, l) ∈ rs → ∀ x, x ∈ l → x ∈ N) (g : Nat) :
    ∀ k l, (k, l) ∈ B.raiseStep node rs g → ∀ x, x ∈ l → x ∈ N := by
  intro k l hm x hx
  unfold B.raiseStep at hm
  split at hm
  · rename_i old hg
    rcases mem_aset hm with hm | hm
    · cases hm
      rcases List.mem_append.mp hx with hx | hx
      · exact h g old (aget_mem hg) x hx
      · simp only [List.mem_singleton] at hx; subst hx; exact hn
    · exact h k l hm x hx
  · rcases mem_aset hm with hm | hm
    · cases hm; simp only [List.mem_singleton] at hx; subst hx; exact hn
    · exact h k l hm x hx

theorem raiseFold_sub (node : Nat) (N : List Nat) (hn : node ∈ N) (gs : List Nat) : ∀ (rs : List (Nat × List Nat)),
    (∀ k l, (k, l) ∈ rs → ∀ x, x ∈ l → x ∈ N) → ∀ k l, (k, l) ∈ gs.foldl (B.raiseStep node) rs → ∀ x, x ∈ l → x ∈ N := by
  induction gs with
  | nil => intro rs h; exact h
  | cons g gs ih => intro rs h; exact ih _ (raiseStep_sub node N hn rs h g)

theorem W.connectRaiseNode {b : B} (hw : W b) (node : Nat) (gs : List Nat) (hn : b.err = none → node ∈ b.nodes) :
    W (b.connectRaiseNode node gs) :=
  ⟨hw.ne, fun he => inv_setRaises (hw.ok he) _ (raiseFold_sub node b.nodes (hn he) gs b.raises (hw.ok he).raisesSub)⟩

theorem W.processExit {b : B} (hw : W b) (σ : List Scope) (n : Nat) (stop : Stop) (v : Bool) : W (Malt.Cfg.processExit σ b n stop v) := by
  unfold Malt.Cfg.processExit
  split
  · exact hw.fail _
  · rename_i target guards _
    split
    · refine (hw.addExitNode n target guards).connectRaiseNode n _ (fun _ => ?_)
      unfold B.addExitNode; split <;> simpa using mem_nodes_addJumpNode b n guards
    · exact hw.addExitNode n target guards

theorem W.processContinue {b : B} (hw : W b) (σ : List Scope) (n : Nat) : W (Malt.Cfg.processContinue σ b n) := by
  unfold Malt.Cfg.processContinue
  split
  · exact hw.fail _
  · exact hw.addContinueNode n _ _

/-- the cursor of `_connect_jump_to_finally_sections` stays inside the index -/
def CursorOk (acc : B × List Nat) : Prop := W acc.1 ∧ (acc.1.err = none → ∀ x, x ∈ acc.2 → x ∈ acc.1.nodes)

theorem cursorOk_guardStep {acc : B × List Nat} (h : CursorOk acc) (g : Nat) : CursorOk (B.guardStep acc g) := by
  unfold B.guardStep
  split
  · rename_i beg ends hg
    refine ⟨⟨h.1.ne, fun he => ?_⟩, fun he x hx => (h.1.ok he).heapSub ends x hx⟩
    have hi := h.1.ok he
    obtain ⟨hb1, hb2⟩ := hi.finSub g beg (some ends) (aget_mem hg)
    exact inv_connect hi _ beg (h.2 he) hb1 hb2
  · exact ⟨h.1.fail _, fun he => (B.err_fail _ _ he).elim⟩

theorem cursorOk_fold (gs : List Nat) : ∀ {acc : B × List Nat}, CursorOk acc → CursorOk (gs.foldl B.guardStep acc) := by
  induction gs with
  | nil => intro acc h; exact h
  | cons g gs ih => intro acc h; exact ih (cursorOk_guardStep h g)

theorem cursorOk_connectJump {b : B} (hw : W b) (n : Nat) (hn : b.err = none → n ∈ b.nodes) : CursorOk (b.connectJump n) := by
  unfold B.connectJump
  split
  · exact ⟨hw, fun he x hx => by simp only [List.mem_singleton] at hx; subst hx; exact hn he⟩
  · rename_i gs _
    have := cursorOk_fold gs (acc := (b, [n])) ⟨hw, fun he x hx => by simp only [List.mem_singleton] at hx; subst hx; exact hn he⟩
    exact ⟨this.1.congr rfl rfl rfl rfl rfl rfl rfl rfl rfl rfl rfl rfl rfl, this.2⟩

theorem W.exitStep {b : B} (hw : W b) (e : Nat) (hn : b.err = none → e ∈ b.nodes) : W (b.exitStep e) := by
  have hc := cursorOk_connectJump hw e hn
  refine ⟨by simpa [B.exitStep, B.leavesUnion] using hc.1.ne, fun he => ?_⟩
  have he' : (b.connectJump e).1.err = none := by simpa [B.exitStep] using he
  exact inv_leavesUnion (hc.1.ok he') _ (hc.2 he')

theorem W.exitFold (ex : List Nat) : ∀ {b : B}, W b → (b.err = none → ∀ x, x ∈ ex → x ∈ b.nodes) → W (ex.foldl B.exitStep b) := by
  induction ex with
  | nil => intro b h _; exact h
  | cons e ex ih =>
    intro b h hx
    refine ih (h.exitStep e (fun he => hx he e (List.mem_cons_self ..))) ?_
    intro he x hxm
    have hf := B.frame_exitStep [] b e
    exact hf.nodes x (hx (hf.err he) x (List.mem_cons_of_mem _ hxm))

theorem W.enterSection {b : B} (hw : W b) (i : Nat) : W (b.enterSection i) := by
  have hc := hw.check (ahas i b.exits) "assert: section entered twice"
  exact ⟨hc.ne, fun he => inv_putExits (hc.ok he) i [] (fun x hx => (List.not_mem_nil hx).elim)⟩

theorem W.exitSection {b : B} (hw : W b) (i : Nat) : W (b.exitSection i) := by
  unfold B.exitSection
  split
  · exact hw.fail _
  · rename_i ex hx
    have := W.exitFold ex hw (fun he x hxm => (hw.ok he).exitsSub i ex (aget_mem hx) x hxm)
    exact ⟨this.ne, fun he => inv_delExits (this.ok he) i⟩

theorem W.enterLoopSection {b : B} (hw : W b) (i entry : Nat) : W (b.enterLoopSection i entry) := by
  have hc := hw.check (ahas i b.sectionEntry || ahas i b.continues) "assert: loop section entered twice"
  have hp : W ((b.check (ahas i b.sectionEntry || ahas i b.continues) "assert: loop section entered twice").putContinues i []) :=
    ⟨hc.ne, fun he => inv_putContinues (hc.ok he) i [] (fun x hx => (List.not_mem_nil hx).elim)⟩
  have ha := hp.addOrdinaryNode entry
  refine ⟨ha.ne, fun he => ?_⟩
  have he' : (((b.check (ahas i b.sectionEntry || ahas i b.continues) "assert: loop section entered twice").putContinues i []).addOrdinaryNode entry).err = none := he
  have hi := ha.ok he'
  -- the entry is the last node of a non-empty index, hence not the head
  refine inv_putSectionEntry hi i entry (by simp [B.addOrdinaryNode, B.addNewNode, B.pushNode]) ?_
  intro hh
  have hnodes : (((b.check (ahas i b.sectionEntry || ahas i b.continues) "assert: loop section entered twice").putContinues i []).addOrdinaryNode entry).nodes = b.nodes ++ [entry] := by
    simp [B.addOrdinaryNode, B.addNewNode, B.pushNode]
  obtain ⟨x, r, hx⟩ := List.exists_cons_of_ne_nil hw.ne
  have hnd := hi.nodup
  rw [hi.headEq, hnodes, hx] at hh
  simp only [List.cons_append, List.head?_cons, Option.some.injEq] at hh
  rw [hnodes, hx, hh] at hnd
  simp at hnd

theorem W.reentryStep {b : B} (hw : W b) (entry c : Nat) (hc : b.err = none → c ∈ b.nodes)
    (he : b.err = none → entry ∈ b.nodes ∧ b.head ≠ some entry) : W (B.reentryStep entry b c) := by
  have hcj := cursorOk_connectJump hw c hc
  have hf := B.frame_connectJump [] b c
  refine ⟨by simpa [B.reentryStep, B.connect] using hcj.1.ne, fun herr => ?_⟩
  have herr' : (b.connectJump c).1.err = none := herr
  have hb := hf.err herr'
  have hi := hcj.1.ok herr'
  refine inv_connect hi _ entry (hcj.2 herr') (hf.nodes entry (he hb).1) ?_
  intro hh
  obtain ⟨x, r, hx⟩ := List.exists_cons_of_ne_nil hw.ne
  have hbh : b.head = some x := by rw [(hw.ok hb).headEq, hx]; rfl
  have := hf.head x hbh
  rw [this] at hh
  cases hh
  exact (he hb).2 hbh

theorem W.reentryFold (entry : Nat) (cs : List Nat) : ∀ {b : B}, W b → (b.err = none → ∀ x, x ∈ cs → x ∈ b.nodes) →
    (b.err = none → entry ∈ b.nodes ∧ b.head ≠ some entry) → W (cs.foldl (B.reentryStep entry) b) := by
  induction cs with
  | nil => intro b h _ _; exact h
  | cons c cs ih =>
    intro b h hx he
    have hf := B.frame_reentryStep [] entry b c
    refine ih (h.reentryStep entry c (fun herr => hx herr c (List.mem_cons_self ..)) he) ?_ ?_
    · intro herr x hxm
      exact hf.nodes x (hx (hf.err herr) x (List.mem_cons_of_mem _ hxm))
    · intro herr
      have hb := hf.err herr
      refine ⟨hf.nodes entry (he hb).1, ?_⟩
      intro hh
      obtain ⟨x, r, hx'⟩ := List.exists_cons_of_ne_nil h.ne
      have hbh : b.head = some x := by rw [(h.ok hb).headEq, hx']; rfl
      rw [hf.head x hbh] at hh
      cases hh
      exact (he hb).2 hbh

theorem W.exitLoopSection {b : B} (hw : W b) (i : Nat) : W (b.exitLoopSection i) := by
  unfold B.exitLoopSection
  split
  · rename_i entry cs hse hcs
    have hent : b.err = none → entry ∈ b.nodes ∧ b.head ≠ some entry := fun he => (hw.ok he).entrySub i entry (aget_mem hse)
    have h1 : W (b.connect b.leafSet entry) :=
      ⟨hw.ne, fun he => inv_connect (hw.ok he) _ entry (fun x hx => (hw.ok he).heapSub _ x hx) (hent he).1 (hent he).2⟩
    have h2 := W.reentryFold entry cs h1 (fun he x hx => (hw.ok he).contSub i cs (aget_mem hcs) x hx) hent
    have hf := B.frame_foldl [] (B.reentryStep entry) (B.frame_reentryStep [] entry) cs (b.connect b.leafSet entry)
    have h3 : W ((cs.foldl (B.reentryStep entry) (b.connect b.leafSet entry)).setLeavesFresh [entry]) :=
      ⟨h2.ne, fun he => inv_setLeavesFresh (h2.ok he) [entry] (fun x hx => by
        simp only [List.mem_singleton] at hx; subst hx
        exact hf.nodes x (hent (hf.err he)).1)⟩
    exact ⟨h3.ne, fun he => inv_delLoopKeys (h3.ok he) i⟩
  · exact hw.fail _

theorem W.unionFold (splits : List Nat) : ∀ {b : B}, W b → W (splits.foldl B.unionStep b) := by
  induction splits with
  | nil => intro b h; exact h
  | cons r rs ih =>
    intro b h
    exact ih ⟨h.ne, fun he => inv_leavesUnion (h.ok he) _ (fun x hx => (h.ok he).heapSub r x hx)⟩

theorem W.enterCondSection {b : B} (hw : W b) (i : Nat) : W (b.enterCondSection i) :=
  (hw.check _ _).congr rfl rfl rfl rfl rfl rfl rfl rfl rfl rfl rfl rfl rfl

theorem W.newCondBranch {b : B} (hw : W b) (i : Nat) : W (b.newCondBranch i) := by
  unfold B.newCondBranch
  split
  · exact hw.fail _
  · split
    · exact hw.congr rfl rfl rfl rfl rfl rfl rfl rfl rfl rfl rfl rfl rfl
    · exact hw.congr rfl rfl rfl rfl rfl rfl rfl rfl rfl rfl rfl rfl rfl

theorem W.exitCondSection {b : B} (hw : W b) (i : Nat) : W (b.exitCondSection i) := by
  unfold B.exitCondSection
  split
  · exact hw.fail _
  · rename_i splits _
    exact ((W.unionFold splits hw).check _ _).congr rfl rfl rfl rfl rfl rfl rfl rfl rfl rfl rfl rfl rfl

theorem W.enterExceptSection {b : B} (hw : W b) (i : Nat) : W (b.enterExceptSection i) := by
  unfold B.enterExceptSection
  split
  · rename_i rs hr
    exact ⟨hw.ne, fun he => inv_leavesUnion (hw.ok he) rs ((hw.ok he).raisesSub i rs (aget_mem hr))⟩
  · exact hw

theorem W.enterFinallySection {b : B} (hw : W b) (i : Nat) : W (b.enterFinallySection i) := by
  refine ⟨hw.ne, fun he => ?_⟩
  have h := hw.ok he
  refine ⟨h.nodup, h.headEq, h.rootsSub, h.headRoot, h.edgesSub, h.heapSub, h.exitsSub, h.contSub, h.raisesSub, h.entrySub, ?_,
    h.errorsSub, h.rooted, fun _ => hw.ne⟩
  intro k beg ends hm
  rcases mem_aset hm with hm | hm
  · cases hm
  · exact h.finSub k beg ends hm

theorem W.closeFinally {b : B} (hw : W b) (i : Nat) (beg : Option Nat) (x : Option Nat) (hb : aget i b.finallySub = some (beg, x)) :
    W (b.closeFinally i beg) := by
  refine ⟨hw.ne, fun he => ?_⟩
  have h := hw.ok he
  refine ⟨h.nodup, h.headEq, h.rootsSub, h.headRoot, h.edgesSub, h.heapSub, h.exitsSub, h.contSub, h.raisesSub, h.entrySub, ?_,
    h.errorsSub, h.rooted, h.pend⟩
  intro k beg' ends hm
  rcases mem_aset hm with hm | hm
  · cases hm
    exact h.finSub i beg' x (aget_mem hb)
  · exact h.finSub k beg' ends hm

theorem W.exitFinallySection {b : B} (hw : W b) (i : Nat) : W (b.exitFinallySection i) := by
  unfold B.exitFinallySection
  split
  · rename_i beg x direct hb _
    have h1 : W ((b.check (b.pendingFinally.contains i) "assert: Empty finally?").closeFinally i beg) :=
      (hw.check _ _).closeFinally i beg x (by simpa using hb)
    cases direct
    · exact ⟨h1.ne, fun he => inv_setLeavesFresh (h1.ok he) [] (fun x hx => (List.not_mem_nil hx).elim)⟩
    · exact h1
  · exact hw.fail _

theorem W.beginStatement {b : B} (hw : W b) (i : Nat) : W (b.beginStatement i) :=
  hw.congr rfl rfl rfl rfl rfl rfl rfl rfl rfl rfl rfl rfl rfl

theorem W.endStatement {b : B} (hw : W b) (i : Nat) : W (b.endStatement i) :=
  (hw.check _ _).congr rfl rfl rfl rfl rfl rfl rfl rfl rfl rfl rfl rfl rfl

theorem W.pushError {b : B} (hw : W b) (n : Nat) (hn : b.err = none → n ∈ b.nodes) : W (b.pushError n) :=
  ⟨hw.ne, fun he => inv_pushError (hw.ok he) n (hn he)⟩


/-! ### statements (builder part) -/

theorem W.basicExpr {b : B} (hw : W b) (σ : List Scope) (e : Expr) (a : Acc) : W (basicExpr σ e b a).1 :=
  (W.addOrdinaryNodes e.kidLams hw).addOrdinaryNode e.id

theorem W.basicExprs (σ : List Scope) : ∀ (es : List Expr) {b : B} (a : Acc), W b → W (basicExprs σ es b a).1
  | [], _, _, hw => hw
  | e :: es, _, a, hw => W.basicExprs σ es _ (hw.basicExpr σ e a)

theorem W.optSection {r : B × Acc} (hw : W r.1) (rep : Option Nat) (pre post : Nat → B → B)
    (visit : Nat → B → Acc → B × Acc) (hpre : ∀ k b, W b → W (pre k b)) (hpost : ∀ k b, W b → W (post k b))
    (hvisit : ∀ k b a, W b → W (visit k b a).1) : W (optSection rep pre post visit r).1 := by
  cases rep with
  | none => exact hw
  | some k => exact hpost k _ (hvisit k _ _ (hpre k _ hw))

theorem mem_nodes_processExit_err {σ : List Scope} {b : B} {n : Nat} {stop : Stop} {v : Bool}
    (he : (Malt.Cfg.processExit σ b n stop v).err = none) : n ∈ (Malt.Cfg.processExit σ b n stop v).nodes := by
  unfold Malt.Cfg.processExit at he ⊢
  split
  · rename_i h; rw [h] at he; exact (B.err_fail _ _ he).elim
  · rename_i target guards h
    rw [h] at he
    have hm : n ∈ (b.addExitNode n target guards).nodes := by
      unfold B.addExitNode; split <;> simpa using mem_nodes_addJumpNode b n guards
    split
    · exact hm
    · exact hm

mutual
theorem wfB_visitStmt : ∀ (s : Stmt) (σ : List Scope) (b : B) (a : Acc), W b → W (visitStmt σ s b a).1
  | .functionDef i name args body decs rets isAsync, σ, b, a, hw => by
    cases isAsync with
    | true =>
      simp only [visitStmt, if_true]
      exact W.addOrdinaryNodes _ (wfB_visitStmts body σ _ _ (W.addOrdinaryNodes _ hw))
    | false =>
      simp only [visitStmt, Bool.false_eq_true, if_false]
      exact hw.addOrdinaryNode i
  | .classDef i name bases kws body decs, σ, b, a, hw => by
    simp only [visitStmt]; exact hw.addOrdinaryNode i
  | .ret i v, σ, b, a, hw => by
    simp only [visitStmt]; exact (W.addOrdinaryNodes _ hw).processExit σ i .fn false
  | .raise i e c, σ, b, a, hw => by
    simp only [visitStmt]
    exact ((W.addOrdinaryNodes _ hw).processExit σ i .fn true).pushError i (fun he => mem_nodes_processExit_err he)
  | .break_ i, σ, b, a, hw => by simp only [visitStmt]; exact hw.processExit σ i .loop false
  | .continue_ i, σ, b, a, hw => by simp only [visitStmt]; exact hw.processContinue σ i
  | .if_ i test body orelse, σ, b, a, hw => by
    simp only [visitStmt]
    exact ((wfB_visitStmts orelse σ _ _ ((wfB_visitStmts body σ _ _
      ((((hw.beginStatement i).enterCondSection i).basicExpr σ test a).newCondBranch i)).newCondBranch i)).exitCondSection i).endStatement i
  | .while_ i test body orelse, σ, b, a, hw => by
    simp only [visitStmt]
    exact ((wfB_visitStmts orelse σ _ _ ((wfB_visitStmts body _ _ _
      ((W.addOrdinaryNodes test.kidLams ((hw.beginStatement i).enterSection i)).enterLoopSection i test.id)).exitLoopSection i)).exitSection i).endStatement i
  | .for_ i target iter body orelse extra isAsync, σ, b, a, hw => by
    cases isAsync with
    | true =>
      simp only [visitStmt, if_true]
      exact wfB_visitStmts orelse σ _ _ (wfB_visitStmts body σ _ _ (W.addOrdinaryNodes _ hw))
    | false =>
      simp only [visitStmt, Bool.false_eq_true, if_false]
      exact ((wfB_visitStmts orelse σ _ _ ((wfB_visitStmts body _ _ _ (W.basicExprs _ _ _
        ((W.addOrdinaryNodes iter.kidLams ((hw.beginStatement i).enterSection i)).enterLoopSection i iter.id))).exitLoopSection i)).exitSection i).endStatement i
  | .with_ i items body isAsync, σ, b, a, hw => by
    cases isAsync with
    | true => simp only [visitStmt, if_true]; exact wfB_visitStmts body σ _ _ (W.addOrdinaryNodes _ hw)
    | false =>
      simp only [visitStmt, Bool.false_eq_true, if_false]
      exact wfB_visitStmts body σ _ _ (W.basicExprs σ items a hw)
  | .try_ i body handlers orelse final, σ, b, a, hw => by
    simp only [visitStmt]
    refine W.endStatement ?_ i
    refine W.optSection ?_ _ _ _ _ (fun k b' h => h.enterFinallySection k) (fun k b' h => h.exitFinallySection k)
      (fun k b' a' h => wfB_visitStmts final σ b' a' h)
    refine W.optSection ?_ _ _ _ _ (fun k b' h => h.enterCondSection k) (fun k b' h => (h.newCondBranch k).exitCondSection k)
      (fun k b' a' h => wfB_visitHandlers handlers σ k b' a' h)
    refine W.optSection ?_ _ _ _ _ (fun k b' h => (h.enterCondSection k).newCondBranch k)
      (fun k b' h => (h.newCondBranch k).exitCondSection k) (fun k b' a' h => wfB_visitStmts orelse _ b' a' h)
    exact wfB_visitStmts body _ _ _ (hw.beginStatement i)
  | .handler i ty name body, σ, b, a, hw => by
    simp only [visitStmt]
    exact (wfB_visitStmts body σ _ _ (W.addOrdinaryNodes _ ((hw.beginStatement i).enterExceptSection i))).endStatement i
  | .other i kind es bs, σ, b, a, hw => by simp only [visitStmt]; exact hw
  | .delete i ts, σ, b, a, hw => by simp only [visitStmt]; exact (W.addOrdinaryNodes _ hw).addOrdinaryNode _
  | .assign i ts v, σ, b, a, hw => by simp only [visitStmt]; exact (W.addOrdinaryNodes _ hw).addOrdinaryNode _
  | .augAssign i t op v, σ, b, a, hw => by simp only [visitStmt]; exact (W.addOrdinaryNodes _ hw).addOrdinaryNode _
  | .annAssign i t an v sm, σ, b, a, hw => by simp only [visitStmt]; exact (W.addOrdinaryNodes _ hw).addOrdinaryNode _
  | .assert_ i t m, σ, b, a, hw => by simp only [visitStmt]; exact (W.addOrdinaryNodes _ hw).addOrdinaryNode _
  | .import_ i ns, σ, b, a, hw => by simp only [visitStmt]; exact (W.addOrdinaryNodes _ hw).addOrdinaryNode _
  | .importFrom i m ns lv, σ, b, a, hw => by simp only [visitStmt]; exact (W.addOrdinaryNodes _ hw).addOrdinaryNode _
  | .global i ns, σ, b, a, hw => by simp only [visitStmt]; exact (W.addOrdinaryNodes _ hw).addOrdinaryNode _
  | .nonlocal i ns, σ, b, a, hw => by simp only [visitStmt]; exact (W.addOrdinaryNodes _ hw).addOrdinaryNode _
  | .expr i v, σ, b, a, hw => by simp only [visitStmt]; exact (W.addOrdinaryNodes _ hw).addOrdinaryNode _
  | .pass i, σ, b, a, hw => by simp only [visitStmt]; exact (W.addOrdinaryNodes _ hw).addOrdinaryNode _

theorem wfB_visitStmts : ∀ (ss : List Stmt) (σ : List Scope) (b : B) (a : Acc), W b → W (visitStmts σ ss b a).1
  | [], σ, b, a, hw => by simp only [visitStmts]; exact hw
  | s :: ss, σ, b, a, hw => by
    simp only [visitStmts]
    exact wfB_visitStmts ss σ _ _ (wfB_visitStmt s σ b a hw)

theorem wfB_visitHandlers : ∀ (hs : List Stmt) (σ : List Scope) (rep : Nat) (b : B) (a : Acc), W b → W (visitHandlers σ rep hs b a).1
  | [], σ, rep, b, a, hw => by simp only [visitHandlers]; exact hw
  | h :: hs, σ, rep, b, a, hw => by
    simp only [visitHandlers]
    exact wfB_visitHandlers hs σ rep _ _ (wfB_visitStmt h σ _ _ (hw.newCondBranch rep))
end


/-! ### finished graphs -/

theorem wellFormed_of_inv {b : B} (hne : b.nodes ≠ []) (h : Inv b) : WellFormed b.build := by
  obtain ⟨x, r, hx⟩ := List.exists_cons_of_ne_nil hne
  have hh : b.head = some x := by rw [h.headEq, hx]; rfl
  refine ⟨h.nodup, ⟨x, hh, by show x ∈ b.nodes; rw [hx]; exact List.mem_cons_self .., h.headRoot x hh⟩, ?_, ?_, ?_, h.errorsSub, h.rootsSub, ?_⟩
  · intro a e he hae
    exact (h.edgesSub a e hae).2.2 he
  · intro a c hac
    exact ⟨(h.edgesSub a c hac).1, (h.edgesSub a c hac).2.1⟩
  · intro y hy
    exact h.heapSub _ y hy
  · intro n hn
    exact h.rooted n hn

/-- Every graph finished so far is well-formed (as long as no Python exception occurred). -/
def AccOk (a : Acc) : Prop := a.err = none → ∀ p, p ∈ a.cfgs → WellFormed p.2

theorem or_eq_none {α} {x y : Option α} (h : x.or y = none) : x = none ∧ y = none := by
  cases x <;> cases y <;> simp_all [Option.or]

theorem AccOk.finish {a : Acc} (ha : AccOk a) (i : Nat) {b : B} (hw : W b) : AccOk (a.finish i b) := by
  intro he p hp
  obtain ⟨h1, h2⟩ := or_eq_none (x := a.err) (y := b.err) he
  rcases List.mem_append.mp hp with hp | hp
  · exact ha h1 p hp
  · simp only [List.mem_singleton] at hp
    subst hp
    exact wellFormed_of_inv hw.ne (hw.ok h2)

theorem AccOk.fail {a : Acc} (m : String) : AccOk (a.fail m) := by
  intro he
  simp only [Acc.fail] at he
  cases h : a.err <;> simp [h, Option.or] at he

theorem AccOk.mergeErr {a : Acc} (ha : AccOk a) (e : Option String) : AccOk { a with err := a.err.or e } := by
  intro he p hp
  exact ha (or_eq_none he).1 p hp

theorem deref_empty (r : Nat) : ({} : B).deref r = [] := by
  cases r with
  | zero => rfl
  | succ r => simp [B.deref]

theorem inv_empty : Inv ({} : B) := by
  refine ⟨List.nodup_nil, rfl, ?_, ?_, ?_, ?_, ?_, ?_, ?_, ?_, ?_, ?_, ?_, ?_⟩
  · intro x hx; cases hx
  · intro e he; cases he
  · intro a c h; cases h
  · intro r x hx; rw [deref_empty] at hx; cases hx
  · intro k l h; cases h
  · intro k l h; cases h
  · intro k l h; cases h
  · intro k e h; cases h
  · intro k beg ends h; cases h
  · intro x hx; cases hx
  · intro n hn; cases hn
  · intro h; exact absurd rfl h

/-- A function/lambda builder after its first ordinary nodes. -/
theorem W_start (i : Nat) (ns : List Nat) (n : Nat) : W ((addOrdinaryNodes (({} : B).enterSection i) ns).addOrdinaryNode n) := by
  have h0 : WfOk (({} : B).enterSection i) := by
    intro he
    have hc : (({} : B).check (ahas i ({} : B).exits) "assert: section entered twice").err = none := by simpa [B.enterSection] using he
    have := B.check_ok hc
    show Inv ((({} : B).check _ _).putExits i [])
    rw [this.1]
    exact inv_putExits inv_empty i [] (fun x hx => (List.not_mem_nil hx).elim)
  refine ⟨?_, wf_addOrdinaryNode (wf_addOrdinaryNodes ns h0) n⟩
  simp [B.addOrdinaryNode, B.addNewNode, B.pushNode]


/-! ### graphs of nested lambdas -/

mutual
theorem accOk_lamGraphs : ∀ (e : Expr) (σ : List Scope) (a : Acc), AccOk a → AccOk (lamGraphs σ e a)
  | .lambda i args body, σ, a, ha => by
    simp only [lamGraphs]
    refine AccOk.finish (accOk_lamGraphsKids body _ _ (accOk_lamGraphsKids args _ _ ha)) i ?_
    exact (((W_start i args.kidLams args.id) |> W.addOrdinaryNodes body.kidLams).processExit _ body.id .lam false).exitSection i
  | .name .., σ, a, ha => by simp only [lamGraphs]; exact ha
  | .const .., σ, a, ha => by simp only [lamGraphs]; exact ha
  | .noneMarker, σ, a, ha => by simp only [lamGraphs]; exact ha
  | .attr _ v _ _, σ, a, ha => by simp only [lamGraphs]; exact accOk_lamGraphs v σ a ha
  | .subscript _ v s _, σ, a, ha => by simp only [lamGraphs]; exact accOk_lamGraphs s σ _ (accOk_lamGraphs v σ a ha)
  | .call _ f as ks, σ, a, ha => by
    simp only [lamGraphs]; exact accOk_lamGraphsL ks σ _ (accOk_lamGraphsL as σ _ (accOk_lamGraphs f σ a ha))
  | .keyword _ _ _ v, σ, a, ha => by simp only [lamGraphs]; exact accOk_lamGraphs v σ a ha
  | .boolop _ _ vs, σ, a, ha => by simp only [lamGraphs]; exact accOk_lamGraphsL vs σ a ha
  | .unary _ _ e, σ, a, ha => by simp only [lamGraphs]; exact accOk_lamGraphs e σ a ha
  | .binop _ _ l r, σ, a, ha => by simp only [lamGraphs]; exact accOk_lamGraphs r σ _ (accOk_lamGraphs l σ a ha)
  | .compare _ l _ rs, σ, a, ha => by simp only [lamGraphs]; exact accOk_lamGraphsL rs σ _ (accOk_lamGraphs l σ a ha)
  | .ifexp _ t b e, σ, a, ha => by
    simp only [lamGraphs]; exact accOk_lamGraphs e σ _ (accOk_lamGraphs b σ _ (accOk_lamGraphs t σ a ha))
  | .seq _ _ es _, σ, a, ha => by simp only [lamGraphs]; exact accOk_lamGraphsL es σ a ha
  | .starred _ v _, σ, a, ha => by simp only [lamGraphs]; exact accOk_lamGraphs v σ a ha
  | .namedexpr _ t v, σ, a, ha => by simp only [lamGraphs]; exact accOk_lamGraphs v σ _ (accOk_lamGraphs t σ a ha)
  | .comp _ _ es gs, σ, a, ha => by simp only [lamGraphs]; exact accOk_lamGraphsL gs σ _ (accOk_lamGraphsL es σ a ha)
  | .comprehension _ t it ifs _, σ, a, ha => by
    simp only [lamGraphs]; exact accOk_lamGraphsL ifs σ _ (accOk_lamGraphs it σ _ (accOk_lamGraphs t σ a ha))
  | .arguments _ po ar va ko kd kw df, σ, a, ha => by
    simp only [lamGraphs]
    exact accOk_lamGraphsL df σ _ (accOk_lamGraphsL kw σ _ (accOk_lamGraphsL kd σ _ (accOk_lamGraphsL ko σ _
      (accOk_lamGraphsL va σ _ (accOk_lamGraphsL ar σ _ (accOk_lamGraphsL po σ a ha))))))
  | .arg _ _ an, σ, a, ha => by simp only [lamGraphs]; exact accOk_lamGraphsL an σ a ha
  | .withitem _ c v, σ, a, ha => by simp only [lamGraphs]; exact accOk_lamGraphsL v σ _ (accOk_lamGraphs c σ a ha)
  | .other _ _ _ kids, σ, a, ha => by simp only [lamGraphs]; exact accOk_lamGraphsL kids σ a ha

theorem accOk_lamGraphsKids : ∀ (e : Expr) (σ : List Scope) (a : Acc), AccOk a → AccOk (lamGraphsKids σ e a)
  | .lambda i args body, σ, a, ha => by
    simp only [lamGraphsKids]; exact accOk_lamGraphs body σ _ (accOk_lamGraphs args σ a ha)
  | .name .., σ, a, ha => by simp only [lamGraphsKids]; exact ha
  | .const .., σ, a, ha => by simp only [lamGraphsKids]; exact ha
  | .noneMarker, σ, a, ha => by simp only [lamGraphsKids]; exact ha
  | .attr _ v _ _, σ, a, ha => by simp only [lamGraphsKids]; exact accOk_lamGraphs v σ a ha
  | .subscript _ v s _, σ, a, ha => by simp only [lamGraphsKids]; exact accOk_lamGraphs s σ _ (accOk_lamGraphs v σ a ha)
  | .call _ f as ks, σ, a, ha => by
    simp only [lamGraphsKids]; exact accOk_lamGraphsL ks σ _ (accOk_lamGraphsL as σ _ (accOk_lamGraphs f σ a ha))
  | .keyword _ _ _ v, σ, a, ha => by simp only [lamGraphsKids]; exact accOk_lamGraphs v σ a ha
  | .boolop _ _ vs, σ, a, ha => by simp only [lamGraphsKids]; exact accOk_lamGraphsL vs σ a ha
  | .unary _ _ e, σ, a, ha => by simp only [lamGraphsKids]; exact accOk_lamGraphs e σ a ha
  | .binop _ _ l r, σ, a, ha => by simp only [lamGraphsKids]; exact accOk_lamGraphs r σ _ (accOk_lamGraphs l σ a ha)
  | .compare _ l _ rs, σ, a, ha => by simp only [lamGraphsKids]; exact accOk_lamGraphsL rs σ _ (accOk_lamGraphs l σ a ha)
  | .ifexp _ t b e, σ, a, ha => by
    simp only [lamGraphsKids]; exact accOk_lamGraphs e σ _ (accOk_lamGraphs b σ _ (accOk_lamGraphs t σ a ha))
  | .seq _ _ es _, σ, a, ha => by simp only [lamGraphsKids]; exact accOk_lamGraphsL es σ a ha
  | .starred _ v _, σ, a, ha => by simp only [lamGraphsKids]; exact accOk_lamGraphs v σ a ha
  | .namedexpr _ t v, σ, a, ha => by simp only [lamGraphsKids]; exact accOk_lamGraphs v σ _ (accOk_lamGraphs t σ a ha)
  | .comp _ _ es gs, σ, a, ha => by simp only [lamGraphsKids]; exact accOk_lamGraphsL gs σ _ (accOk_lamGraphsL es σ a ha)
  | .comprehension _ t it ifs _, σ, a, ha => by
    simp only [lamGraphsKids]; exact accOk_lamGraphsL ifs σ _ (accOk_lamGraphs it σ _ (accOk_lamGraphs t σ a ha))
  | .arguments _ po ar va ko kd kw df, σ, a, ha => by
    simp only [lamGraphsKids]
    exact accOk_lamGraphsL df σ _ (accOk_lamGraphsL kw σ _ (accOk_lamGraphsL kd σ _ (accOk_lamGraphsL ko σ _
      (accOk_lamGraphsL va σ _ (accOk_lamGraphsL ar σ _ (accOk_lamGraphsL po σ a ha))))))
  | .arg _ _ an, σ, a, ha => by simp only [lamGraphsKids]; exact accOk_lamGraphsL an σ a ha
  | .withitem _ c v, σ, a, ha => by simp only [lamGraphsKids]; exact accOk_lamGraphsL v σ _ (accOk_lamGraphs c σ a ha)
  | .other _ _ _ kids, σ, a, ha => by simp only [lamGraphsKids]; exact accOk_lamGraphsL kids σ a ha

theorem accOk_lamGraphsL : ∀ (es : List Expr) (σ : List Scope) (a : Acc), AccOk a → AccOk (lamGraphsL σ es a)
  | [], σ, a, ha => by simp only [lamGraphsL]; exact ha
  | e :: es, σ, a, ha => by simp only [lamGraphsL]; exact accOk_lamGraphsL es σ _ (accOk_lamGraphs e σ a ha)
end

theorem accOk_basicExpr (σ : List Scope) (e : Expr) (b : B) (a : Acc) (ha : AccOk a) : AccOk (basicExpr σ e b a).2 :=
  accOk_lamGraphsKids e σ a ha

theorem accOk_basicExprs (σ : List Scope) : ∀ (es : List Expr) (b : B) (a : Acc), AccOk a → AccOk (basicExprs σ es b a).2
  | [], _, _, ha => ha
  | e :: es, b, a, ha => accOk_basicExprs σ es _ _ (accOk_basicExpr σ e b a ha)

theorem accOk_optSection (rep : Option Nat) (pre post : Nat → B → B) (visit : Nat → B → Acc → B × Acc) (r : B × Acc)
    (ha : AccOk r.2) (hvisit : ∀ k b a, AccOk a → AccOk (visit k b a).2) : AccOk (optSection rep pre post visit r).2 := by
  cases rep with
  | none => exact ha
  | some k => exact hvisit k _ _ ha

/-! ### statements (accumulator part) -/
mutual
theorem accOk_visitStmt : ∀ (s : Stmt) (σ : List Scope) (b : B) (a : Acc), AccOk a → AccOk (visitStmt σ s b a).2
  | .functionDef i name args body decs rets isAsync, σ, b, a, ha => by
    cases isAsync with
    | true =>
      simp only [visitStmt, if_true]
      exact accOk_lamGraphsL rets σ _ (accOk_lamGraphsL decs σ _ (accOk_visitStmts body σ _ _ (accOk_lamGraphs args σ a ha)))
    | false =>
      simp only [visitStmt, Bool.false_eq_true, if_false]
      refine AccOk.finish (accOk_visitStmts body _ _ _ (accOk_basicExpr _ args _ a ha)) i ?_
      exact (wfB_visitStmts body _ _ _ (W_start i args.kidLams args.id)).exitSection i
  | .classDef i name bases kws body decs, σ, b, a, ha => by
    simp only [visitStmt]
    exact AccOk.mergeErr (accOk_lamGraphsL decs _ _ (accOk_visitStmts body _ _ _
      (accOk_lamGraphsL kws _ _ (accOk_lamGraphsL bases _ a ha)))) _
  | .ret i v, σ, b, a, ha => by simp only [visitStmt]; exact accOk_lamGraphsL v σ a ha
  | .raise i e c, σ, b, a, ha => by simp only [visitStmt]; exact accOk_lamGraphsL c σ _ (accOk_lamGraphsL e σ a ha)
  | .break_ i, σ, b, a, ha => by simp only [visitStmt]; exact ha
  | .continue_ i, σ, b, a, ha => by simp only [visitStmt]; exact ha
  | .if_ i test body orelse, σ, b, a, ha => by
    simp only [visitStmt]
    exact accOk_visitStmts orelse σ _ _ (accOk_visitStmts body σ _ _ (accOk_basicExpr σ test _ a ha))
  | .while_ i test body orelse, σ, b, a, ha => by
    simp only [visitStmt]
    exact accOk_visitStmts orelse σ _ _ (accOk_visitStmts body _ _ _ (accOk_lamGraphsKids test _ a ha))
  | .for_ i target iter body orelse extra isAsync, σ, b, a, ha => by
    cases isAsync with
    | true =>
      simp only [visitStmt, if_true]
      exact accOk_visitStmts orelse σ _ _ (accOk_visitStmts body σ _ _ (accOk_lamGraphs iter σ _ (accOk_lamGraphs target σ a ha)))
    | false =>
      simp only [visitStmt, Bool.false_eq_true, if_false]
      exact accOk_visitStmts orelse σ _ _ (accOk_visitStmts body _ _ _ (accOk_basicExprs _ _ _ _ (accOk_lamGraphsKids iter _ a ha)))
  | .with_ i items body isAsync, σ, b, a, ha => by
    cases isAsync with
    | true => simp only [visitStmt, if_true]; exact accOk_visitStmts body σ _ _ (accOk_lamGraphsL items σ a ha)
    | false =>
      simp only [visitStmt, Bool.false_eq_true, if_false]
      exact accOk_visitStmts body σ _ _ (accOk_basicExprs σ items b a ha)
  | .try_ i body handlers orelse final, σ, b, a, ha => by
    simp only [visitStmt]
    refine accOk_optSection _ _ _ _ _ ?_ (fun k b' a' h => accOk_visitStmts final σ b' a' h)
    refine accOk_optSection _ _ _ _ _ ?_ (fun k b' a' h => accOk_visitHandlers handlers σ k b' a' h)
    refine accOk_optSection _ _ _ _ _ ?_ (fun k b' a' h => accOk_visitStmts orelse _ b' a' h)
    exact accOk_visitStmts body _ _ _ ha
  | .handler i ty name body, σ, b, a, ha => by
    simp only [visitStmt]
    refine accOk_visitStmts body σ _ _ ?_
    split
    · exact accOk_lamGraphsL ty σ a ha
    · exact AccOk.fail _
  | .other i kind es bs, σ, b, a, ha => by simp only [visitStmt]; exact AccOk.fail _
  | .delete i ts, σ, b, a, ha => by simp only [visitStmt]; exact accOk_lamGraphsL _ σ a ha
  | .assign i ts v, σ, b, a, ha => by simp only [visitStmt]; exact accOk_lamGraphsL _ σ a ha
  | .augAssign i t op v, σ, b, a, ha => by simp only [visitStmt]; exact accOk_lamGraphsL _ σ a ha
  | .annAssign i t an v sm, σ, b, a, ha => by simp only [visitStmt]; exact accOk_lamGraphsL _ σ a ha
  | .assert_ i t m, σ, b, a, ha => by simp only [visitStmt]; exact accOk_lamGraphsL _ σ a ha
  | .import_ i ns, σ, b, a, ha => by simp only [visitStmt]; exact accOk_lamGraphsL _ σ a ha
  | .importFrom i m ns lv, σ, b, a, ha => by simp only [visitStmt]; exact accOk_lamGraphsL _ σ a ha
  | .global i ns, σ, b, a, ha => by simp only [visitStmt]; exact accOk_lamGraphsL _ σ a ha
  | .nonlocal i ns, σ, b, a, ha => by simp only [visitStmt]; exact accOk_lamGraphsL _ σ a ha
  | .expr i v, σ, b, a, ha => by simp only [visitStmt]; exact accOk_lamGraphsL _ σ a ha
  | .pass i, σ, b, a, ha => by simp only [visitStmt]; exact accOk_lamGraphsL _ σ a ha

theorem accOk_visitStmts : ∀ (ss : List Stmt) (σ : List Scope) (b : B) (a : Acc), AccOk a → AccOk (visitStmts σ ss b a).2
  | [], σ, b, a, ha => by simp only [visitStmts]; exact ha
  | s :: ss, σ, b, a, ha => by
    simp only [visitStmts]
    exact accOk_visitStmts ss σ _ _ (accOk_visitStmt s σ b a ha)

theorem accOk_visitHandlers : ∀ (hs : List Stmt) (σ : List Scope) (rep : Nat) (b : B) (a : Acc), AccOk a →
    AccOk (visitHandlers σ rep hs b a).2
  | [], σ, rep, b, a, ha => by simp only [visitHandlers]; exact ha
  | h :: hs, σ, rep, b, a, ha => by
    simp only [visitHandlers]
    exact accOk_visitHandlers hs σ rep _ _ (accOk_visitStmt h σ _ _ ha)
end

/-- **Every graph `build fn` returns is well-formed.** -/
theorem build_wellFormed (fn : Stmt) (herr : (build fn).err = none) : ∀ p, p ∈ (build fn).cfgs → WellFormed p.2 := by
  cases fn with
  | functionDef i name args body decs rets isAsync =>
    cases isAsync with
    | true => simp [build] at herr
    | false =>
      have hacc : AccOk (((rootBuilder (.functionDef i name args body decs rets false)).2).finish i
          (rootBuilder (.functionDef i name args body decs rets false)).1) := by
        refine AccOk.finish ?_ i ?_
        · exact accOk_visitStmts body _ _ _ (accOk_basicExpr _ args _ {} (fun _ p hp => by cases hp))
        · exact (wfB_visitStmts body _ _ _ (W_start i args.kidLams args.id)).exitSection i
      exact hacc herr
  | _ => simp [build] at herr

end Malt.Cfg
