import MaltModel.Proofs.C18Sem1
import MaltModel.Proofs.C18Stmt
/- C18, semantics part 2: execution of generated assignments; structure of visits on the fragment. -/
set_option linter.unusedSimpArgs false
namespace Malt.Anf
open Malt.Py Malt.SemAnf

/-! ### generated assignments -/
theorem evalE_hoistCopy (O : Oracle) (x : Expr) (σ : St) (hf : fragE x = true) : evalE O (hoistCopy x) σ = evalE O x σ := by
  unfold hoistCopy
  split
  · next hc => exact evalE_adjust O x _ σ (frag_hasCtx_nw hf hc) hf
  · rfl

theorem exec_tmpAssign (O : Oracle) (k : Nat) (x : Expr) (σ : St) (hf : fragE x = true) :
    execS O (tmpAssign k x) σ =
      match evalE O x σ with
      | (.ok v, σ1) => (.normal, σ1.set (tmpName k) v)
      | (.error e, σ1) => (.raise e, σ1) := by
  simp only [tmpAssign, execS, evalE_hoistCopy O x σ hf]
  rcases evalE O x σ with ⟨r, σ1⟩
  cases r <;> simp [assignEach, assignTo]

/-- Pending statements: `tmp_(1001+n) = x_n; …` with every `x_k` satisfying `P`. -/
def HoistsP (P : Expr → Prop) : Nat → List Stmt → Nat → Prop
  | n, [], n' => n' = n
  | n, s :: D, n' => (∃ x, s = tmpAssign n x ∧ P x) ∧ HoistsP P (n + 1) D n'

theorem HoistsP.append {P : Expr → Prop} : ∀ {D1 : List Stmt} {n m n' : Nat} {D2 : List Stmt},
    HoistsP P n D1 m → HoistsP P m D2 n' → HoistsP P n (D1 ++ D2) n'
  | [], n, m, n', D2, h1, h2 => by simp [HoistsP] at h1; subst h1; simpa using h2
  | s :: D1, n, m, n', D2, h1, h2 => by
      simp only [HoistsP, List.cons_append] at h1 ⊢
      exact ⟨h1.1, HoistsP.append h1.2 h2⟩

theorem HoistsP.mono {P Q : Expr → Prop} (hpq : ∀ x, P x → Q x) : ∀ {D : List Stmt} {n n' : Nat},
    HoistsP P n D n' → HoistsP Q n D n'
  | [], n, n', h => h
  | s :: D, n, n', h => by
      obtain ⟨⟨x, hs, hp⟩, h2⟩ := h
      exact ⟨⟨x, hs, hpq x hp⟩, HoistsP.mono hpq h2⟩

theorem HoistsP.le {P : Expr → Prop} : ∀ {D : List Stmt} {n n' : Nat}, HoistsP P n D n' → n ≤ n'
  | [], n, n', h => by simp [HoistsP] at h; omega
  | _ :: D, n, n', h => by have := HoistsP.le h.2; omega

theorem HoistsP.nil_iff {P : Expr → Prop} {n n' : Nat} : HoistsP P n [] n' ↔ n' = n := Iff.rfl

/-- Executing pending statements ends normally or raises; it rebinds only its own temporaries and what the
hoisted expressions rebind with `:=`. -/
theorem exec_hoists (O : Oracle) (W : String → Prop) : ∀ (H : List Stmt) (a b : Nat) (σ : St),
    HoistsP (fun x => fragE x = true ∧ ∀ y ∈ writesE x, W y) a H b →
    ((execB O H σ).1 = .normal ∨ ∃ x, (execB O H σ).1 = .raise x) ∧
    ∀ y, ¬ W y → (∀ k, a ≤ k → k < b → y ≠ tmpName k) → (execB O H σ).2.get y = σ.get y
  | [], a, b, σ, _ => by simp [execB]
  | s :: H, a, b, σ, h => by
      obtain ⟨⟨x, rfl, hf, hw⟩, h2⟩ := h
      have hle := HoistsP.le h2
      simp only [execB, exec_tmpAssign O a x σ hf]
      rcases hv : evalE O x σ with ⟨r, σ1⟩
      have hfr := fun y (hy : y ∉ writesE x) => evalE_frame O x σ y hf hy
      rw [hv] at hfr
      cases r with
      | error e =>
        refine ⟨Or.inr ⟨e, rfl⟩, fun y hy _ => ?_⟩
        exact hfr y (fun hm => hy (hw y hm))
      | ok v =>
        have ih := exec_hoists O W H (a + 1) b (σ1.set (tmpName a) v) h2
        refine ⟨ih.1, fun y hy hk => ?_⟩
        rw [ih.2 y hy (fun k hk1 hk2 => hk k (by omega) hk2), get_set,
          if_neg (hk a (Nat.le_refl a) (by omega))]
        exact hfr y (fun hm => hy (hw y hm))

end Malt.Anf

namespace Malt.Anf
open Malt.Py Malt.SemAnf

theorem frag_not_wrapper {e : Expr} (h : fragE e = true) : isWrapper e = false := by
  cases e <;> first | rfl | (simp [fragE] at h)

theorem visitEs_length {cfg : Config} : ∀ {es : List Expr} {n : Nat} {es' : List Expr} {D : List Stmt} {n' : Nat},
    visitEs cfg es n = .ok (es', D, n') → es'.length = es.length
  | [], n, es', D, n', h => by
      vopen h; vclose h; obtain ⟨rfl, -, -⟩ := h; rfl
  | e :: es, n, es', D, n', h => by
      vopen h
      obtain ⟨v1, d1, n1, hv, s1, d2, n2, hs, h⟩ := h
      vclose h; obtain ⟨rfl, -, -⟩ := h
      simp [visitEs_length hs]

/-- `ensure` on a fragment expression: kept, or replaced by a fresh temporary. -/
theorem ensure_frag_cases (cfg : Config) (pk fld : String) (x : Expr) (n : Nat) (hf : fragE x = true) :
    (ensure cfg pk fld x n = (x, [], n) ∧ okChild cfg pk fld x = true) ∨
    (ensure cfg pk fld x n = (.name 0 (tmpName n) .load, [tmpAssign n x], n + 1) ∧ okChild cfg pk fld x = false) := by
  have hw := frag_not_wrapper hf
  rw [ensure_plain cfg pk fld x n hw, okChild_plain cfg pk fld x hw]
  by_cases h1 : isTrivial x = true
  · simp [h1]
  · by_cases h2 : shouldTransform cfg pk fld (kindOf x) = true
    · right; simp [h1, h2, hoist]
    · left; simp [h1, h2]

/-! ### on the fragment, "no `:=` inside" = "rebinds nothing" -/
mutual
theorem nw_of_writes_nil : ∀ (e : Expr), fragE e = true → (∀ y, y ∉ writesE e) → noWalrus e = true
  | .name .., _, _ => by simp [noWalrus]
  | .const .., _, _ => by simp [noWalrus]
  | .attr i v a c, hf, hw => by
      simp only [fragE, Bool.and_eq_true] at hf
      simp [noWalrus, hf.2]
  | .subscript i v s c, hf, hw => by
      simp only [fragE, Bool.and_eq_true] at hf
      simp [noWalrus, hf.1.2, hf.2]
  | .call i f as ks, hf, hw => by
      simp only [fragE, Bool.and_eq_true, List.isEmpty_iff] at hf
      obtain ⟨⟨hff, hfa⟩, rfl⟩ := hf
      simp only [writesE, writesEs, List.append_nil, List.mem_append, not_or] at hw
      simp [noWalrus, noWalruss, nw_of_writes_nil f hff (fun y => (hw y).1), nws_of_writes_nil as hfa (fun y => (hw y).2)]
  | .unary i op e, hf, hw => by
      simp only [fragE] at hf
      simp only [writesE] at hw
      simp [noWalrus, nw_of_writes_nil e hf hw]
  | .binop i op l r, hf, hw => by
      simp only [fragE, Bool.and_eq_true] at hf
      simp only [writesE, List.mem_append, not_or] at hw
      simp [noWalrus, nw_of_writes_nil l hf.1 (fun y => (hw y).1), nw_of_writes_nil r hf.2 (fun y => (hw y).2)]
  | .compare i l ops rs, hf, hw => by
      simp only [fragE, Bool.and_eq_true] at hf
      simp only [writesE, List.mem_append, not_or] at hw
      simp [noWalrus, nw_of_writes_nil l hf.1.1.1 (fun y => (hw y).1), nws_of_writes_nil rs hf.1.1.2 (fun y => (hw y).2)]
  | .seq i k es c, hf, hw => by
      simp only [fragE, Bool.and_eq_true] at hf
      simp [noWalrus, hf.2]
  | .namedexpr i (.name j s .store) v, hf, hw => by
      have := hw s
      simp [writesE, namesE] at this
  | .namedexpr _ (.name _ _ .load) _, h, _ | .namedexpr _ (.name _ _ .del) _, h, _
  | .namedexpr _ (.const ..) _, h, _ | .namedexpr _ (.attr ..) _, h, _ | .namedexpr _ (.subscript ..) _, h, _
  | .namedexpr _ (.call ..) _, h, _ | .namedexpr _ (.keyword ..) _, h, _ | .namedexpr _ (.boolop ..) _, h, _
  | .namedexpr _ (.unary ..) _, h, _ | .namedexpr _ (.binop ..) _, h, _ | .namedexpr _ (.compare ..) _, h, _
  | .namedexpr _ (.ifexp ..) _, h, _ | .namedexpr _ (.lambda ..) _, h, _ | .namedexpr _ (.seq ..) _, h, _
  | .namedexpr _ (.starred ..) _, h, _ | .namedexpr _ (.namedexpr ..) _, h, _ | .namedexpr _ (.comp ..) _, h, _
  | .namedexpr _ (.comprehension ..) _, h, _ | .namedexpr _ (.arguments ..) _, h, _ | .namedexpr _ (.arg ..) _, h, _
  | .namedexpr _ (.withitem ..) _, h, _ | .namedexpr _ .noneMarker _, h, _ | .namedexpr _ (.other ..) _, h, _
  | .keyword .., h, _ | .boolop .., h, _ | .ifexp .., h, _ | .lambda .., h, _ | .starred .., h, _
  | .comp .., h, _ | .comprehension .., h, _ | .arguments .., h, _ | .arg .., h, _ | .withitem .., h, _
  | .noneMarker, h, _ | .other .., h, _ => by notfrag h
theorem nws_of_writes_nil : ∀ (es : List Expr), fragEs es = true → (∀ y, y ∉ writesEs es) → noWalruss es = true
  | [], _, _ => rfl
  | e :: es, hf, hw => by
      simp only [fragEs, Bool.and_eq_true] at hf
      simp only [writesEs, List.mem_append, not_or] at hw
      simp [noWalruss, nw_of_writes_nil e hf.1 (fun y => (hw y).1), nws_of_writes_nil es hf.2 (fun y => (hw y).2)]
end

mutual
theorem writes_nil_of_nw : ∀ (e : Expr) (y : String), noWalrus e = true → y ∉ writesE e
  | .namedexpr .., y, h => by simp [noWalrus] at h
  | .attr _ v _ _, y, h => by simp only [noWalrus] at h; simp only [writesE]; exact writes_nil_of_nw v y h
  | .subscript _ v s _, y, h => by
      simp only [noWalrus, Bool.and_eq_true] at h
      simp only [writesE, List.mem_append, not_or]
      exact ⟨writes_nil_of_nw v y h.1, writes_nil_of_nw s y h.2⟩
  | .call _ f as ks, y, h => by
      simp only [noWalrus, Bool.and_eq_true] at h
      simp only [writesE, List.mem_append, not_or]
      exact ⟨⟨writes_nil_of_nw f y h.1.1, writess_nil_of_nw as y h.1.2⟩, writess_nil_of_nw ks y h.2⟩
  | .keyword _ _ _ v, y, h => by simp only [noWalrus] at h; simp only [writesE]; exact writes_nil_of_nw v y h
  | .boolop _ _ vs, y, h => by simp only [noWalrus] at h; simp only [writesE]; exact writess_nil_of_nw vs y h
  | .unary _ _ e, y, h => by simp only [noWalrus] at h; simp only [writesE]; exact writes_nil_of_nw e y h
  | .binop _ _ l r, y, h => by
      simp only [noWalrus, Bool.and_eq_true] at h
      simp only [writesE, List.mem_append, not_or]
      exact ⟨writes_nil_of_nw l y h.1, writes_nil_of_nw r y h.2⟩
  | .compare _ l _ rs, y, h => by
      simp only [noWalrus, Bool.and_eq_true] at h
      simp only [writesE, List.mem_append, not_or]
      exact ⟨writes_nil_of_nw l y h.1, writess_nil_of_nw rs y h.2⟩
  | .ifexp _ t b e, y, h => by
      simp only [noWalrus, Bool.and_eq_true] at h
      simp only [writesE, List.mem_append, not_or]
      exact ⟨⟨writes_nil_of_nw t y h.1.1, writes_nil_of_nw b y h.1.2⟩, writes_nil_of_nw e y h.2⟩
  | .seq _ _ es _, y, h => by simp only [noWalrus] at h; simp only [writesE]; exact writess_nil_of_nw es y h
  | .starred _ v _, y, h => by simp only [noWalrus] at h; simp only [writesE]; exact writes_nil_of_nw v y h
  | .withitem _ c v, y, h => by
      simp only [noWalrus, Bool.and_eq_true] at h
      simp only [writesE, List.mem_append, not_or]
      exact ⟨writes_nil_of_nw c y h.1, writess_nil_of_nw v y h.2⟩
  | .other _ _ _ ks, y, h => by simp only [noWalrus] at h; simp only [writesE]; exact writess_nil_of_nw ks y h
  | .name .., y, _ => by simp [writesE]
  | .const .., y, _ => by simp [writesE]
  | .noneMarker, y, _ => by simp [writesE]
  | .lambda .., y, _ => by simp [writesE]
  | .comp .., y, _ => by simp [writesE]
  | .comprehension .., y, _ => by simp [writesE]
  | .arguments .., y, _ => by simp [writesE]
  | .arg .., y, _ => by simp [writesE]
theorem writess_nil_of_nw : ∀ (es : List Expr) (y : String), noWalruss es = true → y ∉ writesEs es
  | [], y, _ => by simp [writesEs]
  | e :: es, y, h => by
      simp only [noWalruss, Bool.and_eq_true] at h
      simp only [writesEs, List.mem_append, not_or]
      exact ⟨writes_nil_of_nw e y h.1, writess_nil_of_nw es y h.2⟩
end

/-- The predicate carried by pending statements on the fragment. -/
abbrev FragW (W : String → Prop) (x : Expr) : Prop := fragE x = true ∧ ∀ y ∈ writesE x, W y

structure FInv (W : String → Prop) (e' : Expr) (n : Nat) (D : List Stmt) (n' : Nat) : Prop where
  frag : fragE e' = true
  writes : ∀ y ∈ writesE e', W y
  hoists : HoistsP (FragW W) n D n'

structure FsInv (W : String → Prop) (es' : List Expr) (n : Nat) (D : List Stmt) (n' : Nat) : Prop where
  frag : fragEs es' = true
  writes : ∀ y ∈ writesEs es', W y
  hoists : HoistsP (FragW W) n D n'

theorem ensure_finv {cfg : Config} {pk fld : String} {W : String → Prop} {x : Expr} {n : Nat} {x' : Expr} {H : List Stmt}
    {n' : Nat} (hf : fragE x = true) (hw : ∀ y ∈ writesE x, W y) (h : ensure cfg pk fld x n = (x', H, n')) :
    FInv W x' n H n' := by
  rcases ensure_frag_cases cfg pk fld x n hf with ⟨h1, -⟩ | ⟨h1, -⟩
  · rw [h1] at h; simp only [Prod.mk.injEq] at h; obtain ⟨rfl, rfl, rfl⟩ := h
    exact ⟨hf, hw, rfl⟩
  · rw [h1] at h; simp only [Prod.mk.injEq] at h; obtain ⟨rfl, rfl, rfl⟩ := h
    exact ⟨rfl, by simp [writesE], ⟨⟨x, rfl, hf, hw⟩, rfl⟩⟩

theorem ensureList_finv {cfg : Config} {pk fld : String} {W : String → Prop} : ∀ {xs : List Expr} {n : Nat}
    {xs' : List Expr} {H : List Stmt} {n' : Nat}, fragEs xs = true → (∀ y ∈ writesEs xs, W y) →
    ensureList cfg pk fld xs n = (xs', H, n') → FsInv W xs' n H n'
  | [], n, xs', H, n', _, _, h => by
      simp only [ensureList, Prod.mk.injEq] at h; obtain ⟨rfl, rfl, rfl⟩ := h
      exact ⟨rfl, by simp [writesEs], rfl⟩
  | x :: xs, n, xs', H, n', hf, hw, h => by
      simp only [fragEs, Bool.and_eq_true] at hf
      simp only [ensureList] at h
      rcases h1 : ensure cfg pk fld x n with ⟨x1, H1, n1⟩
      rcases h2 : ensureList cfg pk fld xs n1 with ⟨xs1, H2, n2⟩
      simp only [h1, h2, Prod.mk.injEq] at h; obtain ⟨rfl, rfl, rfl⟩ := h
      have i1 := ensure_finv hf.1 (fun y hy => hw y (by simp [writesEs, hy])) h1
      have i2 := ensureList_finv hf.2 (fun y hy => hw y (by simp [writesEs, hy])) h2
      refine ⟨by simp [fragEs, i1.frag, i2.frag], ?_, i1.hoists.append i2.hoists⟩
      intro y hy
      simp only [writesEs, List.mem_append] at hy
      rcases hy with hy | hy
      · exact i1.writes y hy
      · exact i2.writes y hy

mutual
theorem visitE_finv (cfg : Config) (W : String → Prop) : ∀ (e : Expr) (n : Nat) (e' : Expr) (D : List Stmt) (n' : Nat),
    fragE e = true → (∀ y ∈ writesE e, W y) → visitE cfg e n = .ok (e', D, n') → FInv W e' n D n'
  | .name .., n, e', D, n', _, _, h => by
      vopen h; vclose h; obtain ⟨rfl, rfl, rfl⟩ := h
      exact ⟨rfl, by simp [writesE], rfl⟩
  | .const .., n, e', D, n', _, _, h => by
      vopen h; vclose h; obtain ⟨rfl, rfl, rfl⟩ := h
      exact ⟨rfl, by simp [writesE], rfl⟩
  | .attr i v a c, n, e', D, n', hf, hw, h => by
      simp only [fragE, Bool.and_eq_true] at hf
      simp only [writesE] at hw
      vopen h
      obtain ⟨v1, d1, n1, hv, h⟩ := h
      rcases hE : ensure cfg "Attribute" "value" v1 n1 with ⟨v2, h1, n2⟩
      simp only [hE] at h; vclose h
      obtain ⟨rfl, rfl, rfl⟩ := h
      have iv := visitE_finv cfg W _ _ _ _ _ hf.1 hw hv
      have he := ensure_finv iv.frag iv.writes hE
      have iv0 := visitE_finv cfg (fun _ => False) _ _ _ _ _ hf.1 (fun y hy => writes_nil_of_nw v y hf.2 hy) hv
      have he0 := ensure_finv iv0.frag iv0.writes hE
      have hnw : noWalrus v2 = true := nw_of_writes_nil v2 he0.frag (fun y hy => he0.writes y hy)
      exact ⟨by simp [fragE, he.frag, hnw], by simpa [writesE] using he.writes, iv.hoists.append he.hoists⟩
  | .subscript i v s c, n, e', D, n', hf, hw, h => by
      simp only [fragE, Bool.and_eq_true] at hf
      simp only [writesE, List.mem_append] at hw
      vopen h
      obtain ⟨v1, d1, n1, hv, s1, d2, n2, hs, h⟩ := h
      rcases hE1 : ensure cfg "Subscript" "value" v1 n2 with ⟨v2, h1, n3⟩
      rcases hE2 : ensure cfg "Subscript" "slice" s1 n3 with ⟨s2, h2, n4⟩
      simp only [hE1, hE2] at h; vclose h
      obtain ⟨rfl, rfl, rfl⟩ := h
      have iv := visitE_finv cfg W _ _ _ _ _ hf.1.1.1 (fun y hy => hw y (Or.inl hy)) hv
      have is := visitE_finv cfg W _ _ _ _ _ hf.1.1.2 (fun y hy => hw y (Or.inr hy)) hs
      have he1 := ensure_finv iv.frag iv.writes hE1
      have he2 := ensure_finv is.frag is.writes hE2
      have iv0 := visitE_finv cfg (fun _ => False) _ _ _ _ _ hf.1.1.1 (fun y hy => writes_nil_of_nw v y hf.1.2 hy) hv
      have is0 := visitE_finv cfg (fun _ => False) _ _ _ _ _ hf.1.1.2 (fun y hy => writes_nil_of_nw s y hf.2 hy) hs
      have he10 := ensure_finv iv0.frag iv0.writes hE1
      have he20 := ensure_finv is0.frag is0.writes hE2
      have hnw1 : noWalrus v2 = true := nw_of_writes_nil v2 he10.frag (fun y hy => he10.writes y hy)
      have hnw2 : noWalrus s2 = true := nw_of_writes_nil s2 he20.frag (fun y hy => he20.writes y hy)
      refine ⟨by simp [fragE, he1.frag, he2.frag, hnw1, hnw2], ?_,
        ((iv.hoists.append is.hoists).append he1.hoists).append he2.hoists⟩
      intro y hy
      simp only [writesE, List.mem_append] at hy
      rcases hy with hy | hy
      · exact he1.writes y hy
      · exact he2.writes y hy
  | .call i f as ks, n, e', D, n', hf, hw, h => by
      simp only [fragE, Bool.and_eq_true, List.isEmpty_iff] at hf
      obtain ⟨⟨hff, hfa⟩, rfl⟩ := hf
      simp only [writesE, writesEs, List.append_nil, List.mem_append] at hw
      vopen h
      obtain ⟨f1, d1, n1, hv, as1, d2, n2, has, ks1, d3, n3, hks, h⟩ := h
      vclose hks; obtain ⟨rfl, rfl, rfl⟩ := hks
      rcases hE1 : ensure cfg "Call" "func" f1 n2 with ⟨f2, h1, n4⟩
      rcases hE2 : ensureList cfg "Call" "args" as1 n4 with ⟨as2, h2, n5⟩
      simp only [hE1, hE2, ensureList] at h; vclose h
      obtain ⟨rfl, rfl, rfl⟩ := h
      have i1 := visitE_finv cfg W _ _ _ _ _ hff (fun y hy => hw y (Or.inl hy)) hv
      have i2 := visitEs_finv cfg W _ _ _ _ _ hfa (fun y hy => hw y (Or.inr hy)) has
      have he1 := ensure_finv i1.frag i1.writes hE1
      have he2 := ensureList_finv i2.frag i2.writes hE2
      refine ⟨by simp [fragE, he1.frag, he2.frag], ?_, ?_⟩
      · intro y hy
        simp only [writesE, writesEs, List.append_nil, List.mem_append] at hy
        rcases hy with hy | hy
        · exact he1.writes y hy
        · exact he2.writes y hy
      · simpa using ((i1.hoists.append i2.hoists).append he1.hoists).append he2.hoists
  | .unary i op v, n, e', D, n', hf, hw, h => by
      simp only [fragE] at hf
      simp only [writesE] at hw
      vopen h
      obtain ⟨v1, d1, n1, hv, h⟩ := h
      rcases hE : ensure cfg "UnaryOp" "operand" v1 n1 with ⟨v2, h1, n2⟩
      simp only [hE] at h; vclose h
      obtain ⟨rfl, rfl, rfl⟩ := h
      have iv := visitE_finv cfg W _ _ _ _ _ hf hw hv
      have he := ensure_finv iv.frag iv.writes hE
      exact ⟨by simp [fragE, he.frag], by simpa [writesE] using he.writes, iv.hoists.append he.hoists⟩
  | .binop i op l r, n, e', D, n', hf, hw, h => by
      simp only [fragE, Bool.and_eq_true] at hf
      simp only [writesE, List.mem_append] at hw
      simp only [visitE] at h
      split at h
      · simp at h
      vopen h
      obtain ⟨v1, d1, n1, hv, s1, d2, n2, hs, h⟩ := h
      rcases hE1 : ensure cfg "BinOp" "left" v1 n2 with ⟨v2, h1, n3⟩
      rcases hE2 : ensure cfg "BinOp" "right" s1 n3 with ⟨s2, h2, n4⟩
      simp only [hE1, hE2] at h; vclose h
      obtain ⟨rfl, rfl, rfl⟩ := h
      have iv := visitE_finv cfg W _ _ _ _ _ hf.1 (fun y hy => hw y (Or.inl hy)) hv
      have is := visitE_finv cfg W _ _ _ _ _ hf.2 (fun y hy => hw y (Or.inr hy)) hs
      have he1 := ensure_finv iv.frag iv.writes hE1
      have he2 := ensure_finv is.frag is.writes hE2
      refine ⟨by simp [fragE, he1.frag, he2.frag], ?_, ((iv.hoists.append is.hoists).append he1.hoists).append he2.hoists⟩
      intro y hy
      simp only [writesE, List.mem_append] at hy
      rcases hy with hy | hy
      · exact he1.writes y hy
      · exact he2.writes y hy
  | .compare i l ops rs, n, e', D, n', hf, hw, h => by
      simp only [fragE, Bool.and_eq_true] at hf
      obtain ⟨⟨⟨hl, hrs⟩, hops⟩, hlen⟩ := hf
      simp only [writesE, List.mem_append] at hw
      simp only [visitE] at h
      split at h
      · simp at h
      vopen h
      obtain ⟨v1, d1, n1, hv, s1, d2, n2, hs, h⟩ := h
      rcases hE1 : ensure cfg "Compare" "left" v1 n2 with ⟨v2, h1, n3⟩
      rcases hE2 : ensureList cfg "Compare" "comparators" s1 n3 with ⟨s2, h2, n4⟩
      simp only [hE1, hE2] at h; vclose h
      obtain ⟨rfl, rfl, rfl⟩ := h
      have iv := visitE_finv cfg W _ _ _ _ _ hl (fun y hy => hw y (Or.inl hy)) hv
      have is := visitEs_finv cfg W _ _ _ _ _ hrs (fun y hy => hw y (Or.inr hy)) hs
      have he1 := ensure_finv iv.frag iv.writes hE1
      have he2 := ensureList_finv is.frag is.writes hE2
      have hl2 : s2.length = rs.length := by
        have a := ensureList_length cfg "Compare" "comparators" s1 n3
        rw [hE2] at a
        have b := visitEs_length hs
        simp at a; omega
      refine ⟨by simp [fragE, he1.frag, he2.frag, hops, hl2, hlen], ?_,
        ((iv.hoists.append is.hoists).append he1.hoists).append he2.hoists⟩
      intro y hy
      simp only [writesE, List.mem_append] at hy
      rcases hy with hy | hy
      · exact he1.writes y hy
      · exact he2.writes y hy
  | .seq i k es c, n, e', D, n', hf, hw, h => by
      simp only [fragE, Bool.and_eq_true] at hf
      simp only [writesE] at hw
      have hw0 : ∀ y ∈ writesEs es, (fun _ : String => False) y := fun y hy => writess_nil_of_nw es y hf.2 hy
      cases k with
      | set =>
        vopen h
        obtain ⟨vs1, d1, n1, hv, h⟩ := h
        rcases hE : ensureList cfg "Set" "elts" vs1 n1 with ⟨vs2, h1, n2⟩
        simp only [hE] at h; vclose h
        obtain ⟨rfl, rfl, rfl⟩ := h
        have iv := visitEs_finv cfg W _ _ _ _ _ hf.1 hw hv
        have he := ensureList_finv iv.frag iv.writes hE
        have iv0 := visitEs_finv cfg (fun _ => False) _ _ _ _ _ hf.1 hw0 hv
        have he0 := ensureList_finv iv0.frag iv0.writes hE
        have hnw := nws_of_writes_nil vs2 he0.frag (fun y hy => he0.writes y hy)
        exact ⟨by simp [fragE, he.frag, hnw], by simpa [writesE] using he.writes, iv.hoists.append he.hoists⟩
      | tuple =>
        vopen h
        obtain ⟨vs1, d1, n1, hv, h⟩ := h
        have iv := visitEs_finv cfg W _ _ _ _ _ hf.1 hw hv
        have iv0 := visitEs_finv cfg (fun _ => False) _ _ _ _ _ hf.1 hw0 hv
        split at h
        · vclose h; obtain ⟨rfl, rfl, rfl⟩ := h
          have hnw := nws_of_writes_nil vs1 iv0.frag (fun y hy => iv0.writes y hy)
          exact ⟨by simp [fragE, iv.frag, hnw], by simpa [writesE] using iv.writes, iv.hoists⟩
        · rcases hE : ensureList cfg "Tuple" "elts" vs1 n1 with ⟨vs2, h1, n2⟩
          simp only [hE] at h; vclose h
          obtain ⟨rfl, rfl, rfl⟩ := h
          have he := ensureList_finv iv.frag iv.writes hE
          have he0 := ensureList_finv iv0.frag iv0.writes hE
          have hnw := nws_of_writes_nil vs2 he0.frag (fun y hy => he0.writes y hy)
          exact ⟨by simp [fragE, he.frag, hnw], by simpa [writesE] using he.writes, iv.hoists.append he.hoists⟩
      | list =>
        vopen h
        obtain ⟨vs1, d1, n1, hv, h⟩ := h
        have iv := visitEs_finv cfg W _ _ _ _ _ hf.1 hw hv
        have iv0 := visitEs_finv cfg (fun _ => False) _ _ _ _ _ hf.1 hw0 hv
        split at h
        · vclose h; obtain ⟨rfl, rfl, rfl⟩ := h
          have hnw := nws_of_writes_nil vs1 iv0.frag (fun y hy => iv0.writes y hy)
          exact ⟨by simp [fragE, iv.frag, hnw], by simpa [writesE] using iv.writes, iv.hoists⟩
        · rcases hE : ensureList cfg "List" "elts" vs1 n1 with ⟨vs2, h1, n2⟩
          simp only [hE] at h; vclose h
          obtain ⟨rfl, rfl, rfl⟩ := h
          have he := ensureList_finv iv.frag iv.writes hE
          have he0 := ensureList_finv iv0.frag iv0.writes hE
          have hnw := nws_of_writes_nil vs2 he0.frag (fun y hy => he0.writes y hy)
          exact ⟨by simp [fragE, he.frag, hnw], by simpa [writesE] using he.writes, iv.hoists.append he.hoists⟩
  | .namedexpr i (.name j s .store) v, n, e', D, n', hf, hw, h => by
      simp only [fragE] at hf
      simp only [writesE, namesE, List.mem_append, List.mem_singleton] at hw
      vopen h
      obtain ⟨t1, d1, n1, ht, v1, d2, n2, hv, h⟩ := h
      vclose ht; obtain ⟨rfl, rfl, rfl⟩ := ht
      vclose h; obtain ⟨rfl, rfl, rfl⟩ := h
      have iv := visitE_finv cfg W _ _ _ _ _ hf (fun y hy => hw y (Or.inr hy)) hv
      refine ⟨by simp [fragE, iv.frag], ?_, by simpa using iv.hoists⟩
      intro y hy
      simp only [writesE, namesE, List.mem_append, List.mem_singleton] at hy
      rcases hy with hy | hy
      · exact hw y (Or.inl hy)
      · exact iv.writes y hy
  | .namedexpr _ (.name _ _ .load) _, _, _, _, _, hf, _, _ | .namedexpr _ (.name _ _ .del) _, _, _, _, _, hf, _, _
  | .namedexpr _ (.const ..) _, _, _, _, _, hf, _, _ | .namedexpr _ (.attr ..) _, _, _, _, _, hf, _, _
  | .namedexpr _ (.subscript ..) _, _, _, _, _, hf, _, _ | .namedexpr _ (.call ..) _, _, _, _, _, hf, _, _
  | .namedexpr _ (.keyword ..) _, _, _, _, _, hf, _, _ | .namedexpr _ (.boolop ..) _, _, _, _, _, hf, _, _
  | .namedexpr _ (.unary ..) _, _, _, _, _, hf, _, _ | .namedexpr _ (.binop ..) _, _, _, _, _, hf, _, _
  | .namedexpr _ (.compare ..) _, _, _, _, _, hf, _, _ | .namedexpr _ (.ifexp ..) _, _, _, _, _, hf, _, _
  | .namedexpr _ (.lambda ..) _, _, _, _, _, hf, _, _ | .namedexpr _ (.seq ..) _, _, _, _, _, hf, _, _
  | .namedexpr _ (.starred ..) _, _, _, _, _, hf, _, _ | .namedexpr _ (.namedexpr ..) _, _, _, _, _, hf, _, _
  | .namedexpr _ (.comp ..) _, _, _, _, _, hf, _, _ | .namedexpr _ (.comprehension ..) _, _, _, _, _, hf, _, _
  | .namedexpr _ (.arguments ..) _, _, _, _, _, hf, _, _ | .namedexpr _ (.arg ..) _, _, _, _, _, hf, _, _
  | .namedexpr _ (.withitem ..) _, _, _, _, _, hf, _, _ | .namedexpr _ .noneMarker _, _, _, _, _, hf, _, _
  | .namedexpr _ (.other ..) _, _, _, _, _, hf, _, _
  | .keyword .., _, _, _, _, hf, _, _ | .boolop .., _, _, _, _, hf, _, _ | .ifexp .., _, _, _, _, hf, _, _
  | .lambda .., _, _, _, _, hf, _, _ | .starred .., _, _, _, _, hf, _, _ | .comp .., _, _, _, _, hf, _, _
  | .comprehension .., _, _, _, _, hf, _, _ | .arguments .., _, _, _, _, hf, _, _ | .arg .., _, _, _, _, hf, _, _
  | .withitem .., _, _, _, _, hf, _, _ | .noneMarker, _, _, _, _, hf, _, _ | .other .., _, _, _, _, hf, _, _ => by
      simp [fragE] at hf
theorem visitEs_finv (cfg : Config) (W : String → Prop) : ∀ (es : List Expr) (n : Nat) (es' : List Expr) (D : List Stmt)
    (n' : Nat), fragEs es = true → (∀ y ∈ writesEs es, W y) → visitEs cfg es n = .ok (es', D, n') → FsInv W es' n D n'
  | [], n, es', D, n', _, _, h => by
      vopen h; vclose h; obtain ⟨rfl, rfl, rfl⟩ := h
      exact ⟨rfl, by simp [writesEs], rfl⟩
  | e :: es, n, es', D, n', hf, hw, h => by
      simp only [fragEs, Bool.and_eq_true] at hf
      simp only [writesEs, List.mem_append] at hw
      vopen h
      obtain ⟨v1, d1, n1, hv, s1, d2, n2, hs, h⟩ := h
      vclose h; obtain ⟨rfl, rfl, rfl⟩ := h
      have iv := visitE_finv cfg W _ _ _ _ _ hf.1 (fun y hy => hw y (Or.inl hy)) hv
      have is := visitEs_finv cfg W _ _ _ _ _ hf.2 (fun y hy => hw y (Or.inr hy)) hs
      refine ⟨by simp [fragEs, iv.frag, is.frag], ?_, iv.hoists.append is.hoists⟩
      intro y hy
      simp only [writesEs, List.mem_append] at hy
      rcases hy with hy | hy
      · exact iv.writes y hy
      · exact is.writes y hy
end

end Malt.Anf
