import MaltModel.Sem.WrappersTarget
import MaltModel.Proofs.C01ExprsStmt
/-
Helper development for the target-language theorems of Props/C01Exprs.lean: `gexecN_map_congr_all`
(replacing the expressions of a functionalised program by equivalent ones leaves the native run unchanged;
the scoping `localsOf` only looks at the statement structure) and `execN_eq_gexecN_all`
(`Malt.Func.execN` is `gexecN (evalT X) .const`).
-/
namespace Malt.C01Exprs
open Malt.Sem (Name Val BinOp Exc Event St Ext Out truthy iterItems)
open Malt.Func (TSt Slot mask restore withFrame fnOut)
open Malt.SemW

section direct
variable {ε ε' : Type} (f : ε → ε')
mutual
theorem gdirectS_map : ∀ (s : GTStmt ε), gdirectS (gmapT f s) = gdirectS s
  | .assign .. => by simp [gmapT, gdirectS]
  | .expr .. => by simp [gmapT, gdirectS]
  | .pass => by simp [gmapT, gdirectS]
  | .ret .. => by simp [gmapT, gdirectS]
  | .raise .. => by simp [gmapT, gdirectS]
  | .undefAssign .. => by simp [gmapT, gdirectS]
  | .ifF .. => by simp [gmapT, gdirectS]
  | .whileF .. => by simp [gmapT, gdirectS]
  | .forF .. => by simp [gmapT, gdirectS]
  | .withT _ b => by simp [gmapT, gdirectS, gdirect_map b]
  | .tryT b hs fin => by simp [gmapT, gdirectS, gdirect_map b, gdirectH_map hs, gdirect_map fin]
theorem gdirect_map : ∀ (b : List (GTStmt ε)), gdirect (gmapTB f b) = gdirect b
  | [] => by simp [gmapTB, gdirect]
  | s :: ss => by simp [gmapTB, gdirect, gdirectS_map s, gdirect_map ss]
theorem gdirectH_map : ∀ (hs : List (Nat × List (GTStmt ε))), gdirectH (gmapTH f hs) = gdirectH hs
  | [] => by simp [gmapTH, gdirectH]
  | (_, b) :: hs => by simp [gmapTH, gdirectH, gdirect_map b, gdirectH_map hs]
end

theorem glocalsOf_map (b : GTBlock ε) (d : List Name) : glocalsOf (gmapTB f b) d = glocalsOf b d := by
  simp [glocalsOf, gdirect_map]
theorem glocalsFor_map (x : Name) (b : GTBlock ε) (d : List Name) : glocalsFor x (gmapTB f b) d = glocalsFor x b d := by
  simp [glocalsFor, gdirect_map]
end direct

mutual
theorem gdirectS_toGT : ∀ (s : Malt.Func.TStmt), gdirectS (toGT s) = Malt.Func.directS s
  | .assign .. => by simp [toGT, gdirectS, Malt.Func.directS]
  | .expr .. => by simp [toGT, gdirectS, Malt.Func.directS]
  | .pass => by simp [toGT, gdirectS, Malt.Func.directS]
  | .ret .. => by simp [toGT, gdirectS, Malt.Func.directS]
  | .raise .. => by simp [toGT, gdirectS, Malt.Func.directS]
  | .undefAssign .. => by simp [toGT, gdirectS, Malt.Func.directS]
  | .ifF .. => by simp [toGT, gdirectS, Malt.Func.directS]
  | .whileF .. => by simp [toGT, gdirectS, Malt.Func.directS]
  | .forF .. => by simp [toGT, gdirectS, Malt.Func.directS]
  | .withT _ b => by simp [toGT, gdirectS, Malt.Func.directS, gdirect_toGT b]
  | .tryT b hs fin => by simp [toGT, gdirectS, Malt.Func.directS, gdirect_toGT b, gdirectH_toGT hs, gdirect_toGT fin]
theorem gdirect_toGT : ∀ (b : List Malt.Func.TStmt), gdirect (toGTB b) = Malt.Func.direct b
  | [] => by simp [toGTB, gdirect, Malt.Func.direct]
  | s :: ss => by simp [toGTB, gdirect, Malt.Func.direct, gdirectS_toGT s, gdirect_toGT ss]
theorem gdirectH_toGT : ∀ (hs : List (Nat × List Malt.Func.TStmt)), gdirectH (toGTH hs) = Malt.Func.directH hs
  | [] => by simp [toGTH, gdirectH, Malt.Func.directH]
  | (_, b) :: hs => by simp [toGTH, gdirectH, Malt.Func.directH, gdirect_toGT b, gdirectH_toGT hs]
end

theorem glocalsOf_toGT (b : Malt.Func.TBlock) (d : List Name) : glocalsOf (toGTB b) d = Malt.Func.localsOf b d := by
  simp [glocalsOf, Malt.Func.localsOf, gdirect_toGT]
theorem glocalsFor_toGT (x : Name) (b : Malt.Func.TBlock) (d : List Name) :
    glocalsFor x (toGTB b) d = Malt.Func.localsFor x b d := by
  simp [glocalsFor, Malt.Func.localsFor, gdirect_toGT]

section congrT
variable {ε ε' : Type} (f : ε → ε') (evT' : ε' → TSt → Except Exc Val × TSt) (evT : ε → TSt → Except Exc Val × TSt)
  (mk' : Val → ε') (mk : Val → ε) (q : ε → Bool)
  (hq : ∀ e, q e = true → ∀ σ, evT' (f e) σ = evT e σ) (hmk : ∀ v, f (mk v) = mk' v) (hqmk : ∀ v, q (mk v) = true)

theorem gfindHandlerT_map : ∀ (hs : List (Nat × GTBlock ε)) (ex : Exc),
    gfindHandlerT (gmapTH f hs) ex = (gfindHandlerT hs ex).map (gmapTB f) := by
  intro hs ex
  cases ex with
  | user t =>
      induction hs with
      | nil => simp [gmapTH, gfindHandlerT]
      | cons h hs ih =>
          obtain ⟨t', b⟩ := h
          simp only [gmapTH, gfindHandlerT, List.find?] at ih ⊢
          by_cases ht : (t' == t) = true
          · simp [ht]
          · simp [ht]; simpa using ih
  | nameError x => simp [gfindHandlerT]
  | typeError => simp [gfindHandlerT]

theorem gallTH_find : ∀ (hs : List (Nat × GTBlock ε)) (ex : Exc) (b : GTBlock ε),
    gallTH q hs = true → gfindHandlerT hs ex = some b → gallTB q b = true := by
  intro hs ex b hall hf
  cases ex with
  | user t =>
      induction hs with
      | nil => simp [gfindHandlerT] at hf
      | cons h hs ih =>
          obtain ⟨t', b'⟩ := h
          simp only [gallTH, Bool.and_eq_true] at hall
          simp only [gfindHandlerT, List.find?] at hf ih
          by_cases ht : (t' == t) = true
          · simp [ht] at hf; subst hf; exact hall.1
          · simp [ht] at hf; exact ih hall.2 (by simpa using hf)
  | nameError x => simp [gfindHandlerT] at hf
  | typeError => simp [gfindHandlerT] at hf

include hq hmk hqmk in
theorem gexecN_map_congr_all : ∀ (n : Nat),
    (∀ (s : GTStmt ε) (σ : TSt), gallT q s = true → gexecN evT' mk' n (gmapT f s) σ = gexecN evT mk n s σ) ∧
    (∀ (b : GTBlock ε) (σ : TSt), gallTB q b = true → gexecNB evT' mk' n (gmapTB f b) σ = gexecNB evT mk n b σ) ∧
    (∀ (x : Name) (extra : Option ε) (b : GTBlock ε) (d : List Name) (items : List Val) (σ : TSt),
      (match extra with | none => true | some t => q t) = true → gallTB q b = true →
      gexecNFor evT' mk' n x (extra.map f) (gmapTB f b) d items σ = gexecNFor evT mk n x extra b d items σ) := by
  intro n
  induction n with
  | zero => exact ⟨by intros; simp [gexecN], by intros; simp [gexecNB], by intros; simp [gexecNFor]⟩
  | succ n ih =>
    obtain ⟨ihS, ihB, ihF⟩ := ih
    refine ⟨?_, ?_, ?_⟩
    · intro s σ hs
      cases s with
      | assign x e =>
          simp only [gallT] at hs
          simp only [gmapT, gexecN, hq e hs]
      | expr e =>
          simp only [gallT] at hs
          simp only [gmapT, gexecN, hq e hs]
      | pass => simp [gmapT, gexecN]
      | ret e =>
          cases e with
          | none => simp [gmapT, gexecN]
          | some e =>
              simp only [gallT] at hs
              simp only [gmapT, gexecN, Option.map, hq e hs]
      | raise t => simp [gmapT, gexecN]
      | undefAssign x => simp [gmapT, gexecN]
      | ifF c b e d k =>
          simp only [gallT, Bool.and_eq_true] at hs
          simp only [gmapT, gexecN, hq c hs.1.1, glocalsOf_map]
          rcases evT c σ with ⟨ex | v, σ1⟩
          · rfl
          · simp only []
            split
            · rw [ihB b _ hs.1.2]
            · rw [ihB e _ hs.2]
      | whileF c b d =>
          have hs' := hs
          simp only [gallT, Bool.and_eq_true] at hs
          have hw : ∀ σ2, gexecN evT' mk' n (.whileF (f c) (gmapTB f b) d) σ2 = gexecN evT mk n (.whileF c b d) σ2 := by
            intro σ2; have := ihS (.whileF c b d) σ2 hs'; simpa only [gmapT] using this
          simp only [gmapT, gexecN, hq c hs.1, glocalsOf_map]
          rcases evT c σ with ⟨ex | v, σ1⟩
          · rfl
          · simp only []
            split
            · rfl
            · rw [ihB b _ hs.2]
              rcases withFrame (glocalsOf b d) σ1 (gexecNB evT mk n b (mask (glocalsOf b d) σ1)) with _ | ⟨o, σ2⟩
              · rfl
              · cases o <;> simp only [hw]
      | forF x it extra b d =>
          simp only [gallT, Bool.and_eq_true] at hs
          simp only [gmapT, gexecN, hq it hs.1.1]
          rcases evT it σ with ⟨ex | v, σ1⟩
          · rfl
          · simp only []
            cases iterItems v with
            | error ex => rfl
            | ok items =>
                simp only []
                cases extra with
                | none =>
                    simp only [Option.map]
                    exact ihF x none b d items σ1 rfl hs.2
                | some t =>
                    have ht : q t = true := by simpa using hs.1.2
                    simp only [Option.map, hq t ht]
                    rcases evT t σ1 with ⟨ex | tv, σ2⟩
                    · rfl
                    · simp only []
                      split
                      · have := ihF x (some t) b d items σ2 (by simpa using ht) hs.2
                        simpa only [Option.map] using this
                      · rfl
      | withT tag b =>
          simp only [gallT] at hs
          simp only [gmapT, gexecN, ihB b _ hs]
      | tryT body hs' fin =>
          simp only [gallT, Bool.and_eq_true] at hs
          simp only [gmapT, gexecN, ihB body σ hs.1.1]
          rcases gexecNB evT mk n body σ with _ | ⟨o, σ1⟩
          · rfl
          · simp only []
            cases o with
            | exc ex =>
                simp only [gfindHandlerT_map]
                cases hfh : gfindHandlerT hs' ex with
                | none => simp only [Option.map, ihB fin σ1 hs.2]
                | some hb =>
                    simp only [Option.map, ihB hb σ1 (gallTH_find q hs' ex hb hs.1.2 hfh)]
                    rcases gexecNB evT mk n hb σ1 with _ | ⟨o', σ2⟩
                    · rfl
                    · simp only [ihB fin σ2 hs.2]
            | normal => simp only [ihB fin σ1 hs.2]
            | brk => simp only [ihB fin σ1 hs.2]
            | cont => simp only [ihB fin σ1 hs.2]
            | ret v => simp only [ihB fin σ1 hs.2]
    · intro b σ hb
      cases b with
      | nil => simp [gmapTB, gexecNB]
      | cons s rest =>
          simp only [gallTB, Bool.and_eq_true] at hb
          simp only [gmapTB, gexecNB, ihS s σ hb.1]
          rcases gexecN evT mk n s σ with _ | ⟨o, σ1⟩
          · rfl
          · cases o <;> simp only [ihB rest σ1 hb.2]
    · intro x extra b d items σ hx hb
      cases items with
      | nil => simp [gexecNFor]
      | cons v items =>
          have hbody : ∀ σ2, gexecNB evT' mk' n (.assign x (mk' v) :: gmapTB f b) σ2 = gexecNB evT mk n (.assign x (mk v) :: b) σ2 := by
            intro σ2
            have := ihB (.assign x (mk v) :: b) σ2 (by simp [gallTB, gallT, hqmk v, hb])
            simpa only [gmapTB, gmapT, hmk v] using this
          simp only [gexecNFor, glocalsFor_map, hbody]
          rcases withFrame (glocalsFor x b d) σ (gexecNB evT mk n (.assign x (mk v) :: b) (mask (glocalsFor x b d) σ)) with _ | ⟨o, σ1⟩
          · rfl
          · cases extra with
            | none =>
                have := ihF x none b d items σ1 rfl hb
                simp only [Option.map] at this ⊢
                cases o <;> simp [this]
            | some t =>
                have ht : q t = true := by simpa using hx
                have hF : ∀ σ2, gexecNFor evT' mk' n x (some (f t)) (gmapTB f b) d items σ2 = gexecNFor evT mk n x (some t) b d items σ2 := by
                  intro σ2; have := ihF x (some t) b d items σ2 hx hb; simpa only [Option.map] using this
                simp only [Option.map, hq t ht, hF]

end congrT

/-! ### `Malt.Func.execN` is `gexecN (evalT X) .const` -/
theorem gfindHandlerT_toGTH : ∀ (hs : List (Nat × Malt.Func.TBlock)) (ex : Exc),
    gfindHandlerT (toGTH hs) ex = (Malt.Func.findHandlerT hs ex).map toGTB := by
  intro hs ex
  cases ex with
  | user t =>
      induction hs with
      | nil => simp [toGTH, gfindHandlerT, Malt.Func.findHandlerT]
      | cons h hs ih =>
          obtain ⟨t', b⟩ := h
          simp only [toGTH, gfindHandlerT, Malt.Func.findHandlerT, List.find?] at ih ⊢
          by_cases ht : (t' == t) = true
          · simp [ht]
          · simp [ht]; simpa using ih
  | nameError x => simp [gfindHandlerT, Malt.Func.findHandlerT]
  | typeError => simp [gfindHandlerT, Malt.Func.findHandlerT]

theorem execN_eq_gexecN_all (X : Ext) : ∀ (n : Nat),
    (∀ (s : Malt.Func.TStmt) (σ : TSt),
      Malt.Func.execN X n s σ = gexecN (Malt.Func.evalT X) Malt.Sem.Expr.const n (toGT s) σ) ∧
    (∀ (b : Malt.Func.TBlock) (σ : TSt),
      Malt.Func.execNB X n b σ = gexecNB (Malt.Func.evalT X) Malt.Sem.Expr.const n (toGTB b) σ) ∧
    (∀ (x : Name) (extra : Option Malt.Sem.Expr) (b : Malt.Func.TBlock) (d : List Name) (items : List Val) (σ : TSt),
      Malt.Func.execNFor X n x extra b d items σ
        = gexecNFor (Malt.Func.evalT X) Malt.Sem.Expr.const n x extra (toGTB b) d items σ) := by
  intro n
  induction n with
  | zero => exact ⟨by intros; simp [Malt.Func.execN, gexecN], by intros; simp [Malt.Func.execNB, gexecNB],
      by intros; simp [Malt.Func.execNFor, gexecNFor]⟩
  | succ n ih =>
    obtain ⟨ihS, ihB, ihF⟩ := ih
    refine ⟨?_, ?_, ?_⟩
    · intro s σ
      cases s with
      | assign x e =>
          simp only [Malt.Func.execN, toGT, gexecN]
          rcases Malt.Func.evalT X e σ with ⟨ex | v, σ1⟩ <;> rfl
      | expr e =>
          simp only [Malt.Func.execN, toGT, gexecN]
          rcases Malt.Func.evalT X e σ with ⟨ex | v, σ1⟩ <;> rfl
      | pass => simp [Malt.Func.execN, toGT, gexecN]
      | ret e =>
          cases e with
          | none => simp [Malt.Func.execN, toGT, gexecN]
          | some e =>
              simp only [Malt.Func.execN, toGT, gexecN]
              rcases Malt.Func.evalT X e σ with ⟨ex | v, σ1⟩ <;> rfl
      | raise t => simp [Malt.Func.execN, toGT, gexecN]
      | undefAssign x => simp [Malt.Func.execN, toGT, gexecN]
      | ifF c b e d k =>
          simp only [Malt.Func.execN, toGT, gexecN, ihB, glocalsOf_toGT]
          rcases Malt.Func.evalT X c σ with ⟨ex | v, σ1⟩ <;> rfl
      | whileF c b d =>
          have hw : ∀ σ2, Malt.Func.execN X n (.whileF c b d) σ2
              = gexecN (Malt.Func.evalT X) Malt.Sem.Expr.const n (.whileF c (toGTB b) d) σ2 := by
            intro σ2; have := ihS (.whileF c b d) σ2; simpa only [toGT] using this
          simp only [Malt.Func.execN, toGT, gexecN, ihB, hw, glocalsOf_toGT]
          rcases Malt.Func.evalT X c σ with ⟨ex | v, σ1⟩
          · rfl
          · simp only []
            split
            · rfl
            · rcases withFrame (Malt.Func.localsOf b d) σ1
                (gexecNB (Malt.Func.evalT X) Malt.Sem.Expr.const n (toGTB b) (mask (Malt.Func.localsOf b d) σ1)) with _ | ⟨o, σ2⟩
              · rfl
              · cases o <;> rfl
      | forF x it extra b d =>
          simp only [Malt.Func.execN, toGT, gexecN, ihF]
          rcases Malt.Func.evalT X it σ with ⟨ex | v, σ1⟩
          · rfl
          · simp only []
            cases iterItems v with
            | error ex => rfl
            | ok items =>
                simp only []
                cases extra with
                | none => rfl
                | some t =>
                    simp only []
                    rcases Malt.Func.evalT X t σ1 with ⟨ex | tv, σ2⟩ <;> rfl
      | withT tag body =>
          simp only [Malt.Func.execN, toGT, gexecN, ihB]
          rcases gexecNB (Malt.Func.evalT X) Malt.Sem.Expr.const n (toGTB body) (σ.push (.enter tag)) with _ | ⟨o, σ1⟩ <;> rfl
      | tryT body hs fin =>
          simp only [Malt.Func.execN, toGT, gexecN, ihB]
          rcases gexecNB (Malt.Func.evalT X) Malt.Sem.Expr.const n (toGTB body) σ with _ | ⟨o, σ1⟩
          · rfl
          · simp only []
            cases o with
            | exc ex =>
                simp only [gfindHandlerT_toGTH]
                cases Malt.Func.findHandlerT hs ex with
                | none =>
                    simp only [Option.map]
                    rcases gexecNB (Malt.Func.evalT X) Malt.Sem.Expr.const n (toGTB fin) σ1 with _ | ⟨o2, σ3⟩
                    · rfl
                    · cases o2 <;> rfl
                | some hb =>
                    simp only [Option.map]
                    rcases gexecNB (Malt.Func.evalT X) Malt.Sem.Expr.const n (toGTB hb) σ1 with _ | ⟨o', σ2⟩
                    · rfl
                    · simp only []
                      rcases gexecNB (Malt.Func.evalT X) Malt.Sem.Expr.const n (toGTB fin) σ2 with _ | ⟨o2, σ3⟩
                      · rfl
                      · cases o2 <;> rfl
            | normal =>
                simp only []
                rcases gexecNB (Malt.Func.evalT X) Malt.Sem.Expr.const n (toGTB fin) σ1 with _ | ⟨o2, σ3⟩
                · rfl
                · cases o2 <;> rfl
            | brk =>
                simp only []
                rcases gexecNB (Malt.Func.evalT X) Malt.Sem.Expr.const n (toGTB fin) σ1 with _ | ⟨o2, σ3⟩
                · rfl
                · cases o2 <;> rfl
            | cont =>
                simp only []
                rcases gexecNB (Malt.Func.evalT X) Malt.Sem.Expr.const n (toGTB fin) σ1 with _ | ⟨o2, σ3⟩
                · rfl
                · cases o2 <;> rfl
            | ret v =>
                simp only []
                rcases gexecNB (Malt.Func.evalT X) Malt.Sem.Expr.const n (toGTB fin) σ1 with _ | ⟨o2, σ3⟩
                · rfl
                · cases o2 <;> rfl
    · intro b σ
      cases b with
      | nil => simp [Malt.Func.execNB, toGTB, gexecNB]
      | cons s rest =>
          simp only [Malt.Func.execNB, toGTB, gexecNB, ihS, ihB]
          rcases gexecN (Malt.Func.evalT X) Malt.Sem.Expr.const n (toGT s) σ with _ | ⟨o, σ1⟩
          · rfl
          · cases o <;> rfl
    · intro x extra b d items σ
      cases items with
      | nil => simp [Malt.Func.execNFor, gexecNFor]
      | cons v items =>
          have hbody : ∀ σ2, Malt.Func.execNB X n (.assign x (.const v) :: b) σ2
              = gexecNB (Malt.Func.evalT X) Malt.Sem.Expr.const n (.assign x (.const v) :: toGTB b) σ2 := by
            intro σ2; have := ihB (.assign x (.const v) :: b) σ2; simpa only [toGTB, toGT] using this
          simp only [Malt.Func.execNFor, gexecNFor, hbody, ihF, glocalsFor_toGT]
          rcases withFrame (Malt.Func.localsFor x b d) σ
              (gexecNB (Malt.Func.evalT X) Malt.Sem.Expr.const n (.assign x (.const v) :: toGTB b)
                (mask (Malt.Func.localsFor x b d) σ)) with _ | ⟨o, σ1⟩
          · rfl
          · cases extra with
            | none => cases o <;> rfl
            | some t =>
                cases o <;> simp only [] <;> (try rfl)
                all_goals (rcases Malt.Func.evalT X t σ1 with ⟨ex | tv, σ2⟩ <;> rfl)

mutual
theorem gallT_true {ε : Type} : ∀ (s : GTStmt ε), gallT (fun _ => true) s = true
  | .assign .. => rfl
  | .expr .. => rfl
  | .pass => rfl
  | .ret e => by cases e <;> rfl
  | .raise _ => rfl
  | .undefAssign _ => rfl
  | .ifF _ b e _ _ => by simp [gallT, gallTB_true b, gallTB_true e]
  | .whileF _ b _ => by simp [gallT, gallTB_true b]
  | .forF _ _ extra b _ => by cases extra <;> simp [gallT, gallTB_true b]
  | .withT _ b => by simp [gallT, gallTB_true b]
  | .tryT b hs f => by simp [gallT, gallTB_true b, gallTH_true hs, gallTB_true f]
theorem gallTB_true {ε : Type} : ∀ (b : List (GTStmt ε)), gallTB (fun _ => true) b = true
  | [] => rfl
  | s :: ss => by simp [gallTB, gallT_true s, gallTB_true ss]
theorem gallTH_true {ε : Type} : ∀ (hs : List (Nat × List (GTStmt ε))), gallTH (fun _ => true) hs = true
  | [] => rfl
  | (_, b) :: hs => by simp [gallTH, gallTB_true b, gallTH_true hs]
end

end Malt.C01Exprs
