import MaltModel.Rt.Policy
/-!
Helper lemmas for `Props/C13.lean` (no property theorem lives here).
-/
namespace Malt.Policy
open Malt.Gen.Policy

theorem decideIn_nil (p : Bool) (d : Desc) (env : Env) (o : Opts) : decideIn [] p d env o = .stuck := rfl

theorem decideIn_cons (s : Step) (ss : List Step) (p : Bool) (d : Desc) (env : Env) (o : Opts) :
    decideIn (s :: ss) p d env o = if fires p d env o s.check = true then actionOf s else decideIn ss p d env o := by
  unfold decideIn
  by_cases h : fires p d env o s.check = true
  · simp [List.find?, h]
  · simp only [Bool.not_eq_true] at h
    simp [List.find?, h]

def Action.partOk : Action → Bool
  | .unwrap => true
  | .skip c _ => c != .unsupported
  | _ => false

def Action.baseOk : Action → Bool
  | .skip _ _ => true
  | .builtin => true
  | .unknownKind => true
  | .convert => true
  | _ => false

/-- the conclusion of transparency for one effect -/
def Transparent {α} (e : Effect α) (c : Callable α) (args : List α) (kw : Option (Kw α)) : Prop :=
  e.raised = false → e.invocations = 1 ∧ e.binding = direct c args (kw.getD [])

theorem unconvertedEff_transparent {α} (c : Callable α) (args : List α) (kw : Option (Kw α)) (att w : Bool) :
    Transparent (unconvertedEff c args kw att w) c args kw := by
  unfold Transparent unconvertedEff
  split <;> simp [Effect.raise]

theorem handleFailure_transparent {α} (s f : Bool) (env : Env) (d : Desc) (c : Callable α) (args : List α)
    (kw : Option (Kw α)) (exc : ExcClass) (att : Bool) :
    Transparent (handleFailure s f env d c args kw exc att).1 c args kw := by
  unfold handleFailure
  split
  · simp [Transparent, Effect.raise]
  · split
    · exact unconvertedEff_transparent _ _ _ _ _
    · simp [Transparent, Effect.raise]

theorem level_transparent {α} (a : Action) (env : Env) (d : Desc) (self : Option α) (c : Callable α)
    (args : List α) (kw : Option (Kw α))
    (hconv : a = .convert → effectiveArgs d.kind self args = (direct c args (kw.getD [])).pos ∧
                             (direct c args (kw.getD [])).kw = kw.getD []) :
    Transparent (level a env d self c args kw).1 c args kw := by
  cases a with
  | skip chk upd => exact unconvertedEff_transparent _ _ _ _ _
  | builtin =>
    simp only [level]
    split <;> simp [Transparent, Effect.raise]
  | unknownKind => exact handleFailure_transparent _ _ _ _ _ _ _ _ _
  | convert =>
    simp only [level]
    split
    · split
      · simp [Transparent, Effect.raise]
      · obtain ⟨h1, h2⟩ := hconv rfl
        intro _
        refine ⟨rfl, ?_⟩
        show (⟨effectiveArgs d.kind self args, kw.getD []⟩ : Binding α) = direct c args (kw.getD [])
        cases hd : direct c args (kw.getD []) with
        | mk p k =>
          rw [hd] at h1 h2
          simp only at h1 h2
          rw [h1, h2]
    · exact handleFailure_transparent _ _ _ _ _ _ _ _ _
  | unwrap => simp [level, Transparent, Effect.raise]
  | stuck => simp [level, Transparent, Effect.raise]

theorem dictGet_dictSet {α} (d : Kw α) (k k' : String) (v : α) :
    dictGet k' (dictSet d k v) = if k = k' then some v else dictGet k' d := by
  induction d with
  | nil => simp [dictSet, dictGet]
  | cons p r ih =>
    obtain ⟨k1, v1⟩ := p
    by_cases h1 : k1 = k
    · subst h1
      by_cases h2 : k1 = k' <;> simp [dictSet, dictGet, h2]
    · by_cases h2 : k1 = k'
      · subst h2
        simp [dictSet, dictGet, h1, Ne.symm h1]
      · simp [dictSet, dictGet, h1, h2, ih]

theorem dictGet_dictUpdate {α} (d u : Kw α) (k : String) :
    dictGet k (dictUpdate d u) = match lastIn k u with
                                 | some v => some v
                                 | none => dictGet k d := by
  induction u generalizing d with
  | nil => simp [dictUpdate, lastIn]
  | cons p r ih =>
    obtain ⟨k1, v1⟩ := p
    have : dictUpdate d ((k1, v1) :: r) = dictUpdate (dictSet d k1 v1) r := by simp [dictUpdate]
    rw [this, ih, dictGet_dictSet]
    cases h : lastIn k r <;> by_cases hk : k1 = k <;> simp [lastIn, h, hk]

theorem direct_remembered {α} (c : Callable α) (args : List α) (kw : Kw α) :
    direct c.remembered args kw = direct c args kw := by
  induction c generalizing args kw with
  | base d self binds => simp [Callable.remembered, direct]
  | part d a0 k0 inner ih => simp [Callable.remembered, direct, ih]

theorem keys_dictSet {α} (d : Kw α) (k : String) (v : α) :
    keys (dictSet d k v) = if k ∈ keys d then keys d else keys d ++ [k] := by
  induction d with
  | nil => simp [dictSet, keys]
  | cons p r ih =>
    obtain ⟨k1, v1⟩ := p
    by_cases h : k1 = k
    · subst h; simp [dictSet, keys]
    · have hne : ¬ k = k1 := fun e => h e.symm
      simp only [dictSet, h, if_false, keys, List.map_cons, List.mem_cons, hne, false_or] at ih ⊢
      by_cases hm : k ∈ List.map Prod.fst r
      · simp [hm] at ih ⊢; exact ih
      · simp [hm] at ih ⊢; exact ih

theorem nodup_dictSet {α} (d : Kw α) (k : String) (v : α) (h : (keys d).Nodup) : (keys (dictSet d k v)).Nodup := by
  rw [keys_dictSet]
  by_cases hm : k ∈ keys d
  · simp [hm, h]
  · simp only [hm, if_false]
    rw [List.nodup_append]
    refine ⟨h, by simp, ?_⟩
    intro a ha b hb
    simp at hb
    subst hb
    intro e; subst e; exact hm ha

theorem nodup_dictUpdate {α} (d u : Kw α) (h : (keys d).Nodup) : (keys (dictUpdate d u)).Nodup := by
  induction u generalizing d with
  | nil => simpa [dictUpdate] using h
  | cons p r ih =>
    have : dictUpdate d (p :: r) = dictUpdate (dictSet d p.1 p.2) r := by simp [dictUpdate]
    rw [this]
    exact ih _ (nodup_dictSet d p.1 p.2 h)

theorem dictGet_none_of_not_mem {α} (d : Kw α) (k : String) (h : k ∉ keys d) : dictGet k d = none := by
  induction d with
  | nil => rfl
  | cons p r ih =>
    obtain ⟨k1, v1⟩ := p
    simp only [keys, List.map_cons, List.mem_cons, not_or] at h
    have : ¬ k1 = k := fun e => h.1 e.symm
    simp [dictGet, this, ih (by simpa [keys] using h.2)]

theorem lastIn_eq_dictGet {α} (u : Kw α) (k : String) (h : (keys u).Nodup) : lastIn k u = dictGet k u := by
  induction u with
  | nil => rfl
  | cons p r ih =>
    obtain ⟨k1, v1⟩ := p
    simp only [keys, List.map_cons, List.nodup_cons] at h
    have ih' := ih (by simpa [keys] using h.2)
    by_cases hk : k1 = k
    · subst hk
      have := dictGet_none_of_not_mem r k1 (by simpa [keys] using h.1)
      simp [lastIn, dictGet, ih', this]
    · simp only [lastIn, dictGet, hk, if_false, ih']
      cases dictGet k r <;> rfl

/-- may this action write the negative cache? -/
def mayRemember (d : Desc) : Action → Bool
  | .skip _ upd => upd
  | .unknownKind => true
  | .convert => d.fail.isSome
  | _ => false

end Malt.Policy
