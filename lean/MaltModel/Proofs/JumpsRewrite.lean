import MaltModel.Sem.CoreLemmas
import MaltModel.Conv.JumpsSem
/-
The conditional-return rewriting (`rwS/rwB/rwH`, the semantic counterpart of `ConditionalReturnRewriter`)
preserves behaviour exactly: same outcome, same final state (no generated names are involved).
-/
namespace Malt.Sem.Jumps
open Malt.Sem

/-- `rwB` on a block whose first statement is not an `if`. -/
theorem rwB_cons_other (s : Stmt) (rest : List Stmt) (h : ∀ c t e, s ≠ .ifS c t e) :
    rwB (s :: rest) = ((rwS s).1 :: (rwB rest).1, (rwS s).2 || (rwB rest).2) := by
  cases s with
  | ifS c t e => exact absurd rfl (h c t e)
  | _ => simp [rwB]

/-- The flag of a block, uniformly. -/
theorem rwB_cons_flag (s : Stmt) (rest : List Stmt) : (rwB (s :: rest)).2 = ((rwS s).2 || (rwB rest).2) := by
  cases s with
  | ifS c t e =>
    simp only [rwB, rwS]
    split
    · rfl
    · split <;> rfl
  | _ => simp [rwB]

/-- A statement / block that "definitely returns" never completes normally. -/
theorem dr_outcome_all (X : Ext) : ∀ n,
    (∀ s σ o σ1, (rwS s).2 = true → exec X n s σ = some (o, σ1) → o ≠ .normal) ∧
    (∀ b σ o σ1, (rwB b).2 = true → execB X n b σ = some (o, σ1) → o ≠ .normal) := by
  intro n
  induction n with
  | zero =>
    exact ⟨fun s σ o σ1 _ h => by simp [exec] at h, fun b σ o σ1 _ h => by simp [execB] at h⟩
  | succ n ih =>
    obtain ⟨ihS, ihB⟩ := ih
    refine ⟨?_, ?_⟩
    · intro s σ o σ1 hd h
      cases s with
      | ret e =>
        cases e with
        | none => simp [exec] at h; simp [← h.1]
        | some e => simp only [exec] at h; split at h <;> simp at h <;> simp [← h.1]
      | ifS c t e =>
        simp only [rwS, Bool.and_eq_true] at hd
        simp only [exec] at h
        split at h
        · split at h
          · exact ihB _ _ _ _ hd.1 h
          · exact ihB _ _ _ _ hd.2 h
        · simp at h; simp [← h.1]
      | withS tag b =>
        simp only [rwS] at hd
        simp only [exec] at h
        cases hb : execB X n b (σ.push (.enter tag)) with
        | none => simp [hb] at h
        | some rb =>
          obtain ⟨ob, τ⟩ := rb
          rw [hb] at h; simp at h; rw [← h.1]
          exact ihB _ _ _ _ hd hb
      | assign x e => simp [rwS] at hd
      | expr e => simp [rwS] at hd
      | whileS c b => simp [rwS] at hd
      | forS x it ex b => simp [rwS] at hd
      | brk => simp [rwS] at hd
      | cont => simp [rwS] at hd
      | raise t => simp [rwS] at hd
      | pass => simp [rwS] at hd
      | tryS b hs f => simp [rwS] at hd
    · intro b σ o σ1 hd h
      cases b with
      | nil => simp [rwB] at hd
      | cons s rest =>
        rw [rwB_cons_flag, Bool.or_eq_true] at hd
        obtain ⟨os, σs, hs, hcase⟩ := execB_cons_inv h
        rcases hcase with ⟨hn, hr⟩ | ⟨hn, hr⟩
        · subst hn
          rcases hd with hd | hd
          · exact absurd rfl (ihS _ _ _ _ hd hs)
          · exact ihB _ _ _ _ hd hr
        · simp at hr; rw [hr.1]; exact hn

theorem dr_block (X : Ext) {n : Nat} {b : Block} {σ σ1 : St} {o : Out}
    (hd : (rwB b).2 = true) (h : execB X n b σ = some (o, σ1)) : o ≠ .normal :=
  (dr_outcome_all X n).2 b σ o σ1 hd h

theorem rwH_find (ex : Exc) : ∀ (hs : List (Nat × Block)),
    findHandler (rwH hs) ex = (findHandler hs ex).map fun hb => (rwB hb).1 := by
  intro hs
  cases ex with
  | user t =>
    simp only [findHandler]
    induction hs with
    | nil => simp [rwH]
    | cons ph hs ih =>
      obtain ⟨t', b⟩ := ph
      simp only [rwH, List.find?]
      by_cases ht : (t' == t) = true
      · simp [ht]
      · simp only [ht]; exact ih
  | nameError x => simp [findHandler]
  | typeError => simp [findHandler]

section
variable (X : Ext)

def WSimS (n : Nat) : Prop := ∀ s σ r, exec X n s σ = some r → ∃ m, exec X m (rwS s).1 σ = some r
def WSimB (n : Nat) : Prop := ∀ b σ r, execB X n b σ = some r → ∃ m, execB X m (rwB b).1 σ = some r
def WSimF (n : Nat) : Prop := ∀ x ex b items σ r, execFor X n x ex b items σ = some r →
  ∃ m, execFor X m x ex (rwB b).1 items σ = some r

theorem wsimB_step (n : Nat) (hS : WSimS X n) (hB : WSimB X n) : WSimB X (n+1) := by
  intro b σ r h
  cases b with
  | nil => exact ⟨n + 1, by simpa [rwB] using h⟩
  | cons s rest =>
    obtain ⟨os, σs, hs, hcase⟩ := execB_cons_inv h
    -- the plain form `s' :: rest'` is always simulated
    have hplain : ∃ m, execB X m ((rwS s).1 :: (rwB rest).1) σ = some r := by
      obtain ⟨m1, hx1⟩ := hS s σ _ hs
      rcases hcase with ⟨hn, hr⟩ | ⟨hn, hr⟩
      · subst hn
        obtain ⟨m2, hx2⟩ := hB rest σs r hr
        refine ⟨max m1 m2 + 1, ?_⟩
        rw [execB_cons_normal (exec_mono X hx1 (Nat.le_max_left _ _))]
        exact execB_mono X hx2 (Nat.le_max_right _ _)
      · subst hr
        exact ⟨m1 + 1, execB_cons_abrupt hx1 hn⟩
    by_cases hif : ∃ c t e, s = .ifS c t e
    · obtain ⟨c, t, e, rfl⟩ := hif
      simp only [rwB]
      by_cases hdt : (rwB t).2 = true
      · -- the `if` body definitely returns: the rest moves into the else branch
        rw [if_pos hdt]
        cases n with
        | zero => simp [exec] at hs
        | succ n' =>
          simp only [exec] at hs
          rcases hr : evalE X c σ with ⟨rc, τ⟩
          rw [hr] at hs
          cases rc with
          | error ex =>
            simp at hs; obtain ⟨rfl, rfl⟩ := hs
            rcases hcase with ⟨hn, _⟩ | ⟨_, hr'⟩
            · cases hn
            · subst hr'
              exact ⟨2, execB_singleton (by simp [exec, hr])⟩
          | ok v =>
            simp only at hs
            by_cases hv : truthy v = true
            · rw [if_pos hv] at hs
              have hne : os ≠ .normal := dr_block X hdt hs
              rcases hcase with ⟨hn, _⟩ | ⟨_, hr'⟩
              · exact absurd hn hne
              · subst hr'
                obtain ⟨m, hx⟩ := hB t τ _ (execB_mono X hs (Nat.le_succ _))
                refine ⟨m + 2, execB_singleton (n := m + 1) ?_⟩
                simp only [exec, hr, if_pos hv]; exact hx
            · rw [if_neg hv] at hs
              obtain ⟨m1, hx1⟩ := hB e τ _ (execB_mono X hs (Nat.le_succ _))
              rcases hcase with ⟨hn, hr'⟩ | ⟨hn, hr'⟩
              · subst hn
                obtain ⟨m2, hx2⟩ := hB rest σs r hr'
                refine ⟨m1 + m2 + 2, execB_singleton (n := m1 + m2 + 1) ?_⟩
                simp only [exec, hr, if_neg hv]
                exact execB_append hx1 hx2
              · subst hr'
                refine ⟨m1 + 2, execB_singleton (n := m1 + 1) ?_⟩
                simp only [exec, hr, if_neg hv]
                exact execB_append_abrupt _ hx1 hn
      · rw [if_neg hdt]
        by_cases hde : (rwB e).2 = true
        · rw [if_pos hde]
          cases n with
          | zero => simp [exec] at hs
          | succ n' =>
            simp only [exec] at hs
            rcases hr : evalE X c σ with ⟨rc, τ⟩
            rw [hr] at hs
            cases rc with
            | error ex =>
              simp at hs; obtain ⟨rfl, rfl⟩ := hs
              rcases hcase with ⟨hn, _⟩ | ⟨_, hr'⟩
              · cases hn
              · subst hr'
                exact ⟨2, execB_singleton (by simp [exec, hr])⟩
            | ok v =>
              simp only at hs
              by_cases hv : truthy v = true
              · rw [if_pos hv] at hs
                obtain ⟨m1, hx1⟩ := hB t τ _ (execB_mono X hs (Nat.le_succ _))
                rcases hcase with ⟨hn, hr'⟩ | ⟨hn, hr'⟩
                · subst hn
                  obtain ⟨m2, hx2⟩ := hB rest σs r hr'
                  refine ⟨m1 + m2 + 2, execB_singleton (n := m1 + m2 + 1) ?_⟩
                  simp only [exec, hr, if_pos hv]
                  exact execB_append hx1 hx2
                · subst hr'
                  refine ⟨m1 + 2, execB_singleton (n := m1 + 1) ?_⟩
                  simp only [exec, hr, if_pos hv]
                  exact execB_append_abrupt _ hx1 hn
              · rw [if_neg hv] at hs
                have hne : os ≠ .normal := dr_block X hde hs
                rcases hcase with ⟨hn, _⟩ | ⟨_, hr'⟩
                · exact absurd hn hne
                · subst hr'
                  obtain ⟨m, hx⟩ := hB e τ _ (execB_mono X hs (Nat.le_succ _))
                  refine ⟨m + 2, execB_singleton (n := m + 1) ?_⟩
                  simp only [exec, hr, if_neg hv]; exact hx
        · rw [if_neg hde]
          simpa [rwS] using hplain
    · rw [rwB_cons_other s rest (fun c t e he => hif ⟨c, t, e, he⟩)]
      exact hplain

theorem wsim_forNext (n : Nat) (hF : WSimF X n) (x : Name) (ex : Option Expr) (b : Block) (items : List Val)
    (τ : St) (r : Out × St) (hw : forNext X n x ex b items τ = some r) :
    ∃ m2, forNext X m2 x ex (rwB b).1 items τ = some r := by
  cases ex with
  | none =>
    simp only [forNext] at hw
    obtain ⟨m2, hx2⟩ := hF x none b items τ r hw
    exact ⟨m2, by simp only [forNext]; exact hx2⟩
  | some t =>
    simp only [forNext] at hw
    rcases hr2 : evalE X t τ with ⟨r2, υ⟩
    rw [hr2] at hw
    cases r2 with
    | error e => exact ⟨0, by simp only [forNext, hr2]; exact hw⟩
    | ok tv =>
      simp only at hw
      by_cases htv : truthy tv = true
      · rw [if_pos htv] at hw
        obtain ⟨m2, hx2⟩ := hF x (some t) b items υ r hw
        exact ⟨m2, by simp only [forNext, hr2, if_pos htv]; exact hx2⟩
      · rw [if_neg htv] at hw
        exact ⟨0, by simp only [forNext, hr2, if_neg htv]; exact hw⟩

theorem wsimF_step (n : Nat) (hB : WSimB X n) (hF : WSimF X n) : WSimF X (n+1) := by
  intro x ex b items σ r h
  cases items with
  | nil => exact ⟨1, by simpa [execFor] using h⟩
  | cons v items =>
    cases hb : execB X n b (σ.set x v) with
    | none => rw [execFor_cons_none hb] at h; simp at h
    | some rb =>
      obtain ⟨ob, τ⟩ := rb
      rw [execFor_cons hb] at h
      obtain ⟨m1, hx1⟩ := hB b _ _ hb
      cases ob with
      | normal =>
        obtain ⟨m2, hx2⟩ := wsim_forNext X n hF x ex b items τ r h
        refine ⟨max m1 m2 + 1, ?_⟩
        rw [execFor_cons (execB_mono X hx1 (Nat.le_max_left _ _))]
        exact forNext_mono X hx2 (Nat.le_max_right _ _)
      | cont =>
        obtain ⟨m2, hx2⟩ := wsim_forNext X n hF x ex b items τ r h
        refine ⟨max m1 m2 + 1, ?_⟩
        rw [execFor_cons (execB_mono X hx1 (Nat.le_max_left _ _))]
        exact forNext_mono X hx2 (Nat.le_max_right _ _)
      | brk => exact ⟨m1 + 1, by rw [execFor_cons hx1]; exact h⟩
      | ret w => exact ⟨m1 + 1, by rw [execFor_cons hx1]; exact h⟩
      | exc e => exact ⟨m1 + 1, by rw [execFor_cons hx1]; exact h⟩

theorem wsimS_step (n : Nat) (hS : WSimS X n) (hB : WSimB X n) (hF : WSimF X n) : WSimS X (n+1) := by
  intro s σ r h
  cases s with
  | assign x e => exact ⟨n + 1, by simpa [rwS] using h⟩
  | expr e => exact ⟨n + 1, by simpa [rwS] using h⟩
  | brk => exact ⟨n + 1, by simpa [rwS] using h⟩
  | cont => exact ⟨n + 1, by simpa [rwS] using h⟩
  | pass => exact ⟨n + 1, by simpa [rwS] using h⟩
  | raise t => exact ⟨n + 1, by simpa [rwS] using h⟩
  | ret e => exact ⟨n + 1, by simpa [rwS] using h⟩
  | ifS c t e =>
    simp only [exec] at h
    rcases hr : evalE X c σ with ⟨rc, τ⟩
    rw [hr] at h
    simp only [rwS]
    cases rc with
    | error ex => exact ⟨1, by simpa [exec, hr] using h⟩
    | ok v =>
      simp only at h
      by_cases hv : truthy v = true
      · rw [if_pos hv] at h
        obtain ⟨m, hx⟩ := hB t τ r h
        exact ⟨m + 1, by simp only [exec, hr, if_pos hv]; exact hx⟩
      · rw [if_neg hv] at h
        obtain ⟨m, hx⟩ := hB e τ r h
        exact ⟨m + 1, by simp only [exec, hr, if_neg hv]; exact hx⟩
  | whileS c b =>
    simp only [rwS]
    rcases hr : evalE X c σ with ⟨rc, τ⟩
    cases rc with
    | error ex => rw [exec_while_err hr] at h; exact ⟨1, by rw [exec_while_err hr]; exact h⟩
    | ok v =>
      cases hv : truthy v with
      | false => rw [exec_while_false hr hv] at h; exact ⟨1, by rw [exec_while_false hr hv]; exact h⟩
      | true =>
        cases hb : execB X n b τ with
        | none => rw [exec_while_none hr hv hb] at h; simp at h
        | some rb =>
          obtain ⟨ob, τ1⟩ := rb
          rw [exec_while_step hr hv hb] at h
          obtain ⟨m1, hx1⟩ := hB b τ _ hb
          have hcontinue : exec X n (.whileS c b) τ1 = some r → (ob = .normal ∨ ob = .cont) →
              ∃ m, exec X m (.whileS c (rwB b).1) σ = some r := by
            intro hw hob
            obtain ⟨m2, hx2⟩ := hS (.whileS c b) τ1 r hw
            simp only [rwS] at hx2
            refine ⟨max m1 m2 + 1, ?_⟩
            rw [exec_while_step hr hv (execB_mono X hx1 (Nat.le_max_left _ _))]
            rcases hob with ho | ho <;> subst ho <;> exact exec_mono X hx2 (Nat.le_max_right _ _)
          cases ob with
          | normal => exact hcontinue h (Or.inl rfl)
          | cont => exact hcontinue h (Or.inr rfl)
          | brk => exact ⟨m1 + 1, by rw [exec_while_step hr hv hx1]; exact h⟩
          | ret w => exact ⟨m1 + 1, by rw [exec_while_step hr hv hx1]; exact h⟩
          | exc e => exact ⟨m1 + 1, by rw [exec_while_step hr hv hx1]; exact h⟩
  | forS x it ex b =>
    simp only [rwS]
    rw [exec_for_eq] at h
    rcases hr : evalE X it σ with ⟨rc, τ⟩
    rw [hr] at h
    cases rc with
    | error e => exact ⟨1, by rw [exec_for_eq, hr]; exact h⟩
    | ok v =>
      simp only at h
      cases hit : iterItems v with
      | error e => rw [hit] at h; exact ⟨1, by rw [exec_for_eq, hr]; simp only [hit]; exact h⟩
      | ok items =>
        rw [hit] at h; simp only at h
        have := wsim_forNext X n hF x ex b items τ r h
        obtain ⟨m2, hx2⟩ := this
        exact ⟨m2 + 1, by rw [exec_for_eq, hr]; simp only [hit]; exact hx2⟩
  | tryS body hs fin =>
    simp only [rwS]
    obtain ⟨⟨ob, τ⟩, ⟨oa, τa⟩, hb, ha, hfin⟩ := exec_try_inv h
    obtain ⟨m1, hx1⟩ := hB body σ _ hb
    have ha' : ∃ m2, afterH X m2 (rwH hs) (ob, τ) = some (oa, τa) := by
      cases ob with
      | exc ex =>
        simp only [afterH, rwH_find] at ha ⊢
        cases hf : findHandler hs ex with
        | none => rw [hf] at ha; exact ⟨0, by simpa using ha⟩
        | some hbk =>
          rw [hf] at ha
          obtain ⟨m2, hx2⟩ := hB hbk τ _ ha
          exact ⟨m2, by simpa using hx2⟩
      | normal => exact ⟨0, by simpa [afterH] using ha⟩
      | brk => exact ⟨0, by simpa [afterH] using ha⟩
      | cont => exact ⟨0, by simpa [afterH] using ha⟩
      | ret w => exact ⟨0, by simpa [afterH] using ha⟩
    obtain ⟨m2, hx2⟩ := ha'
    obtain ⟨of, σf, hf, hcase⟩ := finish_some hfin
    obtain ⟨m3, hx3⟩ := hB fin τa _ hf
    have hfin' : finish X m3 (rwB fin).1 (oa, τa) = some r := by
      rcases hcase with ⟨hn, rfl⟩ | ⟨hn, rfl⟩
      · subst hn; exact finish_of_normal hx3
      · exact finish_of_abrupt hx3 hn
    exact ⟨_, exec_try_of X hx1 hx2 hfin'⟩
  | withS tag body =>
    simp only [rwS]
    simp only [exec] at h
    cases hb : execB X n body (σ.push (.enter tag)) with
    | none => simp [hb] at h
    | some rb =>
      rw [hb] at h
      obtain ⟨m, hx⟩ := hB body _ _ hb
      exact ⟨m + 1, by simp only [exec, hx]; exact h⟩

theorem wsim_all : ∀ n, WSimS X n ∧ WSimB X n ∧ WSimF X n := by
  intro n
  induction n with
  | zero =>
    exact ⟨fun s σ r h => by simp [exec] at h, fun b σ r h => by simp [execB] at h,
      fun x ex b items σ r h => by simp [execFor] at h⟩
  | succ n ih =>
    obtain ⟨hS, hB, hF⟩ := ih
    exact ⟨wsimS_step X n hS hB hF, wsimB_step X n hS hB, wsimF_step X n hB hF⟩

/-- The conditional-return rewriting preserves outcome, log and the whole final store. -/
theorem rewriteReturns_correct (body : Block) (n : Nat) (σ : St) (r : Out × St)
    (h : execB X n body σ = some r) : ∃ m, execB X m (rewriteReturns body) σ = some r :=
  (wsim_all X n).2.1 body σ r h

end

end Malt.Sem.Jumps
