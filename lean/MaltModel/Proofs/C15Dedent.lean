import MaltModel.Rt.Dedent
/-
Helper development for `C15_dedent_text` (Props/C15.lean): `dedent_block` on a well-formed annotated token
stream only rewrites the first-on-line gaps.  Structure:

* line lemmas: `splitNl`/`joinNl`/`matchLines` peel one physical line at a time (`matchLines_line`);
* `fixLine` once the leading whitespace of both lines is decided (`fixLine_closed`, `fixLine_fresh`, `fixLine_ws`);
* a multi-line token text common to both sides (`matchLines_common`, `common_stable`);
* one step of `compat` per token kind (`compat_vis`, …);
* the main induction over the tokens (`main`) with the line-state invariant `LineInv`;
* the assembly `dedentCore_wf`.
-/
namespace Malt.Dedent

theorem isBlank_isSpace {c : Char} (h : isBlank c = true) : isSpace c = true := by
  simp only [isBlank, Bool.or_eq_true, decide_eq_true_eq] at h
  rcases h with h | h <;> subst h <;> decide

theorem noNl_append (a b : Str) : noNl (a ++ b) = (noNl a && noNl b) := by
  simp [noNl, List.all_append]

theorem noNl_cons (c : Char) (a : Str) : noNl (c :: a) = (decide (c ≠ '\n') && noNl a) := by
  simp [noNl]

theorem splitNl_ne_nil (X : Str) : splitNl X ≠ [] := by
  induction X with
  | nil => simp [splitNl]
  | cons c r ih =>
    simp only [splitNl]
    split
    · simp
    · split <;> simp

theorem splitNl_noNl (l : Str) (h : noNl l = true) : splitNl l = [l] := by
  induction l with
  | nil => rfl
  | cons c r ih =>
    rw [noNl_cons] at h
    simp only [Bool.and_eq_true, decide_eq_true_eq] at h
    simp [splitNl, h.1, ih h.2]

theorem splitNl_line (l X : Str) (h : noNl l = true) : splitNl (l ++ '\n' :: X) = l :: splitNl X := by
  induction l with
  | nil => simp [splitNl]
  | cons c r ih =>
    rw [noNl_cons] at h
    simp only [Bool.and_eq_true, decide_eq_true_eq] at h
    simp [splitNl, h.1, ih h.2]

theorem joinNl_cons (a : Str) (l : List Str) (h : l ≠ []) : joinNl (a :: l) = a ++ '\n' :: joinNl l := by
  cases l with
  | nil => exact absurd rfl h
  | cons b r => rfl

theorem zipWith_ne_nil {α β γ} (f : α → β → γ) (a : List α) (b : List β) (ha : a ≠ []) (hb : b ≠ []) :
    List.zipWith f a b ≠ [] := by
  cases a <;> cases b <;> simp_all

theorem matchLines_noNl (l l' : Str) (h : noNl l = true) (h' : noNl l' = true) :
    matchLines l l' = fixLine l l' := by
  simp [matchLines, splitNl_noNl _ h, splitNl_noNl _ h', joinNl]

theorem matchLines_line (l l' X Y : Str) (h : noNl l = true) (h' : noNl l' = true) :
    matchLines (l ++ '\n' :: X) (l' ++ '\n' :: Y) = fixLine l l' ++ '\n' :: matchLines X Y := by
  simp only [matchLines, splitNl_line _ _ h, splitNl_line _ _ h', List.zipWith_cons_cons]
  rw [joinNl_cons _ _ (zipWith_ne_nil _ _ _ (splitNl_ne_nil X) (splitNl_ne_nil Y))]

theorem takeWhile_all {α} (p : α → Bool) (g : List α) (h : g.all p = true) (r : List α) :
    (g ++ r).takeWhile p = g ++ r.takeWhile p := by
  induction g with
  | nil => rfl
  | cons c g ih =>
    simp only [List.all_cons, Bool.and_eq_true] at h
    simp [h.1, ih h.2]

theorem headNonSpace_takeWhile (t : Str) (h : headNonSpace t = true) : t.takeWhile isSpace = [] := by
  cases t with
  | nil => simp [headNonSpace] at h
  | cons c r => simp only [headNonSpace, Bool.not_eq_true'] at h; simp [List.takeWhile, h]

theorem lead_blank_head (g t : Str) (hg : g.all isSpace = true) (ht : headNonSpace t = true) :
    lead (g ++ t) = g.length := by
  simp [lead, takeWhile_all _ _ hg, headNonSpace_takeWhile _ ht]

theorem lead_allSpace (g : Str) (hg : g.all isSpace = true) : lead g = g.length := by
  have := takeWhile_all isSpace g hg []
  simp only [List.append_nil, List.takeWhile_nil] at this
  simp [lead, this]

theorem takeWhile_length_le {α} (p : α → Bool) (l : List α) : (l.takeWhile p).length ≤ l.length := by
  induction l with
  | nil => simp
  | cons c r ih =>
    simp only [List.takeWhile]
    split <;> simp <;> omega

theorem lead_le (l : Str) : lead l ≤ l.length := takeWhile_length_le _ _

theorem lead_closed (x a : Str) (hx : lead x < x.length) : lead (x ++ a) = lead x := by
  simp only [lead] at *
  rw [List.takeWhile_append]
  split
  · omega
  · rfl

theorem fixLine_closed (xo yo a b : Str) (hx : lead xo < xo.length) (hy : lead yo < yo.length) :
    fixLine (xo ++ a) (yo ++ b) = fixLine xo yo ++ a := by
  simp only [fixLine, lead_closed _ _ hx, lead_closed _ _ hy]
  split
  · rw [List.drop_append_of_le_length]
    have := lead_le xo
    omega
  · rfl

theorem fixLine_self (l : Str) : fixLine l l = l := by
  simp [fixLine]

theorem fixLine_fresh (g i t v : Str) (hg : g.all isSpace = true) (hi : i.all isSpace = true)
    (ht : headNonSpace t = true) (hv : headNonSpace v = true) :
    fixLine (g ++ t) (i ++ v) = trimTo i.length g ++ t := by
  simp only [fixLine, lead_blank_head _ _ hg ht, lead_blank_head _ _ hi hv, trimTo]
  split
  · rw [List.drop_append_of_le_length]; omega
  · rfl

theorem fixLine_blank (g : Str) (hg : g.all isSpace = true) : fixLine g [] = [] := by
  simp only [fixLine, lead_allSpace _ hg]
  split
  · simp [lead]
  · have : g.length = 0 := by simp [lead] at *; omega
    simpa using this


theorem noNl_snoc (A : Str) (c : Char) (hA : noNl A = true) (hc : c ≠ '\n') : noNl (A ++ [c]) = true := by
  rw [noNl_append, hA]; simp [noNl, hc]

/-! common multi-line text -/
def commonOut : Str → Str → Str → Str
  | _, _, [] => []
  | A, B, c :: r => if c = '\n' then fixLine A B ++ '\n' :: commonOut [] [] r else commonOut (A ++ [c]) (B ++ [c]) r

def commonA : Str → Str → Str
  | A, [] => A
  | A, c :: r => if c = '\n' then commonA [] r else commonA (A ++ [c]) r

theorem matchLines_common (s : Str) : ∀ (A B X Y : Str), noNl A = true → noNl B = true →
    matchLines (A ++ s ++ X) (B ++ s ++ Y) = commonOut A B s ++ matchLines (commonA A s ++ X) (commonA B s ++ Y) := by
  induction s with
  | nil => intro A B X Y _ _; simp [commonOut, commonA]
  | cons c r ih =>
    intro A B X Y hA hB
    by_cases hc : c = '\n'
    · subst hc
      simp only [commonOut, commonA, if_true, List.append_assoc, List.cons_append]
      rw [matchLines_line _ _ _ _ hA hB]
      have := ih [] [] X Y rfl rfl
      simp only [List.nil_append] at this
      rw [this]
    · simp only [commonOut, commonA, hc, if_false]
      have hA' := noNl_snoc A c hA hc
      have hB' := noNl_snoc B c hB hc
      have := ih (A ++ [c]) (B ++ [c]) X Y hA' hB'
      simp only [List.append_assoc, List.singleton_append] at this
      simp only [List.append_assoc, List.cons_append]
      exact this

def Stable (A B F : Str) : Prop := ∀ a, fixLine (A ++ a) (B ++ a) = F ++ a

theorem common_stable (s : Str) : ∀ (A B F : Str), Stable A B F →
    commonOut A B s ++ fixLine (commonA A s) (commonA B s) = F ++ s := by
  induction s with
  | nil => intro A B F h; have := h []; simpa [commonOut, commonA] using this
  | cons c r ih =>
    intro A B F h
    by_cases hc : c = '\n'
    · subst hc
      simp only [commonOut, commonA, if_true]
      have h0 := h []
      simp only [List.append_nil] at h0
      have := ih [] [] [] (by intro a; simp [fixLine_self])
      simp only [List.nil_append] at this
      rw [h0, List.append_assoc, List.cons_append, this]
    · simp only [commonOut, commonA, hc, if_false]
      have hs : Stable (A ++ [c]) (B ++ [c]) (F ++ [c]) := by
        intro a
        have := h (c :: a)
        simpa [List.append_assoc] using this
      have := ih _ _ _ hs
      simpa [List.append_assoc] using this

theorem commonA_noNl (s : Str) : ∀ A, noNl A = true → noNl (commonA A s) = true := by
  induction s with
  | nil => intro A h; simpa [commonA] using h
  | cons c r ih =>
    intro A h
    by_cases hc : c = '\n'
    · simp [commonA, hc, ih [] rfl]
    · simp only [commonA, hc, if_false]
      exact ih _ (noNl_snoc A c h hc)

theorem lead_lt_of_mem (l : Str) (c : Char) (hc : c ∈ l) (hs : isSpace c = false) : lead l < l.length := by
  induction l with
  | nil => simp at hc
  | cons d r ih =>
    simp only [lead, List.takeWhile]
    by_cases hd : isSpace d = true
    · simp only [hd, List.length_cons]
      have : c ∈ r := by
        rcases List.mem_cons.mp hc with h | h
        · subst h; rw [hs] at hd; cases hd
        · exact h
      have := ih this
      simp only [lead] at this
      omega
    · simp only [Bool.not_eq_true] at hd
      simp [hd]

theorem commonA_closed (s : Str) (hs : lastNonSpace s = true) : ∀ A, ∃ c ∈ commonA A s, isSpace c = false := by
  induction s with
  | nil => simp [lastNonSpace] at hs
  | cons c r ih =>
    intro A
    cases r with
    | nil =>
      simp only [lastNonSpace, Bool.not_eq_true'] at hs
      have hc : c ≠ '\n' := by intro h; subst h; simp [isSpace] at hs
      exact ⟨c, by simp [commonA, hc], hs⟩
    | cons c' r' =>
      have hs' : lastNonSpace (c' :: r') = true := by simpa [lastNonSpace] using hs
      by_cases hc : c = '\n'
      · simp only [commonA, hc, if_true]; exact ih hs' []
      · simp only [commonA, hc, if_false]; exact ih hs' _


theorem stripTok_of_ne (lvl : Nat) (t : Tok) (h : t.kind ≠ .INDENT) : stripTok lvl t = t := by
  simp [stripTok, h]

theorem stripTok_kind (lvl : Nat) (t : Tok) : (stripTok lvl t).kind = t.kind := by
  simp only [stripTok]; split <;> rfl

/-- the text `compat` emits for a visible token -/
def vOf (ps : Bool) (t : Tok) : Str :=
  let v0 : Str := if t.kind = .NAME ∨ t.kind = .NUMBER then t.text ++ [' '] else t.text
  if t.kind = .STRING ∧ ps = true then ' ' :: v0 else v0

theorem compat_vis (stack : List Str) (sl ps : Bool) (t : Tok) (ts : List Tok) (hs : stack ≠ [])
    (h1 : t.kind ≠ .ENCODING) (h2 : t.kind ≠ .INDENT) (h3 : t.kind ≠ .DEDENT) (h4 : t.kind ≠ .NEWLINE)
    (h5 : t.kind ≠ .NL) (h6 : t.kind ≠ .FSTRING_MIDDLE) :
    compat ⟨stack, sl, ps⟩ (t :: ts) =
      (if sl = true then stack.headD [] else []) ++ vOf ps t ++ compat ⟨stack, false, decide (t.kind = .STRING)⟩ ts := by
  cases sl <;> simp [compat, vOf, h1, h2, h3, h4, h5, h6, hs]

theorem compat_nl (stack : List Str) (sl ps : Bool) (t : Tok) (ts : List Tok)
    (h : t.kind = .NEWLINE ∨ t.kind = .NL) :
    compat ⟨stack, sl, ps⟩ (t :: ts) = t.text ++ compat ⟨stack, true, false⟩ ts := by
  rcases h with h | h <;> simp [compat, h]

theorem compat_indent (stack : List Str) (sl ps : Bool) (t : Tok) (ts : List Tok) (h : t.kind = .INDENT) :
    compat ⟨stack, sl, ps⟩ (t :: ts) = compat ⟨t.text :: stack, sl, false⟩ ts := by
  simp [compat, h]

theorem compat_dedent (stack : List Str) (sl ps : Bool) (t : Tok) (ts : List Tok) (h : t.kind = .DEDENT) :
    compat ⟨stack, sl, ps⟩ (t :: ts) = compat ⟨stack.tail, sl, false⟩ ts := by
  simp [compat, h]

theorem compat_middle (stack : List Str) (ps : Bool) (t : Tok) (ts : List Tok) (h : t.kind = .FSTRING_MIDDLE) :
    compat ⟨stack, false, ps⟩ (t :: ts) = escapeBraces t.text ++ compat ⟨stack, false, false⟩ ts := by
  simp [compat, h]

theorem compat_endmarker_nil (sl ps : Bool) (t : Tok) (h : t.kind = .ENDMARKER) (ht : t.text = []) :
    compat ⟨[], sl, ps⟩ [t] = [] := by
  simp [compat, h, ht]


theorem all_blank_space (g : Str) (h : g.all isBlank = true) : g.all isSpace = true := by
  simp only [List.all_eq_true] at *
  intro c hc; exact isBlank_isSpace (h c hc)

theorem all_blank_noNl (g : Str) (h : g.all isBlank = true) : noNl g = true := by
  simp only [noNl, List.all_eq_true] at *
  intro c hc
  have := h c hc
  simp only [isBlank, Bool.or_eq_true, decide_eq_true_eq] at this
  rcases this with h | h <;> subst h <;> decide

theorem headNonSpace_ne_nil (t : Str) (h : headNonSpace t = true) : t ≠ [] := by
  intro he; subst he; simp [headNonSpace] at h

theorem lead_ws_append (g a : Str) (hg : g.all isSpace = true) : lead (g ++ a) = g.length + lead a := by
  simp [lead, takeWhile_all _ _ hg]

theorem fixLine_ws (g i a : Str) (hg : g.all isSpace = true) (hi : i.all isSpace = true) :
    fixLine (g ++ a) (i ++ a) = trimTo i.length g ++ a := by
  simp only [fixLine, lead_ws_append _ _ hg, lead_ws_append _ _ hi, trimTo]
  by_cases h : g.length > i.length
  · have h1 : g.length + lead a > i.length + lead a := by omega
    have h2 : g.length + lead a - (i.length + lead a) = g.length - i.length := by omega
    simp only [h1, if_true, h, h2]
    rw [List.drop_append_of_le_length]; omega
  · have h1 : ¬ (g.length + lead a > i.length + lead a) := by omega
    simp [h1, h]

/-- line state: at the start of a physical line, or after a non-blank character of it -/
def LineInv (sl am : Bool) (xo yo : Str) : Prop :=
  (sl = true → xo = [] ∧ yo = []) ∧
  (sl = false → noNl xo = true ∧ noNl yo = true ∧
    ((lead xo < xo.length ∧ lead yo < yo.length) ∨ (am = true ∧ xo = yo ∧ xo.all isSpace = true)))

theorem lineInv_closed (am : Bool) (xo yo : Str) (h1 : noNl xo = true) (h2 : noNl yo = true)
    (h3 : lead xo < xo.length) (h4 : lead yo < yo.length) : LineInv false am xo yo :=
  ⟨fun h => Bool.noConfusion h, fun _ => ⟨h1, h2, Or.inl ⟨h3, h4⟩⟩⟩

/-- with `am = false` the line is closed -/
theorem lineInv_closed_of (xo yo : Str) (h : LineInv false false xo yo) :
    noNl xo = true ∧ noNl yo = true ∧ lead xo < xo.length ∧ lead yo < yo.length := by
  obtain ⟨h1, h2, h3⟩ := h.2 rfl
  rcases h3 with ⟨a, b⟩ | ⟨c, _, _⟩
  · exact ⟨h1, h2, a, b⟩
  · cases c

theorem trimTo_self (g : Str) : trimTo g.length g = g := by simp [trimTo]

/-- a single-line visible token -/
theorem step_word (sl am : Bool) (xo yo g i text v X' Y' Z' : Str)
    (hinv : LineInv sl am xo yo) (hg : g.all isBlank = true) (hgam : am = true → g = [])
    (hi : i.all isBlank = true)
    (ht1 : noNl text = true) (ht2 : headNonSpace text = true) (hv1 : noNl v = true) (hv2 : headNonSpace v = true)
    (H : ∀ xo' yo', LineInv false false xo' yo' → matchLines (xo' ++ X') (yo' ++ Y') = fixLine xo' yo' ++ Z') :
    matchLines (xo ++ (g ++ text ++ X')) (yo ++ ((if sl = true then i else []) ++ v ++ Y')) =
      fixLine xo yo ++ ((if sl = true then trimTo i.length g else g) ++ text ++ Z') := by
  have hgs := all_blank_space g hg
  have his := all_blank_space i hi
  have hgn := all_blank_noNl g hg
  have hin := all_blank_noNl i hi
  cases sl with
  | true =>
    obtain ⟨hx, hy⟩ := hinv.1 rfl
    subst hx; subst hy
    simp only [if_true, List.nil_append]
    have hcl : LineInv false false (g ++ text) (i ++ v) := by
      apply lineInv_closed
      · rw [noNl_append, hgn, ht1]; rfl
      · rw [noNl_append, hin, hv1]; rfl
      · rw [lead_blank_head _ _ hgs ht2, List.length_append]
        have := List.length_pos_iff.mpr (headNonSpace_ne_nil _ ht2); omega
      · rw [lead_blank_head _ _ his hv2, List.length_append]
        have := List.length_pos_iff.mpr (headNonSpace_ne_nil _ hv2); omega
    have := H _ _ hcl
    rw [fixLine_fresh _ _ _ _ hgs his ht2 hv2] at this
    simp only [List.append_assoc] at this ⊢
    rw [this]
    simp [fixLine]
  | false =>
    obtain ⟨hx1, hy1, hcase⟩ := hinv.2 rfl
    simp only [Bool.false_eq_true, if_false, List.nil_append]
    rcases hcase with ⟨hx2, hy2⟩ | ⟨ham, hxy, hws⟩
    · have hcl : LineInv false false (xo ++ (g ++ text)) (yo ++ v) := by
        apply lineInv_closed
        · rw [noNl_append, hx1, noNl_append, hgn, ht1]; rfl
        · rw [noNl_append, hy1, hv1]; rfl
        · rw [lead_closed _ _ hx2, List.length_append]; omega
        · rw [lead_closed _ _ hy2, List.length_append]; omega
      have := H _ _ hcl
      rw [fixLine_closed _ _ _ _ hx2 hy2] at this
      simp only [List.append_assoc] at this ⊢
      rw [this]
    · -- the line so far is whitespace common to both sides, and no gap follows
      have hg0 := hgam ham
      subst hg0; subst hxy
      simp only [List.nil_append]
      have hcl : LineInv false false (xo ++ text) (xo ++ v) := by
        apply lineInv_closed
        · rw [noNl_append, hx1, ht1]; rfl
        · rw [noNl_append, hx1, hv1]; rfl
        · rw [lead_blank_head _ _ hws ht2, List.length_append]
          have := List.length_pos_iff.mpr (headNonSpace_ne_nil _ ht2); omega
        · rw [lead_blank_head _ _ hws hv2, List.length_append]
          have := List.length_pos_iff.mpr (headNonSpace_ne_nil _ hv2); omega
      have := H _ _ hcl
      rw [fixLine_fresh _ _ _ _ hws hws ht2 hv2, trimTo_self] at this
      simp only [List.append_assoc] at this ⊢
      rw [this, fixLine_self]

/-- a (possibly multi-line) string token; `sp` is the blank `compat` inserts between consecutive strings -/
theorem step_string (sl : Bool) (xo yo g i sp s X' Y' Z' : Str)
    (hinv : LineInv sl false xo yo) (hg : g.all isBlank = true) (hi : i.all isBlank = true)
    (hsp : sp.all isBlank = true) (hsps : sl = true → sp = [])
    (hs2 : lastNonSpace s = true)
    (H : ∀ xo' yo', LineInv false false xo' yo' → matchLines (xo' ++ X') (yo' ++ Y') = fixLine xo' yo' ++ Z') :
    matchLines (xo ++ (g ++ s ++ X')) (yo ++ ((if sl = true then i else []) ++ (sp ++ s) ++ Y')) =
      fixLine xo yo ++ ((if sl = true then trimTo i.length g else g) ++ s ++ Z') := by
  have hgs := all_blank_space g hg
  have his := all_blank_space i hi
  have hgn := all_blank_noNl g hg
  have hin := all_blank_noNl i hi
  have hspn := all_blank_noNl sp hsp
  -- generic part, given the two accumulated prefixes A, B and the stable fix F
  have key : ∀ (A B F : Str), noNl A = true → noNl B = true → Stable A B F →
      matchLines (A ++ s ++ X') (B ++ s ++ Y') = F ++ s ++ Z' := by
    intro A B F hA hB hst
    rw [matchLines_common s A B X' Y' hA hB]
    obtain ⟨c1, hc1, hn1⟩ := commonA_closed s hs2 A
    obtain ⟨c2, hc2, hn2⟩ := commonA_closed s hs2 B
    have hcl : LineInv false false (commonA A s) (commonA B s) :=
      lineInv_closed _ _ _ (commonA_noNl s A hA) (commonA_noNl s B hB) (lead_lt_of_mem _ _ hc1 hn1)
        (lead_lt_of_mem _ _ hc2 hn2)
    rw [H _ _ hcl, ← List.append_assoc, common_stable s A B F hst]
  cases sl with
  | true =>
    obtain ⟨hx, hy⟩ := hinv.1 rfl
    subst hx; subst hy
    have hsp0 := hsps rfl
    subst hsp0
    simp only [if_true, List.nil_append]
    have := key g i (trimTo i.length g) hgn hin (fun a => fixLine_ws g i a hgs his)
    simp only [List.append_assoc] at this ⊢
    rw [this]; simp [fixLine]
  | false =>
    obtain ⟨hx1, hy1, hx2, hy2⟩ := lineInv_closed_of _ _ hinv
    simp only [Bool.false_eq_true, if_false, List.nil_append]
    have hst : Stable (xo ++ g) (yo ++ sp) (fixLine xo yo ++ g) := by
      intro a
      have := fixLine_closed xo yo (g ++ a) (sp ++ a) hx2 hy2
      simpa [List.append_assoc] using this
    have := key (xo ++ g) (yo ++ sp) (fixLine xo yo ++ g)
      (by rw [noNl_append, hx1, hgn]; rfl) (by rw [noNl_append, hy1, hspn]; rfl) hst
    simp only [List.append_assoc] at this ⊢
    rw [this]


def T (lvl : Nat) (as : List ATok) : List Tok := as.map fun a => stripTok lvl a.tok

theorem T_cons (lvl : Nat) (a : ATok) (as : List ATok) : T lvl (a :: as) = stripTok lvl a.tok :: T lvl as := rfl

theorem renderA_cons (a : ATok) (as : List ATok) : renderA (a :: as) = a.gap ++ vis a.tok ++ renderA as := by
  simp [renderA]

theorem escapeBraces_noNl (s : Str) (h : noNl s = true) : noNl (escapeBraces s) = true := by
  induction s with
  | nil => rfl
  | cons c r ih =>
    rw [noNl_cons] at h
    simp only [Bool.and_eq_true, decide_eq_true_eq] at h
    have ihr := ih h.2
    simp only [escapeBraces, List.flatMap_cons] at ihr ⊢
    rw [noNl_append, ihr]
    split <;> simp [noNl, h.1]

theorem all_blank_drop (s : Str) (n : Nat) (h : s.all isBlank = true) : (s.drop n).all isBlank = true := by
  simp only [List.all_eq_true] at *
  intro c hc; exact h c (List.mem_of_mem_drop hc)

theorem headD_blank (stack : List Str) (h : ∀ i ∈ stack, i.all isBlank = true) :
    (stack.headD []).all isBlank = true := by
  cases stack with
  | nil => rfl
  | cons i r => exact h i (by simp)

/-- the state of the current physical line on both sides: no newline, and either both have a non-blank
character already, or both are the same whitespace -/
def Inv2 (A B : Str) : Prop :=
  noNl A = true ∧ noNl B = true ∧ ((lead A < A.length ∧ lead B < B.length) ∨ (A = B ∧ A.all isSpace = true))

theorem common_inv (t : Str) : ∀ (A B : Str), Inv2 A B → Inv2 (commonA A t) (commonA B t) := by
  induction t with
  | nil => intro A B h; simpa [commonA] using h
  | cons c r ih =>
    intro A B h
    by_cases hc : c = '\n'
    · subst hc
      simp only [commonA, if_true]
      exact ih [] [] ⟨rfl, rfl, Or.inr ⟨rfl, rfl⟩⟩
    · simp only [commonA, hc, if_false]
      apply ih
      obtain ⟨hA, hB, hcase⟩ := h
      refine ⟨noNl_snoc A c hA hc, noNl_snoc B c hB hc, ?_⟩
      rcases hcase with ⟨h1, h2⟩ | ⟨hab, hws⟩
      · left
        exact ⟨by rw [lead_closed _ _ h1, List.length_append]; omega,
               by rw [lead_closed _ _ h2, List.length_append]; omega⟩
      · subst hab
        by_cases hs : isSpace c = true
        · right
          exact ⟨rfl, by simp [List.all_append, hws, hs]⟩
        · left
          simp only [Bool.not_eq_true] at hs
          have hh1 : headNonSpace [c] = true := by simp [headNonSpace, hs]
          exact ⟨by rw [lead_blank_head _ _ hws hh1]; simp, by rw [lead_blank_head _ _ hws hh1]; simp⟩

theorem vis_of_ne (t : Tok) (h2 : t.kind ≠ .INDENT) (h6 : t.kind ≠ .FSTRING_MIDDLE) : vis t = t.text := by
  simp [vis, h2, h6]

theorem vis_middle (t : Tok) (h : t.kind = .FSTRING_MIDDLE) : vis t = escapeBraces t.text := by
  simp [vis, h]

/-- the IH of the main induction, as a predicate on the tail -/
def MainFor (p : Str) (as : List ATok) : Prop :=
  ∀ (d : Nat) (stack : List Str) (sl ps am : Bool) (xo yo : Str),
    wfGo p ⟨d, sl, am⟩ as = true → stack.length = d → (∀ i ∈ stack, i.all isBlank = true) →
    (ps = true → sl = false) → LineInv sl am xo yo →
    matchLines (xo ++ renderA as) (yo ++ compat ⟨stack, sl, ps⟩ (T p.length as)) =
      fixLine xo yo ++ renderA (adjustGo p.length stack sl as)

theorem adjustGo_vis (lvl : Nat) (stack : List Str) (sl : Bool) (a : ATok) (as : List ATok)
    (h2 : a.tok.kind ≠ .INDENT) (h3 : a.tok.kind ≠ .DEDENT) (h4 : a.tok.kind ≠ .NEWLINE) (h5 : a.tok.kind ≠ .NL) :
    adjustGo lvl stack sl (a :: as) =
      { a with gap := if sl = true then trimTo (stack.headD []).length a.gap else a.gap } ::
        adjustGo lvl stack false as := by
  simp [adjustGo, h2, h3, h4, h5]

theorem main_word (p : Str) (g : Str) (t : Tok) (as : List ATok) (ih : MainFor p as)
    (d : Nat) (stack : List Str) (sl ps am : Bool) (xo yo : Str)
    (hg : g.all isBlank = true) (hw : wordLike t.text = true) (hd : d ≠ 0) (hgam : am = true → g = [])
    (hwf : wfGo p ⟨d, false, false⟩ as = true)
    (hk : t.kind = .NAME ∨ t.kind = .NUMBER ∨ t.kind = .OP ∨ t.kind = .COMMENT ∨ t.kind = .FSTRING_START ∨
      t.kind = .FSTRING_END)
    (hlen : stack.length = d) (hbl : ∀ i ∈ stack, i.all isBlank = true) (hinv : LineInv sl am xo yo) :
    matchLines (xo ++ renderA (⟨g, t⟩ :: as)) (yo ++ compat ⟨stack, sl, ps⟩ (T p.length (⟨g, t⟩ :: as))) =
      fixLine xo yo ++ renderA (adjustGo p.length stack sl (⟨g, t⟩ :: as)) := by
  have hne : stack ≠ [] := by intro h; subst h; simp at hlen; exact hd hlen.symm
  have k1 : t.kind ≠ .ENCODING := by rcases hk with h | h | h | h | h | h <;> simp [h]
  have k2 : t.kind ≠ .INDENT := by rcases hk with h | h | h | h | h | h <;> simp [h]
  have k3 : t.kind ≠ .DEDENT := by rcases hk with h | h | h | h | h | h <;> simp [h]
  have k4 : t.kind ≠ .NEWLINE := by rcases hk with h | h | h | h | h | h <;> simp [h]
  have k5 : t.kind ≠ .NL := by rcases hk with h | h | h | h | h | h <;> simp [h]
  have k6 : t.kind ≠ .FSTRING_MIDDLE := by rcases hk with h | h | h | h | h | h <;> simp [h]
  have k7 : t.kind ≠ .STRING := by rcases hk with h | h | h | h | h | h <;> simp [h]
  simp only [wordLike, Bool.and_eq_true] at hw
  have hv1 : noNl (vOf ps t) = true := by
    simp only [vOf, k7, false_and, if_false]
    split
    · rw [noNl_append, hw.1]; rfl
    · exact hw.1
  have hv2 : headNonSpace (vOf ps t) = true := by
    simp only [vOf, k7, false_and, if_false]
    split
    · cases htx : t.text with
      | nil => rw [htx] at hw; simp [headNonSpace] at hw
      | cons c r => rw [htx] at hw; simpa [headNonSpace] using hw.2
    · exact hw.2
  rw [renderA_cons, T_cons, stripTok_of_ne _ _ k2, compat_vis _ _ _ _ _ hne k1 k2 k3 k4 k5 k6,
    adjustGo_vis _ _ _ _ _ k2 k3 k4 k5, renderA_cons]
  simp only [vis_of_ne _ k2 k6, k7, decide_false]
  have H : ∀ xo' yo', LineInv false false xo' yo' →
      matchLines (xo' ++ renderA as) (yo' ++ compat ⟨stack, false, false⟩ (T p.length as)) =
        fixLine xo' yo' ++ renderA (adjustGo p.length stack false as) :=
    fun xo' yo' h => ih d stack false false false xo' yo' hwf hlen hbl (fun h => Bool.noConfusion h) h
  have := step_word sl am xo yo g (stack.headD []) t.text (vOf ps t) _ _ _ hinv hg hgam (headD_blank _ hbl)
    hw.1 hw.2 hv1 hv2 H
  simp only [List.append_assoc] at this ⊢
  rw [this]

theorem lineInv_nl (sl am : Bool) (xo yo : Str) (h : LineInv sl am xo yo) : noNl xo = true ∧ noNl yo = true := by
  cases sl with
  | true => obtain ⟨hx, hy⟩ := h.1 rfl; subst hx; subst hy; exact ⟨rfl, rfl⟩
  | false => obtain ⟨h1, h2, _⟩ := h.2 rfl; exact ⟨h1, h2⟩

theorem lineInv_fresh (am : Bool) : LineInv true am [] [] := ⟨fun _ => ⟨rfl, rfl⟩, fun h => Bool.noConfusion h⟩

/-- end of a physical line at an NL/NEWLINE token with gap `g` (no gap if the line may still be blank) -/
theorem fixLine_eol (sl am : Bool) (xo yo g : Str) (hinv : LineInv sl am xo yo) (hg : g.all isBlank = true)
    (hgam : am = true → g = []) :
    fixLine (xo ++ g) yo = fixLine xo yo ++ (if sl = true then [] else g) := by
  cases sl with
  | true =>
    obtain ⟨hx, hy⟩ := hinv.1 rfl
    subst hx; subst hy
    simp only [List.nil_append, if_true]
    rw [fixLine_blank _ (all_blank_space g hg)]
    simp [fixLine]
  | false =>
    obtain ⟨_, _, hcase⟩ := hinv.2 rfl
    simp only [Bool.false_eq_true, if_false]
    rcases hcase with ⟨hx2, hy2⟩ | ⟨ham, _, _⟩
    · have := fixLine_closed xo yo g [] hx2 hy2
      simpa using this
    · rw [hgam ham]; simp

theorem main (p : Str) : ∀ (rest : List ATok), MainFor p rest := by
  intro rest
  induction rest with
  | nil =>
    intro d stack sl ps am xo yo _ _ _ _ hinv
    obtain ⟨h1, h2⟩ := lineInv_nl _ _ _ _ hinv
    simp [renderA, T, compat, adjustGo, matchLines_noNl _ _ h1 h2]
  | cons a as ih =>
    intro d stack sl ps am xo yo hwf hlen hbl hps hinv
    obtain ⟨g, t⟩ := a
    simp only [wfGo, Bool.and_eq_true] at hwf
    obtain ⟨hg, hwf⟩ := hwf
    have word := fun hw hd hgam hwf' hk =>
      main_word p g t as ih d stack sl ps am xo yo hg hw hd hgam hwf' hk hlen hbl hinv
    have nlcase : ∀ (hk : t.kind = .NEWLINE ∨ t.kind = .NL) (ht : t.text = ['\n']) (hgam : am = true → g = [])
        (hwf' : wfGo p ⟨d, true, false⟩ as = true),
        matchLines (xo ++ renderA (⟨g, t⟩ :: as)) (yo ++ compat ⟨stack, sl, ps⟩ (T p.length (⟨g, t⟩ :: as))) =
          fixLine xo yo ++ renderA (adjustGo p.length stack sl (⟨g, t⟩ :: as)) := by
      intro hk ht hgam hwf'
      have k2 : t.kind ≠ .INDENT := by rcases hk with h | h <;> simp [h]
      have k3 : t.kind ≠ .DEDENT := by rcases hk with h | h <;> simp [h]
      obtain ⟨h1, h2⟩ := lineInv_nl _ _ _ _ hinv
      rw [renderA_cons, T_cons, stripTok_of_ne _ _ k2, compat_nl _ _ _ _ _ hk]
      simp only [adjustGo, k2, k3, hk, if_false, if_true]
      rw [renderA_cons]
      have k6 : t.kind ≠ .FSTRING_MIDDLE := by rcases hk with h | h <;> simp [h]
      simp only [vis_of_ne _ k2 k6, ht]
      have hgn := all_blank_noNl g hg
      have e1 : xo ++ (g ++ ['\n'] ++ renderA as) = (xo ++ g) ++ '\n' :: renderA as := by simp
      have e2 : yo ++ (['\n'] ++ compat ⟨stack, true, false⟩ (T p.length as)) =
          yo ++ '\n' :: compat ⟨stack, true, false⟩ (T p.length as) := by simp
      rw [e1, e2, matchLines_line _ _ _ _ (by rw [noNl_append, h1, hgn]; rfl) h2]
      have := ih d stack true false false [] [] hwf' hlen hbl (fun h => Bool.noConfusion h) (lineInv_fresh _)
      simp only [List.nil_append] at this
      rw [this, fixLine_eol sl am xo yo g hinv hg hgam]
      simp [fixLine]
    cases hk : t.kind with
    | INDENT =>
      simp only [hk, Bool.and_eq_true, beq_iff_eq, decide_eq_true_eq, Bool.not_eq_true'] at hwf
      obtain ⟨⟨⟨⟨⟨hg0, htb⟩, hle⟩, _⟩, ham⟩, hwf'⟩ := hwf
      subst hg0; subst ham
      have hst : stripTok p.length t = { t with text := t.text.drop p.length } := by
        simp [stripTok, hk, hle]
      rw [renderA_cons, T_cons, hst, compat_indent _ _ _ _ _ (by simpa using hk)]
      simp only [adjustGo, hk, if_true]
      rw [renderA_cons]
      simp only [vis, hk, if_true, List.nil_append, List.append_nil]
      exact ih (d + 1) (t.text.drop p.length :: stack) sl false false xo yo hwf' (by simp [hlen])
        (by intro i hi
            rcases List.mem_cons.mp hi with h | h
            · subst h; exact all_blank_drop _ _ htb
            · exact hbl i h)
        (fun h => Bool.noConfusion h) hinv
    | DEDENT =>
      simp only [hk, Bool.and_eq_true, beq_iff_eq, bne_iff_ne, ne_eq, Bool.not_eq_true'] at hwf
      obtain ⟨⟨⟨⟨hg0, ht0⟩, hd⟩, ham⟩, hwf'⟩ := hwf
      subst hg0; subst ham
      have k2 : t.kind ≠ .INDENT := by simp [hk]
      rw [renderA_cons, T_cons, stripTok_of_ne _ _ k2, compat_dedent _ _ _ _ _ hk]
      simp only [adjustGo, hk, reduceCtorEq, if_false, if_true]
      rw [renderA_cons]
      simp only [vis_of_ne _ k2 (by simp [hk]), ht0, List.nil_append, List.append_nil]
      exact ih (d - 1) stack.tail sl false false xo yo hwf' (by simp [hlen])
        (fun i hi => hbl i (List.mem_of_mem_tail hi)) (fun h => Bool.noConfusion h) hinv
    | ENDMARKER =>
      simp only [hk, Bool.and_eq_true, beq_iff_eq, List.isEmpty_iff] at hwf
      obtain ⟨⟨⟨hg0, ht0⟩, hd⟩, has⟩ := hwf
      subst hg0; subst has
      have hs : stack = [] := by
        cases stack with
        | nil => rfl
        | cons i r => simp at hlen; omega
      subst hs
      have k2 : t.kind ≠ .INDENT := by simp [hk]
      obtain ⟨h1, h2⟩ := lineInv_nl _ _ _ _ hinv
      rw [renderA_cons, T_cons, stripTok_of_ne _ _ k2]
      have : T p.length ([] : List ATok) = [] := rfl
      rw [this, compat_endmarker_nil _ _ _ hk ht0]
      simp only [adjustGo, hk, reduceCtorEq, if_false, false_or, renderA, List.flatMap_cons, List.flatMap_nil, vis,
        ht0, List.append_nil]
      rw [matchLines_noNl _ _ h1 h2]
      cases sl <;> simp [trimTo]
    | NEWLINE =>
      simp only [hk, Bool.and_eq_true, beq_iff_eq, Bool.or_eq_true, Bool.not_eq_true'] at hwf
      obtain ⟨⟨ht, hgam⟩, hwf'⟩ := hwf
      exact nlcase (Or.inl hk) ht (by intro h; rcases hgam with h' | h'
                                      · rw [h] at h'; cases h'
                                      · exact h') hwf'
    | NL =>
      simp only [hk, Bool.and_eq_true, beq_iff_eq, Bool.or_eq_true, Bool.not_eq_true'] at hwf
      obtain ⟨⟨ht, hgam⟩, hwf'⟩ := hwf
      exact nlcase (Or.inr hk) ht (by intro h; rcases hgam with h' | h'
                                      · rw [h] at h'; cases h'
                                      · exact h') hwf'
    | FSTRING_MIDDLE =>
      simp only [hk, Bool.and_eq_true, beq_iff_eq, Bool.not_eq_true'] at hwf
      obtain ⟨⟨hg0, hsl⟩, hwf'⟩ := hwf
      subst hg0; subst hsl
      have k2 : t.kind ≠ .INDENT := by simp [hk]
      obtain ⟨hx1, hy1, hcase⟩ := hinv.2 rfl
      have hI2 : Inv2 xo yo := ⟨hx1, hy1, by
        rcases hcase with h | ⟨_, h1, h2⟩
        · exact Or.inl h
        · exact Or.inr ⟨h1, h2⟩⟩
      have hst : Stable xo yo (fixLine xo yo) := by
        intro a
        rcases hcase with ⟨hx2, hy2⟩ | ⟨_, h1, _⟩
        · exact fixLine_closed xo yo a a hx2 hy2
        · subst h1; simp [fixLine_self]
      rw [renderA_cons, T_cons, stripTok_of_ne _ _ k2, compat_middle _ _ _ _ hk,
        adjustGo_vis _ _ _ _ _ k2 (by simp [hk]) (by simp [hk]) (by simp [hk]), renderA_cons]
      simp only [vis_middle _ hk, Bool.false_eq_true, if_false, List.nil_append]
      have e1 : xo ++ (escapeBraces t.text ++ renderA as) = xo ++ escapeBraces t.text ++ renderA as := by simp
      have e2 : yo ++ (escapeBraces t.text ++ compat ⟨stack, false, false⟩ (T p.length as)) =
          yo ++ escapeBraces t.text ++ compat ⟨stack, false, false⟩ (T p.length as) := by simp
      rw [e1, e2, matchLines_common (escapeBraces t.text) xo yo _ _ hx1 hy1]
      have hinv2 := common_inv (escapeBraces t.text) xo yo hI2
      have hcl : LineInv false true (commonA xo (escapeBraces t.text)) (commonA yo (escapeBraces t.text)) :=
        ⟨fun h => Bool.noConfusion h, fun _ => ⟨hinv2.1, hinv2.2.1, by
          rcases hinv2.2.2 with h | ⟨h1, h2⟩
          · exact Or.inl h
          · exact Or.inr ⟨rfl, h1, h2⟩⟩⟩
      rw [ih d stack false false true _ _ hwf' hlen hbl (fun h => Bool.noConfusion h) hcl, ← List.append_assoc,
        common_stable (escapeBraces t.text) xo yo (fixLine xo yo) hst]
      simp
    | STRING =>
      simp only [hk, Bool.and_eq_true, bne_iff_ne, ne_eq, Bool.not_eq_true'] at hwf
      obtain ⟨⟨⟨⟨_, hl⟩, hd⟩, ham⟩, hwf'⟩ := hwf
      subst ham
      have hne : stack ≠ [] := by intro h; subst h; simp at hlen; exact hd hlen.symm
      have k2 : t.kind ≠ .INDENT := by simp [hk]
      rw [renderA_cons, T_cons, stripTok_of_ne _ _ k2,
        compat_vis _ _ _ _ _ hne (by simp [hk]) k2 (by simp [hk]) (by simp [hk]) (by simp [hk]) (by simp [hk]),
        adjustGo_vis _ _ _ _ _ k2 (by simp [hk]) (by simp [hk]) (by simp [hk]), renderA_cons]
      simp only [vis, if_false, hk, decide_true, reduceCtorEq]
      have H : ∀ xo' yo', LineInv false false xo' yo' →
          matchLines (xo' ++ renderA as) (yo' ++ compat ⟨stack, false, true⟩ (T p.length as)) =
            fixLine xo' yo' ++ renderA (adjustGo p.length stack false as) :=
        fun xo' yo' h => ih d stack false true false xo' yo' hwf' hlen hbl (fun _ => rfl) h
      have hv : vOf ps t = (if ps = true then [' '] else []) ++ t.text := by
        simp only [vOf, hk, reduceCtorEq, or_self, if_false, true_and]
        cases ps <;> simp
      have := step_string sl xo yo g (stack.headD []) (if ps = true then [' '] else []) t.text _ _ _ hinv hg
        (headD_blank _ hbl) (by cases ps <;> simp [isBlank])
        (by intro h; cases ps with
            | false => rfl
            | true => have := hps rfl; rw [h] at this; cases this) hl H
      rw [hv]
      simp only [List.append_assoc] at this ⊢
      rw [this]
    | NAME => simp only [hk, Bool.and_eq_true, bne_iff_ne, ne_eq, Bool.or_eq_true, Bool.not_eq_true', beq_iff_eq] at hwf; exact word hwf.1.1.1 hwf.1.1.2 (by intro h; rcases hwf.1.2 with h' | h'; (· rw [h] at h'; cases h'); exact h') hwf.2 (by simp [hk])
    | NUMBER => simp only [hk, Bool.and_eq_true, bne_iff_ne, ne_eq, Bool.or_eq_true, Bool.not_eq_true', beq_iff_eq] at hwf; exact word hwf.1.1.1 hwf.1.1.2 (by intro h; rcases hwf.1.2 with h' | h'; (· rw [h] at h'; cases h'); exact h') hwf.2 (by simp [hk])
    | OP => simp only [hk, Bool.and_eq_true, bne_iff_ne, ne_eq, Bool.or_eq_true, Bool.not_eq_true', beq_iff_eq] at hwf; exact word hwf.1.1.1 hwf.1.1.2 (by intro h; rcases hwf.1.2 with h' | h'; (· rw [h] at h'; cases h'); exact h') hwf.2 (by simp [hk])
    | COMMENT => simp only [hk, Bool.and_eq_true, bne_iff_ne, ne_eq, Bool.or_eq_true, Bool.not_eq_true', beq_iff_eq] at hwf; exact word hwf.1.1.1 hwf.1.1.2 (by intro h; rcases hwf.1.2 with h' | h'; (· rw [h] at h'; cases h'); exact h') hwf.2 (by simp [hk])
    | FSTRING_START => simp only [hk, Bool.and_eq_true, bne_iff_ne, ne_eq, Bool.or_eq_true, Bool.not_eq_true', beq_iff_eq] at hwf; exact word hwf.1.1.1 hwf.1.1.2 (by intro h; rcases hwf.1.2 with h' | h'; (· rw [h] at h'; cases h'); exact h') hwf.2 (by simp [hk])
    | FSTRING_END => simp only [hk, Bool.and_eq_true, bne_iff_ne, ne_eq, Bool.or_eq_true, Bool.not_eq_true', beq_iff_eq] at hwf; exact word hwf.1.1.1 hwf.1.1.2 (by intro h; rcases hwf.1.2 with h' | h'; (· rw [h] at h'; cases h'); exact h') hwf.2 (by simp [hk])
    | ENCODING => simp [hk] at hwf
    | OTHER => simp [hk] at hwf

/-- what `wfGo` says about the tail, whatever the token -/
theorem wfGo_step (p : Str) (st : WState) (a : ATok) (as : List ATok) (h : wfGo p st (a :: as) = true) :
    (a.tok.kind = .INDENT → mixes (p.contains '\t') a.tok.text = false) ∧
    (a.tok.kind = .DEDENT → st.depth ≠ 0) ∧
    (as = [] ∨ ∃ sl am, wfGo p ⟨(if a.tok.kind = .INDENT then st.depth + 1 else if a.tok.kind = .DEDENT then
        st.depth - 1 else st.depth), sl, am⟩ as = true) := by
  obtain ⟨g, t⟩ := a
  simp only [wfGo, Bool.and_eq_true] at h
  obtain ⟨_, h⟩ := h
  cases hk : t.kind <;> simp only [hk, Bool.and_eq_true, beq_iff_eq, decide_eq_true_eq, Bool.not_eq_true',
      List.isEmpty_iff, bne_iff_ne, ne_eq, Bool.or_eq_true] at h <;>
    simp only [reduceCtorEq, if_false, if_true, false_implies, true_and, forall_const, and_true]
  case INDENT => exact ⟨h.1.1.2, Or.inr ⟨_, _, h.2⟩⟩
  case DEDENT => exact ⟨h.1.1.2, Or.inr ⟨_, _, h.2⟩⟩
  case ENDMARKER => exact Or.inl h.2
  case ENCODING => exact absurd h (by simp)
  case OTHER => exact absurd h (by simp)
  all_goals exact Or.inr ⟨_, _, h.2⟩

theorem wfGo_no_mixed (p : Str) : ∀ (as : List ATok) (st : WState), wfGo p st as = true →
    (as.map (·.tok)).any (fun t => t.kind = .INDENT && mixes (p.contains '\t') t.text) = false := by
  intro as
  induction as with
  | nil => intro _ _; rfl
  | cons a as ih =>
    intro st hwf
    obtain ⟨h1, _, h3⟩ := wfGo_step p st a as hwf
    simp only [List.map_cons, List.any_cons, Bool.or_eq_false_iff]
    constructor
    · by_cases hI : a.tok.kind = .INDENT
      · rw [h1 hI, Bool.and_false]
      · rw [decide_eq_false hI, Bool.false_and]
    · rcases h3 with h | ⟨sl, am, h⟩
      · subst h; rfl
      · exact ih _ h

theorem wfGo_popUnderflow (p : Str) (lvl : Nat) : ∀ (as : List ATok) (d : Nat) (sl am : Bool),
    wfGo p ⟨d, sl, am⟩ as = true → popUnderflow d (T lvl as) = false := by
  intro as
  induction as with
  | nil => intro _ _ _ _; rfl
  | cons a as ih =>
    intro d sl am hwf
    obtain ⟨_, h2, h3⟩ := wfGo_step p _ a as hwf
    rw [T_cons]
    simp only [popUnderflow, stripTok_kind]
    have tail : ∀ d', (as = [] ∨ ∃ sl am, wfGo p ⟨d', sl, am⟩ as = true) → popUnderflow d' (T lvl as) = false := by
      intro d' h
      rcases h with h | ⟨sl', am', h⟩
      · subst h; rfl
      · exact ih _ _ _ h
    by_cases hI : a.tok.kind = .INDENT
    · simp only [hI, if_true] at h3 ⊢
      exact tail _ h3
    · by_cases hD : a.tok.kind = .DEDENT
      · simp only [hD, reduceCtorEq, if_false, if_true, Bool.or_eq_false_iff, decide_eq_false_iff_not] at h3 ⊢
        exact ⟨h2 hD, tail _ h3⟩
      · simp only [hI, hD, if_false] at h3 ⊢
        exact tail _ h3

theorem compat_fresh_top_nil (s : List Str) (ps : Bool) (t : Tok) (ts : List Tok)
    (h1 : t.kind ≠ .ENCODING) (h2 : t.kind ≠ .INDENT) (h3 : t.kind ≠ .DEDENT) (h6 : t.kind ≠ .FSTRING_MIDDLE) :
    compat ⟨[] :: s, false, ps⟩ (t :: ts) = compat ⟨[] :: s, true, ps⟩ (t :: ts) := by
  by_cases h : t.kind = .NEWLINE ∨ t.kind = .NL
  · rw [compat_nl _ _ _ _ _ h, compat_nl _ _ _ _ _ h]
  · have h4 : t.kind ≠ .NEWLINE := fun e => h (Or.inl e)
    have h5 : t.kind ≠ .NL := fun e => h (Or.inr e)
    rw [compat_vis _ _ _ _ _ (by simp) h1 h2 h3 h4 h5 h6, compat_vis _ _ _ _ _ (by simp) h1 h2 h3 h4 h5 h6]
    simp

/-- `dedent_block` on a well-formed annotated token stream: the result is the same tokens with adjusted
first-on-line gaps. -/
theorem dedentCore_wf (p : Str) (as : List ATok) (h : wf p as = true) :
    dedentCore (renderA as) (as.map (·.tok)) = .ok (renderA (adjust p as)) := by
  match as, h with
  | a :: b :: rest, h =>
    simp only [wf, Bool.and_eq_true, decide_eq_true_eq, beq_iff_eq, bne_iff_ne, ne_eq, Bool.not_eq_true'] at h
    obtain ⟨⟨⟨⟨⟨⟨⟨⟨hk, htx⟩, hg⟩, hpne⟩, hpb⟩, hpm⟩, hbz⟩, hbm⟩, hwf⟩ := h
    obtain ⟨g, t⟩ := a
    simp only at hk htx hg
    subst hg; subst htx
    have hbi : blockIndent ((⟨[], t⟩ :: b :: rest : List ATok).map (·.tok)) = some t.text := by
      simp [blockIndent, hk]
    have hmix := wfGo_no_mixed t.text (b :: rest) _ hwf
    have hpop := wfGo_popUnderflow t.text t.text.length (b :: rest) 1 true false hwf
    simp only [zeroWidth, Bool.or_eq_false_iff, decide_eq_false_iff_not] at hbz
    obtain ⟨⟨⟨b2, b3⟩, _⟩, b1⟩ := hbz
    have hmain := main t.text (b :: rest) 1 [[]] true false false [] [] hwf rfl
      (by intro i hi; simp at hi; subst hi; rfl) (fun h => Bool.noConfusion h) (lineInv_fresh _)
    have hst : stripTok t.text.length t = { t with text := [] } := by
      simp [stripTok, hk]
    have hrender : renderA (⟨[], t⟩ :: b :: rest) = renderA (b :: rest) := by
      rw [renderA_cons]; simp [vis, hk]
    have hadj : renderA (adjust t.text (⟨[], t⟩ :: b :: rest)) =
        renderA (adjustGo t.text.length [[]] true (b :: rest)) := by
      simp only [adjust, adjustGo, hk, if_true]
      rw [renderA_cons]; simp [vis, hk]
    rw [hadj, hrender]
    unfold dedentCore
    rw [hbi]
    have hany : ((⟨[], t⟩ :: b :: rest : List ATok).map (·.tok)).any
        (fun t' => t'.kind = .INDENT && mixes (t.text.contains '\t') t'.text) = false := by
      simp only [List.map_cons, List.any_cons] at hmix ⊢
      rw [hmix, hpm]; simp
    have hunt : untokenize ((⟨[], t⟩ :: b :: rest : List ATok).map (·.tok) |>.map (stripTok t.text.length)) =
        some (compat ⟨[[]], true, false⟩ (T t.text.length (b :: rest))) := by
      simp only [List.map_cons, untokenize, hst]
      have hT : stripTok t.text.length b.tok :: List.map (stripTok t.text.length) (List.map (·.tok) rest) =
          T t.text.length (b :: rest) := by
        simp [T, List.map_map, Function.comp_def]
      rw [hT]
      simp only [untokFull, hk, if_true, popUnderflow]
      rw [hpop]
      simp only [Bool.false_eq_true, if_false, Option.some.injEq]
      rw [compat_indent _ _ _ _ _ (by simpa using hk), T_cons,
        compat_fresh_top_nil _ _ _ _ (by rw [stripTok_kind]; exact b1) (by rw [stripTok_kind]; exact b2)
          (by rw [stripTok_kind]; exact b3) (by rw [stripTok_kind]; exact hbm)]
    simp only [hpne, if_false]
    rw [hany]
    simp only [Bool.false_eq_true, if_false]
    rw [hunt]
    simp only [List.nil_append, fixLine] at hmain
    simp [hmain]


/-! ## `adjust` satisfies the token-level specification `dedentSpec` -/

theorem trimTo_suffix (k : Nat) (g : Str) : trimTo k g = g.drop (g.length - (trimTo k g).length) := by
  simp only [trimTo]
  split
  · rename_i h
    have : (g.drop (g.length - k)).length = k := by simp; omega
    rw [this]
  · simp

theorem trimTo_top (p t : Str) (hp : p ≠ []) : trimTo t.length (p ++ t) = t := by
  have hl : 0 < p.length := List.length_pos_iff.mpr hp
  simp only [trimTo, List.length_append]
  have : p.length + t.length > t.length := by omega
  simp only [this, if_true]
  have : p.length + t.length - t.length = p.length := by omega
  rw [this, List.drop_left]

theorem prefix_split (p i : Str) (h : p.isPrefixOf i = true) : i = p ++ i.drop p.length := by
  have := List.isPrefixOf_iff_prefix.mp h
  obtain ⟨t, ht⟩ := this
  subst ht
  simp

theorem band_intro {a b : Bool} (ha : a = true) (hb : b = true) : (a && b) = true := by simp [ha, hb]

theorem gap_goal (p g : Str) (k : Nat) (sl logical : Bool)
    (h : sl = true → logical = true → g = p ++ trimTo k g) :
    (if (sl && logical) = true then g == p ++ (if sl = true then trimTo k g else g)
     else if sl = true then
       (if sl = true then trimTo k g else g) == g.drop (g.length - (if sl = true then trimTo k g else g).length)
     else (if sl = true then trimTo k g else g) == g) = true := by
  cases sl with
  | false => simp
  | true =>
    cases logical with
    | false =>
      simp only [Bool.and_false, Bool.false_eq_true, if_false, if_true, beq_iff_eq]
      exact trimTo_suffix _ _
    | true =>
      simp only [Bool.and_self, if_true, beq_iff_eq]
      exact h rfl rfl

theorem gap_goal_comment (g : Str) (k : Nat) (sl : Bool) :
    (if sl = true then
       (if sl = true then trimTo k g else g) == g.drop (g.length - (if sl = true then trimTo k g else g).length)
     else (if sl = true then trimTo k g else g) == g) = true := by
  cases sl with
  | false => simp
  | true => simp only [if_true, beq_iff_eq]; exact trimTo_suffix _ _

/-- adjust's stack is the tokenizer's stack with the block prefix stripped -/
def MainSpecFor (p : Str) (as : List ATok) : Prop :=
  ∀ (d : Nat) (sl am logical : Bool) (full : List Str),
    wfGo p ⟨d, sl, am⟩ as = true → startsOkGo p full logical as = true → full.length = d →
    (∀ i ∈ full, p.isPrefixOf i = true) →
    dedentSpecGo p logical sl as (adjustGo p.length (full.map (List.drop p.length)) sl as) = true

theorem headD_map_drop (full : List Str) (n : Nat) :
    (full.map (List.drop n)).headD [] = (full.headD []).drop n := by
  cases full <;> simp

theorem mainSpec (p : Str) (hp : p ≠ []) : ∀ as, MainSpecFor p as := by
  intro as
  induction as with
  | nil => intro _ _ _ _ _ _ _ _ _; rfl
  | cons a as ih =>
    intro d sl am logical full hwf hso hlen hpre
    obtain ⟨g, t⟩ := a
    simp only [wfGo, Bool.and_eq_true] at hwf
    obtain ⟨hg, hwf⟩ := hwf
    -- a visible code token (not comment / newline / zero-width)
    have code : ∀ (hz : zeroWidth t.kind = false) (h4 : t.kind ≠ .NEWLINE) (h5 : t.kind ≠ .NL) (h7 : t.kind ≠ .COMMENT)
        (hd : d ≠ 0) (hwf' : wfGo p ⟨d, false, false⟩ as = true),
        dedentSpecGo p logical sl (⟨g, t⟩ :: as)
          (adjustGo p.length (full.map (List.drop p.length)) sl (⟨g, t⟩ :: as)) = true := by
      intro hz h4 h5 h7 hd hwf'
      simp only [zeroWidth, Bool.or_eq_false_iff, decide_eq_false_iff_not] at hz
      obtain ⟨⟨⟨k2, k3⟩, k8⟩, k1⟩ := hz
      simp only [startsOkGo, k2, k3, h4, h5, h7, k8, if_false, or_self, Bool.and_eq_true, Bool.or_eq_true,
        Bool.not_eq_true', beq_iff_eq] at hso
      obtain ⟨hgap, hso'⟩ := hso
      rw [adjustGo_vis _ _ _ _ _ k2 k3 h4 h5]
      simp only [dedentSpecGo, beq_self_eq_true, Bool.true_and, zeroWidth, k1, k2, k3, k8, decide_false, Bool.or_self,
        Bool.false_eq_true, if_false, h4, h5, h7, or_self]
      refine band_intro (gap_goal p g _ sl logical ?_) (ih d false false false full hwf' hso' hlen hpre)
      intro hsl hlog
      subst hsl; subst hlog
      have hgap' : g = full.headD [] := by simpa using hgap
      have hne : full ≠ [] := by intro h; subst h; simp at hlen; exact hd hlen.symm
      obtain ⟨i, r, hfull⟩ := List.exists_cons_of_ne_nil hne
      subst hfull
      simp only [List.headD_cons] at hgap'
      subst hgap'
      have hsplit := prefix_split p g (hpre g (by simp))
      simp only [List.map_cons, List.headD_cons]
      have h1 : trimTo (g.drop p.length).length g = g.drop p.length := by
        conv => lhs; arg 2; rw [hsplit]
        exact trimTo_top _ _ hp
      rw [h1]; exact hsplit
    cases hk : t.kind with
    | INDENT =>
      simp only [hk, Bool.and_eq_true, beq_iff_eq, decide_eq_true_eq, Bool.not_eq_true'] at hwf
      obtain ⟨⟨⟨⟨⟨hg0, _⟩, _⟩, _⟩, _⟩, hwf'⟩ := hwf
      simp only [startsOkGo, hk, if_true, Bool.and_eq_true] at hso
      simp only [adjustGo, hk, if_true, dedentSpecGo, beq_self_eq_true, Bool.true_and, zeroWidth, decide_true,
        Bool.true_or, Bool.or_true]
      have := ih (d + 1) sl false logical (t.text :: full) hwf' hso.2 (by simp [hlen])
        (by intro i hi
            rcases List.mem_cons.mp hi with h | h
            · subst h; exact hso.1
            · exact hpre i h)
      simpa using this
    | DEDENT =>
      simp only [hk, Bool.and_eq_true, beq_iff_eq, bne_iff_ne, ne_eq] at hwf
      obtain ⟨⟨⟨⟨hg0, ht0⟩, hd⟩, _⟩, hwf'⟩ := hwf
      simp only [startsOkGo, hk, reduceCtorEq, if_false, if_true] at hso
      simp only [adjustGo, hk, reduceCtorEq, if_false, if_true, dedentSpecGo, beq_self_eq_true, Bool.true_and, zeroWidth,
        decide_true, decide_false, Bool.true_or, Bool.or_true, Bool.false_or]
      have := ih (d - 1) sl false logical full.tail hwf' hso (by simp [hlen])
        (fun i hi => hpre i (List.mem_of_mem_tail hi))
      simpa [List.map_tail] using this
    | ENDMARKER =>
      simp only [hk, Bool.and_eq_true, beq_iff_eq, List.isEmpty_iff] at hwf
      obtain ⟨⟨⟨hg0, ht0⟩, hd⟩, has⟩ := hwf
      subst hg0; subst has
      simp [adjustGo, hk, dedentSpecGo, zeroWidth, trimTo]
    | NEWLINE =>
      simp only [hk, Bool.and_eq_true, beq_iff_eq] at hwf
      simp only [startsOkGo, hk, reduceCtorEq, if_false, if_true] at hso
      simp only [adjustGo, hk, reduceCtorEq, if_false, true_or, if_true, dedentSpecGo, beq_self_eq_true, Bool.true_and,
        zeroWidth, decide_false, Bool.or_self, Bool.false_eq_true, decide_true, Bool.or_true, Bool.and_eq_true]
      refine ⟨by cases sl <;> simp, ih d true false true full hwf.2 hso hlen hpre⟩
    | NL =>
      simp only [hk, Bool.and_eq_true, beq_iff_eq] at hwf
      simp only [startsOkGo, hk, reduceCtorEq, if_false, true_or, if_true] at hso
      simp only [adjustGo, hk, reduceCtorEq, if_false, or_true, if_true, dedentSpecGo, beq_self_eq_true, Bool.true_and,
        zeroWidth, decide_false, Bool.or_self, Bool.false_eq_true, Bool.or_false, Bool.and_eq_true]
      refine ⟨by cases sl <;> simp, ih d true false logical full hwf.2 hso hlen hpre⟩
    | COMMENT =>
      simp only [hk, Bool.and_eq_true, bne_iff_ne, ne_eq] at hwf
      simp only [startsOkGo, hk, reduceCtorEq, if_false, or_true, true_or, if_true] at hso
      rw [adjustGo_vis _ _ _ _ _ (by simp [hk]) (by simp [hk]) (by simp [hk]) (by simp [hk])]
      simp only [dedentSpecGo, beq_self_eq_true, Bool.true_and, zeroWidth, hk, reduceCtorEq, decide_false, Bool.or_self,
        Bool.false_eq_true, if_false, or_self, if_true]
      exact band_intro (gap_goal_comment g _ sl) (ih d false false logical full hwf.2 hso hlen hpre)
    | FSTRING_MIDDLE =>
      simp only [hk, Bool.and_eq_true, beq_iff_eq, Bool.not_eq_true'] at hwf
      obtain ⟨⟨hg0, hsl⟩, hwf'⟩ := hwf
      subst hsl
      have k2 : t.kind ≠ .INDENT := by simp [hk]
      simp only [startsOkGo, hk, reduceCtorEq, if_false, or_self, Bool.and_eq_true] at hso
      rw [adjustGo_vis _ _ _ _ _ k2 (by simp [hk]) (by simp [hk]) (by simp [hk])]
      simp only [dedentSpecGo, beq_self_eq_true, Bool.true_and, zeroWidth, hk, reduceCtorEq, decide_false, Bool.or_self,
        Bool.false_eq_true, if_false, or_self, Bool.false_and]
      exact ih d false true false full hwf' hso.2 hlen hpre
    | STRING =>
      simp only [hk, Bool.and_eq_true, bne_iff_ne, ne_eq] at hwf
      exact code (by simp [zeroWidth, hk]) (by simp [hk]) (by simp [hk]) (by simp [hk]) hwf.1.1.2 hwf.2
    | NAME => simp only [hk, Bool.and_eq_true, bne_iff_ne, ne_eq] at hwf; exact code (by simp [zeroWidth, hk]) (by simp [hk]) (by simp [hk]) (by simp [hk]) hwf.1.1.2 hwf.2
    | NUMBER => simp only [hk, Bool.and_eq_true, bne_iff_ne, ne_eq] at hwf; exact code (by simp [zeroWidth, hk]) (by simp [hk]) (by simp [hk]) (by simp [hk]) hwf.1.1.2 hwf.2
    | OP => simp only [hk, Bool.and_eq_true, bne_iff_ne, ne_eq] at hwf; exact code (by simp [zeroWidth, hk]) (by simp [hk]) (by simp [hk]) (by simp [hk]) hwf.1.1.2 hwf.2
    | FSTRING_START => simp only [hk, Bool.and_eq_true, bne_iff_ne, ne_eq] at hwf; exact code (by simp [zeroWidth, hk]) (by simp [hk]) (by simp [hk]) (by simp [hk]) hwf.1.1.2 hwf.2
    | FSTRING_END => simp only [hk, Bool.and_eq_true, bne_iff_ne, ne_eq] at hwf; exact code (by simp [zeroWidth, hk]) (by simp [hk]) (by simp [hk]) (by simp [hk]) hwf.1.1.2 hwf.2
    | ENCODING => simp [hk] at hwf
    | OTHER => simp [hk] at hwf


end Malt.Dedent

namespace Malt.Dedent

theorem wf_wfGo0 (p : Str) (as : List ATok) (h : wf p as = true) : p ≠ [] ∧ wfGo p ⟨0, true, false⟩ as = true := by
  match as, h with
  | a :: b :: rest, h =>
    simp only [wf, Bool.and_eq_true, decide_eq_true_eq, beq_iff_eq, bne_iff_ne, ne_eq, Bool.not_eq_true'] at h
    obtain ⟨⟨⟨⟨⟨⟨⟨⟨hk, htx⟩, hg⟩, hpne⟩, hpb⟩, hpm⟩, _⟩, _⟩, hwfgo⟩ := h
    obtain ⟨g, t⟩ := a
    simp only at hk htx hg
    subst hg; subst htx
    refine ⟨hpne, ?_⟩
    rw [wfGo]
    simp only [hk, List.all_nil, beq_self_eq_true, hpb, Nat.le_refl, decide_true, hpm, Bool.not_false, Bool.and_true,
      Bool.true_and, Nat.zero_add]
    exact hwfgo

end Malt.Dedent
