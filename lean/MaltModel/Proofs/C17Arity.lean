import MaltModel.Conv.Arity
/- C17 helper: the executable arity checker decides `ArE`/`ArS` (both directions). -/
set_option linter.unusedSimpArgs false
set_option linter.unusedVariables false
namespace Malt.Conv
open Malt.Py

mutual
theorem arE_iff : ∀ (e : Expr), arE e = true ↔ ArE e
  | .noneMarker => by simp [arE, ArE]
  | .name _ f_s f_ctx => by
      simp [arE, ArE, and_assoc]
  | .attr _ f_value f_attr f_ctx => by
      have h0 := arE_iff f_value
      simp [arE, ArE, h0, and_assoc]
  | .subscript _ f_value f_slice f_ctx => by
      have h0 := arE_iff f_value
      have h1 := arE_iff f_slice
      simp [arE, ArE, h0, h1, and_assoc]
  | .seq _ f_kind f_elts f_ctx => by
      have h0 := arEs_iff f_elts
      simp [arE, ArE, h0, and_assoc]
  | .starred _ f_value f_ctx => by
      have h0 := arE_iff f_value
      simp [arE, ArE, h0, and_assoc]
  | .const _ f_kind f_repr => by
      simp [arE, ArE, and_assoc]
  | .call _ f_func f_args f_keywords => by
      have h0 := arE_iff f_func
      have h1 := arEs_iff f_args
      have h2 := arEs_iff f_keywords
      simp [arE, ArE, h0, h1, h2, and_assoc]
  | .keyword _ f_arg f_hasArg f_value => by
      have h0 := arE_iff f_value
      simp [arE, ArE, h0, and_assoc]
  | .boolop _ f_isAnd f_values => by
      have h0 := arEs_iff f_values
      simp [arE, ArE, h0, and_assoc]
  | .unary _ f_op f_operand => by
      have h0 := arE_iff f_operand
      simp [arE, ArE, h0, and_assoc]
  | .binop _ f_op f_left f_right => by
      have h0 := arE_iff f_left
      have h1 := arE_iff f_right
      simp [arE, ArE, h0, h1, and_assoc]
  | .compare _ f_left f_ops f_comparators => by
      have h0 := arE_iff f_left
      have h1 := arEs_iff f_comparators
      simp [arE, ArE, h0, h1, and_assoc]
  | .ifexp _ f_test f_body f_orelse => by
      have h0 := arE_iff f_test
      have h1 := arE_iff f_body
      have h2 := arE_iff f_orelse
      simp [arE, ArE, h0, h1, h2, and_assoc]
  | .lambda _ f_args f_body => by
      have h0 := arE_iff f_args
      have h1 := arE_iff f_body
      simp [arE, ArE, h0, h1, and_assoc]
  | .namedexpr _ f_target f_value => by
      have h0 := arE_iff f_target
      have h1 := arE_iff f_value
      simp [arE, ArE, h0, h1, and_assoc]
  | .comp _ f_kind f_elts f_generators => by
      have h0 := arEs_iff f_elts
      have h1 := arEs_iff f_generators
      simp [arE, ArE, h0, h1, and_assoc]
  | .comprehension _ f_target f_iter f_ifs f_isAsync => by
      have h0 := arE_iff f_target
      have h1 := arE_iff f_iter
      have h2 := arEs_iff f_ifs
      simp [arE, ArE, h0, h1, h2, and_assoc]
  | .arguments _ f_posonly f_args f_vararg f_kwonly f_kwDefaults f_kwarg f_defaults => by
      have h0 := arEs_iff f_posonly
      have h1 := arEs_iff f_args
      have h2 := arEs_iff f_vararg
      have h3 := arEs_iff f_kwonly
      have h4 := arEs_iff f_kwDefaults
      have h5 := arEs_iff f_kwarg
      have h6 := arEs_iff f_defaults
      simp [arE, ArE, h0, h1, h2, h3, h4, h5, h6, and_assoc]
  | .arg _ f_name f_annotation => by
      have h0 := arEs_iff f_annotation
      simp [arE, ArE, h0, and_assoc]
  | .withitem _ f_contextExpr f_optionalVars => by
      have h0 := arE_iff f_contextExpr
      have h1 := arEs_iff f_optionalVars
      simp [arE, ArE, h0, h1, and_assoc]
  | .other _ f_kind f_attrs f_kids => by
      have h0 := arEs_iff f_kids
      simp [arE, ArE, h0, and_assoc]
theorem arEs_iff : ∀ (es : List Expr), arEs es = true ↔ ArEs es
  | [] => by simp [arEs, ArEs]
  | e :: es => by
      have h1 := arE_iff e
      have h2 := arEs_iff es
      simp [arEs, ArEs, h1, h2]
theorem arS_iff : ∀ (s : Stmt), arS s = true ↔ ArS s
  | .functionDef _ f_name f_args f_body f_decorators f_returns f_isAsync => by
      have h0 := arE_iff f_args
      have h1 := arSs_iff f_body
      have h2 := arEs_iff f_decorators
      have h3 := arEs_iff f_returns
      simp [arS, ArS, h0, h1, h2, h3, and_assoc]
  | .classDef _ f_name f_bases f_keywords f_body f_decorators => by
      have h0 := arEs_iff f_bases
      have h1 := arEs_iff f_keywords
      have h2 := arSs_iff f_body
      have h3 := arEs_iff f_decorators
      simp [arS, ArS, h0, h1, h2, h3, and_assoc]
  | .ret _ f_value => by
      have h0 := arEs_iff f_value
      simp [arS, ArS, h0, and_assoc]
  | .delete _ f_targets => by
      have h0 := arEs_iff f_targets
      simp [arS, ArS, h0, and_assoc]
  | .assign _ f_targets f_value => by
      have h0 := arEs_iff f_targets
      have h1 := arE_iff f_value
      simp [arS, ArS, h0, h1, and_assoc]
  | .augAssign _ f_target f_op f_value => by
      have h0 := arE_iff f_target
      have h1 := arE_iff f_value
      simp [arS, ArS, h0, h1, and_assoc]
  | .annAssign _ f_target f_annotation f_value f_simple => by
      have h0 := arE_iff f_target
      have h1 := arE_iff f_annotation
      have h2 := arEs_iff f_value
      simp [arS, ArS, h0, h1, h2, and_assoc]
  | .for_ _ f_target f_iter f_body f_orelse f_extraTest f_isAsync => by
      have h0 := arE_iff f_target
      have h1 := arE_iff f_iter
      have h2 := arSs_iff f_body
      have h3 := arSs_iff f_orelse
      have h4 := arEs_iff f_extraTest
      simp [arS, ArS, h0, h1, h2, h3, h4, and_assoc]
  | .while_ _ f_test f_body f_orelse => by
      have h0 := arE_iff f_test
      have h1 := arSs_iff f_body
      have h2 := arSs_iff f_orelse
      simp [arS, ArS, h0, h1, h2, and_assoc]
  | .if_ _ f_test f_body f_orelse => by
      have h0 := arE_iff f_test
      have h1 := arSs_iff f_body
      have h2 := arSs_iff f_orelse
      simp [arS, ArS, h0, h1, h2, and_assoc]
  | .with_ _ f_items f_body f_isAsync => by
      have h0 := arEs_iff f_items
      have h1 := arSs_iff f_body
      simp [arS, ArS, h0, h1, and_assoc]
  | .raise _ f_exc f_cause => by
      have h0 := arEs_iff f_exc
      have h1 := arEs_iff f_cause
      simp [arS, ArS, h0, h1, and_assoc]
  | .try_ _ f_body f_handlers f_orelse f_finalbody => by
      have h0 := arSs_iff f_body
      have h1 := arSs_iff f_handlers
      have h2 := arSs_iff f_orelse
      have h3 := arSs_iff f_finalbody
      simp [arS, ArS, h0, h1, h2, h3, and_assoc]
  | .handler _ f_type_ f_name f_body => by
      have h0 := arEs_iff f_type_
      have h1 := arSs_iff f_body
      simp [arS, ArS, h0, h1, and_assoc]
  | .assert_ _ f_test f_msg => by
      have h0 := arE_iff f_test
      have h1 := arEs_iff f_msg
      simp [arS, ArS, h0, h1, and_assoc]
  | .import_ _ f_names => by
      simp [arS, ArS, and_assoc]
  | .importFrom _ f_module f_names f_level => by
      simp [arS, ArS, and_assoc]
  | .global _ f_names => by
      simp [arS, ArS, and_assoc]
  | .nonlocal _ f_names => by
      simp [arS, ArS, and_assoc]
  | .expr _ f_value => by
      have h0 := arE_iff f_value
      simp [arS, ArS, h0, and_assoc]
  | .pass _ => by
      simp [arS, ArS, and_assoc]
  | .break_ _ => by
      simp [arS, ArS, and_assoc]
  | .continue_ _ => by
      simp [arS, ArS, and_assoc]
  | .other _ f_kind f_exprs f_blocks => by
      have h0 := arEs_iff f_exprs
      have h1 := arSs_iff f_blocks
      simp [arS, ArS, h0, h1, and_assoc]
theorem arSs_iff : ∀ (ss : List Stmt), arSs ss = true ↔ ArSs ss
  | [] => by simp [arSs, ArSs]
  | s :: ss => by
      have h1 := arS_iff s
      have h2 := arSs_iff ss
      simp [arSs, ArSs, h1, h2]
end

instance (t : List Stmt) : Decidable (ArityWellFormed t) := decidable_of_iff _ (arSs_iff t)

end Malt.Conv
