import MaltModel.Proofs.C08Activity
/-
Comprehensions.  `C08Activity` shows that the activity model is compositional on the fragment without
comprehensions.  Here the same is shown for expressions *with* comprehensions (of all four kinds, nested, with
lambdas inside): while a comprehension is open, `self.state[_Comprehension]` (`St.comps`) is part of the state
that a visit changes (the targets of the innermost comprehension grow) and reads (`_track_symbol` drops what the
targets hide).  `effC` threads it; `visitE_addsC` is the generalisation of `visitE_adds`.
-/
namespace Malt.Analysis
open Malt.Py

/-- States in which the generalised lemmas hold: a scope is open and the parameter pass is not active
    (a comprehension may be open). -/
structure PlainC (st : St) : Prop where
  ne : st.stack ≠ []
  annoOnly : st.annoOnly = false

/-- `Adds` with the comprehension stack made explicit: it is `cs` before and `cs'` after. -/
structure AddsC (cs cs' : List QSet) (st st' : St) (d : Eff) : Prop where
  ne : st'.stack ≠ []
  tail : st'.stack.tail = st.stack.tail
  top : ScopeAdds st.top st'.top d
  fns : st'.fns = st.fns
  inAug : st'.inAug = st.inAug
  inAnno : st'.inAnno = st.inAnno
  annoOnly : st'.annoOnly = false
  cin : st.comps = cs
  cout : st'.comps = cs'
  ext : ∃ new, st'.annos = new ++ st.annos

theorem AddsC.plain {cs cs' st st' d} (h : AddsC cs cs' st st' d) : PlainC st' := ⟨h.ne, h.annoOnly⟩

theorem AddsC.refl {st : St} (h : PlainC st) : AddsC st.comps st.comps st st {} :=
  ⟨h.ne, rfl, ScopeAdds.refl _, rfl, rfl, rfl, h.annoOnly, rfl, rfl, ⟨[], rfl⟩⟩

theorem AddsC.trans {c0 c1 c2 a b c d1 d2} (h1 : AddsC c0 c1 a b d1) (h2 : AddsC c1 c2 b c d2) : AddsC c0 c2 a c (d1 ++ d2) :=
  ⟨h2.ne, h2.tail.trans h1.tail, h1.top.trans h2.top, h2.fns.trans h1.fns, h2.inAug.trans h1.inAug,
   h2.inAnno.trans h1.inAnno, h2.annoOnly, h1.cin, h2.cout,
   by obtain ⟨n1, e1⟩ := h1.ext; obtain ⟨n2, e2⟩ := h2.ext; exact ⟨n2 ++ n1, by rw [e2, e1, List.append_assoc]⟩⟩

theorem AddsC.congr {cs cs' a b d e} (h : AddsC cs cs' a b d) (he : Eff.Equiv d e) : AddsC cs cs' a b e :=
  ⟨h.ne, h.tail, h.top.congr he, h.fns, h.inAug, h.inAnno, h.annoOnly, h.cin, h.cout, h.ext⟩

/-- At statement level (no comprehension open) the two notions coincide. -/
theorem AddsC.toAdds {st st' d} (h : AddsC [] [] st st' d) : Adds st st' d :=
  ⟨h.ne, h.tail, h.top, h.fns, h.inAug, h.inAnno, h.annoOnly, h.cout, h.ext⟩

theorem Plain.toC {st : St} (h : Plain st) : PlainC st := ⟨h.ne, h.annoOnly⟩

theorem AddsC.modTop {st : St} (h : PlainC st) (f : Scope → Scope) (d : Eff) (hf : ScopeAdds st.top (f st.top) d) :
    AddsC st.comps st.comps st (st.modTop f) d :=
  ⟨by simpa using h.ne, by simp, by rw [St.modTop_top _ _ h.ne]; exact hf, by simp, by simp, by simp,
   by simpa using h.annoOnly, rfl, by simp, ⟨[], by simp⟩⟩

theorem AddsC.addRead {st : St} (h : PlainC st) (q : QN) : AddsC st.comps st.comps st (st.addRead q) { read := [q] } :=
  AddsC.modTop h _ _ ⟨rfl, rfl, rfl, rfl, rfl, by intro x; simp [or_comm], by simp, by simp, by simp, by simp, by simp, by simp⟩

theorem AddsC.addModified {st : St} (h : PlainC st) (q : QN) : AddsC st.comps st.comps st (st.addModified q) { modified := [q] } :=
  AddsC.modTop h _ _ ⟨rfl, rfl, rfl, rfl, rfl, by simp, by intro x; simp [or_comm], by simp, by simp, by simp, by simp, by simp⟩

theorem AddsC.addDeleted {st : St} (h : PlainC st) (q : QN) : AddsC st.comps st.comps st (st.addDeleted q) { deleted := [q] } :=
  AddsC.modTop h _ _ ⟨rfl, rfl, rfl, rfl, rfl, by simp, by simp, by intro x; simp [or_comm], by simp, by simp, by simp, by simp⟩

theorem AddsC.addBound {st : St} (h : PlainC st) (q : QN) : AddsC st.comps st.comps st (st.addBound q) { bound := [q] } :=
  AddsC.modTop h _ _ ⟨rfl, rfl, rfl, rfl, rfl, by simp, by simp, by simp, by intro x; simp [or_comm], by simp, by simp, by simp⟩

theorem AddsC.addAnnotation {st : St} (h : PlainC st) (q : QN) : AddsC st.comps st.comps st (st.addAnnotation q) { annotations := [q] } :=
  AddsC.modTop h _ _ ⟨rfl, rfl, rfl, rfl, rfl, by simp, by simp, by simp, by simp, by simp, by simp, by intro x; simp [or_comm]⟩

theorem AddsC.addParam {st : St} (h : PlainC st) (q : QN) (o : Nat) : AddsC st.comps st.comps st (st.addParam q o) {} :=
  AddsC.modTop h _ _ ⟨rfl, rfl, rfl, rfl, rfl, by simp, by simp, by simp, by simp, by simp, by simp, by simp⟩

theorem St.enter_plainC {st : St} (h : PlainC st) (iso : Bool) (fn : Option String) : PlainC (st.enter iso fn) :=
  ⟨by simp [St.enter], h.annoOnly⟩

/-- `_enter_scope` … visits adding `d` … `_exit_scope` (+ recording), with a comprehension possibly open. -/
structure ScopedC (cs cs' : List QSet) (st st2 : St) (iso : Bool) (d : Eff) (recs : List (Nat × AnnoKey)) (st3 : St) : Prop where
  adds : AddsC cs cs' st st3 (d.exported iso)
  popped : ∃ c, Popped c iso d ∧ st3.annos = (recs.map fun (n, k) => (n, k, c)).reverse ++ st2.annos ∧ st2.top = c

theorem scoped_blockC {cs cs' : List QSet} {st st2 : St} (h : PlainC st) (iso : Bool) (fn : Option String) {d : Eff}
    (h2 : AddsC cs cs' (st.enter iso fn) st2 d) (recs : List (Nat × AnnoKey)) :
    ScopedC cs cs' st st2 iso d recs (st2.exitWith recs) := by
  have htail : st2.stack.tail = st.stack := by rw [h2.tail]; simp
  obtain ⟨c, rest, hst2⟩ : ∃ c rest, st2.stack = c :: rest := by
    cases hs : st2.stack with
    | nil => exact absurd hs h2.ne
    | cons c rest => exact ⟨c, rest, rfl⟩
  have hrest : rest = st.stack := by rw [hst2] at htail; simpa using htail
  obtain ⟨p, r, hst⟩ : ∃ p r, st.stack = p :: r := by
    cases hs : st.stack with
    | nil => exact absurd hs h.ne
    | cons p r => exact ⟨p, r, rfl⟩
  have hstack : st2.stack = c :: p :: r := by rw [hst2, hrest, hst]
  have hc : st2.top = c := by simp [St.top, hst2]
  have hp : st.top = p := by simp [St.top, hst]
  have hpop : Popped c iso d := by
    have := popped_of_adds (St.enter_top_fresh st iso fn) h2.top
    rwa [hc] at this
  have hex : st2.exitWith recs =
      { st2 with stack := c.finalizeInto p :: r, closed := c :: st2.closed,
                 annos := (recs.map fun (n, k) => (n, k, c)).reverse ++ st2.annos } := by
    simp [St.exitWith, hstack]
  refine ⟨⟨?_, ?_, ?_, ?_, ?_, ?_, ?_, ?_, ?_, ?_⟩, c, hpop, ?_, hc⟩
  · rw [hex]; simp
  · rw [hex, hst]; simp
  · rw [hex, hp]
    simpa [St.top] using finalizeInto_adds (p := p) hpop
  · rw [hex]; simpa using h2.fns
  · rw [hex]; simpa using h2.inAug
  · rw [hex]; simpa using h2.inAnno
  · rw [hex]; simpa using h2.annoOnly
  · simpa [St.enter] using h2.cin
  · rw [hex]; simpa using h2.cout
  · obtain ⟨n2, e2⟩ := h2.ext
    exact ⟨(recs.map fun (n, k) => (n, k, c)).reverse ++ n2, by rw [hex]; simp [e2]⟩
  · rw [hex]

theorem AddsC.scopedAdds {cs cs' st st2} (h : PlainC st) (iso : Bool) (fn : Option String) {d : Eff}
    (h2 : AddsC cs cs' (st.enter iso fn) st2 d) (recs : List (Nat × AnnoKey)) :
    AddsC cs cs' st (st2.exitWith recs) (d.exported iso) := (scoped_blockC h iso fn h2 recs).adds

end Malt.Analysis

namespace Malt.Analysis
open Malt.Py

/-- `_track_symbol` with the comprehensions `cs` open: the effect on the scope and the new comprehension stack. -/
def trackC (cs : List QSet) (q? : Option QN) (ctx : Ctx) (cwap aug anno : Bool) : Eff × List QSet :=
  match q? with
  | none => ({}, cs)
  | some qn =>
    if hiddenByComps cs qn then ({}, cs) else
    match ctx with
    | .store =>
        match cs with
        | l :: ls => ({}, (l.ins qn) :: ls)
        | [] => (trackEff (some qn) .store cwap aug anno, [])
    | .load => (trackEff (some qn) .load cwap aug anno, cs)
    | .del => (trackEff (some qn) .del cwap aug anno, cs)

mutual
/-- The effect of visiting `e` while the comprehensions `cs` are open, and the comprehension stack afterwards. -/
def effC (fns : List FnCtx) (aug anno : Bool) (cs : List QSet) (e : Expr) : Eff × List QSet :=
  match e with
  | .name _ s c => trackC cs (some (.sym s)) c false aug anno
  | .const .. | .noneMarker => ({}, cs)
  | .attr i v a c =>
      let r1 := effC fns aug anno cs v
      let r2 := trackC r1.2 (qnOf (.attr i v a c)) c (inCtor fns && setsSelfAttribute (qnOf (.attr i v a c))) aug anno
      (r1.1 ++ r2.1, r2.2)
  | .subscript i v s c =>
      let r1 := effC fns aug anno cs v
      let r2 := effC fns aug anno r1.2 s
      let r3 := trackC r2.2 (qnOf (.subscript i v s c)) c false aug anno
      (r1.1 ++ r2.1 ++ r3.1, r3.2)
  | .call _ f as ks =>
      let r1 := effCs fns aug anno cs as
      let r2 := effCs fns aug anno r1.2 ks
      let r3 := effC fns aug anno r2.2 f
      ((r1.1 ++ r2.1).exported false ++ r3.1, r3.2)
  | .keyword _ _ _ v => effC fns aug anno cs v
  | .boolop _ _ vs => effCs fns aug anno cs vs
  | .unary _ _ x => effC fns aug anno cs x
  | .binop _ _ l r =>
      let r1 := effC fns aug anno cs l
      let r2 := effC fns aug anno r1.2 r
      (r1.1 ++ r2.1, r2.2)
  | .compare _ l _ rs =>
      let r1 := effC fns aug anno cs l
      let r2 := effCs fns aug anno r1.2 rs
      (r1.1 ++ r2.1, r2.2)
  | .ifexp _ t b o =>
      let r1 := effC fns aug anno cs t
      let r2 := effC fns aug anno r1.2 b
      let r3 := effC fns aug anno r2.2 o
      (r1.1 ++ r2.1 ++ r3.1, r3.2)
  | .lambda i args body =>
      match args with
      | .arguments _ po ar va ko kd kw df =>
          let fns' := FnCtx.lam i :: fns
          let params : QSet := paramNames po ar va ko kw
          let r1 := effCs fns' aug anno cs kd
          let r2 := effCs fns' aug anno r1.2 df
          let r3 := effC fns' aug anno r2.2 body
          let defScope : Eff := r1.1 ++ r2.1 ++ { bound := params }
          let inner : Eff := ({ bound := params } : Eff).exported false ++ r3.1.exported false
          (defScope.exported false ++ inner.exported true ++ { read := inner.read.diff inner.bound }, r3.2)
      | _ => ({}, cs)
  | .seq _ _ es _ => effCs fns aug anno cs es
  | .starred _ v _ => effC fns aug anno cs v
  | .namedexpr _ t v =>
      let r1 := effC fns aug anno cs t
      let r2 := effC fns aug anno r1.2 v
      (r1.1 ++ r2.1, r2.2)
  | .comp _ _ elts gens =>
      let r1 := effCs fns aug anno ([] :: cs) gens
      let r2 := effCs fns aug anno r1.2 elts
      (r1.1 ++ r2.1, r2.2.tail)
  | .comprehension _ t it ifs _ =>
      let r1 := effC fns aug anno cs it
      let r2 := effC fns aug anno r1.2 t
      let r3 := effC fns aug anno r2.2 t
      let r4 := effC fns aug anno r3.2 it
      let r5 := effCs fns aug anno r4.2 ifs
      (r1.1 ++ r2.1 ++ r3.1 ++ r4.1 ++ r5.1, r5.2)
  | .arguments .. | .arg .. => ({}, cs)
  | .withitem _ c v =>
      let r1 := effC fns aug anno cs c
      let r2 := effCs fns aug anno r1.2 v
      ((r1.1 ++ r2.1).exported false, r2.2)
  | .other _ _ _ kids => effCs fns aug anno cs kids
def effCs (fns : List FnCtx) (aug anno : Bool) (cs : List QSet) (es : List Expr) : Eff × List QSet :=
  match es with
  | [] => ({}, cs)
  | e :: rest =>
      let r1 := effC fns aug anno cs e
      let r2 := effCs fns aug anno r1.2 rest
      (r1.1 ++ r2.1, r2.2)
end

theorem St.addRead_comps (st : St) (q : QN) : (st.addRead q).comps = st.comps := by simp [St.addRead]
theorem St.addModified_comps (st : St) (q : QN) : (st.addModified q).comps = st.comps := by simp [St.addModified]
theorem St.addBound_comps (st : St) (q : QN) : (st.addBound q).comps = st.comps := by simp [St.addBound]

theorem track_addsC {st : St} (h : PlainC st) (q? : Option QN) (ctx : Ctx) (cwap : Bool) :
    AddsC st.comps (trackC st.comps q? ctx cwap st.inAug st.inAnno).2 st (track q? ctx cwap st)
      (trackC st.comps q? ctx cwap st.inAug st.inAnno).1 := by
  unfold track trackC
  have hA : (st.annoOnly && !st.inAnno) = false := by simp [h.annoOnly]
  simp only [hA, Bool.false_eq_true, ↓reduceIte]
  cases q? with
  | none => exact AddsC.refl h
  | some qn =>
    simp only
    by_cases hH : hiddenByComps st.comps qn = true
    · simp only [hH, ↓reduceIte]; exact AddsC.refl h
    · simp only [hH, Bool.false_eq_true, ↓reduceIte]
      cases ctx with
      | store =>
        cases hcs : st.comps with
        | cons l ls =>
          simp only
          exact ⟨h.ne, rfl, ScopeAdds.refl _, rfl, rfl, rfl, h.annoOnly, hcs, rfl, ⟨[], rfl⟩⟩
        | nil =>
          simp only
          have hp : Plain st := ⟨h.ne, hcs, h.annoOnly⟩
          have := track_adds hp (some qn) .store cwap
          unfold track at this
          simp only [hA, Bool.false_eq_true, ↓reduceIte, hcs, hiddenByComps, List.any_nil] at this
          exact ⟨this.ne, this.tail, this.top, this.fns, this.inAug, this.inAnno, this.annoOnly, hcs, this.comps, this.ext⟩
      | load =>
        have h1 := AddsC.addRead h qn
        simp only [trackEff, St.addRead_inAnno]
        cases hg : st.inAnno with
        | false => simp only [Bool.false_eq_true, ↓reduceIte]; exact h1.congr (by eff_equiv)
        | true =>
          simp only [↓reduceIte]
          have h2 := h1.trans (by simpa [St.addRead_comps] using AddsC.addAnnotation h1.plain qn)
          exact h2.congr (by eff_equiv)
      | del =>
        have h1 := AddsC.addRead h qn
        have h2 := h1.trans (by simpa [St.addRead_comps] using AddsC.addBound h1.plain qn)
        have h3 := h2.trans (by simpa [St.addRead_comps, St.addBound_comps] using AddsC.addDeleted h2.plain qn)
        simp only [trackEff]
        exact h3.congr (by eff_equiv)

end Malt.Analysis

namespace Malt.Analysis
open Malt.Py

theorem AddsC.inCtx {cs cs' a b d fns aug anno} (h : AddsC cs cs' a b d) (c : InCtx a fns aug anno) : InCtx b fns aug anno :=
  ⟨h.fns.trans c.fns, h.inAug.trans c.inAug, h.inAnno.trans c.inAnno⟩

theorem PlainC.pushFn {st : St} (h : PlainC st) (f : FnCtx) : PlainC (st.pushFn f) := ⟨h.ne, h.annoOnly⟩

theorem AddsC.popFn {cs cs' st b f d} (h : AddsC cs cs' (st.pushFn f) b d) : AddsC cs cs' st b.popFn d :=
  ⟨h.ne, h.tail, h.top, by simp [St.popFn, h.fns, St.pushFn], h.inAug, h.inAnno, h.annoOnly, h.cin, h.cout, h.ext⟩

theorem AddsC.consAnno {cs cs' a b d} (h : AddsC cs cs' a b d) (x : Anno) : AddsC cs cs' a { b with annos := x :: b.annos } d :=
  ⟨h.ne, h.tail, h.top, h.fns, h.inAug, h.inAnno, h.annoOnly, h.cin, h.cout,
   by obtain ⟨n, e⟩ := h.ext; exact ⟨x :: n, by simp [e]⟩⟩

theorem AddsC.recordTop {cs cs' a b d} (h : AddsC cs cs' a b d) (n : Nat) (k : AnnoKey) : AddsC cs cs' a (b.recordTop n k) d := by
  unfold St.recordTop
  split
  · exact h.consAnno _
  · exact h

theorem AddsC.condRecord {cs cs' a b d} (h : AddsC cs cs' a b d) (n : Nat) (k : AnnoKey) :
    AddsC cs cs' a (if b.hasAnno n k then b else b.recordTop n k) d := by
  split
  · exact h
  · exact h.recordTop _ _

/-- `with self.state[_Comprehension]`: the visits in between see one more (initially empty) frame. -/
theorem AddsC.compBracket {cs cs' st X d} (h : AddsC ([] :: cs) cs' st.pushComp X d) : AddsC cs cs'.tail st X.popComp d :=
  ⟨h.ne, h.tail, h.top, h.fns, h.inAug, h.inAnno, h.annoOnly,
   by have := h.cin; simp only [St.pushComp, List.cons.injEq, true_and] at this; exact this,
   by simp [St.popComp, h.cout], h.ext⟩

theorem PlainC.pushComp {st : St} (h : PlainC st) : PlainC st.pushComp := ⟨h.ne, h.annoOnly⟩

theorem visitArgs_addsC (as : List Expr) (ha : as.all isPlainArg = true) {st : St} (h : PlainC st) :
    AddsC st.comps st.comps st (visitEs as st) { bound := argNames as } := by
  induction as generalizing st with
  | nil => simpa [visitEs, argNames] using AddsC.refl h
  | cons a rest ih =>
    simp only [List.all_cons, Bool.and_eq_true] at ha
    match a, ha.1 with
    | .arg _ n [], _ =>
      simp only [visitEs, visitE]
      have h1 := AddsC.addBound h (.sym n)
      have h2 := h1.trans (by simpa [St.addBound_comps] using AddsC.addParam h1.plain (.sym n) st.ownerId)
      have hc : ((st.addBound (.sym n)).addParam (.sym n) st.ownerId).comps = st.comps := h2.cout
      have h3 := h2.trans (by simpa [hc] using ih ha.2 h2.plain)
      exact h3.congr (by simp only [argNames, List.filterMap_cons]; eff_equiv)

theorem visitParams_addsC {po ar va ko kw : List Expr} (hp : PlainParams po ar va ko kw) {st : St} (h : PlainC st) :
    AddsC st.comps st.comps st (visitParams po ar va ko kw st) { bound := paramNames po ar va ko kw } := by
  have P1 := visitArgs_addsC po hp.po h
  have P2 := P1.trans (by simpa [P1.cout] using visitArgs_addsC ar hp.ar P1.plain)
  have P3 := P2.trans (by simpa [P2.cout] using visitArgs_addsC va hp.va P2.plain)
  have P4 := P3.trans (by simpa [P3.cout] using visitArgs_addsC ko hp.ko P3.plain)
  have P5 := P4.trans (by simpa [P4.cout] using visitArgs_addsC kw hp.kw P4.plain)
  exact P5.congr (by simp only [paramNames]; eff_equiv)

theorem visitParams_annoOnlyC {po ar va ko kw : List Expr} (hp : PlainParams po ar va ko kw) {st : St} (h : PlainC st) :
    (visitParams po ar va ko kw (st.setAnnoOnly true)).setAnnoOnly false = visitParams po ar va ko kw st := by
  unfold visitParams
  rw [visitArgs_annoOnly po hp.po, visitArgs_annoOnly ar hp.ar, visitArgs_annoOnly va hp.va,
      visitArgs_annoOnly ko hp.ko, visitArgs_annoOnly kw hp.kw, St.setAnnoOnly_setAnnoOnly]
  exact St.setAnnoOnly_self (visitParams_addsC hp h).annoOnly

end Malt.Analysis

namespace Malt.Analysis
open Malt.Py

mutual
theorem visitE_addsC : (e : Expr) → (st : St) → PlainC st → FragC e = true → (fns : List FnCtx) → (aug anno : Bool) →
    InCtx st fns aug anno → (cs : List QSet) → st.comps = cs →
    AddsC cs (effC fns aug anno cs e).2 st (visitE e st) (effC fns aug anno cs e).1
  | .name _ s c, st, h, _, fns, aug, anno, hc, cs, hcs => by
      subst hcs
      simp only [visitE, effC]
      have := track_addsC h (some (.sym s)) c false
      rwa [hc.inAug, hc.inAnno] at this
  | .const .., st, h, _, _, _, _, _, cs, hcs => by subst hcs; simpa [visitE, effC] using AddsC.refl h
  | .noneMarker, st, h, _, _, _, _, _, cs, hcs => by subst hcs; simpa [visitE, effC] using AddsC.refl h
  | .attr i v a c, st, h, hf, fns, aug, anno, hc, cs, hcs => by
      simp only [FragC] at hf
      simp only [visitE, effC]
      have A1 := visitE_addsC v st h hf fns aug anno hc cs hcs
      have A2 := track_addsC A1.plain (qnOf (.attr i v a c)) c
        ((visitE v st).inConstructor && setsSelfAttribute (qnOf (.attr i v a c)))
      rw [(A1.inCtx hc).inAug, (A1.inCtx hc).inAnno, A1.cout] at A2
      rw [St.inConstructor_eq, (A1.inCtx hc).fns] at A2
      rw [St.inConstructor_eq, (A1.inCtx hc).fns]
      exact A1.trans A2
  | .subscript i v s c, st, h, hf, fns, aug, anno, hc, cs, hcs => by
      simp only [FragC, Bool.and_eq_true] at hf
      simp only [visitE, effC]
      have A1 := visitE_addsC v st h hf.1 fns aug anno hc cs hcs
      have A2 := visitE_addsC s _ A1.plain hf.2 fns aug anno (A1.inCtx hc) _ A1.cout
      have A12 := A1.trans A2
      have A3 := track_addsC A12.plain (qnOf (.subscript i v s c)) c false
      rw [(A12.inCtx hc).inAug, (A12.inCtx hc).inAnno, A12.cout] at A3
      exact A12.trans A3
  | .call i f as ks, st, h, hf, fns, aug, anno, hc, cs, hcs => by
      simp only [FragC, Bool.and_eq_true] at hf
      simp only [visitE, effC]
      have hp1 := St.enter_plainC h false none
      have A1 := visitEs_addsC as _ hp1 hf.1.2 fns aug anno (hc.enter false none) cs (by simpa [St.enter] using hcs)
      have A2 := visitEs_addsC ks _ A1.plain hf.2 fns aug anno (A1.inCtx (hc.enter false none)) _ A1.cout
      have S := AddsC.scopedAdds h false none (A1.trans A2) [(i, .argsScope)]
      have A3 := visitE_addsC f _ S.plain hf.1.1 fns aug anno (S.inCtx hc) _ S.cout
      exact S.trans A3
  | .keyword _ _ _ v, st, h, hf, fns, aug, anno, hc, cs, hcs => by
      simp only [FragC] at hf
      simp only [visitE, effC]
      exact visitE_addsC v st h hf fns aug anno hc cs hcs
  | .boolop _ _ vs, st, h, hf, fns, aug, anno, hc, cs, hcs => by
      simp only [FragC] at hf
      simp only [visitE, effC]
      exact visitEs_addsC vs st h hf fns aug anno hc cs hcs
  | .unary _ _ x, st, h, hf, fns, aug, anno, hc, cs, hcs => by
      simp only [FragC] at hf
      simp only [visitE, effC]
      exact visitE_addsC x st h hf fns aug anno hc cs hcs
  | .binop _ _ l r, st, h, hf, fns, aug, anno, hc, cs, hcs => by
      simp only [FragC, Bool.and_eq_true] at hf
      simp only [visitE, effC]
      have A1 := visitE_addsC l st h hf.1 fns aug anno hc cs hcs
      exact A1.trans (visitE_addsC r _ A1.plain hf.2 fns aug anno (A1.inCtx hc) _ A1.cout)
  | .compare _ l _ rs, st, h, hf, fns, aug, anno, hc, cs, hcs => by
      simp only [FragC, Bool.and_eq_true] at hf
      simp only [visitE, effC]
      have A1 := visitE_addsC l st h hf.1 fns aug anno hc cs hcs
      exact A1.trans (visitEs_addsC rs _ A1.plain hf.2 fns aug anno (A1.inCtx hc) _ A1.cout)
  | .ifexp _ t b o, st, h, hf, fns, aug, anno, hc, cs, hcs => by
      simp only [FragC, Bool.and_eq_true] at hf
      simp only [visitE, effC]
      have A1 := visitE_addsC t st h hf.1.1 fns aug anno hc cs hcs
      have A2 := A1.trans (visitE_addsC b _ A1.plain hf.1.2 fns aug anno (A1.inCtx hc) _ A1.cout)
      exact A2.trans (visitE_addsC o _ A2.plain hf.2 fns aug anno (A2.inCtx hc) _ A2.cout)
  | .seq _ _ es _, st, h, hf, fns, aug, anno, hc, cs, hcs => by
      simp only [FragC] at hf
      simp only [visitE, effC]
      exact visitEs_addsC es st h hf fns aug anno hc cs hcs
  | .starred _ v _, st, h, hf, fns, aug, anno, hc, cs, hcs => by
      simp only [FragC] at hf
      simp only [visitE, effC]
      exact visitE_addsC v st h hf fns aug anno hc cs hcs
  | .namedexpr _ t v, st, h, hf, fns, aug, anno, hc, cs, hcs => by
      simp only [FragC, Bool.and_eq_true] at hf
      simp only [visitE, effC]
      have A1 := visitE_addsC t st h hf.1 fns aug anno hc cs hcs
      exact A1.trans (visitE_addsC v _ A1.plain hf.2 fns aug anno (A1.inCtx hc) _ A1.cout)
  | .comp _ _ elts gens, st, h, hf, fns, aug, anno, hc, cs, hcs => by
      simp only [FragC, Bool.and_eq_true] at hf
      simp only [visitE, effC]
      apply AddsC.compBracket
      have c0 : InCtx st.pushComp fns aug anno := ⟨hc.fns, hc.inAug, hc.inAnno⟩
      have A1 := visitEs_addsC gens _ h.pushComp hf.2 fns aug anno c0 ([] :: cs) (by simp [St.pushComp, hcs])
      exact A1.trans (visitEs_addsC elts _ A1.plain hf.1 fns aug anno (A1.inCtx c0) _ A1.cout)
  | .comprehension _ t it ifs _, st, h, hf, fns, aug, anno, hc, cs, hcs => by
      simp only [FragC, Bool.and_eq_true] at hf
      simp only [visitE, effC]
      have A1 := visitE_addsC it st h hf.1.2 fns aug anno hc cs hcs
      have A2 := A1.trans (visitE_addsC t _ A1.plain hf.1.1 fns aug anno (A1.inCtx hc) _ A1.cout)
      have A3 := A2.trans (visitE_addsC t _ A2.plain hf.1.1 fns aug anno (A2.inCtx hc) _ A2.cout)
      have A4 := A3.trans (visitE_addsC it _ A3.plain hf.1.2 fns aug anno (A3.inCtx hc) _ A3.cout)
      exact A4.trans (visitEs_addsC ifs _ A4.plain hf.2 fns aug anno (A4.inCtx hc) _ A4.cout)
  | .arguments .., _, _, hf, _, _, _, _, _, _ => by simp [FragC] at hf
  | .arg .., _, _, hf, _, _, _, _, _, _ => by simp [FragC] at hf
  | .withitem i c v, st, h, hf, fns, aug, anno, hc, cs, hcs => by
      simp only [FragC, Bool.and_eq_true] at hf
      simp only [visitE, effC]
      have hp1 := St.enter_plainC h false none
      have A1 := visitE_addsC c _ hp1 hf.1 fns aug anno (hc.enter false none) cs (by simpa [St.enter] using hcs)
      have A2 := visitEs_addsC v _ A1.plain hf.2 fns aug anno (A1.inCtx (hc.enter false none)) _ A1.cout
      exact AddsC.scopedAdds h false none (A1.trans A2) [(i, .scope)]
  | .other _ _ _ kids, st, h, hf, fns, aug, anno, hc, cs, hcs => by
      simp only [FragC] at hf
      simp only [visitE, effC]
      exact visitEs_addsC kids st h hf fns aug anno hc cs hcs
  | .lambda i args body, st, h, hf, fns, aug, anno, hc, cs, hcs => by
      cases args with
      | arguments ai po ar va ko kd kw df =>
        simp only [FragC, Bool.and_eq_true] at hf
        obtain ⟨⟨⟨⟨⟨⟨⟨hpo, har⟩, hva⟩, hko⟩, hkw⟩, hkd⟩, hdf⟩, hbody⟩ := hf
        have hpp : PlainParams po ar va ko kw := ⟨hpo, har, hva, hko, hkw⟩
        simp only [visitE, effC]
        rw [show ∀ s : St, (visitEs kw (visitEs ko (visitEs va (visitEs ar (visitEs po (s.setAnnoOnly true)))))).setAnnoOnly false
              = (visitParams po ar va ko kw (s.setAnnoOnly true)).setAnnoOnly false from fun _ => rfl,
            show ∀ s : St, visitEs kw (visitEs ko (visitEs va (visitEs ar (visitEs po s)))) = visitParams po ar va ko kw s
              from fun _ => rfl]
        have h0 := h.pushFn (.lam i)
        have c0 := hc.pushFn (.lam i)
        have hcs0 : (st.pushFn (.lam i)).comps = cs := hcs
        apply AddsC.popFn (f := .lam i)
        generalize st.pushFn (.lam i) = s0 at h0 c0 hcs0 ⊢
        have hp1 := St.enter_plainC h0 false none
        have c1 := c0.enter false none
        have A1 := visitEs_addsC kd _ hp1 hkd _ aug anno c1 cs (by simpa [St.enter] using hcs0)
        have A2 := A1.trans (visitEs_addsC df _ A1.plain hdf _ aug anno (A1.inCtx c1) _ A1.cout)
        have A3 := A2.trans (by simpa [A2.cout] using visitParams_addsC hpp A2.plain)
        rw [visitParams_annoOnlyC hpp A2.plain]
        have S1 := AddsC.scopedAdds h0 false none A3 [(i, .scope)]
        have c2 := S1.inCtx c0
        generalize (visitParams po ar va ko kw (visitEs df (visitEs kd (s0.enter false)))).exitWith [(i, .scope)] = s2 at S1 c2 ⊢
        have hI := St.enter_plainC S1.plain true none
        have cI := c2.enter true none
        have hfresh := St.enter_plainC hI false none
        have B1 := visitParams_addsC hpp hfresh
        have hcI : ((s2.enter true).enter false).comps = (effCs (.lam i :: fns) aug anno (effCs (.lam i :: fns) aug anno cs kd).2 df).2 := by
          simpa [St.enter] using S1.cout
        rw [hcI] at B1
        have SB1 := AddsC.scopedAdds hI false none B1 [(ai, .scope)]
        have cB := SB1.inCtx cI
        generalize (visitParams po ar va ko kw ((s2.enter true).enter false)).exitWith [(ai, .scope)] = s3 at SB1 cB ⊢
        have B2 := visitE_addsC body _ (St.enter_plainC SB1.plain false none) hbody _ aug anno (cB.enter false none) _
          (by simpa [St.enter] using SB1.cout)
        generalize visitE body (s3.enter false) = s4 at B2 ⊢
        have B2' := B2.condRecord body.id .scope
        generalize (if s4.hasAnno body.id .scope then s4 else s4.recordTop body.id .scope) = s5 at B2' ⊢
        have SB2 := AddsC.scopedAdds SB1.plain false none B2' [(i, .bodyScope)]
        have B12 := SB1.trans SB2
        generalize s5.exitWith [(i, .bodyScope)] = s6 at SB2 B12 ⊢
        have SC := scoped_blockC S1.plain true none B12 [(i, .argsAndBodyScope)]
        obtain ⟨c, hc1, -, hc3⟩ := SC.popped
        have SCa := SC.adds
        rw [St.head?_eq_top B12.ne, hc3]
        generalize s6.exitWith [(i, .argsAndBodyScope)] = s7 at SCa ⊢
        have F := AddsC.modTop SCa.plain (fun s => { s with read := s.read.union (c.read.diff c.bound) })
            { read := QSet.diff ((({ bound := paramNames po ar va ko kw } : Eff).exported false) ++
                          ((effC (.lam i :: fns) aug anno (effCs (.lam i :: fns) aug anno (effCs (.lam i :: fns) aug anno cs kd).2 df).2 body).1.exported false)).read
                        ((({ bound := paramNames po ar va ko kw } : Eff).exported false) ++
                          ((effC (.lam i :: fns) aug anno (effCs (.lam i :: fns) aug anno (effCs (.lam i :: fns) aug anno cs kd).2 df).2 body).1.exported false)).bound }
            ⟨rfl, rfl, rfl, rfl, rfl, by intro q; simp [hc1.read, hc1.bound], by simp, by simp, by simp, by simp, by simp, by simp⟩
        rw [SCa.cout] at F
        exact (S1.trans SCa).trans F
      | _ => simp [FragC] at hf
theorem visitEs_addsC : (es : List Expr) → (st : St) → PlainC st → FragCs es = true → (fns : List FnCtx) → (aug anno : Bool) →
    InCtx st fns aug anno → (cs : List QSet) → st.comps = cs →
    AddsC cs (effCs fns aug anno cs es).2 st (visitEs es st) (effCs fns aug anno cs es).1
  | [], st, h, _, _, _, _, _, cs, hcs => by subst hcs; simpa [visitEs, effCs] using AddsC.refl h
  | e :: rest, st, h, hf, fns, aug, anno, hc, cs, hcs => by
      simp only [FragCs, Bool.and_eq_true] at hf
      simp only [visitEs, effCs]
      have A1 := visitE_addsC e st h hf.1 fns aug anno hc cs hcs
      exact A1.trans (visitEs_addsC rest _ A1.plain hf.2 fns aug anno (A1.inCtx hc) _ A1.cout)
end

end Malt.Analysis

namespace Malt.Analysis
open Malt.Py

theorem trackC_len (cs : List QSet) (q? : Option QN) (ctx : Ctx) (cw aug anno : Bool) :
    (trackC cs q? ctx cw aug anno).2.length = cs.length := by
  unfold trackC
  cases q? with
  | none => rfl
  | some qn =>
    simp only
    split
    · rfl
    · cases ctx with
      | store => cases cs <;> simp
      | load => rfl
      | del => rfl

mutual
/-- Visiting an expression opens and closes comprehension frames in a balanced way. -/
theorem effC_len : (e : Expr) → (fns : List FnCtx) → (aug anno : Bool) → (cs : List QSet) →
    (effC fns aug anno cs e).2.length = cs.length
  | .name .., fns, aug, anno, cs => by simp [effC, trackC_len]
  | .const .., _, _, _, _ => by simp [effC]
  | .noneMarker, _, _, _, _ => by simp [effC]
  | .attr i v a c, fns, aug, anno, cs => by simp [effC, trackC_len, effC_len v fns aug anno cs]
  | .subscript i v s c, fns, aug, anno, cs => by
      simp [effC, trackC_len, effC_len s fns aug anno _, effC_len v fns aug anno cs]
  | .call _ f as ks, fns, aug, anno, cs => by
      simp [effC, effC_len f fns aug anno _, effCs_len ks fns aug anno _, effCs_len as fns aug anno cs]
  | .keyword _ _ _ v, fns, aug, anno, cs => by simp [effC, effC_len v fns aug anno cs]
  | .boolop _ _ vs, fns, aug, anno, cs => by simp [effC, effCs_len vs fns aug anno cs]
  | .unary _ _ v, fns, aug, anno, cs => by simp [effC, effC_len v fns aug anno cs]
  | .binop _ _ l r, fns, aug, anno, cs => by simp [effC, effC_len r fns aug anno _, effC_len l fns aug anno cs]
  | .compare _ l _ rs, fns, aug, anno, cs => by simp [effC, effCs_len rs fns aug anno _, effC_len l fns aug anno cs]
  | .ifexp _ t b o, fns, aug, anno, cs => by
      simp [effC, effC_len o fns aug anno _, effC_len b fns aug anno _, effC_len t fns aug anno cs]
  | .lambda i args body, fns, aug, anno, cs => by
      cases args with
      | arguments ai po ar va ko kd kw df =>
        simp [effC, effC_len body _ aug anno _, effCs_len df _ aug anno _, effCs_len kd _ aug anno cs]
      | _ => simp [effC]
  | .seq _ _ es _, fns, aug, anno, cs => by simp [effC, effCs_len es fns aug anno cs]
  | .starred _ v _, fns, aug, anno, cs => by simp [effC, effC_len v fns aug anno cs]
  | .namedexpr _ t v, fns, aug, anno, cs => by simp [effC, effC_len v fns aug anno _, effC_len t fns aug anno cs]
  | .comp _ _ elts gens, fns, aug, anno, cs => by
      simp [effC, effCs_len elts fns aug anno _, effCs_len gens fns aug anno ([] :: cs)]
  | .comprehension _ t it ifs _, fns, aug, anno, cs => by
      simp [effC, effCs_len ifs fns aug anno _, effC_len it fns aug anno _, effC_len t fns aug anno _]
  | .arguments .., _, _, _, _ => by simp [effC]
  | .arg .., _, _, _, _ => by simp [effC]
  | .withitem _ c v, fns, aug, anno, cs => by simp [effC, effCs_len v fns aug anno _, effC_len c fns aug anno cs]
  | .other _ _ _ kids, fns, aug, anno, cs => by simp [effC, effCs_len kids fns aug anno cs]
theorem effCs_len : (es : List Expr) → (fns : List FnCtx) → (aug anno : Bool) → (cs : List QSet) →
    (effCs fns aug anno cs es).2.length = cs.length
  | [], _, _, _, _ => by simp [effCs]
  | e :: rest, fns, aug, anno, cs => by simp [effCs, effCs_len rest fns aug anno _, effC_len e fns aug anno cs]
end

theorem effC_nil (e : Expr) (fns : List FnCtx) (aug anno : Bool) : (effC fns aug anno [] e).2 = [] :=
  List.eq_nil_of_length_eq_zero (by rw [effC_len]; rfl)

theorem effCs_nil (es : List Expr) (fns : List FnCtx) (aug anno : Bool) : (effCs fns aug anno [] es).2 = [] :=
  List.eq_nil_of_length_eq_zero (by rw [effCs_len]; rfl)

/-- Statement-level form: with no comprehension open before, none is open after, and the effect is `effC … []`. -/
theorem visitE_addsC0 (e : Expr) (st : St) (h : Plain st) (hf : FragC e = true) (fns : List FnCtx) (aug anno : Bool)
    (hc : InCtx st fns aug anno) : Adds st (visitE e st) (effC fns aug anno [] e).1 := by
  have A := visitE_addsC e st h.toC hf fns aug anno hc [] h.comps
  rw [effC_nil] at A
  exact A.toAdds

theorem visitEs_addsC0 (es : List Expr) (st : St) (h : Plain st) (hf : FragCs es = true) (fns : List FnCtx) (aug anno : Bool)
    (hc : InCtx st fns aug anno) : Adds st (visitEs es st) (effCs fns aug anno [] es).1 := by
  have A := visitEs_addsC es st h.toC hf fns aug anno hc [] h.comps
  rw [effCs_nil] at A
  exact A.toAdds

end Malt.Analysis

namespace Malt.Analysis
open Malt.Py

/-! ### statements of the larger fragment (generated from the statement part of `C08Activity` by renaming) -/

mutual
/-- What visiting the statement `s` adds to the current scope (`fns`: the function/class stack). -/
def effSC (fns : List FnCtx) (s : Stmt) : Eff :=
  match s with
  | .functionDef i name args body decos returns _ =>
      match args with
      | .arguments _ po ar va ko kd kw df =>
          let fns' := FnCtx.fn i name :: fns
          let params := paramNames po ar va ko kw
          let defScope : Eff := (effCs fns' false false [] decos).1 ++ (effCs fns' false true [] returns).1 ++ (effCs fns' false false [] kd).1 ++
            (effCs fns' false false [] df).1 ++ { bound := params } ++ { modified := [.sym name] } ++ { bound := [.sym name] }
          let inner : Eff := ({ bound := params } : Eff).exported false ++ (effSCs fns' body).exported false
          defScope.exported false ++ inner.exported true
      | _ => {}
  | .classDef i name bases kws body decos =>
      let fns' := FnCtx.cls i :: fns
      let defScope : Eff := (effCs fns' false false [] decos).1 ++ { modified := [.sym name] } ++ { bound := [.sym name] } ++
        (effCs fns' false false [] bases).1 ++ (effCs fns' false false [] kws).1
      let inner : Eff := (effCs fns' false false [] bases).1 ++ (effCs fns' false false [] kws).1 ++ effSCs fns' body ++ (effCs fns' false false [] decos).1
      defScope.exported false ++ inner.exported true
  | .ret _ v => ((effCs fns false false [] v).1).exported false
  | .delete _ ts => ((effCs fns false false [] ts).1).exported false
  | .assign _ ts v => ((effCs fns false false [] ts).1 ++ (effC fns false false [] v).1).exported false
  | .augAssign _ t _ v => ((effC fns true false [] t).1 ++ (effC fns false false [] v).1).exported false
  | .annAssign _ t an v _ => ((effC fns false false [] t).1 ++ (effCs fns false false [] v).1 ++ (effC fns false true [] an).1).exported false
  | .for_ _ t it body orelse _ _ =>
      ((effC fns false false [] t).1 ++ (effC fns false false [] it).1).exported false ++ ((effC fns false false [] t).1).exported false ++
        ((effSCs fns body).exported false ++ (effSCs fns orelse).exported false)
  | .while_ _ t body orelse =>
      ((effC fns false false [] t).1).exported false ++ ((effSCs fns body).exported false ++ (effSCs fns orelse).exported false)
  | .if_ _ t body orelse =>
      ((effC fns false false [] t).1).exported false ++ ((effSCs fns body).exported false ++ (effSCs fns orelse).exported false)
  | .with_ _ items body _ => ((effCs fns false false [] items).1 ++ effSCs fns body).exported false
  | .raise _ e c => ((effCs fns false false [] e).1 ++ (effCs fns false false [] c).1).exported false
  | .try_ _ b h o f => effSCs fns b ++ effSCs fns h ++ effSCs fns o ++ effSCs fns f
  | .handler _ ty _ body => ((effCs fns false false [] ty).1 ++ effSCs fns body).exported false
  | .assert_ _ t m => ((effC fns false false [] t).1 ++ (effCs fns false false [] m).1).exported false
  | .import_ _ names => (aliasEff names).exported false
  | .importFrom _ _ names _ => (aliasEff names).exported false
  | .global _ names => (globalEff names).exported false
  | .nonlocal _ names => (nonlocalEff names).exported false
  | .expr _ v => ((effC fns false false [] v).1).exported false
  | .pass _ | .break_ _ | .continue_ _ => {}
  | .other _ _ es bs => (effCs fns false false [] es).1 ++ effSCs fns bs
def effSCs (fns : List FnCtx) (ss : List Stmt) : Eff :=
  match ss with
  | [] => {}
  | s :: rest => effSC fns s ++ effSCs fns rest
end


/-- `if node.returns: node.returns = self._process_annotation(node.returns)`. -/
theorem returnsStep_addsC (returns : List Expr) {st : St} {fns} (p : PlainS st fns)
    (ih : ∀ s, Plain s → InCtx s fns false true → Adds s (visitEs returns s) ((effCs fns false true [] returns).1)) :
    Adds st (if returns.isEmpty = true then st else (visitEs returns (st.setInAnno true)).setInAnno false)
      ((effCs fns false true [] returns).1) := by
  cases returns with
  | nil => simpa [effCs] using Adds.refl p.plain
  | cons r rs =>
    obtain ⟨hp, hc⟩ := p.setInAnno
    simpa using anno_bracket p (ih _ hp hc)

mutual
theorem visitS_addsC : (s : Stmt) → (st : St) → (fns : List FnCtx) → PlainS st fns → FragSC s = true →
    Adds st (visitS s st) (effSC fns s)
  | .ret i v, st, fns, p, hf => by
      simp only [FragSC] at hf
      simp only [visitS, effSC]
      exact Adds.scopedAdds p.plain false none
        (visitEs_addsC0 v _ (St.enter_plain p.plain false none) hf fns false false (p.ctx.enter false none)) _
  | .delete i ts, st, fns, p, hf => by
      simp only [FragSC] at hf
      simp only [visitS, effSC]
      exact Adds.scopedAdds p.plain false none
        (visitEs_addsC0 ts _ (St.enter_plain p.plain false none) hf fns false false (p.ctx.enter false none)) _
  | .assign i ts v, st, fns, p, hf => by
      simp only [FragSC, Bool.and_eq_true] at hf
      simp only [visitS, effSC]
      have A1 := visitEs_addsC0 ts _ (St.enter_plain p.plain false none) hf.1 fns false false (p.ctx.enter false none)
      have A2 := A1.trans (visitE_addsC0 v _ A1.plain hf.2 fns false false (A1.inCtx (p.ctx.enter false none)))
      exact Adds.scopedAdds p.plain false none A2 _
  | .augAssign i t op v, st, fns, p, hf => by
      simp only [FragSC, Bool.and_eq_true] at hf
      simp only [visitS, effSC]
      have p1 := p.enter false none
      obtain ⟨hp, hc⟩ := p1.setInAug
      have A1 := aug_bracket p1 (visitE_addsC0 t _ hp hf.1 fns true false hc)
      have A2 := A1.trans (visitE_addsC0 v _ A1.plain hf.2 fns false false (A1.inCtx p1.ctx))
      exact Adds.scopedAdds p.plain false none A2 _
  | .annAssign i t an v simple, st, fns, p, hf => by
      simp only [FragSC, Bool.and_eq_true] at hf
      simp only [visitS, effSC]
      have p1 := p.enter false none
      have A1 := visitE_addsC0 t _ p1.plain hf.1.1 fns false false p1.ctx
      have A2 := A1.trans (visitEs_addsC0 v _ A1.plain hf.2 fns false false (A1.inCtx p1.ctx))
      obtain ⟨hp, hc⟩ := (A2.plainS p1).setInAnno
      have A3 := A2.trans (anno_bracket (A2.plainS p1) (visitE_addsC0 an _ hp hf.1.2 fns false true hc))
      exact Adds.scopedAdds p.plain false none A3 _
  | .raise i e c, st, fns, p, hf => by
      simp only [FragSC, Bool.and_eq_true] at hf
      simp only [visitS, effSC]
      have A1 := visitEs_addsC0 e _ (St.enter_plain p.plain false none) hf.1 fns false false (p.ctx.enter false none)
      have A2 := A1.trans (visitEs_addsC0 c _ A1.plain hf.2 fns false false (A1.inCtx (p.ctx.enter false none)))
      exact Adds.scopedAdds p.plain false none A2 _
  | .assert_ i t m, st, fns, p, hf => by
      simp only [FragSC, Bool.and_eq_true] at hf
      simp only [visitS, effSC]
      have A1 := visitE_addsC0 t _ (St.enter_plain p.plain false none) hf.1 fns false false (p.ctx.enter false none)
      have A2 := A1.trans (visitEs_addsC0 m _ A1.plain hf.2 fns false false (A1.inCtx (p.ctx.enter false none)))
      exact Adds.scopedAdds p.plain false none A2 _
  | .expr i v, st, fns, p, hf => by
      simp only [FragSC] at hf
      simp only [visitS, effSC]
      exact Adds.scopedAdds p.plain false none
        (visitE_addsC0 v _ (St.enter_plain p.plain false none) hf fns false false (p.ctx.enter false none)) _
  | .import_ i names, st, fns, p, _ => by
      simp only [visitS, effSC]
      exact Adds.scopedAdds p.plain false none (visitAliases_adds names (St.enter_plain p.plain false none)) _
  | .importFrom i m names l, st, fns, p, _ => by
      simp only [visitS, effSC]
      exact Adds.scopedAdds p.plain false none (visitAliases_adds names (St.enter_plain p.plain false none)) _
  | .global i names, st, fns, p, _ => by
      simp only [visitS, effSC]
      exact Adds.scopedAdds p.plain false none (declGlobals_adds names (St.enter_plain p.plain false none)) _
  | .nonlocal i names, st, fns, p, _ => by
      simp only [visitS, effSC]
      exact Adds.scopedAdds p.plain false none (declNonlocals_adds names (St.enter_plain p.plain false none)) _
  | .pass _, st, fns, p, _ => by simpa [visitS, effSC] using Adds.refl p.plain
  | .break_ _, st, fns, p, _ => by simpa [visitS, effSC] using Adds.refl p.plain
  | .continue_ _, st, fns, p, _ => by simpa [visitS, effSC] using Adds.refl p.plain
  | .other _ _ es bs, st, fns, p, hf => by
      simp only [FragSC, Bool.and_eq_true] at hf
      simp only [visitS, effSC]
      have A1 := visitEs_addsC0 es _ p.plain hf.1 fns false false p.ctx
      exact A1.trans (visitSs_addsC bs _ fns (A1.plainS p) hf.2)
  | .try_ _ b h o f, st, fns, p, hf => by
      simp only [FragSC, Bool.and_eq_true] at hf
      simp only [visitS, effSC]
      have A1 := visitSs_addsC b _ fns p hf.1.1.1
      have A2 := A1.trans (visitSs_addsC h _ fns (A1.plainS p) hf.1.1.2)
      have A3 := A2.trans (visitSs_addsC o _ fns (A2.plainS p) hf.1.2)
      exact A3.trans (visitSs_addsC f _ fns (A3.plainS p) hf.2)
  | .handler _ ty name body, st, fns, p, hf => by
      simp only [FragSC, Bool.and_eq_true] at hf
      simp only [visitS, effSC]
      have p1 := p.enter false none
      have E : Adds (st.enter false) (if name.isEmpty = true then st.enter false else (st.enter false).setErr) {} := by
        split
        · exact Adds.refl p1.plain
        · exact ⟨p1.plain.ne, rfl, ScopeAdds.refl _, rfl, rfl, rfl, p1.plain.annoOnly, p1.plain.comps, ⟨[], rfl⟩⟩
      have A1 := E.trans (visitEs_addsC0 ty _ E.plain hf.1 fns false false (E.inCtx p1.ctx))
      have A2 := A1.trans (visitSs_addsC body _ fns (A1.plainS p1) hf.2)
      exact (Adds.scopedAdds p.plain false none A2 []).congr (by eff_equiv)
  | .with_ i items body isAsync, st, fns, p, hf => by
      simp only [FragSC, Bool.and_eq_true, Bool.not_eq_true'] at hf
      obtain ⟨⟨⟨ha, hi⟩, -⟩, hb⟩ := hf
      subst ha
      simp only [visitS, effSC, Bool.false_eq_true, ↓reduceIte]
      have p1 := p.enter false none
      have A1 := visitEs_addsC0 items _ p1.plain hi fns false false p1.ctx
      have A2 := A1.trans (visitSs_addsC body _ fns (A1.plainS p1) hb)
      exact Adds.scopedAdds p.plain false none A2 _
  | .if_ i test body orelse, st, fns, p, hf => by
      simp only [FragSC, Bool.and_eq_true] at hf
      simp only [visitS, effSC]
      have S1 := Adds.scopedAdds p.plain false none
        (visitE_addsC0 test _ (St.enter_plain p.plain false none) hf.1.1 fns false false (p.ctx.enter false none))
        [(test.id, .scope), (i, .condScope)]
      have P := parallel_blocks (S1.plainS p)
        (fun s => ((s.enter false) |> visitSs body).exitWith [(i, .bodyScope)])
        (fun s => ((s.enter false) |> visitSs orelse).exitWith [(i, .orelseScope)]) _ _
        (fun s ps => Adds.scopedAdds ps.plain false none (visitSs_addsC body _ fns (ps.enter false none) hf.1.2) _)
        (fun s ps => Adds.scopedAdds ps.plain false none (visitSs_addsC orelse _ fns (ps.enter false none) hf.2) _)
      exact S1.trans P
  | .while_ i test body orelse, st, fns, p, hf => by
      simp only [FragSC, Bool.and_eq_true] at hf
      simp only [visitS, effSC]
      have S1 := Adds.scopedAdds p.plain false none
        (visitE_addsC0 test _ (St.enter_plain p.plain false none) hf.1.1 fns false false (p.ctx.enter false none))
        [(test.id, .scope), (i, .condScope)]
      have P := parallel_blocks (S1.plainS p)
        (fun s => ((s.enter false) |> visitSs body).exitWith [(i, .bodyScope)])
        (fun s => ((s.enter false) |> visitSs orelse).exitWith [(i, .orelseScope)]) _ _
        (fun s ps => Adds.scopedAdds ps.plain false none (visitSs_addsC body _ fns (ps.enter false none) hf.1.2) _)
        (fun s ps => Adds.scopedAdds ps.plain false none (visitSs_addsC orelse _ fns (ps.enter false none) hf.2) _)
      exact S1.trans P
  | .for_ i t it body orelse extra isAsync, st, fns, p, hf => by
      simp only [FragSC, Bool.and_eq_true, Bool.not_eq_true', List.isEmpty_iff] at hf
      obtain ⟨⟨⟨⟨⟨ha, hx⟩, ht⟩, hit⟩, hb⟩, ho⟩ := hf
      subst ha hx
      simp only [visitS, effSC, Bool.false_eq_true, ↓reduceIte]
      have p1 := p.enter false none
      have A1 := visitE_addsC0 t _ p1.plain ht fns false false p1.ctx
      have A2 := A1.trans (visitE_addsC0 it _ A1.plain hit fns false false (A1.inCtx p1.ctx))
      have S1 := Adds.scopedAdds p.plain false none A2 [(it.id, .scope)]
      have q := S1.plainS p
      have S2 := S1.trans (Adds.scopedAdds q.plain false none
        (visitE_addsC0 t _ (q.enter false none).plain ht fns false false (q.enter false none).ctx) [(i, .iterateScope)])
      have P := parallel_blocks (S2.plainS p)
        (fun s => ((s.enter false) |> visitSs body).exitWith [(i, .bodyScope)])
        (fun s => ((s.enter false) |> visitSs orelse).exitWith [(i, .orelseScope)]) _ _
        (fun s ps => Adds.scopedAdds ps.plain false none (visitSs_addsC body _ fns (ps.enter false none) hb) _)
        (fun s ps => Adds.scopedAdds ps.plain false none (visitSs_addsC orelse _ fns (ps.enter false none) ho) _)
      exact S2.trans P
  | .classDef i name bases kws body decos, st, fns, p, hf => by
      simp only [FragSC, Bool.and_eq_true] at hf
      obtain ⟨⟨⟨hb, hk⟩, hd⟩, hbody⟩ := hf
      simp only [visitS, effSC]
      apply Adds.popFn (f := .cls i)
      have p0 := p.pushFn (.cls i)
      generalize st.pushFn (.cls i) = s0 at p0 ⊢
      have p1 := p0.enter false none
      have A1 := visitEs_addsC0 decos _ p1.plain hd _ false false p1.ctx
      have A2 := A1.trans (Adds.addModified A1.plain (.sym name))
      have A3 := A2.trans (Adds.addBound A2.plain (.sym name))
      have A4 := A3.trans (visitEs_addsC0 bases _ A3.plain hb _ false false (A3.inCtx p1.ctx))
      have A5 := A4.trans (visitEs_addsC0 kws _ A4.plain hk _ false false (A4.inCtx p1.ctx))
      have S1 := Adds.scopedAdds p0.plain false none A5 [(i, .scope)]
      have q := S1.plainS p0
      have q1 := q.enter true none
      have B1 := visitEs_addsC0 bases _ q1.plain hb _ false false q1.ctx
      have B2 := B1.trans (visitEs_addsC0 kws _ B1.plain hk _ false false (B1.inCtx q1.ctx))
      have B3 := B2.trans (visitSs_addsC body _ _ (B2.plainS q1) hbody)
      have B4 := B3.trans (visitEs_addsC0 decos _ B3.plain hd _ false false (B3.inCtx q1.ctx))
      exact S1.trans (Adds.scopedAdds q.plain true none B4 [])
  | .functionDef i name args body decos returns isAsync, st, fns, p, hf => by
      cases args with
      | arguments ai po ar va ko kd kw df =>
        simp only [FragSC, Bool.and_eq_true, Bool.not_eq_true'] at hf
        obtain ⟨⟨⟨⟨ha, ⟨⟨⟨⟨⟨⟨hpo, har⟩, hva⟩, hko⟩, hkw⟩, hkd⟩, hdf⟩⟩, hdec⟩, hret⟩, hbody⟩ := hf
        subst ha
        have hpp : PlainParams po ar va ko kw := ⟨hpo, har, hva, hko, hkw⟩
        simp only [visitS, effSC, Bool.false_eq_true, ↓reduceIte]
        rw [show ∀ s : St, (visitEs kw (visitEs ko (visitEs va (visitEs ar (visitEs po (s.setAnnoOnly true)))))).setAnnoOnly false
              = (visitParams po ar va ko kw (s.setAnnoOnly true)).setAnnoOnly false from fun _ => rfl,
            show ∀ s : St, visitEs kw (visitEs ko (visitEs va (visitEs ar (visitEs po s)))) = visitParams po ar va ko kw s
              from fun _ => rfl]
        apply Adds.popFn (f := .fn i name)
        have p0 := p.pushFn (.fn i name)
        generalize st.pushFn (.fn i name) = s0 at p0 ⊢
        -- the def statement's own scope
        have p1 := p0.enter false none
        have A1 := visitEs_addsC0 decos _ p1.plain hdec _ false false p1.ctx
        have A2 := A1.trans (returnsStep_addsC returns (A1.plainS p1)
          (fun s hs hc => visitEs_addsC0 returns s hs hret _ false true hc))
        have A3 := A2.trans (visitEs_addsC0 kd _ A2.plain hkd _ false false (A2.inCtx p1.ctx))
        have A4 := A3.trans (visitEs_addsC0 df _ A3.plain hdf _ false false (A3.inCtx p1.ctx))
        have A5 := A4.trans (visitParams_adds hpp A4.plain)
        rw [visitParams_annoOnly hpp A4.plain]
        have A6 := A5.trans (Adds.addModified A5.plain (.sym name))
        have A7 := A6.trans (Adds.addBound A6.plain (.sym name))
        have S1 := Adds.scopedAdds p0.plain false none A7 [(i, .scope)]
        -- the function scope (isolated), its argument scope and its body scope
        have q := S1.plainS p0
        have qI := q.enter true (some name)
        have B1 := visitParams_adds hpp (St.enter_plain qI.plain false (some name))
        have SB1 := Adds.scopedAdds qI.plain false (some name) B1 [(ai, .scope)]
        have qB := SB1.plainS qI
        have B2 := visitSs_addsC body _ _ (qB.enter false (some name)) hbody
        have SB2 := Adds.scopedAdds qB.plain false (some name) B2 [(i, .bodyScope)]
        exact S1.trans (Adds.scopedAdds q.plain true (some name) (SB1.trans SB2) [(i, .argsAndBodyScope)])
      | _ => simp [FragSC] at hf
theorem visitSs_addsC : (ss : List Stmt) → (st : St) → (fns : List FnCtx) → PlainS st fns → FragSCs ss = true →
    Adds st (visitSs ss st) (effSCs fns ss)
  | [], st, fns, p, _ => by simpa [visitSs, effSCs] using Adds.refl p.plain
  | s :: rest, st, fns, p, hf => by
      simp only [FragSCs, Bool.and_eq_true] at hf
      simp only [visitSs, effSCs]
      have A1 := visitS_addsC s st fns p hf.1
      exact A1.trans (visitSs_addsC rest _ fns (A1.plainS p) hf.2)
end


end Malt.Analysis
