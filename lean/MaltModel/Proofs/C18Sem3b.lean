import MaltModel.Proofs.C18Names
/- C18, semantics part 3b: an operand whose residual is pure may be overtaken. -/
set_option linter.unusedSimpArgs false
namespace Malt.Anf
open Malt.Py Malt.SemAnf

/-- `e` is pure: no effect, no exception, value determined by the variables it mentions -/
def PureAt (O : Oracle) (e : Expr) : Prop :=
  ∀ σ τ, (∀ y ∈ namesE e, σ.get y = τ.get y) → ∃ v, evalE O e σ = (.ok v, σ) ∧ evalE O e τ = (.ok v, τ)

/-- the pure operand stays in place; what the later operands create (`G2`) does not rebind what it mentions -/
theorem sim_cons_pure_stay (O : Oracle) {c c1 : Expr} {d1 G2 : List Stmt} {rest r2 : List Expr}
    (hc : SimE O c c1 d1) (hr : SimL O rest r2 G2) (hp : PureAt O c1)
    (hfr : ∀ σ, ∀ y ∈ namesE c1, (execB O G2 σ).2.get y = σ.get y) :
    SimL O (c :: rest) (c1 :: r2) (d1 ++ G2) := by
  intro σ σ' hA
  have h1 := hc σ σ' hA
  rw [execB_append]
  rcases hd : execB O d1 σ' with ⟨o, σa'⟩
  rw [hd] at h1
  rw [evalOpts_cons O c rest σ]
  rcases hv : evalE O c σ with ⟨r, σc⟩
  rw [hv] at h1
  cases o with
  | normal =>
    obtain ⟨hval, hag⟩ := h1
    obtain ⟨v, hv1, -⟩ := hp σa' σa' (fun _ _ => rfl)
    rw [hv1] at hval hag
    simp only at hval hag
    subst hval
    have hs2 := hr σc σa' hag
    have hget := hfr σa'
    simp only
    rcases hh : execB O G2 σa' with ⟨o2, σd'⟩
    rw [hh] at hs2 hget
    cases o2 with
    | normal =>
      obtain ⟨hv2, hag3⟩ := hs2
      obtain ⟨v', hva, hvd⟩ := hp σa' σd' (fun y hy => (hget y hy).symm)
      rw [hv1] at hva
      simp only [Prod.mk.injEq, Except.ok.injEq, and_true] at hva
      subst hva
      simp only [evalOpts_cons O c1 r2 σd', hvd]
      exact ⟨consR_fst_congr v hv2, by rw [consR_snd, consR_snd]; exact hag3⟩
    | raise x =>
      obtain ⟨hv2, hag3⟩ := hs2
      exact ⟨consR_fst_error v hv2, by rw [consR_snd]; exact hag3⟩
    | brk => exact hs2.elim
    | cont => exact hs2.elim
    | ret _ => exact hs2.elim
  | raise x =>
    obtain ⟨hval, hag⟩ := h1
    simp only at hval hag
    subst hval
    exact ⟨rfl, hag⟩
  | brk => exact h1.elim
  | cont => exact h1.elim
  | ret _ => exact h1.elim

theorem agreeX_set_self (σ : St) (t : String) (v : Val) : AgreeX (fun y => y = t) σ (σ.set t v) := by
  refine ⟨rfl, fun y hy => ?_⟩
  rw [get_set, if_neg hy]

/-- the pure operand is hoisted (`tmp = c1`) after the statements nested in the later operands (`d2`) -/
theorem sim_cons_pure_hoisted (O : Oracle) {c c1 : Expr} {d1 d2 H2 : List Stmt} {rest r2 : List Expr} {m : Nat}
    (hc : SimE O c c1 d1) (hr : SimL O rest r2 (d2 ++ H2)) (hf : fragE c1 = true) (hp : PureAt O c1)
    (hfr : ∀ σ, ∀ y ∈ namesE c1, (execB O d2 σ).2.get y = σ.get y)
    (hfrt : ∀ σ, (execB O H2 σ).2.get (tmpName m) = σ.get (tmpName m))
    (hcH : ∀ σ τ, AgreeX (fun y => y = tmpName m) σ τ →
      (execB O H2 τ).1 = (execB O H2 σ).1 ∧ AgreeX (fun y => y = tmpName m) (execB O H2 σ).2 (execB O H2 τ).2)
    (hcr : CongK (fun y => y = tmpName m) (evalOpts O r2)) :
    SimL O (c :: rest) (.name 0 (tmpName m) .load :: r2) (d1 ++ d2 ++ (tmpAssign m c1 :: H2)) := by
  intro σ σ' hA
  have h1 := hc σ σ' hA
  rw [List.append_assoc, execB_append]
  rcases hd : execB O d1 σ' with ⟨o, σa'⟩
  rw [hd] at h1
  rw [evalOpts_cons O c rest σ]
  rcases hv : evalE O c σ with ⟨r, σc⟩
  rw [hv] at h1
  cases o with
  | normal =>
    obtain ⟨hval, hag⟩ := h1
    obtain ⟨v, hv1, -⟩ := hp σa' σa' (fun _ _ => rfl)
    rw [hv1] at hval hag
    simp only at hval hag
    subst hval
    have hs2 := hr σc σa' hag
    rw [execB_append] at hs2
    have hget := hfr σa'
    simp only
    rw [execB_append]
    rcases hh : execB O d2 σa' with ⟨o2, σb'⟩
    rw [hh] at hs2 hget
    cases o2 with
    | normal =>
      simp only at hs2 ⊢
      obtain ⟨v', hva, hvb⟩ := hp σa' σb' (fun y hy => (hget y hy).symm)
      rw [hv1] at hva
      simp only [Prod.mk.injEq, Except.ok.injEq, and_true] at hva
      subst hva
      simp only [execB, exec_tmpAssign O m c1 σb' hf, hvb]
      have hx := hcH σb' (σb'.set (tmpName m) v) (agreeX_set_self σb' _ v)
      have hgt := hfrt (σb'.set (tmpName m) v)
      rcases h3 : execB O H2 σb' with ⟨o3, σd'⟩
      rcases h3' : execB O H2 (σb'.set (tmpName m) v) with ⟨o3', σd''⟩
      rw [h3] at hs2 hx
      rw [h3'] at hx hgt
      simp only at hx hgt
      obtain ⟨ho, hagx⟩ := hx
      subst ho
      simp only [get_set, if_true] at hgt
      cases o3' with
      | normal =>
        obtain ⟨hv2, hag3⟩ := hs2
        have hcr' := hcr σd' σd'' hagx
        simp only [evalOpts_cons O (.name 0 (tmpName m) .load), evalE, hgt]
        refine ⟨consR_fst_congr v (hcr'.1.trans hv2), ?_⟩
        rw [consR_snd, consR_snd]
        exact Agree.trans_X (isTempName_tmpName m) hag3 hcr'.2
      | raise x =>
        obtain ⟨hv2, hag3⟩ := hs2
        exact ⟨consR_fst_error v hv2, by rw [consR_snd]; exact Agree.trans_X (isTempName_tmpName m) hag3 hagx⟩
      | brk => exact hs2.elim
      | cont => exact hs2.elim
      | ret _ => exact hs2.elim
    | raise x =>
      obtain ⟨hv2, hag3⟩ := hs2
      exact ⟨consR_fst_error v hv2, by rw [consR_snd]; exact hag3⟩
    | brk => exact hs2.elim
    | cont => exact hs2.elim
    | ret _ => exact hs2.elim
  | raise x =>
    obtain ⟨hval, hag⟩ := h1
    simp only at hval hag
    subst hval
    exact ⟨rfl, hag⟩
  | brk => exact h1.elim
  | cont => exact h1.elim
  | ret _ => exact h1.elim

end Malt.Anf

namespace Malt.Anf
open Malt.Py Malt.SemAnf

theorem frags_mem : ∀ {xs : List Expr} {x : Expr}, fragEs xs = true → x ∈ xs → fragE x = true
  | [], _, _, h => by simp at h
  | a :: xs, x, hf, h => by
      simp only [fragEs, Bool.and_eq_true] at hf
      rcases List.mem_cons.mp h with rfl | h
      · exact hf.1
      · exact frags_mem hf.2 h

theorem names_mem : ∀ {xs : List Expr} {x : Expr} {y : String}, x ∈ xs → y ∈ namesE x → y ∈ namesEs xs
  | [], _, _, h, _ => by simp at h
  | a :: xs, x, y, h, hy => by
      simp only [namesEs, List.mem_append]
      rcases List.mem_cons.mp h with rfl | h
      · exact Or.inl hy
      · exact Or.inr (names_mem h hy)

/-- what `ensureFs` produces: hoists of elements of the list; the new list mentions old names or new temporaries -/
theorem ensureFs_spec {cfg : Config} {pk : String} {P : Expr → Prop} : ∀ {fs : List String} {xs : List Expr} {n : Nat}
    {xs' : List Expr} {H : List Stmt} {n' : Nat}, fragEs xs = true → (∀ x ∈ xs, P x) →
    ensureFs cfg pk fs xs n = (xs', H, n') →
    HoistsP P n H n' ∧ fragEs xs' = true ∧
      ∀ y ∈ namesEs xs', y ∈ namesEs xs ∨ ∃ k, n ≤ k ∧ k < n' ∧ y = tmpName k
  | [], xs, n, xs', H, n', _, _, h => by
      simp only [ensureFs, Prod.mk.injEq] at h; obtain ⟨rfl, rfl, rfl⟩ := h
      exact ⟨rfl, rfl, by simp [namesEs]⟩
  | f :: fs, [], n, xs', H, n', _, _, h => by
      simp only [ensureFs, Prod.mk.injEq] at h; obtain ⟨rfl, rfl, rfl⟩ := h
      exact ⟨rfl, rfl, by simp [namesEs]⟩
  | f :: fs, x :: xs, n, xs', H, n', hf, hP, h => by
      simp only [fragEs, Bool.and_eq_true] at hf
      simp only [ensureFs] at h
      rcases h2 : ensureFs cfg pk fs xs (ensure cfg pk f x n).2.2 with ⟨xs1, H2, n2⟩
      simp only [h2, Prod.mk.injEq] at h
      obtain ⟨rfl, rfl, rfl⟩ := h
      have ih := ensureFs_spec hf.2 (fun z hz => hP z (by simp [hz])) h2
      have ihle := HoistsP.le ih.1
      rcases ensure_frag_cases cfg pk f x n hf.1 with ⟨h1, -⟩ | ⟨h1, -⟩
      · rw [h1] at h2 ih ihle ⊢
        refine ⟨by simpa using ih.1, by simp [fragEs, hf.1, ih.2.1], ?_⟩
        intro y hy
        simp only [namesEs, List.mem_append] at hy ⊢
        rcases hy with hy | hy
        · exact Or.inl (Or.inl hy)
        · rcases ih.2.2 y hy with h | h
          · exact Or.inl (Or.inr h)
          · exact Or.inr h
      · rw [h1] at h2 ih ihle ⊢
        simp only at ih ihle h2 ⊢
        refine ⟨⟨⟨x, rfl, hP x (by simp)⟩, ih.1⟩, by simp [fragEs, fragE, ih.2.1], ?_⟩
        intro y hy
        simp only [namesEs, namesE, List.mem_append, List.mem_singleton] at hy ⊢
        rcases hy with hy | hy
        · exact Or.inr ⟨n, Nat.le_refl _, by omega, hy⟩
        · rcases ih.2.2 y hy with h | ⟨k, hk1, hk2, hk3⟩
          · exact Or.inl (Or.inr h)
          · exact Or.inr ⟨k, by omega, hk2, hk3⟩

end Malt.Anf
