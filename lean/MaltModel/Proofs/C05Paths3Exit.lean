import MaltModel.Proofs.C05Paths3
/-!
# C05: what `_connect_jump_to_finally_sections` does when a section is left

`exit_section` / `exit_loop_section` connect every registered jump through the `finally` blocks it carries.  Every pending
pair (`PP`) of a jump of that section becomes an edge, every pending outcome (`PJ`) with no guard left ends in the cursor
set (which becomes leaves, or is connected to the loop entry); what belongs to other sections is untouched.
-/
namespace Malt.Cfg
open Malt.Py

/-- the monotone part: what every step considered here preserves -/
structure SRel (b b' : B) : Prop where
  edges : ∀ p, p ∈ b.edges → p ∈ b'.edges
  deref : ∀ r x, x ∈ b.deref r → x ∈ b'.deref r
  finallySub : b'.finallySub = b.finallySub
  pendingFinally : b'.pendingFinally = b.pendingFinally
  errors : b'.errors = b.errors
  raises : b'.raises = b.raises

theorem SRel.refl (b : B) : SRel b b := ⟨fun _ h => h, fun _ _ h => h, rfl, rfl, rfl, rfl⟩
theorem SRel.trans {a b c : B} (h1 : SRel a b) (h2 : SRel b c) : SRel a c :=
  ⟨fun p h => h2.edges p (h1.edges p h), fun r x h => h2.deref r x (h1.deref r x h), by rw [h2.finallySub, h1.finallySub],
   by rw [h2.pendingFinally, h1.pendingFinally], by rw [h2.errors, h1.errors], by rw [h2.raises, h1.raises]⟩

/-- weaker: only the finished `finally` sections are kept (this is all the pending facts look at) -/
structure WRel (b b' : B) : Prop where
  edges : ∀ p, p ∈ b.edges → p ∈ b'.edges
  deref : ∀ r x, x ∈ b.deref r → x ∈ b'.deref r
  fsubC : ∀ g beg ends, aget g b.finallySub = some (some beg, some ends) → aget g b'.finallySub = some (some beg, some ends)
  pendingFinally : b'.pendingFinally = b.pendingFinally

theorem SRel.w {b b' : B} (h : SRel b b') : WRel b b' :=
  ⟨h.edges, h.deref, fun g beg ends hg => by rw [h.finallySub]; exact hg, h.pendingFinally⟩

/-- what the jump-connection steps leave alone (`ex`: the jumps whose guard lists may be dropped) -/
structure JRel (ex : List Nat) (b b' : B) : Prop extends SRel b b' where
  fsec : ∀ j, j ∉ ex → aget j b'.finallySections = aget j b.finallySections
  exits : b'.exits = b.exits
  continues : b'.continues = b.continues
  nodes : b'.nodes = b.nodes

theorem JRel.refl (ex : List Nat) (b : B) : JRel ex b b := ⟨SRel.refl b, fun _ _ => rfl, rfl, rfl, rfl⟩

theorem JRel.trans {ex : List Nat} {a b c : B} (h1 : JRel ex a b) (h2 : JRel ex b c) : JRel ex a c :=
  ⟨h1.toSRel.trans h2.toSRel, fun j hj => by rw [h2.fsec j hj, h1.fsec j hj],
   by rw [h2.exits, h1.exits], by rw [h2.continues, h1.continues], by rw [h2.nodes, h1.nodes]⟩

theorem JRel.weaken {ex ex' : List Nat} {b b' : B} (h : JRel ex b b') (hs : ∀ j, j ∈ ex → j ∈ ex') : JRel ex' b b' :=
  ⟨h.toSRel, fun j hj => h.fsec j (fun h' => hj (hs j h')), h.exits, h.continues, h.nodes⟩

/-- … and the current leaves object stays the same object -/
structure JRelL (ex : List Nat) (b b' : B) : Prop extends JRel ex b b' where
  leaves : b'.leaves = b.leaves
  heapLen : b'.heap.length = b.heap.length

theorem JRelL.refl (ex : List Nat) (b : B) : JRelL ex b b := ⟨JRel.refl ex b, rfl, rfl⟩
theorem JRelL.trans {ex : List Nat} {a b c : B} (h1 : JRelL ex a b) (h2 : JRelL ex b c) : JRelL ex a c :=
  ⟨h1.toJRel.trans h2.toJRel, by rw [h2.leaves, h1.leaves], by rw [h2.heapLen, h1.heapLen]⟩
theorem JRelL.weaken {ex ex' : List Nat} {b b' : B} (h : JRelL ex b b') (hs : ∀ j, j ∈ ex → j ∈ ex') : JRelL ex' b b' :=
  ⟨h.toJRel.weaken hs, h.leaves, h.heapLen⟩

theorem JRelL.leafSet {ex : List Nat} {b b' : B} (h : JRelL ex b b') : ∀ x, x ∈ b.leafSet → x ∈ b'.leafSet := by
  intro x hx
  show x ∈ b'.deref b'.leaves
  rw [h.leaves]
  exact h.deref _ _ hx

theorem jrel_connect (ex : List Nat) (b : B) (f : List Nat) (n : Nat) : JRelL ex b (b.connect f n) :=
  ⟨⟨⟨fun _ h => List.mem_append.mpr (Or.inl h), fun _ _ h => h, rfl, rfl, rfl, rfl⟩, fun _ _ => rfl, rfl, rfl, rfl⟩, rfl, rfl⟩
theorem jrel_fail (ex : List Nat) (b : B) (m : String) : JRelL ex b (b.fail m) :=
  ⟨⟨⟨fun _ h => h, fun _ _ h => h, rfl, rfl, rfl, rfl⟩, fun _ _ => rfl, rfl, rfl, rfl⟩, rfl, rfl⟩
theorem jrel_delFinallySections (ex : List Nat) (b : B) (n : Nat) (hn : n ∈ ex) : JRelL ex b (b.delFinallySections n) := by
  refine ⟨⟨⟨fun _ h => h, fun _ _ h => h, rfl, rfl, rfl, rfl⟩, ?_, rfl, rfl, rfl⟩, rfl, rfl⟩
  intro j hj
  show aget j (adel n b.finallySections) = _
  rw [aget_adel, if_neg (fun e : j = n => hj (e ▸ hn))]
theorem jrel_leavesUnion (ex : List Nat) (b : B) (s : List Nat) : JRelL ex b (b.leavesUnion s) :=
  ⟨⟨⟨fun _ h => h, fun r x h => B.deref_leavesUnion_mono b s r x h, rfl, rfl, rfl, rfl⟩, fun _ _ => rfl, rfl, rfl, rfl⟩, rfl,
   by simp [B.leavesUnion]⟩

/-! what the relations preserve -/

theorem WRel.beginOf {b b' : B} (h : WRel b b') {g y : Nat} (hb : BeginOf b g y) : BeginOf b' g y := by
  obtain ⟨h1, ends, h2⟩ := hb
  exact ⟨by rw [h.pendingFinally]; exact h1, ends, h.fsubC _ _ _ h2⟩

theorem WRel.complete {b b' : B} (h : WRel b b') {g : Nat} (hb : Complete b g) : Complete b' g := by
  obtain ⟨h1, beg, ends, h2⟩ := hb
  exact ⟨by rw [h.pendingFinally]; exact h1, beg, ends, h.fsubC _ _ _ h2⟩

theorem SRel.startedAt {b b' : B} (h : SRel b b') {g y : Nat} (hb : StartedAt b g y) : StartedAt b' g y :=
  startedAt_of_same h.finallySub h.pendingFinally hb

theorem WRel.ppd {b b' : B} (h : WRel b b') {gs : List Nat} {j : Nat} {p : Nat × Nat} (hp : PPd b gs j p) :
    PPd b' gs j p := by
  rcases hp with ⟨g, rest, e1, e2, e3⟩ | ⟨l1, g, g', r, beg, ends, e1, e2, e3, e4, e5⟩
  · exact Or.inl ⟨g, rest, e1, e2, h.beginOf e3⟩
  · exact Or.inr ⟨l1, g, g', r, beg, ends, e1, by rw [h.pendingFinally]; exact e2, h.fsubC _ _ _ e3,
      h.deref _ _ e4, h.beginOf e5⟩

theorem WRel.stage {b b' : B} (h : WRel b b') {pre : List Nat} {j x : Nat} (hs : Stage b pre j x) :
    Stage b' pre j x := by
  rcases hs with hs | ⟨g, beg, ends, h1, h2, h3⟩
  · exact Or.inl hs
  · exact Or.inr ⟨g, beg, ends, h1, h.fsubC _ _ _ h2, h.deref _ _ h3⟩

/-- transfer of a pending pair / a pending outcome, given that its dictionary entry and guard list are kept -/
theorem WRel.ppat {b b' : B} (h : WRel b b') {c : Bool} {t : Nat} {p : Nat × Nat} (hp : PPat b c t p)
    (hd : aget t (dictOf c b') = aget t (dictOf c b))
    (hf : ∀ l j, aget t (dictOf c b) = some l → j ∈ l → aget j b'.finallySections = aget j b.finallySections) : PPat b' c t p := by
  obtain ⟨l, j, gs, h1, h2, h3, h4⟩ := hp
  exact ⟨l, j, gs, by rw [hd]; exact h1, h2, by rw [hf l j h1 h2]; exact h3, h.ppd h4⟩

theorem WRel.pj {b b' : B} (h : WRel b b') {c : Bool} {t : Nat} {G : List Nat} {x : Nat} (hp : PJ c b t G x)
    (hd : aget t (dictOf c b') = aget t (dictOf c b))
    (hf : ∀ l j, aget t (dictOf c b) = some l → j ∈ l → aget j b'.finallySections = aget j b.finallySections) : PJ c b' t G x := by
  obtain ⟨l, j, pre, h1, h2, h3, h4, h5⟩ := hp
  exact ⟨l, j, pre, by rw [hd]; exact h1, h2, by rw [hf l j h1 h2]; exact h3,
    fun g hg => h.complete (h4 g hg), h.stage h5⟩

theorem JRel.dictOf {ex : List Nat} {b b' : B} (h : JRel ex b b') (c : Bool) : dictOf c b' = dictOf c b := by
  cases c <;> simp [Malt.Cfg.dictOf, h.exits, h.continues]

theorem deref_of_heap {b b' : B} (h : b'.heap = b.heap) (r : Nat) : b'.deref r = b.deref r := by
  simp [B.deref, h]

/-! ### the guard loop -/

theorem guardStep_complete (b : B) (cur : List Nat) (g beg ends : Nat) (h : aget g b.finallySub = some (some beg, some ends)) :
    B.guardStep (b, cur) g = (b.connect cur beg, b.deref ends) := by
  simp [B.guardStep, h]

theorem guardStep_rel (b : B) (cur : List Nat) (g : Nat) :
    JRelL [] b (B.guardStep (b, cur) g).1 ∧ (B.guardStep (b, cur) g).1.heap = b.heap ∧
    (B.guardStep (b, cur) g).1.finallySections = b.finallySections := by
  simp only [B.guardStep]
  split
  · exact ⟨jrel_connect _ _ _ _, rfl, rfl⟩
  · exact ⟨jrel_fail _ _ _, rfl, rfl⟩

theorem guardFold_spec (gs : List Nat) : ∀ (b : B) (cur : List Nat),
    (JRelL [] b (gs.foldl B.guardStep (b, cur)).1 ∧ (gs.foldl B.guardStep (b, cur)).1.heap = b.heap ∧
      (gs.foldl B.guardStep (b, cur)).1.finallySections = b.finallySections) ∧
    (∀ g rest y, gs = g :: rest → BeginOf b g y → ∀ x, x ∈ cur → (x, y) ∈ (gs.foldl B.guardStep (b, cur)).1.edges) ∧
    (∀ l1 g g' r beg ends y, gs = l1 ++ g :: g' :: r → aget g b.finallySub = some (some beg, some ends) → BeginOf b g' y →
      ∀ x, x ∈ b.deref ends → (x, y) ∈ (gs.foldl B.guardStep (b, cur)).1.edges) ∧
    ((∀ g, g ∈ gs → Complete b g) → ∀ x,
      ((gs = [] ∧ x ∈ cur) ∨ ∃ g beg ends, gs.getLast? = some g ∧ aget g b.finallySub = some (some beg, some ends) ∧ x ∈ b.deref ends) →
      x ∈ (gs.foldl B.guardStep (b, cur)).2) := by
  induction gs with
  | nil =>
    intro b cur
    refine ⟨⟨JRelL.refl _ _, rfl, rfl⟩, (fun g rest y h => by cases h), ?_, ?_⟩
    · intro l1 g g' r beg ends y h
      cases l1 <;> simp at h
    · intro _ x hx
      rcases hx with ⟨_, hx⟩ | ⟨g, beg, ends, h, _⟩
      · exact hx
      · simp at h
  | cons g0 gs' ih =>
    intro b cur
    obtain ⟨S1, S2, S3⟩ := guardStep_rel b cur g0
    obtain ⟨⟨I1, I2, I3⟩, IA, IB, IC⟩ := ih (B.guardStep (b, cur) g0).1 (B.guardStep (b, cur) g0).2
    have hfold : (g0 :: gs').foldl B.guardStep (b, cur) =
        gs'.foldl B.guardStep ((B.guardStep (b, cur) g0).1, (B.guardStep (b, cur) g0).2) := rfl
    rw [hfold]
    refine ⟨⟨S1.trans I1, by rw [I2, S2], by rw [I3, S3]⟩, ?_, ?_, ?_⟩
    · intro g rest y h hb x hx
      simp only [List.cons.injEq] at h
      obtain ⟨h1, _⟩ := h
      subst h1
      obtain ⟨_, ends, he⟩ := hb
      apply I1.edges
      rw [guardStep_complete b cur g0 y ends he]
      exact List.mem_append.mpr (Or.inr (List.mem_map.mpr ⟨x, hx, rfl⟩))
    · intro l1 g g' r beg ends y h hg hb x hx
      cases l1 with
      | nil =>
        simp only [List.nil_append, List.cons.injEq] at h
        obtain ⟨h1, h2⟩ := h
        subst h1
        refine IA g' r y h2 (S1.toSRel.w.beginOf hb) x ?_
        rw [guardStep_complete b cur g0 beg ends hg]
        exact hx
      | cons a l1' =>
        simp only [List.cons_append, List.cons.injEq] at h
        obtain ⟨_, h2⟩ := h
        refine IB l1' g g' r beg ends y h2 (by rw [S1.finallySub]; exact hg) (S1.toSRel.w.beginOf hb) x ?_
        rw [deref_of_heap S2]
        exact hx
    · intro hall x hx
      obtain ⟨_, beg0, ends0, h0⟩ := hall g0 (List.mem_cons_self ..)
      have hstep := guardStep_complete b cur g0 beg0 ends0 h0
      apply IC (fun g hg => S1.toSRel.w.complete (hall g (List.mem_cons_of_mem _ hg)))
      rcases hx with ⟨h, _⟩ | ⟨g, beg, ends, h1, h2, h3⟩
      · cases h
      · cases gs' with
        | nil =>
          simp only [List.getLast?_singleton, Option.some.injEq] at h1
          subst h1
          rw [h0] at h2
          simp only [Option.some.injEq, Prod.mk.injEq] at h2
          obtain ⟨_, h2⟩ := h2
          subst h2
          left
          refine ⟨rfl, ?_⟩
          rw [hstep]
          exact h3
        | cons a t =>
          right
          rw [List.getLast?_cons_cons] at h1
          exact ⟨g, beg, ends, h1, by rw [S1.finallySub]; exact h2, by rw [deref_of_heap S2]; exact h3⟩

/-- `_connect_jump_to_finally_sections(n)` -/
theorem connectJump_spec (b : B) (n : Nat) (ex : List Nat) (hn : n ∈ ex) :
    JRelL ex b (b.connectJump n).1 ∧ (b.connectJump n).1.heap = b.heap ∧
    ∀ gs, aget n b.finallySections = some gs →
      (∀ p, PPd b gs n p → p ∈ (b.connectJump n).1.edges) ∧
      ((∀ g, g ∈ gs → Complete b g) → ∀ x, Stage b gs n x → x ∈ (b.connectJump n).2) := by
  cases hfs : aget n b.finallySections with
  | none =>
    have : b.connectJump n = (b, [n]) := by simp [B.connectJump, hfs]
    rw [this]
    exact ⟨JRelL.refl _ _, rfl, fun gs h => by cases h⟩
  | some gs0 =>
    have : b.connectJump n = ((gs0.foldl B.guardStep (b, [n])).1.delFinallySections n, (gs0.foldl B.guardStep (b, [n])).2) := by
      simp [B.connectJump, hfs]
    rw [this]
    obtain ⟨⟨J, hh, _⟩, A, Bc, C⟩ := guardFold_spec gs0 b [n]
    refine ⟨(J.weaken (fun _ h => (List.not_mem_nil h).elim)).trans (jrel_delFinallySections ex _ n hn), hh, ?_⟩
    intro gs hgs
    cases hgs
    refine ⟨?_, ?_⟩
    · intro p hp
      obtain ⟨p1, p2⟩ := p
      show (p1, p2) ∈ (gs0.foldl B.guardStep (b, [n])).1.edges
      rcases hp with ⟨g, rest, e1, e2, e3⟩ | ⟨l1, g, g', r, beg, ends, e1, _, e3, e4, e5⟩
      · have e2' : p1 = n := e2
        subst e2'
        exact A g rest p2 e1 e3 p1 (by simp)
      · exact Bc l1 g g' r beg ends p2 e1 e3 e5 p1 e4
    · intro hall x hx
      show x ∈ (gs0.foldl B.guardStep (b, [n])).2
      apply C hall
      rcases hx with ⟨h1, h2⟩ | h
      · exact Or.inl ⟨h1, by simp [h2]⟩
      · exact Or.inr h

/-! ### the loops over the registered jumps -/

/-- A loop `for e in ex: f(e)` whose step connects jump `e` and then does `Q` to the cursor. -/
theorem jumpFold_spec (f : B → Nat → B) (Q : B → Nat → Prop) (I : B → Prop)
    (hQ : ∀ ex b b' x, JRelL ex b b' → Q b x → Q b' x)
    (hstep : ∀ b e, I b → I (f b e) ∧ JRelL [e] b (f b e) ∧ ∀ gs, aget e b.finallySections = some gs →
      (∀ p, PPd b gs e p → p ∈ (f b e).edges) ∧ ((∀ g, g ∈ gs → Complete b g) → ∀ x, Stage b gs e x → Q (f b e) x)) :
    ∀ (ex : List Nat) (b : B), I b → I (ex.foldl f b) ∧ JRelL ex b (ex.foldl f b) ∧
      ∀ j, j ∈ ex → ∀ gs, aget j b.finallySections = some gs →
        (∀ p, PPd b gs j p → p ∈ (ex.foldl f b).edges) ∧
        ((∀ g, g ∈ gs → Complete b g) → ∀ x, Stage b gs j x → Q (ex.foldl f b) x) := by
  intro ex
  induction ex with
  | nil => intro b hI; exact ⟨hI, JRelL.refl _ _, fun j hj => by cases hj⟩
  | cons e ex' ih =>
    intro b hI
    obtain ⟨s1, s2, s3⟩ := hstep b e hI
    obtain ⟨i1, i2, i3⟩ := ih (f b e) s1
    have hfold : (e :: ex').foldl f b = ex'.foldl f (f b e) := rfl
    rw [hfold]
    have J1 : JRelL (e :: ex') b (f b e) := s2.weaken (fun j hj => by simp only [List.mem_singleton] at hj; rw [hj]; exact List.mem_cons_self ..)
    have J2 : JRelL (e :: ex') (f b e) (ex'.foldl f (f b e)) := i2.weaken (fun j hj => List.mem_cons_of_mem _ hj)
    refine ⟨i1, J1.trans J2, ?_⟩
    intro j hj gs hgs
    by_cases hje : j = e
    · subst hje
      obtain ⟨t1, t2⟩ := s3 gs hgs
      exact ⟨fun p hp => i2.edges p (t1 p hp), fun hall x hx => hQ _ _ _ x i2 (t2 hall x hx)⟩
    · have hj' : j ∈ ex' := by
        rcases List.mem_cons.mp hj with h | h
        · exact (hje h).elim
        · exact h
      have hgs' : aget j (f b e).finallySections = some gs := by
        rw [s2.fsec j (by simpa using hje)]; exact hgs
      obtain ⟨t1, t2⟩ := i3 j hj' gs hgs'
      exact ⟨fun p hp => t1 p (s2.toSRel.w.ppd hp),
        fun hall x hx => t2 (fun g hg => s2.toSRel.w.complete (hall g hg)) x (s2.toSRel.w.stage hx)⟩

theorem exitStep_spec (b : B) (e : Nat) (hv : b.leaves < b.heap.length) :
    (b.exitStep e).leaves < (b.exitStep e).heap.length ∧ JRelL [e] b (b.exitStep e) ∧
    ∀ gs, aget e b.finallySections = some gs →
      (∀ p, PPd b gs e p → p ∈ (b.exitStep e).edges) ∧
      ((∀ g, g ∈ gs → Complete b g) → ∀ x, Stage b gs e x → x ∈ (b.exitStep e).leafSet) := by
  obtain ⟨J, hh, hs⟩ := connectJump_spec b e [e] (by simp)
  have hv1 : (b.connectJump e).1.leaves < (b.connectJump e).1.heap.length := by rw [J.leaves, J.heapLen]; exact hv
  have J2 := J.trans (jrel_leavesUnion [e] (b.connectJump e).1 (b.connectJump e).2)
  have hes : b.exitStep e = (b.connectJump e).1.leavesUnion (b.connectJump e).2 := rfl
  rw [hes]
  refine ⟨?_, J2, ?_⟩
  · rw [J2.leaves, J2.heapLen]; exact hv
  · intro gs hgs
    obtain ⟨t1, t2⟩ := hs gs hgs
    refine ⟨fun p hp => t1 p hp, ?_⟩
    intro hall x hx
    show x ∈ ((b.connectJump e).1.leavesUnion (b.connectJump e).2).leafSet
    rw [B.mem_leafSet_leavesUnion _ _ hv1]
    exact Or.inr (t2 hall x hx)

theorem reentryStep_spec (entry : Nat) (b : B) (e : Nat) :
    JRelL [e] b (B.reentryStep entry b e) ∧
    ∀ gs, aget e b.finallySections = some gs →
      (∀ p, PPd b gs e p → p ∈ (B.reentryStep entry b e).edges) ∧
      ((∀ g, g ∈ gs → Complete b g) → ∀ x, Stage b gs e x → (x, entry) ∈ (B.reentryStep entry b e).edges) := by
  obtain ⟨J, hh, hs⟩ := connectJump_spec b e [e] (by simp)
  have J2 := J.trans (jrel_connect [e] (b.connectJump e).1 (b.connectJump e).2 entry)
  refine ⟨J2, ?_⟩
  intro gs hgs
  obtain ⟨t1, t2⟩ := hs gs hgs
  refine ⟨fun p hp => List.mem_append.mpr (Or.inl (t1 p hp)), ?_⟩
  intro hall x hx
  exact List.mem_append.mpr (Or.inr (List.mem_map.mpr ⟨x, t2 hall x hx, rfl⟩))

/-! ### leaving a section -/

/-- what leaving the section `(c0, i)` does to the pending facts -/
structure ExitOk (c0 : Bool) (i : Nat) (b b' : B) : Prop where
  ppe : ∀ p, PPat b c0 i p → p ∈ b'.edges
  ppk : ∀ c t p, PPat b c t p → ¬(c = c0 ∧ t = i) → PPat b' c t p
  pj : ∀ c t G x, PJ c b t G x → (c = c0 ∧ t = i) ∨ PJ c b' t G x
  edges : ∀ p, p ∈ b.edges → p ∈ b'.edges
  finallySub : b'.finallySub = b.finallySub
  pendingFinally : b'.pendingFinally = b.pendingFinally
  errors : b'.errors = b.errors
  raises : b'.raises = b.raises
  ldj : ListsDisjoint b'

/-- generic part: the loop over the jumps of `(c0, i)` followed by steps that delete that key and touch nothing else pending -/
theorem exitOk_of (c0 : Bool) (i : Nat) (ex : List Nat) (b bf b' : B) (hex : aget i (dictOf c0 b) = some ex) (hl : ListsDisjoint b)
    (J : JRel ex b bf)
    (hdis : ∀ j, j ∈ ex → ∀ gs, aget j b.finallySections = some gs → ∀ p, PPd b gs j p → p ∈ bf.edges)
    (S' : SRel bf b') (hfs : b'.finallySections = bf.finallySections)
    (hdict : ∀ c t, ¬(c = c0 ∧ t = i) → aget t (dictOf c b') = aget t (dictOf c bf))
    (hldj : ListsDisjoint b') : ExitOk c0 i b b' := by
  have hne : ∀ c t, ¬(c = c0 ∧ t = i) → ∀ l j, aget t (dictOf c b) = some l → j ∈ l → j ∉ ex := by
    intro c t hct l j h1 h2 h3
    exact hct (hl c c0 t i l ex j h1 hex h2 h3)
  have S := J.toSRel.trans S'
  have hd : ∀ c t, ¬(c = c0 ∧ t = i) → aget t (dictOf c b') = aget t (dictOf c b) := by
    intro c t hct; rw [hdict c t hct, J.dictOf]
  have hf : ∀ c t, ¬(c = c0 ∧ t = i) → ∀ l j, aget t (dictOf c b) = some l → j ∈ l →
      aget j b'.finallySections = aget j b.finallySections := by
    intro c t hct l j h1 h2; rw [hfs, J.fsec j (hne c t hct l j h1 h2)]
  refine ⟨?_, ?_, ?_, S.edges, S.finallySub, S.pendingFinally, S.errors, S.raises, hldj⟩
  · intro p hp
    obtain ⟨l, j, gs, h1, h2, h3, h4⟩ := hp
    rw [hex] at h1
    cases h1
    exact S'.edges p (hdis j h2 gs h3 p h4)
  · intro c t p hp hct
    exact S.w.ppat hp (hd c t hct) (hf c t hct)
  · intro c t G x hp
    by_cases hct : c = c0 ∧ t = i
    · exact Or.inl hct
    · exact Or.inr (S.w.pj hp (hd c t hct) (hf c t hct))

theorem dictOf_false (b : B) : dictOf false b = b.exits := rfl
theorem dictOf_true (b : B) : dictOf true b = b.continues := rfl

/-- `exit_section(i)` -/
theorem exitSection_spec (b : B) (i : Nat) (ex : List Nat) (hex : aget i b.exits = some ex) (hv : b.leaves < b.heap.length)
    (hl : ListsDisjoint b) :
    ExitOk false i b (b.exitSection i) ∧
    (∀ x, PJ false b i [] x → x ∈ (b.exitSection i).leafSet) ∧
    (∀ x, x ∈ b.leafSet → x ∈ (b.exitSection i).leafSet) := by
  have hes : b.exitSection i = (ex.foldl B.exitStep b).delExits i := by simp [B.exitSection, hex]
  obtain ⟨f1, f2, f3⟩ := jumpFold_spec B.exitStep (fun b x => x ∈ b.leafSet) (fun b => b.leaves < b.heap.length)
    (fun ex b b' x J h => J.leafSet x h) (fun b e hI => exitStep_spec b e hI) ex b hv
  rw [hes]
  refine ⟨exitOk_of false i ex b (ex.foldl B.exitStep b) _ hex hl f2.toJRel (fun j hj gs hgs p hp => (f3 j hj gs hgs).1 p hp)
    ⟨fun _ h => h, fun _ _ h => h, rfl, rfl, rfl, rfl⟩ rfl ?_ (ldj_delExits i (ldj_of_eq f2.exits f2.continues hl)), ?_, ?_⟩
  · intro c t hct
    cases c
    · have hti : t ≠ i := fun e => hct ⟨rfl, e⟩
      show aget t (adel i (ex.foldl B.exitStep b).exits) = _
      rw [aget_adel, if_neg hti]; rfl
    · rfl
  · intro x hp
    obtain ⟨l, j, pre, h1, h2, h3, h4, h5⟩ := hp
    rw [dictOf_false, hex] at h1
    cases h1
    rw [List.append_nil] at h3
    exact (f3 j h2 pre h3).2 h4 x h5
  · intro x hx
    exact f2.leafSet x hx

/-- `exit_loop_section(i)` -/
theorem exitLoopSection_spec (b : B) (i entry : Nat) (cs : List Nat) (he : aget i b.sectionEntry = some entry)
    (hc : aget i b.continues = some cs) (hl : ListsDisjoint b) :
    ExitOk true i b (b.exitLoopSection i) ∧
    (∀ x, PJ true b i [] x → (x, entry) ∈ (b.exitLoopSection i).edges) ∧
    (∀ x, x ∈ b.leafSet → (x, entry) ∈ (b.exitLoopSection i).edges) ∧
    (b.exitLoopSection i).leafSet = [entry] ∧ (b.exitLoopSection i).exits = b.exits := by
  have hes : b.exitLoopSection i =
      ((cs.foldl (B.reentryStep entry) (b.connect b.leafSet entry)).setLeavesFresh [entry]).delLoopKeys i := by
    simp [B.exitLoopSection, he, hc]
  have J0 : JRelL cs b (b.connect b.leafSet entry) := jrel_connect cs b b.leafSet entry
  obtain ⟨_, f2, f3⟩ := jumpFold_spec (B.reentryStep entry) (fun b x => (x, entry) ∈ b.edges) (fun _ => True)
    (fun ex b b' x J h => J.edges _ h) (fun b e _ => ⟨trivial, reentryStep_spec entry b e⟩) cs (b.connect b.leafSet entry) trivial
  have J := J0.trans f2
  rw [hes]
  refine ⟨exitOk_of true i cs b (cs.foldl (B.reentryStep entry) (b.connect b.leafSet entry)) _ hc hl J.toJRel
    (fun j hj gs hgs p hp => (f3 j hj gs hgs).1 p (J0.toSRel.w.ppd hp))
    ⟨fun _ h => h, fun r x h => B.deref_setLeavesFresh _ _ r x h, rfl, rfl, rfl, rfl⟩ rfl ?_
    (ldj_delLoopKeys i (ldj_of_eq (b := b) J.exits J.continues hl)), ?_, ?_, by simp, J.exits⟩
  · intro c t hct
    cases c
    · rfl
    · have hti : t ≠ i := fun e => hct ⟨rfl, e⟩
      show aget t (adel i (cs.foldl (B.reentryStep entry) (b.connect b.leafSet entry)).continues) = _
      rw [aget_adel, if_neg hti]; rfl
  · intro x hp
    obtain ⟨l, j, pre, h1, h2, h3, h4, h5⟩ := hp
    rw [dictOf_true, hc] at h1
    cases h1
    rw [List.append_nil] at h3
    exact (f3 j h2 pre h3).2 (fun g hg => J0.toSRel.w.complete (h4 g hg)) x (J0.toSRel.w.stage h5)
  · intro x hx
    apply f2.edges
    exact List.mem_append.mpr (Or.inr (List.mem_map.mpr ⟨x, hx, rfl⟩))

/-- the pending facts of code whose scopes do not include section `i` survive leaving section `i` -/
theorem Pend.exit {σ : List Scope} {T : Nat} {curP : List Nat} {b b' : B} {R : Flow} {c0 : Bool} {i : Nat}
    (h : ExitOk c0 i b b') (hσ : sk i ∉ scopeKeys σ) (hp : Pend σ T curP b R) : Pend σ T curP b' R := by
  have pj : ∀ (c : Bool) (stop : Stop) (t : Nat) (G : List Nat) (x : Nat), (enclosingFinally stop σ).1 = some t →
      PJ c b t G x → PJ c b' t G x := by
    intro c stop t G x ht hpj
    rcases h.pj c t G x hpj with ⟨_, e⟩ | h'
    · exact (hσ (e ▸ enclosingFinally_target_key stop σ t ht)).elim
    · exact h'
  refine ⟨?_, ?_, ?_, ?_, ?_, fun x hx => by rw [h.errors]; exact hp.exempt x hx⟩
  · intro p hpp
    rcases hp.req p hpp with h1 | ⟨c, t, htg, h1⟩ | ⟨h1, h2⟩
    · exact Or.inl (h.edges p h1)
    · exact Or.inr (Or.inl ⟨c, t, htg, h.ppk c t p h1 (fun e => hσ (e.2 ▸ tgt_key htg))⟩)
    · exact Or.inr (Or.inr ⟨h1, startedAt_of_same h.finallySub h.pendingFinally h2⟩)
  · intro x hx
    obtain ⟨L, hL, h1⟩ := hp.brk x hx
    exact ⟨L, hL, pj false .loop L _ x hL h1⟩
  · intro x hx
    obtain ⟨L, hL, h1⟩ := hp.cont x hx
    exact ⟨L, hL, pj true .loop L _ x hL h1⟩
  · intro x hx
    obtain ⟨F, hF, h1⟩ := hp.ret x hx
    exact ⟨F, hF, pj false .fn F _ x hF h1⟩
  · intro x hx
    obtain ⟨h1, h2⟩ := hp.raise x hx
    exact ⟨by rw [h.errors]; exact h1, fun hd hhd => by rw [h.raises]; exact h2 hd hhd⟩

end Malt.Cfg
