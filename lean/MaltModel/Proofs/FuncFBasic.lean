import MaltModel.Proofs.FuncSim
/-! Helper lemmas for the functional (tracing) semantics `execF` (C02): purity, frame property,
`get_state`/`set_state` algebra, block decomposition. -/
namespace Malt.Func
open Malt.Sem

/-! ### Purity: no external calls anywhere (decidable) -/
def noCallE : Expr → Bool
  | .const _ => true
  | .var _ => true
  | .not e => noCallE e
  | .and a b => noCallE a && noCallE b
  | .or a b => noCallE a && noCallE b
  | .ite c t e => noCallE c && noCallE t && noCallE e
  | .bin _ a b => noCallE a && noCallE b
  | .call _ _ => false

def noCallO : Option Expr → Bool
  | none => true
  | some e => noCallE e

mutual
def pureS : AStmt → Bool
  | .assign _ _ e => noCallE e
  | .expr _ e => noCallE e
  | .pass _ => true
  | .ret _ e => noCallO e
  | .raise _ _ => true
  | .ifS _ c t e => noCallE c && pureB t && pureB e
  | .whileS _ c b => noCallE c && pureB b
  | .forS _ _ it extra b => noCallE it && noCallO extra && pureB b
  | .withS .. => false      -- enter / exit are logged events
  | .tryS .. => false       -- not covered by the functional theorems (an out-of-band raise could be caught)
def pureB : List AStmt → Bool
  | [] => true
  | s :: r => pureS s && pureB r
end

mutual
def pureTS : TStmt → Bool
  | .assign _ e => noCallE e
  | .expr e => noCallE e
  | .pass => true
  | .ret e => noCallO e
  | .raise _ => true
  | .undefAssign _ => true
  | .ifF c b e _ _ => noCallE c && pureTB b && pureTB e
  | .whileF c b _ => noCallE c && pureTB b
  | .forF _ it extra b _ => noCallE it && noCallO extra && pureTB b
  | .withT .. => false
  | .tryT .. => false
def pureTB : List TStmt → Bool
  | [] => true
  | s :: r => pureTS s && pureTB r
end

theorem evalE_pure_log (X : Ext) : ∀ (e : Expr) (σ : St), noCallE e = true → (evalE X e σ).2.log = σ.log
  | .const _, σ, _ => by simp [evalE]
  | .var x, σ, _ => by simp only [evalE]; split <;> rfl
  | .not e, σ, h => by
      have := evalE_pure_log X e σ (by simpa [noCallE] using h)
      simp only [evalE]; split <;> simp_all
  | .and a b, σ, h => by
      simp only [noCallE, Bool.and_eq_true] at h
      have ha := evalE_pure_log X a σ h.1
      simp only [evalE]
      split
      · rename_i v σ' hh; rw [hh] at ha
        split
        · rw [evalE_pure_log X b σ' h.2]; exact ha
        · exact ha
      · exact ha
  | .or a b, σ, h => by
      simp only [noCallE, Bool.and_eq_true] at h
      have ha := evalE_pure_log X a σ h.1
      simp only [evalE]
      split
      · rename_i v σ' hh; rw [hh] at ha
        split
        · exact ha
        · rw [evalE_pure_log X b σ' h.2]; exact ha
      · exact ha
  | .ite c t e, σ, h => by
      simp only [noCallE, Bool.and_eq_true] at h
      have ha := evalE_pure_log X c σ h.1.1
      simp only [evalE]
      split
      · rename_i v σ' hh; rw [hh] at ha
        split
        · rw [evalE_pure_log X t σ' h.1.2]; exact ha
        · rw [evalE_pure_log X e σ' h.2]; exact ha
      · exact ha
  | .bin op a b, σ, h => by
      simp only [noCallE, Bool.and_eq_true] at h
      have ha := evalE_pure_log X a σ h.1
      simp only [evalE]
      split
      · rename_i v σ' hh; rw [hh] at ha
        have hb := evalE_pure_log X b σ' h.2
        split
        · rename_i w σ'' h2; rw [h2] at hb
          split <;> simp_all
        · simp_all
      · exact ha
  | .call _ _, _, h => by simp [noCallE] at h

theorem evalT_pure (X : Ext) (e : Expr) (σ : TSt) (h : noCallE e = true) : (evalT X e σ).2 = σ := by
  have := evalE_pure_log X e σ.view h
  simp only [evalT]
  rw [this]
  rfl

/-! ### Names a target block may write (including the state variables its operators set) -/
mutual
def asgTS : TStmt → List Name
  | .assign x _ => [x]
  | .undefAssign x => [x]
  | .ifF _ b e decl _ => decl ++ (asgTB b ++ asgTB e)
  | .whileF _ b decl => decl ++ asgTB b
  | .forF x _ _ b decl => decl ++ (x :: asgTB b)
  | .withT _ b => asgTB b
  | .tryT b hs f => asgTB b ++ (asgTH hs ++ asgTB f)
  | _ => []
def asgTB : List TStmt → List Name
  | [] => []
  | s :: r => asgTS s ++ asgTB r
def asgTH : List (Nat × List TStmt) → List Name
  | [] => []
  | (_, b) :: r => asgTB b ++ asgTH r
end

/-! ### get_state / set_state -/
theorem setState_log : ∀ (decl : List Name) (ss : List Slot) (σ : TSt), (setState decl ss σ).log = σ.log
  | [], _, _ => by simp [setState]
  | _ :: _, [], _ => by simp [setState]
  | x :: xs, s :: ss, σ => by simp only [setState]; rw [setState_log xs ss]; rfl

theorem setState_notin : ∀ (decl : List Name) (ss : List Slot) (σ : TSt) (y : Name), y ∉ decl →
    (setState decl ss σ).env y = σ.env y
  | [], _, _, _, _ => by simp [setState]
  | _ :: _, [], _, _, _ => by simp [setState]
  | x :: xs, s :: ss, σ, y, h => by
      simp only [setState]
      rw [setState_notin xs ss _ y (fun hh => h (List.mem_cons_of_mem _ hh))]
      have : y ≠ x := fun hh => h (by simp [hh])
      simp [TSt.setSlot, this]

/-- `set_state(get_state())` of another state: the declared variables take that state's values. -/
theorem setState_getState : ∀ (decl : List Name) (σ : TSt) (ss : List Slot) (τ : TSt) (y : Name),
    getState decl σ = .ok ss → (setState decl ss τ).env y = if y ∈ decl then σ.env y else τ.env y
  | [], σ, ss, τ, y, h => by simp [getState] at h; subst h; simp [setState]
  | x :: xs, σ, ss, τ, y, h => by
      simp only [getState] at h
      cases hx : σ.env x with
      | unbound => simp [hx] at h
      | undef =>
        simp only [hx] at h
        cases hr : getState xs σ with
        | error e => simp [hr] at h
        | ok ss' =>
          simp only [hr, Except.ok.injEq] at h; subst h
          simp only [setState]
          rw [setState_getState xs σ ss' _ y hr]
          by_cases hy : y ∈ xs
          · simp [hy]
          · by_cases hyx : y = x
            · subst hyx; simp [hy, TSt.setSlot, hx]
            · simp [hy, hyx, TSt.setSlot]
      | val v =>
        simp only [hx] at h
        cases hr : getState xs σ with
        | error e => simp [hr] at h
        | ok ss' =>
          simp only [hr, Except.ok.injEq] at h; subst h
          simp only [setState]
          rw [setState_getState xs σ ss' _ y hr]
          by_cases hy : y ∈ xs
          · simp [hy]
          · by_cases hyx : y = x
            · subst hyx; simp [hy, TSt.setSlot, hx]
            · simp [hy, hyx, TSt.setSlot]

theorem getState_cons {x : Name} {xs : List Name} {σ : TSt} {ss : List Slot} (h : getState (x :: xs) σ = .ok ss) :
    ∃ ss', ss = σ.env x :: ss' ∧ getState xs σ = .ok ss' := by
  simp only [getState] at h
  cases hx : σ.env x with
  | unbound => simp [hx] at h
  | undef =>
    simp only [hx] at h
    cases hr : getState xs σ with
    | error e => simp [hr] at h
    | ok ss' => simp only [hr, Except.ok.injEq] at h; exact ⟨ss', h.symm, rfl⟩
  | val v =>
    simp only [hx] at h
    cases hr : getState xs σ with
    | error e => simp [hr] at h
    | ok ss' => simp only [hr, Except.ok.injEq] at h; exact ⟨ss', h.symm, rfl⟩

/-- The composed tuple of `if_stmt`: first `n` entries from snapshot `a`, the rest from snapshot `b`. -/
theorem setState_select : ∀ (decl : List Name) (n : Nat) (σa σb : TSt) (sa sb : List Slot) (τ : TSt) (y : Name),
    decl.Nodup → getState decl σa = .ok sa → getState decl σb = .ok sb →
    (setState decl (selectOuts n sa sb) τ).env y =
      if y ∈ decl.take n then σa.env y else if y ∈ decl then σb.env y else τ.env y
  | [], n, σa, σb, sa, sb, τ, y, _, ha, hb => by
      simp [getState] at ha hb; subst ha; subst hb; simp [setState]
  | x :: xs, 0, σa, σb, sa, sb, τ, y, _, _, hb => by
      simp only [selectOuts, List.take_zero, List.drop_zero, List.nil_append]
      rw [setState_getState (x :: xs) σb sb τ y hb]
      simp
  | x :: xs, n+1, σa, σb, sa, sb, τ, y, hnd, ha, hb => by
      obtain ⟨sa', rfl, ha'⟩ := getState_cons ha
      obtain ⟨sb', rfl, hb'⟩ := getState_cons hb
      have hnd' := List.nodup_cons.mp hnd
      have ih := setState_select xs n σa σb sa' sb' (τ.setSlot x (σa.env x)) y hnd'.2 ha' hb'
      simp only [selectOuts] at ih ⊢
      simp only [List.take_succ_cons, List.drop_succ_cons, List.cons_append, setState]
      rw [ih]
      by_cases hyx : y = x
      · subst hyx
        have h1 : y ∉ xs.take n := fun hh => hnd'.1 (List.mem_of_mem_take hh)
        simp [h1, hnd'.1, TSt.setSlot]
      · simp [hyx, TSt.setSlot]

/-! ### Frame property and log preservation of `execF` on pure code -/
theorem withFrame_frame {L : List Name} {σ : TSt} {A : Option (Out × TSt)} {o : Out} {ν : TSt} {W : List Name}
    (h : withFrame L σ A = some (o, ν))
    (hA : ∀ o' ν', A = some (o', ν') → ν'.log = σ.log ∧ ∀ x, x ∉ W → ν'.env x = (mask L σ).env x) :
    ν.log = σ.log ∧ ∀ x, x ∉ W → ν.env x = σ.env x := by
  obtain ⟨o', ν', hA', heq⟩ := withFrame_some h
  simp only [Prod.mk.injEq] at heq
  obtain ⟨_, rfl⟩ := heq
  obtain ⟨hl, hf⟩ := hA o' ν' hA'
  refine ⟨hl, fun x hx => ?_⟩
  simp only [restore]
  by_cases hL : x ∈ L
  · simp [hL]
  · simp [hL, hf x hx, mask]

def FrameF (X : Ext) (n : Nat) : Prop :=
  (∀ s μ o ν, pureTS s = true → execF X n s μ = some (o, ν) → ν.log = μ.log ∧ ∀ x, x ∉ asgTS s → ν.env x = μ.env x) ∧
  (∀ b μ o ν, pureTB b = true → execFB X n b μ = some (o, ν) → ν.log = μ.log ∧ ∀ x, x ∉ asgTB b → ν.env x = μ.env x) ∧
  (∀ c body decl carried μ o ν, noCallE c = true → pureTB body = true →
      execFWhile X n c body decl carried μ = some (o, ν) →
      ν.log = μ.log ∧ ∀ x, x ∉ decl ++ asgTB body → ν.env x = μ.env x) ∧
  (∀ x extra body decl items carried μ o ν, noCallO extra = true → pureTB body = true →
      execFFor X n x extra body decl items carried μ = some (o, ν) →
      ν.log = μ.log ∧ ∀ y, y ∉ decl ++ (x :: asgTB body) → ν.env y = μ.env y)

theorem mask_log (L : List Name) (σ : TSt) : (mask L σ).log = σ.log := rfl


theorem notin_append_left {x : Name} {A B : List Name} (h : x ∉ A ++ B) : x ∉ A :=
  fun hh => h (List.mem_append.mpr (Or.inl hh))
theorem notin_append_right {x : Name} {A B : List Name} (h : x ∉ A ++ B) : x ∉ B :=
  fun hh => h (List.mem_append.mpr (Or.inr hh))

theorem frameF (X : Ext) : ∀ n, FrameF X n := by
  intro n
  induction n with
  | zero =>
    refine ⟨?_, ?_, ?_, ?_⟩
    · intro s μ o ν _ h; simp [execF] at h
    · intro b μ o ν _ h; simp [execFB] at h
    · intro c body decl carried μ o ν _ _ h; simp [execFWhile] at h
    · intro x extra body decl items carried μ o ν _ _ h; simp [execFFor] at h
  | succ n ih =>
    obtain ⟨ihS, ihB, ihW, ihFor⟩ := ih
    -- a call of a generated body function
    have call : ∀ (L : List Name) (body : TBlock) (μ : TSt) (o : Out) (ν : TSt), pureTB body = true →
        withFrame L μ (execFB X n body (mask L μ)) = some (o, ν) →
        ν.log = μ.log ∧ ∀ x, x ∉ asgTB body → ν.env x = μ.env x := by
      intro L body μ o ν hp h
      exact withFrame_frame h (fun o' ν' hA => ihB body (mask L μ) o' ν' hp hA)
    refine ⟨?_, ?_, ?_, ?_⟩
    · intro s μ o ν hp h
      cases s with
      | assign x e =>
        simp only [pureTS] at hp
        simp only [execF] at h
        have hpure := evalT_pure X e μ hp
        rcases he : evalT X e μ with ⟨r, μ'⟩
        rw [he] at h hpure; simp only at hpure; subst hpure
        cases r with
        | error ex => simp only [Option.some.injEq, Prod.mk.injEq] at h; obtain ⟨_, rfl⟩ := h; exact ⟨rfl, fun _ _ => rfl⟩
        | ok v =>
          simp only [Option.some.injEq, Prod.mk.injEq] at h; obtain ⟨_, rfl⟩ := h
          refine ⟨rfl, fun y hy => ?_⟩
          have : y ≠ x := fun hh => hy (by simp [asgTS, hh])
          simp [TSt.set, TSt.setSlot, this]
      | expr e =>
        simp only [pureTS] at hp
        simp only [execF] at h
        have hpure := evalT_pure X e μ hp
        rcases he : evalT X e μ with ⟨r, μ'⟩
        rw [he] at h hpure; simp only at hpure; subst hpure
        cases r <;> (simp only [Option.some.injEq, Prod.mk.injEq] at h; obtain ⟨_, rfl⟩ := h; exact ⟨rfl, fun _ _ => rfl⟩)
      | pass => simp only [execF, Option.some.injEq, Prod.mk.injEq] at h; obtain ⟨_, rfl⟩ := h; exact ⟨rfl, fun _ _ => rfl⟩
      | raise t => simp only [execF, Option.some.injEq, Prod.mk.injEq] at h; obtain ⟨_, rfl⟩ := h; exact ⟨rfl, fun _ _ => rfl⟩
      | undefAssign x =>
        simp only [execF, Option.some.injEq, Prod.mk.injEq] at h; obtain ⟨_, rfl⟩ := h
        refine ⟨rfl, fun y hy => ?_⟩
        have : y ≠ x := fun hh => hy (by simp [asgTS, hh])
        simp [TSt.setSlot, this]
      | ret e =>
        cases e with
        | none => simp only [execF, Option.some.injEq, Prod.mk.injEq] at h; obtain ⟨_, rfl⟩ := h; exact ⟨rfl, fun _ _ => rfl⟩
        | some e =>
          simp only [pureTS, noCallO] at hp
          simp only [execF] at h
          have hpure := evalT_pure X e μ hp
          rcases he : evalT X e μ with ⟨r, μ'⟩
          rw [he] at h hpure; simp only at hpure; subst hpure
          cases r <;> (simp only [Option.some.injEq, Prod.mk.injEq] at h; obtain ⟨_, rfl⟩ := h; exact ⟨rfl, fun _ _ => rfl⟩)
      | ifF c body orelse decl nouts =>
        simp only [pureTS, Bool.and_eq_true] at hp
        simp only [execF] at h
        have hpure := evalT_pure X c μ hp.1.1
        rcases he : evalT X c μ with ⟨r, μ'⟩
        rw [he] at h hpure; simp only at hpure; subst hpure
        cases r with
        | error ex => simp only [Option.some.injEq, Prod.mk.injEq] at h; obtain ⟨_, rfl⟩ := h; exact ⟨rfl, fun _ _ => rfl⟩
        | ok v =>
          simp only at h
          cases hg0 : getState decl μ' with
          | error y => rw [hg0] at h; simp only [Option.some.injEq, Prod.mk.injEq] at h; obtain ⟨_, rfl⟩ := h; exact ⟨rfl, fun _ _ => rfl⟩
          | ok s0 =>
            rw [hg0] at h; simp only at h
            cases hbr : withFrame (localsOf body decl) μ' (execFB X n body (mask (localsOf body decl) μ')) with
            | none => rw [hbr] at h; simp at h
            | some rb =>
              rw [hbr] at h
              obtain ⟨ob, σb⟩ := rb
              obtain ⟨hlb, hfb⟩ := call _ body μ' ob σb hp.1.2 hbr
              have fb : ∀ x, x ∉ asgTS (.ifF c body orelse decl nouts) → σb.env x = μ'.env x := fun x hx =>
                hfb x (notin_append_left (notin_append_right (by simpa [asgTS] using hx)))
              cases ob with
              | normal =>
                simp only at h
                cases hg1 : getState decl σb with
                | error y => rw [hg1] at h; simp only [Option.some.injEq, Prod.mk.injEq] at h; obtain ⟨_, rfl⟩ := h; exact ⟨hlb, fb⟩
                | ok sb =>
                  rw [hg1] at h; simp only at h
                  cases hor : withFrame (localsOf orelse decl) (setState decl s0 σb)
                      (execFB X n orelse (mask (localsOf orelse decl) (setState decl s0 σb))) with
                  | none => rw [hor] at h; simp at h
                  | some ro =>
                    rw [hor] at h
                    obtain ⟨oo, σo⟩ := ro
                    obtain ⟨hlo, hfo⟩ := call _ orelse _ oo σo hp.2 hor
                    have hlo' : σo.log = μ'.log := by rw [hlo, setState_log, hlb]
                    have fo : ∀ x, x ∉ asgTS (.ifF c body orelse decl nouts) → σo.env x = μ'.env x := fun x hx => by
                      have hx' : x ∉ decl ++ (asgTB body ++ asgTB orelse) := by simpa [asgTS] using hx
                      rw [hfo x (notin_append_right (notin_append_right hx')),
                          setState_notin decl s0 σb x (notin_append_left hx')]
                      exact fb x hx
                    cases oo with
                    | normal =>
                      simp only at h
                      cases hg2 : getState decl σo with
                      | error y => rw [hg2] at h; simp only [Option.some.injEq, Prod.mk.injEq] at h; obtain ⟨_, rfl⟩ := h; exact ⟨hlo', fo⟩
                      | ok so =>
                        rw [hg2] at h; simp only [Option.some.injEq, Prod.mk.injEq] at h; obtain ⟨_, rfl⟩ := h
                        refine ⟨by rw [setState_log]; exact hlo', fun x hx => ?_⟩
                        have hx' : x ∉ decl ++ (asgTB body ++ asgTB orelse) := by simpa [asgTS] using hx
                        rw [setState_notin _ _ _ x (notin_append_left hx')]
                        exact fo x hx
                    | _ => simp only [Option.some.injEq, Prod.mk.injEq] at h; obtain ⟨_, rfl⟩ := h; exact ⟨hlo', fo⟩
              | _ => simp only [Option.some.injEq, Prod.mk.injEq] at h; obtain ⟨_, rfl⟩ := h; exact ⟨hlb, fb⟩
      | whileF c body decl =>
        simp only [pureTS, Bool.and_eq_true] at hp
        simp only [execF] at h
        cases hg0 : getState decl μ with
        | error y => rw [hg0] at h; simp only [Option.some.injEq, Prod.mk.injEq] at h; obtain ⟨_, rfl⟩ := h; exact ⟨rfl, fun _ _ => rfl⟩
        | ok s0 =>
          rw [hg0] at h; simp only at h
          cases hbr : withFrame (localsOf body decl) μ (execFB X n body (mask (localsOf body decl) μ)) with
          | none => rw [hbr] at h; simp at h
          | some rb =>
            rw [hbr] at h
            obtain ⟨ob, σt⟩ := rb
            obtain ⟨hlb, hfb⟩ := call _ body μ ob σt hp.2 hbr
            cases ob with
            | normal =>
              simp only at h
              obtain ⟨hlw, hfw⟩ := ihW c body decl s0 _ o ν hp.1 hp.2 h
              refine ⟨by rw [hlw, setState_log, hlb], fun x hx => ?_⟩
              have hx' : x ∉ decl ++ asgTB body := by simpa [asgTS] using hx
              rw [hfw x hx', setState_notin _ _ _ x (notin_append_left hx')]
              exact hfb x (notin_append_right hx')
            | _ =>
              simp only [Option.some.injEq, Prod.mk.injEq] at h; obtain ⟨_, rfl⟩ := h
              exact ⟨hlb, fun x hx => hfb x (notin_append_right (by simpa [asgTS] using hx))⟩
      | forF x it extra body decl =>
        simp only [pureTS, Bool.and_eq_true] at hp
        simp only [execF] at h
        have hpure := evalT_pure X it μ hp.1.1
        rcases he : evalT X it μ with ⟨r, μ'⟩
        rw [he] at h hpure; simp only at hpure; subst hpure
        cases r with
        | error ex => simp only [Option.some.injEq, Prod.mk.injEq] at h; obtain ⟨_, rfl⟩ := h; exact ⟨rfl, fun _ _ => rfl⟩
        | ok v =>
          simp only at h
          cases hi : iterItems v with
          | error ex => rw [hi] at h; simp only [Option.some.injEq, Prod.mk.injEq] at h; obtain ⟨_, rfl⟩ := h; exact ⟨rfl, fun _ _ => rfl⟩
          | ok items =>
            rw [hi] at h; simp only at h
            cases hg0 : getState decl μ' with
            | error y => rw [hg0] at h; simp only [Option.some.injEq, Prod.mk.injEq] at h; obtain ⟨_, rfl⟩ := h; exact ⟨rfl, fun _ _ => rfl⟩
            | ok s0 =>
              rw [hg0] at h; simp only at h
              have hpb : pureTB (.assign x (.const (items.headD (.int 0))) :: body) = true := by
                simp [pureTB, pureTS, noCallE, hp.2]
              cases hbr : withFrame (localsFor x body decl) μ'
                  (execFB X n (.assign x (.const (items.headD (.int 0))) :: body) (mask (localsFor x body decl) μ')) with
              | none => rw [hbr] at h; simp at h
              | some rb =>
                rw [hbr] at h
                obtain ⟨ob, σt⟩ := rb
                obtain ⟨hlb, hfb⟩ := call _ _ μ' ob σt hpb hbr
                have fb : ∀ y, y ∉ asgTS (.forF x it extra body decl) → σt.env y = μ'.env y := fun y hy =>
                  hfb y (by
                    have : y ∉ decl ++ (x :: asgTB body) := by simpa [asgTS] using hy
                    simpa [asgTB, asgTS] using notin_append_right this)
                cases ob with
                | normal =>
                  simp only at h
                  have fr : ∀ y, y ∉ asgTS (.forF x it extra body decl) → (setState decl s0 σt).env y = μ'.env y := fun y hy => by
                    have hy' : y ∉ decl ++ (x :: asgTB body) := by simpa [asgTS] using hy
                    rw [setState_notin _ _ _ y (notin_append_left hy')]; exact fb y hy
                  have lr : (setState decl s0 σt).log = μ'.log := by rw [setState_log, hlb]
                  cases extra with
                  | none =>
                    simp only at h
                    obtain ⟨hlw, hfw⟩ := ihFor x none body decl items s0 _ o ν rfl hp.2 h
                    refine ⟨by rw [hlw, lr], fun y hy => ?_⟩
                    have hy' : y ∉ decl ++ (x :: asgTB body) := by simpa [asgTS] using hy
                    rw [hfw y hy']; exact fr y hy
                  | some t =>
                    simp only at h
                    have hpt : noCallE t = true := by simpa [noCallO] using hp.1.2
                    have hpure2 := evalT_pure X t (setState decl s0 σt) hpt
                    rcases het : evalT X t (setState decl s0 σt) with ⟨rt, μ₂⟩
                    rw [het] at h hpure2; simp only at hpure2; subst hpure2
                    cases rt with
                    | error ex => simp only [Option.some.injEq, Prod.mk.injEq] at h; obtain ⟨_, rfl⟩ := h; exact ⟨lr, fr⟩
                    | ok tv =>
                      simp only at h
                      by_cases htv : truthy tv = true
                      · rw [if_pos htv] at h
                        obtain ⟨hlw, hfw⟩ := ihFor x (some t) body decl items s0 _ o ν hp.1.2 hp.2 h
                        refine ⟨by rw [hlw, lr], fun y hy => ?_⟩
                        have hy' : y ∉ decl ++ (x :: asgTB body) := by simpa [asgTS] using hy
                        rw [hfw y hy']; exact fr y hy
                      · rw [if_neg htv] at h
                        simp only [Option.some.injEq, Prod.mk.injEq] at h; obtain ⟨_, rfl⟩ := h; exact ⟨lr, fr⟩
                | _ => simp only [Option.some.injEq, Prod.mk.injEq] at h; obtain ⟨_, rfl⟩ := h; exact ⟨hlb, fb⟩
      | withT tag body => simp [pureTS] at hp
      | tryT body hs fin => simp [pureTS] at hp
    · intro b μ o ν hp h
      cases b with
      | nil => simp only [execFB, Option.some.injEq, Prod.mk.injEq] at h; obtain ⟨_, rfl⟩ := h; exact ⟨rfl, fun _ _ => rfl⟩
      | cons s rest =>
        simp only [pureTB, Bool.and_eq_true] at hp
        simp only [execFB] at h
        cases hs : execF X n s μ with
        | none => rw [hs] at h; simp at h
        | some rs =>
          rw [hs] at h
          obtain ⟨o₁, μ₁⟩ := rs
          obtain ⟨hl1, hf1⟩ := ihS s μ o₁ μ₁ hp.1 hs
          cases o₁ with
          | normal =>
            simp only at h
            obtain ⟨hl2, hf2⟩ := ihB rest μ₁ o ν hp.2 h
            refine ⟨by rw [hl2, hl1], fun x hx => ?_⟩
            have hx' : x ∉ asgTS s ++ asgTB rest := by simpa [asgTB] using hx
            rw [hf2 x (notin_append_right hx'), hf1 x (notin_append_left hx')]
          | _ =>
            simp only [Option.some.injEq, Prod.mk.injEq] at h; obtain ⟨_, rfl⟩ := h
            exact ⟨hl1, fun x hx => hf1 x (notin_append_left (by simpa [asgTB] using hx))⟩
    · intro c body decl carried μ o ν hpc hpb h
      simp only [execFWhile] at h
      have hpure := evalT_pure X c (setState decl carried μ) hpc
      rcases he : evalT X c (setState decl carried μ) with ⟨r, μ'⟩
      rw [he] at h hpure; simp only at hpure; subst hpure
      have f0 : ∀ x, x ∉ decl ++ asgTB body → (setState decl carried μ).env x = μ.env x := fun x hx =>
        setState_notin _ _ _ x (notin_append_left hx)
      have l0 : (setState decl carried μ).log = μ.log := setState_log _ _ _
      cases r with
      | error ex => simp only [Option.some.injEq, Prod.mk.injEq] at h; obtain ⟨_, rfl⟩ := h; exact ⟨l0, f0⟩
      | ok v =>
        simp only at h
        by_cases hv : (!truthy v) = true
        · rw [if_pos hv] at h
          simp only [Option.some.injEq, Prod.mk.injEq] at h; obtain ⟨_, rfl⟩ := h; exact ⟨l0, f0⟩
        · rw [if_neg hv] at h
          cases hbr : withFrame (localsOf body decl) (setState decl carried μ)
              (execFB X n body (mask (localsOf body decl) (setState decl carried μ))) with
          | none => rw [hbr] at h; simp at h
          | some rb =>
            rw [hbr] at h
            obtain ⟨ob, σ₂⟩ := rb
            obtain ⟨hlb, hfb⟩ := call _ body _ ob σ₂ hpb hbr
            have f2 : ∀ x, x ∉ decl ++ asgTB body → σ₂.env x = μ.env x := fun x hx => by
              rw [hfb x (notin_append_right hx)]; exact f0 x hx
            cases ob with
            | normal =>
              simp only at h
              cases hg : getState decl σ₂ with
              | error y => rw [hg] at h; simp only [Option.some.injEq, Prod.mk.injEq] at h; obtain ⟨_, rfl⟩ := h; exact ⟨by rw [hlb, l0], f2⟩
              | ok carried' =>
                rw [hg] at h; simp only at h
                obtain ⟨hlw, hfw⟩ := ihW c body decl carried' σ₂ o ν hpc hpb h
                exact ⟨by rw [hlw, hlb, l0], fun x hx => by rw [hfw x hx]; exact f2 x hx⟩
            | _ => simp only [Option.some.injEq, Prod.mk.injEq] at h; obtain ⟨_, rfl⟩ := h; exact ⟨by rw [hlb, l0], f2⟩
    · intro x extra body decl items carried μ o ν hpe hpb h
      cases items with
      | nil =>
        simp only [execFFor, Option.some.injEq, Prod.mk.injEq] at h; obtain ⟨_, rfl⟩ := h
        exact ⟨setState_log _ _ _, fun y hy => setState_notin _ _ _ y (notin_append_left hy)⟩
      | cons v items =>
        simp only [execFFor] at h
        have f0 : ∀ y, y ∉ decl ++ (x :: asgTB body) → (setState decl carried μ).env y = μ.env y := fun y hy =>
          setState_notin _ _ _ y (notin_append_left hy)
        have l0 : (setState decl carried μ).log = μ.log := setState_log _ _ _
        have hpb' : pureTB (.assign x (.const v) :: body) = true := by simp [pureTB, pureTS, noCallE, hpb]
        cases hbr : withFrame (localsFor x body decl) (setState decl carried μ)
            (execFB X n (.assign x (.const v) :: body) (mask (localsFor x body decl) (setState decl carried μ))) with
        | none => rw [hbr] at h; simp at h
        | some rb =>
          rw [hbr] at h
          obtain ⟨ob, σ₂⟩ := rb
          obtain ⟨hlb, hfb⟩ := call _ _ _ ob σ₂ hpb' hbr
          have f2 : ∀ y, y ∉ decl ++ (x :: asgTB body) → σ₂.env y = μ.env y := fun y hy => by
            rw [hfb y (by simpa [asgTB, asgTS] using notin_append_right hy)]; exact f0 y hy
          have l2 : σ₂.log = μ.log := by rw [hlb, l0]
          cases ob with
          | normal =>
            simp only at h
            cases hg : getState decl σ₂ with
            | error y => rw [hg] at h; simp only [Option.some.injEq, Prod.mk.injEq] at h; obtain ⟨_, rfl⟩ := h; exact ⟨l2, f2⟩
            | ok carried' =>
              rw [hg] at h; simp only at h
              cases extra with
              | none =>
                simp only at h
                obtain ⟨hlw, hfw⟩ := ihFor x none body decl items carried' σ₂ o ν rfl hpb h
                exact ⟨by rw [hlw, l2], fun y hy => by rw [hfw y hy]; exact f2 y hy⟩
              | some t =>
                simp only at h
                have hpt : noCallE t = true := by simpa [noCallO] using hpe
                have hpure2 := evalT_pure X t σ₂ hpt
                rcases het : evalT X t σ₂ with ⟨rt, μ₂⟩
                rw [het] at h hpure2; simp only at hpure2; subst hpure2
                cases rt with
                | error ex => simp only [Option.some.injEq, Prod.mk.injEq] at h; obtain ⟨_, rfl⟩ := h; exact ⟨l2, f2⟩
                | ok tv =>
                  simp only at h
                  by_cases htv : truthy tv = true
                  · rw [if_pos htv] at h
                    obtain ⟨hlw, hfw⟩ := ihFor x (some t) body decl items carried' _ o ν hpe hpb h
                    exact ⟨by rw [hlw, l2], fun y hy => by rw [hfw y hy]; exact f2 y hy⟩
                  · rw [if_neg htv] at h
                    simp only [Option.some.injEq, Prod.mk.injEq] at h; obtain ⟨_, rfl⟩ := h; exact ⟨l2, f2⟩
          | _ => simp only [Option.some.injEq, Prod.mk.injEq] at h; obtain ⟨_, rfl⟩ := h; exact ⟨l2, f2⟩

end Malt.Func
