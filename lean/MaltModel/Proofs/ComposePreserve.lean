import MaltModel.Proofs.ComposeSyntax
import MaltModel.Sem.CoreLemmas
/-
Preservation of the hypotheses of the jump-lowering theorems by the lowerings themselves:
fragment predicates (`inS0B`, `finOKB`), freshness (`CleanB`), and the derived facts about jump occurrences.
-/
set_option linter.unusedSimpArgs false
namespace Malt.Sem.Jumps
open Malt.Sem

/-! ### relations between the occurrence predicates -/

mutual
theorem mayBrkS_hasBrk : ∀ (s : Stmt), mayBrkS s = true → hasBrkS s = true
  | .brk, _ => by simp [hasBrkS]
  | .ifS c t e, h => by
      simp only [mayBrkS, Bool.or_eq_true] at h
      simp only [hasBrkS, Bool.or_eq_true]
      rcases h with h | h
      · exact Or.inl (mayBrkB_hasBrk t h)
      · exact Or.inr (mayBrkB_hasBrk e h)
  | .tryS b hs f, h => by
      simp only [mayBrkS, Bool.or_eq_true] at h
      simp only [hasBrkS, Bool.or_eq_true]
      rcases h with (h | h) | h
      · exact Or.inl (Or.inl (mayBrkB_hasBrk b h))
      · exact Or.inl (Or.inr (mayBrkH_hasBrk hs h))
      · exact Or.inr (mayBrkB_hasBrk f h)
  | .withS t b, h => by simp only [mayBrkS] at h; simp only [hasBrkS]; exact mayBrkB_hasBrk b h
  | .assign x e, h => by simp [mayBrkS] at h
  | .expr e, h => by simp [mayBrkS] at h
  | .whileS c b, h => by simp [mayBrkS] at h
  | .forS x it ex b, h => by simp [mayBrkS] at h
  | .cont, h => by simp [mayBrkS] at h
  | .ret e, h => by simp [mayBrkS] at h
  | .raise t, h => by simp [mayBrkS] at h
  | .pass, h => by simp [mayBrkS] at h
theorem mayBrkB_hasBrk : ∀ (b : List Stmt), mayBrkB b = true → hasBrkB b = true
  | [], h => by simp [mayBrkB] at h
  | s :: rest, h => by
      simp only [mayBrkB, Bool.or_eq_true] at h
      simp only [hasBrkB, Bool.or_eq_true]
      rcases h with h | h
      · exact Or.inl (mayBrkS_hasBrk s h)
      · exact Or.inr (mayBrkB_hasBrk rest h)
theorem mayBrkH_hasBrk : ∀ (hs : List (Nat × List Stmt)), mayBrkH hs = true → hasBrkH hs = true
  | [], h => by simp [mayBrkH] at h
  | (t, b) :: hs, h => by
      simp only [mayBrkH, Bool.or_eq_true] at h
      simp only [hasBrkH, Bool.or_eq_true]
      rcases h with h | h
      · exact Or.inl (mayBrkB_hasBrk b h)
      · exact Or.inr (mayBrkH_hasBrk hs h)
end

mutual
theorem topContS_hasCont : ∀ (s : Stmt), topContS s = true → hasContS s = true
  | .cont, _ => by simp [hasContS]
  | .ifS c t e, h => by
      simp only [topContS, Bool.or_eq_true] at h
      simp only [hasContS, Bool.or_eq_true]
      rcases h with h | h
      · exact Or.inl (topContB_hasCont t h)
      · exact Or.inr (topContB_hasCont e h)
  | .tryS b hs f, h => by
      simp only [topContS, Bool.or_eq_true] at h
      simp only [hasContS, Bool.or_eq_true]
      rcases h with (h | h) | h
      · exact Or.inl (Or.inl (topContB_hasCont b h))
      · exact Or.inl (Or.inr (topContH_hasCont hs h))
      · exact Or.inr (topContB_hasCont f h)
  | .withS t b, h => by simp only [topContS] at h; simp only [hasContS]; exact topContB_hasCont b h
  | .assign x e, h => by simp [topContS] at h
  | .expr e, h => by simp [topContS] at h
  | .whileS c b, h => by simp [topContS] at h
  | .forS x it ex b, h => by simp [topContS] at h
  | .brk, h => by simp [topContS] at h
  | .ret e, h => by simp [topContS] at h
  | .raise t, h => by simp [topContS] at h
  | .pass, h => by simp [topContS] at h
theorem topContB_hasCont : ∀ (b : List Stmt), topContB b = true → hasContB b = true
  | [], h => by simp [topContB] at h
  | s :: rest, h => by
      simp only [topContB, Bool.or_eq_true] at h
      simp only [hasContB, Bool.or_eq_true]
      rcases h with h | h
      · exact Or.inl (topContS_hasCont s h)
      · exact Or.inr (topContB_hasCont rest h)
theorem topContH_hasCont : ∀ (hs : List (Nat × List Stmt)), topContH hs = true → hasContH hs = true
  | [], h => by simp [topContH] at h
  | (t, b) :: hs, h => by
      simp only [topContH, Bool.or_eq_true] at h
      simp only [hasContH, Bool.or_eq_true]
      rcases h with h | h
      · exact Or.inl (topContB_hasCont b h)
      · exact Or.inr (topContH_hasCont hs h)
end

theorem mayBrkB_false_of_hasBrk {b : List Stmt} (h : hasBrkB b = false) : mayBrkB b = false := by
  cases hm : mayBrkB b with
  | false => rfl
  | true => rw [mayBrkB_hasBrk b hm] at h; cases h

theorem topContB_false_of_hasCont {b : List Stmt} (h : hasContB b = false) : topContB b = false := by
  cases hm : topContB b with
  | false => rfl
  | true => rw [topContB_hasCont b hm] at h; cases h

mutual
theorem jumpFreeS_iff : ∀ (s : Stmt), jumpFreeS s = (!hasBrkS s && !hasContS s && !hasRetS s)
  | .brk => by simp [jumpFreeS, hasBrkS, hasContS, hasRetS]
  | .cont => by simp [jumpFreeS, hasBrkS, hasContS, hasRetS]
  | .ret e => by simp [jumpFreeS, hasBrkS, hasContS, hasRetS]
  | .assign x e => by simp [jumpFreeS, hasBrkS, hasContS, hasRetS]
  | .expr e => by simp [jumpFreeS, hasBrkS, hasContS, hasRetS]
  | .pass => by simp [jumpFreeS, hasBrkS, hasContS, hasRetS]
  | .raise t => by simp [jumpFreeS, hasBrkS, hasContS, hasRetS]
  | .ifS c t e => by
      simp only [jumpFreeS, hasBrkS, hasContS, hasRetS, jumpFreeB_iff t, jumpFreeB_iff e]
      cases hasBrkB t <;> cases hasContB t <;> cases hasRetB t <;> cases hasBrkB e <;> cases hasContB e <;>
        cases hasRetB e <;> rfl
  | .whileS c b => by simp only [jumpFreeS, hasBrkS, hasContS, hasRetS, jumpFreeB_iff b]
  | .forS x it ex b => by simp only [jumpFreeS, hasBrkS, hasContS, hasRetS, jumpFreeB_iff b]
  | .tryS b hs f => by
      simp only [jumpFreeS, hasBrkS, hasContS, hasRetS, jumpFreeB_iff b, jumpFreeH_iff hs, jumpFreeB_iff f]
      cases hasBrkB b <;> cases hasContB b <;> cases hasRetB b <;> cases hasBrkH hs <;> cases hasContH hs <;>
        cases hasRetH hs <;> cases hasBrkB f <;> cases hasContB f <;> cases hasRetB f <;> rfl
  | .withS t b => by simp only [jumpFreeS, hasBrkS, hasContS, hasRetS, jumpFreeB_iff b]
theorem jumpFreeB_iff : ∀ (b : List Stmt), jumpFreeB b = (!hasBrkB b && !hasContB b && !hasRetB b)
  | [] => by simp [jumpFreeB, hasBrkB, hasContB, hasRetB]
  | s :: rest => by
      simp only [jumpFreeB, hasBrkB, hasContB, hasRetB, jumpFreeS_iff s, jumpFreeB_iff rest]
      cases hasBrkS s <;> cases hasContS s <;> cases hasRetS s <;> cases hasBrkB rest <;> cases hasContB rest <;>
        cases hasRetB rest <;> rfl
theorem jumpFreeH_iff : ∀ (hs : List (Nat × List Stmt)), jumpFreeH hs = (!hasBrkH hs && !hasContH hs && !hasRetH hs)
  | [] => by simp [jumpFreeH, hasBrkH, hasContH, hasRetH]
  | (t, b) :: hs => by
      simp only [jumpFreeH, hasBrkH, hasContH, hasRetH, jumpFreeB_iff b, jumpFreeH_iff hs]
      cases hasBrkB b <;> cases hasContB b <;> cases hasRetB b <;> cases hasBrkH hs <;> cases hasContH hs <;>
        cases hasRetH hs <;> rfl
end

/-! ### append lemmas for the conjunctive predicates -/

theorem inS0B_append : ∀ (a b : List Stmt), inS0B (a ++ b) = (inS0B a && inS0B b)
  | [], b => by simp [inS0B]
  | s :: a, b => by simp [inS0B, inS0B_append a b, Bool.and_assoc]

theorem finOKB_append : ∀ (a b : List Stmt), finOKB (a ++ b) = (finOKB a && finOKB b)
  | [], b => by simp [finOKB]
  | s :: a, b => by simp [finOKB, finOKB_append a b, Bool.and_assoc]

theorem CleanB_append (G : Name → Prop) : ∀ (a b : List Stmt), CleanB G (a ++ b) ↔ (CleanB G a ∧ CleanB G b)
  | [], b => by simp [CleanB]
  | s :: a, b => by simp [CleanB, CleanB_append G a b, and_assoc]

/-! ### jump-freeness, escape-freeness and quietness of the outputs -/

section
variable (gen : Gen) (cur : Name)

theorem brkB_jumpFreeOut (p : List Nat) (b : List Stmt) (h : jumpFreeB b = true) :
    jumpFreeB (brkB gen cur p b).1 = true := by
  rw [jumpFreeB_iff] at h ⊢
  rw [brkB_noBrk, brkB_hasCont, brkB_hasRet]
  simp only [Bool.and_eq_true, Bool.not_eq_true'] at h
  simp [h.1.1, h.1.2, h.2]

theorem brkH_jumpFreeOut (p : List Nat) (hs : List (Nat × List Stmt)) (h : jumpFreeH hs = true) :
    jumpFreeH (brkH gen cur p hs).1 = true := by
  rw [jumpFreeH_iff] at h ⊢
  rw [brkH_noBrk, brkH_hasCont, brkH_hasRet]
  simp only [Bool.and_eq_true, Bool.not_eq_true'] at h
  simp [h.1.1, h.1.2, h.2]

theorem brkB_escFree (p : List Nat) (b : List Stmt) (h : escFreeB b = true) :
    escFreeB (brkB gen cur p b).1 = true := by
  simp only [escFreeB, Bool.and_eq_true, Bool.not_eq_true'] at h ⊢
  rw [mayBrkB_false_of_hasBrk (brkB_noBrk gen cur p b), brkB_topCont, brkB_hasRet]
  simp [h.1.1, h.1.2, h.2]

theorem brkB_quiet (p : List Nat) (b : List Stmt) (h : quietB b = true) :
    quietB (brkB gen cur p b).1 = true := by
  simp only [quietB, Bool.and_eq_true, Bool.not_eq_true'] at h ⊢
  exact ⟨brkB_escFree gen cur p b h.1, by rw [brkB_hasRaise]; exact h.2⟩

theorem cntB_jumpFreeOut (p : List Nat) (g : Bool) (b : List Stmt) (h : jumpFreeB b = true) :
    jumpFreeB (cntB gen cur p g b).1 = true := by
  rw [jumpFreeB_iff] at h ⊢
  rw [cntB_hasBrk, cntB_noCont, cntB_hasRet]
  simp only [Bool.and_eq_true, Bool.not_eq_true'] at h
  simp [h.1.1, h.2]

theorem cntH_jumpFreeOut (p : List Nat) (hs : List (Nat × List Stmt)) (h : jumpFreeH hs = true) :
    jumpFreeH (cntH gen cur p hs).1 = true := by
  rw [jumpFreeH_iff] at h ⊢
  rw [cntH_hasBrk, cntH_noCont, cntH_hasRet]
  simp only [Bool.and_eq_true, Bool.not_eq_true'] at h
  simp [h.1.1, h.2]

theorem cntB_escFree (p : List Nat) (g : Bool) (b : List Stmt) (h : escFreeB b = true) :
    escFreeB (cntB gen cur p g b).1 = true := by
  simp only [escFreeB, Bool.and_eq_true, Bool.not_eq_true'] at h ⊢
  rw [cntB_mayBrk, topContB_false_of_hasCont (cntB_noCont gen cur p g b), cntB_hasRet]
  simp [h.1.1, h.2]

theorem cntB_quiet (p : List Nat) (g : Bool) (b : List Stmt) (h : quietB b = true) :
    quietB (cntB gen cur p g b).1 = true := by
  simp only [quietB, Bool.and_eq_true, Bool.not_eq_true'] at h ⊢
  exact ⟨cntB_escFree gen cur p g b h.1, by rw [cntB_hasRaise]; exact h.2⟩

end

/-! ### S0 is preserved -/

mutual
theorem brkS_inS0 (gen : Gen) (cur : Name) : ∀ (p : List Nat) (s : Stmt), inS0S s = true →
    inS0B (brkS gen cur p s).1 = true
  | p, .brk, _ => by simp [brkS, inS0B, inS0S]
  | p, .cont, _ => by simp [brkS, inS0B, inS0S]
  | p, .ret e, _ => by simp [brkS, inS0B, inS0S]
  | p, .assign x e, _ => by simp [brkS, inS0B, inS0S]
  | p, .expr e, _ => by simp [brkS, inS0B, inS0S]
  | p, .pass, _ => by simp [brkS, inS0B, inS0S]
  | p, .raise t, _ => by simp [brkS, inS0B, inS0S]
  | p, .ifS c t e, h => by
      simp only [inS0S, Bool.and_eq_true] at h
      simp [brkS, inS0B, inS0S, brkB_inS0 gen cur (0 :: p) t h.1, brkB_inS0 gen cur (1 :: p) e h.2]
  | p, .whileS c b, h => by
      simp only [inS0S] at h
      simp only [brkS]
      split <;> simp [inS0B, inS0S, brkB_inS0 gen (gen p) p b h]
  | p, .forS x it ex b, h => by
      simp only [inS0S] at h
      simp only [brkS]
      split <;> simp [inS0B, inS0S, brkB_inS0 gen (gen p) p b h]
  | p, .tryS b hs f, h => by simp [inS0S] at h
  | p, .withS t b, h => by simp [inS0S] at h
theorem brkB_inS0 (gen : Gen) (cur : Name) : ∀ (p : List Nat) (b : List Stmt), inS0B b = true →
    inS0B (brkB gen cur p b).1 = true
  | p, [], _ => by simp [brkB, inS0B]
  | p, s :: rest, h => by
      simp only [inS0B, Bool.and_eq_true] at h
      simp [brkB, inS0B_append, brkS_inS0 gen cur (rest.length :: p) s h.1, brkB_inS0 gen cur p rest h.2]
end

mutual
theorem cntS_inS0 (gen : Gen) (cur : Name) : ∀ (p : List Nat) (s : Stmt), inS0S s = true →
    inS0B (cntS gen cur p s).1 = true
  | p, .brk, _ => by simp [cntS, inS0B, inS0S]
  | p, .cont, _ => by simp [cntS, inS0B, inS0S]
  | p, .ret e, _ => by simp [cntS, inS0B, inS0S]
  | p, .assign x e, _ => by simp [cntS, inS0B, inS0S]
  | p, .expr e, _ => by simp [cntS, inS0B, inS0S]
  | p, .pass, _ => by simp [cntS, inS0B, inS0S]
  | p, .raise t, _ => by simp [cntS, inS0B, inS0S]
  | p, .ifS c t e, h => by
      simp only [inS0S, Bool.and_eq_true] at h
      simp [cntS, inS0B, inS0S, cntB_inS0 gen cur (0 :: p) false t h.1, cntB_inS0 gen cur (1 :: p) false e h.2]
  | p, .whileS c b, h => by
      simp only [inS0S] at h
      simp only [cntS, inS0B, inS0S]
      split <;> simp [inS0B, inS0S, cntB_inS0 gen (gen p) p false b h]
  | p, .forS x it ex b, h => by
      simp only [inS0S] at h
      simp only [cntS, inS0B, inS0S]
      split <;> simp [inS0B, inS0S, cntB_inS0 gen (gen p) p false b h]
  | p, .tryS b hs f, h => by simp [inS0S] at h
  | p, .withS t b, h => by simp [inS0S] at h
theorem cntB_inS0 (gen : Gen) (cur : Name) : ∀ (p : List Nat) (g : Bool) (b : List Stmt), inS0B b = true →
    inS0B (cntB gen cur p g b).1 = true
  | p, g, [], _ => by simp [cntB, inS0B]
  | p, g, s :: rest, h => by
      simp only [inS0B, Bool.and_eq_true] at h
      have h1 := cntS_inS0 gen cur (rest.length :: p) s h.1
      have h2 := cntB_inS0 gen cur p (cntS gen cur (rest.length :: p) s).2 rest h.2
      simp only [cntB]
      split <;> simp [inS0B, inS0S, ifNot, inS0B_append, h1, h2]
end

mutual
theorem retS_inS0 (dr rv : Name) : ∀ (u : Bool) (s : Stmt), inS0S s = true → inS0B (retS dr rv u s).1 = true
  | u, .brk, _ => by simp [retS, inS0B, inS0S]
  | u, .cont, _ => by simp [retS, inS0B, inS0S]
  | u, .ret e, _ => by simp [retS, inS0B, inS0S]
  | u, .assign x e, _ => by simp [retS, inS0B, inS0S]
  | u, .expr e, _ => by simp [retS, inS0B, inS0S]
  | u, .pass, _ => by simp [retS, inS0B, inS0S]
  | u, .raise t, _ => by simp [retS, inS0B, inS0S]
  | u, .ifS c t e, h => by
      simp only [inS0S, Bool.and_eq_true] at h
      simp [retS, inS0B, inS0S, retB_inS0 dr rv false false t h.1, retB_inS0 dr rv false false e h.2]
  | u, .whileS c b, h => by
      simp only [inS0S] at h
      simp [retS, inS0B, inS0S, retB_inS0 dr rv false false b h]
  | u, .forS x it ex b, h => by
      simp only [inS0S] at h
      simp [retS, inS0B, inS0S, retB_inS0 dr rv false false b h]
  | u, .tryS b hs f, h => by simp [inS0S] at h
  | u, .withS t b, h => by simp [inS0S] at h
theorem retB_inS0 (dr rv : Name) : ∀ (g u : Bool) (b : List Stmt), inS0B b = true →
    inS0B (retB dr rv g u b).1 = true
  | g, u, [], _ => by simp [retB, inS0B]
  | g, u, s :: rest, h => by
      simp only [inS0B, Bool.and_eq_true] at h
      have h1 := retS_inS0 dr rv u s h.1
      have h2 := retB_inS0 dr rv (retS dr rv u s).2 (u || (retS dr rv u s).2) rest h.2
      simp only [retB]
      split <;> simp [inS0B, inS0S, ifNot, inS0B_append, h1, h2]
end

theorem lowerReturn_inS0 (dr rv : Name) (b : Block) (h : inS0B b = true) : inS0B (lowerReturn dr rv b) = true := by
  have := retB_inS0 dr rv false false b h
  simp only [lowerReturn]
  split <;> simp [inS0B, inS0S, inS0B_append, this]

/-! ### freshness for the next pass: the output mentions, besides the names of the input, only this pass's flags -/

section
variable (G : Name → Prop) (gen : Gen) (hgen : ∀ q, ¬ G (gen q))
include hgen

mutual
theorem brkS_clean : ∀ (cur : Name) (p : List Nat) (s : Stmt), ¬ G cur → CleanS G s →
    CleanB G (brkS gen cur p s).1
  | cur, p, .brk, hc, _ => by simp [brkS, CleanB, CleanS, CleanE, cTrue, hc]
  | cur, p, .cont, _, _ => by simp [brkS, CleanB, CleanS]
  | cur, p, .ret e, _, h => by simpa [brkS, CleanB] using h
  | cur, p, .assign x e, _, h => by simpa [brkS, CleanB] using h
  | cur, p, .expr e, _, h => by simpa [brkS, CleanB] using h
  | cur, p, .pass, _, _ => by simp [brkS, CleanB, CleanS]
  | cur, p, .raise t, _, _ => by simp [brkS, CleanB, CleanS]
  | cur, p, .ifS c t e, hc, h => by
      simp only [CleanS] at h
      simp only [brkS, CleanB, CleanS, and_true]
      exact ⟨h.1, brkB_clean cur (0 :: p) t hc h.2.1, brkB_clean cur (1 :: p) e hc h.2.2⟩
  | cur, p, .whileS c b, hc, h => by
      simp only [CleanS] at h
      have hb := brkB_clean (gen p) p b (hgen p) h.2
      simp only [brkS]
      split <;> simp [CleanB, CleanS, CleanE, guardE, cFalse, hgen p, h.1, hb]
  | cur, p, .forS x it ex b, hc, h => by
      simp only [CleanS] at h
      have hb := brkB_clean (gen p) p b (hgen p) h.2.2.2
      simp only [brkS]
      split
      · simp [CleanB, CleanS, CleanE, CleanO, cFalse, hgen p, h.1, h.2.1, hb]
      · simp [CleanB, CleanS, h.1, h.2.1, h.2.2.1, hb]
  | cur, p, .tryS b hs f, hc, h => by
      simp only [CleanS] at h
      simp only [brkS, CleanB, CleanS, and_true]
      exact ⟨brkB_clean cur (0 :: p) b hc h.1, brkH_clean cur (1 :: p) hs hc h.2.1, brkB_clean cur (2 :: p) f hc h.2.2⟩
  | cur, p, .withS t b, hc, h => by
      simp only [CleanS] at h
      simp only [brkS, CleanB, CleanS, and_true]
      exact brkB_clean cur (0 :: p) b hc h
theorem brkB_clean : ∀ (cur : Name) (p : List Nat) (b : List Stmt), ¬ G cur → CleanB G b →
    CleanB G (brkB gen cur p b).1
  | cur, p, [], _, _ => by simp [brkB, CleanB]
  | cur, p, s :: rest, hc, h => by
      simp only [CleanB] at h
      simp only [brkB, CleanB_append]
      exact ⟨brkS_clean cur (rest.length :: p) s hc h.1, brkB_clean cur p rest hc h.2⟩
theorem brkH_clean : ∀ (cur : Name) (p : List Nat) (hs : List (Nat × List Stmt)), ¬ G cur → CleanH G hs →
    CleanH G (brkH gen cur p hs).1
  | cur, p, [], _, _ => by simp [brkH, CleanH]
  | cur, p, (t, b) :: hs, hc, h => by
      simp only [CleanH] at h
      simp only [brkH, CleanH]
      exact ⟨brkB_clean cur (hs.length :: p) b hc h.1, brkH_clean cur p hs hc h.2⟩
end

mutual
theorem cntS_clean : ∀ (cur : Name) (p : List Nat) (s : Stmt), ¬ G cur → CleanS G s →
    CleanB G (cntS gen cur p s).1
  | cur, p, .cont, hc, _ => by simp [cntS, CleanB, CleanS, CleanE, cTrue, hc]
  | cur, p, .brk, _, _ => by simp [cntS, CleanB, CleanS]
  | cur, p, .ret e, _, h => by simpa [cntS, CleanB] using h
  | cur, p, .assign x e, _, h => by simpa [cntS, CleanB] using h
  | cur, p, .expr e, _, h => by simpa [cntS, CleanB] using h
  | cur, p, .pass, _, _ => by simp [cntS, CleanB, CleanS]
  | cur, p, .raise t, _, _ => by simp [cntS, CleanB, CleanS]
  | cur, p, .ifS c t e, hc, h => by
      simp only [CleanS] at h
      simp only [cntS, CleanB, CleanS, and_true]
      exact ⟨h.1, cntB_clean cur (0 :: p) false t hc h.2.1, cntB_clean cur (1 :: p) false e hc h.2.2⟩
  | cur, p, .whileS c b, hc, h => by
      simp only [CleanS] at h
      have hb := cntB_clean (gen p) p false b (hgen p) h.2
      simp only [cntS, CleanB, CleanS, and_true]
      refine ⟨h.1, ?_⟩
      split <;> simp [CleanB, CleanS, CleanE, cFalse, hgen p, hb]
  | cur, p, .forS x it ex b, hc, h => by
      simp only [CleanS] at h
      have hb := cntB_clean (gen p) p false b (hgen p) h.2.2.2
      simp only [cntS, CleanB, CleanS, and_true]
      refine ⟨h.1, h.2.1, h.2.2.1, ?_⟩
      split <;> simp [CleanB, CleanS, CleanE, cFalse, hgen p, hb]
  | cur, p, .tryS b hs f, hc, h => by
      simp only [CleanS] at h
      simp only [cntS, CleanB, CleanS, and_true]
      exact ⟨cntB_clean cur (0 :: p) false b hc h.1, cntH_clean cur (1 :: p) hs hc h.2.1,
        cntB_clean cur (2 :: p) false f hc h.2.2⟩
  | cur, p, .withS t b, hc, h => by
      simp only [CleanS] at h
      simp only [cntS, CleanB, CleanS, and_true]
      exact cntB_clean cur (0 :: p) false b hc h
theorem cntB_clean : ∀ (cur : Name) (p : List Nat) (g : Bool) (b : List Stmt), ¬ G cur → CleanB G b →
    CleanB G (cntB gen cur p g b).1
  | cur, p, g, [], _, _ => by simp [cntB, CleanB]
  | cur, p, g, s :: rest, hc, h => by
      simp only [CleanB] at h
      have h1 := cntS_clean cur (rest.length :: p) s hc h.1
      have h2 := cntB_clean cur p (cntS gen cur (rest.length :: p) s).2 rest hc h.2
      simp only [cntB]
      split
      · simp only [CleanB, ifNot, CleanS, CleanE, CleanB_append, and_true]
        exact ⟨hc, h1, h2⟩
      · simp only [CleanB_append]; exact ⟨h1, h2⟩
theorem cntH_clean : ∀ (cur : Name) (p : List Nat) (hs : List (Nat × List Stmt)), ¬ G cur → CleanH G hs →
    CleanH G (cntH gen cur p hs).1
  | cur, p, [], _, _ => by simp [cntH, CleanH]
  | cur, p, (t, b) :: hs, hc, h => by
      simp only [CleanH] at h
      simp only [cntH, CleanH]
      exact ⟨cntB_clean cur (hs.length :: p) false b hc h.1, cntH_clean cur p hs hc h.2⟩
end

end

/-! ### the fragment S1 is preserved -/

mutual
theorem brkS_finOK (gen : Gen) (cur : Name) : ∀ (p : List Nat) (s : Stmt), finOKS s = true →
    finOKB (brkS gen cur p s).1 = true
  | p, .brk, _ => by simp [brkS, finOKB, finOKS]
  | p, .cont, _ => by simp [brkS, finOKB, finOKS]
  | p, .ret e, _ => by simp [brkS, finOKB, finOKS]
  | p, .assign x e, _ => by simp [brkS, finOKB, finOKS]
  | p, .expr e, _ => by simp [brkS, finOKB, finOKS]
  | p, .pass, _ => by simp [brkS, finOKB, finOKS]
  | p, .raise t, _ => by simp [brkS, finOKB, finOKS]
  | p, .ifS c t e, h => by
      simp only [finOKS, Bool.and_eq_true] at h
      simp [brkS, finOKB, finOKS, brkB_finOK gen cur (0 :: p) t h.1, brkB_finOK gen cur (1 :: p) e h.2]
  | p, .whileS c b, h => by
      simp only [finOKS] at h
      simp only [brkS]
      split <;> simp [finOKB, finOKS, brkB_finOK gen (gen p) p b h]
  | p, .forS x it ex b, h => by
      simp only [finOKS] at h
      simp only [brkS]
      split <;> simp [finOKB, finOKS, brkB_finOK gen (gen p) p b h]
  | p, .tryS b hs f, h => by
      simp only [finOKS, Bool.and_eq_true, Bool.or_eq_true] at h
      obtain ⟨⟨⟨⟨hb, hh⟩, hf⟩, hesc⟩, hq⟩ := h
      simp only [brkS, finOKB, finOKS, Bool.and_eq_true, Bool.or_eq_true, and_true]
      refine ⟨⟨⟨⟨brkB_finOK gen cur (0 :: p) b hb, brkH_finOK gen cur (1 :: p) hs hh⟩,
        brkB_finOK gen cur (2 :: p) f hf⟩, brkB_escFree gen cur _ f hesc⟩, ?_⟩
      rcases hq with hq | hq
      · exact Or.inl (brkB_quiet gen cur _ f hq)
      · exact Or.inr ⟨brkB_jumpFreeOut gen cur _ b hq.1, brkH_jumpFreeOut gen cur _ hs hq.2⟩
  | p, .withS t b, h => by
      simp only [finOKS] at h
      simp [brkS, finOKB, finOKS, brkB_finOK gen cur (0 :: p) b h]
theorem brkB_finOK (gen : Gen) (cur : Name) : ∀ (p : List Nat) (b : List Stmt), finOKB b = true →
    finOKB (brkB gen cur p b).1 = true
  | p, [], _ => by simp [brkB, finOKB]
  | p, s :: rest, h => by
      simp only [finOKB, Bool.and_eq_true] at h
      simp [brkB, finOKB_append, brkS_finOK gen cur (rest.length :: p) s h.1, brkB_finOK gen cur p rest h.2]
theorem brkH_finOK (gen : Gen) (cur : Name) : ∀ (p : List Nat) (hs : List (Nat × List Stmt)), finOKH hs = true →
    finOKH (brkH gen cur p hs).1 = true
  | p, [], _ => by simp [brkH, finOKH]
  | p, (t, b) :: hs, h => by
      simp only [finOKH, Bool.and_eq_true] at h
      simp [brkH, finOKH, brkB_finOK gen cur (hs.length :: p) b h.1, brkH_finOK gen cur p hs h.2]
end

mutual
theorem cntS_finOK (gen : Gen) (cur : Name) : ∀ (p : List Nat) (s : Stmt), finOKS s = true →
    finOKB (cntS gen cur p s).1 = true
  | p, .brk, _ => by simp [cntS, finOKB, finOKS]
  | p, .cont, _ => by simp [cntS, finOKB, finOKS]
  | p, .ret e, _ => by simp [cntS, finOKB, finOKS]
  | p, .assign x e, _ => by simp [cntS, finOKB, finOKS]
  | p, .expr e, _ => by simp [cntS, finOKB, finOKS]
  | p, .pass, _ => by simp [cntS, finOKB, finOKS]
  | p, .raise t, _ => by simp [cntS, finOKB, finOKS]
  | p, .ifS c t e, h => by
      simp only [finOKS, Bool.and_eq_true] at h
      simp [cntS, finOKB, finOKS, cntB_finOK gen cur (0 :: p) false t h.1, cntB_finOK gen cur (1 :: p) false e h.2]
  | p, .whileS c b, h => by
      simp only [finOKS] at h
      simp only [cntS, finOKB, finOKS]
      split <;> simp [finOKB, finOKS, cntB_finOK gen (gen p) p false b h]
  | p, .forS x it ex b, h => by
      simp only [finOKS] at h
      simp only [cntS, finOKB, finOKS]
      split <;> simp [finOKB, finOKS, cntB_finOK gen (gen p) p false b h]
  | p, .tryS b hs f, h => by
      simp only [finOKS, Bool.and_eq_true, Bool.or_eq_true] at h
      obtain ⟨⟨⟨⟨hb, hh⟩, hf⟩, hesc⟩, hq⟩ := h
      simp only [cntS, finOKB, finOKS, Bool.and_eq_true, Bool.or_eq_true, and_true]
      refine ⟨⟨⟨⟨cntB_finOK gen cur (0 :: p) false b hb, cntH_finOK gen cur (1 :: p) hs hh⟩,
        cntB_finOK gen cur (2 :: p) false f hf⟩, cntB_escFree gen cur _ _ f hesc⟩, ?_⟩
      rcases hq with hq | hq
      · exact Or.inl (cntB_quiet gen cur _ _ f hq)
      · exact Or.inr ⟨cntB_jumpFreeOut gen cur _ _ b hq.1, cntH_jumpFreeOut gen cur _ hs hq.2⟩
  | p, .withS t b, h => by
      simp only [finOKS] at h
      simp [cntS, finOKB, finOKS, cntB_finOK gen cur (0 :: p) false b h]
theorem cntB_finOK (gen : Gen) (cur : Name) : ∀ (p : List Nat) (g : Bool) (b : List Stmt), finOKB b = true →
    finOKB (cntB gen cur p g b).1 = true
  | p, g, [], _ => by simp [cntB, finOKB]
  | p, g, s :: rest, h => by
      simp only [finOKB, Bool.and_eq_true] at h
      have h1 := cntS_finOK gen cur (rest.length :: p) s h.1
      have h2 := cntB_finOK gen cur p (cntS gen cur (rest.length :: p) s).2 rest h.2
      simp only [cntB]
      split <;> simp [finOKB, finOKS, ifNot, finOKB_append, h1, h2]
theorem cntH_finOK (gen : Gen) (cur : Name) : ∀ (p : List Nat) (hs : List (Nat × List Stmt)), finOKH hs = true →
    finOKH (cntH gen cur p hs).1 = true
  | p, [], _ => by simp [cntH, finOKH]
  | p, (t, b) :: hs, h => by
      simp only [finOKH, Bool.and_eq_true] at h
      simp [cntH, finOKH, cntB_finOK gen cur (hs.length :: p) false b h.1, cntH_finOK gen cur p hs h.2]
end

end Malt.Sem.Jumps
