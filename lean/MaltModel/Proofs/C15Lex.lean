import MaltModel.Rt.Lex
/-
Helper lemmas for the lexer theorems of Props/C15.lean: the automaton `Lex.step` and the textual
`_unfold_continuations`.
-/
set_option linter.constructorNameAsVariable false
namespace Malt.Lex
open Malt.Dedent

theorem step_c0_bs : step .c0 '\\' = .cbs := by simp [step, stepCode]
theorem step_cbs_nl : step .cbs '\n' = .c0 := by simp [step]

theorem unfold_pair (r : Str) : unfold ('\\' :: '\n' :: r) = unfold r := by simp [unfold]

theorem unfold_nopair (c d : Char) (r : Str) (h : ¬ (c = '\\' ∧ d = '\n')) :
    unfold (c :: d :: r) = c :: unfold (d :: r) := by simp [unfold, h]

/-- under the fragment predicate the run of the automaton on the unfolded text is the run on the original text
minus the continuation characters: every remaining character is read in the same mode as before -/
theorem trace_unfold : ∀ (s : Str) (m : Mode), contsInCode m s = true →
    trace m (unfold s) = dropConts (trace m s) ∧ final m (unfold s) = final m s
  | [], _, _ => by simp [unfold, trace, dropConts, final]
  | [c], _, _ => by simp [unfold, trace, dropConts, final]
  | c :: d :: r, m, h => by
    by_cases hp : c = '\\' ∧ d = '\n'
    · obtain ⟨hc, hd⟩ := hp
      subst hc; subst hd
      simp only [contsInCode, and_self, if_true, Bool.and_eq_true, decide_eq_true_eq] at h
      obtain ⟨hm, hr⟩ := h
      subst hm
      have ih := trace_unfold r .c0 hr
      rw [unfold_pair]
      simp only [trace, final, step_c0_bs, step_cbs_nl, dropConts, and_self, if_true]
      exact ih
    · simp only [contsInCode, hp, if_false] at h
      have ih := trace_unfold (d :: r) (step m c) h
      rw [unfold_nopair c d r hp]
      simp only [trace, final, dropConts, hp, if_false] at ih ⊢
      exact ⟨by rw [ih.1], ih.2⟩

theorem unfold_eq_spec : ∀ (s : Str) (m : Mode), contsInCode m s = true → unfold s = specUnfold m s
  | [], _, _ => by simp [unfold, specUnfold]
  | [c], _, _ => by simp [unfold, specUnfold]
  | c :: d :: r, m, h => by
    by_cases hp : c = '\\' ∧ d = '\n'
    · obtain ⟨hc, hd⟩ := hp
      subst hc; subst hd
      simp only [contsInCode, and_self, if_true, Bool.and_eq_true, decide_eq_true_eq] at h
      obtain ⟨hm, hr⟩ := h
      subst hm
      rw [unfold_pair]
      simp only [specUnfold, and_self, if_true]
      exact unfold_eq_spec r .c0 hr
    · simp only [contsInCode, hp, if_false] at h
      rw [unfold_nopair c d r hp]
      have hp' : ¬ (m = .c0 ∧ c = '\\' ∧ d = '\n') := fun hh => hp hh.2
      simp only [specUnfold, hp', if_false]
      rw [unfold_eq_spec (d :: r) (step m c) h]

theorem unfold_length : ∀ (s : Str), (unfold s).length + 2 * countBs s = s.length
  | [] => by simp [unfold, countBs]
  | [c] => by simp [unfold, countBs]
  | c :: d :: r => by
    by_cases hp : c = '\\' ∧ d = '\n'
    · have ih := unfold_length r
      simp only [unfold, hp, and_self, if_true, countBs, List.length_cons]
      omega
    · have ih := unfold_length (d :: r)
      simp only [unfold, hp, if_false, countBs, List.length_cons] at ih ⊢
      omega

theorem specUnfold_length : ∀ (s : Str) (m : Mode), (specUnfold m s).length + 2 * countCont m s = s.length
  | [], _ => by simp [specUnfold, countCont]
  | [c], _ => by simp [specUnfold, countCont]
  | c :: d :: r, m => by
    by_cases hp : m = .c0 ∧ c = '\\' ∧ d = '\n'
    · have ih := specUnfold_length r .c0
      simp only [specUnfold, hp, and_self, if_true, countCont, List.length_cons]
      omega
    · have ih := specUnfold_length (d :: r) (step m c)
      simp only [specUnfold, hp, if_false, countCont, List.length_cons] at ih ⊢
      omega

theorem countBs_cons_ne (d : Char) (r : Str) (h : d ≠ '\\') : countBs (d :: r) = countBs r := by
  cases r with
  | nil => simp [countBs]
  | cons e r' => simp [countBs, h]

theorem countCont_cons_ne (m : Mode) (d : Char) (r : Str) (h : d ≠ '\\') :
    countCont m (d :: r) = countCont (step m d) r := by
  cases r with
  | nil => simp [countCont]
  | cons e r' => simp [countCont, h]

theorem countCont_le : ∀ (s : Str) (m : Mode), countCont m s ≤ countBs s
  | [], _ => by simp [countCont, countBs]
  | [c], _ => by simp [countCont, countBs]
  | c :: d :: r, m => by
    by_cases hp : c = '\\' ∧ d = '\n'
    · obtain ⟨hc, hd⟩ := hp
      subst hc; subst hd
      by_cases hm : m = .c0
      · have ih := countCont_le r .c0
        simp only [countCont, countBs, hm, and_self, if_true]
        omega
      · have ih := countCont_le r (step (step m '\\') '\n')
        have hne : ('\n' : Char) ≠ '\\' := by decide
        simp only [countCont, countBs, hm, false_and, and_self, if_false, if_true]
        rw [countCont_cons_ne _ _ _ hne]
        omega
    · have ih := countCont_le (d :: r) (step m c)
      have hp' : ¬ (m = .c0 ∧ c = '\\' ∧ d = '\n') := fun hh => hp hh.2
      simp only [countCont, countBs, hp, and_false, if_false]
      exact ih

/-- the automaton recognises all textual backslash-newline pairs only if each is read in plain code -/
theorem contsInCode_of_count : ∀ (s : Str) (m : Mode), countCont m s = countBs s → contsInCode m s = true
  | [], _, _ => by simp [contsInCode]
  | [c], _, _ => by simp [contsInCode]
  | c :: d :: r, m, h => by
    by_cases hp : c = '\\' ∧ d = '\n'
    · obtain ⟨hc, hd⟩ := hp
      subst hc; subst hd
      by_cases hm : m = .c0
      · simp only [countCont, countBs, hm, and_self, if_true] at h
        simp only [contsInCode, and_self, if_true, hm, decide_true, Bool.true_and]
        exact contsInCode_of_count r .c0 (by omega)
      · exfalso
        have hle := countCont_le r (step (step m '\\') '\n')
        have hne : ('\n' : Char) ≠ '\\' := by decide
        simp only [countCont, countBs, hm, false_and, and_self, if_false, if_true] at h
        rw [countCont_cons_ne _ _ _ hne] at h
        omega
    · have hp' : ¬ (m = .c0 ∧ c = '\\' ∧ d = '\n') := fun hh => hp hh.2
      simp only [countCont, countBs, hp, and_false, if_false] at h
      simp only [contsInCode, hp, if_false]
      exact contsInCode_of_count (d :: r) (step m c) h

end Malt.Lex
