import MaltModel.Proofs.C18Quiet
import Std.Data.String.ToNat
/- C18: the invariant of statement visits (A-normal form of the output, numbering of temporaries). -/
set_option linter.unusedSimpArgs false
namespace Malt.Anf
open Malt.Py

/-! ### names of temporaries -/
theorem tmpName_toList (k : Nat) : (tmpName k).toList = 't' :: 'm' :: 'p' :: '_' :: (Nat.repr (1001 + k)).toList := by
  simp [tmpName, String.toList_append]

theorem isTempName_tmpName (k : Nat) : isTempName (tmpName k) = true := by
  unfold isTempName
  rw [tmpName_toList]
  simp only [String.ofList_toList, Nat.toNat?_repr]
  simp

theorem tmpName_inj {a b : Nat} (h : tmpName a = tmpName b) : a = b := by
  have := congrArg String.toList h
  rw [tmpName_toList, tmpName_toList] at this
  simp only [List.cons.injEq, true_and] at this
  have h2 : Nat.repr (1001 + a) = Nat.repr (1001 + b) := String.toList_inj.mp this
  have := Nat.repr_inj.mp h2
  omega

/-- `tmp_(1001+n) … tmp_(1000+n')` -/
def temps (n n' : Nat) : List String := (List.range' n (n' - n)).map tmpName

theorem temps_self (n : Nat) : temps n n = [] := by simp [temps]

theorem temps_append {n m n' : Nat} (h1 : n ≤ m) (h2 : m ≤ n') : temps n m ++ temps m n' = temps n n' := by
  unfold temps
  rw [← List.map_append]
  congr 1
  have : n' - n = (m - n) + (n' - m) := by omega
  rw [this, ← List.range'_append_1]
  congr 2
  omega

theorem temps_nodup (n n' : Nat) : (temps n n').Nodup := by
  unfold temps
  rw [List.nodup_iff_pairwise_ne, List.pairwise_map]
  exact (List.nodup_range' (step := 1)).imp (fun hne h => hne (tmpName_inj h))

/-! ### lists of statements -/
theorem tmpTargetsSs_append : ∀ (a b : List Stmt), tmpTargetsSs (a ++ b) = tmpTargetsSs a ++ tmpTargetsSs b
  | [], b => by simp [tmpTargetsSs]
  | s :: a, b => by simp [tmpTargetsSs, tmpTargetsSs_append a b, List.append_assoc]

theorem AnfSs_append (cfg : Config) : ∀ (a b : List Stmt), AnfSs cfg (a ++ b) ↔ AnfSs cfg a ∧ AnfSs cfg b
  | [], b => by simp [AnfSs]
  | s :: a, b => by simp [AnfSs, AnfSs_append cfg a b, and_assoc]

theorem gen_anf {cfg : Config} {t : Stmt} (h : Gen cfg t) : AnfS cfg t := by
  obtain ⟨k, x, rfl, hq⟩ := h
  exact Or.inr ⟨k, x, rfl, hq⟩

theorem gens_anf {cfg : Config} : ∀ {L : List Stmt}, (∀ t ∈ L, Gen cfg t) → AnfSs cfg L
  | [], _ => trivial
  | t :: L, h => ⟨gen_anf (h t (by simp)), gens_anf (fun u hu => h u (by simp [hu]))⟩

theorem tmpTarget_tmpAssign (k : Nat) (x : Expr) : tmpTargetsS (tmpAssign k x) = [tmpName k] := by
  simp [tmpAssign, tmpTargetsS, tmpTarget, isTempName_tmpName]

theorem hoists_facts {cfg : Config} : ∀ {D : List Stmt} {n n' : Nat}, HoistsOk cfg n D n' →
    (∀ t ∈ D, Gen cfg t) ∧ tmpTargetsSs D = temps n n' ∧ n ≤ n'
  | [], n, n', h => by
      simp only [HoistsOk] at h; subst h
      simp [tmpTargetsSs, temps_self]
  | s :: D, n, n', h => by
      obtain ⟨⟨x, rfl, hq⟩, h2⟩ := h
      have ih := hoists_facts h2
      refine ⟨?_, ?_, by omega⟩
      · intro t ht
        rcases List.mem_cons.mp ht with rfl | ht
        · exact ⟨n, x, rfl, hq⟩
        · exact ih.1 t ht
      · rw [tmpTargetsSs, tmpTarget_tmpAssign, ih.2.1, ← temps_append (Nat.le_succ n) ih.2.2]
        simp [temps]

theorem assert_ok {p : List Stmt} {u : Unit} : assertNoPending p = .ok u ↔ p = [] := by
  unfold assertNoPending
  cases p <;> simp

/-! ### a visited single `Name` target is the original one -/
theorem visitE_name_inv {cfg : Config} {e : Expr} {n : Nat} {j : Nat} {s : String} {c : Ctx} {D : List Stmt} {n' : Nat}
    (h : visitE cfg e n = .ok (.name j s c, D, n')) : e = .name j s c := by
  have inv := visitE_inv cfg e n _ D n' h
  have hn := inv.isName
  cases e <;> simp [isNameE] at hn
  simp [visitE, pure, Except.pure] at h
  obtain ⟨⟨rfl, rfl, rfl⟩, -, -⟩ := h
  rfl

theorem visitEs_single_name {cfg : Config} {ts : List Expr} {n : Nat} {j : Nat} {s : String} {c : Ctx} {D : List Stmt}
    {n' : Nat} (h : visitEs cfg ts n = .ok ([.name j s c], D, n')) : ts = [.name j s c] := by
  cases ts with
  | nil => simp [visitEs, pure, Except.pure] at h
  | cons t rest =>
    simp only [visitEs, bind_ok, Prod.exists, pure, Except.pure, Except.ok.injEq, Prod.mk.injEq, List.cons.injEq] at h
    obtain ⟨t1, d1, n1, ht, r1, d2, n2, hr, ⟨rfl, rfl⟩, -, -⟩ := h
    have := visitE_name_inv ht
    subst this
    cases rest with
    | nil => rfl
    | cons r rs =>
      simp only [visitEs, bind_ok, Prod.exists, pure, Except.pure, Except.ok.injEq, Prod.mk.injEq] at hr
      obtain ⟨_, _, _, _, _, _, _, _, h3, -, -⟩ := hr
      simp at h3

theorem tmpTarget_visited_assign {cfg : Config} {ts ts1 : List Expr} {n n1 : Nat} {D : List Stmt} (i : Nat) (v : Expr)
    (h : visitEs cfg ts n = .ok (ts1, D, n1)) (hn : ∀ x ∈ namesEs ts, isTempName x = false) :
    tmpTargetsS (.assign i ts1 v) = [] := by
  simp only [tmpTargetsS]
  unfold tmpTarget
  split
  · next i2 j s v2 hts =>
    simp only [Stmt.assign.injEq] at hts
    obtain ⟨-, rfl, -⟩ := hts
    have := visitEs_single_name h
    subst this
    have := hn s (by simp [namesEs, namesE])
    simp [this]
  · rfl

end Malt.Anf

namespace Malt.Anf
open Malt.Py

/-- What every successful statement visit guarantees (`names`: the identifiers of the visited code). -/
structure SInv (cfg : Config) (names : List String) (n : Nat) (pend ss : List Stmt) (n' : Nat) (pend' : List Stmt) : Prop where
  le : n ≤ n'
  anf : (∀ t ∈ pend, Gen cfg t) → AnfSs cfg ss ∧ (∀ t ∈ pend', Gen cfg t)
  temps : (∀ x ∈ names, isTempName x = false) → tmpTargetsSs ss ++ tmpTargetsSs pend' = tmpTargetsSs pend ++ temps n n'

theorem SInv.mono {cfg : Config} {names names' : List String} {n pend ss n' pend'}
    (h : SInv cfg names' n pend ss n' pend') (hsub : ∀ x ∈ names', x ∈ names) : SInv cfg names n pend ss n' pend' :=
  ⟨h.le, h.anf, fun hn => h.temps (fun x hx => hn x (hsub x hx))⟩

theorem SInv.seq {cfg : Config} {nm1 nm2 : List String} {n pend r1 n1 p1 r2 n2 p2}
    (h1 : SInv cfg nm1 n pend r1 n1 p1) (h2 : SInv cfg nm2 n1 p1 r2 n2 p2) :
    SInv cfg (nm1 ++ nm2) n pend (r1 ++ r2) n2 p2 := by
  refine ⟨Nat.le_trans h1.le h2.le, fun hp => ?_, fun hn => ?_⟩
  · have a1 := h1.anf hp
    have a2 := h2.anf a1.2
    exact ⟨(AnfSs_append cfg r1 r2).mpr ⟨a1.1, a2.1⟩, a2.2⟩
  · have t1 := h1.temps (fun x hx => hn x (by simp [hx]))
    have t2 := h2.temps (fun x hx => hn x (by simp [hx]))
    rw [tmpTargetsSs_append, List.append_assoc, t2, ← List.append_assoc, t1, List.append_assoc,
      temps_append h1.le h2.le]

theorem SInv.nil (cfg : Config) (names : List String) (n : Nat) (pend : List Stmt) : SInv cfg names n pend [] n pend :=
  ⟨Nat.le_refl n, fun hp => ⟨trivial, hp⟩, fun _ => by simp [tmpTargetsSs, temps_self]⟩

/-- a statement that is passed through unchanged -/
theorem SInv.leaf {cfg : Config} {names : List String} {n : Nat} {pend : List Stmt} {st : Stmt}
    (ha : AnfS cfg st) (ht : tmpTargetsS st = []) : SInv cfg names n pend [st] n pend :=
  ⟨Nat.le_refl n, fun hp => ⟨⟨ha, trivial⟩, hp⟩, fun _ => by simp [tmpTargetsSs, ht, temps_self]⟩

/-- pending statements flushed in front of a simple statement -/
theorem SInv.strict {cfg : Config} {names : List String} {n n2 : Nat} {G : List Stmt} {st : Stmt}
    (hG : HoistsOk cfg n G n2) (ha : AnfS cfg st)
    (ht : (∀ x ∈ names, isTempName x = false) → tmpTargetsS st = []) : SInv cfg names n [] (G ++ [st]) n2 [] := by
  have f := hoists_facts hG
  refine ⟨f.2.2, fun _ => ⟨(AnfSs_append cfg G [st]).mpr ⟨gens_anf f.1, ha, trivial⟩, fun t ht => by simp at ht⟩, fun hn => ?_⟩
  simp [tmpTargetsSs_append, tmpTargetsSs, f.2.1, ht hn]

/-- pending statements flushed in front of a compound statement whose blocks were visited from an empty
pending list and left none -/
theorem SInv.compound {cfg : Config} {names nmb : List String} {n n2 n5 : Nat} {G body : List Stmt} {st : Stmt}
    (hG : HoistsOk cfg n G n2) (hb : SInv cfg nmb n2 [] body n5 []) (hsub : ∀ x ∈ nmb, x ∈ names)
    (ha : AnfSs cfg body → AnfS cfg st) (ht : tmpTargetsS st = tmpTargetsSs body) :
    SInv cfg names n [] (G ++ [st]) n5 [] := by
  have f := hoists_facts hG
  refine ⟨Nat.le_trans f.2.2 hb.le, fun _ => ?_, fun hn => ?_⟩
  · have ab := hb.anf (fun t ht => by simp at ht)
    exact ⟨(AnfSs_append cfg G [st]).mpr ⟨gens_anf f.1, ha ab.1, trivial⟩, fun t ht => by simp at ht⟩
  · have tb := hb.temps (fun x hx => hn x (hsub x hx))
    simp only [tmpTargetsSs, List.append_nil, List.nil_append] at tb
    simp only [tmpTargetsSs_append, tmpTargetsSs, List.append_nil, List.nil_append, f.2.1, ht, tb]
    exact temps_append f.2.2 hb.le

/-- pending statements that merely accumulate (statements without a `visit_` method) -/
theorem SInv.leak {cfg : Config} {names : List String} {n n2 : Nat} {pend G : List Stmt} {st : Stmt}
    (hG : HoistsOk cfg n G n2) (ha : AnfS cfg st) (ht : tmpTargetsS st = []) :
    SInv cfg names n pend [st] n2 (pend ++ G) := by
  have f := hoists_facts hG
  refine ⟨f.2.2, fun hp => ⟨⟨ha, trivial⟩, ?_⟩, fun _ => ?_⟩
  · intro t ht
    rcases List.mem_append.mp ht with h | h
    · exact hp t h
    · exact f.1 t h
  · simp [tmpTargetsSs_append, tmpTargetsSs, f.2.1, ht]

end Malt.Anf

namespace Malt.Anf
open Malt.Py

theorem SInv.wrap {cfg : Config} {names : List String} {n n' : Nat} {pend pend' body : List Stmt} {st : Stmt}
    (hb : SInv cfg names n pend body n' pend') (ha : AnfSs cfg body → AnfS cfg st)
    (ht : tmpTargetsS st = tmpTargetsSs body) : SInv cfg names n pend [st] n' pend' := by
  refine ⟨hb.le, fun hp => ?_, fun hn => ?_⟩
  · have ab := hb.anf hp
    exact ⟨⟨ha ab.1, trivial⟩, ab.2⟩
  · have tb := hb.temps hn
    simpa [tmpTargetsSs, ht] using tb

theorem SInv.leakOnly {cfg : Config} {names : List String} {n n2 : Nat} {pend G : List Stmt}
    (hG : HoistsOk cfg n G n2) : SInv cfg names n pend [] n2 (pend ++ G) := by
  have f := hoists_facts hG
  refine ⟨f.2.2, fun hp => ⟨trivial, ?_⟩, fun _ => ?_⟩
  · intro t ht
    rcases List.mem_append.mp ht with h | h
    · exact hp t h
    · exact f.1 t h
  · simp [tmpTargetsSs_append, tmpTargetsSs, f.2.1]

/-- revisiting an expression that is already in A-normal form does nothing -/
theorem revisit {cfg : Config} {e : Expr} {n : Nat} {e' : Expr} {D : List Stmt} {n' : Nat}
    (hq : quiet cfg e = true) (h : visitE cfg e n = .ok (e', D, n')) : e' = e ∧ D = [] ∧ n' = n := by
  rw [visitE_quiet cfg e n hq] at h
  simp only [Except.ok.injEq, Prod.mk.injEq] at h
  exact ⟨h.1.symm, h.2.1.symm, h.2.2.symm⟩

theorem revisits {cfg : Config} {es : List Expr} {n : Nat} {es' : List Expr} {D : List Stmt} {n' : Nat}
    (hq : quiets cfg es = true) (h : visitEs cfg es n = .ok (es', D, n')) : es' = es ∧ D = [] ∧ n' = n := by
  rw [visitEs_quiet cfg es n hq] at h
  simp only [Except.ok.injEq, Prod.mk.injEq] at h
  exact ⟨h.1.symm, h.2.1.symm, h.2.2.symm⟩

macro "sopen" h:ident : tactic =>
  `(tactic| simp only [visitS, visitSs, bind_ok, Prod.exists, assert_ok] at $h:ident)
macro "sclose" h:ident : tactic =>
  `(tactic| (simp only [pure, Except.pure, Except.ok.injEq, Prod.mk.injEq] at $h:ident))

theorem mem_names_sub {a b : List String} (h : ∀ x ∈ a, x ∈ b) {P : String → Prop} (hb : ∀ x ∈ b, P x) : ∀ x ∈ a, P x :=
  fun x hx => hb x (h x hx)

mutual
theorem visitS_inv (cfg : Config) : ∀ (s : Stmt) (n : Nat) (pend ss : List Stmt) (n' : Nat) (pend' : List Stmt),
    visitS cfg s n pend = .ok (ss, n', pend') → SInv cfg (namesS s) n pend ss n' pend'
  | .ret i v, n, pend, ss, n', pend', h => by
      sopen h
      obtain ⟨_, rfl, v1, d1, n1, hv, h⟩ := h
      rcases hE : ensureList cfg "Return" "value" v1 n1 with ⟨v2, h1, n2⟩
      simp only [hE] at h; sclose h
      obtain ⟨rfl, rfl, rfl⟩ := h
      have iv := visitEs_inv cfg _ _ _ _ _ hv
      have he := ensureList_spec' iv.quiet hE
      exact SInv.strict (iv.hoists.append he.1) ⟨he.2.1, he.2.2.1⟩ (fun _ => rfl)
  | .raise i e c, n, pend, ss, n', pend', h => by
      sopen h
      obtain ⟨_, rfl, e1, d1, n1, h1, c1, d2, n2, h2, h⟩ := h
      rcases hE1 : ensureList cfg "Raise" "exc" e1 n2 with ⟨e2, g1, n3⟩
      rcases hE2 : ensureList cfg "Raise" "cause" c1 n3 with ⟨c2, g2, n4⟩
      simp only [hE1, hE2] at h; sclose h
      obtain ⟨rfl, rfl, rfl⟩ := h
      have i1 := visitEs_inv cfg _ _ _ _ _ h1
      have i2 := visitEs_inv cfg _ _ _ _ _ h2
      have he1 := ensureList_spec' i1.quiet hE1
      have he2 := ensureList_spec' i2.quiet hE2
      exact SInv.strict (((i1.hoists.append i2.hoists).append he1.1).append he2.1)
        ⟨he1.2.1, he2.2.1, he1.2.2.1, he2.2.2.1⟩ (fun _ => rfl)
  | .delete i ts, n, pend, ss, n', pend', h => by
      sopen h
      obtain ⟨_, rfl, t1, d1, n1, h1, h⟩ := h
      sclose h; obtain ⟨rfl, rfl, rfl⟩ := h
      have i1 := visitEs_inv cfg _ _ _ _ _ h1
      exact SInv.strict i1.hoists i1.quiet (fun _ => rfl)
  | .assign i ts v, n, pend, ss, n', pend', h => by
      sopen h
      obtain ⟨_, rfl, t1, d1, n1, h1, v1, d2, n2, h2, h⟩ := h
      sclose h; obtain ⟨rfl, rfl, rfl⟩ := h
      have i1 := visitEs_inv cfg _ _ _ _ _ h1
      have i2 := visitE_inv cfg _ _ _ _ _ h2
      refine SInv.strict (i1.hoists.append i2.hoists) (Or.inl ⟨i1.quiet, i2.quiet⟩) (fun hn => ?_)
      exact tmpTarget_visited_assign i v1 h1 (fun x hx => hn x (by simp [namesS, hx]))
  | .augAssign i t op v, n, pend, ss, n', pend', h => by
      sopen h
      obtain ⟨_, rfl, t1, d1, n1, h1, v1, d2, n2, h2, h⟩ := h
      sclose h; obtain ⟨rfl, rfl, rfl⟩ := h
      have i1 := visitE_inv cfg _ _ _ _ _ h1
      have i2 := visitE_inv cfg _ _ _ _ _ h2
      exact SInv.strict (i1.hoists.append i2.hoists) ⟨i1.quiet, i2.quiet⟩ (fun _ => rfl)
  | .expr i v, n, pend, ss, n', pend', h => by
      sopen h
      obtain ⟨_, rfl, v1, d1, n1, h1, h⟩ := h
      sclose h; obtain ⟨rfl, rfl, rfl⟩ := h
      have i1 := visitE_inv cfg _ _ _ _ _ h1
      exact SInv.strict i1.hoists i1.quiet (fun _ => rfl)
  | .if_ i t b e, n, pend, ss, n', pend', h => by
      sopen h
      obtain ⟨_, rfl, t1, d1, n1, h1, h⟩ := h
      rcases hE : ensure cfg "If" "test" t1 n1 with ⟨t2, g1, n2⟩
      simp only [hE] at h
      obtain ⟨t3, p1, n3, h3, b1, n4, p2, hb, e1, n5, p3, he, _, rfl, h⟩ := h
      sclose h; obtain ⟨rfl, rfl, rfl⟩ := h
      have i1 := visitE_inv cfg _ _ _ _ _ h1
      have hen := ensure_spec' i1.quiet hE
      obtain ⟨rfl, rfl, rfl⟩ := revisit hen.2.1 h3
      have ib := visitSs_inv cfg _ _ _ _ _ _ hb
      have ie := visitSs_inv cfg _ _ _ _ _ _ he
      refine SInv.compound (i1.hoists.append hen.1) (ib.seq ie) (fun x hx => by simp [namesS] at hx ⊢; grind) ?_ ?_
      · intro hab
        exact ⟨hen.2.1, hen.2.2.1, ((AnfSs_append cfg _ _).mp hab).1, ((AnfSs_append cfg _ _).mp hab).2⟩
      · simp [tmpTargetsS, tmpTargetsSs_append]
  | .for_ i tg it b e x isAsync, n, pend, ss, n', pend', h => by
      simp only [visitS] at h
      split at h
      · simp at h
      sopen h
      obtain ⟨_, rfl, it1, d1, n1, h1, h⟩ := h
      rcases hE : ensure cfg "For" "iter" it1 n1 with ⟨it2, g1, n2⟩
      simp only [hE] at h
      obtain ⟨tg1, p0, n3, htg, it3, p1, n4, h3, b1, n5, p2, hb, e1, n6, p3, he, _, rfl, h⟩ := h
      sclose h; obtain ⟨rfl, rfl, rfl⟩ := h
      have i1 := visitE_inv cfg _ _ _ _ _ h1
      have itg := visitE_inv cfg _ _ _ _ _ htg
      have hen := ensure_spec' i1.quiet hE
      obtain ⟨rfl, rfl, rfl⟩ := revisit hen.2.1 h3
      have ib := visitSs_inv cfg _ _ _ _ _ _ hb
      have ie := visitSs_inv cfg _ _ _ _ _ _ he
      have hl := SInv.leakOnly (cfg := cfg) (names := ([] : List String)) (pend := ([] : List Stmt)) itg.hoists
      simp only [List.nil_append, List.append_nil] at hl ib
      refine SInv.compound (i1.hoists.append hen.1) ((hl.seq ib).seq ie) (fun x hx => by simp [namesS] at hx ⊢; grind) ?_ ?_
      · intro hab
        simp only [List.nil_append] at hab
        exact ⟨itg.quiet, hen.2.1, hen.2.2.1, ((AnfSs_append cfg _ _).mp hab).1, ((AnfSs_append cfg _ _).mp hab).2⟩
      · simp [tmpTargetsS, tmpTargetsSs_append]
  | .with_ i items b isAsync, n, pend, ss, n', pend', h => by
      simp only [visitS] at h
      split at h
      · simp at h
      sopen h
      obtain ⟨_, rfl, it1, d1, n1, h1, h⟩ := h
      rcases hE : ensureList cfg "With" "items" it1 n1 with ⟨it2, g1, n2⟩
      simp only [hE] at h
      obtain ⟨it3, p1, n3, h3, b1, n4, p2, hb, _, rfl, h⟩ := h
      sclose h; obtain ⟨rfl, rfl, rfl⟩ := h
      have i1 := visitEs_inv cfg _ _ _ _ _ h1
      have hen := ensureList_spec' i1.quiet hE
      obtain ⟨rfl, rfl, rfl⟩ := revisits hen.2.1 h3
      have ib := visitSs_inv cfg _ _ _ _ _ _ hb
      refine SInv.compound (i1.hoists.append hen.1) ib (fun x hx => by simp [namesS] at hx ⊢; grind) ?_ ?_
      · intro hab
        exact ⟨hen.2.1, hen.2.2.1, hab⟩
      · simp [tmpTargetsS]
  | .while_ i t b e, n, pend, ss, n', pend', h => by
      sopen h
      obtain ⟨_, rfl, t1, d1, n1, h1, h⟩ := h
      rcases hE : ensure cfg "While" "test" t1 n1 with ⟨t2, g1, n2⟩
      simp only [hE] at h
      split at h
      · simp at h
      next hnil =>
      simp only [bind_ok, Prod.exists] at h
      obtain ⟨t3, p1, n3, h3, b1, n4, p2, hb, e1, n5, p3, he, h⟩ := h
      sclose h; obtain ⟨rfl, rfl, rfl⟩ := h
      have i1 := visitE_inv cfg _ _ _ _ _ h1
      have hen := ensure_spec' i1.quiet hE
      obtain ⟨rfl, rfl, rfl⟩ := revisit hen.2.1 h3
      have hnil' : d1 ++ g1 = [] := by simpa using hnil
      have hg := i1.hoists.append hen.1
      rw [hnil'] at hg
      simp only [HoistsOk] at hg
      subst hg
      have ib := visitSs_inv cfg _ _ _ _ _ _ hb
      have ie := visitSs_inv cfg _ _ _ _ _ _ he
      refine SInv.wrap ((ib.seq ie).mono (fun x hx => by simp [namesS] at hx ⊢; grind)) ?_ ?_
      · intro hab
        exact ⟨hen.2.1, hen.2.2.1, ((AnfSs_append cfg _ _).mp hab).1, ((AnfSs_append cfg _ _).mp hab).2⟩
      · simp [tmpTargetsS, tmpTargetsSs_append]
  | .assert_ i t m, n, pend, ss, n', pend', h => by
      sopen h
      obtain ⟨_, rfl, t1, d1, n1, h1, m1, d2, n2, h2, h⟩ := h
      rcases hE1 : ensure cfg "Assert" "test" t1 n2 with ⟨t2, g1, n3⟩
      rcases hE2 : ensureList cfg "Assert" "msg" m1 n3 with ⟨m2, g2, n4⟩
      simp only [hE1, hE2] at h
      split at h
      · simp at h
      next hnil =>
      sclose h; obtain ⟨rfl, rfl, rfl⟩ := h
      have i1 := visitE_inv cfg _ _ _ _ _ h1
      have i2 := visitEs_inv cfg _ _ _ _ _ h2
      have he1 := ensure_spec' i1.quiet hE1
      have he2 := ensureList_spec' i2.quiet hE2
      have hnil' : d1 ++ d2 ++ g1 ++ g2 = [] := by simpa using hnil
      have hg := ((i1.hoists.append i2.hoists).append he1.1).append he2.1
      rw [hnil'] at hg
      have := SInv.strict (names := namesS (.assert_ i t m)) hg
        (show AnfS cfg (.assert_ i t2 m2) from ⟨he1.2.1, he2.2.1, he1.2.2.1, he2.2.2.1⟩) (fun _ => rfl)
      simpa using this
  | .annAssign i t a v s, n, pend, ss, n', pend', h => by
      sopen h
      obtain ⟨t1, d1, n1, h1, a1, d2, n2, h2, v1, d3, n3, h3, h⟩ := h
      sclose h; obtain ⟨rfl, rfl, rfl⟩ := h
      have i1 := visitE_inv cfg _ _ _ _ _ h1
      have i2 := visitE_inv cfg _ _ _ _ _ h2
      have i3 := visitEs_inv cfg _ _ _ _ _ h3
      have := SInv.leak (names := namesS (.annAssign i t a v s)) (pend := pend)
        ((i1.hoists.append i2.hoists).append i3.hoists)
        (show AnfS cfg (.annAssign i t1 a1 v1 s) from ⟨i1.quiet, i2.quiet, i3.quiet⟩) rfl
      simpa [List.append_assoc] using this
  | .functionDef i nm as b ds rs isAsync, n, pend, ss, n', pend', h => by
      sopen h
      obtain ⟨as1, d1, n1, h1, b1, n2, p1, hb, ds1, d2, n3, h2, rs1, d3, n4, h3, h⟩ := h
      sclose h; obtain ⟨rfl, rfl, rfl⟩ := h
      have i1 := visitE_inv cfg _ _ _ _ _ h1
      have i2 := visitEs_inv cfg _ _ _ _ _ h2
      have i3 := visitEs_inv cfg _ _ _ _ _ h3
      have ib := visitSs_inv cfg _ _ _ _ _ _ hb
      have l1 : SInv cfg ([] : List String) n pend [] n1 (pend ++ d1) := SInv.leakOnly i1.hoists
      have l2 : SInv cfg ([] : List String) n2 p1 [] n3 (p1 ++ d2) := SInv.leakOnly i2.hoists
      have l3 : SInv cfg ([] : List String) n3 (p1 ++ d2) [] n4 (p1 ++ d2 ++ d3) := SInv.leakOnly i3.hoists
      have all := ((l1.seq ib).seq l2).seq l3
      simp only [List.nil_append, List.append_nil] at all
      refine SInv.wrap (all.mono (fun x hx => by simp [namesS] at hx ⊢; grind)) ?_ ?_
      · intro hab; exact ⟨i1.quiet, hab, i2.quiet, i3.quiet⟩
      · simp [tmpTargetsS]
  | .classDef i nm bs ks b ds, n, pend, ss, n', pend', h => by
      sopen h
      obtain ⟨bs1, d1, n1, h1, ks1, d2, n2, h2, b1, n3, p1, hb, ds1, d3, n4, h3, h⟩ := h
      sclose h; obtain ⟨rfl, rfl, rfl⟩ := h
      have i1 := visitEs_inv cfg _ _ _ _ _ h1
      have i2 := visitEs_inv cfg _ _ _ _ _ h2
      have i3 := visitEs_inv cfg _ _ _ _ _ h3
      have ib := visitSs_inv cfg _ _ _ _ _ _ hb
      have l1 : SInv cfg ([] : List String) n pend [] n1 (pend ++ d1) := SInv.leakOnly i1.hoists
      have l2 : SInv cfg ([] : List String) n1 (pend ++ d1) [] n2 (pend ++ d1 ++ d2) := SInv.leakOnly i2.hoists
      have l3 : SInv cfg ([] : List String) n3 p1 [] n4 (p1 ++ d3) := SInv.leakOnly i3.hoists
      have all := ((l1.seq l2).seq ib).seq l3
      simp only [List.nil_append, List.append_nil] at all
      refine SInv.wrap (all.mono (fun x hx => by simp [namesS] at hx ⊢; grind)) ?_ ?_
      · intro hab; exact ⟨i1.quiet, i2.quiet, hab, i3.quiet⟩
      · simp [tmpTargetsS]
  | .try_ i b hs e f, n, pend, ss, n', pend', h => by
      sopen h
      obtain ⟨b1, n1, p1, hb, hs1, n2, p2, hh, e1, n3, p3, he, f1, n4, p4, hf, h⟩ := h
      sclose h; obtain ⟨rfl, rfl, rfl⟩ := h
      have ib := visitSs_inv cfg _ _ _ _ _ _ hb
      have ih := visitSs_inv cfg _ _ _ _ _ _ hh
      have ie := visitSs_inv cfg _ _ _ _ _ _ he
      have iff := visitSs_inv cfg _ _ _ _ _ _ hf
      have all := ((ib.seq ih).seq ie).seq iff
      refine SInv.wrap (all.mono (fun x hx => by simp [namesS] at hx ⊢; grind)) ?_ ?_
      · intro hab
        have h1 := (AnfSs_append cfg _ _).mp hab
        have h2 := (AnfSs_append cfg _ _).mp h1.1
        have h3 := (AnfSs_append cfg _ _).mp h2.1
        exact ⟨h3.1, h3.2, h2.2, h1.2⟩
      · simp [tmpTargetsS, tmpTargetsSs_append]
  | .handler i ty nm b, n, pend, ss, n', pend', h => by
      sopen h
      obtain ⟨ty1, d1, n1, h1, b1, n2, p1, hb, h⟩ := h
      sclose h; obtain ⟨rfl, rfl, rfl⟩ := h
      have i1 := visitEs_inv cfg _ _ _ _ _ h1
      have ib := visitSs_inv cfg _ _ _ _ _ _ hb
      have l1 : SInv cfg ([] : List String) n pend [] n1 (pend ++ d1) := SInv.leakOnly i1.hoists
      have all := l1.seq ib
      simp only [List.nil_append] at all
      refine SInv.wrap (all.mono (fun x hx => by simp [namesS] at hx ⊢; grind)) ?_ ?_
      · intro hab; exact ⟨i1.quiet, hab⟩
      · simp [tmpTargetsS]
  | .import_ .., n, pend, ss, n', pend', h => by
      simp only [visitS, Except.ok.injEq, Prod.mk.injEq] at h; obtain ⟨rfl, rfl, rfl⟩ := h
      exact SInv.leaf trivial rfl
  | .importFrom .., n, pend, ss, n', pend', h => by
      simp only [visitS, Except.ok.injEq, Prod.mk.injEq] at h; obtain ⟨rfl, rfl, rfl⟩ := h
      exact SInv.leaf trivial rfl
  | .global .., n, pend, ss, n', pend', h => by
      simp only [visitS, Except.ok.injEq, Prod.mk.injEq] at h; obtain ⟨rfl, rfl, rfl⟩ := h
      exact SInv.leaf trivial rfl
  | .nonlocal .., n, pend, ss, n', pend', h => by
      simp only [visitS, Except.ok.injEq, Prod.mk.injEq] at h; obtain ⟨rfl, rfl, rfl⟩ := h
      exact SInv.leaf trivial rfl
  | .pass .., n, pend, ss, n', pend', h => by
      simp only [visitS, Except.ok.injEq, Prod.mk.injEq] at h; obtain ⟨rfl, rfl, rfl⟩ := h
      exact SInv.leaf trivial rfl
  | .break_ .., n, pend, ss, n', pend', h => by
      simp only [visitS, Except.ok.injEq, Prod.mk.injEq] at h; obtain ⟨rfl, rfl, rfl⟩ := h
      exact SInv.leaf trivial rfl
  | .continue_ .., n, pend, ss, n', pend', h => by
      simp only [visitS, Except.ok.injEq, Prod.mk.injEq] at h; obtain ⟨rfl, rfl, rfl⟩ := h
      exact SInv.leaf trivial rfl
  | .other .., n, pend, ss, n', pend', h => by simp [visitS] at h
theorem visitSs_inv (cfg : Config) : ∀ (l : List Stmt) (n : Nat) (pend ss : List Stmt) (n' : Nat) (pend' : List Stmt),
    visitSs cfg l n pend = .ok (ss, n', pend') → SInv cfg (namesSs l) n pend ss n' pend'
  | [], n, pend, ss, n', pend', h => by
      simp only [visitSs, Except.ok.injEq, Prod.mk.injEq] at h; obtain ⟨rfl, rfl, rfl⟩ := h
      exact SInv.nil cfg _ n pend
  | s :: l, n, pend, ss, n', pend', h => by
      sopen h
      obtain ⟨r1, n1, p1, h1, r2, n2, p2, h2, h⟩ := h
      sclose h; obtain ⟨rfl, rfl, rfl⟩ := h
      have i1 := visitS_inv cfg _ _ _ _ _ _ h1
      have i2 := visitSs_inv cfg _ _ _ _ _ _ h2
      simpa [namesSs] using i1.seq i2
end

end Malt.Anf
