import MaltModel.Conv.CtxWf
/- C17 helper lemmas: the executable context checker decides `WfE`/`WfS` (both directions). -/
set_option linter.unusedVariables false
set_option linter.unusedSimpArgs false
namespace Malt.Conv
open Malt.Py

mutual
theorem okE_iff : ∀ (e : Expr) (c : Ctx), okE c e = true ↔ WfE c e
  | .noneMarker, c => by simp [okE, WfE]
  | .name _ _ c', c => by simp [okE, WfE]
  | .attr _ v _ c', c => by
      have h1 := okE_iff v .load
      simp [okE, WfE, h1]
  | .subscript _ v s c', c => by
      have h1 := okE_iff v .load
      have h2 := okE_iff s .load
      simp [okE, WfE, h1, h2, and_assoc]
  | .seq _ k es c', c => by
      have h1 := okEs_iff es c
      simp [okE, WfE, h1, and_assoc]
  | .starred _ v c', c => by
      have h1 := okE_iff v c
      simp [okE, WfE, h1]
  | .const _ f_kind f_repr, c => by
      simp [okE, WfE, and_assoc]
  | .call _ f_func f_args f_keywords, c => by
      have h0 := okE_iff f_func .load
      have h1 := okEs_iff f_args .load
      have h2 := okEs_iff f_keywords .load
      simp [okE, WfE, h0, h1, h2, and_assoc]
  | .keyword _ f_arg f_hasArg f_value, c => by
      have h0 := okE_iff f_value .load
      simp [okE, WfE, h0, and_assoc]
  | .boolop _ f_isAnd f_values, c => by
      have h0 := okEs_iff f_values .load
      simp [okE, WfE, h0, and_assoc]
  | .unary _ f_op f_operand, c => by
      have h0 := okE_iff f_operand .load
      simp [okE, WfE, h0, and_assoc]
  | .binop _ f_op f_left f_right, c => by
      have h0 := okE_iff f_left .load
      have h1 := okE_iff f_right .load
      simp [okE, WfE, h0, h1, and_assoc]
  | .compare _ f_left f_ops f_comparators, c => by
      have h0 := okE_iff f_left .load
      have h1 := okEs_iff f_comparators .load
      simp [okE, WfE, h0, h1, and_assoc]
  | .ifexp _ f_test f_body f_orelse, c => by
      have h0 := okE_iff f_test .load
      have h1 := okE_iff f_body .load
      have h2 := okE_iff f_orelse .load
      simp [okE, WfE, h0, h1, h2, and_assoc]
  | .lambda _ f_args f_body, c => by
      have h0 := okE_iff f_args .load
      have h1 := okE_iff f_body .load
      simp [okE, WfE, h0, h1, and_assoc]
  | .namedexpr _ f_target f_value, c => by
      have h0 := okE_iff f_target .store
      have h1 := okE_iff f_value .load
      simp [okE, WfE, h0, h1, and_assoc]
  | .comp _ f_kind f_elts f_generators, c => by
      have h0 := okEs_iff f_elts .load
      have h1 := okEs_iff f_generators .load
      simp [okE, WfE, h0, h1, and_assoc]
  | .comprehension _ f_target f_iter f_ifs f_isAsync, c => by
      have h0 := okE_iff f_target .store
      have h1 := okE_iff f_iter .load
      have h2 := okEs_iff f_ifs .load
      simp [okE, WfE, h0, h1, h2, and_assoc]
  | .arguments _ f_posonly f_args f_vararg f_kwonly f_kwDefaults f_kwarg f_defaults, c => by
      have h0 := okEs_iff f_posonly .load
      have h1 := okEs_iff f_args .load
      have h2 := okEs_iff f_vararg .load
      have h3 := okEs_iff f_kwonly .load
      have h4 := okEs_iff f_kwDefaults .load
      have h5 := okEs_iff f_kwarg .load
      have h6 := okEs_iff f_defaults .load
      simp [okE, WfE, h0, h1, h2, h3, h4, h5, h6, and_assoc]
  | .arg _ f_name f_annotation, c => by
      have h0 := okEs_iff f_annotation .load
      simp [okE, WfE, h0, and_assoc]
  | .withitem _ f_contextExpr f_optionalVars, c => by
      have h0 := okE_iff f_contextExpr .load
      have h1 := okEs_iff f_optionalVars .store
      simp [okE, WfE, h0, h1, and_assoc]
  | .other _ f_kind f_attrs f_kids, c => by
      have h0 := okEs_iff f_kids .load
      simp [okE, WfE, h0, and_assoc]
theorem okEs_iff : ∀ (es : List Expr) (c : Ctx), okEs c es = true ↔ WfEs c es
  | [], c => by simp [okEs, WfEs]
  | e :: es, c => by
      have h1 := okE_iff e c
      have h2 := okEs_iff es c
      simp [okEs, WfEs, h1, h2]
theorem okS_iff : ∀ (s : Stmt), okS s = true ↔ WfS s
  | .functionDef _ f_name f_args f_body f_decorators f_returns f_isAsync => by
      have h0 := okE_iff f_args .load
      have h1 := okSs_iff f_body
      have h2 := okEs_iff f_decorators .load
      have h3 := okEs_iff f_returns .load
      simp [okS, WfS, h0, h1, h2, h3, and_assoc]
  | .classDef _ f_name f_bases f_keywords f_body f_decorators => by
      have h0 := okEs_iff f_bases .load
      have h1 := okEs_iff f_keywords .load
      have h2 := okSs_iff f_body
      have h3 := okEs_iff f_decorators .load
      simp [okS, WfS, h0, h1, h2, h3, and_assoc]
  | .ret _ f_value => by
      have h0 := okEs_iff f_value .load
      simp [okS, WfS, h0, and_assoc]
  | .delete _ f_targets => by
      have h0 := okEs_iff f_targets .del
      simp [okS, WfS, h0, and_assoc]
  | .assign _ f_targets f_value => by
      have h0 := okEs_iff f_targets .store
      have h1 := okE_iff f_value .load
      simp [okS, WfS, h0, h1, and_assoc]
  | .augAssign _ f_target f_op f_value => by
      have h0 := okE_iff f_target .store
      have h1 := okE_iff f_value .load
      simp [okS, WfS, h0, h1, and_assoc]
  | .annAssign _ f_target f_annotation f_value f_simple => by
      have h0 := okE_iff f_target .store
      have h1 := okE_iff f_annotation .load
      have h2 := okEs_iff f_value .load
      simp [okS, WfS, h0, h1, h2, and_assoc]
  | .for_ _ f_target f_iter f_body f_orelse f_extraTest f_isAsync => by
      have h0 := okE_iff f_target .store
      have h1 := okE_iff f_iter .load
      have h2 := okSs_iff f_body
      have h3 := okSs_iff f_orelse
      have h4 := okEs_iff f_extraTest .load
      simp [okS, WfS, h0, h1, h2, h3, h4, and_assoc]
  | .while_ _ f_test f_body f_orelse => by
      have h0 := okE_iff f_test .load
      have h1 := okSs_iff f_body
      have h2 := okSs_iff f_orelse
      simp [okS, WfS, h0, h1, h2, and_assoc]
  | .if_ _ f_test f_body f_orelse => by
      have h0 := okE_iff f_test .load
      have h1 := okSs_iff f_body
      have h2 := okSs_iff f_orelse
      simp [okS, WfS, h0, h1, h2, and_assoc]
  | .with_ _ f_items f_body f_isAsync => by
      have h0 := okEs_iff f_items .load
      have h1 := okSs_iff f_body
      simp [okS, WfS, h0, h1, and_assoc]
  | .raise _ f_exc f_cause => by
      have h0 := okEs_iff f_exc .load
      have h1 := okEs_iff f_cause .load
      simp [okS, WfS, h0, h1, and_assoc]
  | .try_ _ f_body f_handlers f_orelse f_finalbody => by
      have h0 := okSs_iff f_body
      have h1 := okSs_iff f_handlers
      have h2 := okSs_iff f_orelse
      have h3 := okSs_iff f_finalbody
      simp [okS, WfS, h0, h1, h2, h3, and_assoc]
  | .handler _ f_type_ f_name f_body => by
      have h0 := okEs_iff f_type_ .load
      have h1 := okSs_iff f_body
      simp [okS, WfS, h0, h1, and_assoc]
  | .assert_ _ f_test f_msg => by
      have h0 := okE_iff f_test .load
      have h1 := okEs_iff f_msg .load
      simp [okS, WfS, h0, h1, and_assoc]
  | .import_ _ f_names => by
      simp [okS, WfS, and_assoc]
  | .importFrom _ f_module f_names f_level => by
      simp [okS, WfS, and_assoc]
  | .global _ f_names => by
      simp [okS, WfS, and_assoc]
  | .nonlocal _ f_names => by
      simp [okS, WfS, and_assoc]
  | .expr _ f_value => by
      have h0 := okE_iff f_value .load
      simp [okS, WfS, h0, and_assoc]
  | .pass _ => by
      simp [okS, WfS, and_assoc]
  | .break_ _ => by
      simp [okS, WfS, and_assoc]
  | .continue_ _ => by
      simp [okS, WfS, and_assoc]
  | .other _ f_kind f_exprs f_blocks => by
      have h0 := okEs_iff f_exprs .load
      have h1 := okSs_iff f_blocks
      simp [okS, WfS, h0, h1, and_assoc]
theorem okSs_iff : ∀ (ss : List Stmt), okSs ss = true ↔ WfSs ss
  | [] => by simp [okSs, WfSs]
  | s :: ss => by
      have h1 := okS_iff s
      have h2 := okSs_iff ss
      simp [okSs, WfSs, h1, h2]
end

instance (c : Ctx) (e : Expr) : Decidable (WfE c e) := decidable_of_iff _ (okE_iff e c)
instance (s : Stmt) : Decidable (WfS s) := decidable_of_iff _ (okS_iff s)
instance (ss : List Stmt) : Decidable (WfSs ss) := decidable_of_iff _ (okSs_iff ss)
instance (c : Ctx) (es : List Expr) : Decidable (WfEs c es) := decidable_of_iff _ (okEs_iff es c)
instance (t : List Stmt) : Decidable (CtxWellFormed t) := decidable_of_iff _ (okSs_iff t)

end Malt.Conv
