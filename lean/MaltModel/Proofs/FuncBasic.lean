import MaltModel.Func.Functionalise
/-! Helper lemmas for `control_flow_correct` (C01) and the C02 theorems: expression evaluation only depends on
the variables read, never changes the environment; fuel monotonicity of `execN`; block append. -/
namespace Malt.Func
open Malt.Sem

/-! ### Expressions -/
mutual
theorem evalE_env (X : Ext) : ∀ (e : Expr) (σ : St), (evalE X e σ).2.env = σ.env
  | .const _, σ => by simp [evalE]
  | .var x, σ => by simp only [evalE]; split <;> rfl
  | .not e, σ => by
      have := evalE_env X e σ
      simp only [evalE]; split <;> simp_all
  | .and a b, σ => by
      have ha := evalE_env X a σ
      simp only [evalE]
      split
      · rename_i v σ' h; rw [h] at ha
        split
        · rw [evalE_env X b σ']; exact ha
        · exact ha
      · exact ha
  | .or a b, σ => by
      have ha := evalE_env X a σ
      simp only [evalE]
      split
      · rename_i v σ' h; rw [h] at ha
        split
        · exact ha
        · rw [evalE_env X b σ']; exact ha
      · exact ha
  | .ite c t e, σ => by
      have ha := evalE_env X c σ
      simp only [evalE]
      split
      · rename_i v σ' h; rw [h] at ha
        split
        · rw [evalE_env X t σ']; exact ha
        · rw [evalE_env X e σ']; exact ha
      · exact ha
  | .bin op a b, σ => by
      have ha := evalE_env X a σ
      simp only [evalE]
      split
      · rename_i v σ' h; rw [h] at ha
        have hb := evalE_env X b σ'
        split
        · rename_i w σ'' h2; rw [h2] at hb
          split <;> simp_all
        · simp_all
      · exact ha
  | .call f args, σ => by
      have ha := evalArgs_env X args σ
      simp only [evalE]
      split
      · rename_i vs σ' h; rw [h] at ha; simpa [St.push] using ha
      · rename_i ex σ' h; rw [h] at ha; simpa using ha
theorem evalArgs_env (X : Ext) : ∀ (es : List Expr) (σ : St), (evalArgs X es σ).2.env = σ.env
  | [], σ => by simp [evalArgs]
  | e :: es, σ => by
      have ha := evalE_env X e σ
      simp only [evalArgs]
      split
      · rename_i v σ' h; rw [h] at ha
        have hb := evalArgs_env X es σ'
        split
        · rename_i vs σ'' h2; rw [h2] at hb; simp_all
        · rename_i ex σ'' h2; rw [h2] at hb; simp_all
      · rename_i ex σ' h; rw [h] at ha; simpa using ha
end

mutual
theorem evalE_congr (X : Ext) : ∀ (e : Expr) (σ τ : St), (∀ x ∈ vars e, σ.env x = τ.env x) → σ.log = τ.log →
    (evalE X e σ).1 = (evalE X e τ).1 ∧ (evalE X e σ).2.log = (evalE X e τ).2.log
  | .const _, σ, τ, _, hl => by simp [evalE, hl]
  | .var x, σ, τ, hv, hl => by
      have := hv x (by simp [vars])
      simp only [evalE, this]; split <;> simp [hl]
  | .not e, σ, τ, hv, hl => by
      have ha := evalE_congr X e σ τ (fun x hx => hv x (by simpa [vars] using hx)) hl
      simp only [evalE]
      rcases h1 : evalE X e σ with ⟨r, σ'⟩
      rcases h2 : evalE X e τ with ⟨r', τ'⟩
      rw [h1, h2] at ha; simp only at ha
      obtain ⟨rfl, hl'⟩ := ha
      cases r <;> simp [hl']
  | .and a b, σ, τ, hv, hl => by
      have hva : ∀ x ∈ vars a, σ.env x = τ.env x := fun x hx => hv x (by simp [vars, hx])
      have hvb : ∀ x ∈ vars b, σ.env x = τ.env x := fun x hx => hv x (by simp [vars, hx])
      have ha := evalE_congr X a σ τ hva hl
      have e1 := evalE_env X a σ; have e2 := evalE_env X a τ
      simp only [evalE]
      rcases h1 : evalE X a σ with ⟨r, σ'⟩
      rcases h2 : evalE X a τ with ⟨r', τ'⟩
      rw [h1, h2] at ha; rw [h1] at e1; rw [h2] at e2
      simp only at ha e1 e2
      obtain ⟨rfl, hl'⟩ := ha
      cases r with
      | error ex => exact ⟨rfl, hl'⟩
      | ok v =>
        simp only
        split
        · exact evalE_congr X b σ' τ' (fun x hx => by rw [e1, e2]; exact hvb x hx) hl'
        · exact ⟨rfl, hl'⟩
  | .or a b, σ, τ, hv, hl => by
      have hva : ∀ x ∈ vars a, σ.env x = τ.env x := fun x hx => hv x (by simp [vars, hx])
      have hvb : ∀ x ∈ vars b, σ.env x = τ.env x := fun x hx => hv x (by simp [vars, hx])
      have ha := evalE_congr X a σ τ hva hl
      have e1 := evalE_env X a σ; have e2 := evalE_env X a τ
      simp only [evalE]
      rcases h1 : evalE X a σ with ⟨r, σ'⟩
      rcases h2 : evalE X a τ with ⟨r', τ'⟩
      rw [h1, h2] at ha; rw [h1] at e1; rw [h2] at e2
      simp only at ha e1 e2
      obtain ⟨rfl, hl'⟩ := ha
      cases r with
      | error ex => exact ⟨rfl, hl'⟩
      | ok v =>
        simp only
        split
        · exact ⟨rfl, hl'⟩
        · exact evalE_congr X b σ' τ' (fun x hx => by rw [e1, e2]; exact hvb x hx) hl'
  | .ite c t e, σ, τ, hv, hl => by
      have hva : ∀ x ∈ vars c, σ.env x = τ.env x := fun x hx => hv x (by simp [vars, hx])
      have hvt : ∀ x ∈ vars t, σ.env x = τ.env x := fun x hx => hv x (by simp [vars, hx])
      have hve : ∀ x ∈ vars e, σ.env x = τ.env x := fun x hx => hv x (by simp [vars, hx])
      have ha := evalE_congr X c σ τ hva hl
      have e1 := evalE_env X c σ; have e2 := evalE_env X c τ
      simp only [evalE]
      rcases h1 : evalE X c σ with ⟨r, σ'⟩
      rcases h2 : evalE X c τ with ⟨r', τ'⟩
      rw [h1, h2] at ha; rw [h1] at e1; rw [h2] at e2
      simp only at ha e1 e2
      obtain ⟨rfl, hl'⟩ := ha
      cases r with
      | error ex => exact ⟨rfl, hl'⟩
      | ok v =>
        simp only
        split
        · exact evalE_congr X t σ' τ' (fun x hx => by rw [e1, e2]; exact hvt x hx) hl'
        · exact evalE_congr X e σ' τ' (fun x hx => by rw [e1, e2]; exact hve x hx) hl'
  | .bin op a b, σ, τ, hv, hl => by
      have hva : ∀ x ∈ vars a, σ.env x = τ.env x := fun x hx => hv x (by simp [vars, hx])
      have hvb : ∀ x ∈ vars b, σ.env x = τ.env x := fun x hx => hv x (by simp [vars, hx])
      have ha := evalE_congr X a σ τ hva hl
      have e1 := evalE_env X a σ; have e2 := evalE_env X a τ
      simp only [evalE]
      rcases h1 : evalE X a σ with ⟨r, σ'⟩
      rcases h2 : evalE X a τ with ⟨r', τ'⟩
      rw [h1, h2] at ha; rw [h1] at e1; rw [h2] at e2
      simp only at ha e1 e2
      obtain ⟨rfl, hl'⟩ := ha
      cases r with
      | error ex => exact ⟨rfl, hl'⟩
      | ok v =>
        simp only
        have hb := evalE_congr X b σ' τ' (fun x hx => by rw [e1, e2]; exact hvb x hx) hl'
        rcases h3 : evalE X b σ' with ⟨q, σ''⟩
        rcases h4 : evalE X b τ' with ⟨q', τ''⟩
        rw [h3, h4] at hb; simp only at hb
        obtain ⟨rfl, hl''⟩ := hb
        cases q with
        | error ex => exact ⟨rfl, hl''⟩
        | ok w =>
          simp only
          cases evalBin op v w <;> exact ⟨rfl, hl''⟩
  | .call f args, σ, τ, hv, hl => by
      have ha := evalArgs_congr X args σ τ (fun x hx => hv x (by simpa [vars] using hx)) hl
      simp only [evalE]
      rcases h1 : evalArgs X args σ with ⟨r, σ'⟩
      rcases h2 : evalArgs X args τ with ⟨r', τ'⟩
      rw [h1, h2] at ha; simp only at ha
      obtain ⟨rfl, hl'⟩ := ha
      cases r <;> simp [hl', St.push]
theorem evalArgs_congr (X : Ext) : ∀ (es : List Expr) (σ τ : St), (∀ x ∈ varsL es, σ.env x = τ.env x) → σ.log = τ.log →
    (evalArgs X es σ).1 = (evalArgs X es τ).1 ∧ (evalArgs X es σ).2.log = (evalArgs X es τ).2.log
  | [], σ, τ, _, hl => by simp [evalArgs, hl]
  | e :: es, σ, τ, hv, hl => by
      have hva : ∀ x ∈ vars e, σ.env x = τ.env x := fun x hx => hv x (by simp [varsL, hx])
      have hvb : ∀ x ∈ varsL es, σ.env x = τ.env x := fun x hx => hv x (by simp [varsL, hx])
      have ha := evalE_congr X e σ τ hva hl
      have e1 := evalE_env X e σ; have e2 := evalE_env X e τ
      simp only [evalArgs]
      rcases h1 : evalE X e σ with ⟨r, σ'⟩
      rcases h2 : evalE X e τ with ⟨r', τ'⟩
      rw [h1, h2] at ha; rw [h1] at e1; rw [h2] at e2
      simp only at ha e1 e2
      obtain ⟨rfl, hl'⟩ := ha
      cases r with
      | error ex => exact ⟨rfl, hl'⟩
      | ok v =>
        simp only
        have hb := evalArgs_congr X es σ' τ' (fun x hx => by rw [e1, e2]; exact hvb x hx) hl'
        rcases h3 : evalArgs X es σ' with ⟨q, σ''⟩
        rcases h4 : evalArgs X es τ' with ⟨q', τ''⟩
        rw [h3, h4] at hb; simp only at hb
        obtain ⟨rfl, hl''⟩ := hb
        cases q <;> exact ⟨rfl, hl''⟩
end


/-! ### Agreement between a source state and a target state on a set of variables -/

/-- The liveness-indexed simulation relation: on the variables in `L` the target slot *reads as* the source
binding (`undef` and `unbound` both read as unbound), and the effect logs are equal. -/
def Agree (L : List Name) (σ : St) (σ' : TSt) : Prop :=
  (∀ x ∈ L, (σ'.env x).toOpt = σ.env x) ∧ σ'.log = σ.log

theorem Agree.mono {L M : List Name} {σ : St} {σ' : TSt} (h : Agree L σ σ') (hs : M ⊆ L) : Agree M σ σ' :=
  ⟨fun x hx => h.1 x (hs hx), h.2⟩

theorem Agree.of_env {L : List Name} {σ σ₁ : St} {σ' σ₁' : TSt} (h : Agree L σ σ')
    (h1 : σ₁.env = σ.env) (h2 : σ₁'.env = σ'.env) (h3 : σ₁'.log = σ₁.log) : Agree L σ₁ σ₁' :=
  ⟨fun x hx => by rw [h1, h2]; exact h.1 x hx, h3⟩

theorem evalT_sim (X : Ext) (e : Expr) {L : List Name} {σ : St} {σ' : TSt} (hag : Agree L σ σ') (hv : vars e ⊆ L)
    {r : Except Exc Val} {σ₁ : St} (h : evalE X e σ = (r, σ₁)) :
    ∃ σ₁', evalT X e σ' = (r, σ₁') ∧ σ₁'.env = σ'.env ∧ σ₁.env = σ.env ∧ σ₁'.log = σ₁.log := by
  have hc := evalE_congr X e σ'.view σ (fun x hx => by simpa [TSt.view] using hag.1 x (hv hx)) (by simpa [TSt.view] using hag.2)
  have he := evalE_env X e σ
  rw [h] at hc he
  refine ⟨{ σ' with log := (evalE X e σ'.view).2.log }, ?_, rfl, he, hc.2⟩
  simp only [evalT]
  rw [hc.1]

theorem evalT_env (X : Ext) (e : Expr) (σ : TSt) : (evalT X e σ).2.env = σ.env := rfl

/-! ### Frames -/
theorem withFrame_some {L : List Name} {σ : TSt} {A : Option (Out × TSt)} {r : Out × TSt}
    (h : withFrame L σ A = some r) : ∃ o τ, A = some (o, τ) ∧ r = (fnOut o, restore L σ τ) := by
  cases A with
  | none => simp [withFrame] at h
  | some a => obtain ⟨o, τ⟩ := a; simp [withFrame] at h; exact ⟨o, τ, rfl, h.symm⟩

theorem withFrame_mono {L : List Name} {σ : TSt} {A B : Option (Out × TSt)} (hAB : ∀ r, A = some r → B = some r)
    {r : Out × TSt} (h : withFrame L σ A = some r) : withFrame L σ B = some r := by
  obtain ⟨o, τ, hA, rfl⟩ := withFrame_some h
  rw [hAB _ hA]; rfl

/-! ### `try` as a composition (source and native target) -/

/-- The handler step of a source `try`. -/
def afterHS (X : Ext) (n : Nat) (hs : List (Nat × Block)) : Out × St → Option (Out × St)
  | (.exc ex, σ') => (match findHandler hs ex with
      | some hb => execB X n hb σ'
      | none => some (.exc ex, σ'))
  | r => some r

/-- The `finally` step of a source `try`. -/
def finishS (X : Ext) (n : Nat) (fin : Block) : Out × St → Option (Out × St)
  | (o', σ'') => (match execB X n fin σ'' with
      | none => none
      | some (.normal, σ₃) => some (o', σ₃)
      | some r => some r)

theorem exec_tryS (X : Ext) (n : Nat) (body : Block) (hs : List (Nat × Block)) (fin : Block) (σ : St) :
    exec X (n+1) (.tryS body hs fin) σ
      = (execB X n body σ).bind fun r => (afterHS X n hs r).bind (finishS X n fin) := by
  simp only [exec]
  cases hb : execB X n body σ with
  | none => simp
  | some rb =>
    obtain ⟨o, σ'⟩ := rb
    simp only [Option.bind_some]
    cases o with
    | exc ex =>
      simp only [afterHS]
      cases hh : findHandler hs ex with
      | none =>
        simp only [Option.bind_some, finishS]
        cases execB X n fin σ' with
        | none => rfl
        | some r => obtain ⟨o2, σ2⟩ := r; cases o2 <;> rfl
      | some hbk =>
        simp only
        cases execB X n hbk σ' with
        | none => simp
        | some r2 =>
          obtain ⟨o2, σ2⟩ := r2; simp only [Option.bind_some, finishS]
          cases execB X n fin σ2 with
          | none => rfl
          | some r => obtain ⟨o3, σ3⟩ := r; cases o3 <;> rfl
    | _ =>
      simp only [afterHS, Option.bind_some, finishS]
      cases execB X n fin σ' with
      | none => rfl
      | some r => obtain ⟨o2, σ2⟩ := r; cases o2 <;> rfl

def afterHN (X : Ext) (n : Nat) (hs : List (Nat × TBlock)) : Out × TSt → Option (Out × TSt)
  | (.exc ex, σ') => (match findHandlerT hs ex with
      | some hb => execNB X n hb σ'
      | none => some (.exc ex, σ'))
  | r => some r

def finishN (X : Ext) (n : Nat) (fin : TBlock) : Out × TSt → Option (Out × TSt)
  | (o', σ'') => (match execNB X n fin σ'' with
      | none => none
      | some (.normal, σ₃) => some (o', σ₃)
      | some r => some r)

theorem execN_try (X : Ext) (n : Nat) (body : TBlock) (hs : List (Nat × TBlock)) (fin : TBlock) (σ : TSt) :
    execN X (n+1) (.tryT body hs fin) σ
      = (execNB X n body σ).bind fun r => (afterHN X n hs r).bind (finishN X n fin) := by
  simp only [execN]
  cases hb : execNB X n body σ with
  | none => simp
  | some rb =>
    obtain ⟨o, σ'⟩ := rb
    simp only [Option.bind_some]
    cases o with
    | exc ex =>
      simp only [afterHN]
      cases hh : findHandlerT hs ex with
      | none =>
        simp only [Option.bind_some, finishN]
        cases execNB X n fin σ' with
        | none => rfl
        | some r => obtain ⟨o2, σ2⟩ := r; cases o2 <;> rfl
      | some hbk =>
        simp only
        cases execNB X n hbk σ' with
        | none => simp
        | some r2 =>
          obtain ⟨o2, σ2⟩ := r2; simp only [Option.bind_some, finishN]
          cases execNB X n fin σ2 with
          | none => rfl
          | some r => obtain ⟨o3, σ3⟩ := r; cases o3 <;> rfl
    | _ =>
      simp only [afterHN, Option.bind_some, finishN]
      cases execNB X n fin σ' with
      | none => rfl
      | some r => obtain ⟨o2, σ2⟩ := r; cases o2 <;> rfl

theorem finishN_some {X : Ext} {n : Nat} {fin : TBlock} {o : Out} {τ : TSt} {r : Out × TSt}
    (h : finishN X n fin (o, τ) = some r) :
    ∃ of σf, execNB X n fin τ = some (of, σf) ∧
      ((of = .normal ∧ r = (o, σf)) ∨ (of ≠ .normal ∧ r = (of, σf))) := by
  simp only [finishN] at h
  cases hf : execNB X n fin τ with
  | none => simp [hf] at h
  | some rf =>
    obtain ⟨of, σf⟩ := rf
    rw [hf] at h
    refine ⟨of, σf, rfl, ?_⟩
    cases of <;> simp_all

theorem finishN_of_normal {X : Ext} {n : Nat} {fin : TBlock} {o : Out} {τ σf : TSt}
    (h : execNB X n fin τ = some (.normal, σf)) : finishN X n fin (o, τ) = some (o, σf) := by
  simp [finishN, h]

theorem finishN_of_abrupt {X : Ext} {n : Nat} {fin : TBlock} {o of : Out} {τ σf : TSt}
    (h : execNB X n fin τ = some (of, σf)) (hne : of ≠ .normal) : finishN X n fin (o, τ) = some (of, σf) := by
  simp only [finishN, h]
  cases of <;> simp_all

theorem finishS_some {X : Ext} {n : Nat} {fin : Block} {o : Out} {τ : St} {r : Out × St}
    (h : finishS X n fin (o, τ) = some r) :
    ∃ of σf, execB X n fin τ = some (of, σf) ∧
      ((of = .normal ∧ r = (o, σf)) ∨ (of ≠ .normal ∧ r = (of, σf))) := by
  simp only [finishS] at h
  cases hf : execB X n fin τ with
  | none => simp [hf] at h
  | some rf =>
    obtain ⟨of, σf⟩ := rf
    rw [hf] at h
    refine ⟨of, σf, rfl, ?_⟩
    cases of <;> simp_all

/-! ### Fuel monotonicity of the native semantics -/
def MonoN (X : Ext) (n : Nat) : Prop :=
  (∀ s σ r, execN X n s σ = some r → ∀ m, n ≤ m → execN X m s σ = some r) ∧
  (∀ b σ r, execNB X n b σ = some r → ∀ m, n ≤ m → execNB X m b σ = some r) ∧
  (∀ x extra body decl items σ r, execNFor X n x extra body decl items σ = some r →
      ∀ m, n ≤ m → execNFor X m x extra body decl items σ = some r)

theorem monoN (X : Ext) : ∀ n, MonoN X n := by
  intro n
  induction n with
  | zero =>
    refine ⟨?_, ?_, ?_⟩
    · intro s σ r h; simp [execN] at h
    · intro b σ r h; simp [execNB] at h
    · intro x extra body decl items σ r h; simp [execNFor] at h
  | succ n ih =>
    obtain ⟨ihS, ihB, ihF⟩ := ih
    refine ⟨?_, ?_, ?_⟩
    · intro s σ r h m hm
      obtain ⟨m', rfl⟩ : ∃ m', m = m' + 1 := ⟨m - 1, by omega⟩
      have hnm : n ≤ m' := by omega
      cases s with
      | assign x e => simpa [execN] using h
      | expr e => simpa [execN] using h
      | pass => simpa [execN] using h
      | ret e => cases e <;> simpa [execN] using h
      | raise t => simpa [execN] using h
      | undefAssign x => simpa [execN] using h
      | ifF c body orelse decl nouts =>
        simp only [execN] at h ⊢
        rcases hc : evalT X c σ with ⟨rc, σ'⟩
        rw [hc] at h
        cases rc with
        | error ex => exact h
        | ok v =>
          simp only at h ⊢
          split
          · rename_i ht; rw [if_pos ht] at h
            exact withFrame_mono (fun r hr => ihB _ _ _ hr _ hnm) h
          · rename_i ht; rw [if_neg ht] at h
            exact withFrame_mono (fun r hr => ihB _ _ _ hr _ hnm) h
      | whileF c body decl =>
        simp only [execN] at h ⊢
        rcases hc : evalT X c σ with ⟨rc, σ'⟩
        rw [hc] at h
        cases rc with
        | error ex => exact h
        | ok v =>
          simp only at h ⊢
          split
          · rename_i ht; rw [if_pos ht] at h; exact h
          · rename_i ht; rw [if_neg ht] at h
            cases hb : withFrame (localsOf body decl) σ' (execNB X n body (mask (localsOf body decl) σ')) with
            | none => simp [hb] at h
            | some rb =>
              rw [withFrame_mono (fun r hr => ihB _ _ _ hr _ hnm) hb]
              rw [hb] at h
              obtain ⟨o, σ''⟩ := rb
              cases o <;> simp only at h ⊢ <;> first | exact ihS _ _ _ h _ hnm | exact h
      | forF x it extra body decl =>
        simp only [execN] at h ⊢
        rcases hc : evalT X it σ with ⟨rc, σ'⟩
        rw [hc] at h
        cases rc with
        | error ex => exact h
        | ok v =>
          simp only at h ⊢
          cases hi : iterItems v with
          | error ex => rw [hi] at h; exact h
          | ok items =>
            rw [hi] at h; simp only at h ⊢
            cases extra with
            | none => simp only at h ⊢; exact ihF _ _ _ _ _ _ _ h _ hnm
            | some t =>
              simp only at h ⊢
              rcases ht : evalT X t σ' with ⟨rt, σ''⟩
              rw [ht] at h
              cases rt with
              | error ex => exact h
              | ok tv =>
                simp only at h ⊢
                split
                · rename_i htt; rw [if_pos htt] at h; exact ihF _ _ _ _ _ _ _ h _ hnm
                · rename_i htt; rw [if_neg htt] at h; exact h
      | withT tag body =>
        simp only [execN] at h ⊢
        cases hb : execNB X n body (σ.push (.enter tag)) with
        | none => simp [hb] at h
        | some rb => rw [ihB _ _ _ hb _ hnm]; rw [hb] at h; exact h
      | tryT body hs fin =>
        rw [execN_try] at h ⊢
        cases hb : execNB X n body σ with
        | none => simp [hb] at h
        | some rb =>
          rw [ihB _ _ _ hb _ hnm]
          rw [hb] at h
          simp only [Option.bind_some] at h ⊢
          cases ha : afterHN X n hs rb with
          | none => simp [ha] at h
          | some ra =>
            have ha' : afterHN X m' hs rb = some ra := by
              obtain ⟨o, σ'⟩ := rb
              cases o with
              | exc ex =>
                simp only [afterHN] at ha ⊢
                cases hf : findHandlerT hs ex with
                | none => rw [hf] at ha; exact ha
                | some hb' => rw [hf] at ha; simp only at ha ⊢; exact ihB _ _ _ ha _ hnm
              | _ => simpa [afterHN] using ha
            rw [ha'] ; rw [ha] at h
            simp only [Option.bind_some] at h ⊢
            obtain ⟨o', σ''⟩ := ra
            obtain ⟨of, σf, hfin, hcase⟩ := finishN_some h
            have hfin' := ihB _ _ _ hfin _ hnm
            rcases hcase with ⟨rfl, rfl⟩ | ⟨hne, rfl⟩
            · exact finishN_of_normal hfin'
            · exact finishN_of_abrupt hfin' hne
    · intro b σ r h m hm
      obtain ⟨m', rfl⟩ : ∃ m', m = m' + 1 := ⟨m - 1, by omega⟩
      have hnm : n ≤ m' := by omega
      cases b with
      | nil => simpa [execNB] using h
      | cons s rest =>
        simp only [execNB] at h ⊢
        cases hs : execN X n s σ with
        | none => simp [hs] at h
        | some rs =>
          rw [ihS _ _ _ hs _ hnm]
          rw [hs] at h
          obtain ⟨o, σ'⟩ := rs
          cases o <;> simp only at h ⊢ <;> first | exact ihB _ _ _ h _ hnm | exact h
    · intro x extra body decl items σ r h m hm
      obtain ⟨m', rfl⟩ : ∃ m', m = m' + 1 := ⟨m - 1, by omega⟩
      have hnm : n ≤ m' := by omega
      cases items with
      | nil => simpa [execNFor] using h
      | cons v items =>
        simp only [execNFor] at h ⊢
        cases hb : withFrame (localsFor x body decl) σ
            (execNB X n (.assign x (.const v) :: body) (mask (localsFor x body decl) σ)) with
        | none => simp [hb] at h
        | some rb =>
          rw [withFrame_mono (fun r hr => ihB _ _ _ hr _ hnm) hb]
          rw [hb] at h
          obtain ⟨o, σ'⟩ := rb
          cases o with
          | normal =>
            simp only at h ⊢
            cases extra with
            | none => simp only at h ⊢; exact ihF _ _ _ _ _ _ _ h _ hnm
            | some t =>
              simp only at h ⊢
              rcases ht : evalT X t σ' with ⟨rt, σ''⟩
              rw [ht] at h
              cases rt with
              | error ex => exact h
              | ok tv =>
                simp only at h ⊢
                split
                · rename_i htt; rw [if_pos htt] at h; exact ihF _ _ _ _ _ _ _ h _ hnm
                · rename_i htt; rw [if_neg htt] at h; exact h
          | _ => simp only at h ⊢; exact h

theorem execN_mono (X : Ext) {n : Nat} {s : TStmt} {σ : TSt} {r : Out × TSt} (h : execN X n s σ = some r)
    {m : Nat} (hm : n ≤ m) : execN X m s σ = some r := (monoN X n).1 s σ r h m hm
theorem execNB_mono (X : Ext) {n : Nat} {b : TBlock} {σ : TSt} {r : Out × TSt} (h : execNB X n b σ = some r)
    {m : Nat} (hm : n ≤ m) : execNB X m b σ = some r := (monoN X n).2.1 b σ r h m hm
theorem execNFor_mono (X : Ext) {n : Nat} {x extra body decl items} {σ : TSt} {r : Out × TSt}
    (h : execNFor X n x extra body decl items σ = some r) {m : Nat} (hm : n ≤ m) :
    execNFor X m x extra body decl items σ = some r := (monoN X n).2.2 x extra body decl items σ r h m hm


/-! ### Blocks: append, `Undefined` pre-assignments -/
theorem execNB_pos (X : Ext) {m : Nat} {b : TBlock} {σ : TSt} {r : Out × TSt} (h : execNB X m b σ = some r) : 0 < m := by
  cases m with
  | zero => simp [execNB] at h
  | succ k => omega

theorem execNB_append_normal (X : Ext) : ∀ (b₁ : TBlock) (m₁ : Nat) (σ τ : TSt) (b₂ : TBlock) (m₂ : Nat) (r : Out × TSt),
    execNB X m₁ b₁ σ = some (.normal, τ) → execNB X m₂ b₂ τ = some r → execNB X (m₁ + m₂) (b₁ ++ b₂) σ = some r
  | [], m₁, σ, τ, b₂, m₂, r, h1, h2 => by
      cases m₁ with
      | zero => simp [execNB] at h1
      | succ k =>
        simp [execNB] at h1; subst h1
        exact execNB_mono X h2 (by omega)
  | s :: rest, m₁, σ, τ, b₂, m₂, r, h1, h2 => by
      cases m₁ with
      | zero => simp [execNB] at h1
      | succ k =>
        simp only [execNB] at h1
        cases hs : execN X k s σ with
        | none => simp [hs] at h1
        | some rs =>
          rw [hs] at h1
          obtain ⟨o, σ'⟩ := rs
          have ho : o = .normal := by
            cases o <;> simp_all
          subst ho
          simp only at h1
          have ih := execNB_append_normal X rest k σ' τ b₂ m₂ r h1 h2
          have e : k + 1 + m₂ = (k + m₂) + 1 := by omega
          rw [e]
          simp only [List.cons_append, execNB]
          rw [execN_mono X hs (by omega : k ≤ k + m₂)]
          exact ih

theorem execNB_append_stop (X : Ext) : ∀ (b₁ : TBlock) (m : Nat) (σ τ : TSt) (b₂ : TBlock) (o : Out),
    execNB X m b₁ σ = some (o, τ) → o ≠ .normal → execNB X m (b₁ ++ b₂) σ = some (o, τ)
  | [], m, σ, τ, b₂, o, h, hne => by
      cases m with
      | zero => simp [execNB] at h
      | succ k => simp [execNB] at h; exact absurd h.1.symm hne
  | s :: rest, m, σ, τ, b₂, o, h, hne => by
      cases m with
      | zero => simp [execNB] at h
      | succ k =>
        simp only [List.cons_append, execNB] at h ⊢
        cases hs : execN X k s σ with
        | none => simp [hs] at h
        | some rs =>
          rw [hs] at h
          obtain ⟨o', σ'⟩ := rs
          cases o' with
          | normal => simp only at h ⊢; exact execNB_append_stop X rest k σ' τ b₂ o h hne
          | _ => simp only at h ⊢; exact h

/-- A single statement as a block. -/
theorem execNB_single (X : Ext) {m : Nat} {s : TStmt} {σ : TSt} {r : Out × TSt} (h : execN X m s σ = some r) :
    execNB X (m + 2) [s] σ = some r := by
  obtain ⟨o, τ⟩ := r
  simp only [execNB]
  rw [execN_mono X h (by omega : m ≤ m + 1)]
  cases o <;> simp

def undefAll (us : List Name) (σ : TSt) : TSt := us.foldl (fun σ u => σ.setSlot u .undef) σ

theorem undefAll_log : ∀ (us : List Name) (σ : TSt), (undefAll us σ).log = σ.log
  | [], _ => rfl
  | u :: us, σ => by simp only [undefAll, List.foldl]; exact undefAll_log us (σ.setSlot u .undef)

theorem undefAll_env : ∀ (us : List Name) (σ : TSt) (x : Name),
    (undefAll us σ).env x = if x ∈ us then .undef else σ.env x
  | [], _, _ => by simp [undefAll]
  | u :: us, σ, x => by
      simp only [undefAll, List.foldl]
      have := undefAll_env us (σ.setSlot u .undef) x
      simp only [undefAll] at this
      rw [this]
      by_cases h1 : x ∈ us
      · simp [h1]
      · by_cases h2 : x = u
        · simp [h2, TSt.setSlot]
        · simp [h1, h2, TSt.setSlot]

theorem execNB_undefs (X : Ext) : ∀ (us : List Name) (σ : TSt) (b : TBlock) (m : Nat) (r : Out × TSt),
    execNB X m b (undefAll us σ) = some r → ∃ m', execNB X m' (undefs us ++ b) σ = some r
  | [], σ, b, m, r, h => ⟨m, by simpa [undefs, undefAll] using h⟩
  | u :: us, σ, b, m, r, h => by
      have h' : execNB X m b (undefAll us (σ.setSlot u .undef)) = some r := by simpa [undefAll] using h
      obtain ⟨m', hm'⟩ := execNB_undefs X us (σ.setSlot u .undef) b m r h'
      have hpos := execNB_pos X hm'
      obtain ⟨k, rfl⟩ : ∃ k, m' = k + 1 := ⟨m' - 1, by omega⟩
      refine ⟨k + 2, ?_⟩
      simp only [undefs, List.map, List.cons_append, execNB, execN]
      exact execNB_mono X hm' (by omega)

theorem Agree.undefAll {L : List Name} {σ : St} {σ' : TSt} (h : Agree L σ σ') (us : List Name)
    (hu : ∀ u ∈ us, σ.env u = none) : Agree L σ (undefAll us σ') := by
  refine ⟨fun x hx => ?_, by rw [undefAll_log]; exact h.2⟩
  rw [undefAll_env]
  by_cases hxu : x ∈ us
  · simp [hxu, Slot.toOpt, hu x hxu]
  · simp [hxu]; exact h.1 x hx

/-! ### Mask / restore -/
theorem Agree.mask {M : List Name} {σ : St} {σ' : TSt} (h : Agree M σ σ') (L : List Name)
    (hd : ∀ x ∈ L, x ∉ M) : Agree M σ (mask L σ') := by
  refine ⟨fun x hx => ?_, h.2⟩
  have : L.contains x = false := by
    cases hc : L.contains x with
    | false => rfl
    | true => exact absurd hx (hd x (by simpa using hc))
  simp only [Func.mask, this]
  exact h.1 x hx

theorem Agree.restore {M : List Name} {σ : St} {τ : TSt} (h : Agree M σ τ) (L : List Name) (σ₀ : TSt)
    (hd : ∀ x ∈ L, x ∉ M) : Agree M σ (restore L σ₀ τ) := by
  refine ⟨fun x hx => ?_, h.2⟩
  have : L.contains x = false := by
    cases hc : L.contains x with
    | false => rfl
    | true => exact absurd hx (hd x (by simpa using hc))
  simp only [Func.restore, this]
  exact h.1 x hx

theorem Agree.set {L M : List Name} {τ : St} {τ' : TSt} (h : Agree L τ τ') (x : Name) (v : Val)
    (hs : ∀ y ∈ M, y ≠ x → y ∈ L) : Agree M (τ.set x v) (τ'.set x v) := by
  refine ⟨fun y hy => ?_, h.2⟩
  by_cases hyx : y = x
  · simp [St.set, TSt.set, TSt.setSlot, hyx, Slot.toOpt]
  · simp only [St.set, TSt.set, TSt.setSlot, hyx, if_false]
    exact h.1 y (hs y hy hyx)

/-! ### Direct assignments of a functionalised block are among the names the block may assign -/
theorem direct_append : ∀ (a b : TBlock), direct (a ++ b) = direct a ++ direct b
  | [], b => by simp [direct]
  | s :: a, b => by simp [direct, direct_append a b]

theorem direct_undefs : ∀ (us : List Name), direct (undefs us) = us
  | [] => by simp [undefs, direct]
  | u :: us => by
      have := direct_undefs us
      simp only [undefs] at this
      simp [undefs, direct, directS, this]

mutual
theorem direct_funcS : ∀ (s : AStmt), DeclS s → direct (funcS s) ⊆ asgS s
  | .assign i x e, _ => by simp [funcS, direct, directS, asgS]
  | .expr i e, _ => by simp [funcS, direct, directS]
  | .pass i, _ => by simp [funcS, direct, directS]
  | .ret i e, _ => by simp [funcS, direct, directS]
  | .raise i t, _ => by simp [funcS, direct, directS]
  | .ifS i c t e, h => by
      simp only [DeclS] at h
      simp only [funcS, direct_append, direct_undefs, direct, directS, asgS, List.append_nil]
      exact h.2.1
  | .whileS i c b, h => by
      simp only [DeclS] at h
      simp only [funcS, direct_append, direct_undefs, direct, directS, asgS, List.append_nil]
      exact h.2.1
  | .forS i x it extra b, h => by
      simp only [DeclS] at h
      simp only [funcS, direct_append, direct_undefs, direct, directS, asgS, List.append_nil]
      exact h.2.1
  | .withS i tag b, h => by
      simp only [DeclS] at h
      simp only [funcS, direct, directS, asgS, List.append_nil]
      exact direct_funcB b h
  | .tryS i b hs f, h => by
      simp only [DeclS] at h
      simp only [funcS, direct, directS, asgS, List.append_nil]
      intro x hx
      rcases List.mem_append.mp hx with hx | hx
      · exact List.mem_append.mpr (Or.inl (direct_funcB b h.1 hx))
      · rcases List.mem_append.mp hx with hx | hx
        · exact List.mem_append.mpr (Or.inr (List.mem_append.mpr (Or.inl (direct_funcH hs h.2.1 hx))))
        · exact List.mem_append.mpr (Or.inr (List.mem_append.mpr (Or.inr (direct_funcB f h.2.2 hx))))
theorem direct_funcB : ∀ (b : ABlock), DeclB b → direct (funcB b) ⊆ asgB b
  | [], _ => by simp [funcB, direct]
  | s :: r, h => by
      simp only [DeclB] at h
      simp only [funcB, direct_append, asgB]
      intro x hx
      rcases List.mem_append.mp hx with hx | hx
      · exact List.mem_append.mpr (Or.inl (direct_funcS s h.1 hx))
      · exact List.mem_append.mpr (Or.inr (direct_funcB r h.2 hx))
theorem direct_funcH : ∀ (hs : List (Nat × List AStmt)), DeclH hs → directH (funcH hs) ⊆ asgH hs
  | [], _ => by simp [funcH, directH]
  | (t, b) :: r, h => by
      simp only [DeclH] at h
      simp only [funcH, directH, asgH]
      intro x hx
      rcases List.mem_append.mp hx with hx | hx
      · exact List.mem_append.mpr (Or.inl (direct_funcB b h.1 hx))
      · exact List.mem_append.mpr (Or.inr (direct_funcH r h.2 hx))
end

/-! ### Implicit exceptions: what expression evaluation can raise is never a user exception -/
def IsImpl : Exc → Prop
  | .user _ => False
  | _ => True

theorem evalBin_impl {op : BinOp} {a b : Val} {ex : Exc} (h : evalBin op a b = .error ex) : IsImpl ex := by
  cases op <;> cases a <;> cases b <;> simp [evalBin] at h <;> subst h <;> trivial

mutual
theorem evalE_impl (X : Ext) : ∀ (e : Expr) (σ : St) (ex : Exc), (evalE X e σ).1 = .error ex → IsImpl ex
  | .const _, σ, ex, h => by simp [evalE] at h
  | .var x, σ, ex, h => by
      simp only [evalE] at h
      split at h
      · simp at h
      · simp at h; subst h; trivial
  | .not e, σ, ex, h => by
      simp only [evalE] at h
      rcases h1 : evalE X e σ with ⟨r, σ'⟩
      rw [h1] at h
      cases r with
      | ok v => simp at h
      | error e' => simp at h; subst h; exact evalE_impl X e σ _ (by rw [h1])
  | .and a b, σ, ex, h => by
      simp only [evalE] at h
      rcases h1 : evalE X a σ with ⟨r, σ'⟩
      rw [h1] at h
      cases r with
      | ok v =>
        simp only at h
        split at h
        · exact evalE_impl X b σ' _ h
        · simp at h
      | error e' => simp at h; subst h; exact evalE_impl X a σ _ (by rw [h1])
  | .or a b, σ, ex, h => by
      simp only [evalE] at h
      rcases h1 : evalE X a σ with ⟨r, σ'⟩
      rw [h1] at h
      cases r with
      | ok v =>
        simp only at h
        split at h
        · simp at h
        · exact evalE_impl X b σ' _ h
      | error e' => simp at h; subst h; exact evalE_impl X a σ _ (by rw [h1])
  | .ite c t e, σ, ex, h => by
      simp only [evalE] at h
      rcases h1 : evalE X c σ with ⟨r, σ'⟩
      rw [h1] at h
      cases r with
      | ok v =>
        simp only at h
        split at h
        · exact evalE_impl X t σ' _ h
        · exact evalE_impl X e σ' _ h
      | error e' => simp at h; subst h; exact evalE_impl X c σ _ (by rw [h1])
  | .bin op a b, σ, ex, h => by
      simp only [evalE] at h
      rcases h1 : evalE X a σ with ⟨r, σ'⟩
      rw [h1] at h
      cases r with
      | ok v =>
        simp only at h
        rcases h2 : evalE X b σ' with ⟨q, σ''⟩
        rw [h2] at h
        cases q with
        | ok w =>
          simp only at h
          cases h3 : evalBin op v w with
          | ok r' => rw [h3] at h; simp at h
          | error e' => rw [h3] at h; simp at h; subst h; exact evalBin_impl h3
        | error e' => simp at h; subst h; exact evalE_impl X b σ' _ (by rw [h2])
      | error e' => simp at h; subst h; exact evalE_impl X a σ _ (by rw [h1])
  | .call f args, σ, ex, h => by
      simp only [evalE] at h
      rcases h1 : evalArgs X args σ with ⟨r, σ'⟩
      rw [h1] at h
      cases r with
      | ok vs => simp at h
      | error e' => simp at h; subst h; exact evalArgs_impl X args σ _ (by rw [h1])
theorem evalArgs_impl (X : Ext) : ∀ (es : List Expr) (σ : St) (ex : Exc), (evalArgs X es σ).1 = .error ex → IsImpl ex
  | [], σ, ex, h => by simp [evalArgs] at h
  | e :: es, σ, ex, h => by
      simp only [evalArgs] at h
      rcases h1 : evalE X e σ with ⟨r, σ'⟩
      rw [h1] at h
      cases r with
      | ok v =>
        simp only at h
        rcases h2 : evalArgs X es σ' with ⟨q, σ''⟩
        rw [h2] at h
        cases q with
        | ok vs => simp at h
        | error e' => simp at h; subst h; exact evalArgs_impl X es σ' _ (by rw [h2])
      | error e' => simp at h; subst h; exact evalE_impl X e σ _ (by rw [h1])
end

theorem iterItems_impl {v : Val} {ex : Exc} (h : iterItems v = .error ex) : IsImpl ex := by
  cases v <;> simp [iterItems] at h
  subst h; trivial

/-! ### Log events on both sides -/
theorem Agree.push {L : List Name} {σ : St} {σ' : TSt} (h : Agree L σ σ') (e : Event) : Agree L (σ.push e) (σ'.push e) :=
  ⟨fun x hx => h.1 x hx, by simp [St.push, TSt.push, h.2]⟩

end Malt.Func
