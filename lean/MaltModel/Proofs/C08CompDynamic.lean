import MaltModel.Proofs.C08Comp
import MaltModel.Proofs.C08Dynamic
import MaltModel.Proofs.C08Classes
/-
`C08_dynamic` for the larger fragment (comprehensions allowed, no named expression inside them): what evaluating
an expression reads / rebinds according to `Spec.Dynamic` is contained in the effect `effC` of the activity model.
-/
namespace Malt.Analysis
open Malt.Py Malt.Spec

/-- The simple names among the targets of the open comprehensions are iteration variables listed in `hid`. -/
def CompInv (cs : List QSet) (hid : List String) : Prop := ∀ l ∈ cs, ∀ s, QN.sym s ∈ l → s ∈ hid

theorem CompInv.nil (hid : List String) : CompInv [] hid := by intro l hl; simp at hl

theorem CompInv.mono {cs : List QSet} {hid hid' : List String} (h : CompInv cs hid) (hs : ∀ s ∈ hid, s ∈ hid') : CompInv cs hid' :=
  fun l hl s hsl => hs s (h l hl s hsl)

theorem CompInv.cons_nil {cs : List QSet} {hid : List String} (h : CompInv cs hid) : CompInv ([] :: cs) hid := by
  intro l hl s hs
  simp only [List.mem_cons] at hl
  rcases hl with rfl | hl
  · simp at hs
  · exact h l hl s hs

theorem CompInv.tail {cs : List QSet} {hid : List String} (h : CompInv cs hid) : CompInv cs.tail hid :=
  fun l hl s hs => h l (List.mem_of_mem_tail hl) s hs

theorem not_hidden_of_inv {cs : List QSet} {hid : List String} (h : CompInv cs hid) {s : String} (hs : s ∉ hid) :
    hiddenByComps cs (.sym s) = false := by
  simp only [hiddenByComps, QN.ownerSet, List.any_nil, Bool.or_false, List.any_eq_false, List.contains_eq_mem,
    decide_eq_true_eq]
  intro l hl hm
  exact hs (h l hl s hm)

/-- What `trackC` does for a Name node. -/
theorem trackC_name (cs : List QSet) (hid : List String) (hinv : CompInv cs hid) (s : String) (c : Ctx) (aug anno : Bool)
    (hst : c = .store → cs ≠ [] → s ∈ hid) :
    (c = .load → s ∉ hid → QN.sym s ∈ (trackC cs (some (.sym s)) c false aug anno).1.read) ∧
    (c = .store → s ∉ hid → QN.sym s ∈ (trackC cs (some (.sym s)) c false aug anno).1.modified) ∧
    CompInv (trackC cs (some (.sym s)) c false aug anno).2 hid := by
  unfold trackC
  simp only
  by_cases hh : hiddenByComps cs (.sym s) = true
  · simp only [hh, ↓reduceIte]
    refine ⟨fun _ hs => ?_, fun _ hs => ?_, hinv⟩
    · rw [not_hidden_of_inv hinv hs] at hh; simp at hh
    · rw [not_hidden_of_inv hinv hs] at hh; simp at hh
  · simp only [hh, Bool.false_eq_true, ↓reduceIte]
    cases c with
    | load => exact ⟨fun _ _ => by simp [trackEff], fun h => by simp at h, hinv⟩
    | del => exact ⟨fun h => by simp at h, fun h => by simp at h, hinv⟩
    | store =>
      cases cs with
      | nil => exact ⟨fun h => by simp at h, fun _ _ => by simp [trackEff], CompInv.nil _⟩
      | cons l ls =>
        refine ⟨fun h => by simp at h, fun _ hs => absurd (hst rfl (by simp)) hs, ?_⟩
        intro l' hl' s' hs'
        simp only [List.mem_cons] at hl'
        rcases hl' with rfl | hl'
        · simp only [QSet.mem_ins, QN.sym.injEq] at hs'
          rcases hs' with rfl | hs'
          · exact hst rfl (by simp)
          · exact hinv l (by simp) s' hs'
        · exact hinv l' (List.mem_cons_of_mem _ hl') s' hs'

/-- `trackC` for attribute / subscript nodes never adds a simple name to the comprehension targets. -/
theorem trackC_composite (cs : List QSet) (hid : List String) (hinv : CompInv cs hid) (q? : Option QN)
    (hq : ∀ s, q? ≠ some (.sym s)) (c : Ctx) (cw aug anno : Bool) :
    CompInv (trackC cs q? c cw aug anno).2 hid := by
  unfold trackC
  cases q? with
  | none => exact hinv
  | some qn =>
    simp only
    split
    · exact hinv
    · cases c with
      | load => exact hinv
      | del => exact hinv
      | store =>
        cases cs with
        | nil => exact CompInv.nil _
        | cons l ls =>
          intro l' hl' s' hs'
          simp only [List.mem_cons] at hl'
          rcases hl' with rfl | hl'
          · simp only [QSet.mem_ins] at hs'
            rcases hs' with rfl | hs'
            · exact absurd rfl (hq s')
            · exact hinv l (by simp) s' hs'
          · exact hinv l' (List.mem_cons_of_mem _ hl') s' hs'

end Malt.Analysis

namespace Malt.Analysis
open Malt.Py Malt.Spec

theorem trackC_tail (c : QSet) (cs : List QSet) (q? : Option QN) (ctx : Ctx) (cw aug anno : Bool) :
    (trackC (c :: cs) q? ctx cw aug anno).2.tail = cs := by
  unfold trackC
  cases q? with
  | none => rfl
  | some qn =>
    simp only
    split
    · rfl
    · cases ctx <;> rfl

/-- A list of comprehension frames with the same length and the same tail as `c :: cs`. -/
theorem tail_step {l : List QSet} {c' : QSet} {cs : List QSet} (hlen : l.length = (c' :: cs).length) (htail : l.tail = cs) :
    ∃ a, l = a :: cs := by
  cases l with
  | nil => simp at hlen
  | cons a r => simp only [List.tail_cons] at htail; exact ⟨a, by rw [htail]⟩

mutual
/-- Visits only change the innermost comprehension frame. -/
theorem effC_tail : (e : Expr) → (fns : List FnCtx) → (aug anno : Bool) → (c : QSet) → (cs : List QSet) →
    (effC fns aug anno (c :: cs) e).2.tail = cs
  | .name .., fns, aug, anno, c, cs => by simp [effC, trackC_tail]
  | .const .., _, _, _, _, _ => by simp [effC]
  | .noneMarker, _, _, _, _, _ => by simp [effC]
  | .attr i v a cx, fns, aug, anno, c, cs => by
      simp only [effC]
      obtain ⟨a1, h1⟩ := tail_step (effC_len v fns aug anno (c :: cs)) (effC_tail v fns aug anno c cs)
      rw [h1]
      exact trackC_tail _ _ _ _ _ _ _
  | .subscript i v s cx, fns, aug, anno, c, cs => by
      simp only [effC]
      obtain ⟨a1, h1⟩ := tail_step (effC_len v fns aug anno (c :: cs)) (effC_tail v fns aug anno c cs)
      rw [h1]
      obtain ⟨a2, h2⟩ := tail_step (effC_len s fns aug anno (a1 :: cs)) (effC_tail s fns aug anno a1 cs)
      rw [h2]
      exact trackC_tail _ _ _ _ _ _ _
  | .call _ f as ks, fns, aug, anno, c, cs => by
      simp only [effC]
      obtain ⟨a1, h1⟩ := tail_step (effCs_len as fns aug anno (c :: cs)) (effCs_tail as fns aug anno c cs)
      rw [h1]
      obtain ⟨a2, h2⟩ := tail_step (effCs_len ks fns aug anno (a1 :: cs)) (effCs_tail ks fns aug anno a1 cs)
      rw [h2]
      exact effC_tail f fns aug anno a2 cs
  | .keyword _ _ _ v, fns, aug, anno, c, cs => by simpa [effC] using effC_tail v fns aug anno c cs
  | .boolop _ _ vs, fns, aug, anno, c, cs => by simpa [effC] using effCs_tail vs fns aug anno c cs
  | .unary _ _ v, fns, aug, anno, c, cs => by simpa [effC] using effC_tail v fns aug anno c cs
  | .binop _ _ l r, fns, aug, anno, c, cs => by
      simp only [effC]
      obtain ⟨a1, h1⟩ := tail_step (effC_len l fns aug anno (c :: cs)) (effC_tail l fns aug anno c cs)
      rw [h1]
      exact effC_tail r fns aug anno a1 cs
  | .compare _ l _ rs, fns, aug, anno, c, cs => by
      simp only [effC]
      obtain ⟨a1, h1⟩ := tail_step (effC_len l fns aug anno (c :: cs)) (effC_tail l fns aug anno c cs)
      rw [h1]
      exact effCs_tail rs fns aug anno a1 cs
  | .ifexp _ t b o, fns, aug, anno, c, cs => by
      simp only [effC]
      obtain ⟨a1, h1⟩ := tail_step (effC_len t fns aug anno (c :: cs)) (effC_tail t fns aug anno c cs)
      rw [h1]
      obtain ⟨a2, h2⟩ := tail_step (effC_len b fns aug anno (a1 :: cs)) (effC_tail b fns aug anno a1 cs)
      rw [h2]
      exact effC_tail o fns aug anno a2 cs
  | .lambda i args body, fns, aug, anno, c, cs => by
      cases args with
      | arguments ai po ar va ko kd kw df =>
        simp only [effC]
        obtain ⟨a1, h1⟩ := tail_step (effCs_len kd (.lam i :: fns) aug anno (c :: cs)) (effCs_tail kd (.lam i :: fns) aug anno c cs)
        rw [h1]
        obtain ⟨a2, h2⟩ := tail_step (effCs_len df (.lam i :: fns) aug anno (a1 :: cs)) (effCs_tail df (.lam i :: fns) aug anno a1 cs)
        rw [h2]
        exact effC_tail body (.lam i :: fns) aug anno a2 cs
      | _ => simp [effC]
  | .seq _ _ es _, fns, aug, anno, c, cs => by simpa [effC] using effCs_tail es fns aug anno c cs
  | .starred _ v _, fns, aug, anno, c, cs => by simpa [effC] using effC_tail v fns aug anno c cs
  | .namedexpr _ t v, fns, aug, anno, c, cs => by
      simp only [effC]
      obtain ⟨a1, h1⟩ := tail_step (effC_len t fns aug anno (c :: cs)) (effC_tail t fns aug anno c cs)
      rw [h1]
      exact effC_tail v fns aug anno a1 cs
  | .comp _ _ elts gens, fns, aug, anno, c, cs => by
      simp only [effC]
      obtain ⟨a1, h1⟩ := tail_step (effCs_len gens fns aug anno ([] :: c :: cs)) (effCs_tail gens fns aug anno [] (c :: cs))
      rw [h1]
      rw [effCs_tail elts fns aug anno a1 (c :: cs)]
      rfl
  | .comprehension _ t it ifs _, fns, aug, anno, c, cs => by
      simp only [effC]
      obtain ⟨a1, h1⟩ := tail_step (effC_len it fns aug anno (c :: cs)) (effC_tail it fns aug anno c cs)
      rw [h1]
      obtain ⟨a2, h2⟩ := tail_step (effC_len t fns aug anno (a1 :: cs)) (effC_tail t fns aug anno a1 cs)
      rw [h2]
      obtain ⟨a3, h3⟩ := tail_step (effC_len t fns aug anno (a2 :: cs)) (effC_tail t fns aug anno a2 cs)
      rw [h3]
      obtain ⟨a4, h4⟩ := tail_step (effC_len it fns aug anno (a3 :: cs)) (effC_tail it fns aug anno a3 cs)
      rw [h4]
      exact effCs_tail ifs fns aug anno a4 cs
  | .arguments .., _, _, _, _, _ => by simp [effC]
  | .arg .., _, _, _, _, _ => by simp [effC]
  | .withitem _ cx v, fns, aug, anno, c, cs => by
      simp only [effC]
      obtain ⟨a1, h1⟩ := tail_step (effC_len cx fns aug anno (c :: cs)) (effC_tail cx fns aug anno c cs)
      rw [h1]
      exact effCs_tail v fns aug anno a1 cs
  | .other _ _ _ kids, fns, aug, anno, c, cs => by simpa [effC] using effCs_tail kids fns aug anno c cs
theorem effCs_tail : (es : List Expr) → (fns : List FnCtx) → (aug anno : Bool) → (c : QSet) → (cs : List QSet) →
    (effCs fns aug anno (c :: cs) es).2.tail = cs
  | [], _, _, _, _, _ => by simp [effCs]
  | e :: rest, fns, aug, anno, c, cs => by
      simp only [effCs]
      obtain ⟨a1, h1⟩ := tail_step (effC_len e fns aug anno (c :: cs)) (effC_tail e fns aug anno c cs)
      rw [h1]
      exact effCs_tail rest fns aug anno a1 cs
end

end Malt.Analysis

namespace Malt.Analysis
open Malt.Py Malt.Spec

theorem isEmpty_of_len {a b : List QSet} (h : a.length = b.length) : a.isEmpty = b.isEmpty := by
  cases a <;> cases b <;> simp_all

theorem effC_isEmpty (e : Expr) (fns : List FnCtx) (aug anno : Bool) (cs : List QSet) :
    (effC fns aug anno cs e).2.isEmpty = cs.isEmpty := isEmpty_of_len (effC_len e fns aug anno cs)

theorem effCs_isEmpty (es : List Expr) (fns : List FnCtx) (aug anno : Bool) (cs : List QSet) :
    (effCs fns aug anno cs es).2.isEmpty = cs.isEmpty := isEmpty_of_len (effCs_len es fns aug anno cs)

mutual
theorem storesOk_mono : (e : Expr) → (b : Bool) → (hid hid' : List String) → (∀ s ∈ hid, s ∈ hid') →
    storesOkE b hid e = true → storesOkE b hid' e = true
  | .name _ s c, b, hid, hid', hm, h => by
      simp only [storesOkE, Bool.or_eq_true, bne_iff_ne, ne_eq, Bool.not_eq_true', List.contains_eq_mem, decide_eq_true_eq] at h ⊢
      rcases h with (h | h) | h
      · exact Or.inl (Or.inl h)
      · exact Or.inl (Or.inr h)
      · exact Or.inr (hm s h)
  | .const .., _, _, _, _, _ => by simp [storesOkE]
  | .noneMarker, _, _, _, _, _ => by simp [storesOkE]
  | .attr _ v _ _, b, hid, hid', hm, h => by
      simp only [storesOkE] at h ⊢; exact storesOk_mono v b hid hid' hm h
  | .subscript _ v s _, b, hid, hid', hm, h => by
      simp only [storesOkE, Bool.and_eq_true] at h ⊢
      exact ⟨storesOk_mono v b hid hid' hm h.1, storesOk_mono s b hid hid' hm h.2⟩
  | .call _ f as ks, b, hid, hid', hm, h => by
      simp only [storesOkE, Bool.and_eq_true] at h ⊢
      exact ⟨⟨storesOk_mono f b hid hid' hm h.1.1, storesOks_mono as b hid hid' hm h.1.2⟩, storesOks_mono ks b hid hid' hm h.2⟩
  | .keyword _ _ _ v, b, hid, hid', hm, h => by
      simp only [storesOkE] at h ⊢; exact storesOk_mono v b hid hid' hm h
  | .boolop _ _ vs, b, hid, hid', hm, h => by
      simp only [storesOkE] at h ⊢; exact storesOks_mono vs b hid hid' hm h
  | .unary _ _ v, b, hid, hid', hm, h => by
      simp only [storesOkE] at h ⊢; exact storesOk_mono v b hid hid' hm h
  | .binop _ _ l r, b, hid, hid', hm, h => by
      simp only [storesOkE, Bool.and_eq_true] at h ⊢
      exact ⟨storesOk_mono l b hid hid' hm h.1, storesOk_mono r b hid hid' hm h.2⟩
  | .compare _ l _ rs, b, hid, hid', hm, h => by
      simp only [storesOkE, Bool.and_eq_true] at h ⊢
      exact ⟨storesOk_mono l b hid hid' hm h.1, storesOks_mono rs b hid hid' hm h.2⟩
  | .ifexp _ t bb o, b, hid, hid', hm, h => by
      simp only [storesOkE, Bool.and_eq_true] at h ⊢
      exact ⟨⟨storesOk_mono t b hid hid' hm h.1.1, storesOk_mono bb b hid hid' hm h.1.2⟩, storesOk_mono o b hid hid' hm h.2⟩
  | .lambda _ args body, b, hid, hid', hm, h => by
      cases args with
      | arguments ai po ar va ko kd kw df =>
        simp only [storesOkE, Bool.and_eq_true] at h ⊢
        exact ⟨⟨storesOks_mono kd b hid hid' hm h.1.1, storesOks_mono df b hid hid' hm h.1.2⟩, storesOk_mono body b hid hid' hm h.2⟩
      | _ =>
        simp only [storesOkE, Bool.true_and] at h ⊢
        exact storesOk_mono body b hid hid' hm h
  | .seq _ _ es _, b, hid, hid', hm, h => by
      simp only [storesOkE] at h ⊢; exact storesOks_mono es b hid hid' hm h
  | .starred _ v _, b, hid, hid', hm, h => by
      simp only [storesOkE] at h ⊢; exact storesOk_mono v b hid hid' hm h
  | .namedexpr _ t v, b, hid, hid', hm, h => by
      simp only [storesOkE, Bool.and_eq_true] at h ⊢
      exact ⟨storesOk_mono t b hid hid' hm h.1, storesOk_mono v b hid hid' hm h.2⟩
  | .comp _ _ elts gens, b, hid, hid', hm, h => by
      have hm' : ∀ s ∈ compTargets gens ++ hid, s ∈ compTargets gens ++ hid' := by
        intro s hs; simp only [List.mem_append] at hs ⊢; rcases hs with hs | hs
        · exact Or.inl hs
        · exact Or.inr (hm s hs)
      cases gens with
      | nil => simp [storesOkE] at h
      | cons g rest =>
        cases g with
        | comprehension gi t it ifs ia =>
          simp only [storesOkE, Bool.and_eq_true] at h ⊢
          exact ⟨⟨storesOk_mono it true hid hid' hm h.1.1, storesOks_mono _ true _ _ hm' h.1.2⟩, storesOks_mono elts true _ _ hm' h.2⟩
        | _ => simp [storesOkE] at h
  | .comprehension _ t it ifs _, b, hid, hid', hm, h => by
      simp only [storesOkE, Bool.and_eq_true] at h ⊢
      exact ⟨⟨storesOk_mono t b hid hid' hm h.1.1, storesOk_mono it b hid hid' hm h.1.2⟩, storesOks_mono ifs b hid hid' hm h.2⟩
  | .arguments .., _, _, _, _, _ => by simp [storesOkE]
  | .arg _ _ an, b, hid, hid', hm, h => by
      simp only [storesOkE] at h ⊢; exact storesOks_mono an b hid hid' hm h
  | .withitem _ c v, b, hid, hid', hm, h => by
      simp only [storesOkE, Bool.and_eq_true] at h ⊢
      exact ⟨storesOk_mono c b hid hid' hm h.1, storesOks_mono v b hid hid' hm h.2⟩
  | .other _ _ _ kids, b, hid, hid', hm, h => by
      simp only [storesOkE] at h ⊢; exact storesOks_mono kids b hid hid' hm h
theorem storesOks_mono : (es : List Expr) → (b : Bool) → (hid hid' : List String) → (∀ s ∈ hid, s ∈ hid') →
    storesOkEs b hid es = true → storesOkEs b hid' es = true
  | [], _, _, _, _, _ => by simp [storesOkEs]
  | e :: rest, b, hid, hid', hm, h => by
      simp only [storesOkEs, Bool.and_eq_true] at h ⊢
      exact ⟨storesOk_mono e b hid hid' hm h.1, storesOks_mono rest b hid hid' hm h.2⟩
end

end Malt.Analysis

namespace Malt.Analysis
open Malt.Py Malt.Spec

@[simp] theorem Eff.exported_false_read' (d : Eff) : (d.exported false).read = d.read := rfl

/-- Conclusion of the reads lemma. -/
def ReadsOk (fns : List FnCtx) (aug anno : Bool) (cs : List QSet) (hid : List String) (rs : List String) (r : Eff × List QSet) : Prop :=
  (∀ x ∈ rs, QN.sym x ∈ r.1.read) ∧ CompInv r.2 hid

mutual
/-- Every variable that evaluating `e` reads — not counting the iteration variables `hid` of the enclosing
    comprehensions — is in the `read` effect, also while comprehensions are open. -/
theorem readsC : (e : Expr) → FragC e = true → (fns : List FnCtx) → (aug anno : Bool) → (cs : List QSet) → (hid : List String) →
    CompInv cs hid → storesOkE (!cs.isEmpty) hid e = true →
    (∀ x ∈ readsE hid e, QN.sym x ∈ (effC fns aug anno cs e).1.read) ∧ CompInv (effC fns aug anno cs e).2 hid
  | .name _ s c, _, fns, aug, anno, cs, hid, hinv, hso => by
      simp only [storesOkE, Bool.or_eq_true, bne_iff_ne, ne_eq, Bool.not_eq_true', Bool.not_eq_false', List.contains_eq_mem,
        decide_eq_true_eq] at hso
      have hst : c = .store → cs ≠ [] → s ∈ hid := by
        intro hc hne
        rcases hso with (h | h) | h
        · exact absurd hc h
        · cases cs <;> simp_all
        · exact h
      obtain ⟨h1, _, h3⟩ := trackC_name cs hid hinv s c aug anno hst
      refine ⟨fun x hx => ?_, by simpa [effC] using h3⟩
      simp only [readsE] at hx
      split at hx
      · simp only [List.mem_singleton] at hx; subst hx
        rename_i hh
        simp only [Bool.and_eq_true, beq_iff_eq, Bool.not_eq_true', List.contains_eq_mem, decide_eq_false_iff_not] at hh
        simpa [effC] using h1 hh.1 hh.2
      · simp at hx
  | .const .., _, _, _, _, cs, hid, hinv, _ => by simp [readsE, effC, hinv]
  | .noneMarker, _, _, _, _, cs, hid, hinv, _ => by simp [readsE, effC, hinv]
  | .attr i v a c, hf, fns, aug, anno, cs, hid, hinv, hso => by
      simp only [FragC] at hf
      simp only [storesOkE] at hso
      obtain ⟨r1, i1⟩ := readsC v hf fns aug anno cs hid hinv hso
      refine ⟨fun x hx => ?_, ?_⟩
      · simp only [readsE] at hx
        simp only [effC, Eff.append_read, List.mem_append]
        exact Or.inl (r1 x hx)
      · simp only [effC]
        exact trackC_composite _ hid i1 _ (qnOf_attr_ne_sym i v a c) _ _ _ _
  | .subscript i v s c, hf, fns, aug, anno, cs, hid, hinv, hso => by
      simp only [FragC, Bool.and_eq_true] at hf
      simp only [storesOkE, Bool.and_eq_true] at hso
      obtain ⟨r1, i1⟩ := readsC v hf.1 fns aug anno cs hid hinv hso.1
      obtain ⟨r2, i2⟩ := readsC s hf.2 fns aug anno _ hid i1 (by rw [effC_isEmpty]; exact hso.2)
      refine ⟨fun x hx => ?_, ?_⟩
      · simp only [readsE, List.mem_append] at hx
        simp only [effC, Eff.append_read, List.mem_append]
        rcases hx with hx | hx
        · exact Or.inl (Or.inl (r1 x hx))
        · exact Or.inl (Or.inr (r2 x hx))
      · simp only [effC]
        exact trackC_composite _ hid i2 _ (qnOf_subscript_ne_sym i v s c) _ _ _ _
  | .call _ f as ks, hf, fns, aug, anno, cs, hid, hinv, hso => by
      simp only [FragC, Bool.and_eq_true] at hf
      simp only [storesOkE, Bool.and_eq_true] at hso
      obtain ⟨r1, i1⟩ := readsCs as hf.1.2 fns aug anno cs hid hinv hso.1.2
      obtain ⟨r2, i2⟩ := readsCs ks hf.2 fns aug anno _ hid i1 (by rw [effCs_isEmpty]; exact hso.2)
      obtain ⟨r3, i3⟩ := readsC f hf.1.1 fns aug anno _ hid i2 (by rw [effCs_isEmpty, effCs_isEmpty]; exact hso.1.1)
      refine ⟨fun x hx => ?_, by simpa [effC] using i3⟩
      simp only [readsE, List.mem_append] at hx
      simp only [effC, Eff.append_read, Eff.exported_false_read', List.mem_append]
      rcases hx with (hx | hx) | hx
      · exact Or.inr (r3 x hx)
      · exact Or.inl (Or.inl (r1 x hx))
      · exact Or.inl (Or.inr (r2 x hx))
  | .keyword _ _ _ v, hf, fns, aug, anno, cs, hid, hinv, hso => by
      simp only [FragC] at hf
      simp only [storesOkE] at hso
      simpa [readsE, effC] using readsC v hf fns aug anno cs hid hinv hso
  | .boolop _ _ vs, hf, fns, aug, anno, cs, hid, hinv, hso => by
      simp only [FragC] at hf
      simp only [storesOkE] at hso
      simpa [readsE, effC] using readsCs vs hf fns aug anno cs hid hinv hso
  | .unary _ _ v, hf, fns, aug, anno, cs, hid, hinv, hso => by
      simp only [FragC] at hf
      simp only [storesOkE] at hso
      simpa [readsE, effC] using readsC v hf fns aug anno cs hid hinv hso
  | .binop _ _ l r, hf, fns, aug, anno, cs, hid, hinv, hso => by
      simp only [FragC, Bool.and_eq_true] at hf
      simp only [storesOkE, Bool.and_eq_true] at hso
      obtain ⟨r1, i1⟩ := readsC l hf.1 fns aug anno cs hid hinv hso.1
      obtain ⟨r2, i2⟩ := readsC r hf.2 fns aug anno _ hid i1 (by rw [effC_isEmpty]; exact hso.2)
      refine ⟨fun x hx => ?_, by simpa [effC] using i2⟩
      simp only [readsE, List.mem_append] at hx
      simp only [effC, Eff.append_read, List.mem_append]
      rcases hx with hx | hx
      · exact Or.inl (r1 x hx)
      · exact Or.inr (r2 x hx)
  | .compare _ l _ rs, hf, fns, aug, anno, cs, hid, hinv, hso => by
      simp only [FragC, Bool.and_eq_true] at hf
      simp only [storesOkE, Bool.and_eq_true] at hso
      obtain ⟨r1, i1⟩ := readsC l hf.1 fns aug anno cs hid hinv hso.1
      obtain ⟨r2, i2⟩ := readsCs rs hf.2 fns aug anno _ hid i1 (by rw [effC_isEmpty]; exact hso.2)
      refine ⟨fun x hx => ?_, by simpa [effC] using i2⟩
      simp only [readsE, List.mem_append] at hx
      simp only [effC, Eff.append_read, List.mem_append]
      rcases hx with hx | hx
      · exact Or.inl (r1 x hx)
      · exact Or.inr (r2 x hx)
  | .ifexp _ t b o, hf, fns, aug, anno, cs, hid, hinv, hso => by
      simp only [FragC, Bool.and_eq_true] at hf
      simp only [storesOkE, Bool.and_eq_true] at hso
      obtain ⟨r1, i1⟩ := readsC t hf.1.1 fns aug anno cs hid hinv hso.1.1
      obtain ⟨r2, i2⟩ := readsC b hf.1.2 fns aug anno _ hid i1 (by rw [effC_isEmpty]; exact hso.1.2)
      obtain ⟨r3, i3⟩ := readsC o hf.2 fns aug anno _ hid i2 (by rw [effC_isEmpty, effC_isEmpty]; exact hso.2)
      refine ⟨fun x hx => ?_, by simpa [effC] using i3⟩
      simp only [readsE, List.mem_append] at hx
      simp only [effC, Eff.append_read, List.mem_append]
      rcases hx with (hx | hx) | hx
      · exact Or.inl (Or.inl (r1 x hx))
      · exact Or.inl (Or.inr (r2 x hx))
      · exact Or.inr (r3 x hx)
  | .lambda i args body, hf, fns, aug, anno, cs, hid, hinv, hso => by
      cases args with
      | arguments ai po ar va ko kd kw df =>
        simp only [FragC, Bool.and_eq_true] at hf
        simp only [storesOkE, Bool.and_eq_true] at hso
        obtain ⟨r1, i1⟩ := readsCs kd hf.1.1.2 (.lam i :: fns) aug anno cs hid hinv hso.1.1
        obtain ⟨r2, i2⟩ := readsCs df hf.1.2 (.lam i :: fns) aug anno _ hid i1 (by rw [effCs_isEmpty]; exact hso.1.2)
        obtain ⟨_, i3⟩ := readsC body hf.2 (.lam i :: fns) aug anno _ hid i2 (by rw [effCs_isEmpty, effCs_isEmpty]; exact hso.2)
        refine ⟨fun x hx => ?_, by simpa [effC] using i3⟩
        simp only [readsE, List.mem_append] at hx
        simp only [effC, Eff.append_read, Eff.exported_false_read', List.mem_append]
        rcases hx with hx | hx
        · exact Or.inl (Or.inl (Or.inl (Or.inl (r1 x hx))))
        · exact Or.inl (Or.inl (Or.inl (Or.inr (r2 x hx))))
      | _ => simp [FragC] at hf
  | .seq _ _ es _, hf, fns, aug, anno, cs, hid, hinv, hso => by
      simp only [FragC] at hf
      simp only [storesOkE] at hso
      simpa [readsE, effC] using readsCs es hf fns aug anno cs hid hinv hso
  | .starred _ v _, hf, fns, aug, anno, cs, hid, hinv, hso => by
      simp only [FragC] at hf
      simp only [storesOkE] at hso
      simpa [readsE, effC] using readsC v hf fns aug anno cs hid hinv hso
  | .namedexpr _ t v, hf, fns, aug, anno, cs, hid, hinv, hso => by
      simp only [FragC, Bool.and_eq_true] at hf
      simp only [storesOkE, Bool.and_eq_true] at hso
      obtain ⟨r1, i1⟩ := readsC t hf.1 fns aug anno cs hid hinv hso.1
      obtain ⟨r2, i2⟩ := readsC v hf.2 fns aug anno _ hid i1 (by rw [effC_isEmpty]; exact hso.2)
      refine ⟨fun x hx => ?_, by simpa [effC] using i2⟩
      simp only [readsE, List.mem_append] at hx
      simp only [effC, Eff.append_read, List.mem_append]
      rcases hx with hx | hx
      · exact Or.inl (r1 x hx)
      · exact Or.inr (r2 x hx)
  | .comp _ _ elts gens, hf, fns, aug, anno, cs, hid, hinv, hso => by
      cases gens with
      | nil => simp [storesOkE] at hso
      | cons g rest =>
        cases g with
        | comprehension gi t it ifs ia =>
          simp only [FragC, FragCs, Bool.and_eq_true] at hf
          obtain ⟨helts, ⟨⟨hft, hfit⟩, hfifs⟩, hfrest⟩ := hf
          simp only [storesOkE, storesOkEs, Bool.and_eq_true] at hso
          obtain ⟨⟨hit0, ⟨⟨hst, hsit⟩, hsifs⟩, hsrest⟩, hselts⟩ := hso
          have hsub : ∀ s ∈ hid, s ∈ compTargets (.comprehension gi t it ifs ia :: rest) ++ hid :=
            fun s hs => List.mem_append_right _ hs
          have inv0 : CompInv ([] :: cs) hid := hinv.cons_nil
          obtain ⟨r1, i1⟩ := readsC it hfit fns aug anno ([] :: cs) hid inv0 (by simpa using hit0)
          have i1' := i1.mono hsub
          obtain ⟨r2, i2⟩ := readsC t hft fns aug anno _ _ i1' (by rw [effC_isEmpty]; simpa using hst)
          obtain ⟨_, i3⟩ := readsC t hft fns aug anno _ _ i2 (by rw [effC_isEmpty, effC_isEmpty]; simpa using hst)
          obtain ⟨_, i4⟩ := readsC it hfit fns aug anno _ _ i3 (by rw [effC_isEmpty, effC_isEmpty, effC_isEmpty]; simpa using hsit)
          obtain ⟨r5, i5⟩ := readsCs ifs hfifs fns aug anno _ _ i4
            (by rw [effC_isEmpty, effC_isEmpty, effC_isEmpty, effC_isEmpty]; simpa using hsifs)
          obtain ⟨r6, i6⟩ := readsCs rest hfrest fns aug anno _ _ i5
            (by rw [effCs_isEmpty, effC_isEmpty, effC_isEmpty, effC_isEmpty, effC_isEmpty]; simpa using hsrest)
          obtain ⟨r7, _⟩ := readsCs elts helts fns aug anno _ _ i6
            (by rw [effCs_isEmpty, effCs_isEmpty, effC_isEmpty, effC_isEmpty, effC_isEmpty, effC_isEmpty]; simpa using hselts)
          refine ⟨fun x hx => ?_, ?_⟩
          · simp only [readsE, List.mem_append] at hx
            simp only [effC, effCs, Eff.append_read, List.mem_append]
            rcases hx with (((hx | hx) | hx) | hx) | hx
            · have := r1 x hx; grind
            · have := r2 x hx; grind
            · have := r5 x hx; grind
            · have := r6 x hx; grind
            · have := r7 x hx; grind
          · simp only [effC]
            obtain ⟨a, ha⟩ := tail_step (effCs_len (.comprehension gi t it ifs ia :: rest) fns aug anno ([] :: cs))
              (effCs_tail (.comprehension gi t it ifs ia :: rest) fns aug anno [] cs)
            rw [ha, effCs_tail elts fns aug anno a cs]
            exact hinv
        | _ => simp [storesOkE] at hso
  | .comprehension _ t it ifs _, hf, fns, aug, anno, cs, hid, hinv, hso => by
      simp only [FragC, Bool.and_eq_true] at hf
      simp only [storesOkE, Bool.and_eq_true] at hso
      obtain ⟨r1, i1⟩ := readsC it hf.1.2 fns aug anno cs hid hinv hso.1.2
      obtain ⟨r2, i2⟩ := readsC t hf.1.1 fns aug anno _ hid i1 (by rw [effC_isEmpty]; exact hso.1.1)
      obtain ⟨_, i3⟩ := readsC t hf.1.1 fns aug anno _ hid i2 (by rw [effC_isEmpty, effC_isEmpty]; exact hso.1.1)
      obtain ⟨_, i4⟩ := readsC it hf.1.2 fns aug anno _ hid i3 (by rw [effC_isEmpty, effC_isEmpty, effC_isEmpty]; exact hso.1.2)
      obtain ⟨r5, i5⟩ := readsCs ifs hf.2 fns aug anno _ hid i4 (by rw [effC_isEmpty, effC_isEmpty, effC_isEmpty, effC_isEmpty]; exact hso.2)
      refine ⟨fun x hx => ?_, by simpa [effC] using i5⟩
      simp only [readsE, List.mem_append] at hx
      simp only [effC, Eff.append_read, List.mem_append]
      rcases hx with (hx | hx) | hx
      · exact Or.inl (Or.inl (Or.inl (Or.inl (r1 x hx))))
      · exact Or.inl (Or.inl (Or.inl (Or.inr (r2 x hx))))
      · exact Or.inr (r5 x hx)
  | .arguments .., hf, _, _, _, _, _, _, _ => by simp [FragC] at hf
  | .arg .., hf, _, _, _, _, _, _, _ => by simp [FragC] at hf
  | .withitem _ c v, hf, fns, aug, anno, cs, hid, hinv, hso => by
      simp only [FragC, Bool.and_eq_true] at hf
      simp only [storesOkE, Bool.and_eq_true] at hso
      obtain ⟨r1, i1⟩ := readsC c hf.1 fns aug anno cs hid hinv hso.1
      obtain ⟨r2, i2⟩ := readsCs v hf.2 fns aug anno _ hid i1 (by rw [effC_isEmpty]; exact hso.2)
      refine ⟨fun x hx => ?_, by simpa [effC] using i2⟩
      simp only [readsE, List.mem_append] at hx
      simp only [effC, Eff.append_read, Eff.exported_false_read', List.mem_append]
      rcases hx with hx | hx
      · exact Or.inl (r1 x hx)
      · exact Or.inr (r2 x hx)
  | .other _ _ _ kids, hf, fns, aug, anno, cs, hid, hinv, hso => by
      simp only [FragC] at hf
      simp only [storesOkE] at hso
      simpa [readsE, effC] using readsCs kids hf fns aug anno cs hid hinv hso
theorem readsCs : (es : List Expr) → FragCs es = true → (fns : List FnCtx) → (aug anno : Bool) → (cs : List QSet) → (hid : List String) →
    CompInv cs hid → storesOkEs (!cs.isEmpty) hid es = true →
    (∀ x ∈ readsEs hid es, QN.sym x ∈ (effCs fns aug anno cs es).1.read) ∧ CompInv (effCs fns aug anno cs es).2 hid
  | [], _, _, _, _, cs, hid, hinv, _ => by simp [readsEs, effCs, hinv]
  | e :: rest, hf, fns, aug, anno, cs, hid, hinv, hso => by
      simp only [FragCs, Bool.and_eq_true] at hf
      simp only [storesOkEs, Bool.and_eq_true] at hso
      obtain ⟨r1, i1⟩ := readsC e hf.1 fns aug anno cs hid hinv hso.1
      obtain ⟨r2, i2⟩ := readsCs rest hf.2 fns aug anno _ hid i1 (by rw [effC_isEmpty]; exact hso.2)
      refine ⟨fun x hx => ?_, by simpa [effCs] using i2⟩
      simp only [readsEs, List.mem_append] at hx
      simp only [effCs, Eff.append_read, List.mem_append]
      rcases hx with hx | hx
      · exact Or.inl (r1 x hx)
      · exact Or.inr (r2 x hx)
end

end Malt.Analysis

namespace Malt.Analysis
open Malt.Py Malt.Spec

mutual
/-- Inside a comprehension whose stores are all iteration variables, nothing of the enclosing function is rebound. -/
theorem writes_nil : (e : Expr) → (hid : List String) → storesOkE true hid e = true → writesE hid e = []
  | .name _ s c, hid, h => by
      simp only [storesOkE, Bool.not_true, Bool.or_false, Bool.or_eq_true, bne_iff_ne, ne_eq, List.contains_eq_mem,
        decide_eq_true_eq] at h
      simp only [writesE]
      split
      · rename_i hh
        simp only [Bool.and_eq_true, beq_iff_eq, Bool.not_eq_true', List.contains_eq_mem, decide_eq_false_iff_not] at hh
        rcases h with h | h
        · exact absurd hh.1 h
        · exact absurd h hh.2
      · rfl
  | .const .., _, _ => by simp [writesE]
  | .noneMarker, _, _ => by simp [writesE]
  | .attr _ v _ _, hid, h => by simp only [storesOkE] at h; simp [writesE, writes_nil v hid h]
  | .subscript _ v s _, hid, h => by
      simp only [storesOkE, Bool.and_eq_true] at h; simp [writesE, writes_nil v hid h.1, writes_nil s hid h.2]
  | .call _ f as ks, hid, h => by
      simp only [storesOkE, Bool.and_eq_true] at h
      simp [writesE, writes_nil f hid h.1.1, writess_nil as hid h.1.2, writess_nil ks hid h.2]
  | .keyword _ _ _ v, hid, h => by simp only [storesOkE] at h; simp [writesE, writes_nil v hid h]
  | .boolop _ _ vs, hid, h => by simp only [storesOkE] at h; simp [writesE, writess_nil vs hid h]
  | .unary _ _ v, hid, h => by simp only [storesOkE] at h; simp [writesE, writes_nil v hid h]
  | .binop _ _ l r, hid, h => by
      simp only [storesOkE, Bool.and_eq_true] at h; simp [writesE, writes_nil l hid h.1, writes_nil r hid h.2]
  | .compare _ l _ rs, hid, h => by
      simp only [storesOkE, Bool.and_eq_true] at h; simp [writesE, writes_nil l hid h.1, writess_nil rs hid h.2]
  | .ifexp _ t b o, hid, h => by
      simp only [storesOkE, Bool.and_eq_true] at h
      simp [writesE, writes_nil t hid h.1.1, writes_nil b hid h.1.2, writes_nil o hid h.2]
  | .lambda _ args body, hid, h => by
      cases args with
      | arguments ai po ar va ko kd kw df =>
        simp only [storesOkE, Bool.and_eq_true] at h
        simp [writesE, writess_nil kd hid h.1.1, writess_nil df hid h.1.2]
      | _ => simp [writesE]
  | .seq _ _ es _, hid, h => by simp only [storesOkE] at h; simp [writesE, writess_nil es hid h]
  | .starred _ v _, hid, h => by simp only [storesOkE] at h; simp [writesE, writes_nil v hid h]
  | .namedexpr _ t v, hid, h => by
      simp only [storesOkE, Bool.and_eq_true] at h; simp [writesE, writes_nil t hid h.1, writes_nil v hid h.2]
  | .comp _ _ elts gens, hid, h => by
      cases gens with
      | nil => simp [writesE]
      | cons g rest =>
        cases g with
        | comprehension gi t it ifs ia =>
          simp only [storesOkE, storesOkEs, Bool.and_eq_true] at h
          obtain ⟨⟨hit0, ⟨⟨hst, _⟩, hsifs⟩, hsrest⟩, hselts⟩ := h
          simp [writesE, writes_nil it hid hit0, writes_nil t _ hst, writess_nil ifs _ hsifs, writess_nil rest _ hsrest,
            writess_nil elts _ hselts]
        | _ => simp [writesE]
  | .comprehension _ t it ifs _, hid, h => by
      simp only [storesOkE, Bool.and_eq_true] at h
      simp [writesE, writes_nil t hid h.1.1, writes_nil it hid h.1.2, writess_nil ifs hid h.2]
  | .arguments .., _, _ => by simp [writesE]
  | .arg _ _ an, hid, h => by simp only [storesOkE] at h; simp [writesE, writess_nil an hid h]
  | .withitem _ c v, hid, h => by
      simp only [storesOkE, Bool.and_eq_true] at h; simp [writesE, writes_nil c hid h.1, writess_nil v hid h.2]
  | .other _ _ _ kids, hid, h => by simp only [storesOkE] at h; simp [writesE, writess_nil kids hid h]
theorem writess_nil : (es : List Expr) → (hid : List String) → storesOkEs true hid es = true → writesEs hid es = []
  | [], _, _ => by simp [writesEs]
  | e :: rest, hid, h => by
      simp only [storesOkEs, Bool.and_eq_true] at h
      simp [writesEs, writes_nil e hid h.1, writess_nil rest hid h.2]
end

end Malt.Analysis

namespace Malt.Analysis
open Malt.Py Malt.Spec

@[simp] theorem Eff.exported_false_modified' (d : Eff) : (d.exported false).modified = d.modified := rfl

mutual
/-- Every variable that evaluating `e` rebinds is in the `modified` effect (no comprehension open around `e`). -/
theorem writesC0 : (e : Expr) → FragC e = true → storesOkE false [] e = true → (fns : List FnCtx) → (aug anno : Bool) →
    ∀ x ∈ writesE [] e, QN.sym x ∈ (effC fns aug anno [] e).1.modified
  | .name _ s c, _, _, fns, aug, anno => by
      intro x hx
      cases c <;> simp [writesE] at hx
      subst hx
      simp [effC, trackC, hiddenByComps, trackEff]
  | .const .., _, _, _, _, _ => by simp [writesE]
  | .noneMarker, _, _, _, _, _ => by simp [writesE]
  | .attr i v a c, hf, hs, fns, aug, anno => by
      simp only [FragC] at hf
      simp only [storesOkE] at hs
      intro x hx
      simp only [writesE] at hx
      simp only [effC, Eff.append_modified, List.mem_append]
      exact Or.inl (writesC0 v hf hs fns aug anno x hx)
  | .subscript i v s c, hf, hs, fns, aug, anno => by
      simp only [FragC, Bool.and_eq_true] at hf
      simp only [storesOkE, Bool.and_eq_true] at hs
      intro x hx
      simp only [writesE, List.mem_append] at hx
      simp only [effC, effC_nil, Eff.append_modified, List.mem_append]
      rcases hx with hx | hx
      · exact Or.inl (Or.inl (writesC0 v hf.1 hs.1 fns aug anno x hx))
      · exact Or.inl (Or.inr (writesC0 s hf.2 hs.2 fns aug anno x hx))
  | .call _ f as ks, hf, hs, fns, aug, anno => by
      simp only [FragC, Bool.and_eq_true] at hf
      simp only [storesOkE, Bool.and_eq_true] at hs
      intro x hx
      simp only [writesE, List.mem_append] at hx
      simp only [effC, effCs_nil, Eff.append_modified, Eff.exported_false_modified', List.mem_append]
      rcases hx with (hx | hx) | hx
      · exact Or.inr (writesC0 f hf.1.1 hs.1.1 fns aug anno x hx)
      · exact Or.inl (Or.inl (writesCs0 as hf.1.2 hs.1.2 fns aug anno x hx))
      · exact Or.inl (Or.inr (writesCs0 ks hf.2 hs.2 fns aug anno x hx))
  | .keyword _ _ _ v, hf, hs, fns, aug, anno => by
      simp only [FragC] at hf
      simp only [storesOkE] at hs
      simpa [writesE, effC] using writesC0 v hf hs fns aug anno
  | .boolop _ _ vs, hf, hs, fns, aug, anno => by
      simp only [FragC] at hf
      simp only [storesOkE] at hs
      simpa [writesE, effC] using writesCs0 vs hf hs fns aug anno
  | .unary _ _ v, hf, hs, fns, aug, anno => by
      simp only [FragC] at hf
      simp only [storesOkE] at hs
      simpa [writesE, effC] using writesC0 v hf hs fns aug anno
  | .binop _ _ l r, hf, hs, fns, aug, anno => by
      simp only [FragC, Bool.and_eq_true] at hf
      simp only [storesOkE, Bool.and_eq_true] at hs
      intro x hx
      simp only [writesE, List.mem_append] at hx
      simp only [effC, effC_nil, Eff.append_modified, List.mem_append]
      rcases hx with hx | hx
      · exact Or.inl (writesC0 l hf.1 hs.1 fns aug anno x hx)
      · exact Or.inr (writesC0 r hf.2 hs.2 fns aug anno x hx)
  | .compare _ l _ rs, hf, hs, fns, aug, anno => by
      simp only [FragC, Bool.and_eq_true] at hf
      simp only [storesOkE, Bool.and_eq_true] at hs
      intro x hx
      simp only [writesE, List.mem_append] at hx
      simp only [effC, effC_nil, Eff.append_modified, List.mem_append]
      rcases hx with hx | hx
      · exact Or.inl (writesC0 l hf.1 hs.1 fns aug anno x hx)
      · exact Or.inr (writesCs0 rs hf.2 hs.2 fns aug anno x hx)
  | .ifexp _ t b o, hf, hs, fns, aug, anno => by
      simp only [FragC, Bool.and_eq_true] at hf
      simp only [storesOkE, Bool.and_eq_true] at hs
      intro x hx
      simp only [writesE, List.mem_append] at hx
      simp only [effC, effC_nil, Eff.append_modified, List.mem_append]
      rcases hx with (hx | hx) | hx
      · exact Or.inl (Or.inl (writesC0 t hf.1.1 hs.1.1 fns aug anno x hx))
      · exact Or.inl (Or.inr (writesC0 b hf.1.2 hs.1.2 fns aug anno x hx))
      · exact Or.inr (writesC0 o hf.2 hs.2 fns aug anno x hx)
  | .lambda i args body, hf, hs, fns, aug, anno => by
      cases args with
      | arguments ai po ar va ko kd kw df =>
        simp only [FragC, Bool.and_eq_true] at hf
        simp only [storesOkE, Bool.and_eq_true] at hs
        intro x hx
        simp only [writesE, List.mem_append] at hx
        simp only [effC, effCs_nil, Eff.append_modified, Eff.exported_false_modified', List.mem_append]
        rcases hx with hx | hx
        · exact Or.inl (Or.inl (Or.inl (Or.inl (writesCs0 kd hf.1.1.2 hs.1.1 _ aug anno x hx))))
        · exact Or.inl (Or.inl (Or.inl (Or.inr (writesCs0 df hf.1.2 hs.1.2 _ aug anno x hx))))
      | _ => simp [FragC] at hf
  | .seq _ _ es _, hf, hs, fns, aug, anno => by
      simp only [FragC] at hf
      simp only [storesOkE] at hs
      simpa [writesE, effC] using writesCs0 es hf hs fns aug anno
  | .starred _ v _, hf, hs, fns, aug, anno => by
      simp only [FragC] at hf
      simp only [storesOkE] at hs
      simpa [writesE, effC] using writesC0 v hf hs fns aug anno
  | .namedexpr _ t v, hf, hs, fns, aug, anno => by
      simp only [FragC, Bool.and_eq_true] at hf
      simp only [storesOkE, Bool.and_eq_true] at hs
      intro x hx
      simp only [writesE, List.mem_append] at hx
      simp only [effC, effC_nil, Eff.append_modified, List.mem_append]
      rcases hx with hx | hx
      · exact Or.inl (writesC0 t hf.1 hs.1 fns aug anno x hx)
      · exact Or.inr (writesC0 v hf.2 hs.2 fns aug anno x hx)
  | .comp ci ck elts gens, _, hs, fns, aug, anno => by
      intro x hx
      have hs' : storesOkE true [] (.comp ci ck elts gens) = true := by
        cases gens with
        | nil => simp [storesOkE] at hs
        | cons g rest =>
          cases g with
          | comprehension gi t it ifs ia => simp only [storesOkE] at hs ⊢; exact hs
          | _ => simp [storesOkE] at hs
      rw [writes_nil (.comp ci ck elts gens) [] hs'] at hx
      simp at hx
  | .comprehension _ t it ifs _, hf, hs, fns, aug, anno => by
      simp only [FragC, Bool.and_eq_true] at hf
      simp only [storesOkE, Bool.and_eq_true] at hs
      intro x hx
      simp only [writesE, List.mem_append] at hx
      simp only [effC, effC_nil, Eff.append_modified, List.mem_append]
      rcases hx with (hx | hx) | hx
      · exact Or.inl (Or.inl (Or.inl (Or.inl (writesC0 it hf.1.2 hs.1.2 fns aug anno x hx))))
      · exact Or.inl (Or.inl (Or.inl (Or.inr (writesC0 t hf.1.1 hs.1.1 fns aug anno x hx))))
      · exact Or.inr (writesCs0 ifs hf.2 hs.2 fns aug anno x hx)
  | .arguments .., hf, _, _, _, _ => by simp [FragC] at hf
  | .arg .., hf, _, _, _, _ => by simp [FragC] at hf
  | .withitem _ c v, hf, hs, fns, aug, anno => by
      simp only [FragC, Bool.and_eq_true] at hf
      simp only [storesOkE, Bool.and_eq_true] at hs
      intro x hx
      simp only [writesE, List.mem_append] at hx
      simp only [effC, effC_nil, Eff.append_modified, Eff.exported_false_modified', List.mem_append]
      rcases hx with hx | hx
      · exact Or.inl (writesC0 c hf.1 hs.1 fns aug anno x hx)
      · exact Or.inr (writesCs0 v hf.2 hs.2 fns aug anno x hx)
  | .other _ _ _ kids, hf, hs, fns, aug, anno => by
      simp only [FragC] at hf
      simp only [storesOkE] at hs
      simpa [writesE, effC] using writesCs0 kids hf hs fns aug anno
theorem writesCs0 : (es : List Expr) → FragCs es = true → storesOkEs false [] es = true → (fns : List FnCtx) → (aug anno : Bool) →
    ∀ x ∈ writesEs [] es, QN.sym x ∈ (effCs fns aug anno [] es).1.modified
  | [], _, _, _, _, _ => by simp [writesEs]
  | e :: rest, hf, hs, fns, aug, anno => by
      simp only [FragCs, Bool.and_eq_true] at hf
      simp only [storesOkEs, Bool.and_eq_true] at hs
      intro x hx
      simp only [writesEs, List.mem_append] at hx
      simp only [effCs, effC_nil, Eff.append_modified, List.mem_append]
      rcases hx with hx | hx
      · exact Or.inl (writesC0 e hf.1 hs.1 fns aug anno x hx)
      · exact Or.inr (writesCs0 rest hf.2 hs.2 fns aug anno x hx)
end

/-- Reads at statement level. -/
theorem readsC0 (e : Expr) (hf : FragC e = true) (hs : storesOkE false [] e = true) (fns : List FnCtx) (aug anno : Bool) :
    ∀ x ∈ readsE [] e, QN.sym x ∈ (effC fns aug anno [] e).1.read :=
  (readsC e hf fns aug anno [] [] (CompInv.nil _) (by simpa using hs)).1

theorem readsCs0 (es : List Expr) (hf : FragCs es = true) (hs : storesOkEs false [] es = true) (fns : List FnCtx) (aug anno : Bool) :
    ∀ x ∈ readsEs [] es, QN.sym x ∈ (effCs fns aug anno [] es).1.read :=
  (readsCs es hf fns aug anno [] [] (CompInv.nil _) (by simpa using hs)).1

end Malt.Analysis

namespace Malt.Analysis
open Malt.Py Malt.Spec

/-! ### the fragment of the dynamic theorem with comprehensions -/

theorem FragDs_iff (es : List Expr) : FragDs es = true ↔ FragCs es = true ∧ storesOkEs false [] es = true := by
  induction es with
  | nil => simp [FragDs, FragCs, storesOkEs]
  | cons e r ih => simp only [FragDs, FragD, FragCs, storesOkEs, Bool.and_eq_true, ih]; grind

theorem visitE_addsD (e : Expr) (st : St) (h : Plain st) (hf : FragD e = true) (fns : List FnCtx) (aug anno : Bool)
    (hc : InCtx st fns aug anno) : Adds st (visitE e st) (effC fns aug anno [] e).1 := by
  simp only [FragD, Bool.and_eq_true] at hf
  exact visitE_addsC0 e st h hf.1 fns aug anno hc

theorem visitEs_addsD (es : List Expr) (st : St) (h : Plain st) (hf : FragDs es = true) (fns : List FnCtx) (aug anno : Bool)
    (hc : InCtx st fns aug anno) : Adds st (visitEs es st) (effCs fns aug anno [] es).1 :=
  visitEs_addsC0 es st h ((FragDs_iff es).mp hf).1 fns aug anno hc

theorem readsD (e : Expr) (hf : FragD e = true) (fns : List FnCtx) (aug anno : Bool) :
    ∀ x ∈ readsE [] e, QN.sym x ∈ (effC fns aug anno [] e).1.read := by
  simp only [FragD, Bool.and_eq_true] at hf
  exact readsC0 e hf.1 hf.2 fns aug anno

theorem readsDs (es : List Expr) (hf : FragDs es = true) (fns : List FnCtx) (aug anno : Bool) :
    ∀ x ∈ readsEs [] es, QN.sym x ∈ (effCs fns aug anno [] es).1.read :=
  readsCs0 es ((FragDs_iff es).mp hf).1 ((FragDs_iff es).mp hf).2 fns aug anno

theorem writesD (e : Expr) (hf : FragD e = true) (fns : List FnCtx) (aug anno : Bool) :
    ∀ x ∈ writesE [] e, QN.sym x ∈ (effC fns aug anno [] e).1.modified := by
  simp only [FragD, Bool.and_eq_true] at hf
  exact writesC0 e hf.1 hf.2 fns aug anno

theorem writesDs (es : List Expr) (hf : FragDs es = true) (fns : List FnCtx) (aug anno : Bool) :
    ∀ x ∈ writesEs [] es, QN.sym x ∈ (effCs fns aug anno [] es).1.modified :=
  writesCs0 es ((FragDs_iff es).mp hf).1 ((FragDs_iff es).mp hf).2 fns aug anno

mutual
theorem delsD : (e : Expr) → (fns : List FnCtx) → (aug anno : Bool) →
    ∀ x ∈ delNames e, QN.sym x ∈ (effC fns aug anno [] e).1.deleted
  | .name _ s c, fns, aug, anno => by
      intro x hx
      cases c <;> simp [delNames] at hx
      subst hx
      simp [effC, trackC, hiddenByComps, trackEff]
  | .seq _ _ es _, fns, aug, anno => by simpa [delNames, effC] using delsDs es fns aug anno
  | .starred _ v _, fns, aug, anno => by simpa [delNames, effC] using delsD v fns aug anno
  | .const .., _, _, _ | .noneMarker, _, _, _ | .attr .., _, _, _ | .subscript .., _, _, _ | .call .., _, _, _
  | .keyword .., _, _, _ | .boolop .., _, _, _ | .unary .., _, _, _ | .binop .., _, _, _ | .compare .., _, _, _
  | .ifexp .., _, _, _ | .lambda .., _, _, _ | .namedexpr .., _, _, _ | .comp .., _, _, _ | .comprehension .., _, _, _
  | .arguments .., _, _, _ | .arg .., _, _, _ | .withitem .., _, _, _ | .other .., _, _, _ => by simp [delNames]
theorem delsDs : (es : List Expr) → (fns : List FnCtx) → (aug anno : Bool) →
    ∀ x ∈ delNamesL es, QN.sym x ∈ (effCs fns aug anno [] es).1.deleted
  | [], _, _, _ => by simp [delNamesL]
  | e :: rest, fns, aug, anno => by
      intro x hx
      simp only [delNamesL, List.mem_append] at hx
      simp only [effCs, effC_nil, Eff.append_deleted, List.mem_append]
      rcases hx with hx | hx
      · exact Or.inl (delsD e fns aug anno x hx)
      · exact Or.inr (delsDs rest fns aug anno x hx)
end

mutual
theorem augTargetsD : (e : Expr) → (fns : List FnCtx) → (anno : Bool) →
    ∀ x ∈ targetNames e, QN.sym x ∈ (effC fns true anno [] e).1.read
  | .name _ s c, fns, anno => by
      intro x hx
      simp [targetNames] at hx
      subst hx
      cases c <;> simp [effC, trackC, hiddenByComps, trackEff]
  | .seq _ _ es _, fns, anno => by simpa [targetNames, effC] using augTargetsDs es fns anno
  | .starred _ v _, fns, anno => by simpa [targetNames, effC] using augTargetsD v fns anno
  | .const .., _, _ | .noneMarker, _, _ | .attr .., _, _ | .subscript .., _, _ | .call .., _, _
  | .keyword .., _, _ | .boolop .., _, _ | .unary .., _, _ | .binop .., _, _ | .compare .., _, _
  | .ifexp .., _, _ | .lambda .., _, _ | .namedexpr .., _, _ | .comp .., _, _ | .comprehension .., _, _
  | .arguments .., _, _ | .arg .., _, _ | .withitem .., _, _ | .other .., _, _ => by simp [targetNames]
theorem augTargetsDs : (es : List Expr) → (fns : List FnCtx) → (anno : Bool) →
    ∀ x ∈ targetNamesL es, QN.sym x ∈ (effCs fns true anno [] es).1.read
  | [], _, _ => by simp [targetNamesL]
  | e :: rest, fns, anno => by
      intro x hx
      simp only [targetNamesL, List.mem_append] at hx
      simp only [effCs, effC_nil, Eff.append_read, List.mem_append]
      rcases hx with hx | hx
      · exact Or.inl (augTargetsD e fns anno x hx)
      · exact Or.inr (augTargetsDs rest fns anno x hx)
end

end Malt.Analysis

namespace Malt.Analysis
open Malt.Py Malt.Spec

/-! ### statement level (generated from `C08Activity` / `C08Dynamic` by renaming) -/

/-- `if node.returns: node.returns = self._process_annotation(node.returns)`. -/
theorem returnsStep_addsD (returns : List Expr) {st : St} {fns} (p : PlainS st fns)
    (ih : ∀ s, Plain s → InCtx s fns false true → Adds s (visitEs returns s) ((effCs fns false true [] returns).1)) :
    Adds st (if returns.isEmpty = true then st else (visitEs returns (st.setInAnno true)).setInAnno false)
      ((effCs fns false true [] returns).1) := by
  cases returns with
  | nil => simpa [effCs] using Adds.refl p.plain
  | cons r rs =>
    obtain ⟨hp, hc⟩ := p.setInAnno
    simpa using anno_bracket p (ih _ hp hc)

mutual
theorem visitS_addsD : (s : Stmt) → (st : St) → (fns : List FnCtx) → PlainS st fns → FragSD s = true →
    Adds st (visitS s st) (effSC fns s)
  | .ret i v, st, fns, p, hf => by
      simp only [FragSD] at hf
      simp only [visitS, effSC]
      exact Adds.scopedAdds p.plain false none
        (visitEs_addsD v _ (St.enter_plain p.plain false none) hf fns false false (p.ctx.enter false none)) _
  | .delete i ts, st, fns, p, hf => by
      simp only [FragSD] at hf
      simp only [visitS, effSC]
      exact Adds.scopedAdds p.plain false none
        (visitEs_addsD ts _ (St.enter_plain p.plain false none) hf fns false false (p.ctx.enter false none)) _
  | .assign i ts v, st, fns, p, hf => by
      simp only [FragSD, Bool.and_eq_true] at hf
      simp only [visitS, effSC]
      have A1 := visitEs_addsD ts _ (St.enter_plain p.plain false none) hf.1 fns false false (p.ctx.enter false none)
      have A2 := A1.trans (visitE_addsD v _ A1.plain hf.2 fns false false (A1.inCtx (p.ctx.enter false none)))
      exact Adds.scopedAdds p.plain false none A2 _
  | .augAssign i t op v, st, fns, p, hf => by
      simp only [FragSD, Bool.and_eq_true] at hf
      simp only [visitS, effSC]
      have p1 := p.enter false none
      obtain ⟨hp, hc⟩ := p1.setInAug
      have A1 := aug_bracket p1 (visitE_addsD t _ hp hf.1 fns true false hc)
      have A2 := A1.trans (visitE_addsD v _ A1.plain hf.2 fns false false (A1.inCtx p1.ctx))
      exact Adds.scopedAdds p.plain false none A2 _
  | .annAssign i t an v simple, st, fns, p, hf => by
      simp only [FragSD, Bool.and_eq_true] at hf
      simp only [visitS, effSC]
      have p1 := p.enter false none
      have A1 := visitE_addsD t _ p1.plain hf.1.1 fns false false p1.ctx
      have A2 := A1.trans (visitEs_addsD v _ A1.plain hf.2 fns false false (A1.inCtx p1.ctx))
      obtain ⟨hp, hc⟩ := (A2.plainS p1).setInAnno
      have A3 := A2.trans (anno_bracket (A2.plainS p1) (visitE_addsD an _ hp hf.1.2 fns false true hc))
      exact Adds.scopedAdds p.plain false none A3 _
  | .raise i e c, st, fns, p, hf => by
      simp only [FragSD, Bool.and_eq_true] at hf
      simp only [visitS, effSC]
      have A1 := visitEs_addsD e _ (St.enter_plain p.plain false none) hf.1 fns false false (p.ctx.enter false none)
      have A2 := A1.trans (visitEs_addsD c _ A1.plain hf.2 fns false false (A1.inCtx (p.ctx.enter false none)))
      exact Adds.scopedAdds p.plain false none A2 _
  | .assert_ i t m, st, fns, p, hf => by
      simp only [FragSD, Bool.and_eq_true] at hf
      simp only [visitS, effSC]
      have A1 := visitE_addsD t _ (St.enter_plain p.plain false none) hf.1 fns false false (p.ctx.enter false none)
      have A2 := A1.trans (visitEs_addsD m _ A1.plain hf.2 fns false false (A1.inCtx (p.ctx.enter false none)))
      exact Adds.scopedAdds p.plain false none A2 _
  | .expr i v, st, fns, p, hf => by
      simp only [FragSD] at hf
      simp only [visitS, effSC]
      exact Adds.scopedAdds p.plain false none
        (visitE_addsD v _ (St.enter_plain p.plain false none) hf fns false false (p.ctx.enter false none)) _
  | .import_ i names, st, fns, p, _ => by
      simp only [visitS, effSC]
      exact Adds.scopedAdds p.plain false none (visitAliases_adds names (St.enter_plain p.plain false none)) _
  | .importFrom i m names l, st, fns, p, _ => by
      simp only [visitS, effSC]
      exact Adds.scopedAdds p.plain false none (visitAliases_adds names (St.enter_plain p.plain false none)) _
  | .global i names, st, fns, p, _ => by
      simp only [visitS, effSC]
      exact Adds.scopedAdds p.plain false none (declGlobals_adds names (St.enter_plain p.plain false none)) _
  | .nonlocal i names, st, fns, p, _ => by
      simp only [visitS, effSC]
      exact Adds.scopedAdds p.plain false none (declNonlocals_adds names (St.enter_plain p.plain false none)) _
  | .pass _, st, fns, p, _ => by simpa [visitS, effSC] using Adds.refl p.plain
  | .break_ _, st, fns, p, _ => by simpa [visitS, effSC] using Adds.refl p.plain
  | .continue_ _, st, fns, p, _ => by simpa [visitS, effSC] using Adds.refl p.plain
  | .other _ _ es bs, st, fns, p, hf => by
      simp only [FragSD, Bool.and_eq_true] at hf
      simp only [visitS, effSC]
      have A1 := visitEs_addsD es _ p.plain hf.1 fns false false p.ctx
      exact A1.trans (visitSs_addsD bs _ fns (A1.plainS p) hf.2)
  | .try_ _ b h o f, st, fns, p, hf => by
      simp only [FragSD, Bool.and_eq_true] at hf
      simp only [visitS, effSC]
      have A1 := visitSs_addsD b _ fns p hf.1.1.1
      have A2 := A1.trans (visitSs_addsD h _ fns (A1.plainS p) hf.1.1.2)
      have A3 := A2.trans (visitSs_addsD o _ fns (A2.plainS p) hf.1.2)
      exact A3.trans (visitSs_addsD f _ fns (A3.plainS p) hf.2)
  | .handler _ ty name body, st, fns, p, hf => by
      simp only [FragSD, Bool.and_eq_true] at hf
      simp only [visitS, effSC]
      have p1 := p.enter false none
      have E : Adds (st.enter false) (if name.isEmpty = true then st.enter false else (st.enter false).setErr) {} := by
        split
        · exact Adds.refl p1.plain
        · exact ⟨p1.plain.ne, rfl, ScopeAdds.refl _, rfl, rfl, rfl, p1.plain.annoOnly, p1.plain.comps, ⟨[], rfl⟩⟩
      have A1 := E.trans (visitEs_addsD ty _ E.plain hf.1 fns false false (E.inCtx p1.ctx))
      have A2 := A1.trans (visitSs_addsD body _ fns (A1.plainS p1) hf.2)
      exact (Adds.scopedAdds p.plain false none A2 []).congr (by eff_equiv)
  | .with_ i items body isAsync, st, fns, p, hf => by
      simp only [FragSD, Bool.and_eq_true, Bool.not_eq_true'] at hf
      obtain ⟨⟨⟨ha, hi⟩, -⟩, hb⟩ := hf
      subst ha
      simp only [visitS, effSC, Bool.false_eq_true, ↓reduceIte]
      have p1 := p.enter false none
      have A1 := visitEs_addsD items _ p1.plain hi fns false false p1.ctx
      have A2 := A1.trans (visitSs_addsD body _ fns (A1.plainS p1) hb)
      exact Adds.scopedAdds p.plain false none A2 _
  | .if_ i test body orelse, st, fns, p, hf => by
      simp only [FragSD, Bool.and_eq_true] at hf
      simp only [visitS, effSC]
      have S1 := Adds.scopedAdds p.plain false none
        (visitE_addsD test _ (St.enter_plain p.plain false none) hf.1.1 fns false false (p.ctx.enter false none))
        [(test.id, .scope), (i, .condScope)]
      have P := parallel_blocks (S1.plainS p)
        (fun s => ((s.enter false) |> visitSs body).exitWith [(i, .bodyScope)])
        (fun s => ((s.enter false) |> visitSs orelse).exitWith [(i, .orelseScope)]) _ _
        (fun s ps => Adds.scopedAdds ps.plain false none (visitSs_addsD body _ fns (ps.enter false none) hf.1.2) _)
        (fun s ps => Adds.scopedAdds ps.plain false none (visitSs_addsD orelse _ fns (ps.enter false none) hf.2) _)
      exact S1.trans P
  | .while_ i test body orelse, st, fns, p, hf => by
      simp only [FragSD, Bool.and_eq_true] at hf
      simp only [visitS, effSC]
      have S1 := Adds.scopedAdds p.plain false none
        (visitE_addsD test _ (St.enter_plain p.plain false none) hf.1.1 fns false false (p.ctx.enter false none))
        [(test.id, .scope), (i, .condScope)]
      have P := parallel_blocks (S1.plainS p)
        (fun s => ((s.enter false) |> visitSs body).exitWith [(i, .bodyScope)])
        (fun s => ((s.enter false) |> visitSs orelse).exitWith [(i, .orelseScope)]) _ _
        (fun s ps => Adds.scopedAdds ps.plain false none (visitSs_addsD body _ fns (ps.enter false none) hf.1.2) _)
        (fun s ps => Adds.scopedAdds ps.plain false none (visitSs_addsD orelse _ fns (ps.enter false none) hf.2) _)
      exact S1.trans P
  | .for_ i t it body orelse extra isAsync, st, fns, p, hf => by
      simp only [FragSD, Bool.and_eq_true, Bool.not_eq_true', List.isEmpty_iff] at hf
      obtain ⟨⟨⟨⟨⟨ha, hx⟩, ht⟩, hit⟩, hb⟩, ho⟩ := hf
      subst ha hx
      simp only [visitS, effSC, Bool.false_eq_true, ↓reduceIte]
      have p1 := p.enter false none
      have A1 := visitE_addsD t _ p1.plain ht fns false false p1.ctx
      have A2 := A1.trans (visitE_addsD it _ A1.plain hit fns false false (A1.inCtx p1.ctx))
      have S1 := Adds.scopedAdds p.plain false none A2 [(it.id, .scope)]
      have q := S1.plainS p
      have S2 := S1.trans (Adds.scopedAdds q.plain false none
        (visitE_addsD t _ (q.enter false none).plain ht fns false false (q.enter false none).ctx) [(i, .iterateScope)])
      have P := parallel_blocks (S2.plainS p)
        (fun s => ((s.enter false) |> visitSs body).exitWith [(i, .bodyScope)])
        (fun s => ((s.enter false) |> visitSs orelse).exitWith [(i, .orelseScope)]) _ _
        (fun s ps => Adds.scopedAdds ps.plain false none (visitSs_addsD body _ fns (ps.enter false none) hb) _)
        (fun s ps => Adds.scopedAdds ps.plain false none (visitSs_addsD orelse _ fns (ps.enter false none) ho) _)
      exact S2.trans P
  | .classDef i name bases kws body decos, st, fns, p, hf => by
      simp only [FragSD, Bool.and_eq_true] at hf
      obtain ⟨⟨⟨hb, hk⟩, hd⟩, hbody⟩ := hf
      simp only [visitS, effSC]
      apply Adds.popFn (f := .cls i)
      have p0 := p.pushFn (.cls i)
      generalize st.pushFn (.cls i) = s0 at p0 ⊢
      have p1 := p0.enter false none
      have A1 := visitEs_addsD decos _ p1.plain hd _ false false p1.ctx
      have A2 := A1.trans (Adds.addModified A1.plain (.sym name))
      have A3 := A2.trans (Adds.addBound A2.plain (.sym name))
      have A4 := A3.trans (visitEs_addsD bases _ A3.plain hb _ false false (A3.inCtx p1.ctx))
      have A5 := A4.trans (visitEs_addsD kws _ A4.plain hk _ false false (A4.inCtx p1.ctx))
      have S1 := Adds.scopedAdds p0.plain false none A5 [(i, .scope)]
      have q := S1.plainS p0
      have q1 := q.enter true none
      have B1 := visitEs_addsD bases _ q1.plain hb _ false false q1.ctx
      have B2 := B1.trans (visitEs_addsD kws _ B1.plain hk _ false false (B1.inCtx q1.ctx))
      have B3 := B2.trans (visitSs_addsD body _ _ (B2.plainS q1) hbody)
      have B4 := B3.trans (visitEs_addsD decos _ B3.plain hd _ false false (B3.inCtx q1.ctx))
      exact S1.trans (Adds.scopedAdds q.plain true none B4 [])
  | .functionDef i name args body decos returns isAsync, st, fns, p, hf => by
      cases args with
      | arguments ai po ar va ko kd kw df =>
        simp only [FragSD, Bool.and_eq_true, Bool.not_eq_true'] at hf
        obtain ⟨⟨⟨⟨ha, ⟨⟨⟨⟨⟨⟨hpo, har⟩, hva⟩, hko⟩, hkw⟩, hkd⟩, hdf⟩⟩, hdec⟩, hret⟩, hbody⟩ := hf
        subst ha
        have hpp : PlainParams po ar va ko kw := ⟨hpo, har, hva, hko, hkw⟩
        simp only [visitS, effSC, Bool.false_eq_true, ↓reduceIte]
        rw [show ∀ s : St, (visitEs kw (visitEs ko (visitEs va (visitEs ar (visitEs po (s.setAnnoOnly true)))))).setAnnoOnly false
              = (visitParams po ar va ko kw (s.setAnnoOnly true)).setAnnoOnly false from fun _ => rfl,
            show ∀ s : St, visitEs kw (visitEs ko (visitEs va (visitEs ar (visitEs po s)))) = visitParams po ar va ko kw s
              from fun _ => rfl]
        apply Adds.popFn (f := .fn i name)
        have p0 := p.pushFn (.fn i name)
        generalize st.pushFn (.fn i name) = s0 at p0 ⊢
        -- the def statement's own scope
        have p1 := p0.enter false none
        have A1 := visitEs_addsD decos _ p1.plain hdec _ false false p1.ctx
        have A2 := A1.trans (returnsStep_addsD returns (A1.plainS p1)
          (fun s hs hc => visitEs_addsD returns s hs hret _ false true hc))
        have A3 := A2.trans (visitEs_addsD kd _ A2.plain hkd _ false false (A2.inCtx p1.ctx))
        have A4 := A3.trans (visitEs_addsD df _ A3.plain hdf _ false false (A3.inCtx p1.ctx))
        have A5 := A4.trans (visitParams_adds hpp A4.plain)
        rw [visitParams_annoOnly hpp A4.plain]
        have A6 := A5.trans (Adds.addModified A5.plain (.sym name))
        have A7 := A6.trans (Adds.addBound A6.plain (.sym name))
        have S1 := Adds.scopedAdds p0.plain false none A7 [(i, .scope)]
        -- the function scope (isolated), its argument scope and its body scope
        have q := S1.plainS p0
        have qI := q.enter true (some name)
        have B1 := visitParams_adds hpp (St.enter_plain qI.plain false (some name))
        have SB1 := Adds.scopedAdds qI.plain false (some name) B1 [(ai, .scope)]
        have qB := SB1.plainS qI
        have B2 := visitSs_addsD body _ _ (qB.enter false (some name)) hbody
        have SB2 := Adds.scopedAdds qB.plain false (some name) B2 [(i, .bodyScope)]
        exact S1.trans (Adds.scopedAdds q.plain true (some name) (SB1.trans SB2) [(i, .argsAndBodyScope)])
      | _ => simp [FragSD] at hf
theorem visitSs_addsD : (ss : List Stmt) → (st : St) → (fns : List FnCtx) → PlainS st fns → FragSDs ss = true →
    Adds st (visitSs ss st) (effSCs fns ss)
  | [], st, fns, p, _ => by simpa [visitSs, effSCs] using Adds.refl p.plain
  | s :: rest, st, fns, p, hf => by
      simp only [FragSDs, Bool.and_eq_true] at hf
      simp only [visitSs, effSCs]
      have A1 := visitS_addsD s st fns p hf.1
      exact A1.trans (visitSs_addsD rest _ fns (A1.plainS p) hf.2)
end


theorem recorded_withitemsD (items : List Expr) (hf : FragDs items = true) (hw : items.all isWithitem = true) (st : St) (fns : List FnCtx) (p : PlainS st fns) :
    ∀ u ∈ items.map (fun it => simpleUnit it.id [it]), Recorded (visitEs items st) u := by
  induction items generalizing st with
  | nil => simp
  | cons it rest ih =>
    simp only [FragDs, Bool.and_eq_true] at hf
    simp only [List.all_cons, Bool.and_eq_true] at hw
    intro u hu
    simp only [List.map_cons, List.mem_cons] at hu
    simp only [visitEs]
    have A1 := visitE_addsD it st p.plain hf.1 fns false false p.ctx
    rcases hu with hu | hu
    · subst hu
      apply Recorded.mono (visitEs_addsD rest _ A1.plain hf.2 fns false false (A1.inCtx p.ctx))
      cases it with
      | withitem i c v =>
        have hwi := hf.1
        simp only [FragD, FragC, storesOkE, Bool.and_eq_true] at hwi
        have hfc : FragD c = true := by simp [FragD, hwi.1.1, hwi.2.1]
        have hfv : FragDs v = true := (FragDs_iff v).mpr ⟨hwi.1.2, hwi.2.2⟩
        simp only [visitE]
        have B1 := visitE_addsD c _ (St.enter_plain p.plain false none) hfc fns false false (p.ctx.enter false none)
        have B2 := B1.trans (visitEs_addsD v _ B1.plain hfv fns false false (B1.inCtx (p.ctx.enter false none)))
        refine scoped_recorded (scoped_block p.plain false none B2 [(i, .scope)]) _ (by simp [simpleUnit, keyOf, Expr.id]) ?_ ?_
        · intro x hx
          simp only [simpleUnit, List.nil_append, readsEs, readsE, List.append_nil, List.mem_append] at hx
          simp only [Eff.append_read, List.mem_append]
          rcases hx with hx | hx
          · exact Or.inl (readsD c hfc fns false false x hx)
          · exact Or.inr (readsDs v hfv fns false false x hx)
        · intro x hx
          simp only [simpleUnit, List.nil_append, writesEs, writesE, List.append_nil, List.mem_append] at hx
          simp only [Eff.append_modified, List.mem_append]
          rcases hx with hx | hx
          · exact Or.inl (Or.inl (writesD c hfc fns false false x hx))
          · exact Or.inl (Or.inr (writesDs v hfv fns false false x hx))
      | _ => simp [isWithitem] at hw
    · exact ih hf.2 hw.2 _ (A1.plainS p) u hu


/-- The pattern of `_process_parallel_blocks`: what each block visitor records is still recorded at the end. -/
theorem parallel_unitsD {st : St} {fns} (p : PlainS st fns) (f g : St → St) (U1 U2 : List ExecUnit) (d1 d2 : Eff)
    (hf : ∀ s, PlainS s fns → Adds s (f s) d1) (hg : ∀ s, PlainS s fns → Adds s (g s) d2)
    (uf : ∀ s, PlainS s fns → ∀ u ∈ U1, Recorded (f s) u) (ug : ∀ s, PlainS s fns → ∀ u ∈ U2, Recorded (g s) u) :
    ∀ u ∈ U1 ++ U2, Recorded ((g ((f (st.restore st.stack)).restore st.stack)).mergeAfter (f (st.restore st.stack)).stack
              (g ((f (st.restore st.stack)).restore st.stack)).stack) u := by
  rw [St.restore_self]
  intro u hu
  have A1 := hf st p
  have R := restore_adds p.plain A1
  have q := R.plainS p
  have A2 := hg _ q
  have hm : ∀ (x : St) (a b : List Scope), Recorded x u → Recorded (x.mergeAfter a b) u := fun x a b r => r
  apply hm
  simp only [List.mem_append] at hu
  rcases hu with hu | hu
  · have r1 : Recorded (f st) u := uf st p u hu
    have r2 : Recorded ((f st).restore st.stack) u := r1
    exact Recorded.mono A2 r2
  · exact ug _ q u hu

/-- A block processed by `_process_block_node` keeps what its statements recorded. -/
theorem block_unitsD {fns} (body : List Stmt) (hb : FragSDs body = true) (recs : List (Nat × AnnoKey))
    (ih : ∀ s, PlainS s fns → ∀ u ∈ stmtUnitsL body, Recorded (visitSs body s) u) :
    ∀ s, PlainS s fns → ∀ u ∈ stmtUnitsL body, Recorded ((visitSs body (s.enter false)).exitWith recs) u := by
  intro s ps u hu
  have B1 := visitSs_addsD body _ fns (ps.enter false none) hb
  obtain ⟨c, hc, hg⟩ := ih _ (ps.enter false none) u hu
  obtain ⟨c', -, ha, -⟩ := (scoped_block ps.plain false none B1 recs).popped
  exact ⟨c, by rw [ha]; exact List.mem_append_right _ hc, hg⟩


/-- A simple statement (`_process_statement`): one scope around the visits of its parts. -/
theorem simple_unitD {st st2 : St} {fns} (p : PlainS st fns) {d : Eff} (A : Adds (st.enter false) st2 d) (i : Nat)
    (u : ExecUnit) (hid : u.id = i) (hkey : u.key = .scope)
    (hr : ∀ x ∈ u.reads, QN.sym x ∈ d.read) (hw : ∀ x ∈ u.writes, QN.sym x ∈ d.modified ∨ QN.sym x ∈ d.deleted) :
    Recorded (st2.exitWith [(i, .scope)]) u :=
  scoped_recorded (scoped_block p.plain false none A [(i, .scope)]) u (by simp [hid, hkey, keyOf]) hr hw

mutual
theorem visitS_unitsD : (s : Stmt) → (st : St) → (fns : List FnCtx) → PlainS st fns → FragSD s = true →
    ∀ u ∈ stmtUnits s, Recorded (visitS s st) u
  | .ret i v, st, fns, p, hf => by
      simp only [FragSD] at hf
      intro u hu
      simp only [stmtUnits, List.mem_singleton] at hu
      subst hu
      simp only [visitS]
      refine simple_unitD p (visitEs_addsD v _ (St.enter_plain p.plain false none) hf fns false false (p.ctx.enter false none))
        i _ rfl rfl ?_ ?_
      · intro x hx; simp only [simpleUnit, List.nil_append] at hx; exact readsDs v hf fns false false x hx
      · intro x hx; simp only [simpleUnit, List.nil_append] at hx; exact Or.inl (writesDs v hf fns false false x hx)
  | .delete i ts, st, fns, p, hf => by
      simp only [FragSD] at hf
      intro u hu
      simp only [stmtUnits, List.mem_singleton] at hu
      subst hu
      simp only [visitS]
      refine simple_unitD p (visitEs_addsD ts _ (St.enter_plain p.plain false none) hf fns false false (p.ctx.enter false none))
        i _ rfl rfl ?_ ?_
      · intro x hx; simp only [simpleUnit, List.nil_append] at hx; exact readsDs ts hf fns false false x hx
      · intro x hx
        simp only [simpleUnit, List.mem_append] at hx
        rcases hx with hx | hx
        · exact Or.inr (delsDs ts fns false false x hx)
        · exact Or.inl (writesDs ts hf fns false false x hx)
  | .assign i ts v, st, fns, p, hf => by
      simp only [FragSD, Bool.and_eq_true] at hf
      intro u hu
      simp only [stmtUnits, List.mem_singleton] at hu
      subst hu
      simp only [visitS]
      have A1 := visitEs_addsD ts _ (St.enter_plain p.plain false none) hf.1 fns false false (p.ctx.enter false none)
      have A2 := A1.trans (visitE_addsD v _ A1.plain hf.2 fns false false (A1.inCtx (p.ctx.enter false none)))
      refine simple_unitD p A2 i _ rfl rfl ?_ ?_
      · intro x hx
        simp only [simpleUnit, List.nil_append, readsEs_append, readsEs, List.append_nil, List.mem_append] at hx
        simp only [Eff.append_read, List.mem_append]
        rcases hx with hx | hx
        · exact Or.inl (readsDs ts hf.1 fns false false x hx)
        · exact Or.inr (readsD v hf.2 fns false false x hx)
      · intro x hx
        simp only [simpleUnit, List.nil_append, writesEs_append, writesEs, List.append_nil, List.mem_append] at hx
        simp only [Eff.append_modified, List.mem_append]
        rcases hx with hx | hx
        · exact Or.inl (Or.inl (writesDs ts hf.1 fns false false x hx))
        · exact Or.inl (Or.inr (writesD v hf.2 fns false false x hx))
  | .augAssign i t op v, st, fns, p, hf => by
      simp only [FragSD, Bool.and_eq_true] at hf
      intro u hu
      simp only [stmtUnits, List.mem_singleton] at hu
      subst hu
      simp only [visitS]
      have p1 := p.enter false none
      obtain ⟨hp, hc⟩ := p1.setInAug
      have A1 := aug_bracket p1 (visitE_addsD t _ hp hf.1 fns true false hc)
      have A2 := A1.trans (visitE_addsD v _ A1.plain hf.2 fns false false (A1.inCtx p1.ctx))
      refine simple_unitD p A2 i _ rfl rfl ?_ ?_
      · intro x hx
        simp only [simpleUnit, readsEs, List.append_nil, List.mem_append] at hx
        simp only [Eff.append_read, List.mem_append]
        rcases hx with hx | hx | hx
        · exact Or.inl (augTargetsD t fns false x hx)
        · exact Or.inl (readsD t hf.1 fns true false x hx)
        · exact Or.inr (readsD v hf.2 fns false false x hx)
      · intro x hx
        simp only [simpleUnit, List.nil_append, writesEs, List.append_nil, List.mem_append] at hx
        simp only [Eff.append_modified, List.mem_append]
        rcases hx with hx | hx
        · exact Or.inl (Or.inl (writesD t hf.1 fns true false x hx))
        · exact Or.inl (Or.inr (writesD v hf.2 fns false false x hx))
  | .annAssign i t an v simple, st, fns, p, hf => by
      simp only [FragSD, Bool.and_eq_true] at hf
      intro u hu
      simp only [stmtUnits, List.mem_singleton] at hu
      subst hu
      simp only [visitS]
      have p1 := p.enter false none
      have A1 := visitE_addsD t _ p1.plain hf.1.1 fns false false p1.ctx
      have A2 := A1.trans (visitEs_addsD v _ A1.plain hf.2 fns false false (A1.inCtx p1.ctx))
      obtain ⟨hp, hc⟩ := (A2.plainS p1).setInAnno
      have A3 := A2.trans (anno_bracket (A2.plainS p1) (visitE_addsD an _ hp hf.1.2 fns false true hc))
      refine simple_unitD p A3 i _ rfl rfl ?_ ?_
      · intro x hx
        simp only [simpleUnit, List.nil_append, List.cons_append, readsEs, List.mem_append] at hx
        simp only [Eff.append_read, List.mem_append]
        rcases hx with hx | hx | hx
        · exact Or.inl (Or.inl (readsD t hf.1.1 fns false false x hx))
        · exact Or.inr (readsD an hf.1.2 fns false true x hx)
        · exact Or.inl (Or.inr (readsDs v hf.2 fns false false x hx))
      · intro x hx
        simp only [simpleUnit, List.nil_append, List.cons_append, writesEs, List.mem_append] at hx
        simp only [Eff.append_modified, List.mem_append]
        rcases hx with hx | hx | hx
        · exact Or.inl (Or.inl (Or.inl (writesD t hf.1.1 fns false false x hx)))
        · exact Or.inl (Or.inr (writesD an hf.1.2 fns false true x hx))
        · exact Or.inl (Or.inl (Or.inr (writesDs v hf.2 fns false false x hx)))
  | .raise i e c, st, fns, p, hf => by
      simp only [FragSD, Bool.and_eq_true] at hf
      intro u hu
      simp only [stmtUnits, List.mem_singleton] at hu
      subst hu
      simp only [visitS]
      have A1 := visitEs_addsD e _ (St.enter_plain p.plain false none) hf.1 fns false false (p.ctx.enter false none)
      have A2 := A1.trans (visitEs_addsD c _ A1.plain hf.2 fns false false (A1.inCtx (p.ctx.enter false none)))
      refine simple_unitD p A2 i _ rfl rfl ?_ ?_
      · intro x hx
        simp only [simpleUnit, List.nil_append, readsEs_append, List.mem_append] at hx
        simp only [Eff.append_read, List.mem_append]
        rcases hx with hx | hx
        · exact Or.inl (readsDs e hf.1 fns false false x hx)
        · exact Or.inr (readsDs c hf.2 fns false false x hx)
      · intro x hx
        simp only [simpleUnit, List.nil_append, writesEs_append, List.mem_append] at hx
        simp only [Eff.append_modified, List.mem_append]
        rcases hx with hx | hx
        · exact Or.inl (Or.inl (writesDs e hf.1 fns false false x hx))
        · exact Or.inl (Or.inr (writesDs c hf.2 fns false false x hx))
  | .assert_ i t m, st, fns, p, hf => by
      simp only [FragSD, Bool.and_eq_true] at hf
      intro u hu
      simp only [stmtUnits, List.mem_singleton] at hu
      subst hu
      simp only [visitS]
      have A1 := visitE_addsD t _ (St.enter_plain p.plain false none) hf.1 fns false false (p.ctx.enter false none)
      have A2 := A1.trans (visitEs_addsD m _ A1.plain hf.2 fns false false (A1.inCtx (p.ctx.enter false none)))
      refine simple_unitD p A2 i _ rfl rfl ?_ ?_
      · intro x hx
        simp only [simpleUnit, List.nil_append, readsEs, List.mem_append] at hx
        simp only [Eff.append_read, List.mem_append]
        rcases hx with hx | hx
        · exact Or.inl (readsD t hf.1 fns false false x hx)
        · exact Or.inr (readsDs m hf.2 fns false false x hx)
      · intro x hx
        simp only [simpleUnit, List.nil_append, writesEs, List.mem_append] at hx
        simp only [Eff.append_modified, List.mem_append]
        rcases hx with hx | hx
        · exact Or.inl (Or.inl (writesD t hf.1 fns false false x hx))
        · exact Or.inl (Or.inr (writesDs m hf.2 fns false false x hx))
  | .expr i v, st, fns, p, hf => by
      simp only [FragSD] at hf
      intro u hu
      simp only [stmtUnits, List.mem_singleton] at hu
      subst hu
      simp only [visitS]
      refine simple_unitD p (visitE_addsD v _ (St.enter_plain p.plain false none) hf fns false false (p.ctx.enter false none))
        i _ rfl rfl ?_ ?_
      · intro x hx
        simp only [simpleUnit, List.nil_append, readsEs, List.append_nil] at hx
        exact readsD v hf fns false false x hx
      · intro x hx
        simp only [simpleUnit, List.nil_append, writesEs, List.append_nil] at hx
        exact Or.inl (writesD v hf fns false false x hx)
  | .import_ i names, st, fns, p, _ => by
      intro u hu
      simp only [stmtUnits, List.mem_singleton] at hu
      subst hu
      simp only [visitS]
      refine simple_unitD p (visitAliases_adds names (St.enter_plain p.plain false none)) i _ rfl rfl (by simp) ?_
      intro x hx
      simp only [List.mem_map] at hx
      obtain ⟨a, ha, rfl⟩ := hx
      exact Or.inl (by simp only [aliasEff, List.mem_map]; exact ⟨a, ha, rfl⟩)
  | .importFrom i m names l, st, fns, p, _ => by
      intro u hu
      simp only [stmtUnits, List.mem_singleton] at hu
      subst hu
      simp only [visitS]
      refine simple_unitD p (visitAliases_adds names (St.enter_plain p.plain false none)) i _ rfl rfl (by simp) ?_
      intro x hx
      simp only [List.mem_map] at hx
      obtain ⟨a, ha, rfl⟩ := hx
      exact Or.inl (by simp only [aliasEff, List.mem_map]; exact ⟨a, ha, rfl⟩)
  | .global i names, st, fns, p, _ => by
      intro u hu
      simp only [stmtUnits, List.mem_singleton] at hu
      subst hu
      simp only [visitS]
      exact simple_unitD p (declGlobals_adds names (St.enter_plain p.plain false none)) i _ rfl rfl (by simp) (by simp)
  | .nonlocal i names, st, fns, p, _ => by
      intro u hu
      simp only [stmtUnits, List.mem_singleton] at hu
      subst hu
      simp only [visitS]
      exact simple_unitD p (declNonlocals_adds names (St.enter_plain p.plain false none)) i _ rfl rfl (by simp) (by simp)
  | .pass _, _, _, _, _ => by simp [stmtUnits]
  | .break_ _, _, _, _, _ => by simp [stmtUnits]
  | .continue_ _, _, _, _, _ => by simp [stmtUnits]
  | .other _ _ es bs, st, fns, p, hf => by
      simp only [FragSD, Bool.and_eq_true] at hf
      simp only [stmtUnits, visitS]
      have A1 := visitEs_addsD es _ p.plain hf.1 fns false false p.ctx
      exact visitSs_unitsD bs _ fns (A1.plainS p) hf.2
  | .try_ _ b h o f, st, fns, p, hf => by
      simp only [FragSD, Bool.and_eq_true] at hf
      intro u hu
      simp only [stmtUnits, List.mem_append] at hu
      simp only [visitS]
      have A1 := visitSs_addsD b _ fns p hf.1.1.1
      have A2 := visitSs_addsD h _ fns (A1.plainS p) hf.1.1.2
      have A3 := visitSs_addsD o _ fns ((A1.trans A2).plainS p) hf.1.2
      have A4 := visitSs_addsD f _ fns (((A1.trans A2).trans A3).plainS p) hf.2
      rcases hu with ((hu | hu) | hu) | hu
      · exact Recorded.mono A4 (Recorded.mono A3 (Recorded.mono A2 (visitSs_unitsD b _ fns p hf.1.1.1 u hu)))
      · exact Recorded.mono A4 (Recorded.mono A3 (visitSs_unitsD h _ fns (A1.plainS p) hf.1.1.2 u hu))
      · exact Recorded.mono A4 (visitSs_unitsD o _ fns ((A1.trans A2).plainS p) hf.1.2 u hu)
      · exact visitSs_unitsD f _ fns (((A1.trans A2).trans A3).plainS p) hf.2 u hu
  | .handler _ ty name body, st, fns, p, hf => by
      simp only [FragSD, Bool.and_eq_true] at hf
      intro u hu
      simp only [stmtUnits] at hu
      simp only [visitS]
      have p1 := p.enter false none
      have E : Adds (st.enter false) (if name.isEmpty = true then st.enter false else (st.enter false).setErr) {} := by
        split
        · exact Adds.refl p1.plain
        · exact ⟨p1.plain.ne, rfl, ScopeAdds.refl _, rfl, rfl, rfl, p1.plain.annoOnly, p1.plain.comps, ⟨[], rfl⟩⟩
      have A1 := E.trans (visitEs_addsD ty _ E.plain hf.1 fns false false (E.inCtx p1.ctx))
      have A2 := A1.trans (visitSs_addsD body _ fns (A1.plainS p1) hf.2)
      obtain ⟨c, hc, hg⟩ := visitSs_unitsD body _ fns (A1.plainS p1) hf.2 u hu
      obtain ⟨c', -, ha, -⟩ := (scoped_block p.plain false none A2 []).popped
      exact ⟨c, by rw [ha]; exact List.mem_append_right _ hc, hg⟩
  | .with_ i items body isAsync, st, fns, p, hf => by
      simp only [FragSD, Bool.and_eq_true, Bool.not_eq_true'] at hf
      obtain ⟨⟨⟨ha, hi⟩, hw⟩, hb⟩ := hf
      subst ha
      intro u hu
      simp only [stmtUnits, List.mem_append] at hu
      simp only [visitS, Bool.false_eq_true, ↓reduceIte]
      have p1 := p.enter false none
      have A1 := visitEs_addsD items _ p1.plain hi fns false false p1.ctx
      have A2 := visitSs_addsD body _ fns (A1.plainS p1) hb
      have r : Recorded (visitSs body (visitEs items (st.enter false))) u := by
        rcases hu with hu | hu
        · exact Recorded.mono A2 (recorded_withitemsD items hi hw _ fns p1 u hu)
        · exact visitSs_unitsD body _ fns (A1.plainS p1) hb u hu
      obtain ⟨c, hc, hg⟩ := r
      obtain ⟨c', -, hx, -⟩ := (scoped_block p.plain false none (A1.trans A2) [(i, .bodyScope)]).popped
      exact ⟨c, by rw [hx]; exact List.mem_append_right _ hc, hg⟩
  | .if_ i test body orelse, st, fns, p, hf => by
      simp only [FragSD, Bool.and_eq_true] at hf
      intro u hu
      simp only [stmtUnits, List.mem_cons] at hu
      simp only [visitS]
      have A := visitE_addsD test _ (St.enter_plain p.plain false none) hf.1.1 fns false false (p.ctx.enter false none)
      have SB := scoped_block p.plain false none A [(test.id, .scope), (i, .condScope)]
      have S1 := SB.adds
      have P := parallel_blocks (S1.plainS p)
        (fun s => ((s.enter false) |> visitSs body).exitWith [(i, .bodyScope)])
        (fun s => ((s.enter false) |> visitSs orelse).exitWith [(i, .orelseScope)]) _ _
        (fun s ps => Adds.scopedAdds ps.plain false none (visitSs_addsD body _ fns (ps.enter false none) hf.1.2) _)
        (fun s ps => Adds.scopedAdds ps.plain false none (visitSs_addsD orelse _ fns (ps.enter false none) hf.2) _)
      rcases hu with hu | hu
      · subst hu
        apply Recorded.mono P
        refine scoped_recorded SB _ (by simp [simpleUnit, keyOf]) ?_ ?_
        · intro x hx
          simp only [simpleUnit, List.nil_append, readsEs, List.append_nil] at hx
          exact readsD test hf.1.1 fns false false x hx
        · intro x hx
          simp only [simpleUnit, List.nil_append, writesEs, List.append_nil] at hx
          exact Or.inl (writesD test hf.1.1 fns false false x hx)
      · exact parallel_unitsD (S1.plainS p)
          (fun s => ((s.enter false) |> visitSs body).exitWith [(i, .bodyScope)])
          (fun s => ((s.enter false) |> visitSs orelse).exitWith [(i, .orelseScope)]) _ _ _ _
          (fun s ps => Adds.scopedAdds ps.plain false none (visitSs_addsD body _ fns (ps.enter false none) hf.1.2) _)
          (fun s ps => Adds.scopedAdds ps.plain false none (visitSs_addsD orelse _ fns (ps.enter false none) hf.2) _)
          (block_unitsD body hf.1.2 _ (fun s ps => visitSs_unitsD body s fns ps hf.1.2))
          (block_unitsD orelse hf.2 _ (fun s ps => visitSs_unitsD orelse s fns ps hf.2)) u hu
  | .while_ i test body orelse, st, fns, p, hf => by
      simp only [FragSD, Bool.and_eq_true] at hf
      intro u hu
      simp only [stmtUnits, List.mem_cons] at hu
      simp only [visitS]
      have A := visitE_addsD test _ (St.enter_plain p.plain false none) hf.1.1 fns false false (p.ctx.enter false none)
      have SB := scoped_block p.plain false none A [(test.id, .scope), (i, .condScope)]
      have S1 := SB.adds
      have P := parallel_blocks (S1.plainS p)
        (fun s => ((s.enter false) |> visitSs body).exitWith [(i, .bodyScope)])
        (fun s => ((s.enter false) |> visitSs orelse).exitWith [(i, .orelseScope)]) _ _
        (fun s ps => Adds.scopedAdds ps.plain false none (visitSs_addsD body _ fns (ps.enter false none) hf.1.2) _)
        (fun s ps => Adds.scopedAdds ps.plain false none (visitSs_addsD orelse _ fns (ps.enter false none) hf.2) _)
      rcases hu with hu | hu
      · subst hu
        apply Recorded.mono P
        refine scoped_recorded SB _ (by simp [simpleUnit, keyOf]) ?_ ?_
        · intro x hx
          simp only [simpleUnit, List.nil_append, readsEs, List.append_nil] at hx
          exact readsD test hf.1.1 fns false false x hx
        · intro x hx
          simp only [simpleUnit, List.nil_append, writesEs, List.append_nil] at hx
          exact Or.inl (writesD test hf.1.1 fns false false x hx)
      · exact parallel_unitsD (S1.plainS p)
          (fun s => ((s.enter false) |> visitSs body).exitWith [(i, .bodyScope)])
          (fun s => ((s.enter false) |> visitSs orelse).exitWith [(i, .orelseScope)]) _ _ _ _
          (fun s ps => Adds.scopedAdds ps.plain false none (visitSs_addsD body _ fns (ps.enter false none) hf.1.2) _)
          (fun s ps => Adds.scopedAdds ps.plain false none (visitSs_addsD orelse _ fns (ps.enter false none) hf.2) _)
          (block_unitsD body hf.1.2 _ (fun s ps => visitSs_unitsD body s fns ps hf.1.2))
          (block_unitsD orelse hf.2 _ (fun s ps => visitSs_unitsD orelse s fns ps hf.2)) u hu
  | .for_ i t it body orelse extra isAsync, st, fns, p, hf => by
      simp only [FragSD, Bool.and_eq_true, Bool.not_eq_true', List.isEmpty_iff] at hf
      obtain ⟨⟨⟨⟨⟨ha, hx⟩, ht⟩, hit⟩, hb⟩, ho⟩ := hf
      subst ha hx
      intro u hu
      simp only [stmtUnits, List.mem_cons] at hu
      simp only [visitS, Bool.false_eq_true, ↓reduceIte]
      have p1 := p.enter false none
      have A1 := visitE_addsD t _ p1.plain ht fns false false p1.ctx
      have A2 := A1.trans (visitE_addsD it _ A1.plain hit fns false false (A1.inCtx p1.ctx))
      have SB1 := scoped_block p.plain false none A2 [(it.id, .scope)]
      have S1 := SB1.adds
      have q := S1.plainS p
      have B := visitE_addsD t _ (q.enter false none).plain ht fns false false (q.enter false none).ctx
      have SB2 := scoped_block q.plain false none B [(i, .iterateScope)]
      have S2 := SB2.adds
      have P := parallel_blocks (S2.plainS q)
        (fun s => ((s.enter false) |> visitSs body).exitWith [(i, .bodyScope)])
        (fun s => ((s.enter false) |> visitSs orelse).exitWith [(i, .orelseScope)]) _ _
        (fun s ps => Adds.scopedAdds ps.plain false none (visitSs_addsD body _ fns (ps.enter false none) hb) _)
        (fun s ps => Adds.scopedAdds ps.plain false none (visitSs_addsD orelse _ fns (ps.enter false none) ho) _)
      rcases hu with hu | hu | hu
      · subst hu
        apply Recorded.mono P
        apply Recorded.mono S2
        refine scoped_recorded SB1 _ (by simp [simpleUnit, keyOf]) ?_ ?_
        · intro x hx
          simp only [simpleUnit, List.nil_append, readsEs, List.append_nil] at hx
          simp only [Eff.append_read, List.mem_append]
          exact Or.inr (readsD it hit fns false false x hx)
        · intro x hx
          simp only [simpleUnit, List.nil_append, writesEs, List.append_nil] at hx
          simp only [Eff.append_modified, List.mem_append]
          exact Or.inl (Or.inr (writesD it hit fns false false x hx))
      · subst hu
        apply Recorded.mono P
        refine scoped_recorded SB2 _ (by simp [keyOf]) ?_ ?_
        · intro x hx; exact readsD t ht fns false false x hx
        · intro x hx; exact Or.inl (writesD t ht fns false false x hx)
      · exact parallel_unitsD (S2.plainS q)
          (fun s => ((s.enter false) |> visitSs body).exitWith [(i, .bodyScope)])
          (fun s => ((s.enter false) |> visitSs orelse).exitWith [(i, .orelseScope)]) _ _ _ _
          (fun s ps => Adds.scopedAdds ps.plain false none (visitSs_addsD body _ fns (ps.enter false none) hb) _)
          (fun s ps => Adds.scopedAdds ps.plain false none (visitSs_addsD orelse _ fns (ps.enter false none) ho) _)
          (block_unitsD body hb _ (fun s ps => visitSs_unitsD body s fns ps hb))
          (block_unitsD orelse ho _ (fun s ps => visitSs_unitsD orelse s fns ps ho)) u hu
  | .classDef i name bases kws body decos, st, fns, p, hf => by
      simp only [FragSD, Bool.and_eq_true] at hf
      obtain ⟨⟨⟨hb, hk⟩, hd⟩, hbody⟩ := hf
      intro u hu
      simp only [stmtUnits, List.mem_cons] at hu
      simp only [visitS]
      apply Recorded.popFn
      have p0 := p.pushFn (.cls i)
      generalize st.pushFn (.cls i) = s0 at p0 ⊢
      have p1 := p0.enter false none
      have A1 := visitEs_addsD decos _ p1.plain hd _ false false p1.ctx
      have A2 := A1.trans (Adds.addModified A1.plain (.sym name))
      have A3 := A2.trans (Adds.addBound A2.plain (.sym name))
      have A4 := A3.trans (visitEs_addsD bases _ A3.plain hb _ false false (A3.inCtx p1.ctx))
      have A5 := A4.trans (visitEs_addsD kws _ A4.plain hk _ false false (A4.inCtx p1.ctx))
      have SB1 := scoped_block p0.plain false none A5 [(i, .scope)]
      have S1 := SB1.adds
      have q := S1.plainS p0
      have q1 := q.enter true none
      have B1 := visitEs_addsD bases _ q1.plain hb _ false false q1.ctx
      have B2 := B1.trans (visitEs_addsD kws _ B1.plain hk _ false false (B1.inCtx q1.ctx))
      have B3 := visitSs_addsD body _ _ (B2.plainS q1) hbody
      have B4 := visitEs_addsD decos _ (B2.trans B3).plain hd _ false false ((B2.trans B3).inCtx q1.ctx)
      have SB2 := scoped_block q.plain true none ((B2.trans B3).trans B4) []
      rcases hu with hu | hu
      · subst hu
        apply Recorded.mono SB2.adds
        refine scoped_recorded SB1 _ (by simp [simpleUnit, keyOf]) ?_ ?_
        · intro x hx
          simp only [simpleUnit, List.nil_append, readsEs_append, List.mem_append] at hx
          simp only [Eff.append_read, List.mem_append]
          rcases hx with (hx | hx) | hx
          · exact Or.inl (Or.inl (Or.inl (Or.inl (readsDs decos hd _ false false x hx))))
          · exact Or.inl (Or.inr (readsDs bases hb _ false false x hx))
          · exact Or.inr (readsDs kws hk _ false false x hx)
        · intro x hx
          simp only [simpleUnit, List.cons_append, List.nil_append, writesEs_append, List.mem_cons, List.mem_append] at hx
          simp only [Eff.append_modified, List.mem_append]
          rcases hx with hx | (hx | hx) | hx
          · subst hx; exact Or.inl (Or.inl (Or.inl (Or.inl (Or.inr (by simp)))))
          · exact Or.inl (Or.inl (Or.inl (Or.inl (Or.inl (writesDs decos hd _ false false x hx)))))
          · exact Or.inl (Or.inl (Or.inr (writesDs bases hb _ false false x hx)))
          · exact Or.inl (Or.inr (writesDs kws hk _ false false x hx))
      · obtain ⟨c, hc, hg⟩ := Recorded.mono B4 (visitSs_unitsD body _ _ (B2.plainS q1) hbody u hu)
        obtain ⟨c', -, hx, -⟩ := SB2.popped
        exact ⟨c, by rw [hx]; exact List.mem_append_right _ hc, hg⟩
  | .functionDef i name args body decos returns isAsync, st, fns, p, hf => by
      cases args with
      | arguments ai po ar va ko kd kw df =>
        simp only [FragSD, Bool.and_eq_true, Bool.not_eq_true'] at hf
        obtain ⟨⟨⟨⟨ha, ⟨⟨⟨⟨⟨⟨hpo, har⟩, hva⟩, hko⟩, hkw⟩, hkd⟩, hdf⟩⟩, hdec⟩, hret⟩, hbody⟩ := hf
        subst ha
        have hpp : PlainParams po ar va ko kw := ⟨hpo, har, hva, hko, hkw⟩
        intro u hu
        simp only [stmtUnits, List.mem_cons] at hu
        simp only [visitS, Bool.false_eq_true, ↓reduceIte]
        rw [show ∀ s : St, (visitEs kw (visitEs ko (visitEs va (visitEs ar (visitEs po (s.setAnnoOnly true)))))).setAnnoOnly false
              = (visitParams po ar va ko kw (s.setAnnoOnly true)).setAnnoOnly false from fun _ => rfl,
            show ∀ s : St, visitEs kw (visitEs ko (visitEs va (visitEs ar (visitEs po s)))) = visitParams po ar va ko kw s
              from fun _ => rfl]
        apply Recorded.popFn
        have p0 := p.pushFn (.fn i name)
        generalize st.pushFn (.fn i name) = s0 at p0 ⊢
        have p1 := p0.enter false none
        have A1 := visitEs_addsD decos _ p1.plain hdec _ false false p1.ctx
        have A2 := A1.trans (returnsStep_addsD returns (A1.plainS p1)
          (fun s hs hc => visitEs_addsD returns s hs hret _ false true hc))
        have A3 := A2.trans (visitEs_addsD kd _ A2.plain hkd _ false false (A2.inCtx p1.ctx))
        have A4 := A3.trans (visitEs_addsD df _ A3.plain hdf _ false false (A3.inCtx p1.ctx))
        have A5 := A4.trans (visitParams_adds hpp A4.plain)
        rw [visitParams_annoOnly hpp A4.plain]
        have A6 := A5.trans (Adds.addModified A5.plain (.sym name))
        have A7 := A6.trans (Adds.addBound A6.plain (.sym name))
        have SB1 := scoped_block p0.plain false none A7 [(i, .scope)]
        have S1 := SB1.adds
        have q := S1.plainS p0
        have qI := q.enter true (some name)
        have B1 := visitParams_adds hpp (St.enter_plain qI.plain false (some name))
        have SBa := Adds.scopedAdds qI.plain false (some name) B1 [(ai, .scope)]
        have qB := SBa.plainS qI
        have B2 := visitSs_addsD body _ _ (qB.enter false (some name)) hbody
        have SBb := scoped_block qB.plain false (some name) B2 [(i, .bodyScope)]
        have SBc := scoped_block q.plain true (some name) (SBa.trans SBb.adds) [(i, .argsAndBodyScope)]
        rcases hu with hu | hu
        · subst hu
          apply Recorded.mono SBc.adds
          refine scoped_recorded SB1 _ (by simp [simpleUnit, keyOf]) ?_ ?_
          · intro x hx
            have hann : argAnnos (po ++ ar ++ va ++ ko ++ kw) = [] :=
              argAnnos_plain _ (by simp [List.all_append, hpo, har, hva, hko, hkw])
            simp only [simpleUnit, defExprs, hann, List.nil_append, List.append_nil, readsEs_append, List.mem_append] at hx
            simp only [Eff.append_read, List.mem_append]
            rcases hx with ((hx | hx) | hx) | hx
            · exact Or.inl (Or.inl (Or.inl (Or.inl (Or.inl (Or.inl (readsDs decos hdec _ false false x hx))))))
            · exact Or.inl (Or.inl (Or.inl (Or.inr (readsDs df hdf _ false false x hx))))
            · exact Or.inl (Or.inl (Or.inl (Or.inl (Or.inr (readsDs kd hkd _ false false x hx)))))
            · exact Or.inl (Or.inl (Or.inl (Or.inl (Or.inl (Or.inr (readsDs returns hret _ false true x hx))))))
          · intro x hx
            have hann : argAnnos (po ++ ar ++ va ++ ko ++ kw) = [] :=
              argAnnos_plain _ (by simp [List.all_append, hpo, har, hva, hko, hkw])
            simp only [simpleUnit, defExprs, hann, List.cons_append, List.nil_append, List.append_nil, writesEs_append,
              List.mem_cons, List.mem_append] at hx
            simp only [Eff.append_modified, List.mem_append]
            rcases hx with hx | ((hx | hx) | hx) | hx
            · subst hx; exact Or.inl (Or.inl (Or.inr (by simp)))
            · exact Or.inl (Or.inl (Or.inl (Or.inl (Or.inl (Or.inl (Or.inl (writesDs decos hdec _ false false x hx)))))))
            · exact Or.inl (Or.inl (Or.inl (Or.inl (Or.inr (writesDs df hdf _ false false x hx)))))
            · exact Or.inl (Or.inl (Or.inl (Or.inl (Or.inl (Or.inr (writesDs kd hkd _ false false x hx))))))
            · exact Or.inl (Or.inl (Or.inl (Or.inl (Or.inl (Or.inl (Or.inr (writesDs returns hret _ false true x hx)))))))
        · obtain ⟨c, hc, hg⟩ := visitSs_unitsD body _ _ (qB.enter false (some name)) hbody u hu
          obtain ⟨c1, -, hx1, -⟩ := SBb.popped
          obtain ⟨c2, -, hx2, -⟩ := SBc.popped
          exact ⟨c, by rw [hx2]; apply List.mem_append_right; rw [hx1]; exact List.mem_append_right _ hc, hg⟩
      | _ => simp [FragSD] at hf
theorem visitSs_unitsD : (ss : List Stmt) → (st : St) → (fns : List FnCtx) → PlainS st fns → FragSDs ss = true →
    ∀ u ∈ stmtUnitsL ss, Recorded (visitSs ss st) u
  | [], _, _, _, _ => by simp [stmtUnitsL]
  | s :: rest, st, fns, p, hf => by
      simp only [FragSDs, Bool.and_eq_true] at hf
      intro u hu
      simp only [stmtUnitsL, List.mem_append] at hu
      simp only [visitSs]
      have A1 := visitS_addsD s st fns p hf.1
      rcases hu with hu | hu
      · exact Recorded.mono (visitSs_addsD rest _ fns (A1.plainS p) hf.2) (visitS_unitsD s st fns p hf.1 u hu)
      · exact visitSs_unitsD rest _ fns (A1.plainS p) hf.2 u hu
end


end Malt.Analysis
