import MaltModel.Proofs.C18Sem4
/- C18, semantics part 5: expressions of the fragment. -/
set_option linter.unusedSimpArgs false
namespace Malt.Anf
open Malt.Py Malt.SemAnf

/-- the continuation gives the same result from agreeing states, and keeps them agreeing -/
def RespAgree {α β : Type} (g : α → St → ER β) : Prop :=
  ∀ a σ τ, Agree σ τ → (g a τ).1 = (g a σ).1 ∧ Agree (g a σ).2 (g a τ).2

theorem SimK.congr {α : Type} {O : Oracle} {G : List Stmt} {k k' k2 k2' : St → ER α}
    (h1 : ∀ σ, k σ = k2 σ) (h2 : ∀ σ, k' σ = k2' σ) (h : SimK O G k2 k2') : SimK O G k k' := by
  intro σ σ' hA
  have := h σ σ' hA
  rw [h1 σ]
  rcases hx : execB O G σ' with ⟨o, σ2⟩
  rw [hx] at this
  cases o <;> simp only at this ⊢ <;> first | (rw [h2 σ2]; exact this) | exact this

theorem SimK.lift {α β : Type} {O : Oracle} {G : List Stmt} {k k' : St → ER α} {g : α → St → ER β}
    (hg : RespAgree g) (h : SimK O G k k') : SimK O G (bindK k g) (bindK k' g) := by
  intro σ σ' hA
  have := h σ σ' hA
  rcases hx : execB O G σ' with ⟨o, σ2⟩
  rw [hx] at this
  cases o with
  | normal =>
    obtain ⟨hv, hag⟩ := this
    simp only [bindK]
    rcases hk : k σ with ⟨r, σ1⟩
    rcases hk' : k' σ2 with ⟨r', σ1'⟩
    rw [hk, hk'] at hv hag
    simp only at hv hag
    subst hv
    cases r' with
    | error x => exact ⟨rfl, hag⟩
    | ok a => exact hg a σ1 σ1' hag
  | raise x =>
    obtain ⟨hv, hag⟩ := this
    simp only [bindK]
    rcases hk : k σ with ⟨r, σ1⟩
    rw [hk] at hv hag
    simp only at hv hag
    subst hv
    exact ⟨rfl, hag⟩
  | brk => exact this.elim
  | cont => exact this.elim
  | ret _ => exact this.elim

theorem respAgree_pure {α β : Type} (f : α → Except Val β) : RespAgree (fun a σ => (f a, σ)) := by
  intro a σ τ h
  exact ⟨rfl, h⟩

theorem respAgree_doCall (O : Oracle) (f : List Val → Val × List Arg) :
    RespAgree (fun vs σ => doCall O (f vs).1 (f vs).2 σ) := by
  intro vs σ τ h
  simp only [doCall]
  split
  · refine ⟨by rw [h.1], h.emit_both _⟩
  · exact ⟨rfl, h⟩

end Malt.Anf

namespace Malt.Anf
open Malt.Py Malt.SemAnf

theorem ensureFs_const {α : Type} (cfg : Config) (pk fld : String) : ∀ (l : List α) (es : List Expr) (n : Nat),
    l.length = es.length → ensureFs cfg pk (l.map fun _ => fld) es n = ensureList cfg pk fld es n
  | [], [], n, _ => by simp [ensureFs, ensureList]
  | [], _ :: _, n, h => by simp at h
  | _ :: _, [], n, h => by simp at h
  | a :: l, e :: es, n, h => by
      simp [ensureFs, ensureList, ensureFs_const cfg pk fld l es _ (by simpa using h)]

theorem pairsOkT_single (cfg : Config) (pk : String) (p : String × Expr) : pairsOkT cfg pk [p] = true := by
  simp [pairsOkT, pairOkT]

theorem tag_map_fst (f : String) (es : List Expr) : (tag f es).map (·.1) = es.map (fun _ => f) := by
  simp [tag]
theorem tag_map_snd (f : String) (es : List Expr) : (tag f es).map (·.2) = es := by
  simp [tag, Function.comp_def]
theorem mem_tag {f : String} {es : List Expr} {p : String × Expr} (h : p ∈ tag f es) : p.2 ∈ es := by
  simp only [tag, List.mem_map] at h
  obtain ⟨e, he, rfl⟩ := h
  exact he

mutual
theorem simE (O : Oracle) (cfg : Config) : ∀ (e : Expr), fragE e = true → okT cfg e = true →
    (∀ y ∈ namesE e, isTempName y = false) → SimHyp O cfg e
  | .name i s cx, _, _, hnt => by
      intro n c' d n' hv
      vopen hv; vclose hv; obtain ⟨rfl, rfl, rfl⟩ := hv
      intro σ σ' hA
      simp only [execB, evalE]
      exact ⟨by rw [hA.2 s (hnt s (by simp [namesE]))], hA⟩
  | .const i k r, _, _, _ => by
      intro n c' d n' hv
      vopen hv; vclose hv; obtain ⟨rfl, rfl, rfl⟩ := hv
      intro σ σ' hA
      simp only [execB, evalE]
      exact ⟨trivial, hA⟩
  | .attr i v a cx, hf, hok, hnt => by
      intro n c' d n' hv
      simp only [fragE, Bool.and_eq_true] at hf
      replace hf := hf.1
      simp only [okT] at hok
      vopen hv
      obtain ⟨v1, d1, n1, hvv, hv⟩ := hv
      rcases hE : ensure cfg "Attribute" "value" v1 n1 with ⟨v2, h1, n2⟩
      simp only [hE] at hv; vclose hv
      obtain ⟨rfl, rfl, rfl⟩ := hv
      have hk := simKids O cfg "Attribute" [("value", v)] n [v1] (d1 ++ []) n1 n1 [v2] (h1 ++ []) n2
        (by simp [fragEs, hf]) (by simpa [namesEs, namesE] using hnt) (pairsOkT_single _ _ _)
        (by intro p hp
            simp only [List.mem_singleton] at hp; subst hp
            exact simE O cfg v hf hok (by simpa [namesE] using hnt))
        (by simp [visitEs, hvv, bind, Except.bind, pure, Except.pure]) (Nat.le_refl _) (by simp [ensureFs, hE])
      simp only [List.append_nil, List.map_cons, List.map_nil] at hk
      exact SimK.congr (eval_attr O i v a cx) (eval_attr O i v2 a cx) (SimK.lift (respAgree_pure _) hk)
  | .unary i op v, hf, hok, hnt => by
      intro n c' d n' hv
      simp only [fragE] at hf
      simp only [okT] at hok
      vopen hv
      obtain ⟨v1, d1, n1, hvv, hv⟩ := hv
      rcases hE : ensure cfg "UnaryOp" "operand" v1 n1 with ⟨v2, h1, n2⟩
      simp only [hE] at hv; vclose hv
      obtain ⟨rfl, rfl, rfl⟩ := hv
      have hk := simKids O cfg "UnaryOp" [("operand", v)] n [v1] (d1 ++ []) n1 n1 [v2] (h1 ++ []) n2
        (by simp [fragEs, hf]) (by simpa [namesEs, namesE] using hnt) (pairsOkT_single _ _ _)
        (by intro p hp
            simp only [List.mem_singleton] at hp; subst hp
            exact simE O cfg v hf hok (by simpa [namesE] using hnt))
        (by simp [visitEs, hvv, bind, Except.bind, pure, Except.pure]) (Nat.le_refl _) (by simp [ensureFs, hE])
      simp only [List.append_nil, List.map_cons, List.map_nil] at hk
      exact SimK.congr (eval_unary O i op v) (eval_unary O i op v2) (SimK.lift (respAgree_pure _) hk)
  | .binop i op l r, hf, hok, hnt => by
      intro n c' d n' hv
      simp only [fragE, Bool.and_eq_true] at hf
      simp only [okT, Bool.and_eq_true] at hok
      simp only [namesE, List.mem_append] at hnt
      simp only [visitE] at hv
      split at hv
      · simp at hv
      vopen hv
      obtain ⟨l1, d1, n1, hvl, r1, d2, n2, hvr, hv⟩ := hv
      rcases hE1 : ensure cfg "BinOp" "left" l1 n2 with ⟨l2, h1, n3⟩
      rcases hE2 : ensure cfg "BinOp" "right" r1 n3 with ⟨r2, h2, n4⟩
      simp only [hE1, hE2] at hv; vclose hv
      obtain ⟨rfl, rfl, rfl⟩ := hv
      have hk := simKids O cfg "BinOp" [("left", l), ("right", r)] n [l1, r1] (d1 ++ (d2 ++ [])) n2 n2 [l2, r2]
        (h1 ++ (h2 ++ [])) n4
        (by simp [fragEs, hf.1, hf.2]) (by simpa [namesEs] using hnt) hok.2
        (by intro p hp
            simp only [List.mem_cons, List.mem_nil_iff, or_false] at hp
            rcases hp with rfl | rfl
            · exact simE O cfg l hf.1 hok.1.1 (fun y hy => hnt y (Or.inl hy))
            · exact simE O cfg r hf.2 hok.1.2 (fun y hy => hnt y (Or.inr hy)))
        (by simp [visitEs, hvl, hvr, bind, Except.bind, pure, Except.pure]) (Nat.le_refl _)
        (by simp [ensureFs, hE1, hE2])
      simp only [List.append_nil, List.map_cons, List.map_nil, ← List.append_assoc] at hk
      exact SimK.congr (eval_binop O i op l r) (eval_binop O i op l2 r2) (SimK.lift (respAgree_pure _) hk)
  | .subscript i v s cx, hf, hok, hnt => by
      intro n c' d n' hv
      simp only [fragE, Bool.and_eq_true] at hf
      replace hf := hf.1.1
      simp only [okT, Bool.and_eq_true] at hok
      simp only [namesE, List.mem_append] at hnt
      vopen hv
      obtain ⟨l1, d1, n1, hvl, r1, d2, n2, hvr, hv⟩ := hv
      rcases hE1 : ensure cfg "Subscript" "value" l1 n2 with ⟨l2, h1, n3⟩
      rcases hE2 : ensure cfg "Subscript" "slice" r1 n3 with ⟨r2, h2, n4⟩
      simp only [hE1, hE2] at hv; vclose hv
      obtain ⟨rfl, rfl, rfl⟩ := hv
      have hk := simKids O cfg "Subscript" [("value", v), ("slice", s)] n [l1, r1] (d1 ++ (d2 ++ [])) n2 n2 [l2, r2]
        (h1 ++ (h2 ++ [])) n4
        (by simp [fragEs, hf.1, hf.2]) (by simpa [namesEs] using hnt) hok.2
        (by intro p hp
            simp only [List.mem_cons, List.mem_nil_iff, or_false] at hp
            rcases hp with rfl | rfl
            · exact simE O cfg v hf.1 hok.1.1 (fun y hy => hnt y (Or.inl hy))
            · exact simE O cfg s hf.2 hok.1.2 (fun y hy => hnt y (Or.inr hy)))
        (by simp [visitEs, hvl, hvr, bind, Except.bind, pure, Except.pure]) (Nat.le_refl _)
        (by simp [ensureFs, hE1, hE2])
      simp only [List.append_nil, List.map_cons, List.map_nil, ← List.append_assoc] at hk
      exact SimK.congr (eval_subscript O i v s cx) (eval_subscript O i l2 r2 cx) (SimK.lift (respAgree_pure _) hk)
  | .compare i l ops rs, hf, hok, hnt => by
      intro n c' d n' hv
      simp only [fragE, Bool.and_eq_true, beq_iff_eq] at hf
      obtain ⟨⟨⟨hfl, hfrs⟩, hops⟩, hrs⟩ := hf
      simp only [okT, Bool.and_eq_true] at hok
      simp only [namesE, List.mem_append] at hnt
      have ihl := simE O cfg l hfl hok.1.1 (fun y hy => hnt y (Or.inl hy))
      have ihrs := simEs O cfg rs hfrs hok.1.2 (fun y hy => hnt y (Or.inr hy))
      obtain ⟨op, rfl⟩ : ∃ op, ops = [op] := by
        cases ops with
        | nil => simp at hops
        | cons a t => cases t with
          | nil => exact ⟨a, rfl⟩
          | cons b t => simp at hops
      obtain ⟨r, rfl⟩ : ∃ r, rs = [r] := by
        cases rs with
        | nil => simp at hrs
        | cons a t => cases t with
          | nil => exact ⟨a, rfl⟩
          | cons b t => simp at hrs
      simp only [fragEs, Bool.and_true] at hfrs
      simp only [tag, List.map_cons, List.map_nil] at hok
      simp only [namesEs, List.append_nil] at hnt
      simp only [visitE] at hv
      split at hv
      · next hlen => simp at hlen
      vopen hv
      obtain ⟨l1, d1, n1, hvl, rs1, d2, n2, hvr, hv⟩ := hv
      obtain ⟨r1, dr, nr, hvr1, q, dq, nq, hq, hvr⟩ := hvr
      vclose hq; obtain ⟨rfl, rfl, rfl⟩ := hq
      vclose hvr; obtain ⟨rfl, rfl, rfl⟩ := hvr
      rcases hE1 : ensure cfg "Compare" "left" l1 nr with ⟨l2, h1, n3⟩
      rcases hE2 : ensure cfg "Compare" "comparators" r1 n3 with ⟨r2, h2, n4⟩
      simp only [hE1, ensureList, hE2] at hv; vclose hv
      obtain ⟨rfl, rfl, rfl⟩ := hv
      have hk := simKids O cfg "Compare" [("left", l), ("comparators", r)] n [l1, r1] (d1 ++ (dr ++ [])) nr nr [l2, r2]
        (h1 ++ (h2 ++ [])) n4
        (by simp [fragEs, hfl, hfrs]) (by simpa [namesEs] using hnt) hok.2
        (by intro p hp
            simp only [List.mem_cons, List.mem_nil_iff, or_false] at hp
            rcases hp with rfl | rfl
            · exact ihl
            · exact ihrs r (by simp))
        (by simp [visitEs, hvl, hvr1, bind, Except.bind, pure, Except.pure]) (Nat.le_refl _)
        (by simp [ensureFs, hE1, hE2])
      simp only [List.append_nil, List.map_cons, List.map_nil, ← List.append_assoc] at hk ⊢
      exact SimK.congr (eval_compare1 O i l op r) (eval_compare1 O i l2 op r2) (SimK.lift (respAgree_pure _) hk)
  | .call i f as ks, hf, hok, hnt => by
      intro n c' d n' hv
      simp only [fragE, Bool.and_eq_true, List.isEmpty_iff] at hf
      obtain ⟨⟨hff, hfa⟩, rfl⟩ := hf
      simp only [okT, Bool.and_eq_true] at hok
      simp only [namesE, namesEs, List.append_nil, List.mem_append] at hnt
      vopen hv
      obtain ⟨f1, d1, n1, hvf, as1, d2, n2, hva, ks1, d3, n3, hks, hv⟩ := hv
      vclose hks; obtain ⟨rfl, rfl, rfl⟩ := hks
      rcases hE1 : ensure cfg "Call" "func" f1 n2 with ⟨f2, h1, n4⟩
      rcases hE2 : ensureList cfg "Call" "args" as1 n4 with ⟨as2, h2, n5⟩
      simp only [hE1, hE2, ensureList] at hv; vclose hv
      obtain ⟨rfl, rfl, rfl⟩ := hv
      have hk := simKids O cfg "Call" (("func", f) :: tag "args" as) n (f1 :: as1) (d1 ++ d2) n2 n2 (f2 :: as2)
        (h1 ++ h2) n5
        (by simp [fragEs, hff, hfa, tag_map_snd])
        (by simpa [namesEs, tag_map_snd] using hnt) hok.2
        (by intro p hp
            rcases List.mem_cons.mp hp with rfl | hp
            · exact simE O cfg f hff hok.1.1 (fun y hy => hnt y (Or.inl hy))
            · exact simEs O cfg as hfa hok.1.2 (fun y hy => hnt y (Or.inr hy)) p.2 (mem_tag hp))
        (by simp [visitEs, tag_map_snd, hvf, hva, bind, Except.bind, pure, Except.pure]) (Nat.le_refl _)
        (by simp [ensureFs, tag_map_fst, hE1, ensureFs_const cfg "Call" "args" as as1 _ (visitEs_length hva).symm, hE2])
      simp only [List.map_cons, tag_map_snd, List.append_nil] at hk ⊢
      rw [← List.append_assoc] at hk
      have fa := visitEs_finv cfg (fun _ => True) as n1 as1 d2 n2 hfa (fun _ _ => trivial) hva
      have fa2 := ensureList_finv (W := fun _ => True) fa.frag (fun _ _ => trivial) hE2
      exact SimK.congr (fun σ => eval_call O i f as σ hfa) (fun σ => eval_call O i f2 as2 σ fa2.frag)
        (SimK.lift (respAgree_doCall O _) hk)
  | .seq i .set es cx, hf, hok, hnt => by
      intro n c' d n' hv
      simp only [fragE, Bool.and_eq_true] at hf
      replace hf := hf.1
      simp only [okT, Bool.and_eq_true] at hok
      simp only [namesE] at hnt
      vopen hv
      obtain ⟨es1, d1, n1, hve, hv⟩ := hv
      rcases hE : ensureList cfg "Set" "elts" es1 n1 with ⟨es2, h1, n2⟩
      simp only [hE] at hv; vclose hv
      obtain ⟨rfl, rfl, rfl⟩ := hv
      have hk := simKids O cfg "Set" (tag "elts" es) n es1 d1 n1 n1 es2 h1 n2
        (by simpa [tag_map_snd] using hf) (by simpa [tag_map_snd] using hnt) hok.2
        (by intro p hp; exact simEs O cfg es hf hok.1 hnt p.2 (mem_tag hp))
        (by simpa [tag_map_snd] using hve) (Nat.le_refl _)
        (by rw [tag_map_fst, ensureFs_const cfg "Set" "elts" es es1 _ (visitEs_length hve).symm]; exact hE)
      simp only [tag_map_snd] at hk
      have fa := visitEs_finv cfg (fun _ => True) es n es1 d1 n1 hf (fun _ _ => trivial) hve
      have fa2 := ensureList_finv (W := fun _ => True) fa.frag (fun _ _ => trivial) hE
      exact SimK.congr (fun σ => eval_seq O i .set es cx σ hf) (fun σ => eval_seq O i .set es2 cx σ fa2.frag)
        (SimK.lift (respAgree_pure _) hk)
  | .seq i .tuple es cx, hf, hok, hnt => by
      intro n c' d n' hv
      simp only [fragE, Bool.and_eq_true] at hf
      replace hf := hf.1
      simp only [okT, Bool.and_eq_true, bne_iff_ne, ne_eq] at hok
      simp only [namesE] at hnt
      vopen hv
      obtain ⟨es1, d1, n1, hve, hv⟩ := hv
      have hcx : (cx == Ctx.store) = false := by simpa using hok.1.2
      simp only [hcx, Bool.false_eq_true, if_false] at hv
      rcases hE : ensureList cfg "Tuple" "elts" es1 n1 with ⟨es2, h1, n2⟩
      simp only [hE] at hv; vclose hv
      obtain ⟨rfl, rfl, rfl⟩ := hv
      have hk := simKids O cfg "Tuple" (tag "elts" es) n es1 d1 n1 n1 es2 h1 n2
        (by simpa [tag_map_snd] using hf) (by simpa [tag_map_snd] using hnt) hok.2
        (by intro p hp; exact simEs O cfg es hf hok.1.1 hnt p.2 (mem_tag hp))
        (by simpa [tag_map_snd] using hve) (Nat.le_refl _)
        (by rw [tag_map_fst, ensureFs_const cfg "Tuple" "elts" es es1 _ (visitEs_length hve).symm]; exact hE)
      simp only [tag_map_snd] at hk
      have fa := visitEs_finv cfg (fun _ => True) es n es1 d1 n1 hf (fun _ _ => trivial) hve
      have fa2 := ensureList_finv (W := fun _ => True) fa.frag (fun _ _ => trivial) hE
      exact SimK.congr (fun σ => eval_seq O i .tuple es cx σ hf) (fun σ => eval_seq O i .tuple es2 cx σ fa2.frag)
        (SimK.lift (respAgree_pure _) hk)
  | .seq i .list es cx, hf, hok, hnt => by
      intro n c' d n' hv
      simp only [fragE, Bool.and_eq_true] at hf
      replace hf := hf.1
      simp only [okT, Bool.and_eq_true, bne_iff_ne, ne_eq] at hok
      simp only [namesE] at hnt
      vopen hv
      obtain ⟨es1, d1, n1, hve, hv⟩ := hv
      have hcx : (cx == Ctx.store) = false := by simpa using hok.1.2
      simp only [hcx, Bool.false_eq_true, if_false] at hv
      rcases hE : ensureList cfg "List" "elts" es1 n1 with ⟨es2, h1, n2⟩
      simp only [hE] at hv; vclose hv
      obtain ⟨rfl, rfl, rfl⟩ := hv
      have hk := simKids O cfg "List" (tag "elts" es) n es1 d1 n1 n1 es2 h1 n2
        (by simpa [tag_map_snd] using hf) (by simpa [tag_map_snd] using hnt) hok.2
        (by intro p hp; exact simEs O cfg es hf hok.1.1 hnt p.2 (mem_tag hp))
        (by simpa [tag_map_snd] using hve) (Nat.le_refl _)
        (by rw [tag_map_fst, ensureFs_const cfg "List" "elts" es es1 _ (visitEs_length hve).symm]; exact hE)
      simp only [tag_map_snd] at hk
      have fa := visitEs_finv cfg (fun _ => True) es n es1 d1 n1 hf (fun _ _ => trivial) hve
      have fa2 := ensureList_finv (W := fun _ => True) fa.frag (fun _ _ => trivial) hE
      exact SimK.congr (fun σ => eval_seq O i .list es cx σ hf) (fun σ => eval_seq O i .list es2 cx σ fa2.frag)
        (SimK.lift (respAgree_pure _) hk)
  | .namedexpr i (.name j s .store) v, hf, hok, hnt => by
      intro n c' d n' hv
      simp only [fragE] at hf
      simp only [okT] at hok
      simp only [namesE, List.mem_append] at hnt
      vopen hv
      obtain ⟨t1, d1, n1, ht, v1, d2, n2, hvv, hv⟩ := hv
      vclose ht; obtain ⟨rfl, rfl, rfl⟩ := ht
      vclose hv; obtain ⟨rfl, rfl, rfl⟩ := hv
      have hs := simE O cfg v hf hok (fun y hy => hnt y (Or.inr hy)) _ _ _ _ hvv
      simp only [List.nil_append]
      refine SimK.congr (eval_namedexpr O i j s v) (eval_namedexpr O i j s v1) (SimK.lift ?_ hs)
      intro x σ τ h
      exact ⟨rfl, h.set_both s x⟩
  | .namedexpr _ (.name _ _ .load) _, hf, _, _ | .namedexpr _ (.name _ _ .del) _, hf, _, _
  | .namedexpr _ (.const ..) _, hf, _, _ | .namedexpr _ (.attr ..) _, hf, _, _ | .namedexpr _ (.subscript ..) _, hf, _, _
  | .namedexpr _ (.call ..) _, hf, _, _ | .namedexpr _ (.keyword ..) _, hf, _, _ | .namedexpr _ (.boolop ..) _, hf, _, _
  | .namedexpr _ (.unary ..) _, hf, _, _ | .namedexpr _ (.binop ..) _, hf, _, _ | .namedexpr _ (.compare ..) _, hf, _, _
  | .namedexpr _ (.ifexp ..) _, hf, _, _ | .namedexpr _ (.lambda ..) _, hf, _, _ | .namedexpr _ (.seq ..) _, hf, _, _
  | .namedexpr _ (.starred ..) _, hf, _, _ | .namedexpr _ (.namedexpr ..) _, hf, _, _ | .namedexpr _ (.comp ..) _, hf, _, _
  | .namedexpr _ (.comprehension ..) _, hf, _, _ | .namedexpr _ (.arguments ..) _, hf, _, _ | .namedexpr _ (.arg ..) _, hf, _, _
  | .namedexpr _ (.withitem ..) _, hf, _, _ | .namedexpr _ .noneMarker _, hf, _, _ | .namedexpr _ (.other ..) _, hf, _, _
  | .keyword .., hf, _, _ | .boolop .., hf, _, _ | .ifexp .., hf, _, _ | .lambda .., hf, _, _ | .starred .., hf, _, _
  | .comp .., hf, _, _ | .comprehension .., hf, _, _ | .arguments .., hf, _, _ | .arg .., hf, _, _
  | .withitem .., hf, _, _ | .noneMarker, hf, _, _ | .other .., hf, _, _ => by simp [fragE] at hf
theorem simEs (O : Oracle) (cfg : Config) : ∀ (es : List Expr), fragEs es = true → okTs cfg es = true →
    (∀ y ∈ namesEs es, isTempName y = false) → ∀ c ∈ es, SimHyp O cfg c
  | [], _, _, _, c, hc => by simp at hc
  | e :: es, hf, hok, hnt, c, hc => by
      simp only [fragEs, Bool.and_eq_true] at hf
      simp only [okTs, Bool.and_eq_true] at hok
      simp only [namesEs, List.mem_append] at hnt
      have ihe := simE O cfg e hf.1 hok.1 (fun y hy => hnt y (Or.inl hy))
      have ihes := simEs O cfg es hf.2 hok.2 (fun y hy => hnt y (Or.inr hy))
      rcases List.mem_cons.mp hc with h | hc
      · rw [h]; exact ihe
      · exact ihes c hc
end

end Malt.Anf
