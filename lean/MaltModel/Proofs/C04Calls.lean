import MaltModel.Conv.NoNative
import MaltModel.Conv.CallTrees
/-
Helper lemmas for `C04_calls_routed` (Props/C04.lean): the checker `offE`/`offS` applied to the output of
the call_trees model reports no native call.
-/
namespace Malt.C04
open Malt.Py Malt.Conv Malt.Conv.NoNative

/-- no offender of kind "Call" -/
def CF (l : List Off) : Prop := ∀ o ∈ l, o.kind ≠ "Call"

theorem CF_nil : CF [] := by intro o h; cases h
theorem CF_append {a b : List Off} : CF (a ++ b) ↔ CF a ∧ CF b := by
  constructor
  · intro h; exact ⟨fun o ho => h o (List.mem_append_left _ ho), fun o ho => h o (List.mem_append_right _ ho)⟩
  · intro ⟨ha, hb⟩ o ho
    rcases List.mem_append.mp ho with h | h
    · exact ha o h
    · exact hb o h
theorem CF_cons_other {k : String} {i : Nat} {d : String} {l : List Off} (hk : k ≠ "Call") : CF (⟨k, i, d⟩ :: l) ↔ CF l := by
  constructor
  · intro h o ho; exact h o (List.mem_cons_of_mem _ ho)
  · intro h o ho
    rcases List.mem_cons.mp ho with rfl | h'
    · exact hk
    · exact h o h'
theorem CF_ite_other {c : Bool} {k : String} {i : Nat} {d : String} (hk : k ≠ "Call") :
    CF (if c then [] else [⟨k, i, d⟩]) := by
  cases c <;> simp [CF, hk]

/-! ### inside a with-item (`w = true`) no call is ever reported -/
mutual
theorem withItem_CF (cfg : Cfg) (sc : List String) : ∀ (e : Expr) (pos : Pos), CF (offE cfg sc true pos e)
  | .name .., _ => by simp [offE, CF_nil]
  | .const .., _ => by simp [offE, CF_nil]
  | .noneMarker, _ => by simp [offE, CF_nil]
  | .call i f as ks, pos => by
      simp only [offE, callOk, Bool.true_or, if_true, List.nil_append, CF_append]
      exact ⟨⟨withItem_CF cfg sc f _, withItems_CF cfg sc as _⟩, withItems_CF cfg sc ks _⟩
  | .boolop i b vs, _ => by
      simp only [offE]; rw [CF_cons_other (by decide)]; exact withItems_CF cfg sc vs _
  | .unary i op e, _ => by
      simp only [offE, CF_append]
      refine ⟨?_, withItem_CF cfg sc e _⟩
      split
      · simp [CF]
      · exact CF_nil
  | .ifexp i t b e, _ => by
      simp only [offE]; rw [CF_cons_other (by decide)]; simp only [CF_append]
      exact ⟨⟨withItem_CF cfg sc t _, withItem_CF cfg sc b _⟩, withItem_CF cfg sc e _⟩
  | .compare i l ops rs, _ => by
      simp only [offE, CF_append]
      refine ⟨⟨?_, withItem_CF cfg sc l _⟩, withItems_CF cfg sc rs _⟩
      split
      · exact CF_nil
      · simp [CF]
  | .binop i op l r, _ => by
      simp only [offE, CF_append]; exact ⟨withItem_CF cfg sc l _, withItem_CF cfg sc r _⟩
  | .attr i v a c, _ => by simp only [offE]; exact withItem_CF cfg sc v _
  | .subscript i v s c, _ => by
      simp only [offE, CF_append]; exact ⟨withItem_CF cfg sc v _, withItem_CF cfg sc s _⟩
  | .keyword i a h v, _ => by simp only [offE]; exact withItem_CF cfg sc v _
  | .lambda i a b, _ => by
      simp only [offE, CF_append]; exact ⟨withItem_CF cfg sc a _, withItem_CF cfg sc b _⟩
  | .seq i k es c, _ => by simp only [offE]; exact withItems_CF cfg sc es _
  | .starred i v c, _ => by simp only [offE]; exact withItem_CF cfg sc v _
  | .namedexpr i t v, _ => by
      simp only [offE, CF_append]; exact ⟨withItem_CF cfg sc t _, withItem_CF cfg sc v _⟩
  | .comp i k es gs, _ => by
      simp only [offE, CF_append]; exact ⟨withItems_CF cfg sc es _, withItems_CF cfg sc gs _⟩
  | .comprehension i t it ifs a, _ => by
      simp only [offE, CF_append]
      exact ⟨⟨withItem_CF cfg sc t _, withItem_CF cfg sc it _⟩, withItems_CF cfg sc ifs _⟩
  | .arguments i a b c d e f g, _ => by
      simp only [offE, CF_append]
      exact ⟨⟨⟨⟨⟨⟨withItems_CF cfg sc a _, withItems_CF cfg sc b _⟩, withItems_CF cfg sc c _⟩, withItems_CF cfg sc d _⟩,
        withItems_CF cfg sc e _⟩, withItems_CF cfg sc f _⟩, withItems_CF cfg sc g _⟩
  | .arg i n an, _ => by simp only [offE]; exact withItems_CF cfg sc an _
  | .withitem i c v, _ => by
      simp only [offE, CF_append]; exact ⟨withItem_CF cfg sc c _, withItems_CF cfg sc v _⟩
  | .other i k ats ks, _ => by simp only [offE]; exact withItems_CF cfg sc ks _
theorem withItems_CF (cfg : Cfg) (sc : List String) : ∀ (es : List Expr) (ps : List Pos), CF (offEs cfg sc true ps es)
  | [], _ => by simp [offEs, CF_nil]
  | e :: es, ps => by
      simp only [offEs, CF_append]; exact ⟨withItem_CF cfg sc e _, withItems_CF cfg sc es _⟩
end

/-! ### qualified names -/

theorem sliceKind_lit {e : Expr} {r : String} (h : sliceKind e = .lit r) : ∃ i k, e = .const i k r := by
  cases e <;> simp only [sliceKind] at h <;> try (split at h <;> simp at h)
  all_goals (try (simp at h))
  rename_i i k r' _
  subst h; exact ⟨i, k, rfl⟩

/-- an expression that has a qualified name is left alone by the call_trees visitor (it contains no call) -/
theorem visitE_of_qn (env : CallTrees.Env) (ctx : String) :
    ∀ (e : Expr) (s : String), qnStr e = some s → CallTrees.visitE env ctx e = e
  | .name .., _, _ => by simp [CallTrees.visitE]
  | .attr i v a c, s, h => by
      simp only [qnStr, Option.map_eq_some_iff] at h
      obtain ⟨b, hb, _⟩ := h
      simp [CallTrees.visitE, visitE_of_qn env ctx v b hb]
  | .subscript i v sl c, s, h => by
      simp only [qnStr] at h
      cases hk : sliceKind sl with
      | noQn => simp [hk] at h
      | lit r =>
          simp only [hk, Option.map_eq_some_iff] at h
          obtain ⟨b, hb, _⟩ := h
          have hs : CallTrees.visitE env ctx sl = sl := by
            obtain ⟨i', k', rfl⟩ := sliceKind_lit hk
            simp [CallTrees.visitE]
          simp [CallTrees.visitE, visitE_of_qn env ctx v b hb, hs]
      | sub =>
          simp only [hk] at h
          cases hx : qnStr sl with
          | none => simp [hx] at h
          | some x =>
              cases hb : qnStr v with
              | none => simp [hx, hb] at h
              | some b => simp [CallTrees.visitE, visitE_of_qn env ctx v b hb, visitE_of_qn env ctx sl x hx]
  | .const .., _, h => by simp [qnStr] at h
  | .call .., _, h => by simp [qnStr] at h
  | .keyword .., _, h => by simp [qnStr] at h
  | .boolop .., _, h => by simp [qnStr] at h
  | .unary .., _, h => by simp [qnStr] at h
  | .binop .., _, h => by simp [qnStr] at h
  | .compare .., _, h => by simp [qnStr] at h
  | .ifexp .., _, h => by simp [qnStr] at h
  | .lambda .., _, h => by simp [qnStr] at h
  | .seq .., _, h => by simp [qnStr] at h
  | .starred .., _, h => by simp [qnStr] at h
  | .namedexpr .., _, h => by simp [qnStr] at h
  | .comp .., _, h => by simp [qnStr] at h
  | .comprehension .., _, h => by simp [qnStr] at h
  | .arguments .., _, h => by simp [qnStr] at h
  | .arg .., _, h => by simp [qnStr] at h
  | .withitem .., _, h => by simp [qnStr] at h
  | .noneMarker, _, h => by simp [qnStr] at h
  | .other .., _, h => by simp [qnStr] at h

theorem calleeQn_of_qn : ∀ (e : Expr) (s : String), qnStr e = some s → calleeQn e = some s
  | .name .., _, h => by simpa [qnStr, calleeQn] using h
  | .attr i v a c, s, h => by
      simp only [qnStr, Option.map_eq_some_iff] at h
      obtain ⟨b, hb, rfl⟩ := h
      simp [calleeQn, calleeQn_of_qn v b hb]
  | .subscript .., _, h => by simpa [calleeQn] using h
  | .const .., _, h => by simp [qnStr] at h
  | .call .., _, h => by simp [qnStr] at h
  | .keyword .., _, h => by simp [qnStr] at h
  | .boolop .., _, h => by simp [qnStr] at h
  | .unary .., _, h => by simp [qnStr] at h
  | .binop .., _, h => by simp [qnStr] at h
  | .compare .., _, h => by simp [qnStr] at h
  | .ifexp .., _, h => by simp [qnStr] at h
  | .lambda .., _, h => by simp [qnStr] at h
  | .seq .., _, h => by simp [qnStr] at h
  | .starred .., _, h => by simp [qnStr] at h
  | .namedexpr .., _, h => by simp [qnStr] at h
  | .comp .., _, h => by simp [qnStr] at h
  | .comprehension .., _, h => by simp [qnStr] at h
  | .arguments .., _, h => by simp [qnStr] at h
  | .arg .., _, h => by simp [qnStr] at h
  | .withitem .., _, h => by simp [qnStr] at h
  | .noneMarker, _, h => by simp [qnStr] at h
  | .other .., _, h => by simp [qnStr] at h

/-! ### the checker does not look at expression contexts -/
theorem sliceKind_adjustCtx (ov : Option Ctx) (e : Expr) : sliceKind (adjustCtx ov e) = sliceKind e := by
  cases e <;> simp [adjustCtx, sliceKind]
  rename_i i k es c
  cases k <;> simp [adjustCtx]

theorem qnStr_adjustCtx : ∀ (e : Expr) (ov : Option Ctx), qnStr (adjustCtx ov e) = qnStr e
  | .name .., _ => by simp [adjustCtx, qnStr]
  | .attr i v a c, _ => by simp [adjustCtx, qnStr, qnStr_adjustCtx v]
  | .subscript i v s c, _ => by
      simp [adjustCtx, qnStr, sliceKind_adjustCtx, qnStr_adjustCtx v, qnStr_adjustCtx s]
  | .seq i k es c, _ => by cases k <;> simp [adjustCtx, qnStr]
  | .const .., _ => by simp [adjustCtx, qnStr]
  | .call .., _ => by simp [adjustCtx, qnStr]
  | .keyword .., _ => by simp [adjustCtx, qnStr]
  | .boolop .., _ => by simp [adjustCtx, qnStr]
  | .unary .., _ => by simp [adjustCtx, qnStr]
  | .binop .., _ => by simp [adjustCtx, qnStr]
  | .compare .., _ => by simp [adjustCtx, qnStr]
  | .ifexp .., _ => by simp [adjustCtx, qnStr]
  | .lambda .., _ => by simp [adjustCtx, qnStr]
  | .starred .., _ => by simp [adjustCtx, qnStr]
  | .namedexpr .., _ => by simp [adjustCtx, qnStr]
  | .comp .., _ => by simp [adjustCtx, qnStr]
  | .comprehension .., _ => by simp [adjustCtx, qnStr]
  | .arguments .., _ => by simp [adjustCtx, qnStr]
  | .arg .., _ => by simp [adjustCtx, qnStr]
  | .withitem .., _ => by simp [adjustCtx, qnStr]
  | .noneMarker, _ => by simp [adjustCtx, qnStr]
  | .other .., _ => by simp [adjustCtx, qnStr]

theorem calleeQn_adjustCtx : ∀ (e : Expr) (ov : Option Ctx), calleeQn (adjustCtx ov e) = calleeQn e
  | .name .., _ => by simp [adjustCtx, calleeQn]
  | .attr i v a c, _ => by simp [adjustCtx, calleeQn, calleeQn_adjustCtx v]
  | .call i f as ks, _ => by
      match as, ks with
      | [x], [] => simp [adjustCtx, adjustCtxs, calleeQn, qnStr_adjustCtx f, calleeQn_adjustCtx x]
      | [], _ => simp [adjustCtx, adjustCtxs, calleeQn, qnStr]
      | _ :: _ :: _, _ => simp [adjustCtx, adjustCtxs, calleeQn, qnStr]
      | [_], _ :: _ => simp [adjustCtx, adjustCtxs, calleeQn, qnStr]
  | .subscript i v s c, ov => by
      have := qnStr_adjustCtx (.subscript i v s c) ov
      simpa [adjustCtx, calleeQn] using this
  | .seq i k es c, _ => by cases k <;> simp [adjustCtx, calleeQn, qnStr]
  | .const .., _ => by simp [adjustCtx, calleeQn, qnStr]
  | .keyword .., _ => by simp [adjustCtx, calleeQn, qnStr]
  | .boolop .., _ => by simp [adjustCtx, calleeQn, qnStr]
  | .unary .., _ => by simp [adjustCtx, calleeQn, qnStr]
  | .binop .., _ => by simp [adjustCtx, calleeQn, qnStr]
  | .compare .., _ => by simp [adjustCtx, calleeQn, qnStr]
  | .ifexp .., _ => by simp [adjustCtx, calleeQn, qnStr]
  | .lambda .., _ => by simp [adjustCtx, calleeQn, qnStr]
  | .starred .., _ => by simp [adjustCtx, calleeQn, qnStr]
  | .namedexpr .., _ => by simp [adjustCtx, calleeQn, qnStr]
  | .comp .., _ => by simp [adjustCtx, calleeQn, qnStr]
  | .comprehension .., _ => by simp [adjustCtx, calleeQn, qnStr]
  | .arguments .., _ => by simp [adjustCtx, calleeQn, qnStr]
  | .arg .., _ => by simp [adjustCtx, calleeQn, qnStr]
  | .withitem .., _ => by simp [adjustCtx, calleeQn, qnStr]
  | .noneMarker, _ => by simp [adjustCtx, calleeQn, qnStr]
  | .other .., _ => by simp [adjustCtx, calleeQn, qnStr]

end Malt.C04
