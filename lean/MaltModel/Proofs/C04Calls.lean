import MaltModel.Conv.NoNative
import MaltModel.Conv.CallTrees
/-
Helper lemmas for `C04_calls_routed` (Props/C04.lean): the checker `offE`/`offS` applied to the output of
the call_trees model reports no native call.
-/
namespace Malt.C04
open Malt.Py Malt.Conv Malt.Conv.NoNative

/-- no offender of kind "Call" -/
def CF (l : List Off) : Prop := ∀ o ∈ l, o.kind ≠ "Call"

theorem CF_nil : CF [] := by intro o h; cases h
theorem CF_append {a b : List Off} : CF (a ++ b) ↔ CF a ∧ CF b := by
  constructor
  · intro h; exact ⟨fun o ho => h o (List.mem_append_left _ ho), fun o ho => h o (List.mem_append_right _ ho)⟩
  · intro ⟨ha, hb⟩ o ho
    rcases List.mem_append.mp ho with h | h
    · exact ha o h
    · exact hb o h
theorem CF_cons_other {k : String} {i : Nat} {d : String} {l : List Off} (hk : k ≠ "Call") : CF (⟨k, i, d⟩ :: l) ↔ CF l := by
  constructor
  · intro h o ho; exact h o (List.mem_cons_of_mem _ ho)
  · intro h o ho
    rcases List.mem_cons.mp ho with rfl | h'
    · exact hk
    · exact h o h'
theorem CF_ite_other {c : Bool} {k : String} {i : Nat} {d : String} (hk : k ≠ "Call") :
    CF (if c then [] else [⟨k, i, d⟩]) := by
  cases c <;> simp [CF, hk]

/-! ### inside a with-item (`w = true`) no call is ever reported -/
mutual
theorem withItem_CF (cfg : Cfg) (sc : List String) : ∀ (e : Expr) (pos : Pos), CF (offE cfg sc true pos e)
  | .name .., _ => by simp [offE, CF_nil]
  | .const .., _ => by simp [offE, CF_nil]
  | .noneMarker, _ => by simp [offE, CF_nil]
  | .call i f as ks, pos => by
      simp only [offE, callOk, Bool.true_or, if_true, List.nil_append, CF_append]
      exact ⟨⟨withItem_CF cfg sc f _, withItems_CF cfg sc as _⟩, withItems_CF cfg sc ks _⟩
  | .boolop i b vs, _ => by
      simp only [offE]; rw [CF_cons_other (by decide)]; exact withItems_CF cfg sc vs _
  | .unary i op e, _ => by
      simp only [offE, CF_append]
      refine ⟨?_, withItem_CF cfg sc e _⟩
      split
      · simp [CF]
      · exact CF_nil
  | .ifexp i t b e, _ => by
      simp only [offE]; rw [CF_cons_other (by decide)]; simp only [CF_append]
      exact ⟨⟨withItem_CF cfg sc t _, withItem_CF cfg sc b _⟩, withItem_CF cfg sc e _⟩
  | .compare i l ops rs, _ => by
      simp only [offE, CF_append]
      refine ⟨⟨?_, withItem_CF cfg sc l _⟩, withItems_CF cfg sc rs _⟩
      split
      · exact CF_nil
      · simp [CF]
  | .binop i op l r, _ => by
      simp only [offE, CF_append]; exact ⟨withItem_CF cfg sc l _, withItem_CF cfg sc r _⟩
  | .attr i v a c, _ => by simp only [offE]; exact withItem_CF cfg sc v _
  | .subscript i v s c, _ => by
      simp only [offE, CF_append]; exact ⟨withItem_CF cfg sc v _, withItem_CF cfg sc s _⟩
  | .keyword i a h v, _ => by simp only [offE]; exact withItem_CF cfg sc v _
  | .lambda i a b, _ => by
      simp only [offE, CF_append]; exact ⟨withItem_CF cfg sc a _, withItem_CF cfg sc b _⟩
  | .seq i k es c, _ => by simp only [offE]; exact withItems_CF cfg sc es _
  | .starred i v c, _ => by simp only [offE]; exact withItem_CF cfg sc v _
  | .namedexpr i t v, _ => by
      simp only [offE, CF_append]; exact ⟨withItem_CF cfg sc t _, withItem_CF cfg sc v _⟩
  | .comp i k es gs, _ => by
      simp only [offE, CF_append]; exact ⟨withItems_CF cfg sc es _, withItems_CF cfg sc gs _⟩
  | .comprehension i t it ifs a, _ => by
      simp only [offE, CF_append]
      exact ⟨⟨withItem_CF cfg sc t _, withItem_CF cfg sc it _⟩, withItems_CF cfg sc ifs _⟩
  | .arguments i a b c d e f g, _ => by
      simp only [offE, CF_append]
      exact ⟨⟨⟨⟨⟨⟨withItems_CF cfg sc a _, withItems_CF cfg sc b _⟩, withItems_CF cfg sc c _⟩, withItems_CF cfg sc d _⟩,
        withItems_CF cfg sc e _⟩, withItems_CF cfg sc f _⟩, withItems_CF cfg sc g _⟩
  | .arg i n an, _ => by simp only [offE]; exact withItems_CF cfg sc an _
  | .withitem i c v, _ => by
      simp only [offE, CF_append]; exact ⟨withItem_CF cfg sc c _, withItems_CF cfg sc v _⟩
  | .other i k ats ks, _ => by simp only [offE]; exact withItems_CF cfg sc ks _
theorem withItems_CF (cfg : Cfg) (sc : List String) : ∀ (es : List Expr) (ps : List Pos), CF (offEs cfg sc true ps es)
  | [], _ => by simp [offEs, CF_nil]
  | e :: es, ps => by
      simp only [offEs, CF_append]; exact ⟨withItem_CF cfg sc e _, withItems_CF cfg sc es _⟩
end

/-! ### qualified names -/

theorem sliceKind_lit {e : Expr} {r : String} (h : sliceKind e = .lit r) : ∃ i k, e = .const i k r := by
  cases e <;> simp only [sliceKind] at h <;> try (split at h <;> simp at h)
  all_goals (try (simp at h))
  rename_i i k r' _
  subst h; exact ⟨i, k, rfl⟩

/-- an expression that has a qualified name is left alone by the call_trees visitor (it contains no call) -/
theorem visitE_of_qn (env : CallTrees.Env) (ctx : String) :
    ∀ (e : Expr) (s : String), qnStr e = some s → CallTrees.visitE env ctx e = e
  | .name .., _, _ => by simp [CallTrees.visitE]
  | .attr i v a c, s, h => by
      simp only [qnStr, Option.map_eq_some_iff] at h
      obtain ⟨b, hb, _⟩ := h
      simp [CallTrees.visitE, visitE_of_qn env ctx v b hb]
  | .subscript i v sl c, s, h => by
      simp only [qnStr] at h
      cases hk : sliceKind sl with
      | noQn => simp [hk] at h
      | lit r =>
          simp only [hk, Option.map_eq_some_iff] at h
          obtain ⟨b, hb, _⟩ := h
          have hs : CallTrees.visitE env ctx sl = sl := by
            obtain ⟨i', k', rfl⟩ := sliceKind_lit hk
            simp [CallTrees.visitE]
          simp [CallTrees.visitE, visitE_of_qn env ctx v b hb, hs]
      | sub =>
          simp only [hk] at h
          cases hx : qnStr sl with
          | none => simp [hx] at h
          | some x =>
              cases hb : qnStr v with
              | none => simp [hx, hb] at h
              | some b => simp [CallTrees.visitE, visitE_of_qn env ctx v b hb, visitE_of_qn env ctx sl x hx]
  | .const .., _, h => by simp [qnStr] at h
  | .call .., _, h => by simp [qnStr] at h
  | .keyword .., _, h => by simp [qnStr] at h
  | .boolop .., _, h => by simp [qnStr] at h
  | .unary .., _, h => by simp [qnStr] at h
  | .binop .., _, h => by simp [qnStr] at h
  | .compare .., _, h => by simp [qnStr] at h
  | .ifexp .., _, h => by simp [qnStr] at h
  | .lambda .., _, h => by simp [qnStr] at h
  | .seq .., _, h => by simp [qnStr] at h
  | .starred .., _, h => by simp [qnStr] at h
  | .namedexpr .., _, h => by simp [qnStr] at h
  | .comp .., _, h => by simp [qnStr] at h
  | .comprehension .., _, h => by simp [qnStr] at h
  | .arguments .., _, h => by simp [qnStr] at h
  | .arg .., _, h => by simp [qnStr] at h
  | .withitem .., _, h => by simp [qnStr] at h
  | .noneMarker, _, h => by simp [qnStr] at h
  | .other .., _, h => by simp [qnStr] at h

theorem calleeQn_of_qn : ∀ (e : Expr) (s : String), qnStr e = some s → calleeQn e = some s
  | .name .., _, h => by simpa [qnStr, calleeQn] using h
  | .attr i v a c, s, h => by
      simp only [qnStr, Option.map_eq_some_iff] at h
      obtain ⟨b, hb, rfl⟩ := h
      simp [calleeQn, calleeQn_of_qn v b hb]
  | .subscript i v sl c, s, h => by
      simp only [qnStr] at h
      simp only [calleeQn]
      cases hk : sliceKind sl with
      | noQn => simp [hk] at h
      | lit r =>
          simp only [hk, Option.map_eq_some_iff] at h ⊢
          obtain ⟨b, hb, rfl⟩ := h
          exact ⟨b, calleeQn_of_qn v b hb, rfl⟩
      | sub =>
          simp only [hk] at h ⊢
          cases hx : qnStr sl with
          | none => simp [hx] at h
          | some x =>
              cases hb : qnStr v with
              | none => simp [hx, hb] at h
              | some b =>
                  simp only [hx, hb] at h
                  simp [calleeQn_of_qn sl x hx, calleeQn_of_qn v b hb, h]
  | .const .., _, h => by simp [qnStr] at h
  | .call .., _, h => by simp [qnStr] at h
  | .keyword .., _, h => by simp [qnStr] at h
  | .boolop .., _, h => by simp [qnStr] at h
  | .unary .., _, h => by simp [qnStr] at h
  | .binop .., _, h => by simp [qnStr] at h
  | .compare .., _, h => by simp [qnStr] at h
  | .ifexp .., _, h => by simp [qnStr] at h
  | .lambda .., _, h => by simp [qnStr] at h
  | .seq .., _, h => by simp [qnStr] at h
  | .starred .., _, h => by simp [qnStr] at h
  | .namedexpr .., _, h => by simp [qnStr] at h
  | .comp .., _, h => by simp [qnStr] at h
  | .comprehension .., _, h => by simp [qnStr] at h
  | .arguments .., _, h => by simp [qnStr] at h
  | .arg .., _, h => by simp [qnStr] at h
  | .withitem .., _, h => by simp [qnStr] at h
  | .noneMarker, _, h => by simp [qnStr] at h
  | .other .., _, h => by simp [qnStr] at h

/-! ### the checker does not look at expression contexts -/
theorem sliceKind_adjustCtx (ov : Option Ctx) (e : Expr) : sliceKind (adjustCtx ov e) = sliceKind e := by
  cases e <;> simp [adjustCtx, sliceKind]
  rename_i i k es c
  cases k <;> simp [adjustCtx]

theorem qnStr_adjustCtx : ∀ (e : Expr) (ov : Option Ctx), qnStr (adjustCtx ov e) = qnStr e
  | .name .., _ => by simp [adjustCtx, qnStr]
  | .attr i v a c, _ => by simp [adjustCtx, qnStr, qnStr_adjustCtx v]
  | .subscript i v s c, _ => by
      simp [adjustCtx, qnStr, sliceKind_adjustCtx, qnStr_adjustCtx v, qnStr_adjustCtx s]
  | .seq i k es c, _ => by cases k <;> simp [adjustCtx, qnStr]
  | .const .., _ => by simp [adjustCtx, qnStr]
  | .call .., _ => by simp [adjustCtx, qnStr]
  | .keyword .., _ => by simp [adjustCtx, qnStr]
  | .boolop .., _ => by simp [adjustCtx, qnStr]
  | .unary .., _ => by simp [adjustCtx, qnStr]
  | .binop .., _ => by simp [adjustCtx, qnStr]
  | .compare .., _ => by simp [adjustCtx, qnStr]
  | .ifexp .., _ => by simp [adjustCtx, qnStr]
  | .lambda .., _ => by simp [adjustCtx, qnStr]
  | .starred .., _ => by simp [adjustCtx, qnStr]
  | .namedexpr .., _ => by simp [adjustCtx, qnStr]
  | .comp .., _ => by simp [adjustCtx, qnStr]
  | .comprehension .., _ => by simp [adjustCtx, qnStr]
  | .arguments .., _ => by simp [adjustCtx, qnStr]
  | .arg .., _ => by simp [adjustCtx, qnStr]
  | .withitem .., _ => by simp [adjustCtx, qnStr]
  | .noneMarker, _ => by simp [adjustCtx, qnStr]
  | .other .., _ => by simp [adjustCtx, qnStr]

theorem calleeQn_adjustCtx : ∀ (e : Expr) (ov : Option Ctx), calleeQn (adjustCtx ov e) = calleeQn e
  | .name .., _ => by simp [adjustCtx, calleeQn]
  | .attr i v a c, _ => by simp [adjustCtx, calleeQn, calleeQn_adjustCtx v]
  | .call i f as ks, _ => by
      match as, ks with
      | [x], [] => simp [adjustCtx, adjustCtxs, calleeQn, calleeQn_adjustCtx f, calleeQn_adjustCtx x]
      | [], _ => simp [adjustCtx, adjustCtxs, calleeQn]
      | _ :: _ :: _, _ => simp [adjustCtx, adjustCtxs, calleeQn]
      | [_], _ :: _ => simp [adjustCtx, adjustCtxs, calleeQn]
  | .subscript i v s c, ov => by
      simp [adjustCtx, calleeQn, sliceKind_adjustCtx, calleeQn_adjustCtx v, calleeQn_adjustCtx s]
  | .seq i k es c, _ => by cases k <;> simp [adjustCtx, calleeQn]
  | .const .., _ => by simp [adjustCtx, calleeQn]
  | .keyword .., _ => by simp [adjustCtx, calleeQn]
  | .boolop .., _ => by simp [adjustCtx, calleeQn]
  | .unary .., _ => by simp [adjustCtx, calleeQn]
  | .binop .., _ => by simp [adjustCtx, calleeQn]
  | .compare .., _ => by simp [adjustCtx, calleeQn]
  | .ifexp .., _ => by simp [adjustCtx, calleeQn]
  | .lambda .., _ => by simp [adjustCtx, calleeQn]
  | .starred .., _ => by simp [adjustCtx, calleeQn]
  | .namedexpr .., _ => by simp [adjustCtx, calleeQn]
  | .comp .., _ => by simp [adjustCtx, calleeQn]
  | .comprehension .., _ => by simp [adjustCtx, calleeQn]
  | .arguments .., _ => by simp [adjustCtx, calleeQn]
  | .arg .., _ => by simp [adjustCtx, calleeQn]
  | .withitem .., _ => by simp [adjustCtx, calleeQn]
  | .noneMarker, _ => by simp [adjustCtx, calleeQn]
  | .other .., _ => by simp [adjustCtx, calleeQn]

theorem ldName_adjustCtx : ∀ (e : Expr) (ov : Option Ctx), ldName (adjustCtx ov e) = ldName e
  | .name .., _ => by simp [adjustCtx, ldName]
  | .call i f as ks, _ => by
      match as, ks with
      | [x], [] => simp [adjustCtx, adjustCtxs, ldName, calleeQn_adjustCtx f, ldName_adjustCtx x]
      | [], _ => simp [adjustCtx, adjustCtxs, ldName]
      | _ :: _ :: _, _ => simp [adjustCtx, adjustCtxs, ldName]
      | [_], _ :: _ => simp [adjustCtx, adjustCtxs, ldName]
  | .seq i k es c, _ => by cases k <;> simp [adjustCtx, ldName]
  | .attr .., _ => by simp [adjustCtx, ldName]
  | .subscript .., _ => by simp [adjustCtx, ldName]
  | .const .., _ => by simp [adjustCtx, ldName]
  | .keyword .., _ => by simp [adjustCtx, ldName]
  | .boolop .., _ => by simp [adjustCtx, ldName]
  | .unary .., _ => by simp [adjustCtx, ldName]
  | .binop .., _ => by simp [adjustCtx, ldName]
  | .compare .., _ => by simp [adjustCtx, ldName]
  | .ifexp .., _ => by simp [adjustCtx, ldName]
  | .lambda .., _ => by simp [adjustCtx, ldName]
  | .starred .., _ => by simp [adjustCtx, ldName]
  | .namedexpr .., _ => by simp [adjustCtx, ldName]
  | .comp .., _ => by simp [adjustCtx, ldName]
  | .comprehension .., _ => by simp [adjustCtx, ldName]
  | .arguments .., _ => by simp [adjustCtx, ldName]
  | .arg .., _ => by simp [adjustCtx, ldName]
  | .withitem .., _ => by simp [adjustCtx, ldName]
  | .noneMarker, _ => by simp [adjustCtx, ldName]
  | .other .., _ => by simp [adjustCtx, ldName]

theorem isNameOf_adjustCtx (s : String) (ov : Option Ctx) (e : Expr) : isNameOf s (adjustCtx ov e) = isNameOf s e := by
  simp [isNameOf, ldName_adjustCtx e ov]

theorem length_adjustCtxs (ov : Option Ctx) : ∀ (es : List Expr), (adjustCtxs ov es).length = es.length
  | [] => by simp [adjustCtxs]
  | e :: es => by simp [adjustCtxs, length_adjustCtxs ov es]

theorem isEmpty_adjustCtxs (ov : Option Ctx) (es : List Expr) : (adjustCtxs ov es).isEmpty = es.isEmpty := by
  cases es <;> simp [adjustCtxs]

theorem packOk_adjustCtx (pos : Pos) (o1 o2 o3 : Option Ctx) (f : Expr) (as ks : List Expr) :
    packOk pos (adjustCtx o1 f) (adjustCtxs o2 as) (adjustCtxs o3 ks) = packOk pos f as ks := by
  cases pos <;> simp [packOk, isNameOf_adjustCtx, length_adjustCtxs, isEmpty_adjustCtxs]

mutual
theorem offE_adjustCtx (cfg : Cfg) (sc : List String) (w : Bool) :
    ∀ (e : Expr) (ov : Option Ctx) (pos : Pos), offE cfg sc w pos (adjustCtx ov e) = offE cfg sc w pos e
  | .name .., _, _ => by simp [adjustCtx, offE]
  | .const .., _, _ => by simp [adjustCtx, offE]
  | .noneMarker, _, _ => by simp [adjustCtx, offE]
  | .call i f as ks, ov, pos => by
      simp [adjustCtx, offE, callOk, packOk_adjustCtx, calleeQn_adjustCtx, qnStr_adjustCtx,
        offE_adjustCtx cfg sc w f, offEs_adjustCtx cfg sc w as, offEs_adjustCtx cfg sc w ks]
  | .boolop i b vs, ov, pos => by simp [adjustCtx, offE, offEs_adjustCtx cfg sc w vs]
  | .unary i op e, ov, pos => by simp [adjustCtx, offE, offE_adjustCtx cfg sc w e]
  | .ifexp i t b e, ov, pos => by
      simp [adjustCtx, offE, offE_adjustCtx cfg sc w t, offE_adjustCtx cfg sc w b, offE_adjustCtx cfg sc w e]
  | .compare i l ops rs, ov, pos => by simp [adjustCtx, offE, offE_adjustCtx cfg sc w l, offEs_adjustCtx cfg sc w rs]
  | .binop i op l r, ov, pos => by simp [adjustCtx, offE, offE_adjustCtx cfg sc w l, offE_adjustCtx cfg sc w r]
  | .attr i v a c, ov, pos => by simp [adjustCtx, offE, offE_adjustCtx cfg sc w v]
  | .subscript i v s c, ov, pos => by simp [adjustCtx, offE, offE_adjustCtx cfg sc w v, offE_adjustCtx cfg sc w s]
  | .keyword i a h v, ov, pos => by simp [adjustCtx, offE, offE_adjustCtx cfg sc w v]
  | .lambda i a b, ov, pos => by simp [adjustCtx, offE, offE_adjustCtx cfg sc w a, offE_adjustCtx cfg sc w b]
  | .seq i k es c, ov, pos => by cases k <;> simp [adjustCtx, offE, offEs_adjustCtx cfg sc w es]
  | .starred i v c, ov, pos => by simp [adjustCtx, offE, offE_adjustCtx cfg sc w v]
  | .namedexpr i t v, ov, pos => by simp [adjustCtx, offE, offE_adjustCtx cfg sc w t, offE_adjustCtx cfg sc w v]
  | .comp i k es gs, ov, pos => by simp [adjustCtx, offE, offEs_adjustCtx cfg sc w es, offEs_adjustCtx cfg sc w gs]
  | .comprehension i t it ifs a, ov, pos => by
      simp [adjustCtx, offE, offE_adjustCtx cfg sc w t, offE_adjustCtx cfg sc w it, offEs_adjustCtx cfg sc w ifs]
  | .arguments i a b c d e f g, ov, pos => by
      simp [adjustCtx, offE, offEs_adjustCtx cfg sc w a, offEs_adjustCtx cfg sc w b, offEs_adjustCtx cfg sc w c,
        offEs_adjustCtx cfg sc w d, offEs_adjustCtx cfg sc w e, offEs_adjustCtx cfg sc w f, offEs_adjustCtx cfg sc w g]
  | .arg i n an, ov, pos => by simp [adjustCtx, offE, offEs_adjustCtx cfg sc w an]
  | .withitem i c v, ov, pos => by simp [adjustCtx, offE, offE_adjustCtx cfg sc w c, offEs_adjustCtx cfg sc w v]
  | .other i k ats ks, ov, pos => by simp [adjustCtx, offE, offEs_adjustCtx cfg sc w ks]
theorem offEs_adjustCtx (cfg : Cfg) (sc : List String) (w : Bool) :
    ∀ (es : List Expr) (ov : Option Ctx) (ps : List Pos), offEs cfg sc w ps (adjustCtxs ov es) = offEs cfg sc w ps es
  | [], _, _ => by simp [adjustCtxs, offEs]
  | e :: es, ov, ps => by simp [adjustCtxs, offEs, offE_adjustCtx cfg sc w e, offEs_adjustCtx cfg sc w es]
end

theorem offE_tmplArg (cfg : Cfg) (sc : List String) (w : Bool) (pos : Pos) (e : Expr) :
    offE cfg sc w pos (tmplArg e) = offE cfg sc w pos e := by
  unfold tmplArg tmplArgCtx
  split
  · exact offE_adjustCtx cfg sc w e _ pos
  · rfl

/-! ### the argument packing of `converted_call` -/
theorem offEs_nil_append (cfg : Cfg) (sc : List String) (w : Bool) :
    ∀ (a b : List Expr), offEs cfg sc w [] (a ++ b) = offEs cfg sc w [] a ++ offEs cfg sc w [] b
  | [], b => by simp [offEs]
  | x :: a, b => by simp [offEs, offEs_nil_append cfg sc w a b, List.append_assoc]

theorem tupleCall_CF (cfg : Cfg) (sc : List String) (w : Bool) (v : Expr) (hv : CF (offE cfg sc w .normal v)) :
    CF (offE cfg sc w .packA (.call 0 (nm "tuple") [v] [])) := by
  have h1 : callOk cfg sc w .packA (nm "tuple") [v] [] = true := by simp [callOk, packOk, isNameOf, ldName, nm]
  have h2 : argPositions ((calleeQn (nm "tuple")).getD "") = [] := by decide
  have h3 : offE cfg sc w .normal (nm "tuple") = [] := by simp [nm, offE]
  simp only [offE, h1, h2, h3, if_true, offEs, headPos, List.nil_append, List.append_nil]
  exact hv

theorem consume_CF (cfg : Cfg) (sc : List String) (w : Bool) (acc spec : List Expr)
    (ha : CF (offEs cfg sc w [] acc)) (hs : ∀ x ∈ spec, CF (offE cfg sc w .packA x)) :
    ∀ x ∈ CallTrees.consume acc spec, CF (offE cfg sc w .packA x) := by
  unfold CallTrees.consume
  split
  · exact hs
  · intro x hx
    rcases List.mem_append.mp hx with h | h
    · exact hs x h
    · simp at h; subst h; simpa [offE] using ha

theorem argSpec_CF (cfg : Cfg) (sc : List String) (w : Bool) :
    ∀ (args acc spec : List Expr), CF (offEs cfg sc w [] acc) → (∀ x ∈ spec, CF (offE cfg sc w .packA x)) →
      CF (offEs cfg sc w [] args) → ∀ x ∈ CallTrees.argSpec acc spec args, CF (offE cfg sc w .packA x)
  | [], acc, spec, ha, hs, _ => by
      simp only [CallTrees.argSpec]; exact consume_CF cfg sc w acc spec ha hs
  | a :: rest, acc, spec, ha, hs, hargs => by
      simp only [offEs, headPos, List.tail_nil, CF_append] at hargs
      cases a
      case starred i v c =>
        simp only [CallTrees.argSpec]
        refine argSpec_CF cfg sc w rest [] _ (by simp [offEs, CF_nil]) ?_ hargs.2
        intro x hx
        rcases List.mem_append.mp hx with h | h
        · exact consume_CF cfg sc w acc spec ha hs x h
        · simp at h; subst h
          exact tupleCall_CF cfg sc w v (by simpa [offE] using hargs.1)
      all_goals
        simp only [CallTrees.argSpec]
        refine argSpec_CF cfg sc w rest _ spec ?_ hs hargs.2
        rw [offEs_nil_append, CF_append]
        exact ⟨ha, by simpa [offEs, headPos] using hargs.1⟩

theorem addAll_CF (cfg : Cfg) (sc : List String) (w : Bool) :
    ∀ (xs : List Expr) (r : Expr), CF (offE cfg sc w .packA r) → (∀ x ∈ xs, CF (offE cfg sc w .packA x)) →
      CF (offE cfg sc w .packA (CallTrees.addAll r xs))
  | [], r, hr, _ => by simpa [CallTrees.addAll] using hr
  | x :: xs, r, hr, hx => by
      simp only [CallTrees.addAll]
      refine addAll_CF cfg sc w xs _ ?_ (fun y hy => hx y (List.mem_cons_of_mem _ hy))
      have hk : kidPos .packA "Add" = .packA := by decide
      simp only [offE, hk, CF_append]
      exact ⟨hr, hx x (List.mem_cons_self ..)⟩

theorem argsToTuple_CF (cfg : Cfg) (sc : List String) (w : Bool) (args : List Expr)
    (h : CF (offEs cfg sc w [] args)) : CF (offE cfg sc w .packA (CallTrees.argsToTuple args)) := by
  unfold CallTrees.argsToTuple
  have hs := argSpec_CF cfg sc w args [] [] (by simp [offEs, CF_nil]) (by intro x hx; cases hx) h
  split
  · simp [offE, offEs, CF_nil]
  · rename_i x xs heq
    rw [heq] at hs
    exact addAll_CF cfg sc w xs x (hs x (List.mem_cons_self ..)) (fun y hy => hs y (List.mem_cons_of_mem _ hy))

theorem kwargsToDict_CF (cfg : Cfg) (sc : List String) (w : Bool) (kws : List Expr)
    (h : CF (offEs cfg sc w [] kws)) : CF (offE cfg sc w .packK (CallTrees.kwargsToDict kws)) := by
  unfold CallTrees.kwargsToDict
  split
  · simp [noneConst, offE, CF_nil]
  · have h1 : callOk cfg sc w .packK (nm "dict") [] kws = true := by simp [callOk, packOk, isNameOf, ldName, nm]
    have h2 : argPositions ((calleeQn (nm "dict")).getD "") = [] := by decide
    have h3 : offE cfg sc w .normal (nm "dict") = [] := by simp [nm, offE]
    simp only [offE, h1, h3, if_true, offEs, List.nil_append]
    exact h

theorem convertedCall_CF (cfg : Cfg) (sc : List String) (w : Bool) (pos : Pos) (ctx : String) (f : Expr) (as ks : List Expr)
    (hf : CF (offE cfg sc w .normal f)) (ha : CF (offEs cfg sc w [] as)) (hk : CF (offEs cfg sc w [] ks)) :
    CF (offE cfg sc w pos (CallTrees.convertedCall ctx f as ks)) := by
  unfold CallTrees.convertedCall
  have hq : calleeQn (ag "converted_call") = some "ag__.converted_call" := by decide
  have hq' : qnStr (ag "converted_call") = some "ag__.converted_call" := by decide
  have hok : callOk cfg sc w pos (ag "converted_call")
      [tmplArg f, tmplArg (CallTrees.argsToTuple as), tmplArg (CallTrees.kwargsToDict ks), nm ctx] [] = true := by
    have : startsWith "ag__.converted_call" "ag__." = true := by decide
    simp [callOk, hq, allowedCallee, this]
  have hp : argPositions ((calleeQn (ag "converted_call")).getD "") = [.normal, .packA, .packK] := by
    rw [hq]; decide
  have h3 : offE cfg sc w .normal (ag "converted_call") = [] := by simp [ag, nm, offE]
  have h4 : offE cfg sc w .normal (nm ctx) = [] := by simp [nm, offE]
  simp only [offE, hok, hp, h3, if_true, List.nil_append]
  simp only [offEs, headPos, List.tail, offE_tmplArg, h4, List.append_nil, CF_append]
  exact ⟨hf, argsToTuple_CF cfg sc w as ha, kwargsToDict_CF cfg sc w ks hk⟩

/-! ### the call_trees visitor -/
section main
variable (env : CallTrees.Env) (cfg : Cfg) (hb : cfg.builtinsOn = env.builtinsOn)

/-- every function context name the annotations mention is a scope name known to the checker -/
def ScOk (sc : List String) : Prop := ∀ i c, env.ctxOf i = some c → c ∈ sc

include hb in
theorem keep_allowed (sc : List String) (ctx full : String) (hctx : ctx ∈ sc)
    (h : CallTrees.keep env ctx (some full) = true) : allowedCallee cfg sc full = true := by
  simp only [CallTrees.keep, CallTrees.debuggers, Bool.or_eq_true, Bool.and_eq_true] at h
  simp only [allowedCallee, NoNative.debuggers, Bool.or_eq_true, Bool.and_eq_true, List.any_eq_true]
  rcases h with ((h1 | h2) | h3) | h4
  · exact Or.inl (Or.inl (Or.inl h1))
  · exact Or.inl (Or.inl (Or.inr ⟨ctx, hctx, h2⟩))
  · exact Or.inl (Or.inr h3)
  · exact Or.inr (by rw [hb]; exact h4)

theorem ctx_of (sc : List String) (hsc : ScOk env sc) (ctx : String) (hctx : ctx ∈ sc) (i : Nat) :
    (env.ctxOf i).getD ctx ∈ sc := by
  cases h : env.ctxOf i with
  | none => simpa using hctx
  | some c => simpa using hsc i c h

include hb in
mutual
theorem visitE_CF : ∀ (e : Expr) (sc : List String) (ctx : String) (w : Bool) (pos : Pos), ScOk env sc → ctx ∈ sc →
    CF (offE cfg sc w pos (CallTrees.visitE env ctx e))
  | .name .., _, _, _, _, _, _ => by simp [CallTrees.visitE, offE, CF_nil]
  | .const .., _, _, _, _, _, _ => by simp [CallTrees.visitE, offE, CF_nil]
  | .noneMarker, _, _, _, _, _, _ => by simp [CallTrees.visitE, offE, CF_nil]
  | .call i f as ks, sc, ctx, w, pos, hsc, hctx => by
      simp only [CallTrees.visitE]
      have hf := visitE_CF f sc ctx w .normal hsc hctx
      split
      · rename_i hkeep
        cases hq : qnStr f with
        | none => simp [hq, CallTrees.keep] at hkeep
        | some full =>
            rw [hq] at hkeep
            have hid := visitE_of_qn env ctx f full hq
            rw [hid] at hf ⊢
            have hok : callOk cfg sc w pos f (CallTrees.visitEs env ctx as) (CallTrees.visitEs env ctx ks) = true := by
              simp [callOk, calleeQn_of_qn f full hq, keep_allowed env cfg hb sc ctx full hctx hkeep]
            simp only [offE, hok, if_true, List.nil_append, CF_append]
            exact ⟨⟨hf, visitEs_CF as sc ctx w _ hsc hctx⟩, visitEs_CF ks sc ctx w _ hsc hctx⟩
      · exact convertedCall_CF cfg sc w pos ctx _ _ _ hf (visitEs_CF as sc ctx w _ hsc hctx) (visitEs_CF ks sc ctx w _ hsc hctx)
  | .lambda i a b, sc, ctx, w, pos, hsc, hctx => by
      simp only [CallTrees.visitE, offE, CF_append]
      have hc := ctx_of env sc hsc ctx hctx i
      exact ⟨visitE_CF a sc _ w _ hsc hc, visitE_CF b sc _ w _ hsc hc⟩
  | .boolop i b vs, sc, ctx, w, pos, hsc, hctx => by
      simp only [CallTrees.visitE, offE]; rw [CF_cons_other (by decide)]; exact visitEs_CF vs sc ctx w _ hsc hctx
  | .unary i op e, sc, ctx, w, pos, hsc, hctx => by
      simp only [CallTrees.visitE, offE, CF_append]
      refine ⟨?_, visitE_CF e sc ctx w _ hsc hctx⟩
      split
      · simp [CF]
      · exact CF_nil
  | .ifexp i t b e, sc, ctx, w, pos, hsc, hctx => by
      simp only [CallTrees.visitE, offE]; rw [CF_cons_other (by decide)]; simp only [CF_append]
      exact ⟨⟨visitE_CF t sc ctx w _ hsc hctx, visitE_CF b sc ctx w _ hsc hctx⟩, visitE_CF e sc ctx w _ hsc hctx⟩
  | .compare i l ops rs, sc, ctx, w, pos, hsc, hctx => by
      simp only [CallTrees.visitE, offE, CF_append]
      refine ⟨⟨?_, visitE_CF l sc ctx w _ hsc hctx⟩, visitEs_CF rs sc ctx w _ hsc hctx⟩
      split
      · exact CF_nil
      · simp [CF]
  | .binop i op l r, sc, ctx, w, pos, hsc, hctx => by
      simp only [CallTrees.visitE, offE, CF_append]
      exact ⟨visitE_CF l sc ctx w _ hsc hctx, visitE_CF r sc ctx w _ hsc hctx⟩
  | .attr i v a c, sc, ctx, w, pos, hsc, hctx => by
      simp only [CallTrees.visitE, offE]; exact visitE_CF v sc ctx w _ hsc hctx
  | .subscript i v s c, sc, ctx, w, pos, hsc, hctx => by
      simp only [CallTrees.visitE, offE, CF_append]
      exact ⟨visitE_CF v sc ctx w _ hsc hctx, visitE_CF s sc ctx w _ hsc hctx⟩
  | .keyword i a h v, sc, ctx, w, pos, hsc, hctx => by
      simp only [CallTrees.visitE, offE]; exact visitE_CF v sc ctx w _ hsc hctx
  | .seq i k es c, sc, ctx, w, pos, hsc, hctx => by
      simp only [CallTrees.visitE, offE]; exact visitEs_CF es sc ctx w _ hsc hctx
  | .starred i v c, sc, ctx, w, pos, hsc, hctx => by
      simp only [CallTrees.visitE, offE]; exact visitE_CF v sc ctx w _ hsc hctx
  | .namedexpr i t v, sc, ctx, w, pos, hsc, hctx => by
      simp only [CallTrees.visitE, offE, CF_append]
      exact ⟨visitE_CF t sc ctx w _ hsc hctx, visitE_CF v sc ctx w _ hsc hctx⟩
  | .comp i k es gs, sc, ctx, w, pos, hsc, hctx => by
      simp only [CallTrees.visitE, offE, CF_append]
      exact ⟨visitEs_CF es sc ctx w _ hsc hctx, visitEs_CF gs sc ctx w _ hsc hctx⟩
  | .comprehension i t it ifs a, sc, ctx, w, pos, hsc, hctx => by
      simp only [CallTrees.visitE, offE, CF_append]
      exact ⟨⟨visitE_CF t sc ctx w _ hsc hctx, visitE_CF it sc ctx w _ hsc hctx⟩, visitEs_CF ifs sc ctx w _ hsc hctx⟩
  | .arguments i a b c d e f g, sc, ctx, w, pos, hsc, hctx => by
      simp only [CallTrees.visitE, offE, CF_append]
      exact ⟨⟨⟨⟨⟨⟨visitEs_CF a sc ctx w _ hsc hctx, visitEs_CF b sc ctx w _ hsc hctx⟩, visitEs_CF c sc ctx w _ hsc hctx⟩,
        visitEs_CF d sc ctx w _ hsc hctx⟩, visitEs_CF e sc ctx w _ hsc hctx⟩, visitEs_CF f sc ctx w _ hsc hctx⟩,
        visitEs_CF g sc ctx w _ hsc hctx⟩
  | .arg i n an, sc, ctx, w, pos, hsc, hctx => by
      simp only [CallTrees.visitE, offE]; exact visitEs_CF an sc ctx w _ hsc hctx
  | .withitem i c v, sc, ctx, w, pos, hsc, hctx => by
      simp only [CallTrees.visitE, offE, CF_append]
      exact ⟨visitE_CF c sc ctx w _ hsc hctx, visitEs_CF v sc ctx w _ hsc hctx⟩
  | .other i k ats ks, sc, ctx, w, pos, hsc, hctx => by
      simp only [CallTrees.visitE, offE]; exact visitEs_CF ks sc ctx w _ hsc hctx
theorem visitEs_CF : ∀ (es : List Expr) (sc : List String) (ctx : String) (w : Bool) (ps : List Pos), ScOk env sc → ctx ∈ sc →
    CF (offEs cfg sc w ps (CallTrees.visitEs env ctx es))
  | [], _, _, _, _, _, _ => by simp [CallTrees.visitEs, offEs, CF_nil]
  | e :: es, sc, ctx, w, ps, hsc, hctx => by
      simp only [CallTrees.visitEs, offEs, CF_append]
      exact ⟨visitE_CF e sc ctx w _ hsc hctx, visitEs_CF es sc ctx w _ hsc hctx⟩
end

theorem plainArgs_CF (cfg : Cfg) (sc : List String) (w : Bool) :
    ∀ (es : List Expr), es.all CallTrees.isPlainArg = true → offEs cfg sc w [] es = []
  | [], _ => by simp [offEs]
  | e :: es, h => by
      simp only [List.all_cons, Bool.and_eq_true] at h
      cases e <;> simp [CallTrees.isPlainArg] at h
      rename_i i n an
      obtain ⟨h1, h2⟩ := h
      subst h1
      simp [offEs, offE, headPos, plainArgs_CF cfg sc w es (List.all_eq_true.mpr h2)]

include hb in
theorem visitDefaults_CF (as : Expr) (sc : List String) (ctx : String) (hsc : ScOk env sc) (hctx : ctx ∈ sc)
    (hp : CallTrees.plainArgs as = true) :
    CF (offE cfg sc false .normal (CallTrees.visitDefaults env ctx as)) := by
  cases as <;> simp [CallTrees.plainArgs] at hp
  rename_i i po ar va ko kd kw df
  have e1 := plainArgs_CF cfg sc false po (List.all_eq_true.mpr hp.1)
  have e2 := plainArgs_CF cfg sc false ar (List.all_eq_true.mpr hp.2.1)
  have e3 := plainArgs_CF cfg sc false va (List.all_eq_true.mpr hp.2.2.1)
  have e4 := plainArgs_CF cfg sc false ko (List.all_eq_true.mpr hp.2.2.2.1)
  have e5 := plainArgs_CF cfg sc false kw (List.all_eq_true.mpr hp.2.2.2.2)
  simp only [CallTrees.visitDefaults, offE, e1, e2, e3, e4, e5, List.nil_append, List.append_nil, CF_append]
  exact ⟨visitEs_CF env cfg hb kd sc ctx false _ hsc hctx, visitEs_CF env cfg hb df sc ctx false _ hsc hctx⟩

theorem ScOk_append (sc : List String) (extra : List String) (h : ScOk env sc) : ScOk env (extra ++ sc) :=
  fun i c hc => List.mem_append_right _ (h i c hc)

include hb in
mutual
theorem visitS_CF : ∀ (s : Stmt) (sc : List String) (ctx : String) (roles : List String) (tail : Bool),
    ScOk env sc → ctx ∈ sc → CallTrees.plainParams s = true →
    CF (offS cfg sc roles tail (CallTrees.visitS env ctx s))
  | .functionDef i n as b ds rs isA, sc, ctx, roles, tail, hsc, hctx, hp => by
      simp only [CallTrees.plainParams, Bool.and_eq_true, Bool.or_eq_true] at hp
      simp only [CallTrees.visitS]
      split
      · simp only [offS, CF_append]
        exact ⟨⟨⟨visitE_CF env cfg hb as sc ctx false _ hsc hctx, visitEs_CF env cfg hb ds sc ctx false _ hsc hctx⟩,
          visitEs_CF env cfg hb rs sc ctx false _ hsc hctx⟩, visitB_CF b sc ctx _ _ hsc hctx hp.2⟩
      · rename_i hA
        have hpa : CallTrees.plainArgs as = true := by
          rcases hp.1 with h | h
          · exact absurd h hA
          · exact h
        have hc := ctx_of env sc hsc ctx hctx i
        simp only [offS, CF_append]
        exact ⟨⟨⟨visitDefaults_CF env cfg hb as sc ctx hsc hctx hpa, visitEs_CF env cfg hb ds sc ctx false _ hsc hctx⟩,
          visitEs_CF env cfg hb rs sc _ false _ hsc hc⟩, visitB_CF b sc _ _ _ hsc hc hp.2⟩
  | .with_ i its b isA, sc, ctx, roles, tail, hsc, hctx, hp => by
      simp only [CallTrees.plainParams] at hp
      simp only [CallTrees.visitS]
      split
      · simp only [offS, CF_append]
        exact ⟨withItems_CF cfg sc _ _, visitB_CF b _ ctx _ _ (ScOk_append env sc _ hsc) (List.mem_append_right _ hctx) hp⟩
      · simp only [offS, CF_append]
        exact ⟨withItems_CF cfg sc _ _, visitB_CF b _ ctx _ _ (ScOk_append env sc _ hsc) (List.mem_append_right _ hctx) hp⟩
  | .classDef i n bs ks b ds, sc, ctx, roles, tail, hsc, hctx, hp => by
      simp only [CallTrees.plainParams] at hp
      simp only [CallTrees.visitS, offS, CF_append]
      exact ⟨⟨⟨visitEs_CF env cfg hb bs sc ctx false _ hsc hctx, visitEs_CF env cfg hb ks sc ctx false _ hsc hctx⟩,
        visitEs_CF env cfg hb ds sc ctx false _ hsc hctx⟩, visitB_CF b sc ctx _ _ hsc hctx hp⟩
  | .ret i v, sc, ctx, roles, tail, hsc, hctx, _ => by
      simp only [CallTrees.visitS, offS, CF_append]
      refine ⟨?_, visitEs_CF env cfg hb v sc ctx false _ hsc hctx⟩
      split
      · exact CF_nil
      · simp [CF]
  | .delete i ts, sc, ctx, roles, tail, hsc, hctx, _ => by
      simp only [CallTrees.visitS, offS]; exact visitEs_CF env cfg hb ts sc ctx false _ hsc hctx
  | .assign i ts v, sc, ctx, roles, tail, hsc, hctx, _ => by
      simp only [CallTrees.visitS, offS, CF_append]
      exact ⟨visitEs_CF env cfg hb ts sc ctx false _ hsc hctx, visitE_CF env cfg hb v sc ctx false _ hsc hctx⟩
  | .augAssign i t op v, sc, ctx, roles, tail, hsc, hctx, _ => by
      simp only [CallTrees.visitS, offS, CF_append]
      exact ⟨visitE_CF env cfg hb t sc ctx false _ hsc hctx, visitE_CF env cfg hb v sc ctx false _ hsc hctx⟩
  | .annAssign i t an v s, sc, ctx, roles, tail, hsc, hctx, _ => by
      simp only [CallTrees.visitS, offS, CF_append]
      exact ⟨⟨visitE_CF env cfg hb t sc ctx false _ hsc hctx, visitE_CF env cfg hb an sc ctx false _ hsc hctx⟩,
        visitEs_CF env cfg hb v sc ctx false _ hsc hctx⟩
  | .for_ i t it b e x isA, sc, ctx, roles, tail, hsc, hctx, hp => by
      simp only [CallTrees.plainParams, Bool.and_eq_true] at hp
      simp only [CallTrees.visitS, offS]; rw [CF_cons_other (by decide)]; simp only [CF_append]
      exact ⟨⟨⟨visitE_CF env cfg hb t sc ctx false _ hsc hctx, visitE_CF env cfg hb it sc ctx false _ hsc hctx⟩,
        visitB_CF b sc ctx _ _ hsc hctx hp.1⟩, visitB_CF e sc ctx _ _ hsc hctx hp.2⟩
  | .while_ i t b e, sc, ctx, roles, tail, hsc, hctx, hp => by
      simp only [CallTrees.plainParams, Bool.and_eq_true] at hp
      simp only [CallTrees.visitS, offS]; rw [CF_cons_other (by decide)]; simp only [CF_append]
      exact ⟨⟨visitE_CF env cfg hb t sc ctx false _ hsc hctx, visitB_CF b sc ctx _ _ hsc hctx hp.1⟩,
        visitB_CF e sc ctx _ _ hsc hctx hp.2⟩
  | .if_ i t b e, sc, ctx, roles, tail, hsc, hctx, hp => by
      simp only [CallTrees.plainParams, Bool.and_eq_true] at hp
      simp only [CallTrees.visitS, offS]; rw [CF_cons_other (by decide)]; simp only [CF_append]
      exact ⟨⟨visitE_CF env cfg hb t sc ctx false _ hsc hctx, visitB_CF b sc ctx _ _ hsc hctx hp.1⟩,
        visitB_CF e sc ctx _ _ hsc hctx hp.2⟩
  | .raise i e c, sc, ctx, roles, tail, hsc, hctx, _ => by
      simp only [CallTrees.visitS, offS, CF_append]
      exact ⟨visitEs_CF env cfg hb e sc ctx false _ hsc hctx, visitEs_CF env cfg hb c sc ctx false _ hsc hctx⟩
  | .try_ i b hs e f, sc, ctx, roles, tail, hsc, hctx, hp => by
      simp only [CallTrees.plainParams, Bool.and_eq_true] at hp
      simp only [CallTrees.visitS, offS, CF_append]
      exact ⟨⟨⟨visitB_CF b sc ctx _ _ hsc hctx hp.1.1.1, visitB_CF hs sc ctx _ _ hsc hctx hp.1.1.2⟩,
        visitB_CF e sc ctx _ _ hsc hctx hp.1.2⟩, visitB_CF f sc ctx _ _ hsc hctx hp.2⟩
  | .handler i t n b, sc, ctx, roles, tail, hsc, hctx, hp => by
      simp only [CallTrees.plainParams] at hp
      simp only [CallTrees.visitS, offS, CF_append]
      exact ⟨visitEs_CF env cfg hb t sc ctx false _ hsc hctx, visitB_CF b sc ctx _ _ hsc hctx hp⟩
  | .assert_ i t m, sc, ctx, roles, tail, hsc, hctx, _ => by
      simp only [CallTrees.visitS, offS, CF_append]
      exact ⟨visitE_CF env cfg hb t sc ctx false _ hsc hctx, visitEs_CF env cfg hb m sc ctx false _ hsc hctx⟩
  | .import_ .., _, _, _, _, _, _, _ => by simp [CallTrees.visitS, offS, CF_nil]
  | .importFrom .., _, _, _, _, _, _, _ => by simp [CallTrees.visitS, offS, CF_nil]
  | .global .., _, _, _, _, _, _, _ => by simp [CallTrees.visitS, offS, CF_nil]
  | .nonlocal .., _, _, _, _, _, _, _ => by simp [CallTrees.visitS, offS, CF_nil]
  | .expr i v, sc, ctx, roles, tail, hsc, hctx, _ => by
      simp only [CallTrees.visitS, offS]; exact visitE_CF env cfg hb v sc ctx false _ hsc hctx
  | .pass .., _, _, _, _, _, _, _ => by simp [CallTrees.visitS, offS, CF_nil]
  | .break_ .., _, _, _, _, _, _, _ => by simp [CallTrees.visitS, offS, CF]
  | .continue_ .., _, _, _, _, _, _, _ => by simp [CallTrees.visitS, offS, CF]
  | .other i k es bs, sc, ctx, roles, tail, hsc, hctx, hp => by
      simp only [CallTrees.plainParams] at hp
      simp only [CallTrees.visitS, offS, CF_append]
      exact ⟨visitEs_CF env cfg hb es sc ctx false _ hsc hctx, visitB_CF bs sc ctx _ _ hsc hctx hp⟩
theorem visitB_CF : ∀ (b : List Stmt) (sc : List String) (ctx : String) (roles : List String) (tail : Bool),
    ScOk env sc → ctx ∈ sc → CallTrees.plainParamsB b = true →
    CF (offB cfg sc roles tail (CallTrees.visitB env ctx b))
  | [], _, _, _, _, _, _, _ => by simp [CallTrees.visitB, offB, CF_nil]
  | s :: ss, sc, ctx, roles, tail, hsc, hctx, hp => by
      simp only [CallTrees.plainParamsB, Bool.and_eq_true] at hp
      simp only [CallTrees.visitB, offB, CF_append]
      exact ⟨visitS_CF s sc ctx roles _ hsc hctx hp.1, visitB_CF ss sc ctx roles tail hsc hctx hp.2⟩
end

end main

end Malt.C04
