import MaltModel.Proofs.FuncFBasic
/-!
The simulation behind the C02 theorems: source `Malt.Sem.exec` on the erased program vs the **functional
(tracing)** semantics `execF` on the functionalised program, for pure programs.

Both runs are given (partial-correctness form): whenever the tracing run does not end in an exception, it ends
exactly like the source run, with final states agreeing on the live-out variables.  (An exception of the tracing
run can come from an out-of-band execution — the other branch of a conditional, the extra trace of a loop body —
which the source run never performs; the class of C02, "total, definitely assigned", is what excludes it.)
-/
namespace Malt.Func
open Malt.Sem

def IsExc (o : Out) : Prop := ∃ e, o = .exc e

/-- Result of a tracing run compared with the source result. -/
def ResF (o : Out) (L : List Name) (σ₁ : St) (oF : Out) (σF : TSt) : Prop :=
  IsExc oF ∨ (oF = o ∧ AgreeOut o L σ₁ σF)

/-! ### Decomposition of functional block runs -/
theorem execFB_append (X : Ext) : ∀ (a : TBlock) (m : Nat) (μ : TSt) (b : TBlock) (r : Out × TSt),
    execFB X m (a ++ b) μ = some r →
    ∃ o₁ ν, execFB X m a μ = some (o₁, ν) ∧
      ((o₁ = .normal ∧ ∃ m₂, execFB X m₂ b ν = some r) ∨ (o₁ ≠ .normal ∧ r = (o₁, ν)))
  | [], m, μ, b, r, h => by
      cases m with
      | zero => simp [execFB] at h
      | succ k => exact ⟨.normal, μ, by simp [execFB], Or.inl ⟨rfl, k+1, by simpa using h⟩⟩
  | s :: a, m, μ, b, r, h => by
      cases m with
      | zero => simp [execFB] at h
      | succ k =>
        simp only [List.cons_append, execFB] at h ⊢
        cases hs : execF X k s μ with
        | none => rw [hs] at h; simp at h
        | some rs =>
          rw [hs] at h
          obtain ⟨o, μ₁⟩ := rs
          cases o with
          | normal =>
            simp only at h ⊢
            exact execFB_append X a k μ₁ b r h
          | _ =>
            simp only [Option.some.injEq] at h ⊢
            exact ⟨_, μ₁, rfl, Or.inr ⟨by simp, h.symm⟩⟩

theorem execFB_undefs_inv (X : Ext) : ∀ (us : List Name) (m : Nat) (μ : TSt) (b : TBlock) (r : Out × TSt),
    execFB X m (undefs us ++ b) μ = some r → ∃ m', execFB X m' b (undefAll us μ) = some r
  | [], m, μ, b, r, h => ⟨m, by simpa [undefs, undefAll] using h⟩
  | u :: us, m, μ, b, r, h => by
      cases m with
      | zero => simp [execFB] at h
      | succ k =>
        simp only [undefs, List.map, List.cons_append, execFB] at h
        cases k with
        | zero => simp [execF] at h
        | succ k' =>
          simp only [execF] at h
          have := execFB_undefs_inv X us (k'+1) (μ.setSlot u .undef) b r (by simpa [undefs] using h)
          simpa [undefAll] using this

theorem execFB_single_inv (X : Ext) {m : Nat} {s : TStmt} {μ : TSt} {r : Out × TSt}
    (h : execFB X m [s] μ = some r) : ∃ m', execF X m' s μ = some r := by
  cases m with
  | zero => simp [execFB] at h
  | succ k =>
    simp only [execFB] at h
    cases hs : execF X k s μ with
    | none => rw [hs] at h; simp at h
    | some rs =>
      rw [hs] at h
      obtain ⟨o, μ₁⟩ := rs
      refine ⟨k, ?_⟩
      cases o with
      | normal =>
        simp only at h
        cases k with
        | zero => simp [execF] at hs
        | succ k' => simp only [execFB, Option.some.injEq] at h; rw [← h]; exact hs
      | _ => simp only [Option.some.injEq] at h; rw [← h]; exact hs

theorem fnOut_cases (o : Out) : fnOut o = .normal ∨ IsExc (fnOut o) := by
  cases o <;> simp [fnOut, IsExc]

theorem withFrame_out {L : List Name} {σ : TSt} {A : Option (Out × TSt)} {o : Out} {ν : TSt}
    (h : withFrame L σ A = some (o, ν)) : o = .normal ∨ IsExc o := by
  obtain ⟨o', τ, _, heq⟩ := withFrame_some h
  simp only [Prod.mk.injEq] at heq
  rw [heq.1]; exact fnOut_cases o'

/-! ### Written names of a functionalised block are among the names the source block may assign -/
theorem asgTB_append : ∀ (a b : TBlock), asgTB (a ++ b) = asgTB a ++ asgTB b
  | [], b => rfl
  | s :: a, b => by simp [asgTB, asgTB_append a b]

theorem asgTB_undefs : ∀ (us : List Name), asgTB (undefs us) = us
  | [] => rfl
  | u :: us => by
      have := asgTB_undefs us
      simp only [undefs] at this
      simp [undefs, asgTB, asgTS, this]

mutual
theorem asgT_funcS : ∀ (s : AStmt), DeclS s → HypFS s → asgTB (funcS s) ⊆ asgS s
  | .assign i x e, _, _ => by simp [funcS, asgTB, asgTS, asgS]
  | .expr i e, _, _ => by simp [funcS, asgTB, asgTS]
  | .pass i, _, _ => by simp [funcS, asgTB, asgTS]
  | .ret i e, _, _ => by simp [funcS, asgTB, asgTS]
  | .raise i t, _, _ => by simp [funcS, asgTB, asgTS]
  | .ifS i c t e, hd, hh => by
      simp only [DeclS] at hd
      simp only [HypFS] at hh
      have ht := asgT_funcB t hd.2.2.1 hh.2.2.2.1
      have he := asgT_funcB e hd.2.2.2 hh.2.2.2.2
      simp only [funcS, asgTB_append, asgTB_undefs, asgTB, asgTS, asgS, List.append_nil]
      intro y hy
      rcases List.mem_append.mp hy with hy | hy
      · exact hd.2.1 hy
      · rcases List.mem_append.mp hy with hy | hy
        · exact hh.2.1 hy
        · rcases List.mem_append.mp hy with hy | hy
          · exact List.mem_append.mpr (Or.inl (ht hy))
          · exact List.mem_append.mpr (Or.inr (he hy))
  | .whileS i c b, hd, hh => by
      simp only [DeclS] at hd
      simp only [HypFS] at hh
      have hb := asgT_funcB b hd.2.2 hh.2
      simp only [funcS, asgTB_append, asgTB_undefs, asgTB, asgTS, asgS, List.append_nil]
      intro y hy
      rcases List.mem_append.mp hy with hy | hy
      · exact hd.2.1 hy
      · rcases List.mem_append.mp hy with hy | hy
        · exact hh.1 hy
        · exact hb hy
  | .forS i x it extra b, hd, hh => by
      simp only [DeclS] at hd
      simp only [HypFS] at hh
      have hb := asgT_funcB b hd.2.2 hh.2
      simp only [funcS, asgTB_append, asgTB_undefs, asgTB, asgTS, asgS, List.append_nil]
      intro y hy
      rcases List.mem_append.mp hy with hy | hy
      · exact hd.2.1 hy
      · rcases List.mem_append.mp hy with hy | hy
        · exact hh.1 hy
        · rcases List.mem_cons.mp hy with hy | hy
          · exact List.mem_cons.mpr (Or.inl hy)
          · exact List.mem_cons.mpr (Or.inr (hb hy))
  | .withS i tag b, hd, hh => by
      simp only [DeclS] at hd
      simp only [HypFS] at hh
      simp only [funcS, asgTB, asgTS, asgS, List.append_nil]
      exact asgT_funcB b hd hh
  | .tryS i b hs f, hd, hh => by
      simp only [DeclS] at hd
      simp only [HypFS] at hh
      have hb := asgT_funcB b hd.1 hh.1
      have hhs := asgT_funcH hs hd.2.1 hh.2.1
      have hf := asgT_funcB f hd.2.2 hh.2.2
      simp only [funcS, asgTB, asgTS, asgS, List.append_nil]
      intro y hy
      rcases List.mem_append.mp hy with hy | hy
      · exact List.mem_append.mpr (Or.inl (hb hy))
      · rcases List.mem_append.mp hy with hy | hy
        · exact List.mem_append.mpr (Or.inr (List.mem_append.mpr (Or.inl (hhs hy))))
        · exact List.mem_append.mpr (Or.inr (List.mem_append.mpr (Or.inr (hf hy))))
theorem asgT_funcH : ∀ (hs : List (Nat × List AStmt)), DeclH hs → HypFH hs → asgTH (funcH hs) ⊆ asgH hs
  | [], _, _ => by simp [funcH, asgTH]
  | (t, b) :: r, hd, hh => by
      simp only [DeclH] at hd
      simp only [HypFH] at hh
      have hb := asgT_funcB b hd.1 hh.1
      have hr := asgT_funcH r hd.2 hh.2
      simp only [funcH, asgTH, asgH]
      intro y hy
      rcases List.mem_append.mp hy with hy | hy
      · exact List.mem_append.mpr (Or.inl (hb hy))
      · exact List.mem_append.mpr (Or.inr (hr hy))
theorem asgT_funcB : ∀ (b : ABlock), DeclB b → HypFB b → asgTB (funcB b) ⊆ asgB b
  | [], _, _ => by simp [funcB, asgTB]
  | s :: r, hd, hh => by
      simp only [DeclB] at hd
      simp only [HypFB] at hh
      have hs := asgT_funcS s hd.1 hh.1
      have hr := asgT_funcB r hd.2 hh.2
      simp only [funcB, asgTB_append, asgB]
      intro y hy
      rcases List.mem_append.mp hy with hy | hy
      · exact List.mem_append.mpr (Or.inl (hs hy))
      · exact List.mem_append.mpr (Or.inr (hr hy))
end

theorem pureTB_append : ∀ (a b : TBlock), pureTB (a ++ b) = (pureTB a && pureTB b)
  | [], b => by simp [pureTB]
  | s :: a, b => by simp [pureTB, pureTB_append a b, Bool.and_assoc]

theorem pureTB_undefs : ∀ (us : List Name), pureTB (undefs us) = true
  | [] => rfl
  | u :: us => by
      have := pureTB_undefs us
      simp only [undefs] at this
      simp [undefs, pureTB, pureTS, this]

mutual
theorem pureT_funcS : ∀ (s : AStmt), pureS s = true → pureTB (funcS s) = true
  | .assign i x e, h => by simpa [funcS, pureTB, pureTS, pureS] using h
  | .expr i e, h => by simpa [funcS, pureTB, pureTS, pureS] using h
  | .pass i, _ => by simp [funcS, pureTB, pureTS]
  | .ret i e, h => by simpa [funcS, pureTB, pureTS, pureS] using h
  | .raise i t, _ => by simp [funcS, pureTB, pureTS]
  | .ifS i c t e, h => by
      simp only [pureS, Bool.and_eq_true] at h
      have ht := pureT_funcB t h.1.2
      have he := pureT_funcB e h.2
      simp only [funcS]
      rw [pureTB_append, pureTB_undefs]
      simp [pureTB, pureTS, h.1.1, ht, he]
  | .whileS i c b, h => by
      simp only [pureS, Bool.and_eq_true] at h
      have hb := pureT_funcB b h.2
      simp only [funcS]
      rw [pureTB_append, pureTB_undefs]
      simp [pureTB, pureTS, h.1, hb]
  | .forS i x it extra b, h => by
      simp only [pureS, Bool.and_eq_true] at h
      have hb := pureT_funcB b h.2
      simp only [funcS]
      rw [pureTB_append, pureTB_undefs]
      simp [pureTB, pureTS, h.1.1, h.1.2, hb]
  | .withS i tag b, h => by simp [pureS] at h
  | .tryS i b hs f, h => by simp [pureS] at h
theorem pureT_funcB : ∀ (b : ABlock), pureB b = true → pureTB (funcB b) = true
  | [], _ => by simp [funcB, pureTB]
  | s :: r, h => by
      simp only [pureB, Bool.and_eq_true] at h
      simp only [funcB]
      rw [pureTB_append, pureT_funcS s h.1, pureT_funcB r h.2]; rfl
end


/-! ### The simulation statements -/
structure OkS (K : ExcCtx) (D : List Name) (s : AStmt) : Prop where
  live : LiveS K s
  decl : DeclS s
  defd : DefS D s
  jump : retTopS s = true
  hypf : HypFS s
  pure : pureS s = true

structure OkB (K : ExcCtx) (D O : List Name) (b : ABlock) : Prop where
  live : LiveB K b O
  decl : DeclB b
  defd : DefB D b
  jump : retTopB b = true
  hypf : HypFB b
  pure : pureB b = true

def FS (X : Ext) (n : Nat) : Prop :=
  ∀ (s : AStmt) (K : ExcCtx) (D : List Name) (σ : St) (σ' : TSt) (o : Out) (σ₁ : St) (m : Nat) (oF : Out) (σF : TSt),
    OkS K D s → Agree s.info.liveIn σ σ' → BoundSub σ D → exec X n (eraseS s) σ = some (o, σ₁) →
    execFB X m (funcS s) σ' = some (oF, σF) → ResF o s.info.liveOut σ₁ oF σF

def FB (X : Ext) (n : Nat) : Prop :=
  ∀ (b : ABlock) (K : ExcCtx) (D O : List Name) (σ : St) (σ' : TSt) (o : Out) (σ₁ : St) (m : Nat) (oF : Out) (σF : TSt),
    OkB K D O b → Agree (blockIn b O) σ σ' → BoundSub σ D → execB X n (eraseB b) σ = some (o, σ₁) →
    execFB X m (funcB b) σ' = some (oF, σF) → ResF o O σ₁ oF σF

structure OkW (K : ExcCtx) (D : List Name) (i : Info) (c : Expr) (b : ABlock) : Prop where
  live : LiveS K (.whileS i c b)
  decl : DeclS (.whileS i c b)
  defb : DefB D b
  sub : asgB b ⊆ D
  nr : noRetB b = true
  hypf : HypFS (.whileS i c b)
  pure : pureS (.whileS i c b) = true

structure OkFor (K : ExcCtx) (D : List Name) (i : Info) (x : Name) (it : Expr) (extra : Option Expr) (b : ABlock) : Prop where
  live : LiveS K (.forS i x it extra b)
  decl : DeclS (.forS i x it extra b)
  defb : DefB D b
  sub : (x :: asgB b) ⊆ D
  nr : noRetB b = true
  hypf : HypFS (.forS i x it extra b)
  pure : pureS (.forS i x it extra b) = true

def FW (X : Ext) (n : Nat) : Prop :=
  ∀ (i : Info) (c : Expr) (b : ABlock) (K : ExcCtx) (D : List Name) (σ : St) (σ' : TSt) (carried : List Slot) (o : Out) (σ₁ : St)
    (m : Nat) (oF : Out) (σF : TSt),
    OkW K D i c b →
    Agree i.liveIn σ (setState i.declared carried σ') → BoundSub σ D →
    exec X n (.whileS c (eraseB b)) σ = some (o, σ₁) →
    execFWhile X m c (funcB b) i.declared carried σ' = some (oF, σF) → ResF o i.liveOut σ₁ oF σF

def FFor (X : Ext) (n : Nat) : Prop :=
  ∀ (i : Info) (x : Name) (it : Expr) (extra : Option Expr) (b : ABlock) (K : ExcCtx) (D : List Name) (items : List Val)
    (σ : St) (σ' : TSt) (carried : List Slot) (o : Out) (σ₁ : St) (m : Nat) (oF : Out) (σF : TSt),
    OkFor K D i x it extra b →
    Agree i.liveIn σ (setState i.declared carried σ') → BoundSub σ D →
    execFor X n x extra (eraseB b) items σ = some (o, σ₁) →
    execFFor X m x extra (funcB b) i.declared items carried σ' = some (oF, σF) → ResF o i.liveOut σ₁ oF σF

/-! ### Small facts -/
theorem not_mod {i : Info} {modified : List Name} {y : Name} (hd : modified.filter (liveEither i) ⊆ i.declared)
    (hl : y ∈ i.liveIn ∨ y ∈ i.liveOut) (hnd : y ∉ i.declared) : y ∉ modified := by
  intro hm
  apply hnd
  apply hd
  refine List.mem_filter.mpr ⟨hm, ?_⟩
  simp only [liveEither, Bool.or_eq_true]
  rcases hl with h | h
  · exact Or.inl (by simpa using h)
  · exact Or.inr (by simpa using h)

/-- Re-injecting a snapshot whose values are the current ones changes nothing visible. -/
theorem Agree.reinject {L : List Name} {σ : St} {ν ν₀ : TSt} (h : Agree L σ ν) {decl : List Name} {ss : List Slot}
    (hg : getState decl ν₀ = .ok ss) (hsame : ∀ y ∈ decl, ν₀.env y = ν.env y) : Agree L σ (setState decl ss ν) := by
  refine ⟨fun y hy => ?_, by rw [setState_log]; exact h.2⟩
  rw [setState_getState decl ν₀ ss ν y hg]
  by_cases hd : y ∈ decl
  · simp only [hd, if_true]; rw [hsame y hd]; exact h.1 y hy
  · simp only [hd, if_false]; exact h.1 y hy

theorem ResF.of_exc {o : Out} {L : List Name} {σ₁ : St} {oF : Out} {σF : TSt} (h : IsExc oF) : ResF o L σ₁ oF σF := Or.inl h

/-- Calling a generated body function under the functional semantics. -/
theorem body_callF (X : Ext) (n : Nat) (hB : FB X n) (t : ABlock) (K : ExcCtx) (O M D L : List Name)
    (σ : St) (μ : TSt) (o : Out) (σ₂ : St) (m : Nat) (oF : Out) (σF : TSt)
    (hok : OkB K D O t) (hnr : noRetB t = true)
    (hag : Agree M σ μ) (hM : blockIn t O ⊆ M) (hL1 : ∀ x ∈ L, x ∉ blockIn t O) (hL2 : ∀ x ∈ L, x ∉ O)
    (hb : BoundSub σ D) (h : execB X n (eraseB t) σ = some (o, σ₂))
    (hF : withFrame L μ (execFB X m (funcB t) (mask L μ)) = some (oF, σF)) : ResF o O σ₂ oF σF := by
  obtain ⟨o', τ, hrun, heq⟩ := withFrame_some hF
  simp only [Prod.mk.injEq] at heq
  obtain ⟨rfl, rfl⟩ := heq
  have hag' : Agree (blockIn t O) σ (mask L μ) := (hag.mono hM).mask L hL1
  have hnj := (src_facts_B X n t K D O σ o σ₂ hok.live hok.decl hok.defd hok.jump hb h).1 hnr
  rcases hB t K D O σ (mask L μ) o σ₂ m o' τ hok hag' hb h hrun with ⟨e, rfl⟩ | ⟨rfl, hout⟩
  · exact Or.inl ⟨e, rfl⟩
  · exact Or.inr ⟨hnj.fnOut, (frame_out (σ' := μ) hout hL2 hnj).2⟩

/-! ### Statements -/
theorem fS_step (X : Ext) (n : Nat) (hB : FB X n) (hW : FW X (n+1)) (hF : FFor X n) : FS X (n+1) := by
  intro s K D σ σ' o σ₁ m oF σF hok hag hb h hrun
  cases s with
  | assign i x e =>
    have hlive := hok.live
    simp only [LiveS] at hlive
    simp only [AStmt.info] at hag ⊢
    simp only [eraseS, exec] at h
    rcases he : evalE X e σ with ⟨r, τ⟩
    rw [he] at h
    obtain ⟨τ', hT, henv', henv, hlog⟩ := evalT_sim X e hag hlive.1 he
    obtain ⟨m', hm'⟩ := execFB_single_inv X (by simpa [funcS] using hrun)
    cases m' with
    | zero => simp [execF] at hm'
    | succ k =>
      simp only [execF, hT] at hm'
      cases r with
      | error ex => simp only [Option.some.injEq, Prod.mk.injEq] at hm'; exact Or.inl ⟨ex, hm'.1.symm⟩
      | ok v =>
        simp only [Option.some.injEq, Prod.mk.injEq] at h hm'
        obtain ⟨rfl, rfl⟩ := h
        obtain ⟨rfl, rfl⟩ := hm'
        have hag1 : Agree i.liveIn τ τ' := hag.of_env henv henv' hlog
        exact Or.inr ⟨rfl, hlog, fun _ => hag1.set x v (fun y hy hyx => hlive.2.1 (List.mem_filter.mpr ⟨hy, by simpa using hyx⟩))⟩
  | expr i e =>
    have hlive := hok.live
    simp only [LiveS] at hlive
    simp only [AStmt.info] at hag ⊢
    simp only [eraseS, exec] at h
    rcases he : evalE X e σ with ⟨r, τ⟩
    rw [he] at h
    obtain ⟨τ', hT, henv', henv, hlog⟩ := evalT_sim X e hag hlive.1 he
    obtain ⟨m', hm'⟩ := execFB_single_inv X (by simpa [funcS] using hrun)
    cases m' with
    | zero => simp [execF] at hm'
    | succ k =>
      simp only [execF, hT] at hm'
      cases r with
      | error ex => simp only [Option.some.injEq, Prod.mk.injEq] at hm'; exact Or.inl ⟨ex, hm'.1.symm⟩
      | ok v =>
        simp only [Option.some.injEq, Prod.mk.injEq] at h hm'
        obtain ⟨rfl, rfl⟩ := h
        obtain ⟨rfl, rfl⟩ := hm'
        exact Or.inr ⟨rfl, hlog, fun _ => (hag.of_env henv henv' hlog).mono hlive.2.1⟩
  | pass i =>
    have hlive := hok.live
    simp only [LiveS] at hlive
    simp only [AStmt.info] at hag ⊢
    simp only [eraseS, exec, Option.some.injEq, Prod.mk.injEq] at h; obtain ⟨rfl, rfl⟩ := h
    obtain ⟨m', hm'⟩ := execFB_single_inv X (by simpa [funcS] using hrun)
    cases m' with
    | zero => simp [execF] at hm'
    | succ k =>
      simp only [execF, Option.some.injEq, Prod.mk.injEq] at hm'
      obtain ⟨rfl, rfl⟩ := hm'
      exact Or.inr ⟨rfl, hag.2, fun _ => hag.mono hlive⟩
  | raise i t =>
    obtain ⟨m', hm'⟩ := execFB_single_inv X (by simpa [funcS] using hrun)
    cases m' with
    | zero => simp [execF] at hm'
    | succ k =>
      simp only [execF, Option.some.injEq, Prod.mk.injEq] at hm'
      exact Or.inl ⟨_, hm'.1.symm⟩
  | ret i e =>
    have hlive := hok.live
    simp only [LiveS] at hlive
    simp only [AStmt.info] at hag ⊢
    obtain ⟨m', hm'⟩ := execFB_single_inv X (by simpa [funcS] using hrun)
    cases m' with
    | zero => simp [execF] at hm'
    | succ k =>
      cases e with
      | none =>
        simp only [eraseS, exec, Option.some.injEq, Prod.mk.injEq] at h; obtain ⟨rfl, rfl⟩ := h
        simp only [execF, Option.some.injEq, Prod.mk.injEq] at hm'
        obtain ⟨rfl, rfl⟩ := hm'
        exact Or.inr ⟨rfl, hag.2, fun hh => by cases hh⟩
      | some e =>
        simp only [eraseS, exec] at h
        rcases he : evalE X e σ with ⟨r, τ⟩
        rw [he] at h
        obtain ⟨τ', hT, henv', henv, hlog⟩ := evalT_sim X e hag hlive.1 he
        simp only [execF, hT] at hm'
        cases r with
        | error ex => simp only [Option.some.injEq, Prod.mk.injEq] at hm'; exact Or.inl ⟨ex, hm'.1.symm⟩
        | ok v =>
          simp only [Option.some.injEq, Prod.mk.injEq] at h hm'
          obtain ⟨rfl, rfl⟩ := h
          obtain ⟨rfl, rfl⟩ := hm'
          exact Or.inr ⟨rfl, hlog, fun hh => by cases hh⟩
  | ifS i c t e =>
    have hlive := hok.live
    have hdecl := hok.decl
    have hdef := hok.defd
    have hjump := hok.jump
    have hhyp := hok.hypf
    have hpure := hok.pure
    simp only [LiveS] at hlive
    simp only [DeclS] at hdecl
    simp only [DefS] at hdef
    simp only [retTopS, Bool.and_eq_true] at hjump
    simp only [HypFS] at hhyp
    simp only [pureS, Bool.and_eq_true] at hpure
    simp only [AStmt.info] at hag ⊢
    obtain ⟨hvc, hint, hine, hlt, hle, _, _⟩ := hlive
    obtain ⟨hdd, hund, hdt, hde⟩ := hdecl
    obtain ⟨hDsub, hudisj, hdft, hdfe⟩ := hdef
    obtain ⟨hnd, hdsub, hnouts, hht, hhe⟩ := hhyp
    have okt : OkB K D i.liveOut t := ⟨hlt, hdt, hdft, noRet_retTopB t hjump.1, hht, hpure.1.2⟩
    have oke : OkB K D i.liveOut e := ⟨hle, hde, hdfe, noRet_retTopB e hjump.2, hhe, hpure.2⟩
    have hunb : ∀ u ∈ i.undefined, σ.env u = none := by
      intro u hu
      cases hq : σ.env u with
      | none => rfl
      | some w => exact absurd (hDsub (hb u (by rw [hq]; simp))) (hudisj u hu)
    have hag0 : Agree i.liveIn σ (undefAll i.undefined σ') := hag.undefAll i.undefined hunb
    simp only [eraseS, exec] at h
    rcases he : evalE X c σ with ⟨r, τ⟩
    rw [he] at h
    obtain ⟨μ1, hT, henv', henv, hlog⟩ := evalT_sim X c hag0 hvc he
    have hag1 : Agree i.liveIn τ μ1 := hag0.of_env henv henv' hlog
    have hb1 : BoundSub τ D := hb.of_env henv
    obtain ⟨m₀, hm₀⟩ := execFB_undefs_inv X i.undefined m σ' _ _ (by simpa [funcS] using hrun)
    obtain ⟨m', hm'⟩ := execFB_single_inv X hm₀
    cases m' with
    | zero => simp [execF] at hm'
    | succ k =>
      simp only [execF, hT] at hm'
      cases r with
      | error ex => simp only [Option.some.injEq, Prod.mk.injEq] at hm'; exact Or.inl ⟨ex, hm'.1.symm⟩
      | ok v =>
        simp only at h hm'
        cases hg0 : getState i.declared μ1 with
        | error y => rw [hg0] at hm'; simp only [Option.some.injEq, Prod.mk.injEq] at hm'; exact Or.inl ⟨_, hm'.1.symm⟩
        | ok s0 =>
          rw [hg0] at hm'; simp only at hm'
          -- frame facts of the two branch functions
          have hwt : asgTB (funcB t) ⊆ asgB t := asgT_funcB t hdt hht
          have hwe : asgTB (funcB e) ⊆ asgB e := asgT_funcB e hde hhe
          have hloct := locals_dead (i := i) (body := t) (List.subset_append_left _ _) hdd hdt
          have hloce := locals_dead (i := i) (body := e) (List.subset_append_right _ _) hdd hde
          cases hbr : withFrame (localsOf (funcB t) i.declared) μ1
              (execFB X k (funcB t) (mask (localsOf (funcB t) i.declared) μ1)) with
          | none => rw [hbr] at hm'; simp at hm'
          | some rb =>
            rw [hbr] at hm'
            obtain ⟨ob, σb⟩ := rb
            obtain ⟨hlb, hfb⟩ := withFrame_frame hbr (fun o' ν' hA =>
              (frameF X k).2.1 (funcB t) _ o' ν' (pureT_funcB t hpure.1.2) hA)
            rcases withFrame_out hbr with rfl | hexc
            · -- the body function returned normally
              simp only at hm'
              cases hg1 : getState i.declared σb with
              | error y => rw [hg1] at hm'; simp only [Option.some.injEq, Prod.mk.injEq] at hm'; exact Or.inl ⟨_, hm'.1.symm⟩
              | ok sb =>
                rw [hg1] at hm'; simp only at hm'
                -- the state after `set_state(s0)`
                have hσr : ∀ y, (setState i.declared s0 σb).env y = if y ∈ i.declared then μ1.env y else σb.env y :=
                  fun y => setState_getState i.declared μ1 s0 σb y hg0
                have hagr : Agree i.liveIn τ (setState i.declared s0 σb) := by
                  refine ⟨fun y hy => ?_, by rw [setState_log, hlb]; exact hag1.2⟩
                  rw [hσr y]
                  by_cases hyd : y ∈ i.declared
                  · simp only [hyd, if_true]; exact hag1.1 y hy
                  · simp only [hyd, if_false]
                    have hnm : y ∉ asgB t ++ asgB e := not_mod hdd (Or.inl hy) hyd
                    rw [hfb y (fun hh => hnm (List.mem_append.mpr (Or.inl (hwt hh))))]
                    exact hag1.1 y hy
                cases hor : withFrame (localsOf (funcB e) i.declared) (setState i.declared s0 σb)
                    (execFB X k (funcB e) (mask (localsOf (funcB e) i.declared) (setState i.declared s0 σb))) with
                | none => rw [hor] at hm'; simp at hm'
                | some ro =>
                  rw [hor] at hm'
                  obtain ⟨oo, σo⟩ := ro
                  obtain ⟨hlo, hfo⟩ := withFrame_frame hor (fun o' ν' hA =>
                    (frameF X k).2.1 (funcB e) _ o' ν' (pureT_funcB e hpure.2) hA)
                  rcases withFrame_out hor with rfl | hexc
                  · simp only at hm'
                    cases hg2 : getState i.declared σo with
                    | error y => rw [hg2] at hm'; simp only [Option.some.injEq, Prod.mk.injEq] at hm'; exact Or.inl ⟨_, hm'.1.symm⟩
                    | ok so =>
                      rw [hg2] at hm'
                      simp only [Option.some.injEq, Prod.mk.injEq] at hm'
                      obtain ⟨rfl, rfl⟩ := hm'
                      -- membership in the outputs
                      have hsplit : ∀ y, y ∈ i.declared → y ∉ i.declared.take i.nouts → y ∉ i.liveOut := by
                        intro y hyd hnt
                        have : y ∈ i.declared.take i.nouts ++ i.declared.drop i.nouts := by
                          rw [List.take_append_drop]; exact hyd
                        rcases List.mem_append.mp this with h1 | h1
                        · exact absurd h1 hnt
                        · exact hnouts y h1
                      by_cases hv : truthy v = true
                      · -- selected: body
                        rw [if_pos hv] at h
                        simp only [hv, if_true]
                        have hres := body_callF X n hB t K i.liveOut i.liveIn D (localsOf (funcB t) i.declared) τ μ1 o σ₁ k .normal σb
                          okt hjump.1 hag1 hint (fun x hx hin => (hloct x hx).1 (hint hin)) (fun x hx => (hloct x hx).2) hb1 h hbr
                        rcases hres with ⟨ex, hex⟩ | ⟨ho, hout⟩
                        · cases hex
                        · subst ho
                          have hagb := hout.2 rfl
                          refine Or.inr ⟨rfl, ?_, fun _ => ⟨fun y hy => ?_, ?_⟩⟩
                          · rw [setState_log, hlo, setState_log]; exact hout.1
                          · rw [setState_select i.declared i.nouts σb μ1 sb s0 σo y hnd hg1 hg0]
                            by_cases h1 : y ∈ i.declared.take i.nouts
                            · simp only [h1, if_true]; exact hagb.1 y hy
                            · by_cases h2 : y ∈ i.declared
                              · exact absurd hy (hsplit y h2 h1)
                              · simp only [h1, h2, if_false]
                                have hnm : y ∉ asgB t ++ asgB e := not_mod hdd (Or.inr hy) h2
                                rw [hfo y (fun hh => hnm (List.mem_append.mpr (Or.inr (hwe hh)))), hσr y]
                                simp only [h2, if_false]
                                exact hagb.1 y hy
                          · rw [setState_log, hlo, setState_log]; exact hout.1
                      · -- selected: orelse (the body ran out of band)
                        rw [if_neg hv] at h
                        simp only [hv, Bool.false_eq_true, if_false]
                        have hres := body_callF X n hB e K i.liveOut i.liveIn D (localsOf (funcB e) i.declared) τ
                          (setState i.declared s0 σb) o σ₁ k .normal σo
                          oke hjump.2 hagr hine (fun x hx hin => (hloce x hx).1 (hine hin)) (fun x hx => (hloce x hx).2) hb1 h hor
                        rcases hres with ⟨ex, hex⟩ | ⟨ho, hout⟩
                        · cases hex
                        · subst ho
                          have hago := hout.2 rfl
                          refine Or.inr ⟨rfl, ?_, fun _ => ⟨fun y hy => ?_, ?_⟩⟩
                          · rw [setState_log]; exact hout.1
                          · rw [setState_select i.declared i.nouts σo μ1 so s0 σo y hnd hg2 hg0]
                            by_cases h1 : y ∈ i.declared.take i.nouts
                            · simp only [h1, if_true]; exact hago.1 y hy
                            · by_cases h2 : y ∈ i.declared
                              · exact absurd hy (hsplit y h2 h1)
                              · simp only [h1, h2, if_false]; exact hago.1 y hy
                          · rw [setState_log]; exact hout.1
                  · -- the orelse function raised
                    obtain ⟨ex, rfl⟩ := hexc
                    simp only [Option.some.injEq, Prod.mk.injEq] at hm'
                    exact Or.inl ⟨ex, hm'.1.symm⟩
            · -- the body function raised
              obtain ⟨ex, rfl⟩ := hexc
              simp only [Option.some.injEq, Prod.mk.injEq] at hm'
              exact Or.inl ⟨ex, hm'.1.symm⟩
  | whileS i c b =>
    have hdecl := hok.decl
    have hdef := hok.defd
    have hjump := hok.jump
    have hhyp := hok.hypf
    have hpure := hok.pure
    simp only [DeclS] at hdecl
    simp only [DefS] at hdef
    simp only [retTopS] at hjump
    simp only [HypFS] at hhyp
    simp only [pureS, Bool.and_eq_true] at hpure
    simp only [AStmt.info] at hag ⊢
    obtain ⟨hdd, hund, hdb⟩ := hdecl
    obtain ⟨hDsub, hudisj, hdfb⟩ := hdef
    have hunb : ∀ u ∈ i.undefined, σ.env u = none := by
      intro u hu
      cases hq : σ.env u with
      | none => rfl
      | some w => exact absurd (hDsub (hb u (by rw [hq]; simp))) (hudisj u hu)
    have hag0 : Agree i.liveIn σ (undefAll i.undefined σ') := hag.undefAll i.undefined hunb
    simp only [eraseS] at h
    obtain ⟨m₀, hm₀⟩ := execFB_undefs_inv X i.undefined m σ' _ _ (by simpa [funcS] using hrun)
    obtain ⟨m', hm'⟩ := execFB_single_inv X hm₀
    cases m' with
    | zero => simp [execF] at hm'
    | succ k =>
      simp only [execF] at hm'
      cases hg0 : getState i.declared (undefAll i.undefined σ') with
      | error y => rw [hg0] at hm'; simp only [Option.some.injEq, Prod.mk.injEq] at hm'; exact Or.inl ⟨_, hm'.1.symm⟩
      | ok s0 =>
        rw [hg0] at hm'; simp only at hm'
        have hwb : asgTB (funcB b) ⊆ asgB b := asgT_funcB b hdb hhyp.2
        cases hbr : withFrame (localsOf (funcB b) i.declared) (undefAll i.undefined σ')
            (execFB X k (funcB b) (mask (localsOf (funcB b) i.declared) (undefAll i.undefined σ'))) with
        | none => rw [hbr] at hm'; simp at hm'
        | some rb =>
          rw [hbr] at hm'
          obtain ⟨ob, σt⟩ := rb
          obtain ⟨hlb, hfb⟩ := withFrame_frame hbr (fun o' ν' hA =>
            (frameF X k).2.1 (funcB b) _ o' ν' (pureT_funcB b hpure.2) hA)
          rcases withFrame_out hbr with rfl | hexc
          · simp only at hm'
            -- after the out-of-band trace and `set_state(s0)` everything live is as before
            have hagr : Agree i.liveIn σ (setState i.declared s0 σt) := by
              refine ⟨fun y hy => ?_, by rw [setState_log, hlb]; exact hag0.2⟩
              rw [setState_getState i.declared _ s0 σt y hg0]
              by_cases hyd : y ∈ i.declared
              · simp only [hyd, if_true]; exact hag0.1 y hy
              · simp only [hyd, if_false]
                have hnm : y ∉ asgB b := not_mod hdd (Or.inl hy) hyd
                rw [hfb y (fun hh => hnm (hwb hh))]
                exact hag0.1 y hy
            have hagr2 : Agree i.liveIn σ (setState i.declared s0 (setState i.declared s0 σt)) :=
              hagr.reinject hg0 (fun y hy => by rw [setState_getState i.declared _ s0 σt y hg0]; simp [hy])
            exact hW i c b K (D ++ asgB b) σ _ s0 o σ₁ k oF σF
              ⟨hok.live, hok.decl, hdfb, List.subset_append_right _ _, hjump, hok.hypf, hok.pure⟩
              hagr2 (hb.mono (List.subset_append_left _ _)) h hm'
          · obtain ⟨ex, rfl⟩ := hexc
            simp only [Option.some.injEq, Prod.mk.injEq] at hm'
            exact Or.inl ⟨ex, hm'.1.symm⟩
  | forS i x it extra b =>
    have hlive := hok.live
    have hdecl := hok.decl
    have hdef := hok.defd
    have hjump := hok.jump
    have hhyp := hok.hypf
    have hpure := hok.pure
    simp only [LiveS] at hlive
    simp only [DeclS] at hdecl
    simp only [DefS] at hdef
    simp only [retTopS] at hjump
    simp only [HypFS] at hhyp
    simp only [pureS, Bool.and_eq_true] at hpure
    simp only [AStmt.info] at hag ⊢
    obtain ⟨hvit, hvex, hOI, hbI, hlb, _, _⟩ := hlive
    obtain ⟨hdd, hund, hdb⟩ := hdecl
    obtain ⟨hDsub, hudisj, hdfb⟩ := hdef
    have okf : OkFor K (D ++ (x :: asgB b)) i x it extra b :=
      ⟨hok.live, hok.decl, hdfb, List.subset_append_right _ _, hjump, hok.hypf, hok.pure⟩
    have hunb : ∀ u ∈ i.undefined, σ.env u = none := by
      intro u hu
      cases hq : σ.env u with
      | none => rfl
      | some w => exact absurd (hDsub (hb u (by rw [hq]; simp))) (hudisj u hu)
    have hag0 : Agree i.liveIn σ (undefAll i.undefined σ') := hag.undefAll i.undefined hunb
    have hbD : BoundSub σ (D ++ (x :: asgB b)) := hb.mono (List.subset_append_left _ _)
    simp only [eraseS, exec] at h
    rcases he : evalE X it σ with ⟨r, τ⟩
    rw [he] at h
    obtain ⟨μ1, hT, henv', henv, hlog⟩ := evalT_sim X it hag0 hvit he
    have hag1 : Agree i.liveIn τ μ1 := hag0.of_env henv henv' hlog
    have hb1 : BoundSub τ (D ++ (x :: asgB b)) := hbD.of_env henv
    obtain ⟨m₀, hm₀⟩ := execFB_undefs_inv X i.undefined m σ' _ _ (by simpa [funcS] using hrun)
    obtain ⟨m', hm'⟩ := execFB_single_inv X hm₀
    cases m' with
    | zero => simp [execF] at hm'
    | succ k =>
      simp only [execF, hT] at hm'
      cases r with
      | error ex => simp only [Option.some.injEq, Prod.mk.injEq] at hm'; exact Or.inl ⟨ex, hm'.1.symm⟩
      | ok v =>
        simp only at h hm'
        cases hi : iterItems v with
        | error ex => rw [hi] at hm'; simp only [Option.some.injEq, Prod.mk.injEq] at hm'; exact Or.inl ⟨ex, hm'.1.symm⟩
        | ok items =>
          rw [hi] at h hm'; simp only at h hm'
          cases hg0 : getState i.declared μ1 with
          | error y => rw [hg0] at hm'; simp only [Option.some.injEq, Prod.mk.injEq] at hm'; exact Or.inl ⟨_, hm'.1.symm⟩
          | ok s0 =>
            rw [hg0] at hm'; simp only at hm'
            have hwb : asgTB (funcB b) ⊆ asgB b := asgT_funcB b hdb hhyp.2
            have hpb : pureTB (.assign x (.const (items.headD (.int 0))) :: funcB b) = true := by
              simp [pureTB, pureTS, noCallE, pureT_funcB b hpure.2]
            cases hbr : withFrame (localsFor x (funcB b) i.declared) μ1
                (execFB X k (.assign x (.const (items.headD (.int 0))) :: funcB b) (mask (localsFor x (funcB b) i.declared) μ1)) with
            | none => rw [hbr] at hm'; simp at hm'
            | some rb =>
              rw [hbr] at hm'
              obtain ⟨ob, σt⟩ := rb
              obtain ⟨hlb', hfb⟩ := withFrame_frame hbr (fun o' ν' hA => (frameF X k).2.1 _ _ o' ν' hpb hA)
              rcases withFrame_out hbr with rfl | hexc
              · simp only at hm'
                have hσr : ∀ y, (setState i.declared s0 σt).env y = if y ∈ i.declared then μ1.env y else σt.env y :=
                  fun y => setState_getState i.declared μ1 s0 σt y hg0
                have hagr : Agree i.liveIn τ (setState i.declared s0 σt) := by
                  refine ⟨fun y hy => ?_, by rw [setState_log, hlb']; exact hag1.2⟩
                  rw [hσr y]
                  by_cases hyd : y ∈ i.declared
                  · simp only [hyd, if_true]; exact hag1.1 y hy
                  · simp only [hyd, if_false]
                    have hnm : y ∉ x :: asgB b := not_mod hdd (Or.inl hy) hyd
                    rw [hfb y (fun hh => hnm (by
                      have : y ∈ x :: asgTB (funcB b) := by simpa [asgTB, asgTS] using hh
                      rcases List.mem_cons.mp this with h1 | h1
                      · exact List.mem_cons.mpr (Or.inl h1)
                      · exact List.mem_cons.mpr (Or.inr (hwb h1))))]
                    exact hag1.1 y hy
                have hsame : ∀ y ∈ i.declared, μ1.env y = (setState i.declared s0 σt).env y := fun y hy => by
                  rw [hσr y]; simp [hy]
                cases extra with
                | none =>
                  simp only at h hm'
                  exact hF i x it none b K _ items τ _ s0 o σ₁ k oF σF okf (hagr.reinject hg0 hsame) hb1 h hm'
                | some t =>
                  simp only at h hm'
                  rcases het : evalE X t τ with ⟨rt, τ₂⟩
                  rw [het] at h
                  obtain ⟨μ2, hT2, henv2', henv2, hlog2⟩ := evalT_sim X t hagr hvex het
                  rw [hT2] at hm'
                  have hag2 : Agree i.liveIn τ₂ μ2 := hagr.of_env henv2 henv2' hlog2
                  cases rt with
                  | error ex => simp only [Option.some.injEq, Prod.mk.injEq] at hm'; exact Or.inl ⟨ex, hm'.1.symm⟩
                  | ok tv =>
                    simp only at h hm'
                    by_cases htv : truthy tv = true
                    · rw [if_pos htv] at h hm'
                      exact hF i x it (some t) b K _ items τ₂ μ2 s0 o σ₁ k oF σF okf
                        (hag2.reinject hg0 (fun y hy => by rw [henv2']; exact hsame y hy)) (hb1.of_env henv2) h hm'
                    · rw [if_neg htv] at h hm'
                      simp only [Option.some.injEq, Prod.mk.injEq] at h hm'
                      obtain ⟨rfl, rfl⟩ := h
                      obtain ⟨rfl, rfl⟩ := hm'
                      exact Or.inr ⟨rfl, hlog2, fun _ => hag2.mono hOI⟩
              · obtain ⟨ex, rfl⟩ := hexc
                simp only [Option.some.injEq, Prod.mk.injEq] at hm'
                exact Or.inl ⟨ex, hm'.1.symm⟩

  | withS i tag b => exact absurd hok.pure (by simp [pureS])
  | tryS i b hs f => exact absurd hok.pure (by simp [pureS])

/-! ### Blocks -/
theorem fB_step (X : Ext) (n : Nat) (hS : FS X n) (hB : FB X n) : FB X (n+1) := by
  intro b K D O σ σ' o σ₁ m oF σF hok hag hb h hrun
  cases b with
  | nil =>
    simp only [eraseB, execB, Option.some.injEq, Prod.mk.injEq] at h; obtain ⟨rfl, rfl⟩ := h
    simp only [blockIn] at hag
    cases m with
    | zero => simp [execFB] at hrun
    | succ k =>
      simp only [funcB, execFB, Option.some.injEq, Prod.mk.injEq] at hrun
      obtain ⟨rfl, rfl⟩ := hrun
      exact Or.inr ⟨rfl, hag.2, fun _ => hag⟩
  | cons s rest =>
    have hlive := hok.live
    have hdecl := hok.decl
    have hdef := hok.defd
    have hjump := hok.jump
    have hhyp := hok.hypf
    have hpure := hok.pure
    simp only [LiveB] at hlive
    simp only [DeclB] at hdecl
    simp only [DefB] at hdef
    simp only [retTopB, Bool.and_eq_true] at hjump
    simp only [HypFB] at hhyp
    simp only [pureB, Bool.and_eq_true] at hpure
    simp only [blockIn] at hag
    have oks : OkS K D s := ⟨hlive.1, hdecl.1, hdef.1, hjump.1, hhyp.1, hpure.1⟩
    have okr : OkB K (D ++ asgS s) O rest := ⟨hlive.2.2, hdecl.2, hdef.2, hjump.2, hhyp.2, hpure.2⟩
    simp only [eraseB, execB] at h
    cases hs : exec X n (eraseS s) σ with
    | none => simp [hs] at h
    | some rs =>
      rw [hs] at h
      obtain ⟨o₁, σ₂⟩ := rs
      obtain ⟨o₁', ν, hrun₁, halt⟩ := execFB_append X (funcS s) m σ' (funcB rest) (oF, σF) (by simpa [funcB] using hrun)
      have hb2 := (src_facts_S X n s K D σ o₁ σ₂ hlive.1 hdecl.1 hdef.1 hjump.1 hb hs).2
      rcases hS s K D σ σ' o₁ σ₂ m o₁' ν oks hag hb hs hrun₁ with ⟨ex, rfl⟩ | ⟨rfl, hout⟩
      · rcases halt with ⟨hn, _⟩ | ⟨_, heq⟩
        · cases hn
        · simp only [Prod.mk.injEq] at heq; exact Or.inl ⟨ex, heq.1⟩
      · by_cases ho : o₁' = .normal
        · subst ho
          simp only at h
          rcases halt with ⟨_, m₂, hrun₂⟩ | ⟨hn, _⟩
          · exact hB rest K _ O σ₂ ν o σ₁ m₂ oF σF okr ((hout.2 rfl).mono hlive.2.1) hb2 h hrun₂
          · exact absurd rfl hn
        · have hres : o = o₁' ∧ σ₁ = σ₂ := by
            cases o₁' <;> simp_all
          obtain ⟨rfl, rfl⟩ := hres
          rcases halt with ⟨hn, _⟩ | ⟨_, heq⟩
          · exact absurd hn ho
          · simp only [Prod.mk.injEq] at heq
            obtain ⟨rfl, rfl⟩ := heq
            exact Or.inr ⟨rfl, hout.1, fun hh => absurd hh ho⟩

/-! ### The iterations of a functional `while` -/
theorem fW_step (X : Ext) (n : Nat) (hB : FB X n) (hW : FW X n) : FW X (n+1) := by
  intro i c b K D σ σ' carried o σ₁ m oF σF hok hag hb h hrun
  have hlive := hok.live
  have hdecl := hok.decl
  have hhyp := hok.hypf
  have hpure := hok.pure
  simp only [LiveS] at hlive
  simp only [DeclS] at hdecl
  simp only [HypFS] at hhyp
  simp only [pureS, Bool.and_eq_true] at hpure
  obtain ⟨hvc, hbI, hOI, hlb, _, _⟩ := hlive
  obtain ⟨hdd, hund, hdb⟩ := hdecl
  have okb : OkB K D i.liveIn b := ⟨hlb, hdb, hok.defb, noRet_retTopB b hok.nr, hhyp.2, hpure.2⟩
  simp only [exec] at h
  rcases he : evalE X c σ with ⟨r, τ⟩
  rw [he] at h
  obtain ⟨μ', hT, henv', henv, hlog⟩ := evalT_sim X c hag hvc he
  have hag1 : Agree i.liveIn τ μ' := hag.of_env henv henv' hlog
  have hb1 : BoundSub τ D := hb.of_env henv
  cases m with
  | zero => simp [execFWhile] at hrun
  | succ k =>
    simp only [execFWhile, hT] at hrun
    cases r with
    | error ex => simp only [Option.some.injEq, Prod.mk.injEq] at hrun; exact Or.inl ⟨ex, hrun.1.symm⟩
    | ok v =>
      simp only at h hrun
      by_cases hv : (!truthy v) = true
      · rw [if_pos hv] at h hrun
        simp only [Option.some.injEq, Prod.mk.injEq] at h hrun
        obtain ⟨rfl, rfl⟩ := h
        obtain ⟨rfl, rfl⟩ := hrun
        exact Or.inr ⟨rfl, hlog, fun _ => hag1.mono hOI⟩
      · rw [if_neg hv] at h hrun
        cases hbody : execB X n (eraseB b) τ with
        | none => simp [hbody] at h
        | some rb =>
          rw [hbody] at h
          obtain ⟨o₁, σ₂⟩ := rb
          have hloc := locals_dead (i := i) (body := b) (fun _ hx => hx) hdd hdb
          obtain ⟨hnj, hbd⟩ := src_facts_B X n b K D i.liveIn τ o₁ σ₂ hlb hdb hok.defb (noRet_retTopB b hok.nr) hb1 hbody
          have hb2 : BoundSub σ₂ D := hbd.mono (by
            intro y hy
            rcases List.mem_append.mp hy with hy | hy
            · exact hy
            · exact hok.sub hy)
          cases hbr : withFrame (localsOf (funcB b) i.declared) μ'
              (execFB X k (funcB b) (mask (localsOf (funcB b) i.declared) μ')) with
          | none => rw [hbr] at hrun; simp at hrun
          | some rf =>
            rw [hbr] at hrun
            obtain ⟨ob, σ''⟩ := rf
            have hres := body_callF X n hB b K i.liveIn i.liveIn D (localsOf (funcB b) i.declared) τ μ' o₁ σ₂ k ob σ''
              okb hok.nr hag1 hbI (fun x hx hin => (hloc x hx).1 (hbI hin)) (fun x hx => (hloc x hx).1) hb1 hbody hbr
            rcases hres with ⟨ex, rfl⟩ | ⟨rfl, hout⟩
            · simp only [Option.some.injEq, Prod.mk.injEq] at hrun; exact Or.inl ⟨ex, hrun.1.symm⟩
            · rcases hnj hok.nr with rfl | ⟨ex, rfl⟩
              · simp only at h hrun
                cases hg : getState i.declared σ'' with
                | error y => rw [hg] at hrun; simp only [Option.some.injEq, Prod.mk.injEq] at hrun; exact Or.inl ⟨_, hrun.1.symm⟩
                | ok carried' =>
                  rw [hg] at hrun; simp only at hrun
                  exact hW i c b K D σ₂ σ'' carried' o σ₁ k oF σF hok
                    ((hout.2 rfl).reinject hg (fun _ _ => rfl)) hb2 h hrun
              · simp only [Option.some.injEq, Prod.mk.injEq] at hrun; exact Or.inl ⟨ex, hrun.1.symm⟩

/-! ### The iterations of a functional `for` -/
theorem fFor_step (X : Ext) (n : Nat) (hB : FB X n) (hF : FFor X n) : FFor X (n+1) := by
  intro i x it extra b K D items σ σ' carried o σ₁ m oF σF hok hag hb h hrun
  have hlive := hok.live
  have hdecl := hok.decl
  have hhyp := hok.hypf
  have hpure := hok.pure
  simp only [LiveS] at hlive
  simp only [DeclS] at hdecl
  simp only [HypFS] at hhyp
  simp only [pureS, Bool.and_eq_true] at hpure
  obtain ⟨hvit, hvex, hOI, hbI, hlb, _, _⟩ := hlive
  obtain ⟨hdd, hund, hdb⟩ := hdecl
  have okb : OkB K D i.liveIn b := ⟨hlb, hdb, hok.defb, noRet_retTopB b hok.nr, hhyp.2, hpure.2⟩
  cases m with
  | zero => simp [execFFor] at hrun
  | succ k =>
    cases items with
    | nil =>
      simp only [execFor, Option.some.injEq, Prod.mk.injEq] at h; obtain ⟨rfl, rfl⟩ := h
      simp only [execFFor, Option.some.injEq, Prod.mk.injEq] at hrun; obtain ⟨rfl, rfl⟩ := hrun
      exact Or.inr ⟨rfl, hag.2, fun _ => hag.mono hOI⟩
    | cons v items =>
      simp only [execFor] at h
      simp only [execFFor] at hrun
      cases hbody : execB X n (eraseB b) (σ.set x v) with
      | none => simp [hbody] at h
      | some rb =>
        rw [hbody] at h
        obtain ⟨o₁, σ₂⟩ := rb
        have hloc := localsFor_dead (i := i) (x := x) (body := b) hdd hdb
        have hbs : BoundSub (σ.set x v) D := hb.set x v (fun _ h => h) (hok.sub (List.mem_cons_self ..))
        obtain ⟨hnj, hbd⟩ := src_facts_B X n b K D i.liveIn (σ.set x v) o₁ σ₂ hlb hdb hok.defb (noRet_retTopB b hok.nr) hbs hbody
        have hb2 : BoundSub σ₂ D := hbd.mono (by
          intro y hy
          rcases List.mem_append.mp hy with hy | hy
          · exact hy
          · exact hok.sub (List.mem_cons_of_mem _ hy))
        cases hbr : withFrame (localsFor x (funcB b) i.declared) (setState i.declared carried σ')
            (execFB X k (.assign x (.const v) :: funcB b) (mask (localsFor x (funcB b) i.declared) (setState i.declared carried σ'))) with
        | none => rw [hbr] at hrun; simp at hrun
        | some rf =>
          rw [hbr] at hrun
          obtain ⟨ob, σ''⟩ := rf
          -- the body call
          have hres : ResF o₁ i.liveIn σ₂ ob σ'' := by
            obtain ⟨o', τ', hrunb, heq⟩ := withFrame_some hbr
            simp only [Prod.mk.injEq] at heq
            obtain ⟨rfl, rfl⟩ := heq
            cases k with
            | zero => simp [execFB] at hrunb
            | succ k1 =>
              simp only [execFB] at hrunb
              cases k1 with
              | zero => simp [execF] at hrunb
              | succ k2 =>
                simp only [execF, evalT, evalE] at hrunb
                have hagm : Agree (blockIn b i.liveIn) (σ.set x v)
                    ((mask (localsFor x (funcB b) i.declared) (setState i.declared carried σ')).set x v) := by
                  have hm : Agree i.liveIn σ (mask (localsFor x (funcB b) i.declared) (setState i.declared carried σ')) :=
                    hag.mask _ (fun y hy => (hloc y hy).1)
                  exact hm.set x v (fun y hy hyx => hbI (List.mem_filter.mpr ⟨hy, by simpa using hyx⟩))
                rcases hB b K D i.liveIn (σ.set x v) _ o₁ σ₂ (k2+1) o' τ' okb hagm hbs hbody hrunb with ⟨e, rfl⟩ | ⟨rfl, hout⟩
                · exact Or.inl ⟨e, rfl⟩
                · exact Or.inr ⟨(hnj hok.nr).fnOut, (frame_out hout (fun y hy => (hloc y hy).1) (hnj hok.nr)).2⟩
          rcases hres with ⟨ex, rfl⟩ | ⟨rfl, hout⟩
          · simp only [Option.some.injEq, Prod.mk.injEq] at hrun; exact Or.inl ⟨ex, hrun.1.symm⟩
          · rcases hnj hok.nr with rfl | ⟨ex, rfl⟩
            · simp only [BEq.rfl, Bool.true_or, if_true] at h
              simp only at hrun
              have hag2 : Agree i.liveIn σ₂ σ'' := hout.2 rfl
              cases hg : getState i.declared σ'' with
              | error y => rw [hg] at hrun; simp only [Option.some.injEq, Prod.mk.injEq] at hrun; exact Or.inl ⟨_, hrun.1.symm⟩
              | ok carried' =>
                rw [hg] at hrun; simp only at hrun
                cases extra with
                | none =>
                  simp only at h hrun
                  exact hF i x it none b K D items σ₂ σ'' carried' o σ₁ k oF σF hok
                    (hag2.reinject hg (fun _ _ => rfl)) hb2 h hrun
                | some t =>
                  simp only at h hrun
                  rcases het : evalE X t σ₂ with ⟨rt, τ₂⟩
                  rw [het] at h
                  obtain ⟨μ2, hT2, henv2', henv2, hlog2⟩ := evalT_sim X t hag2 hvex het
                  rw [hT2] at hrun
                  have hag3 : Agree i.liveIn τ₂ μ2 := hag2.of_env henv2 henv2' hlog2
                  cases rt with
                  | error ex => simp only [Option.some.injEq, Prod.mk.injEq] at hrun; exact Or.inl ⟨ex, hrun.1.symm⟩
                  | ok tv =>
                    simp only at h hrun
                    by_cases htv : truthy tv = true
                    · rw [if_pos htv] at h hrun
                      exact hF i x it (some t) b K D items τ₂ μ2 carried' o σ₁ k oF σF hok
                        (hag3.reinject hg (fun y _ => by rw [henv2'])) (hb2.of_env henv2) h hrun
                    · rw [if_neg htv] at h hrun
                      simp only [Option.some.injEq, Prod.mk.injEq] at h hrun
                      obtain ⟨rfl, rfl⟩ := h
                      obtain ⟨rfl, rfl⟩ := hrun
                      exact Or.inr ⟨rfl, hlog2, fun _ => hag3.mono hOI⟩
            · simp only [Option.some.injEq, Prod.mk.injEq] at hrun; exact Or.inl ⟨ex, hrun.1.symm⟩

/-- All four functional simulation statements hold at every source fuel. -/
theorem f_all (X : Ext) : ∀ n, FS X n ∧ FB X n ∧ FW X n ∧ FFor X n := by
  intro n
  induction n with
  | zero =>
    refine ⟨?_, ?_, ?_, ?_⟩
    · intro s K D σ σ' o σ₁ m oF σF _ _ _ h; simp [exec] at h
    · intro b K D O σ σ' o σ₁ m oF σF _ _ _ h; simp [execB] at h
    · intro i c b K D σ σ' carried o σ₁ m oF σF _ _ _ h; simp [exec] at h
    · intro i x it extra b K D items σ σ' carried o σ₁ m oF σF _ _ _ h; simp [execFor] at h
  | succ n ih =>
    obtain ⟨hS, hB, hW, hF⟩ := ih
    have hW1 := fW_step X n hB hW
    have hF1 := fFor_step X n hB hF
    exact ⟨fS_step X n hB hW1 hF, fB_step X n hS hB, hW1, hF1⟩

end Malt.Func
