import MaltModel.Conv.NoNative
/- Soundness of the checker `offE`/`offS` w.r.t. the declarative property `OkE`/`OkS` (used by Props/C04.lean). -/
namespace Malt.C04
open Malt.Py Malt.Conv Malt.Conv.NoNative

mutual
theorem soundE (cfg : Cfg) (sc : List String) (w : Bool) :
    ∀ (e : Expr) (pos : Pos), offE cfg sc w pos e = [] → OkE cfg sc w pos e
  | .name .., _, _ => .name
  | .const .., _, _ => .const
  | .noneMarker, _, _ => .noneMarker
  | .call i f as ks, pos, h => by
      simp only [offE, List.append_eq_nil_iff] at h
      obtain ⟨⟨⟨h1, h2⟩, h3⟩, h4⟩ := h
      have hc : callOk cfg sc w pos f as ks = true := by
        by_cases hh : callOk cfg sc w pos f as ks = true
        · exact hh
        · simp [hh] at h1
      exact .call hc (soundE cfg sc w f _ h2) (soundEs cfg sc w as _ h3) (soundEs cfg sc w ks _ h4)
  | .boolop .., _, h => by simp [offE] at h
  | .ifexp .., _, h => by simp [offE] at h
  | .unary i op e, pos, h => by
      simp only [offE, List.append_eq_nil_iff] at h
      obtain ⟨h1, h2⟩ := h
      have hn : op ≠ "Not" := by
        intro hh; simp [hh] at h1
      exact .unary hn (soundE cfg sc w e _ h2)
  | .compare i l ops rs, pos, h => by
      simp only [offE, List.append_eq_nil_iff] at h
      obtain ⟨⟨h1, h2⟩, h3⟩ := h
      have hc : compareOk cfg ops = true := by
        by_cases hh : compareOk cfg ops = true
        · exact hh
        · simp [hh] at h1
      exact .compare hc (soundE cfg sc w l _ h2) (soundEs cfg sc w rs _ h3)
  | .binop i op l r, pos, h => by
      simp only [offE, List.append_eq_nil_iff] at h
      exact .binop (soundE cfg sc w l _ h.1) (soundE cfg sc w r _ h.2)
  | .attr i v a c, pos, h => by
      simp only [offE] at h
      exact .attr (soundE cfg sc w v _ h)
  | .subscript i v s c, pos, h => by
      simp only [offE, List.append_eq_nil_iff] at h
      exact .subscript (soundE cfg sc w v _ h.1) (soundE cfg sc w s _ h.2)
  | .keyword i a hh v, pos, h => by
      simp only [offE] at h
      exact .keyword (soundE cfg sc w v _ h)
  | .lambda i as b, pos, h => by
      simp only [offE, List.append_eq_nil_iff] at h
      exact .lambda (soundE cfg sc w as _ h.1) (soundE cfg sc w b _ h.2)
  | .seq i k es c, pos, h => by
      simp only [offE] at h
      exact .seq (soundEs cfg sc w es _ h)
  | .starred i v c, pos, h => by
      simp only [offE] at h
      exact .starred (soundE cfg sc w v _ h)
  | .namedexpr i t v, pos, h => by
      simp only [offE, List.append_eq_nil_iff] at h
      exact .namedexpr (soundE cfg sc w t _ h.1) (soundE cfg sc w v _ h.2)
  | .comp i k es gs, pos, h => by
      simp only [offE, List.append_eq_nil_iff] at h
      exact .comp (soundEs cfg sc w es _ h.1) (soundEs cfg sc w gs _ h.2)
  | .comprehension i t it ifs a, pos, h => by
      simp only [offE, List.append_eq_nil_iff] at h
      exact .comprehension (soundE cfg sc w t _ h.1.1) (soundE cfg sc w it _ h.1.2) (soundEs cfg sc w ifs _ h.2)
  | .arguments i a b c d e f g, pos, h => by
      simp only [offE, List.append_eq_nil_iff] at h
      obtain ⟨⟨⟨⟨⟨⟨h1, h2⟩, h3⟩, h4⟩, h5⟩, h6⟩, h7⟩ := h
      exact .arguments (soundEs cfg sc w a _ h1) (soundEs cfg sc w b _ h2) (soundEs cfg sc w c _ h3)
        (soundEs cfg sc w d _ h4) (soundEs cfg sc w e _ h5) (soundEs cfg sc w f _ h6) (soundEs cfg sc w g _ h7)
  | .arg i n an, pos, h => by
      simp only [offE] at h
      exact .arg (soundEs cfg sc w an _ h)
  | .withitem i c v, pos, h => by
      simp only [offE, List.append_eq_nil_iff] at h
      exact .withitem (soundE cfg sc w c _ h.1) (soundEs cfg sc w v _ h.2)
  | .other i k ats ks, pos, h => by
      simp only [offE] at h
      exact .other (soundEs cfg sc w ks _ h)
theorem soundEs (cfg : Cfg) (sc : List String) (w : Bool) :
    ∀ (es : List Expr) (ps : List Pos), offEs cfg sc w ps es = [] → OkEs cfg sc w ps es
  | [], _, _ => .nil
  | e :: es, ps, h => by
      simp only [offEs, List.append_eq_nil_iff] at h
      exact .cons (soundE cfg sc w e _ h.1) (soundEs cfg sc w es _ h.2)
end

mutual
theorem soundS (cfg : Cfg) :
    ∀ (s : Stmt) (sc roles : List String) (tail : Bool), offS cfg sc roles tail s = [] → OkS cfg sc roles tail s
  | .if_ .., _, _, _, h => by simp [offS] at h
  | .while_ .., _, _, _, h => by simp [offS] at h
  | .for_ .., _, _, _, h => by simp [offS] at h
  | .break_ .., _, _, _, h => by simp [offS] at h
  | .continue_ .., _, _, _, h => by simp [offS] at h
  | .ret i v, sc, roles, tail, h => by
      simp only [offS, List.append_eq_nil_iff] at h
      obtain ⟨h1, h2⟩ := h
      cases tail with
      | false => simp at h1
      | true => exact .ret (soundEs cfg sc false v _ h2)
  | .functionDef i n as b ds rs isA, sc, roles, tail, h => by
      simp only [offS, List.append_eq_nil_iff] at h
      obtain ⟨⟨⟨h1, h2⟩, h3⟩, h4⟩ := h
      exact .functionDef (soundE cfg sc false as _ h1) (soundEs cfg sc false ds _ h2) (soundEs cfg sc false rs _ h3)
        (soundB cfg b _ _ _ h4)
  | .classDef i n bs ks b ds, sc, roles, tail, h => by
      simp only [offS, List.append_eq_nil_iff] at h
      obtain ⟨⟨⟨h1, h2⟩, h3⟩, h4⟩ := h
      exact .classDef (soundEs cfg sc false bs _ h1) (soundEs cfg sc false ks _ h2) (soundEs cfg sc false ds _ h3)
        (soundB cfg b _ _ _ h4)
  | .with_ i its b isA, sc, roles, tail, h => by
      simp only [offS, List.append_eq_nil_iff] at h
      exact .with_ (soundEs cfg sc true its _ h.1) (soundB cfg b _ _ _ h.2)
  | .try_ i b hs e f, sc, roles, tail, h => by
      simp only [offS, List.append_eq_nil_iff] at h
      obtain ⟨⟨⟨h1, h2⟩, h3⟩, h4⟩ := h
      exact .try_ (soundB cfg b _ _ _ h1) (soundB cfg hs _ _ _ h2) (soundB cfg e _ _ _ h3) (soundB cfg f _ _ _ h4)
  | .handler i t n b, sc, roles, tail, h => by
      simp only [offS, List.append_eq_nil_iff] at h
      exact .handler (soundEs cfg sc false t _ h.1) (soundB cfg b _ _ _ h.2)
  | .delete i ts, sc, roles, tail, h => by
      simp only [offS] at h
      exact .delete (soundEs cfg sc false ts _ h)
  | .assign i ts v, sc, roles, tail, h => by
      simp only [offS, List.append_eq_nil_iff] at h
      exact .assign (soundEs cfg sc false ts _ h.1) (soundE cfg sc false v _ h.2)
  | .augAssign i t op v, sc, roles, tail, h => by
      simp only [offS, List.append_eq_nil_iff] at h
      exact .augAssign (soundE cfg sc false t _ h.1) (soundE cfg sc false v _ h.2)
  | .annAssign i t an v s, sc, roles, tail, h => by
      simp only [offS, List.append_eq_nil_iff] at h
      exact .annAssign (soundE cfg sc false t _ h.1.1) (soundE cfg sc false an _ h.1.2) (soundEs cfg sc false v _ h.2)
  | .raise i e c, sc, roles, tail, h => by
      simp only [offS, List.append_eq_nil_iff] at h
      exact .raise (soundEs cfg sc false e _ h.1) (soundEs cfg sc false c _ h.2)
  | .assert_ i t m, sc, roles, tail, h => by
      simp only [offS, List.append_eq_nil_iff] at h
      exact .assert_ (soundE cfg sc false t _ h.1) (soundEs cfg sc false m _ h.2)
  | .expr i v, sc, roles, tail, h => by
      simp only [offS] at h
      exact .expr (soundE cfg sc false v _ h)
  | .import_ .., _, _, _, _ => .import_
  | .importFrom .., _, _, _, _ => .importFrom
  | .global .., _, _, _, _ => .global
  | .nonlocal .., _, _, _, _ => .nonlocal
  | .pass .., _, _, _, _ => .pass
  | .other i k es bs, sc, roles, tail, h => by
      simp only [offS, List.append_eq_nil_iff] at h
      exact .other (soundEs cfg sc false es _ h.1) (soundB cfg bs _ _ _ h.2)
theorem soundB (cfg : Cfg) :
    ∀ (ss : List Stmt) (sc roles : List String) (tail : Bool), offB cfg sc roles tail ss = [] → OkB cfg sc roles tail ss
  | [], _, _, _, _ => .nil
  | s :: ss, sc, roles, tail, h => by
      simp only [offB, List.append_eq_nil_iff] at h
      exact .cons (soundS cfg s _ _ _ h.1) (soundB cfg ss _ _ _ h.2)
end


end Malt.C04

/-! ### completeness: the checker rejects nothing that satisfies the property -/
namespace Malt.C04
open Malt.Py Malt.Conv Malt.Conv.NoNative

mutual
theorem completeE (cfg : Cfg) (sc : List String) (w : Bool) :
    ∀ (e : Expr) (pos : Pos), OkE cfg sc w pos e → offE cfg sc w pos e = []
  | .name .., _, _ => by simp [offE]
  | .const .., _, _ => by simp [offE]
  | .noneMarker, _, _ => by simp [offE]
  | .call i f as ks, pos, h => by
      cases h with
      | call hc hf ha hk => simp [offE, hc, completeE cfg sc w f _ hf, completeEs cfg sc w as _ ha, completeEs cfg sc w ks _ hk]
  | .boolop .., _, h => by cases h
  | .ifexp .., _, h => by cases h
  | .unary i op e, pos, h => by
      cases h with
      | unary hn he => simp [offE, hn, completeE cfg sc w e _ he]
  | .compare i l ops rs, pos, h => by
      cases h with
      | compare hc hl hr => simp [offE, hc, completeE cfg sc w l _ hl, completeEs cfg sc w rs _ hr]
  | .binop i op l r, pos, h => by
      cases h with
      | binop h1 h2 => simp [offE, completeE cfg sc w l _ h1, completeE cfg sc w r _ h2]
  | .attr i v a c, pos, h => by
      cases h with
      | attr h1 => simp [offE, completeE cfg sc w v _ h1]
  | .subscript i v s c, pos, h => by
      cases h with
      | subscript h1 h2 => simp [offE, completeE cfg sc w v _ h1, completeE cfg sc w s _ h2]
  | .keyword i a hh v, pos, h => by
      cases h with
      | keyword h1 => simp [offE, completeE cfg sc w v _ h1]
  | .lambda i as b, pos, h => by
      cases h with
      | lambda h1 h2 => simp [offE, completeE cfg sc w as _ h1, completeE cfg sc w b _ h2]
  | .seq i k es c, pos, h => by
      cases h with
      | seq h1 => simp [offE, completeEs cfg sc w es _ h1]
  | .starred i v c, pos, h => by
      cases h with
      | starred h1 => simp [offE, completeE cfg sc w v _ h1]
  | .namedexpr i t v, pos, h => by
      cases h with
      | namedexpr h1 h2 => simp [offE, completeE cfg sc w t _ h1, completeE cfg sc w v _ h2]
  | .comp i k es gs, pos, h => by
      cases h with
      | comp h1 h2 => simp [offE, completeEs cfg sc w es _ h1, completeEs cfg sc w gs _ h2]
  | .comprehension i t it ifs a, pos, h => by
      cases h with
      | comprehension h1 h2 h3 =>
          simp [offE, completeE cfg sc w t _ h1, completeE cfg sc w it _ h2, completeEs cfg sc w ifs _ h3]
  | .arguments i a b c d e f g, pos, h => by
      cases h with
      | arguments h1 h2 h3 h4 h5 h6 h7 =>
          simp [offE, completeEs cfg sc w a _ h1, completeEs cfg sc w b _ h2, completeEs cfg sc w c _ h3,
            completeEs cfg sc w d _ h4, completeEs cfg sc w e _ h5, completeEs cfg sc w f _ h6, completeEs cfg sc w g _ h7]
  | .arg i n an, pos, h => by
      cases h with
      | arg h1 => simp [offE, completeEs cfg sc w an _ h1]
  | .withitem i c v, pos, h => by
      cases h with
      | withitem h1 h2 => simp [offE, completeE cfg sc w c _ h1, completeEs cfg sc w v _ h2]
  | .other i k ats ks, pos, h => by
      cases h with
      | other h1 => simp [offE, completeEs cfg sc w ks _ h1]
theorem completeEs (cfg : Cfg) (sc : List String) (w : Bool) :
    ∀ (es : List Expr) (ps : List Pos), OkEs cfg sc w ps es → offEs cfg sc w ps es = []
  | [], _, _ => by simp [offEs]
  | e :: es, ps, h => by
      cases h with
      | cons h1 h2 => simp [offEs, completeE cfg sc w e _ h1, completeEs cfg sc w es _ h2]
end

mutual
theorem completeS (cfg : Cfg) :
    ∀ (s : Stmt) (sc roles : List String) (tail : Bool), OkS cfg sc roles tail s → offS cfg sc roles tail s = []
  | .if_ .., _, _, _, h => by cases h
  | .while_ .., _, _, _, h => by cases h
  | .for_ .., _, _, _, h => by cases h
  | .break_ .., _, _, _, h => by cases h
  | .continue_ .., _, _, _, h => by cases h
  | .ret i v, sc, roles, tail, h => by
      cases h with
      | ret h1 => simp [offS, completeEs cfg sc false v _ h1]
  | .functionDef i n as b ds rs isA, sc, roles, tail, h => by
      cases h with
      | functionDef h1 h2 h3 h4 =>
          have hb := completeB cfg b _ _ _ h4
          simp only [offS, completeE cfg sc false as _ h1, completeEs cfg sc false ds _ h2, completeEs cfg sc false rs _ h3,
            hb, List.append_nil]
  | .classDef i n bs ks b ds, sc, roles, tail, h => by
      cases h with
      | classDef h1 h2 h3 h4 =>
          simp [offS, completeEs cfg sc false bs _ h1, completeEs cfg sc false ks _ h2, completeEs cfg sc false ds _ h3,
            completeB cfg b _ _ _ h4]
  | .with_ i its b isA, sc, roles, tail, h => by
      cases h with
      | with_ h1 h2 => simp [offS, completeEs cfg sc true its _ h1, completeB cfg b _ _ _ h2]
  | .try_ i b hs e f, sc, roles, tail, h => by
      cases h with
      | try_ h1 h2 h3 h4 =>
          simp [offS, completeB cfg b _ _ _ h1, completeB cfg hs _ _ _ h2, completeB cfg e _ _ _ h3, completeB cfg f _ _ _ h4]
  | .handler i t n b, sc, roles, tail, h => by
      cases h with
      | handler h1 h2 => simp [offS, completeEs cfg sc false t _ h1, completeB cfg b _ _ _ h2]
  | .delete i ts, sc, roles, tail, h => by
      cases h with
      | delete h1 => simp [offS, completeEs cfg sc false ts _ h1]
  | .assign i ts v, sc, roles, tail, h => by
      cases h with
      | assign h1 h2 => simp [offS, completeEs cfg sc false ts _ h1, completeE cfg sc false v _ h2]
  | .augAssign i t op v, sc, roles, tail, h => by
      cases h with
      | augAssign h1 h2 => simp [offS, completeE cfg sc false t _ h1, completeE cfg sc false v _ h2]
  | .annAssign i t an v s, sc, roles, tail, h => by
      cases h with
      | annAssign h1 h2 h3 =>
          simp [offS, completeE cfg sc false t _ h1, completeE cfg sc false an _ h2, completeEs cfg sc false v _ h3]
  | .raise i e c, sc, roles, tail, h => by
      cases h with
      | raise h1 h2 => simp [offS, completeEs cfg sc false e _ h1, completeEs cfg sc false c _ h2]
  | .assert_ i t m, sc, roles, tail, h => by
      cases h with
      | assert_ h1 h2 => simp [offS, completeE cfg sc false t _ h1, completeEs cfg sc false m _ h2]
  | .expr i v, sc, roles, tail, h => by
      cases h with
      | expr h1 => simp [offS, completeE cfg sc false v _ h1]
  | .import_ .., _, _, _, _ => by simp [offS]
  | .importFrom .., _, _, _, _ => by simp [offS]
  | .global .., _, _, _, _ => by simp [offS]
  | .nonlocal .., _, _, _, _ => by simp [offS]
  | .pass .., _, _, _, _ => by simp [offS]
  | .other i k es bs, sc, roles, tail, h => by
      cases h with
      | other h1 h2 => simp [offS, completeEs cfg sc false es _ h1, completeB cfg bs _ _ _ h2]
theorem completeB (cfg : Cfg) :
    ∀ (ss : List Stmt) (sc roles : List String) (tail : Bool), OkB cfg sc roles tail ss → offB cfg sc roles tail ss = []
  | [], _, _, _, _ => by simp [offB]
  | s :: ss, sc, roles, tail, h => by
      cases h with
      | cons h1 h2 => simp [offB, completeS cfg s _ _ _ h1, completeB cfg ss _ _ _ h2]
end

end Malt.C04
