import MaltModel.Analysis.Worklist
/-
Termination and least-fixed-point theorems for the work-list model of `Analysis/Worklist.lean`
(shared by C06 reaching definitions, C07 liveness, reaching fndefs: generic in the flow and in the
orientation of the edges).

Why the fuel bound is exponential.  The real `GraphVisitor._visit_internal` (and therefore the model)
appends a child whenever the child is not yet in `closed`, even if it is already waiting in `open_`.
A node waiting `k` times is visited `k` times, and every one of those visits — the state did not change
— appends its not-yet-visited children again: behind a chain of `k` if/else diamonds the join node
is visited `2^k` times (measured on the real code: 16 sequential if/else statements, 50 CFG nodes,
262 142 `visit_node` calls; 18: 1 048 574).  A bound polynomial in the size of the graph is false of the
algorithm that exists.  The measure below follows the algorithm:

  * `cap`     : number of (node, fact) pairs not yet in `B` — decreases at every visit that changes `B`
                (`B` only grows: it stays below its own image, `B ≤ F(B)`), never increases;
  * `unclosed`: number of known nodes not yet in `closed` — never increases;
  * an entry of `open_` for node `m` weighs `gW D (unclosed + [m ∈ closed])`, `gW D (u+1) = gW D u + D·gW D u + 1`:
    what the entry can still cause without any change of `B` (`D` bounds the number of children).

`Φ = Σ weights of the entries + D·gW D (N+1) · cap` strictly decreases at every iteration.
-/
namespace Malt.Analysis
section
variable {α : Type} [DecidableEq α]

/-! ### small list / sum lemmas -/

def wsum (w : Nat → Nat) : List Nat → Nat
  | [] => 0
  | x :: xs => w x + wsum w xs

theorem wsum_append (w : Nat → Nat) (l₁ l₂ : List Nat) : wsum w (l₁ ++ l₂) = wsum w l₁ + wsum w l₂ := by
  induction l₁ with
  | nil => simp [wsum]
  | cons x xs ih => simp [wsum, ih, Nat.add_assoc]

theorem wsum_le (w w' : Nat → Nat) (l : List Nat) (h : ∀ m, m ∈ l → w' m ≤ w m) : wsum w' l ≤ wsum w l := by
  induction l with
  | nil => simp [wsum]
  | cons x xs ih =>
    simp only [wsum]
    have h1 := h x (List.mem_cons_self ..)
    have h2 := ih (fun m hm => h m (List.mem_cons_of_mem _ hm))
    omega

theorem wsum_le_mul (w : Nat → Nat) (l : List Nat) (b : Nat) (h : ∀ m, m ∈ l → w m ≤ b) : wsum w l ≤ l.length * b := by
  induction l with
  | nil => simp [wsum]
  | cons x xs ih =>
    simp only [wsum, List.length_cons]
    have h1 := h x (List.mem_cons_self ..)
    have h2 := ih (fun m hm => h m (List.mem_cons_of_mem _ hm))
    rw [Nat.add_mul]
    omega

theorem wsum_lt (w w' : Nat → Nat) (l : List Nat) (h : ∀ m, m ∈ l → w' m ≤ w m) (n : Nat) (hn : n ∈ l)
    (hlt : w' n < w n) : wsum w' l < wsum w l := by
  induction l with
  | nil => cases hn
  | cons x xs ih =>
    simp only [wsum]
    have h1 := h x (List.mem_cons_self ..)
    have h2 := wsum_le w w' xs (fun m hm => h m (List.mem_cons_of_mem _ hm))
    rcases List.mem_cons.mp hn with e | hx
    · subst e; omega
    · have := ih (fun m hm => h m (List.mem_cons_of_mem _ hm)) hx
      omega

theorem filter_length_le_of_imp {β : Type} (p q : β → Bool) (l : List β) (h : ∀ x, x ∈ l → q x = true → p x = true) :
    (l.filter q).length ≤ (l.filter p).length := by
  induction l with
  | nil => simp
  | cons x xs ih =>
    have ih' := ih (fun y hy => h y (List.mem_cons_of_mem _ hy))
    have hx := h x (List.mem_cons_self ..)
    simp only [List.filter_cons]
    cases hq : q x <;> cases hp : p x <;> simp_all <;> omega

theorem filter_length_lt_of_imp {β : Type} (p q : β → Bool) (l : List β) (h : ∀ x, x ∈ l → q x = true → p x = true)
    (a : β) (ha : a ∈ l) (hp : p a = true) (hq : q a = false) : (l.filter q).length < (l.filter p).length := by
  induction l with
  | nil => cases ha
  | cons x xs ih =>
    have hle := filter_length_le_of_imp p q xs (fun y hy => h y (List.mem_cons_of_mem _ hy))
    have hx := h x (List.mem_cons_self ..)
    simp only [List.filter_cons]
    rcases List.mem_cons.mp ha with e | hxs
    · subst e
      simp [hp, hq]; omega
    · have := ih (fun y hy => h y (List.mem_cons_of_mem _ hy)) hxs
      cases hq' : q x <;> cases hp' : p x <;> simp_all <;> omega

/-! ### the measure -/

theorem gW_pos (D u : Nat) : 1 ≤ gW D u := by cases u <;> simp [gW]

theorem gW_mono (D : Nat) {u v : Nat} (h : u ≤ v) : gW D u ≤ gW D v := by
  induction v with
  | zero => have : u = 0 := by omega
            subst this; exact Nat.le_refl _
  | succ v ih =>
    by_cases e : u = v + 1
    · subst e; exact Nat.le_refl _
    · have h1 := ih (by omega)
      have h2 : gW D v ≤ gW D (v + 1) := by
        simp only [gW]; omega
      exact Nat.le_trans h1 h2

def unclosed (Ns closed : List Nat) : Nat := (Ns.filter (fun m => !closed.contains m)).length

theorem unclosed_le_length (Ns closed : List Nat) : unclosed Ns closed ≤ Ns.length := List.length_filter_le _ _

theorem unclosed_cons_le (Ns closed : List Nat) (n : Nat) : unclosed Ns (n :: closed) ≤ unclosed Ns closed := by
  apply filter_length_le_of_imp
  intro x _ hx
  simp only [Bool.not_eq_true', List.contains_eq_mem, decide_eq_false_iff_not, List.mem_cons, not_or] at hx ⊢
  exact hx.2

theorem unclosed_cons_lt (Ns closed : List Nat) (n : Nat) (hn : n ∈ Ns) (hc : n ∉ closed) :
    unclosed Ns (n :: closed) < unclosed Ns closed := by
  apply filter_length_lt_of_imp _ _ Ns _ n hn
  · simp [hc]
  · simp
  · intro x _ hx
    simp only [Bool.not_eq_true', List.contains_eq_mem, decide_eq_false_iff_not, List.mem_cons, not_or] at hx ⊢
    exact hx.2

/-- weight of one entry of `open_` -/
def wt (D : Nat) (Ns closed : List Nat) (m : Nat) : Nat :=
  gW D (unclosed Ns closed + (if closed.contains m then 1 else 0))

/-- number of (node, fact) pairs not yet in the solution -/
def cap (Ns : List Nat) (U : List α) (B : St α) : Nat :=
  wsum (fun n => (U.filter (fun a => !(B n).contains a)).length) Ns

theorem cap_le (Ns : List Nat) (U : List α) (B : St α) : cap Ns U B ≤ Ns.length * U.length :=
  wsum_le_mul _ _ _ (fun _ _ => List.length_filter_le _ _)

theorem cap_mono (Ns : List Nat) (U : List α) (B B' : St α) (h : ∀ m a, a ∈ B m → a ∈ B' m) :
    cap Ns U B' ≤ cap Ns U B := by
  apply wsum_le
  intro m _
  apply filter_length_le_of_imp
  intro a _ ha
  simp only [Bool.not_eq_true', List.contains_eq_mem, decide_eq_false_iff_not] at ha ⊢
  exact fun hb => ha (h m a hb)

theorem cap_lt (Ns : List Nat) (U : List α) (B B' : St α) (h : ∀ m a, a ∈ B m → a ∈ B' m)
    (n : Nat) (hn : n ∈ Ns) (a : α) (haU : a ∈ U) (ha' : a ∈ B' n) (ha : a ∉ B n) : cap Ns U B' < cap Ns U B := by
  apply wsum_lt _ _ Ns _ n hn
  · apply filter_length_lt_of_imp _ _ U _ a haU
    · simp [ha]
    · simp [ha']
    · intro x _ hx
      simp only [Bool.not_eq_true', List.contains_eq_mem, decide_eq_false_iff_not] at hx ⊢
      exact fun hb => hx (h n x hb)
  · intro m _
    apply filter_length_le_of_imp
    intro x _ hx
    simp only [Bool.not_eq_true', List.contains_eq_mem, decide_eq_false_iff_not] at hx ⊢
    exact fun hb => hx (h m x hb)

/-- the potential -/
def Phi (E : List (Nat × Nat)) (Ns : List Nat) (U : List α) (s : WL α) : Nat :=
  wsum (wt E.length Ns s.closed) s.open_ + (E.length * gW E.length (Ns.length + 1)) * cap Ns U s.B

/-! ### invariants of the run -/

structure TInv (E : List (Nat × Nat)) (F : Flow α) (Ns : List Nat) (U : List α) (s : WL α) : Prop where
  hopen : ∀ m, m ∈ s.open_ → m ∈ Ns
  hpre : ∀ n a, a ∈ s.B n → a ∈ transfer F n (joinAt E s.B n)
  huniv : ∀ n a, a ∈ s.B n → a ∈ U

omit [DecidableEq α] in
theorem joinAt_mono (E : List (Nat × Nat)) (B B' : St α) (h : ∀ m a, a ∈ B m → a ∈ B' m) (n : Nat) (a : α)
    (ha : a ∈ joinAt E B n) : a ∈ joinAt E B' n := by
  rw [mem_joinAt] at ha ⊢
  obtain ⟨p, hE, hp⟩ := ha
  exact ⟨p, hE, h p a hp⟩

omit [DecidableEq α] in
theorem transfer_mono (F : Flow α) (n : Nat) (x y : List α) (h : ∀ a, a ∈ x → a ∈ y) (a : α)
    (ha : a ∈ transfer F n x) : a ∈ transfer F n y := by
  rw [mem_transfer] at ha ⊢
  rcases ha with h1 | ⟨h1, h2⟩
  · exact Or.inl h1
  · exact Or.inr ⟨h a h1, h2⟩

omit [DecidableEq α] in
theorem tinv_init (E : List (Nat × Nat)) (F : Flow α) (start : List Nat) :
    TInv E F (nodesOf E start) (factsOf E start F) (WL.init start : WL α) :=
  ⟨fun m hm => by simp only [WL.init] at hm; simp [nodesOf, hm],
   fun n a h => by simp [WL.init] at h, fun n a h => by simp [WL.init] at h⟩

theorem phi_init_le (E : List (Nat × Nat)) (F : Flow α) (start : List Nat) :
    Phi E (nodesOf E start) (factsOf E start F) (WL.init start : WL α) ≤ fuelBound E start F := by
  simp only [Phi, fuelBound, WL.init]
  have h1 : wsum (wt E.length (nodesOf E start) []) start ≤ start.length * gW E.length (nodesOf E start).length := by
    apply wsum_le_mul
    intro m _
    simp only [wt, List.contains_nil, if_false, Nat.add_zero, Bool.false_eq_true]
    exact gW_mono _ (unclosed_le_length _ _)
  have h2 := cap_le (nodesOf E start) (factsOf E start F) (fun _ => ([] : List α))
  have h3 := Nat.mul_le_mul_left (E.length * gW E.length ((nodesOf E start).length + 1)) h2
  omega

/-- one iteration keeps the invariants and lowers the potential -/
theorem step_decreases (E : List (Nat × Nat)) (F : Flow α) (start : List Nat) (s : WL α)
    (hinv : TInv E F (nodesOf E start) (factsOf E start F) s) (n : Nat) (rest : List Nat) (hopen : s.open_ = n :: rest) :
    TInv E F (nodesOf E start) (factsOf E start F) (step E F s) ∧
    Phi E (nodesOf E start) (factsOf E start F) (step E F s) + 1 ≤ Phi E (nodesOf E start) (factsOf E start F) s := by
  -- names
  generalize hNs : nodesOf E start = Ns at *
  generalize hU : factsOf E start F = U at *
  have hnNs : n ∈ Ns := hinv.hopen n (by rw [hopen]; exact List.mem_cons_self ..)
  have hgenU : ∀ a, a ∈ F.gen n → a ∈ U := by
    intro a ha
    rw [← hU]
    simp only [factsOf, List.mem_flatMap]
    exact ⟨n, by rw [hNs]; exact hnNs, ha⟩
  -- the new B dominates the old one
  have hBle : ∀ m a, a ∈ s.B m → a ∈ upd s.B n (transfer F n (joinAt E s.B n)) m := by
    intro m a ha
    by_cases hm : m = n
    · subst hm; simp only [upd, if_true]; exact hinv.hpre m a ha
    · simp only [upd, hm, if_false]; exact ha
  have hchildNs : ∀ c, c ∈ (E.filter (fun e => e.1 == n)).map (·.2) → c ∈ Ns := by
    intro c hc
    simp only [List.mem_map, List.mem_filter] at hc
    obtain ⟨e, ⟨he, _⟩, hec⟩ := hc
    rw [← hNs]
    simp only [nodesOf, List.mem_append, List.mem_map]
    exact Or.inr ⟨e, he, hec⟩
  have hchildLen : ((E.filter (fun e => e.1 == n)).map (·.2)).length ≤ E.length := by
    rw [List.length_map]; exact List.length_filter_le _ _
  -- unfold the step
  have hstep : step E F s =
      { open_ := rest ++ ((E.filter (fun e => e.1 == n)).map (·.2)).filter
                    (fun c => (!(setEqB (s.B n) (transfer F n (joinAt E s.B n)))) || !((n :: s.closed).contains c)),
        closed := n :: s.closed, A := upd s.A n (joinAt E s.B n),
        B := upd s.B n (transfer F n (joinAt E s.B n)) } := by
    unfold step
    rw [hopen]
  rw [hstep]
  refine ⟨⟨?_, ?_, ?_⟩, ?_⟩
  · -- hopen
    intro m hm
    simp only [List.mem_append, List.mem_filter] at hm
    rcases hm with hm | ⟨hm, _⟩
    · exact hinv.hopen m (by rw [hopen]; exact List.mem_cons_of_mem _ hm)
    · exact hchildNs m hm
  · -- hpre
    intro m a ha
    show a ∈ transfer F m (joinAt E (upd s.B n (transfer F n (joinAt E s.B n))) m)
    have hold : a ∈ transfer F m (joinAt E s.B m) := by
      by_cases hm : m = n
      · subst hm; simpa [upd] using ha
      · have : a ∈ s.B m := by simpa [upd, hm] using ha
        exact hinv.hpre m a this
    exact transfer_mono F m _ _ (fun x hx => joinAt_mono E _ _ hBle m x hx) a hold
  · -- huniv
    intro m a ha
    by_cases hm : m = n
    · subst hm
      have ha' : a ∈ transfer F m (joinAt E s.B m) := by simpa [upd] using ha
      rw [mem_transfer] at ha'
      rcases ha' with h1 | ⟨h1, _⟩
      · exact hgenU a h1
      · rw [mem_joinAt] at h1
        obtain ⟨p, _, hp⟩ := h1
        exact hinv.huniv p a hp
    · have : a ∈ s.B m := by simpa [upd, hm] using ha
      exact hinv.huniv m a this
  · -- the potential
    simp only [Phi]
    rw [hopen, wsum_append]
    simp only [wsum]
    -- abbreviations
    generalize hb : transfer F n (joinAt E s.B n) = b at *
    generalize hD : E.length = D at *
    have hu' : unclosed Ns (n :: s.closed) ≤ unclosed Ns s.closed := unclosed_cons_le _ _ _
    -- the popped entry pays for one unit and for `D` entries of unclosed nodes afterwards
    have hpop : 1 + D * gW D (unclosed Ns (n :: s.closed)) ≤ wt D Ns s.closed n := by
      simp only [wt]
      by_cases hc : n ∈ s.closed
      · have : s.closed.contains n = true := by simpa using hc
        simp only [this, if_true]
        show 1 + D * gW D (unclosed Ns (n :: s.closed)) ≤ gW D (unclosed Ns s.closed + 1)
        simp only [gW]
        have := Nat.mul_le_mul_left D (gW_mono D hu')
        omega
      · have : s.closed.contains n = false := by simpa using hc
        simp only [this, Bool.false_eq_true, if_false, Nat.add_zero]
        have hlt := unclosed_cons_lt Ns s.closed n hnNs hc
        have h1 : gW D (unclosed Ns (n :: s.closed) + 1) ≤ gW D (unclosed Ns s.closed) := gW_mono D hlt
        simp only [gW] at h1
        omega
    -- the other entries do not get heavier
    have hrest : wsum (wt D Ns (n :: s.closed)) rest ≤ wsum (wt D Ns s.closed) rest := by
      apply wsum_le
      intro m _
      simp only [wt]
      apply gW_mono
      by_cases hmc : m ∈ s.closed
      · have h1 : s.closed.contains m = true := by simpa using hmc
        have h2 : (n :: s.closed).contains m = true := by simp [hmc]
        simp only [h1, h2, if_true]; omega
      · have h1 : s.closed.contains m = false := by simpa using hmc
        by_cases hmn : m = n
        · subst hmn
          have h2 : (m :: s.closed).contains m = true := by simp
          have hlt := unclosed_cons_lt Ns s.closed m hnNs hmc
          simp only [h1, h2, if_true, Bool.false_eq_true, if_false]; omega
        · have h2 : (n :: s.closed).contains m = false := by simp [hmc, hmn]
          simp only [h1, h2, Bool.false_eq_true, if_false]; omega
    have hcapmono := cap_mono Ns U s.B (upd s.B n b) hBle
    cases hch : setEqB (s.B n) b with
    | true =>
      -- nothing changed: only children that are not closed yet are appended
      simp only [Bool.not_true, Bool.false_or]
      have hpush : wsum (wt D Ns (n :: s.closed))
          (((E.filter (fun e => e.1 == n)).map (·.2)).filter (fun c => !((n :: s.closed).contains c)))
          ≤ D * gW D (unclosed Ns (n :: s.closed)) := by
        have h1 := wsum_le_mul (wt D Ns (n :: s.closed))
          (((E.filter (fun e => e.1 == n)).map (·.2)).filter (fun c => !((n :: s.closed).contains c)))
          (gW D (unclosed Ns (n :: s.closed))) (by
            intro m hm
            simp only [List.mem_filter, Bool.not_eq_true'] at hm
            simp only [wt, hm.2, Bool.false_eq_true, if_false, Nat.add_zero]
            exact Nat.le_refl _)
        have h2 : (((E.filter (fun e => e.1 == n)).map (·.2)).filter (fun c => !((n :: s.closed).contains c))).length ≤ D :=
          Nat.le_trans (List.length_filter_le _ _) hchildLen
        exact Nat.le_trans h1 (Nat.mul_le_mul_right _ h2)
      have hK := Nat.mul_le_mul_left (D * gW D (Ns.length + 1)) hcapmono
      omega
    | false =>
      -- B n grew strictly: the capacity pays for all children
      simp only [Bool.not_false, Bool.true_or]
      have hne : ¬ SetEq (s.B n) b := fun h => by
        have := (setEqB_spec (s.B n) b).mpr h
        rw [hch] at this; cases this
      have hex : ∃ a, a ∈ b ∧ a ∉ s.B n := by
        apply Classical.byContradiction
        intro hno
        apply hne
        intro a
        constructor
        · intro ha
          have := hBle n a ha
          simpa [upd] using this
        · intro ha
          apply Classical.byContradiction
          intro hna
          exact hno ⟨a, ha, hna⟩
      obtain ⟨a, hab, hanot⟩ := hex
      have haU : a ∈ U := by
        rw [← hb, mem_transfer] at hab
        rcases hab with h1 | ⟨h1, _⟩
        · exact hgenU a h1
        · rw [mem_joinAt] at h1
          obtain ⟨p, _, hp⟩ := h1
          exact hinv.huniv p a hp
      have hcaplt := cap_lt Ns U s.B (upd s.B n b) hBle n hnNs a haU (by simp [upd, hab]) hanot
      have hpush : wsum (wt D Ns (n :: s.closed)) (((E.filter (fun e => e.1 == n)).map (·.2)).filter (fun _ => true))
          ≤ D * gW D (Ns.length + 1) := by
        have h1 := wsum_le_mul (wt D Ns (n :: s.closed))
          (((E.filter (fun e => e.1 == n)).map (·.2)).filter (fun _ => true)) (gW D (Ns.length + 1)) (by
            intro m _
            simp only [wt]
            apply gW_mono
            have := unclosed_le_length Ns (n :: s.closed)
            split <;> omega)
        have h2 : (((E.filter (fun e => e.1 == n)).map (·.2)).filter (fun _ => true)).length ≤ D :=
          Nat.le_trans (List.length_filter_le _ _) hchildLen
        exact Nat.le_trans h1 (Nat.mul_le_mul_right _ h2)
      have hK : (D * gW D (Ns.length + 1)) * (cap Ns U (upd s.B n b) + 1) ≤ (D * gW D (Ns.length + 1)) * cap Ns U s.B :=
        Nat.mul_le_mul_left _ hcaplt
      rw [Nat.mul_add, Nat.mul_one] at hK
      have hp1 := gW_pos D (unclosed Ns (n :: s.closed))
      omega

/-- **Termination.** With at least `Phi s` fuel the run reaches an empty work-list. -/
theorem run_terminates_from (E : List (Nat × Nat)) (F : Flow α) (start : List Nat) (fuel : Nat) (s : WL α)
    (hinv : TInv E F (nodesOf E start) (factsOf E start F) s)
    (hfuel : Phi E (nodesOf E start) (factsOf E start F) s ≤ fuel) : (run E F fuel s).open_ = [] := by
  induction fuel generalizing s with
  | zero =>
    simp only [run]
    cases hopen : s.open_ with
    | nil => rfl
    | cons n rest =>
      have := (step_decreases E F start s hinv n rest hopen).2
      omega
  | succ f ih =>
    unfold run
    cases hopen : s.open_ with
    | nil => simpa using hopen
    | cons n rest =>
      simp only
      have hd := step_decreases E F start s hinv n rest hopen
      exact ih _ hd.1 (by omega)

theorem run_terminates (E : List (Nat × Nat)) (F : Flow α) (start : List Nat) (fuel : Nat)
    (hfuel : fuelBound E start F ≤ fuel) : (run E F fuel (WL.init start)).open_ = [] :=
  run_terminates_from E F start fuel _ (tinv_init E F start) (Nat.le_trans (phi_init_le E F start) hfuel)

/-! ### least fixed point -/

omit [DecidableEq α] in
/-- two solutions that are both post-fixed points and both below every post-fixed point (over the same node set) coincide:
the least solution does not depend on the order in which an iteration visits the nodes -/
theorem lfp_unique (E : List (Nat × Nat)) (V : List Nat) (F : Flow α) (A₁ B₁ A₂ B₂ : St α)
    (h₁ : IsPostFix E V F A₁ B₁) (h₂ : IsPostFix E V F A₂ B₂)
    (l₁ : ∀ A' B', IsPostFix E V F A' B' → ∀ n a, (a ∈ B₁ n → a ∈ B' n) ∧ (a ∈ A₁ n → a ∈ A' n))
    (l₂ : ∀ A' B', IsPostFix E V F A' B' → ∀ n a, (a ∈ B₂ n → a ∈ B' n) ∧ (a ∈ A₂ n → a ∈ A' n)) :
    ∀ n, SetEq (B₁ n) (B₂ n) ∧ SetEq (A₁ n) (A₂ n) :=
  fun n => ⟨fun a => ⟨(l₁ A₂ B₂ h₂ n a).1, (l₂ A₁ B₁ h₁ n a).1⟩, fun a => ⟨(l₁ A₂ B₂ h₂ n a).2, (l₂ A₁ B₁ h₁ n a).2⟩⟩

structure LInv (V' : List Nat) (A' B' : St α) (s : WL α) : Prop where
  hopen : ∀ m, m ∈ s.open_ → m ∈ V'
  hB : ∀ n a, a ∈ s.B n → a ∈ B' n
  hA : ∀ n a, a ∈ s.A n → a ∈ A' n

theorem linv_step (E : List (Nat × Nat)) (F : Flow α) (V' : List Nat) (A' B' : St α)
    (hpost : IsPostFix E V' F A' B') (hclosed : closedUnder E V' = true) (s : WL α) (h : LInv V' A' B' s) :
    LInv V' A' B' (step E F s) := by
  unfold step
  split
  · exact h
  · rename_i n rest hopen
    have hn : n ∈ V' := h.hopen n (by rw [hopen]; exact List.mem_cons_self ..)
    have hjoin : ∀ a, a ∈ joinAt E s.B n → a ∈ A' n := by
      intro a ha
      rw [mem_joinAt] at ha
      obtain ⟨p, hE, hp⟩ := ha
      exact hpost.1 p n hE hn a (h.hB p a hp)
    refine ⟨?_, ?_, ?_⟩
    · intro m hm
      simp only [List.mem_append, List.mem_filter, List.mem_map] at hm
      rcases hm with hm | ⟨⟨e, ⟨he, hen⟩, hem⟩, _⟩
      · exact h.hopen m (by rw [hopen]; exact List.mem_cons_of_mem _ hm)
      · have hen' : e.1 = n := by simpa using hen
        have : (n, m) ∈ E := by
          have : e = (n, m) := by cases e; simp_all
          rw [← this]; exact he
        exact closedUnder_spec hclosed n m this hn
    · intro m a ha
      by_cases hm : m = n
      · subst hm
        have ha' : a ∈ transfer F m (joinAt E s.B m) := by simpa [upd] using ha
        rw [mem_transfer] at ha'
        rcases ha' with h1 | ⟨h1, h2⟩
        · exact hpost.2 m hn a (Or.inl h1)
        · exact hpost.2 m hn a (Or.inr ⟨hjoin a h1, h2⟩)
      · have : a ∈ s.B m := by simpa [upd, hm] using ha
        exact h.hB m a this
    · intro m a ha
      by_cases hm : m = n
      · subst hm
        have ha' : a ∈ joinAt E s.B m := by simpa [upd] using ha
        exact hjoin a ha'
      · have : a ∈ s.A m := by simpa [upd, hm] using ha
        exact h.hA m a this

/-- **Leastness.** At every moment of the run the model's state is below every post-fixed point over a set of nodes that
contains the start nodes and is closed under the edges. -/
theorem run_below_postfix (E : List (Nat × Nat)) (F : Flow α) (start : List Nat) (V' : List Nat) (A' B' : St α)
    (hpost : IsPostFix E V' F A' B') (hstart : ∀ n, n ∈ start → n ∈ V') (hclosed : closedUnder E V' = true) (fuel : Nat) :
    ∀ n a, (a ∈ (run E F fuel (WL.init start)).B n → a ∈ B' n) ∧ (a ∈ (run E F fuel (WL.init start)).A n → a ∈ A' n) := by
  have key : ∀ (fuel : Nat) (s : WL α), LInv V' A' B' s → LInv V' A' B' (run E F fuel s) := by
    intro fuel
    induction fuel with
    | zero => intro s h; exact h
    | succ f ih =>
      intro s h
      unfold run
      split
      · exact h
      · exact ih _ (linv_step E F V' A' B' hpost hclosed s h)
  have h0 : LInv V' A' B' (WL.init start : WL α) :=
    ⟨fun m hm => hstart m (by simpa [WL.init] using hm), fun n a h => by simp [WL.init] at h, fun n a h => by simp [WL.init] at h⟩
  have := key fuel _ h0
  exact fun n a => ⟨this.hB n a, this.hA n a⟩

end
end Malt.Analysis
