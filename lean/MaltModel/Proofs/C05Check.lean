import MaltModel.Cfg.Check
/-!
# Soundness of the C05 checkers

* `walk_sound`: every pair of nodes a walk executes consecutively is in `flow.req`, and the node a walk ends in is in
  the flow component of its outcome — for every fuel and every oracle (induction on fuel, the three mutually recursive
  walk functions together).
* `pathCheck_sound`: a graph accepted by `pathCheck fn g` contains every walk of `fn` as a path from its entry to an
  exit/error node.
* `wellFormed_sound`: a graph accepted by `wellFormed` is `WellFormed`.
-/
namespace Malt.Cfg
open Malt.Py

/-! ### Chains -/

/-- Last element of `x :: l`. -/
def endOf (x : Nat) : List Nat → Nat
  | [] => x
  | y :: r => endOf y r

/-- `x :: l` is a chain of edges of `E`. -/
def ChainFrom (E : List (Nat × Nat)) (x : Nat) : List Nat → Prop
  | [] => True
  | y :: r => (x, y) ∈ E ∧ ChainFrom E y r

theorem endOf_append (x : Nat) (a b : List Nat) : endOf x (a ++ b) = endOf (endOf x a) b := by
  induction a generalizing x with
  | nil => rfl
  | cons y r ih => simp [endOf, ih]

theorem chainFrom_append (E : List (Nat × Nat)) (x : Nat) (a b : List Nat) :
    ChainFrom E x (a ++ b) ↔ ChainFrom E x a ∧ ChainFrom E (endOf x a) b := by
  induction a generalizing x with
  | nil => simp [ChainFrom, endOf]
  | cons y r ih => simp [ChainFrom, endOf, ih, and_assoc]

/-- All pairs of `l` are edges of `E`. -/
def Sub (l E : List (Nat × Nat)) : Prop := ∀ p, p ∈ l → p ∈ E

@[simp] theorem sub_nil (E) : Sub [] E := by intro p h; cases h
@[simp] theorem sub_append (a b E) : Sub (a ++ b) E ↔ Sub a E ∧ Sub b E := by
  simp only [Sub, List.mem_append]
  constructor
  · intro h; exact ⟨fun p hp => h p (Or.inl hp), fun p hp => h p (Or.inr hp)⟩
  · rintro ⟨h1, h2⟩ p (hp | hp); exact h1 p hp; exact h2 p hp

theorem sub_cross {cur n E x} (h : Sub (cross cur n) E) (hx : x ∈ cur) : (x, n) ∈ E :=
  h _ (List.mem_map.mpr ⟨x, hx, rfl⟩)

theorem emit_sound (E : List (Nat × Nat)) : ∀ (ns cur : List Nat) (x : Nat), x ∈ cur → Sub (emit cur ns).1 E →
    ChainFrom E x ns ∧ endOf x ns ∈ (emit cur ns).2 := by
  intro ns
  induction ns with
  | nil => intro cur x hx _; exact ⟨trivial, hx⟩
  | cons n r ih =>
    intro cur x hx h
    simp only [emit, sub_append] at h
    have := ih [n] n (by simp) h.2
    exact ⟨⟨sub_cross h.1 hx, this.1⟩, this.2⟩

/-! ### Flow components -/

def Flow.sel (R : Flow) : Outcome → List Nat
  | .normal => R.normal
  | .brk => R.brk
  | .cont => R.cont
  | .ret => R.ret
  | .raise => R.raise
  | .exempt => R.exempt
  | .fuel => []

/-- A walk result `(tr, o, _)` started after node `x` is described by the flow `R`. -/
def Good (E : List (Nat × Nat)) (R : Flow) (x : Nat) (res : WalkRes) : Prop :=
  ChainFrom E x res.1 ∧ (res.2.1 = .fuel ∨ endOf x res.1 ∈ R.sel res.2.1)

/-- `R` is contained in `R'`. -/
def Flow.le (R R' : Flow) : Prop := Sub R.req R'.req ∧ ∀ o n, n ∈ R.sel o → n ∈ R'.sel o

theorem Flow.le_refl (R : Flow) : R.le R := ⟨fun _ h => h, fun _ _ h => h⟩

theorem Flow.le_trans {A B C : Flow} (h1 : A.le B) (h2 : B.le C) : A.le C :=
  ⟨fun p h => h2.1 p (h1.1 p h), fun o n h => h2.2 o n (h1.2 o n h)⟩

theorem Good.mono {E R R' x res} (h : Good E R x res) (hle : ∀ o n, n ∈ R.sel o → n ∈ R'.sel o) : Good E R' x res :=
  ⟨h.1, h.2.imp id (hle _ _)⟩

theorem sub_of_le {R R' : Flow} {E} (hle : R.le R') (h : Sub R'.req E) : Sub R.req E :=
  fun p hp => h p (hle.1 p hp)

theorem le_alt_left (A B : Flow) : A.le (A.alt B) := by
  refine ⟨fun p h => ?_, fun o n h => ?_⟩
  · simp only [Flow.alt, List.mem_append]; exact Or.inl h
  · cases o <;> simp only [Flow.sel, Flow.alt, List.mem_append] at * <;> first | exact Or.inl h | exact h

theorem le_alt_right (A B : Flow) : B.le (A.alt B) := by
  refine ⟨fun p h => ?_, fun o n h => ?_⟩
  · simp only [Flow.alt, List.mem_append]; exact Or.inr h
  · cases o <;> simp only [Flow.sel, Flow.alt, List.mem_append] at * <;> first | exact Or.inr h | exact h

theorem le_seq_right (A B : Flow) : B.le (A.seq B) := by
  refine ⟨fun p h => ?_, fun o n h => ?_⟩
  · simp only [Flow.seq, List.mem_append]; exact Or.inr h
  · cases o <;> simp only [Flow.sel, Flow.seq, List.mem_append] at * <;> first | exact Or.inr h | exact h

theorem seq_left_req (A B : Flow) : Sub A.req (A.seq B).req := by
  intro p h; simp only [Flow.seq, List.mem_append]; exact Or.inl h

theorem seq_left_sel (A B : Flow) (o : Outcome) (ho : o ≠ .normal) (n : Nat) (h : n ∈ A.sel o) : n ∈ (A.seq B).sel o := by
  cases o <;> simp only [Flow.sel, Flow.seq, List.mem_append] at * <;> first | exact Or.inl h | exact h | exact absurd rfl ho

/-- Emitting a fixed list of nodes and completing normally. -/
theorem emit_good (E ns cur x) (ω : Oracle) (hx : x ∈ cur) (h : Sub (emit cur ns).1 E) :
    Good E { req := (emit cur ns).1, normal := (emit cur ns).2 } x (ns, .normal, ω) := by
  have := emit_sound E ns cur x hx h
  exact ⟨this.1, Or.inr this.2⟩

/-! ### The three statements proved together by induction on fuel -/

def StmtOk (E : List (Nat × Nat)) (f : Nat) : Prop :=
  ∀ (s : Stmt) (ω : Oracle) (x : Nat) (cur : List Nat), x ∈ cur → Sub (flowStmt s cur).req E →
    Good E (flowStmt s cur) x (walkStmt f s ω)

def BlockOk (E : List (Nat × Nat)) (f : Nat) : Prop :=
  ∀ (ss : List Stmt) (ω : Oracle) (x : Nat) (cur : List Nat), x ∈ cur → Sub (flowBlock ss cur).req E →
    Good E (flowBlock ss cur) x (walkBlock f ss ω)

/-- The summary of a loop with header `hdr`, iteration prefix `pre`. -/
def loopFlow (hdr : Nat) (pre : List Nat) (body orelse : List Stmt) : Flow :=
  let ep := emit [hdr] pre
  let Rb := flowBlock body ep.2
  let Ro := flowBlock orelse [hdr]
  { req := ep.1 ++ (Rb.req ++ (cross Rb.normal hdr ++ (cross Rb.cont hdr ++ Ro.req))),
    normal := Ro.normal ++ Rb.brk, brk := Ro.brk, cont := Ro.cont, ret := Rb.ret ++ Ro.ret,
    raise := Rb.raise ++ Ro.raise, exempt := Rb.exempt ++ Ro.exempt }

def LoopOk (E : List (Nat × Nat)) (f : Nat) : Prop :=
  ∀ (hdr : Nat) (pre : List Nat) (body orelse : List Stmt) (ω : Oracle) (x : Nat),
    (x, hdr) ∈ E → Sub (loopFlow hdr pre body orelse).req E →
    Good E (loopFlow hdr pre body orelse) x (walkLoop f hdr pre body orelse ω)

theorem good_fuel (E R x) (ω : Oracle) : Good E R x ([], .fuel, ω) := ⟨trivial, Or.inl rfl⟩

/-- Prefix a walk result with nodes already known to chain. -/
theorem good_prefix {E R x pre tr o} {ω : Oracle} (hpre : ChainFrom E x pre)
    (h : Good E R (endOf x pre) (tr, o, ω)) : Good E R x (pre ++ tr, o, ω) :=
  ⟨(chainFrom_append E x pre tr).mpr ⟨hpre, h.1⟩, by rw [endOf_append]; exact h.2⟩

theorem blockOk_succ (E f) (hS : StmtOk E f) (hB : BlockOk E f) : BlockOk E (f+1) := by
  intro ss ω x cur hx hreq
  cases ss with
  | nil => exact ⟨trivial, Or.inr hx⟩
  | cons s ss =>
    have hne : cur.isEmpty = false := by cases cur with
      | nil => cases hx
      | cons _ _ => rfl
    simp only [flowBlock, hne] at hreq ⊢
    simp only [walkBlock]
    have hreq1 : Sub (flowStmt s cur).req E := fun p hp => hreq p (seq_left_req _ _ p hp)
    have g1 := hS s ω x cur hx hreq1
    rcases hw : walkStmt f s ω with ⟨t1, o1, ω1⟩
    rw [hw] at g1
    have hreq2 : Sub (flowBlock ss (flowStmt s cur).normal).req E := sub_of_le (le_seq_right _ _) hreq
    cases o1 with
    | normal =>
      simp only
      rcases g1 with ⟨c1, h1⟩
      have hx1 : endOf x t1 ∈ (flowStmt s cur).normal := by
        rcases h1 with h1 | h1
        · cases h1
        · exact h1
      have g2 := hB ss ω1 (endOf x t1) _ hx1 hreq2
      rcases hw2 : walkBlock f ss ω1 with ⟨t2, o2, ω2⟩
      rw [hw2] at g2
      exact good_prefix c1 (g2.mono (le_seq_right _ _).2)
    | fuel => dsimp only; exact ⟨g1.1, Or.inl rfl⟩
    | brk => dsimp only; exact ⟨g1.1, g1.2.imp id (seq_left_sel _ _ _ (by simp) _)⟩
    | cont => dsimp only; exact ⟨g1.1, g1.2.imp id (seq_left_sel _ _ _ (by simp) _)⟩
    | ret => dsimp only; exact ⟨g1.1, g1.2.imp id (seq_left_sel _ _ _ (by simp) _)⟩
    | raise => dsimp only; exact ⟨g1.1, g1.2.imp id (seq_left_sel _ _ _ (by simp) _)⟩
    | exempt => dsimp only; exact ⟨g1.1, g1.2.imp id (seq_left_sel _ _ _ (by simp) _)⟩

theorem loopOk_succ (E f) (hB : BlockOk E f) (hL : LoopOk E f) : LoopOk E (f+1) := by
  intro hdr pre body orelse ω x hxh hreq
  simp only [loopFlow, sub_append] at hreq
  obtain ⟨hq_pre, hq_b, hq_n, hq_c, hq_o⟩ := hreq
  simp only [walkLoop]
  rcases hpop : ω.pop with ⟨d, ω0⟩
  dsimp only
  by_cases hd : d = 0
  · simp only [hd, if_true]
    have g := hB orelse ω0 hdr [hdr] (by simp) hq_o
    rcases hw : walkBlock f orelse ω0 with ⟨t, o, ω1⟩
    rw [hw] at g
    refine ⟨⟨hxh, g.1⟩, g.2.imp id ?_⟩
    intro h
    cases o <;> simp only [loopFlow, Flow.sel, List.mem_append, endOf] at * <;> first | exact Or.inl h | exact Or.inr h | exact h
  · simp only [hd, if_false]
    have hp := emit_sound E pre [hdr] hdr (by simp) hq_pre
    have g := hB body ω0 (endOf hdr pre) _ hp.2 hq_b
    rcases hw : walkBlock f body ω0 with ⟨t, o, ω1⟩
    rw [hw] at g
    obtain ⟨gc, go⟩ := g
    have hchain : ChainFrom E x (hdr :: (pre ++ t)) :=
      ⟨hxh, (chainFrom_append E hdr pre t).mpr ⟨hp.1, gc⟩⟩
    have hend : endOf x (hdr :: (pre ++ t)) = endOf (endOf hdr pre) t := by
      simp only [endOf, endOf_append]
    -- the two outcomes that go round the loop again
    have again : ∀ (hback : (endOf (endOf hdr pre) t, hdr) ∈ E),
        Good E (loopFlow hdr pre body orelse) x
          (hdr :: (pre ++ (t ++ (walkLoop f hdr pre body orelse ω1).1)),
            (walkLoop f hdr pre body orelse ω1).2.1, (walkLoop f hdr pre body orelse ω1).2.2) := by
      intro hback
      have g2 := hL hdr pre body orelse ω1 _ hback (by
        simp only [loopFlow, sub_append]; exact ⟨hq_pre, hq_b, hq_n, hq_c, hq_o⟩)
      refine ⟨⟨hxh, ?_⟩, ?_⟩
      · rw [← List.append_assoc]
        exact (chainFrom_append E hdr (pre ++ t) _).mpr
          ⟨(chainFrom_append E hdr pre t).mpr ⟨hp.1, gc⟩, by rw [endOf_append]; exact g2.1⟩
      · refine g2.2.imp id ?_
        intro h
        show endOf hdr (pre ++ (t ++ _)) ∈ _
        rw [← List.append_assoc, endOf_append, endOf_append]
        exact h
    cases o with
    | normal =>
      dsimp only
      rcases go with go | go
      · cases go
      · exact again (sub_cross hq_n go)
    | cont =>
      dsimp only
      rcases go with go | go
      · cases go
      · exact again (sub_cross hq_c go)
    | brk =>
      dsimp only
      refine ⟨hchain, Or.inr ?_⟩
      rcases go with go | go
      · cases go
      · rw [hend]; simp only [loopFlow, Flow.sel, List.mem_append]; exact Or.inr go
    | ret =>
      dsimp only
      refine ⟨hchain, go.imp id ?_⟩
      intro h; rw [hend]; simp only [loopFlow, Flow.sel, List.mem_append] at *; exact Or.inl h
    | raise =>
      dsimp only
      refine ⟨hchain, go.imp id ?_⟩
      intro h; rw [hend]; simp only [loopFlow, Flow.sel, List.mem_append] at *; exact Or.inl h
    | exempt =>
      dsimp only
      refine ⟨hchain, go.imp id ?_⟩
      intro h; rw [hend]; simp only [loopFlow, Flow.sel, List.mem_append] at *; exact Or.inl h
    | fuel => dsimp only; exact ⟨hchain, Or.inl rfl⟩

theorem good_seq_emit {E : List (Nat × Nat)} {cur ns : List Nat} {x : Nat} {R : Flow} {tr : List Nat} {o : Outcome}
    {ω : Oracle} (hx : x ∈ cur) (hq : Sub (emit cur ns).1 E) (h : Good E R (endOf x ns) (tr, o, ω)) :
    Good E (Flow.seq { req := (emit cur ns).1 } R) x (ns ++ tr, o, ω) :=
  good_prefix (emit_sound E ns cur x hx hq).1 (h.mono (le_seq_right _ _).2)

theorem cons_eq_snoc_append (a : List Nat) (n : Nat) (t : List Nat) : a ++ (n :: t) = (a ++ [n]) ++ t := by simp

/-- A statement that just emits `ns` and ends with outcome `o` recorded in component `o` of the flow. -/
theorem good_emit_only {E : List (Nat × Nat)} {cur ns : List Nat} {x : Nat} {R : Flow} {o : Outcome} {ω : Oracle}
    (hx : x ∈ cur) (hq : Sub (emit cur ns).1 E) (hsel : ∀ n, n ∈ (emit cur ns).2 → n ∈ R.sel o) :
    Good E R x (ns, o, ω) :=
  ⟨(emit_sound E ns cur x hx hq).1, Or.inr (hsel _ (emit_sound E ns cur x hx hq).2)⟩

/-- The k-th handler's summary is contained in `flowHandlers`. -/
theorem flowHandlers_get (hs : List Stmt) (rs : List Nat) (hrs : rs.isEmpty = false) :
    ∀ (k i : Nat) (ty : List Expr) (nm : List String) (hb : List Stmt), hs[k]? = some (.handler i ty nm hb) →
      (Flow.seq { req := (emit rs (lamsL ty)).1 } (flowBlock hb (emit rs (lamsL ty)).2)).le (flowHandlers hs rs) := by
  induction hs with
  | nil => intro k i ty nm hb h; simp at h
  | cons h0 hs ih =>
    intro k i ty nm hb h
    cases k with
    | zero =>
      simp only [List.getElem?_cons_zero, Option.some.injEq] at h
      subst h
      simp only [flowHandlers, hrs]
      exact le_alt_left _ _
    | succ k =>
      simp only [List.getElem?_cons_succ] at h
      have := ih k i ty nm hb h
      cases h0 <;> simp only [flowHandlers] <;> first | exact Flow.le_trans this (le_alt_right _ _) | exact this

theorem isEmpty_false_of_mem {x : Nat} {l : List Nat} (h : x ∈ l) : l.isEmpty = false := by
  cases l with
  | nil => cases h
  | cons _ _ => rfl

/-! ### `try` -/

def tryPre (body handlers orelse : List Stmt) (cur : List Nat) : Flow :=
  let R1 := flowBlock body cur
  let R2 := flowBlock orelse R1.normal
  let H := flowHandlers handlers R1.raise
  { req := R1.req ++ (R2.req ++ H.req)
    normal := R2.normal ++ H.normal
    brk := R1.brk ++ (R2.brk ++ H.brk)
    cont := R1.cont ++ (R2.cont ++ H.cont)
    ret := R1.ret ++ (R2.ret ++ H.ret)
    raise := R1.raise ++ (R2.raise ++ H.raise)
    exempt := R1.exempt ++ (R2.exempt ++ H.exempt) }

def tryFin (P : Flow) (final : List Stmt) : Flow :=
  if final.isEmpty then P
  else
    let Fn := (flowBlock final P.normal).resumeInto (fun l => { normal := l })
    let Fb := (flowBlock final P.brk).resumeInto (fun l => { brk := l })
    let Fc := (flowBlock final P.cont).resumeInto (fun l => { cont := l })
    let Fr := (flowBlock final P.ret).resumeInto (fun l => { ret := l })
    Flow.alt { req := P.req, exempt := P.raise ++ P.exempt } (Flow.alt Fn (Flow.alt Fb (Flow.alt Fc Fr)))

theorem flowStmt_try (i b h o fin cur) : flowStmt (.try_ i b h o fin) cur = tryFin (tryPre b h o cur) fin := by
  simp only [flowStmt, tryPre, tryFin]

def walkTryPre (f : Nat) (body handlers orelse : List Stmt) (ω : Oracle) : WalkRes :=
  let (t1, o1, ω) := walkBlock f body ω
  let (t2, o2, ω) := if o1 = .normal then walkBlock f orelse ω else ([], o1, ω)
  let (t3, o3, ω) :=
    if o1 = .raise && !handlers.isEmpty then
      let (k, ω) := ω.pop
      match handlers[k]? with
      | some (.handler _ ty _ hbody) =>
          let (t, o, ω) := walkBlock f hbody ω
          (lamsL ty ++ t, o, ω)
      | _ => ([], Outcome.raise, ω)
    else ([], o2, ω)
  (t1 ++ (t2 ++ t3), o3, ω)

def walkTryFin (f : Nat) (final : List Stmt) (r : WalkRes) : WalkRes :=
  if final.isEmpty then r
  else match r.2.1 with
    | .raise => (r.1, .exempt, r.2.2)
    | .exempt => (r.1, .exempt, r.2.2)
    | .fuel => (r.1, .fuel, r.2.2)
    | o =>
        let (t4, o4, ω) := walkBlock f final r.2.2
        (r.1 ++ t4, resume o o4, ω)

theorem walkStmt_try (f i b h o fin ω) :
    walkStmt (f+1) (.try_ i b h o fin) ω = walkTryFin f fin (walkTryPre f b h o ω) := by
  rfl

theorem tryPre_good (E f) (hB : BlockOk E f) (body handlers orelse : List Stmt) (ω : Oracle) (x : Nat) (cur : List Nat)
    (hx : x ∈ cur) (hreq : Sub (tryPre body handlers orelse cur).req E) :
    Good E (tryPre body handlers orelse cur) x (walkTryPre f body handlers orelse ω) := by
  simp only [tryPre, sub_append] at hreq
  obtain ⟨hq1, hq2, hqh⟩ := hreq
  have g1 := hB body ω x cur hx hq1
  simp only [walkTryPre]
  rcases hw : walkBlock f body ω with ⟨t1, o1, ω1⟩
  rw [hw] at g1
  obtain ⟨c1, e1⟩ := g1
  -- outcomes of the body that neither continue into `else` nor can be caught
  have pass : ∀ o, o ≠ Outcome.normal → o ≠ Outcome.raise → (o = .fuel ∨ endOf x t1 ∈ (flowBlock body cur).sel o) →
      Good E (tryPre body handlers orelse cur) x (t1 ++ ([] ++ []), o, ω1) := by
    intro o hn hr h
    refine ⟨by simpa using c1, h.imp id ?_⟩
    clear h
    intro hm
    simp only [List.append_nil]
    cases o <;> simp only [tryPre, Flow.sel, List.mem_append] at * <;> first | exact Or.inl hm | exact hm | exact absurd rfl hn | exact absurd rfl hr
  cases o1 with
  | normal =>
    have hx1 : endOf x t1 ∈ (flowBlock body cur).normal := by
      rcases e1 with e1 | e1
      · cases e1
      · exact e1
    have g2 := hB orelse ω1 _ _ hx1 hq2
    simp only [if_true]
    rcases hw2 : walkBlock f orelse ω1 with ⟨t2, o2, ω2⟩
    rw [hw2] at g2
    simp only [Bool.false_and, if_false, decide_false, Bool.false_eq_true, reduceCtorEq]
    refine ⟨?_, ?_⟩
    · simp only [List.append_nil]
      exact (chainFrom_append E x t1 t2).mpr ⟨c1, g2.1⟩
    · refine g2.2.imp id ?_
      intro h
      simp only [List.append_nil, endOf_append]
      cases o2 <;> simp only [tryPre, Flow.sel, List.mem_append] at * <;> first | exact Or.inl h | exact Or.inr (Or.inl h) | exact h
  | raise =>
    have hx1 : endOf x t1 ∈ (flowBlock body cur).raise := by
      rcases e1 with e1 | e1
      · cases e1
      · exact e1
    simp only [reduceCtorEq, if_false, decide_true, Bool.true_and]
    have uncaught : Good E (tryPre body handlers orelse cur) x (t1 ++ ([] ++ []), Outcome.raise, ω1) := by
      refine ⟨by simpa using c1, Or.inr ?_⟩
      simp only [List.append_nil, tryPre, Flow.sel, List.mem_append]
      exact Or.inl hx1
    by_cases hh : handlers.isEmpty = true
    · simp only [hh, Bool.not_true, Bool.false_eq_true, if_false]
      exact uncaught
    · simp only [hh, Bool.not_false, if_true]
      rcases hpop : ω1.pop with ⟨k, ω2⟩
      dsimp only
      rcases hk : handlers[k]? with _ | h0
      · exact ⟨uncaught.1, uncaught.2⟩
      · cases h0 with
        | handler hi ty nm hb =>
          dsimp only
          have hle := flowHandlers_get handlers _ (isEmpty_false_of_mem hx1) k hi ty nm hb hk
          have hqe : Sub (emit (flowBlock body cur).raise (lamsL ty)).1 E := by
            intro p hp
            exact hqh p (hle.1 p (seq_left_req _ _ p hp))
          have hem := emit_sound E (lamsL ty) _ _ hx1 hqe
          have hqb : Sub (flowBlock hb (emit (flowBlock body cur).raise (lamsL ty)).2).req E :=
            sub_of_le (Flow.le_trans (le_seq_right _ _) hle) hqh
          have g3 := hB hb ω2 _ _ hem.2 hqb
          rcases hw3 : walkBlock f hb ω2 with ⟨t3, o3, ω3⟩
          rw [hw3] at g3
          refine ⟨?_, ?_⟩
          · simp only [List.nil_append]
            exact (chainFrom_append E x t1 _).mpr ⟨c1, (chainFrom_append E _ _ _).mpr ⟨hem.1, g3.1⟩⟩
          · refine g3.2.imp id ?_
            intro h
            simp only [List.nil_append, endOf_append]
            have h' := hle.2 o3 _ ((le_seq_right _ _).2 o3 _ h)
            cases o3 <;> simp only [tryPre, Flow.sel, List.mem_append] at * <;> first | exact Or.inr (Or.inr h') | exact Or.inr h' | exact h'
        | _ => exact ⟨uncaught.1, uncaught.2⟩
  | brk => simpa using pass .brk (by simp) (by simp) e1
  | cont => simpa using pass .cont (by simp) (by simp) e1
  | ret => simpa using pass .ret (by simp) (by simp) e1
  | exempt => simpa using pass .exempt (by simp) (by simp) e1
  | fuel => simpa using pass .fuel (by simp) (by simp) (Or.inl rfl)

/-- Running the `finally` body with a pending outcome `o`. -/
theorem resume_good (E f) (hB : BlockOk E f) (final : List Stmt) (S : List Nat) (put : List Nat → Flow) (o : Outcome)
    (hput : ∀ l n, n ∈ l → n ∈ (put l).sel o) (x : Nat) (pre : List Nat) (ω : Oracle)
    (hc : ChainFrom E x pre) (hend : endOf x pre ∈ S) (hq : Sub (flowBlock final S).req E) :
    Good E ((flowBlock final S).resumeInto put) x
      (pre ++ (walkBlock f final ω).1, resume o (walkBlock f final ω).2.1, (walkBlock f final ω).2.2) := by
  have g := hB final ω _ S hend hq
  rcases hw : walkBlock f final ω with ⟨t4, o4, ω4⟩
  rw [hw] at g
  refine ⟨(chainFrom_append E x pre t4).mpr ⟨hc, g.1⟩, ?_⟩
  dsimp only
  rw [endOf_append]
  rcases g.2 with g2 | g2
  · dsimp only at g2; subst g2; exact Or.inl rfl
  · dsimp only at g2
    by_cases h4 : o4 = .normal
    · subst h4
      refine Or.inr ?_
      have : resume o Outcome.normal = o := by simp [resume]
      rw [this]
      exact (le_alt_left _ _).2 o _ (hput _ _ g2)
    · have : resume o o4 = o4 := by simp [resume, h4]
      rw [this]
      refine Or.inr ((le_alt_right _ _).2 o4 _ ?_)
      cases o4 <;> first | exact absurd rfl h4 | (simp only [Flow.sel] at g2 ⊢; exact g2)

theorem resumeInto_req (F : Flow) (put : List Nat → Flow) (hput : ∀ l, (put l).req = []) :
    Sub F.req (F.resumeInto put).req ∧ Sub (F.resumeInto put).req F.req := by
  constructor
  · intro p hp; simp only [Flow.resumeInto, Flow.alt, List.mem_append]; exact Or.inr hp
  · intro p hp
    simp only [Flow.resumeInto, Flow.alt, List.mem_append, hput] at hp
    rcases hp with hp | hp
    · cases hp
    · exact hp

theorem alt5_le (A0 A1 A2 A3 A4 : Flow) :
    A0.le (A0.alt (A1.alt (A2.alt (A3.alt A4)))) ∧ A1.le (A0.alt (A1.alt (A2.alt (A3.alt A4)))) ∧
    A2.le (A0.alt (A1.alt (A2.alt (A3.alt A4)))) ∧ A3.le (A0.alt (A1.alt (A2.alt (A3.alt A4)))) ∧
    A4.le (A0.alt (A1.alt (A2.alt (A3.alt A4)))) :=
  ⟨le_alt_left _ _,
   Flow.le_trans (le_alt_left _ _) (le_alt_right _ _),
   Flow.le_trans (Flow.le_trans (le_alt_left _ _) (le_alt_right _ _)) (le_alt_right _ _),
   Flow.le_trans (Flow.le_trans (Flow.le_trans (le_alt_left _ _) (le_alt_right _ _)) (le_alt_right _ _)) (le_alt_right _ _),
   Flow.le_trans (Flow.le_trans (Flow.le_trans (le_alt_right _ _) (le_alt_right _ _)) (le_alt_right _ _)) (le_alt_right _ _)⟩

theorem tryFin_good (E f) (hB : BlockOk E f) (P : Flow) (final : List Stmt) (x : Nat) (r : WalkRes)
    (hg : Good E P x r) (hreq : Sub (tryFin P final).req E) : Good E (tryFin P final) x (walkTryFin f final r) := by
  rcases r with ⟨pre, o3, ω⟩
  obtain ⟨hc, ho⟩ := hg
  dsimp only at hc ho
  by_cases hf : final.isEmpty = true
  · simp only [tryFin, walkTryFin, hf, if_true]; exact ⟨hc, ho⟩
  · have hf' : final.isEmpty = false := by simpa using hf
    simp only [tryFin, hf', Bool.false_eq_true, if_false] at hreq
    simp only [tryFin, walkTryFin, hf', if_false, Bool.false_eq_true]
    obtain ⟨leX, leN, leB, leC, leR⟩ := alt5_le { req := P.req, exempt := P.raise ++ P.exempt }
      ((flowBlock final P.normal).resumeInto (fun l => { normal := l }))
      ((flowBlock final P.brk).resumeInto (fun l => { brk := l }))
      ((flowBlock final P.cont).resumeInto (fun l => { cont := l }))
      ((flowBlock final P.ret).resumeInto (fun l => { ret := l }))
    cases o3 with
    | raise =>
      dsimp only
      refine ⟨hc, Or.inr (leX.2 .exempt _ ?_)⟩
      rcases ho with ho | ho
      · cases ho
      · simp only [Flow.sel, List.mem_append] at *; exact Or.inl ho
    | exempt =>
      dsimp only
      refine ⟨hc, Or.inr (leX.2 .exempt _ ?_)⟩
      rcases ho with ho | ho
      · cases ho
      · simp only [Flow.sel, List.mem_append] at *; exact Or.inr ho
    | fuel => dsimp only; exact ⟨hc, Or.inl rfl⟩
    | normal =>
      dsimp only
      rcases ho with ho | ho
      · cases ho
      · have hq : Sub (flowBlock final P.normal).req E :=
          fun p hp => hreq p (leN.1 p ((resumeInto_req _ _ (fun _ => rfl)).1 p hp))
        exact (resume_good E f hB final P.normal (fun l => { normal := l }) .normal (fun l n h => h) x pre ω hc ho hq).mono leN.2
    | brk =>
      dsimp only
      rcases ho with ho | ho
      · cases ho
      · have hq : Sub (flowBlock final P.brk).req E :=
          fun p hp => hreq p (leB.1 p ((resumeInto_req _ _ (fun _ => rfl)).1 p hp))
        exact (resume_good E f hB final P.brk (fun l => { brk := l }) .brk (fun l n h => h) x pre ω hc ho hq).mono leB.2
    | cont =>
      dsimp only
      rcases ho with ho | ho
      · cases ho
      · have hq : Sub (flowBlock final P.cont).req E :=
          fun p hp => hreq p (leC.1 p ((resumeInto_req _ _ (fun _ => rfl)).1 p hp))
        exact (resume_good E f hB final P.cont (fun l => { cont := l }) .cont (fun l n h => h) x pre ω hc ho hq).mono leC.2
    | ret =>
      dsimp only
      rcases ho with ho | ho
      · cases ho
      · have hq : Sub (flowBlock final P.ret).req E :=
          fun p hp => hreq p (leR.1 p ((resumeInto_req _ _ (fun _ => rfl)).1 p hp))
        exact (resume_good E f hB final P.ret (fun l => { ret := l }) .ret (fun l n h => h) x pre ω hc ho hq).mono leR.2

/-! ### Statements -/

theorem loop_stmt_good (E f) (hL : LoopOk E f) (hdr : Nat) (pre0 pre : List Nat) (body orelse : List Stmt) (ω : Oracle)
    (x : Nat) (cur : List Nat) (hx : x ∈ cur)
    (hreq : Sub (Flow.seq { req := (emit cur pre0).1 ++ cross (emit cur pre0).2 hdr } (loopFlow hdr pre body orelse)).req E) :
    Good E (Flow.seq { req := (emit cur pre0).1 ++ cross (emit cur pre0).2 hdr } (loopFlow hdr pre body orelse)) x
      (pre0 ++ (walkLoop f hdr pre body orelse ω).1, (walkLoop f hdr pre body orelse ω).2.1,
        (walkLoop f hdr pre body orelse ω).2.2) := by
  simp only [Flow.seq, sub_append] at hreq
  obtain ⟨⟨hq0, hqx⟩, hql⟩ := hreq
  have he := emit_sound E pre0 cur x hx hq0
  have g := hL hdr pre body orelse ω _ (sub_cross hqx he.2) hql
  exact good_prefix he.1 (g.mono (le_seq_right _ _).2)

theorem stmtOk_succ (E f) (hB : BlockOk E f) (hL : LoopOk E f) : StmtOk E (f+1) := by
  intro s ω x cur hx hreq
  cases s with
  | if_ i test body orelse =>
    simp only [flowStmt] at hreq ⊢
    simp only [walkStmt]
    rcases hpop : ω.pop with ⟨d, ω0⟩
    dsimp only
    have hq0 : Sub (emit cur (test.kidLams ++ [test.id])).1 E := fun p hp => hreq p (seq_left_req _ _ p hp)
    have hqr := sub_of_le (le_seq_right { req := (emit cur (test.kidLams ++ [test.id])).1 } _) hreq
    have he := emit_sound E _ cur x hx hq0
    by_cases hd : d = 0
    · simp only [hd, ne_eq, not_true_eq_false, if_false]
      have g := hB orelse ω0 _ _ he.2 (sub_of_le (le_alt_right _ _) hqr)
      rcases hw : walkBlock f orelse ω0 with ⟨t, o, ω1⟩
      rw [hw] at g
      have e : test.kidLams ++ test.id :: t = (test.kidLams ++ [test.id]) ++ t := by simp
      show Good E _ x (test.kidLams ++ test.id :: t, o, ω1)
      rw [e]
      exact good_seq_emit (ns := test.kidLams ++ [test.id]) hx hq0 (g.mono (le_alt_right _ _).2)
    · simp only [hd, ne_eq, not_false_eq_true, if_true]
      have g := hB body ω0 _ _ he.2 (sub_of_le (le_alt_left _ _) hqr)
      rcases hw : walkBlock f body ω0 with ⟨t, o, ω1⟩
      rw [hw] at g
      have e : test.kidLams ++ test.id :: t = (test.kidLams ++ [test.id]) ++ t := by simp
      show Good E _ x (test.kidLams ++ test.id :: t, o, ω1)
      rw [e]
      exact good_seq_emit (ns := test.kidLams ++ [test.id]) hx hq0 (g.mono (le_alt_left _ _).2)
  | while_ i test body orelse =>
    have := loop_stmt_good E f hL test.id test.kidLams [] body orelse ω x cur hx (by simpa only [flowStmt, loopFlow] using hreq)
    simpa only [flowStmt, loopFlow, walkStmt] using this
  | for_ i target iter body orelse extra isAsync =>
    cases isAsync with
    | true => simp only [walkStmt, flowStmt]; exact ⟨trivial, Or.inr hx⟩
    | false =>
      cases extra with
      | nil =>
        have := loop_stmt_good E f hL iter.id iter.kidLams [] body orelse ω x cur hx (by simpa only [flowStmt, loopFlow] using hreq)
        simpa only [flowStmt, loopFlow, walkStmt] using this
      | cons ex exs =>
        have := loop_stmt_good E f hL iter.id iter.kidLams (ex.kidLams ++ [ex.id]) body orelse ω x cur hx (by simpa only [flowStmt, loopFlow] using hreq)
        simpa only [flowStmt, loopFlow, walkStmt] using this
  | with_ i items body isAsync =>
    cases isAsync with
    | true => simp only [walkStmt, flowStmt]; exact ⟨trivial, Or.inr hx⟩
    | false =>
      simp only [flowStmt] at hreq ⊢
      simp only [walkStmt]
      have hq0 : Sub (emit cur (withItemNodes items)).1 E := fun p hp => hreq p (seq_left_req _ _ p hp)
      have he := emit_sound E _ cur x hx hq0
      have g := hB body ω _ _ he.2 (sub_of_le (le_seq_right _ _) hreq)
      rcases hw : walkBlock f body ω with ⟨t, o, ω1⟩
      rw [hw] at g
      exact good_seq_emit hx hq0 g
  | try_ i body handlers orelse final =>
    rw [flowStmt_try] at hreq ⊢
    rw [walkStmt_try]
    refine tryFin_good E f hB _ final x _ (tryPre_good E f hB body handlers orelse ω x cur hx ?_) hreq
    -- the requirements of the protected part are among those of the whole statement
    intro p hp
    refine hreq p ?_
    by_cases hf : final.isEmpty = true
    · simp only [tryFin, hf, if_true]; exact hp
    · have hf' : final.isEmpty = false := by simpa using hf
      simp only [tryFin, hf', Bool.false_eq_true, if_false]
      exact (le_alt_left _ _).1 p hp
  | ret i v =>
    simp only [walkStmt, flowStmt] at hreq ⊢
    exact good_emit_only hx hreq (fun n h => h)
  | raise i e c =>
    simp only [walkStmt, flowStmt] at hreq ⊢
    exact good_emit_only hx hreq (fun n h => h)
  | break_ i =>
    simp only [walkStmt, flowStmt] at hreq ⊢
    exact good_emit_only hx hreq (fun n h => h)
  | continue_ i =>
    simp only [walkStmt, flowStmt] at hreq ⊢
    exact good_emit_only hx hreq (fun n h => h)
  | functionDef i name args body decs rets isAsync =>
    cases isAsync with
    | true => simp only [walkStmt, flowStmt]; exact ⟨trivial, Or.inr hx⟩
    | false =>
      simp only [walkStmt, flowStmt] at hreq ⊢
      exact good_emit_only hx hreq (fun n h => h)
  | classDef i name bases kws body decs =>
    simp only [walkStmt, flowStmt] at hreq ⊢
    exact good_emit_only hx hreq (fun n h => h)
  | handler i ty nm body => simp only [walkStmt, flowStmt]; exact ⟨trivial, Or.inr hx⟩
  | other i k es bs => simp only [walkStmt, flowStmt]; exact ⟨trivial, Or.inr hx⟩
  | delete i ts => simp only [walkStmt, flowStmt] at hreq ⊢; exact good_emit_only hx hreq (fun n h => h)
  | assign i ts v => simp only [walkStmt, flowStmt] at hreq ⊢; exact good_emit_only hx hreq (fun n h => h)
  | augAssign i t op v => simp only [walkStmt, flowStmt] at hreq ⊢; exact good_emit_only hx hreq (fun n h => h)
  | annAssign i t an v sm => simp only [walkStmt, flowStmt] at hreq ⊢; exact good_emit_only hx hreq (fun n h => h)
  | assert_ i t m => simp only [walkStmt, flowStmt] at hreq ⊢; exact good_emit_only hx hreq (fun n h => h)
  | import_ i ns => simp only [walkStmt, flowStmt] at hreq ⊢; exact good_emit_only hx hreq (fun n h => h)
  | importFrom i m ns lv => simp only [walkStmt, flowStmt] at hreq ⊢; exact good_emit_only hx hreq (fun n h => h)
  | global i ns => simp only [walkStmt, flowStmt] at hreq ⊢; exact good_emit_only hx hreq (fun n h => h)
  | nonlocal i ns => simp only [walkStmt, flowStmt] at hreq ⊢; exact good_emit_only hx hreq (fun n h => h)
  | expr i v => simp only [walkStmt, flowStmt] at hreq ⊢; exact good_emit_only hx hreq (fun n h => h)
  | pass i => simp only [walkStmt, flowStmt] at hreq ⊢; exact good_emit_only hx hreq (fun n h => h)

/-- **Soundness of the flow summary**: for every fuel. -/
theorem walk_sound (E : List (Nat × Nat)) : ∀ f, StmtOk E f ∧ BlockOk E f ∧ LoopOk E f := by
  intro f
  induction f with
  | zero =>
    refine ⟨?_, ?_, ?_⟩
    · intro s ω x cur _ _; exact good_fuel E _ x ω
    · intro ss ω x cur _ _; exact good_fuel E _ x ω
    · intro hdr pre body orelse ω x _ _; exact good_fuel E _ x ω
  | succ f ih =>
    exact ⟨stmtOk_succ E f ih.2.1 ih.2.2, blockOk_succ E f ih.1 ih.2.1, loopOk_succ E f ih.2.1 ih.2.2⟩

/-! ### `pathCheck` -/

/-- The result of a walk is a path of `g`: it starts at the entry, consecutive nodes are edges, and a completed walk
ends in an exit or error node. -/
def IsPath (g : Graph) (res : WalkRes) : Prop :=
  match res.1 with
  | [] => False
  | x :: r => g.entry = some x ∧ ChainFrom g.edges x r ∧
      (res.2.1.completed = true → endOf x r ∈ g.exits ∨ endOf x r ∈ g.errors)

theorem sub_of_all {l E : List (Nat × Nat)} (h : l.all (fun e => E.contains e) = true) : Sub l E := by
  intro p hp
  have := List.all_eq_true.mp h p hp
  simpa using this

theorem pathCheck_sound (i : Nat) (name : String) (args : Expr) (body : List Stmt) (decs rets : List Expr)
    (isAsync : Bool) (g : Graph)
    (h : pathCheck (.functionDef i name args body decs rets isAsync) g = true) (fuel : Nat) (ω : Oracle) :
    IsPath g (walkFn fuel (.functionDef i name args body decs rets isAsync) ω) := by
  simp only [pathCheck, Bool.and_eq_true, beq_iff_eq] at h
  obtain ⟨⟨hentry, hreq⟩, hfin⟩ := h
  have hreq := sub_of_all hreq
  simp only [flowFn] at hreq hfin
  simp only [entryNodes] at hentry
  -- the first node and the rest of the entry sequence
  obtain ⟨n0, rest0, hns⟩ : ∃ n0 rest0, args.kidLams ++ [args.id] = n0 :: rest0 := by
    cases args.kidLams with
    | nil => exact ⟨_, _, rfl⟩
    | cons a r => exact ⟨a, r ++ [args.id], rfl⟩
  rw [hns] at hreq hfin hentry
  have hq0 : Sub (emit [n0] rest0).1 g.edges := by
    intro p hp
    refine hreq p ?_
    simp only [Flow.seq, emit, cross, List.map_nil, List.nil_append, List.mem_append]
    exact Or.inl hp
  have he := emit_sound g.edges rest0 [n0] n0 (by simp) hq0
  have hqb : Sub (flowBlock body (emit [n0] rest0).2).req g.edges := by
    intro p hp
    refine hreq p ?_
    simp only [Flow.seq, emit, List.mem_append]
    exact Or.inr hp
  have gb := (walk_sound g.edges fuel).2.1 body ω _ _ he.2 hqb
  simp only [walkFn]
  rcases hw : walkBlock fuel body ω with ⟨t, o, ω1⟩
  rw [hw] at gb
  have htr : args.kidLams ++ args.id :: t = n0 :: (rest0 ++ t) := by
    have : args.kidLams ++ args.id :: t = (args.kidLams ++ [args.id]) ++ t := by simp
    rw [this, hns]; rfl
  show IsPath g (args.kidLams ++ args.id :: t, o, ω1)
  rw [htr]
  refine ⟨?_, (chainFrom_append _ _ _ _).mpr ⟨he.1, gb.1⟩, ?_⟩
  · simpa using hentry
  · intro hc
    dsimp only at hc
    rw [endOf_append]
    have hmem : endOf (endOf n0 rest0) t ∈ (Flow.seq { req := (emit [] (n0 :: rest0)).1 } (flowBlock body (emit [] (n0 :: rest0)).2)).finals := by
      have hsel : endOf (endOf n0 rest0) t ∈ (flowBlock body (emit [n0] rest0).2).sel o := by
        rcases gb.2 with h | h
        · dsimp only at h; subst h; cases hc
        · exact h
      simp only [Flow.finals, Flow.seq, emit, List.mem_append]
      cases o <;> first | (exfalso; simp [Outcome.completed] at hc; done) | (simp only [Flow.sel] at hsel; simp [hsel])
    have := List.all_eq_true.mp hfin _ hmem
    simpa using this

/-! ### `wellFormed` -/

inductive Reach (E : List (Nat × Nat)) : Nat → Nat → Prop
  | refl (a : Nat) : Reach E a a
  | step {a b c : Nat} : Reach E a b → (b, c) ∈ E → Reach E a c

/-- `n` is reachable from a root (the entry or the start of a dead-code region). -/
def Rooted (g : Graph) (n : Nat) : Prop := ∃ r, r ∈ g.roots ∧ Reach g.edges r n

structure WellFormed (g : Graph) : Prop where
  nodup : g.nodes.Nodup
  entry : ∃ e, g.entry = some e ∧ e ∈ g.nodes ∧ e ∈ g.roots
  noEntryPred : ∀ a e, g.entry = some e → (a, e) ∉ g.edges
  edges : ∀ a b, (a, b) ∈ g.edges → a ∈ g.nodes ∧ b ∈ g.nodes
  exits : ∀ x, x ∈ g.exits → x ∈ g.nodes
  errors : ∀ x, x ∈ g.errors → x ∈ g.nodes
  roots : ∀ x, x ∈ g.roots → x ∈ g.nodes
  rooted : ∀ n, n ∈ g.nodes → Rooted g n

theorem nodupB_sound : ∀ l : List Nat, nodupB l = true → l.Nodup := by
  intro l
  induction l with
  | nil => intro _; exact List.nodup_nil
  | cons x xs ih =>
    intro h
    simp only [nodupB, Bool.and_eq_true, Bool.not_eq_true', List.contains_eq_mem, decide_eq_false_iff_not] at h
    exact List.nodup_cons.mpr ⟨h.1, ih h.2⟩

theorem expand_sound (E : List (Nat × Nat)) (P : Nat → Prop) (hstep : ∀ a b, (a, b) ∈ E → P a → P b) :
    ∀ (l : List (Nat × Nat)), (∀ e, e ∈ l → e ∈ E) → ∀ seen : List Nat, (∀ n, n ∈ seen → P n) →
      ∀ n, n ∈ l.foldl (fun acc e => if acc.contains e.1 && !acc.contains e.2 then acc ++ [e.2] else acc) seen → P n := by
  intro l
  induction l with
  | nil => intro _ seen hs n hn; exact hs n hn
  | cons e l ih =>
    intro hl seen hs n hn
    simp only [List.foldl_cons] at hn
    refine ih (fun e' he' => hl e' (List.mem_cons_of_mem _ he')) _ ?_ n hn
    intro m hm
    by_cases hc : (seen.contains e.1 && !seen.contains e.2) = true
    · simp only [hc, if_true, List.mem_append, List.mem_singleton] at hm
      rcases hm with hm | hm
      · exact hs m hm
      · subst hm
        simp only [Bool.and_eq_true, List.contains_eq_mem, decide_eq_true_eq] at hc
        exact hstep e.1 e.2 (hl e (List.mem_cons_self ..)) (hs _ hc.1)
    · simp only [hc, if_false, Bool.false_eq_true] at hm
      exact hs m hm

theorem closure_sound (E : List (Nat × Nat)) (P : Nat → Prop) (hstep : ∀ a b, (a, b) ∈ E → P a → P b) :
    ∀ (k : Nat) (seen : List Nat), (∀ n, n ∈ seen → P n) → ∀ n, n ∈ closure E k seen → P n := by
  intro k
  induction k with
  | zero => intro seen hs n hn; exact hs n hn
  | succ k ih =>
    intro seen hs n hn
    exact ih _ (expand_sound E P hstep E (fun _ h => h) seen hs) n hn

theorem wellFormed_sound (g : Graph) (h : wellFormed g = true) : WellFormed g := by
  simp only [wellFormed, Bool.and_eq_true] at h
  obtain ⟨⟨⟨⟨⟨⟨hnd, hentry⟩, hedges⟩, hexits⟩, herrors⟩, hroots⟩, hreach⟩ := h
  have mem_of_all : ∀ (l : List Nat), l.all (fun x => g.nodes.contains x) = true → ∀ x, x ∈ l → x ∈ g.nodes := by
    intro l hl x hx
    have := List.all_eq_true.mp hl x hx
    simpa using this
  refine ⟨nodupB_sound _ hnd, ?_, ?_, ?_, mem_of_all _ hexits, mem_of_all _ herrors, mem_of_all _ hroots, ?_⟩
  · cases he : g.entry with
    | none => simp [he] at hentry
    | some e =>
      simp only [he, Bool.and_eq_true, List.contains_eq_mem, decide_eq_true_eq] at hentry
      exact ⟨e, rfl, hentry.1.1, hentry.1.2⟩
  · intro a e he hae
    simp only [he, Bool.and_eq_true] at hentry
    have := List.all_eq_true.mp hentry.2 (a, e) hae
    simp at this
  · intro a b hab
    have := List.all_eq_true.mp hedges (a, b) hab
    simpa using this
  · intro n hn
    have hn' := List.all_eq_true.mp hreach n hn
    simp only [List.contains_eq_mem, decide_eq_true_eq] at hn'
    refine closure_sound g.edges (Rooted g) ?_ _ g.roots ?_ n hn'
    · rintro a b hab ⟨r, hr, hra⟩
      exact ⟨r, hr, Reach.step hra hab⟩
    · intro r hr
      exact ⟨r, hr, Reach.refl r⟩

end Malt.Cfg
