import MaltModel.Proofs.C12Stack
/-!
Evaluating the hypotheses and the conclusion of `C12_stack_partial` on a *recorded* run:
the harness hands over, per `converted_call` level (outermost first), the generated file, the part of
the source map the traceback touches, the traceback that level saw, and the frame of the unconverted
run that executes the same statement.  `decompose` recovers the `ConvLevel`s (pre / site / post).
-/
namespace Malt.Errors

structure RawLevel where
  genFile : String
  map : SourceMap
  tb : List Frame
  orig : Frame

/-- Split a level's own part of the traceback at its innermost mapped frame: (pre, site, origin, post). -/
def splitSite (m : SourceMap) : List Frame → Option (List Frame × Frame × Origin × List Frame)
  | [] => none
  | f :: rest =>
    match splitSite m rest with
    | some (pre, s, o, post) => some (f :: pre, s, o, post)      -- a mapped frame further in wins
    | none =>
      match get m ⟨f.file, f.line⟩ with
      | some o => some ([], f, o, rest)
      | none => none

def decompose : List RawLevel → Option (List ConvLevel × List Frame)
  | [] => none
  | [r] =>
    match splitSite r.map r.tb with
    | some (pre, s, o, post) =>
      some ([{ genFile := r.genFile, map := r.map, pre := pre, site := s, post := [], siteOrigin := o, orig := r.orig, outer := [] }], post)
    | none => none
  | r :: r' :: rs =>
    match decompose (r' :: rs) with
    | none => none
    | some (ls, T) =>
      -- this level's own frames: its traceback minus the inner level's
      match splitSite r.map (r.tb.take (r.tb.length - r'.tb.length)) with
      | some (pre, s, o, post) =>
        some ({ genFile := r.genFile, map := r.map, pre := pre, site := s, post := post, siteOrigin := o, orig := r.orig, outer := [] } :: ls, T)
      | none => none

/-- `SiteResolved` without the function name. -/
def SiteLine (U : String) (l : ConvLevel) : Prop :=
  l.orig.file = U ∧ l.siteOrigin.file = l.orig.file ∧ l.siteOrigin.line = l.orig.line

instance (U : String) (l : ConvLevel) : Decidable (SiteLine U l) := by unfold SiteLine; infer_instance

/-- The conclusion of the stack theorem, evaluated on a translated stack `st` and the user frames `U0`
(outermost first) of the unconverted run's traceback. -/
def conclusionHolds (U : String) (L : List ConvLevel) (st : List FrameInfo) (U0 : List Loc3) : Bool :=
  let locs := (st.map FrameInfo.loc).filter (fun p => decide (p.1 = U))
  decide (((st.filter (·.converted)).map FrameInfo.loc) = L.reverse.map (fun l => l.orig.loc))
    && locs.reverse.isSublist U0
    && decide (locs.head? = U0.getLast?)

theorem splitSite_mapped {m : SourceMap} {tb pre post : List Frame} {s : Frame} {o : Origin}
    (h : splitSite m tb = some (pre, s, o, post)) : get m ⟨s.file, s.line⟩ = some o := by
  induction tb generalizing pre with
  | nil => simp [splitSite] at h
  | cons f rest ih =>
    simp only [splitSite] at h
    split at h
    · rename_i pre' s' o' post' heq
      simp only [Option.some.injEq, Prod.mk.injEq] at h
      obtain ⟨_, rfl, rfl, rfl⟩ := h
      exact ih heq
    · split at h
      · rename_i o' hg
        simp only [Option.some.injEq, Prod.mk.injEq] at h
        obtain ⟨_, rfl, rfl, _⟩ := h
        exact hg
      · cases h

theorem decompose_siteMapped : ∀ (raw : List RawLevel) (L : List ConvLevel) (T : List Frame),
    decompose raw = some (L, T) → ∀ l ∈ L, SiteMapped l
  | [], _, _, h => by simp [decompose] at h
  | [r], L, T, h => by
    simp only [decompose] at h
    split at h
    · rename_i pre s o post heq
      simp only [Option.some.injEq, Prod.mk.injEq] at h
      obtain ⟨rfl, _⟩ := h
      intro l hl
      simp only [List.mem_singleton] at hl
      subst hl
      exact splitSite_mapped heq
    · cases h
  | r :: r' :: rs, L, T, h => by
    simp only [decompose] at h
    split at h
    · cases h
    · rename_i ls T' hrec
      split at h
      · rename_i pre s o post heq
        simp only [Option.some.injEq, Prod.mk.injEq] at h
        obtain ⟨rfl, _⟩ := h
        intro l hl
        rcases List.mem_cons.mp hl with rfl | hl
        · exact splitSite_mapped heq
        · exact decompose_siteMapped (r' :: rs) ls T' hrec l hl
      · cases h

/-- The hypotheses of `C12_stack_partial` as one decidable test on a decomposed recorded run. -/
def stackHypsB (api U : String) (L : List ConvLevel) (T : List Frame) : Bool :=
  decide (∀ l ∈ L, KeysInGen l) && decide (BelowForeign L T) && decide (∀ l ∈ L, SiteResolved U l)
    && decide (api ≠ U) && decide (∀ f ∈ (lastBelow L T).take ((lastBelow L T).length - T.length), f.file ≠ U)

/-- The class predicates of the stack findings, as evaluated by the driver on the recorded levels
(innermost first; `genFiles` = file of each level's conversion). -/
def reentered (genFiles : List String) : Bool := !(genFiles.eraseDups.length == genFiles.length)

/-- Some frame of the traceback lying outside the level's generated file is a key of the level's map. -/
def foreignKeyHit (genFile : String) (lv : Level) : Bool :=
  lv.tb.any fun f => decide (f.file ≠ genFile) && (get lv.map ⟨f.file, f.line⟩).isSome

/-- The innermost mapped frame of the level is a lambda's. -/
def siteInLambda (lv : Level) : Bool :=
  match lv.tb.reverse.find? (fun f => (get lv.map ⟨f.file, f.line⟩).isSome) with
  | some f => f.fn == "<lambda>"
  | none => false

/-- Some frame of a recorded traceback runs generated code of a conversion that has no `converted_call`
level on the path (a `to_graph` output called directly): nobody consults that conversion's source map.
Class predicate of known finding `C12-to-graph-callee`. -/
def unwrappedGenerated (allGen : List String) (ls : List (String × Level)) : Bool :=
  ls.any fun (_, lv) => lv.tb.any fun f => allGen.contains f.file && !(ls.any fun (g, _) => g == f.file)

end Malt.Errors
