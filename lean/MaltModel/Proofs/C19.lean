import MaltModel.Analysis.TypeInfSem
/-! Helper lemmas for `Props/C19.lean`. -/
namespace Malt.TypeInf
open Malt.Py

/-! ### type sets and maps -/

theorem InSet.mono {v : Val} {T T' : TySet} (h : InSet v T) (hs : ∀ t, t ∈ T → t ∈ T') : InSet v T' := by
  obtain ⟨t, ht, hv⟩ := h
  exact ⟨t, hs t ht, hv⟩

theorem subset_iff {a b : TySet} : TySet.subset a b = true ↔ ∀ t, t ∈ a → t ∈ b := by
  simp [TySet.subset, List.all_eq_true]

theorem TMap.get_cons (k : String) (v : TySet) (m : TMap) (x : String) :
    TMap.get ((k, v) :: m) x = if k = x then some v else TMap.get m x := rfl

theorem TMap.get_append (a b : TMap) (x : String) :
    TMap.get (a ++ b) x = match TMap.get a x with | some T => some T | none => TMap.get b x := by
  induction a with
  | nil => simp [TMap.get]
  | cons p a ih =>
    obtain ⟨k, v⟩ := p
    simp only [List.cons_append, TMap.get_cons]
    split <;> simp_all



theorem TMap.get_some_mem_keys {m : TMap} {x : String} {T : TySet} (h : m.get x = some T) : x ∈ m.keys := by
  induction m with
  | nil => simp [TMap.get] at h
  | cons p m ih =>
    obtain ⟨k, v⟩ := p
    rw [TMap.get_cons] at h
    by_cases hk : k = x
    · simp [TMap.keys, hk]
    · simp only [hk, if_false] at h
      have := ih h
      simp only [TMap.keys, List.map_cons, List.mem_cons]
      exact Or.inr this

theorem TMap.leB_sound {a b : TMap} (h : a.leB b = true) : TMap.le a b := by
  intro x T hx
  have hk := TMap.get_some_mem_keys hx
  simp only [TMap.leB, List.all_eq_true] at h
  have := h x hk
  rw [hx] at this
  cases hb : b.get x with
  | none => rw [hb] at this; simp at this
  | some T' =>
    rw [hb] at this
    exact ⟨T', rfl, subset_iff.mp this⟩

theorem TMap.le_refl (a : TMap) : TMap.le a a := fun _ T h => ⟨T, h, fun _ ht => ht⟩

theorem TMap.le_trans {a b c : TMap} (h1 : TMap.le a b) (h2 : TMap.le b c) : TMap.le a c := by
  intro x T hx
  obtain ⟨T', hb, hs⟩ := h1 x T hx
  obtain ⟨T'', hc, hs'⟩ := h2 x T' hb
  exact ⟨T'', hc, fun t ht => hs' t (hs t ht)⟩

/-! ### products -/

theorem product_sound : ∀ (Ts : List TySet) (vs : Vals), AllTyped Ts vs → ∃ ts, ts ∈ product Ts ∧ hasTys vs ts = true
  | [], _, h => by
      cases h
      exact ⟨.nil, by simp [product], by simp [hasTys]⟩
  | T :: Ts, _, h => by
      cases h with
      | cons hv hrest =>
        obtain ⟨ts, hts, hh⟩ := product_sound Ts _ hrest
        obtain ⟨t, ht, hvt⟩ := hv
        refine ⟨.cons t ts, ?_, by simp [hasTys, hvt, hh]⟩
        simp only [product, List.mem_flatMap, List.mem_map]
        exact ⟨t, ht, ts, hts, rfl⟩

theorem tuple_inSet {Ts : List TySet} {vs : Vals} (h : AllTyped Ts vs) : InSet (.tuple vs) (tupleTypes Ts) := by
  obtain ⟨ts, hts, hh⟩ := product_sound Ts vs h
  refine ⟨.prod ts, ?_, by simpa [hasTy] using hh⟩
  simp only [tupleTypes, List.mem_map]
  exact ⟨ts, hts, rfl⟩

theorem retTypes_sound {ft : TySet} {ρ : Ty} {v : Val} (hall : allFn ft = true) (hf : InSet (.fn ρ) ft)
    (hv : hasTy v ρ = true) : InSet v (retTypes ft) := by
  obtain ⟨t, ht, hh⟩ := hf
  simp only [allFn, List.all_eq_true] at hall
  have := hall t ht
  cases t with
  | fn r =>
    simp only [hasTy, Bool.or_eq_true, beq_iff_eq] at hh
    refine ⟨r, ?_, ?_⟩
    · simp only [retTypes, List.mem_filterMap]
      exact ⟨.fn r, ht, rfl⟩
    · rcases hh with h | h
      · subst h; simp [hasTy]
      · subst h; exact hv
  | _ => simp at this

/-! ### soundness of `StmtInferrer` on expressions -/

section
variable {R : Resolver} {sem : Sem} {env : FnEnv} {S W : List String} {σ : State} {m : TMap}

theorem name_sound (hS : Sound R env S σ m) {i : Nat} {x : String} {v : Val} {T : TySet} (hx : x ∉ S) (hσ : σ x = some v)
    (ht : tyE R env m (.name i x .load) = some T) : InSet v T := by
  obtain ⟨h1, h2⟩ := hS x v hx hσ
  simp only [tyE] at ht
  cases hfree : env.isFree x with
  | false =>
    obtain ⟨T', hm, hv⟩ := h1 hfree
    rw [hm] at ht
    simp only [Option.some.injEq] at ht
    exact ht ▸ hv
  | true =>
    obtain ⟨ha, hb⟩ := h2 hfree
    cases hm : m.get x with
    | some T' =>
      rw [hm] at ht
      simp only [Option.some.injEq] at ht
      exact ht ▸ ha T' hm
    | none =>
      rw [hm] at ht
      simp only [hfree, if_true] at ht
      exact hb T ht

theorem get_sound (hS : Sound R env S σ m) {x : String} {v : Val} {T : TySet} (hx : x ∉ S) (hσ : σ x = some v)
    (hm : m.get x = some T) : InSet v T := by
  obtain ⟨h1, h2⟩ := hS x v hx hσ
  cases hfree : env.isFree x with
  | false =>
    obtain ⟨T', hm', hv⟩ := h1 hfree
    rw [hm] at hm'
    exact (Option.some.inj hm') ▸ hv
  | true => exact (h2 hfree).1 T hm

theorem noTaint_sub {e e' : Expr} (h : NoTaint S e) (hsub : ∀ x, x ∈ readsE e' → x ∈ readsE e) : NoTaint S e' :=
  fun x hx => h x (hsub x hx)

mutual
theorem tyE_sound (hT : Truthful R sem env) (hW : ∀ x, x ∈ W → x ∈ S) (hS : Sound R env S σ m) :
    ∀ (e : Expr) (T : TySet) (v : Val), NoTaint S e → tyE R env m e = some T → Eval sem env.bound W σ e v → InSet v T
  | .const i k r, T, v, _, ht, hev => by
      cases hev with
      | const h => exact hT.const k r T v (by simpa [tyE] using ht) h
      | opaq h => simp [isOpaque] at h
  | .name i x c, T, v, hn, ht, hev => by
      cases hev with
      | name hxW hσ =>
        have hx : x ∉ S := hn x (by simp [readsE])
        exact name_sound hS hx hσ ht
      | nameHavoc hxW => exact absurd (hW x hxW) (hn x (by simp [readsE]))
      | opaq h => simp [isOpaque] at h
  | .seq i k es c, T, v, hn, ht, hev => by
      cases hev with
      | tuple hes =>
        simp only [tyE, Option.map_eq_some_iff] at ht
        obtain ⟨Ts, hTs, rfl⟩ := ht
        exact tuple_inSet (tyAll_sound hT hW hS es Ts _ (fun x hx => hn x (by simpa [readsE] using hx)) hTs hes)
      | list hes =>
        simp only [tyE] at ht
        exact hT.listLit _ T _ ht (tyOpts_sound hT hW hS es _ (fun x hx => hn x (by simpa [readsE] using hx)) hes)
      | opaq h =>
        cases k <;> cases c <;> simp [tyE] at ht <;> simp [isOpaque] at h
  | .call i f args kws, T, v, hn, ht, hev => by
      cases hev with
      | callLocal hq hqr hb hfW hσ hv =>
        rename_i q ρ
        have hfS : q ∉ S := hn q (by simp [readsE, hqr])
        have hbc : env.bound.contains q = true := by simpa using hb
        simp only [tyE, hq, hbc, if_true] at ht
        cases hm : m.get q with
        | none => rw [hm] at ht; simp at ht
        | some ft =>
          rw [hm] at ht
          by_cases hall : allFn ft = true
          · simp only [hall, if_true, Option.some.injEq] at ht
            subst ht
            have hin : InSet (.fn ρ) ft := get_sound hS hfS hσ hm
            exact retTypes_sound hall hin hv
          · simp [hall] at ht
      | callHavoc hq hqr hfW =>
        rename_i q
        exact absurd (hW q hfW) (hn q (by simp [readsE, hqr]))
      | callExt hb hargs hkws hcall =>
        have ht' : R.call i (tyE R env m f) (tyOpts R env m args) (tyOptsKw R env m kws) = some T := by
          simp only [tyE] at ht
          cases hq : qnOf? f with
          | none => simpa [hq] using ht
          | some q =>
            have hbc : q ∉ env.bound := hb q hq
            simpa [hq, hbc] using ht
        refine hT.call i _ _ _ T _ _ v ht' ?_ ?_ hcall
        · exact tyOpts_sound hT hW hS args _ (fun x hx => hn x (by simp [readsE, hx])) hargs
        · exact tyOptsKw_sound hT hW hS kws _ (fun x hx => hn x (by simp [readsE, hx])) hkws
      | opaq h => simp [isOpaque] at h
  | .attr i e nm c, T, v, hn, ht, hev => by
      cases hev with
      | attr he hr =>
        simp only [tyE] at ht
        cases h1 : tyE R env m e with
        | none => simp [h1] at ht
        | some A =>
          simp only [h1] at ht
          exact hT.attr i A T _ v ht (tyE_sound hT hW hS e A _ (fun x hx => hn x (by simp [readsE, hx])) h1 he) hr
      | opaq h => simp [isOpaque] at h
  | .subscript i e s c, T, v, hn, ht, hev => by
      cases hev with
      | subscript he hs hr =>
        simp only [tyE] at ht
        cases h1 : tyE R env m e with
        | none => simp [h1] at ht
        | some A =>
          cases h2 : tyE R env m s with
          | none => simp [h1, h2] at ht
          | some B =>
            simp only [h1, h2] at ht
            exact hT.slice i A B T _ _ v ht
              (tyE_sound hT hW hS e A _ (fun x hx => hn x (by simp [readsE, hx])) h1 he)
              (tyE_sound hT hW hS s B _ (fun x hx => hn x (by simp [readsE, hx])) h2 hs) hr
      | opaq h => simp [isOpaque] at h
  | .compare i l ops rs, T, v, hn, ht, hev => by
      cases hev with
      | compare hl hrs hr =>
        simp only [tyE] at ht
        cases h1 : tyE R env m l with
        | none => simp [h1] at ht
        | some A =>
          cases h2 : tyAll R env m rs with
          | none => simp [h1, h2] at ht
          | some Bs =>
            simp only [h1, h2] at ht
            exact hT.compare i A Bs T _ _ v ht
              (tyE_sound hT hW hS l A _ (fun x hx => hn x (by simp [readsE, hx])) h1 hl)
              (tyAll_sound hT hW hS rs Bs _ (fun x hx => hn x (by simp [readsE, hx])) h2 hrs) hr
      | opaq h => simp [isOpaque] at h
  | .binop i op l r, T, v, hn, ht, hev => by
      cases hev with
      | binop hl hr hc =>
        simp only [tyE] at ht
        cases h1 : tyE R env m l with
        | none => simp [h1] at ht
        | some A =>
          cases h2 : tyE R env m r with
          | none => simp [h1, h2] at ht
          | some B =>
            simp only [h1, h2] at ht
            exact hT.binop i A B T _ _ v ht
              (tyE_sound hT hW hS l A _ (fun x hx => hn x (by simp [readsE, hx])) h1 hl)
              (tyE_sound hT hW hS r B _ (fun x hx => hn x (by simp [readsE, hx])) h2 hr) hc
      | opaq h => simp [isOpaque] at h
  | .unary i op e, T, v, hn, ht, hev => by
      cases hev with
      | unary he hr =>
        simp only [tyE] at ht
        cases h1 : tyE R env m e with
        | none => simp [h1] at ht
        | some A =>
          simp only [h1] at ht
          exact hT.unop i A T _ v ht (tyE_sound hT hW hS e A _ (fun x hx => hn x (by simp [readsE, hx])) h1 he) hr
      | opaq h => simp [isOpaque] at h
  | .keyword .., _, _, _, ht, _ => by simp [tyE] at ht
  | .boolop .., _, _, _, ht, _ => by simp [tyE] at ht
  | .ifexp .., _, _, _, ht, _ => by simp [tyE] at ht
  | .lambda .., _, _, _, ht, _ => by simp [tyE] at ht
  | .starred .., _, _, _, ht, _ => by simp [tyE] at ht
  | .namedexpr .., _, _, _, ht, _ => by simp [tyE] at ht
  | .comp .., _, _, _, ht, _ => by simp [tyE] at ht
  | .comprehension .., _, _, _, ht, _ => by simp [tyE] at ht
  | .arguments .., _, _, _, ht, _ => by simp [tyE] at ht
  | .arg .., _, _, _, ht, _ => by simp [tyE] at ht
  | .withitem .., _, _, _, ht, _ => by simp [tyE] at ht
  | .noneMarker, _, _, _, ht, _ => by simp [tyE] at ht
  | .other .., _, _, _, ht, _ => by simp [tyE] at ht
theorem tyAll_sound (hT : Truthful R sem env) (hW : ∀ x, x ∈ W → x ∈ S) (hS : Sound R env S σ m) :
    ∀ (es : List Expr) (Ts : List TySet) (vs : Vals), (∀ x, x ∈ readsEs es → x ∉ S) → tyAll R env m es = some Ts →
      EvalL sem env.bound W σ es vs → AllTyped Ts vs
  | [], Ts, vs, _, ht, hev => by
      cases hev
      simp only [tyAll, Option.some.injEq] at ht
      subst ht
      exact .nil
  | e :: es, Ts, vs, hn, ht, hev => by
      cases hev with
      | cons he hes =>
        simp only [tyAll] at ht
        cases h1 : tyE R env m e with
        | none => simp [h1] at ht
        | some A =>
          cases h2 : tyAll R env m es with
          | none => simp [h1, h2] at ht
          | some Bs =>
            simp only [h1, h2, Option.some.injEq] at ht
            subst ht
            exact .cons (tyE_sound hT hW hS e A _ (fun x hx => hn x (by simp [readsEs, hx])) h1 he)
              (tyAll_sound hT hW hS es Bs _ (fun x hx => hn x (by simp [readsEs, hx])) h2 hes)
theorem tyOpts_sound (hT : Truthful R sem env) (hW : ∀ x, x ∈ W → x ∈ S) (hS : Sound R env S σ m) :
    ∀ (es : List Expr) (vs : Vals), (∀ x, x ∈ readsEs es → x ∉ S) →
      EvalL sem env.bound W σ es vs → OptTyped (tyOpts R env m es) vs
  | [], vs, _, hev => by
      cases hev
      exact .nil
  | e :: es, vs, hn, hev => by
      cases hev with
      | cons he hes =>
        simp only [tyOpts]
        have ih := tyOpts_sound hT hW hS es _ (fun x hx => hn x (by simp [readsEs, hx])) hes
        cases h1 : tyE R env m e with
        | none => exact .none ih
        | some A => exact .some (tyE_sound hT hW hS e A _ (fun x hx => hn x (by simp [readsEs, hx])) h1 he) ih
theorem tyOptsKw_sound (hT : Truthful R sem env) (hW : ∀ x, x ∈ W → x ∈ S) (hS : Sound R env S σ m) :
    ∀ (es : List Expr) (vs : Vals), (∀ x, x ∈ readsEs es → x ∉ S) →
      EvalKw sem env.bound W σ es vs → OptTyped (tyOptsKw R env m es) vs
  | [], vs, _, hev => by
      cases hev
      exact .nil
  | e :: es, vs, hn, hev => by
      cases hev with
      | kw he hes =>
        rename_i val v' vs' i a ha
        have ih := tyOptsKw_sound hT hW hS es _ (fun x hx => hn x (by simp [readsEs, hx])) hes
        simp only [tyOptsKw]
        cases h1 : tyE R env m val with
        | none => exact .none ih
        | some A => exact .some (tyE_sound hT hW hS val A _ (fun x hx => hn x (by simp [readsEs, readsE, hx])) h1 he) ih
end


/-! ### frames, agreement, monotonicity -/


theorem ScopedOk.local {X : List String} (h : ScopedOk env S X) {x : String} (hx : x ∈ X) (hs : x ∉ S) :
    env.isFree x = false := by
  obtain ⟨hb, hn⟩ := h x hx
  have : env.nonlocals.contains x = false := by
    cases hc : env.nonlocals.contains x with
    | false => rfl
    | true => exact absurd (hn hc) hs
  have hb' : x ∈ env.bound := by simpa using hb
  have hn' : x ∉ env.nonlocals := by simpa using this
  simp [FnEnv.isFree, hb', hn']

theorem ScopedOk.sub {X Y : List String} (h : ScopedOk env S X) (hsub : ∀ x, x ∈ Y → x ∈ X) : ScopedOk env S Y :=
  fun x hx => h x (hsub x hx)

theorem Agree.refl (X : List String) (σ : State) : Agree X σ σ := fun _ _ => rfl

theorem Agree.trans {X Y : List String} {σ₁ σ₂ σ₃ : State} (h1 : Agree X σ₁ σ₂) (h2 : Agree Y σ₂ σ₃) :
    Agree (X ++ Y) σ₁ σ₃ := by
  intro x hx
  simp only [List.mem_append, not_or] at hx
  rw [h2 x hx.2, h1 x hx.1]

theorem Agree.mono {X Y : List String} {σ σ' : State} (h : Agree X σ σ') (hsub : ∀ x, x ∈ X → x ∈ Y) : Agree Y σ σ' :=
  fun x hx => h x (fun hm => hx (hsub x hm))

theorem Sound.agree {X : List String} {σ' : State} (hS : Sound R env S σ m) (ha : Agree X σ σ') (hX : ∀ x, x ∈ X → x ∈ S) :
    Sound R env S σ' m := by
  intro x v hx hσ
  have : σ' x = σ x := ha x (fun hm => hx (hX x hm))
  exact hS x v hx (this ▸ hσ)


theorem freeOk_sound {m : TMap} (h : freeOk env S m = true) : FreeOk env S m := by
  intro x T hfree hx hm
  have hk := TMap.get_some_mem_keys hm
  simp only [freeOk, List.all_eq_true] at h
  have := h x hk
  have hxs : S.contains x = false := by simpa using hx
  simp only [hfree, hxs, Bool.not_false, Bool.and_self, if_true, hm] at this
  cases hc : env.closure.get x with
  | none => rw [hc] at this; simp at this
  | some T0 =>
    rw [hc] at this
    exact ⟨T0, rfl, subset_iff.mp this⟩

theorem Sound.mono {m' : TMap} (hS : Sound R env S σ m) (hle : TMap.le m m') (hf : FreeOk env S m') :
    Sound R env S σ m' := by
  intro x v hx hσ
  obtain ⟨h1, h2⟩ := hS x v hx hσ
  refine ⟨fun hfree => ?_, fun hfree => ?_⟩
  · obtain ⟨T, hm, hv⟩ := h1 hfree
    obtain ⟨T', hm', hsub⟩ := hle x T hm
    exact ⟨T', hm', hv.mono hsub⟩
  · obtain ⟨_, hb⟩ := h2 hfree
    refine ⟨fun T hm' => ?_, hb⟩
    obtain ⟨T0, hc, hsub⟩ := hf x T hfree hx hm'
    have : extType R env x = some T0 := by simp [extType, hc]
    exact (hb T0 this).mono hsub

theorem Sound.init {σ₀ : State} (h0 : InitOk R env S σ₀) (hf : FreeOk env S m) : Sound R env S σ₀ m := by
  intro x v hx hσ
  obtain ⟨hfree, hb⟩ := h0 x v hx hσ
  refine ⟨fun h => by simp [hfree] at h, fun _ => ⟨fun T hm => ?_, hb⟩⟩
  obtain ⟨T0, hc, hsub⟩ := hf x T hfree hx hm
  have : extType R env x = some T0 := by simp [extType, hc]
  exact (hb T0 this).mono hsub

/-! ### strong update -/

theorem TMap.update_append (m : TMap) (a b : List (String × TySet)) :
    TMap.update (TMap.update m a) b = TMap.update m (a ++ b) := by
  simp [TMap.update]

theorem TMap.update_nil (m : TMap) : TMap.update m [] = m := by simp [TMap.update]

theorem TMap.get_update_single (m : TMap) (x : String) (T : TySet) (y : String) :
    (TMap.update m [(x, T)]).get y = if x = y then some T else m.get y := by
  simp [TMap.update, TMap.get_cons]

/-- Binding `x` to a value of a type in `T` and recording `x ↦ T`. -/
theorem Sound.set {x : String} {v : Val} {T : TySet} (hS : Sound R env S σ m) (hv : InSet v T)
    (hloc : x ∉ S → env.isFree x = false) : Sound R env S (σ.set x v) (TMap.update m [(x, T)]) := by
  intro y w hy hσ
  by_cases hxy : y = x
  · subst hxy
    simp only [State.set, if_true, Option.some.injEq] at hσ
    subst hσ
    have hl := hloc hy
    refine ⟨fun _ => ⟨T, by simp [TMap.get_update_single], hv⟩, fun h => by simp [hl] at h⟩
  · have hσ' : σ y = some w := by simpa [State.set, hxy] using hσ
    have hg : (TMap.update m [(x, T)]).get y = m.get y := by
      rw [TMap.get_update_single]; simp [Ne.symm hxy]
    rw [hg]
    exact hS y w hy hσ'

/-- Binding a tainted name, whatever is recorded for it. -/
theorem Sound.set_tainted {x : String} {v : Val} (hS : Sound R env S σ m) (hx : x ∈ S) :
    Sound R env S (σ.set x v) m :=
  hS.agree (X := [x]) (fun y hy => by simp [State.set, (by simpa using hy : y ≠ x)]) (fun y hy => by simp at hy; exact hy ▸ hx)

theorem Sound.update_tainted {news : List (String × TySet)} (hS : Sound R env S σ m)
    (hk : ∀ p, p ∈ news → p.1 ∈ S) : Sound R env S σ (TMap.update m news) := by
  intro x v hx hσ
  have hg : (TMap.update m news).get x = m.get x := by
    simp only [TMap.update, TMap.get_append]
    have : TMap.get news.reverse x = none := by
      have hk' : ∀ p, p ∈ news.reverse → p.1 ∈ S := fun p hp => hk p (List.mem_reverse.mp hp)
      generalize news.reverse = l at hk'
      induction l with
      | nil => rfl
      | cons p l ih =>
        obtain ⟨k, T⟩ := p
        rw [TMap.get_cons]
        have hkS : k ∈ S := hk' (k, T) (by simp)
        have : k ≠ x := fun h => hx (h ▸ hkS)
        simp only [this, if_false]
        exact ih (fun p hp => hk' p (by simp [hp]))
    rw [this]
  rw [hg]
  exact hS x v hx hσ

/-! ### binding targets -/

mutual
theorem bind_agree : ∀ (t : Expr) (v : Val) (σ σ' : State), Bind t v σ σ' → Agree (storedE t) σ σ'
  | .name i x c, v, σ, σ', h => by
      cases h with
      | name => intro y hy; simp [storedE] at hy; simp [State.set, hy]
      | inert _ => exact Agree.refl _ _
  | .seq i k es c, v, σ, σ', h => by
      cases h with
      | seqT hl => simpa [storedE] using bindL_agree es _ σ σ' hl
      | seqL hl => simpa [storedE] using bindL_agree es _ σ σ' hl
      | inert _ => exact Agree.refl _ _
  | .const .., _, _, _, h => by cases h; exact Agree.refl _ _
  | .attr .., _, _, _, h => by cases h; exact Agree.refl _ _
  | .subscript .., _, _, _, h => by cases h; exact Agree.refl _ _
  | .call .., _, _, _, h => by cases h; exact Agree.refl _ _
  | .keyword .., _, _, _, h => by cases h; exact Agree.refl _ _
  | .boolop .., _, _, _, h => by cases h; exact Agree.refl _ _
  | .unary .., _, _, _, h => by cases h; exact Agree.refl _ _
  | .binop .., _, _, _, h => by cases h; exact Agree.refl _ _
  | .compare .., _, _, _, h => by cases h; exact Agree.refl _ _
  | .ifexp .., _, _, _, h => by cases h; exact Agree.refl _ _
  | .lambda .., _, _, _, h => by cases h; exact Agree.refl _ _
  | .starred .., _, _, _, h => by cases h; exact Agree.refl _ _
  | .namedexpr .., _, _, _, h => by cases h; exact Agree.refl _ _
  | .comp .., _, _, _, h => by cases h; exact Agree.refl _ _
  | .comprehension .., _, _, _, h => by cases h; exact Agree.refl _ _
  | .arguments .., _, _, _, h => by cases h; exact Agree.refl _ _
  | .arg .., _, _, _, h => by cases h; exact Agree.refl _ _
  | .withitem .., _, _, _, h => by cases h; exact Agree.refl _ _
  | .noneMarker, _, _, _, h => by cases h; exact Agree.refl _ _
  | .other .., _, _, _, h => by cases h; exact Agree.refl _ _
theorem bindL_agree : ∀ (es : List Expr) (vs : Vals) (σ σ' : State), BindL es vs σ σ' → Agree (storedEs es) σ σ'
  | [], _, _, _, h => by cases h; exact Agree.refl _ _
  | e :: es, _, σ, σ', h => by
      cases h with
      | cons hb hl =>
        simp only [storedEs]
        exact (bind_agree e _ _ _ hb).trans (bindL_agree es _ _ _ hl)
end

mutual
theorem bindT_keys : ∀ (t : Expr) (rt : Option TySet) (p : String × TySet), p ∈ bindT R rt t → p.1 ∈ storedE t
  | .name i x c, rt, p, h => by
      cases rt <;> cases c <;> simp_all [bindT, storedE]
  | .seq i k es c, rt, p, h => by
      cases rt with
      | none => simp [bindT] at h
      | some T =>
        cases c with
        | store => simpa [storedE] using bindTs_keys es T _ 0 p (by simpa [bindT] using h)
        | load => simp [bindT] at h
        | del => simp [bindT] at h
  | .const .., rt, _, h => by cases rt <;> simp [bindT] at h
  | .attr .., rt, _, h => by cases rt <;> simp [bindT] at h
  | .subscript .., rt, _, h => by cases rt <;> simp [bindT] at h
  | .call .., rt, _, h => by cases rt <;> simp [bindT] at h
  | .keyword .., rt, _, h => by cases rt <;> simp [bindT] at h
  | .boolop .., rt, _, h => by cases rt <;> simp [bindT] at h
  | .unary .., rt, _, h => by cases rt <;> simp [bindT] at h
  | .binop .., rt, _, h => by cases rt <;> simp [bindT] at h
  | .compare .., rt, _, h => by cases rt <;> simp [bindT] at h
  | .ifexp .., rt, _, h => by cases rt <;> simp [bindT] at h
  | .lambda .., rt, _, h => by cases rt <;> simp [bindT] at h
  | .starred i v c, rt, p, h => by
      have := bindT_keys v rt p (by cases rt <;> simpa [bindT] using h)
      simpa [storedE] using this
  | .namedexpr .., rt, _, h => by cases rt <;> simp [bindT] at h
  | .comp .., rt, _, h => by cases rt <;> simp [bindT] at h
  | .comprehension .., rt, _, h => by cases rt <;> simp [bindT] at h
  | .arguments .., rt, _, h => by cases rt <;> simp [bindT] at h
  | .arg .., rt, _, h => by cases rt <;> simp [bindT] at h
  | .withitem .., rt, _, h => by cases rt <;> simp [bindT] at h
  | .noneMarker, rt, _, h => by cases rt <;> simp [bindT] at h
  | .other .., rt, _, h => by cases rt <;> simp [bindT] at h
theorem bindTs_keys : ∀ (es : List Expr) (orig : TySet) (ityp : Option TySet) (i : Nat) (p : String × TySet),
    p ∈ bindTs R orig ityp i es → p.1 ∈ storedEs es
  | [], _, _, _, _, h => by simp [bindTs] at h
  | e :: es, orig, ityp, i, p, h => by
      simp only [bindTs, List.mem_append] at h
      simp only [storedEs, List.mem_append]
      rcases h with h | h
      · exact Or.inl (bindT_keys e _ p h)
      · exact Or.inr (bindTs_keys es orig ityp (i + 1) p h)
end

/-- With no r-value type nothing is recorded for any target. -/
theorem bindT_none : ∀ (t : Expr), bindT R none t = []
  | .starred _ v _ => by simp [bindT, bindT_none v]
  | .noneMarker => by simp [bindT]
  | .const .. => by simp [bindT]
  | .name .. => by simp [bindT]
  | .attr .. => by simp [bindT]
  | .subscript .. => by simp [bindT]
  | .call .. => by simp [bindT]
  | .keyword .. => by simp [bindT]
  | .boolop .. => by simp [bindT]
  | .unary .. => by simp [bindT]
  | .binop .. => by simp [bindT]
  | .compare .. => by simp [bindT]
  | .ifexp .. => by simp [bindT]
  | .lambda .. => by simp [bindT]
  | .seq .. => by simp [bindT]
  | .namedexpr .. => by simp [bindT]
  | .comp .. => by simp [bindT]
  | .comprehension .. => by simp [bindT]
  | .arguments .. => by simp [bindT]
  | .arg .. => by simp [bindT]
  | .withitem .. => by simp [bindT]
  | .other .. => by simp [bindT]

/-- `RtOk rt v`: the value has the r-value type, if one is known. -/
def RtOk (rt : Option TySet) (v : Val) : Prop := ∀ T, rt = some T → InSet v T

mutual
theorem bindT_sound (hT : Truthful R sem env) :
    ∀ (t : Expr) (rt : Option TySet) (v : Val) (σ σ' : State) (m : TMap), Sound R env S σ m → RtOk rt v → Bind t v σ σ' →
      (∀ x, x ∈ untrackedT R rt t → x ∈ S) → ScopedOk env S (storedE t) → Sound R env S σ' (TMap.update m (bindT R rt t))
  | .name i x c, rt, v, σ, σ', m, hS, hrt, hb, hu, hsc => by
      cases hb with
      | name =>
        cases rt with
        | none =>
          simp only [bindT, TMap.update_nil]
          exact hS.set_tainted (hu x (by simp [untrackedT, storedE]))
        | some T =>
          simp only [bindT]
          exact hS.set (hrt T rfl) (fun hx => hsc.local (by simp [storedE]) hx)
      | inert _ =>
        cases rt <;> cases c <;> simp_all [bindT, TMap.update_nil, storedE]
  | .seq i k es c, rt, v, σ, σ', m, hS, hrt, hb, hu, hsc => by
      cases hb with
      | seqT hl =>
        rename_i vs
        cases rt with
        | none =>
          simp only [bindT, TMap.update_nil]
          exact hS.agree (bindL_agree es _ _ _ hl) (fun x hx => hu x (by simpa [untrackedT, storedE] using hx))
        | some T =>
          simp only [bindT]
          by_cases hstar : es.any isStarred = true
          · have hall : ∀ x, x ∈ storedEs es → x ∈ S := fun x hx => hu x (by simp only [untrackedT, hstar, if_true]; exact hx)
            exact (hS.agree (bindL_agree es _ _ _ hl) hall).update_tainted
              (fun p hp => hall _ (bindTs_keys es T _ 0 p hp))
          · refine bindTs_sound hT es T (R.value "int" "0") 0 vs vs σ σ' m hS (Or.inl (hrt T rfl)) (fun k u h => by simpa using h) hl ?_ ?_
            · intro x hx; exact hu x (by simp only [untrackedT, hstar]; exact hx)
            · simpa [storedE] using hsc
      | seqL hl =>
        rename_i vs
        cases rt with
        | none =>
          simp only [bindT, TMap.update_nil]
          exact hS.agree (bindL_agree es _ _ _ hl) (fun x hx => hu x (by simpa [untrackedT, storedE] using hx))
        | some T =>
          simp only [bindT]
          by_cases hstar : es.any isStarred = true
          · have hall : ∀ x, x ∈ storedEs es → x ∈ S := fun x hx => hu x (by simp only [untrackedT, hstar, if_true]; exact hx)
            exact (hS.agree (bindL_agree es _ _ _ hl) hall).update_tainted
              (fun p hp => hall _ (bindTs_keys es T _ 0 p hp))
          · refine bindTs_sound hT es T (R.value "int" "0") 0 vs vs σ σ' m hS (Or.inr (hrt T rfl)) (fun k u h => by simpa using h) hl ?_ ?_
            · intro x hx; exact hu x (by simp only [untrackedT, hstar]; exact hx)
            · simpa [storedE] using hsc
      | inert h0 =>
        cases rt with
        | none => simpa [bindT, TMap.update_nil] using hS
        | some T =>
          cases c with
          | store =>
            simp only [bindT]
            exact hS.update_tainted (fun p hp => by
              have := bindTs_keys (R := R) es T (R.value "int" "0") 0 p hp
              simp only [storedE] at h0
              simp [h0] at this)
          | load => simpa [bindT, TMap.update_nil] using hS
          | del => simpa [bindT, TMap.update_nil] using hS
  | .const .., rt, _, _, _, _, hS, _, hb, _, _ => by cases hb; cases rt <;> simpa [bindT, TMap.update_nil] using hS
  | .attr .., rt, _, _, _, _, hS, _, hb, _, _ => by cases hb; cases rt <;> simpa [bindT, TMap.update_nil] using hS
  | .subscript .., rt, _, _, _, _, hS, _, hb, _, _ => by cases hb; cases rt <;> simpa [bindT, TMap.update_nil] using hS
  | .call .., rt, _, _, _, _, hS, _, hb, _, _ => by cases hb; cases rt <;> simpa [bindT, TMap.update_nil] using hS
  | .keyword .., rt, _, _, _, _, hS, _, hb, _, _ => by cases hb; cases rt <;> simpa [bindT, TMap.update_nil] using hS
  | .boolop .., rt, _, _, _, _, hS, _, hb, _, _ => by cases hb; cases rt <;> simpa [bindT, TMap.update_nil] using hS
  | .unary .., rt, _, _, _, _, hS, _, hb, _, _ => by cases hb; cases rt <;> simpa [bindT, TMap.update_nil] using hS
  | .binop .., rt, _, _, _, _, hS, _, hb, _, _ => by cases hb; cases rt <;> simpa [bindT, TMap.update_nil] using hS
  | .compare .., rt, _, _, _, _, hS, _, hb, _, _ => by cases hb; cases rt <;> simpa [bindT, TMap.update_nil] using hS
  | .ifexp .., rt, _, _, _, _, hS, _, hb, _, _ => by cases hb; cases rt <;> simpa [bindT, TMap.update_nil] using hS
  | .lambda .., rt, _, _, _, _, hS, _, hb, _, _ => by cases hb; cases rt <;> simpa [bindT, TMap.update_nil] using hS
  | .starred i v c, rt, _, _, _, _, hS, _, hb, _, _ => by
      cases hb with
      | inert h0 =>
        have hnil : bindT R rt (.starred i v c) = [] := by
          apply List.eq_nil_iff_forall_not_mem.mpr
          intro p hp
          have := bindT_keys (R := R) (.starred i v c) rt p hp
          simp [h0] at this
        simpa [hnil, TMap.update_nil] using hS
  | .namedexpr .., rt, _, _, _, _, hS, _, hb, _, _ => by cases hb; cases rt <;> simpa [bindT, TMap.update_nil] using hS
  | .comp .., rt, _, _, _, _, hS, _, hb, _, _ => by cases hb; cases rt <;> simpa [bindT, TMap.update_nil] using hS
  | .comprehension .., rt, _, _, _, _, hS, _, hb, _, _ => by cases hb; cases rt <;> simpa [bindT, TMap.update_nil] using hS
  | .arguments .., rt, _, _, _, _, hS, _, hb, _, _ => by cases hb; cases rt <;> simpa [bindT, TMap.update_nil] using hS
  | .arg .., rt, _, _, _, _, hS, _, hb, _, _ => by cases hb; cases rt <;> simpa [bindT, TMap.update_nil] using hS
  | .withitem .., rt, _, _, _, _, hS, _, hb, _, _ => by cases hb; cases rt <;> simpa [bindT, TMap.update_nil] using hS
  | .noneMarker, rt, _, _, _, _, hS, _, hb, _, _ => by cases hb; cases rt <;> simpa [bindT, TMap.update_nil] using hS
  | .other .., rt, _, _, _, _, hS, _, hb, _, _ => by cases hb; cases rt <;> simpa [bindT, TMap.update_nil] using hS
theorem bindTs_sound (hT : Truthful R sem env) :
    ∀ (es : List Expr) (orig : TySet) (ityp : Option TySet) (i : Nat) (vsAll vs : Vals) (σ σ' : State) (m : TMap),
      Sound R env S σ m → (InSet (.tuple vsAll) orig ∨ InSet (.list vsAll) orig) →
      (∀ k u, vs.get? k = some u → vsAll.get? (i + k) = some u) → BindL es vs σ σ' →
      (∀ x, x ∈ untrackedTs R orig ityp i es → x ∈ S) → ScopedOk env S (storedEs es) →
      Sound R env S σ' (TMap.update m (bindTs R orig ityp i es))
  | [], orig, ityp, i, vsAll, vs, σ, σ', m, hS, _, _, hb, _, _ => by
      cases hb
      simpa [bindTs, TMap.update_nil] using hS
  | e :: es, orig, ityp, i, vsAll, vs, σ, σ', m, hS, horig, hidx, hb, hu, hsc => by
      cases hb with
      | cons hb1 hbl =>
        rename_i v σ₁ vs'
        simp only [bindTs, ← TMap.update_append]
        have hrt : RtOk (R.sliceIdx i orig ityp) v := by
          intro Ti hTi
          exact hT.sliceIdx i orig ityp Ti vsAll v hTi horig (by simpa using hidx 0 v (by simp [Vals.get?]))
        have h1 := bindT_sound hT e _ v σ σ₁ m hS hrt hb1
          (fun x hx => hu x (by simp [untrackedTs, hx])) (hsc.sub (fun x hx => by simp [storedEs, hx]))
        exact bindTs_sound hT es orig ityp (i + 1) vsAll vs' σ₁ σ' _ h1 horig
          (fun k u h => by
            have := hidx (k + 1) u (by simpa [Vals.get?] using h)
            simpa [Nat.add_assoc, Nat.add_comm 1 k] using this)
          hbl (fun x hx => hu x (by simp [untrackedTs, hx])) (hsc.sub (fun x hx => by simp [storedEs, hx]))
end


theorem bindAll_agree : ∀ (ts : List Expr) (v : Val) (σ σ' : State), BindAll ts v σ σ' → Agree (storedEs ts) σ σ'
  | [], _, _, _, h => by cases h; exact Agree.refl _ _
  | t :: ts, v, σ, σ', h => by
      cases h with
      | cons hb hl =>
        simp only [storedEs]
        exact (bind_agree t _ _ _ hb).trans (bindAll_agree ts _ _ _ hl)

theorem bindAllT_keys : ∀ (ts : List Expr) (rt : Option TySet) (p : String × TySet),
    p ∈ bindAllT R rt ts → p.1 ∈ storedEs ts
  | [], _, _, h => by simp [bindAllT] at h
  | t :: ts, rt, p, h => by
      simp only [bindAllT, List.mem_append] at h
      simp only [storedEs, List.mem_append]
      rcases h with h | h
      · exact Or.inl (bindT_keys t rt p h)
      · exact Or.inr (bindAllT_keys ts rt p h)

theorem bindAll_sound (hT : Truthful R sem env) :
    ∀ (ts : List Expr) (rt : Option TySet) (v : Val) (σ σ' : State) (m : TMap), Sound R env S σ m → RtOk rt v →
      BindAll ts v σ σ' → (∀ x, x ∈ untrackedAllT R rt ts → x ∈ S) → ScopedOk env S (storedEs ts) →
      Sound R env S σ' (TMap.update m (bindAllT R rt ts))
  | [], _, _, _, _, _, hS, _, hb, _, _ => by
      cases hb
      simpa [bindAllT, TMap.update_nil] using hS
  | t :: ts, rt, v, σ, σ', m, hS, hrt, hb, hu, hsc => by
      cases hb with
      | cons hb1 hbl =>
        simp only [bindAllT, ← TMap.update_append]
        have h1 := bindT_sound hT t rt v _ _ m hS hrt hb1
          (fun x hx => hu x (by simp [untrackedAllT, hx])) (hsc.sub (fun x hx => by simp [storedEs, hx]))
        exact bindAll_sound hT ts rt v _ _ _ h1 hrt hbl
          (fun x hx => hu x (by simp [untrackedAllT, hx])) (hsc.sub (fun x hx => by simp [storedEs, hx]))

theorem args_sound (hT : Truthful R sem env) {as : List Expr} {σ σ' : State} (hb : ArgsBound sem as σ σ') :
    ∀ (m : TMap), Sound R env S σ m → (∀ x, x ∈ untrackedArgs R env as → x ∈ S) →
      ScopedOk env S (as.filterMap argName) → Sound R env S σ' (TMap.update m (argSyms R env as)) := by
  induction hb with
  | nil => intro m hS _ _; simpa [argSyms, TMap.update_nil] using hS
  | cons hn hv _ ih =>
    rename_i a n v as σ σ' hrest
    intro m hS hu hsc
    simp only [argSyms, ← TMap.update_append]
    have hsc' : ScopedOk env S (as.filterMap argName) := hsc.sub (fun x hx => by
      simp only [List.filterMap_cons, hn]; exact List.mem_cons_of_mem _ hx)
    have hu' : ∀ x, x ∈ untrackedArgs R env as → x ∈ S := fun x hx => hu x (by simp [untrackedArgs, hx])
    cases hty : argType R env a with
    | none =>
      have hnS : n ∈ S := hu n (by simp [untrackedArgs, hn, hty])
      simp only [hn, TMap.update_nil]
      exact ih m (hS.set_tainted hnS) hu' hsc'
    | some T =>
      simp only [hn]
      have hin : InSet v T := hT.arg a n T v hn hty hv
      have hloc : n ∉ S → env.isFree n = false := fun hx =>
        hsc.local (by simp [hn]) hx
      exact ih _ (hS.set hin hloc) hu' hsc'
  | skip hn _ ih =>
    rename_i a as σ σ' hrest
    intro m hS hu hsc
    have : argSyms R env (a :: as) = argSyms R env as := by simp [argSyms, hn]
    rw [this]
    exact ih m hS (fun x hx => hu x (by simp [untrackedArgs, hx])) (hsc.sub (fun x hx => by
      simp only [List.filterMap_cons, hn]; exact hx))

theorem plain_newSyms {n : CNode} (h : isPlain n = true) (m : TMap) : newSyms R env m n = [] := by
  cases n with
  | stmt s => cases s <;> simp [isPlain] at h <;> simp [newSyms]
  | expr e => cases e <;> simp [isPlain] at h <;> simp [newSyms]
  | forIter t i => simp [newSyms]

theorem plain_untracked {n : CNode} (h : isPlain n = true) (m : TMap) : untrackedN R env S m n = storedN n := by
  cases n with
  | stmt s => cases s <;> simp [isPlain] at h <;> simp [untrackedN]
  | expr e => cases e <;> simp [isPlain] at h <;> simp [untrackedN]
  | forIter t i => simp [untrackedN]

/-- Local soundness of `Analyzer.visit_node`'s transfer function. -/
theorem step_sound (hT : Truthful R sem env) (hW : ∀ x, x ∈ W → x ∈ S) {n : CNode} {σ σ' : State}
    (hstep : Step sem env W n σ σ') (hS : Sound R env S σ m)
    (hu : ∀ x, x ∈ untrackedN R env S m n → x ∈ S) (hsc : ScopedOk env S (storedN n)) :
    Sound R env S σ' (transfer R env n m) := by
  cases hstep with
  | assign hev hb ha =>
    rename_i value v targets σ₁ i
    refine Sound.agree ?_ ha hW
    simp only [transfer, newSyms]
    by_cases htaint : (readsE value).any (fun x => S.contains x) = true
    · have hall : ∀ x, x ∈ storedEs targets → x ∈ S := fun x hx => hu x (by simp only [untrackedN, htaint, if_true]; exact hx)
      exact (hS.agree (bindAll_agree _ _ _ _ hb) hall).update_tainted
        (fun p hp => hall _ (bindAllT_keys targets _ p hp))
    · have hnt : NoTaint S value := by
        intro x hx hxs
        apply htaint
        simp only [List.any_eq_true]
        exact ⟨x, hx, by simpa using hxs⟩
      have hrt : RtOk (tyE R env m value) v := fun T hTy => tyE_sound hT hW hS value T v hnt hTy hev
      exact bindAll_sound hT targets _ v _ _ m hS hrt hb
        (fun x hx => hu x (by simp only [untrackedN, htaint]; exact hx)) (by simpa [storedN] using hsc)
  | fndef hret ha =>
    rename_i i g a b d r as ρ
    refine Sound.agree ?_ ha hW
    simp only [transfer, newSyms]
    exact hS.set (hT.fnRet i g a b d r as ρ hret) (fun hx => hsc.local (by simp [storedN]) hx)
  | args hb ha =>
    refine Sound.agree ?_ ha hW
    simp only [transfer, newSyms]
    exact args_sound hT hb m hS (by simpa [untrackedN] using hu) (by simpa [storedN] using hsc)
  | plain hp ha =>
    simp only [transfer, plain_newSyms hp, TMap.update_nil]
    refine hS.agree ha ?_
    intro x hx
    simp only [List.mem_append] at hx
    rcases hx with hx | hx
    · exact hu x (by rw [plain_untracked hp]; exact hx)
    · exact hW x hx

end

/-! ### the annotations the model emits are `tyE` facts -/

section
variable {R : Resolver} {env : FnEnv} {tin : TMap}

/-- An annotation entry is justified: it is the set `tyE` computes for an expression with that id. -/
def Justified (R : Resolver) (env : FnEnv) (tin : TMap) (p : Nat × TySet) : Prop :=
  ∃ e : Expr, e.id = p.1 ∧ tyE R env tin e = some p.2

theorem selfAnn_justified (e : Expr) (p : Nat × TySet) (h : p ∈ selfAnn R env tin e) : Justified R env tin p := by
  simp only [selfAnn] at h
  cases ht : tyE R env tin e with
  | none => simp [ht] at h
  | some T =>
    simp only [ht, List.mem_singleton] at h
    subst h
    exact ⟨e, rfl, ht⟩

mutual
theorem annE_justified : ∀ (e : Expr) (p : Nat × TySet), p ∈ annE R env tin e → Justified R env tin p
  | .const i k r, p, h => selfAnn_justified _ p (by simpa [annE] using h)
  | .name i x c, p, h => selfAnn_justified _ p (by simpa [annE] using h)
  | .seq i k es c, p, h => by
      cases k <;> cases c <;> simp only [annE, List.mem_append, List.not_mem_nil] at h
      all_goals first
        | exact h.elim
        | (rcases h with h | h
           · first | exact annTuple_justified es p h | exact annEs_justified es p h
           · exact selfAnn_justified _ p h)
  | .call i f a k, p, h => by
      simp only [annE, List.mem_append] at h
      rcases h with ((h | h) | h) | h
      · exact annE_justified f p h
      · exact annEs_justified a p h
      · exact annKw_justified k p h
      · exact selfAnn_justified _ p h
  | .subscript i v s c, p, h => by
      simp only [annE, List.mem_append] at h
      rcases h with (h | h) | h
      · exact annE_justified v p h
      · exact annE_justified s p h
      · exact selfAnn_justified _ p h
  | .compare i l o rs, p, h => by
      simp only [annE, List.mem_append] at h
      rcases h with (h | h) | h
      · exact annE_justified l p h
      · exact annEs_justified rs p h
      · exact selfAnn_justified _ p h
  | .binop i o l r, p, h => by
      simp only [annE, List.mem_append] at h
      rcases h with (h | h) | h
      · exact annE_justified l p h
      · exact annE_justified r p h
      · exact selfAnn_justified _ p h
  | .unary i o e, p, h => by
      simp only [annE, List.mem_append] at h
      rcases h with h | h
      · exact annE_justified e p h
      · exact selfAnn_justified _ p h
  | .boolop i b vs, p, h => annEs_justified vs p (by simpa [annE] using h)
  | .ifexp i a b c, p, h => by
      simp only [annE, List.mem_append] at h
      rcases h with (h | h) | h
      · exact annE_justified a p h
      · exact annE_justified b p h
      · exact annE_justified c p h
  | .keyword i a ha v, p, h => annE_justified v p (by simpa [annE] using h)
  | .withitem i c vars, p, h => by
      simp only [annE, List.mem_append] at h
      rcases h with h | h
      · exact annE_justified c p h
      · exact annEs_justified vars p h
  | .attr i v a c, p, h => by
      simp only [annE, List.mem_append] at h
      rcases h with h | h
      · exact annE_justified v p h
      · exact selfAnn_justified _ p h
  | .lambda .., _, h => by simp [annE] at h
  | .starred i v c, p, h => annE_justified v p (by simpa [annE] using h)
  | .namedexpr .., _, h => by simp [annE] at h
  | .comp i k es gs, p, h => by
      simp only [annE, List.mem_append] at h
      rcases h with h | h
      · exact annEs_justified es p h
      · exact annEs_justified gs p h
  | .comprehension i t it ifs a, p, h => by
      simp only [annE, List.mem_append] at h
      rcases h with (h | h) | h
      · exact annE_justified t p h
      · exact annE_justified it p h
      · exact annEs_justified ifs p h
  | .arguments .., _, h => by simp [annE] at h
  | .arg .., _, h => by simp [annE] at h
  | .noneMarker, _, h => by simp [annE] at h
  | .other i k a kids, p, h => annEs_justified kids p (by simpa [annE] using h)
theorem annTuple_justified : ∀ (es : List Expr) (p : Nat × TySet), p ∈ annTuple R env tin es → Justified R env tin p
  | [], _, h => by simp [annTuple] at h
  | e :: es, p, h => by
      simp only [annTuple, List.mem_append] at h
      rcases h with h | h
      · exact annE_justified e p h
      · cases ht : tyE R env tin e with
        | none => simp [ht] at h
        | some T => exact annTuple_justified es p (by simpa [ht] using h)
theorem annEs_justified : ∀ (es : List Expr) (p : Nat × TySet), p ∈ annEs R env tin es → Justified R env tin p
  | [], _, h => by simp [annEs] at h
  | e :: es, p, h => by
      simp only [annEs, List.mem_append] at h
      rcases h with h | h
      · exact annE_justified e p h
      · exact annEs_justified es p h
theorem annKw_justified : ∀ (es : List Expr) (p : Nat × TySet), p ∈ annKw R env tin es → Justified R env tin p
  | [], _, h => by simp [annKw] at h
  | e :: es, p, h => by
      cases e with
      | keyword i a ha v =>
        simp only [annKw, List.mem_append] at h
        rcases h with h | h
        · exact annE_justified v p h
        · exact annKw_justified es p h
      | _ =>
        simp only [annKw, List.mem_append] at h
        rcases h with h | h
        · exact annE_justified _ p h
        · exact annKw_justified es p h
end

end

end Malt.TypeInf
