import MaltModel.Proofs.C18Sem2
/- C18, semantics part 3: simulation of expression evaluation by (pending statements; residual expression). -/
set_option linter.unusedSimpArgs false
namespace Malt.Anf
open Malt.Py Malt.SemAnf

theorem execB_append (O : Oracle) : ∀ (A B : List Stmt) (σ : St),
    execB O (A ++ B) σ = match execB O A σ with
      | (.normal, σ1) => execB O B σ1
      | r => r
  | [], B, σ => by simp [execB]
  | s :: A, B, σ => by
      simp only [List.cons_append, execB]
      rcases hs : execS O s σ with ⟨o, σ1⟩
      cases o <;> simp [execB_append O A B σ1]

/-- The transformed run (pending statements `G`, then the computation `k'`) simulates the original run `k`:
same result or same exception, states agreeing on the effect log and on all non-temporaries. -/
def SimK {α : Type} (O : Oracle) (G : List Stmt) (k k' : St → ER α) : Prop :=
  ∀ σ σ', Agree σ σ' →
    match execB O G σ' with
    | (.normal, σ2') => (k' σ2').1 = (k σ).1 ∧ Agree (k σ).2 (k' σ2').2
    | (.raise x, σ2') => (k σ).1 = .error x ∧ Agree (k σ).2 σ2'
    | _ => False

abbrev SimE (O : Oracle) (e e' : Expr) (G : List Stmt) : Prop := SimK O G (evalE O e) (evalE O e')
abbrev SimL (O : Oracle) (es es' : List Expr) (G : List Stmt) : Prop := SimK O G (evalOpts O es) (evalOpts O es')

/-- `_ensure_fields_in_anf` over a list of (field, child) positions -/
def ensureFs (cfg : Config) (pk : String) : List String → List Expr → Nat → List Expr × List Stmt × Nat
  | f :: fs, e :: es, n =>
      let r := ensure cfg pk f e n
      let r2 := ensureFs cfg pk fs es r.2.2
      (r.1 :: r2.1, r.2.1 ++ r2.2.1, r2.2.2)
  | _, _, n => ([], [], n)

theorem ensureList_eq_ensureFs (cfg : Config) (pk fld : String) : ∀ (es : List Expr) (n : Nat),
    ensureList cfg pk fld es n = ensureFs cfg pk (es.map fun _ => fld) es n
  | [], n => by simp [ensureList, ensureFs]
  | e :: es, n => by simp [ensureList, ensureFs, ensureList_eq_ensureFs cfg pk fld es]

/-- prepend a value to the result of evaluating the remaining operands -/
def consR (v : Val) (r : ER (List Val)) : ER (List Val) :=
  match r with
  | (.ok as, σ2) => (.ok (v :: as), σ2)
  | (.error x, σ2) => (.error x, σ2)

theorem consR_snd (v : Val) (r : ER (List Val)) : (consR v r).2 = r.2 := by
  rcases r with ⟨q, τ⟩; cases q <;> rfl

theorem consR_fst_congr (v : Val) {r r' : ER (List Val)} (h : r'.1 = r.1) : (consR v r').1 = (consR v r).1 := by
  rcases r with ⟨q, τ⟩; rcases r' with ⟨q', τ'⟩
  simp only at h; subst h
  cases q' <;> rfl

theorem consR_fst_error (v : Val) {r : ER (List Val)} {x : Val} (h : r.1 = .error x) : (consR v r).1 = .error x := by
  rcases r with ⟨q, τ⟩
  simp only at h; subst h; rfl

theorem evalOpts_cons (O : Oracle) (e : Expr) (es : List Expr) (σ : St) :
    evalOpts O (e :: es) σ =
      match evalE O e σ with
      | (.ok a, σ1) => consR a (evalOpts O es σ1)
      | (.error x, σ1) => (.error x, σ1) := by
  simp only [evalOpts]
  rcases evalE O e σ with ⟨r, σ1⟩
  cases r with
  | error x => rfl
  | ok a =>
    simp only [consR]
    rcases evalOpts O es σ1 with ⟨r2, σ2⟩
    cases r2 <;> rfl

/-- value of an atom -/
def atomVal (e : Expr) (σ : St) : Val :=
  match e with
  | .name _ s _ => σ.get s
  | .const _ k r => constVal k r
  | _ => .none

def isAtom : Expr → Bool
  | .name .. => true
  | .const .. => true
  | _ => false

theorem atom_eval (O : Oracle) {e : Expr} (h : isAtom e = true) (σ : St) : evalE O e σ = (.ok (atomVal e σ), σ) := by
  cases e <;> simp [isAtom] at h <;> simp [evalE, atomVal]

theorem atom_visit (cfg : Config) {e : Expr} (h : isAtom e = true) (n : Nat) : visitE cfg e n = .ok (e, [], n) := by
  cases e <;> simp [isAtom] at h <;> simp [visitE]

theorem atomStay_spec {cfg : Config} {pk fld : String} {e : Expr} (h : atomStay cfg pk fld e = true) :
    isAtom e = true ∧ okChild cfg pk fld e = true := by
  cases e <;> simp [atomStay] at h <;> simp [isAtom, h]

theorem ensureFs_finv {cfg : Config} {pk : String} {W : String → Prop} : ∀ {fs : List String} {xs : List Expr} {n : Nat}
    {xs' : List Expr} {H : List Stmt} {n' : Nat}, fragEs xs = true → (∀ y ∈ writesEs xs, W y) →
    ensureFs cfg pk fs xs n = (xs', H, n') → HoistsP (FragW W) n H n'
  | [], xs, n, xs', H, n', _, _, h => by
      simp only [ensureFs, Prod.mk.injEq] at h; obtain ⟨-, rfl, rfl⟩ := h; rfl
  | f :: fs, [], n, xs', H, n', _, _, h => by
      simp only [ensureFs, Prod.mk.injEq] at h; obtain ⟨-, rfl, rfl⟩ := h; rfl
  | f :: fs, x :: xs, n, xs', H, n', hf, hw, h => by
      simp only [fragEs, Bool.and_eq_true] at hf
      simp only [ensureFs] at h
      rcases h1 : ensure cfg pk f x n with ⟨x1, H1, n1⟩
      rcases h2 : ensureFs cfg pk fs xs n1 with ⟨xs1, H2, n2⟩
      simp only [h1, h2, Prod.mk.injEq] at h; obtain ⟨rfl, rfl, rfl⟩ := h
      have i1 := ensure_finv hf.1 (fun y hy => hw y (by simp [writesEs, hy])) h1
      have i2 := ensureFs_finv hf.2 (fun y hy => hw y (by simp [writesEs, hy])) h2
      exact i1.hoists.append i2

/-- all positions already fine: nothing happens -/
theorem ensureFs_ok (cfg : Config) (pk : String) : ∀ (fs : List String) (xs : List Expr) (n : Nat),
    fs.length = xs.length → (∀ p ∈ fs.zip xs, okChild cfg pk p.1 p.2 = true) → ensureFs cfg pk fs xs n = (xs, [], n)
  | [], [], n, _, _ => by simp [ensureFs]
  | [], _ :: _, n, hl, _ => by simp at hl
  | _ :: _, [], n, hl, _ => by simp at hl
  | f :: fs, x :: xs, n, hl, h => by
      have h1 := ensure_ok cfg pk f x n (h (f, x) (by simp))
      have h2 := ensureFs_ok cfg pk fs xs n (by simpa using hl) (fun p hp => h p (by simp [hp]))
      simp [ensureFs, h1, h2]

end Malt.Anf

namespace Malt.Anf
open Malt.Py Malt.SemAnf

/-! ### the three ways an operand is handled -/

/-- the operand is hoisted (`tmp = c1` after its own pending statements), the later operands create only
hoists of themselves (`H2`) -/
theorem sim_cons_hoisted (O : Oracle) {c c1 : Expr} {d1 H2 : List Stmt} {rest r2 : List Expr} {m : Nat}
    (hc : SimE O c c1 d1) (hr : SimL O rest r2 H2) (hf : fragE c1 = true)
    (hfr : ∀ σ, (execB O H2 σ).2.get (tmpName m) = σ.get (tmpName m)) :
    SimL O (c :: rest) (.name 0 (tmpName m) .load :: r2) (d1 ++ (tmpAssign m c1 :: H2)) := by
  intro σ σ' hA
  have h1 := hc σ σ' hA
  rw [execB_append]
  rcases hd : execB O d1 σ' with ⟨o, σa'⟩
  rw [hd] at h1
  rw [evalOpts_cons O c rest σ]
  rcases hv : evalE O c σ with ⟨r, σc⟩
  rw [hv] at h1
  cases o with
  | normal =>
    obtain ⟨hval, hag⟩ := h1
    simp only [execB, exec_tmpAssign O m c1 σa' hf]
    rcases hv1 : evalE O c1 σa' with ⟨r1, σb'⟩
    rw [hv1] at hval hag
    simp only at hval hag
    subst hval
    cases r1 with
    | error x => exact ⟨rfl, hag⟩
    | ok v =>
      have hag2 : Agree σc (σb'.set (tmpName m) v) := hag.set_temp (isTempName_tmpName m) v
      have hs2 := hr σc _ hag2
      have hget := hfr (σb'.set (tmpName m) v)
      simp only
      rcases hh : execB O H2 (σb'.set (tmpName m) v) with ⟨o2, σd'⟩
      rw [hh] at hs2 hget
      simp only [get_set, if_true] at hget
      cases o2 with
      | normal =>
        obtain ⟨hv2, hag3⟩ := hs2
        simp only [evalOpts_cons O (.name 0 (tmpName m) .load), evalE, hget]
        exact ⟨consR_fst_congr v hv2, by rw [consR_snd, consR_snd]; exact hag3⟩
      | raise x =>
        obtain ⟨hv2, hag3⟩ := hs2
        exact ⟨consR_fst_error v hv2, by rw [consR_snd]; exact hag3⟩
      | brk => exact hs2.elim
      | cont => exact hs2.elim
      | ret _ => exact hs2.elim
  | raise x =>
    obtain ⟨hval, hag⟩ := h1
    simp only at hval hag
    subst hval
    exact ⟨rfl, hag⟩
  | brk => exact h1.elim
  | cont => exact h1.elim
  | ret _ => exact h1.elim

/-- the operand stays in place and nothing at all is created for the later operands -/
theorem sim_cons_inplace (O : Oracle) {c c1 : Expr} {d1 : List Stmt} {rest : List Expr}
    (hc : SimE O c c1 d1) (hr : SimL O rest rest []) : SimL O (c :: rest) (c1 :: rest) d1 := by
  intro σ σ' hA
  have h1 := hc σ σ' hA
  rcases hd : execB O d1 σ' with ⟨o, σa'⟩
  rw [hd] at h1
  rw [evalOpts_cons O c rest σ]
  rcases hv : evalE O c σ with ⟨r, σc⟩
  rw [hv] at h1
  cases o with
  | normal =>
    obtain ⟨hval, hag⟩ := h1
    simp only [evalOpts_cons O c1 rest σa']
    rcases hv1 : evalE O c1 σa' with ⟨r1, σb'⟩
    rw [hv1] at hval hag
    simp only at hval hag
    subst hval
    cases r1 with
    | error x => exact ⟨rfl, hag⟩
    | ok v =>
      have hs2 := hr σc σb' hag
      simp only [execB] at hs2
      obtain ⟨hv2, hag3⟩ := hs2
      exact ⟨consR_fst_congr v hv2, by rw [consR_snd, consR_snd]; exact hag3⟩
  | raise x =>
    obtain ⟨hval, hag⟩ := h1
    simp only at hval hag
    subst hval
    exact ⟨rfl, hag⟩
  | brk => exact h1.elim
  | cont => exact h1.elim
  | ret _ => exact h1.elim

/-- the operand is an atom that stays in place; whatever the later operands create (`G`) does not rebind it -/
theorem sim_cons_atom (O : Oracle) {c : Expr} {G : List Stmt} {rest r2 : List Expr} (hat : isAtom c = true)
    (hnt : ∀ y ∈ namesE c, isTempName y = false)
    (hfr : ∀ σ, ∀ y ∈ namesE c, (execB O G σ).2.get y = σ.get y)
    (hr : SimL O rest r2 G) : SimL O (c :: rest) (c :: r2) G := by
  intro σ σ' hA
  have hs2 := hr σ σ' hA
  have hsame : atomVal c (execB O G σ').2 = atomVal c σ := by
    cases c <;> simp [isAtom] at hat
    · next i s cx =>
      simp only [atomVal]
      rw [hfr σ' s (by simp [namesE])]
      exact (hA.2 s (hnt s (by simp [namesE]))).symm
    · rfl
  rw [evalOpts_cons O c rest σ, atom_eval O hat]
  rcases hh : execB O G σ' with ⟨o2, σd'⟩
  rw [hh] at hs2 hsame
  simp only at hsame
  cases o2 with
  | normal =>
    obtain ⟨hv2, hag3⟩ := hs2
    simp only [evalOpts_cons O c r2 σd', atom_eval O hat, hsame]
    exact ⟨consR_fst_congr _ hv2, by rw [consR_snd, consR_snd]; exact hag3⟩
  | raise x =>
    obtain ⟨hv2, hag3⟩ := hs2
    exact ⟨consR_fst_error _ hv2, by rw [consR_snd]; exact hag3⟩
  | brk => exact hs2.elim
  | cont => exact hs2.elim
  | ret _ => exact hs2.elim

end Malt.Anf
